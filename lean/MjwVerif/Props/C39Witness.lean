/-
  C39 witnesses: statements one might expect of `contact_force` ("returns mj_contactForce's result for
  every requested contact") that are FALSE of the generated code, each refuted on a concrete input.

  W1.  `contact_force_fn` tests `contact_id <= nacon_in[0]` (mj_contactForce: `id < ncon`).  With
       id = nacon it decodes whatever the (stale) slot `nacon` holds.  FUNCTION-LEVEL ONLY: every caller
       (`contact_force_kernel`, smooth._cfrc_ext_contact, the contact sensors) has already rejected
       id ≥ nacon, see `Props/C39.kernel_masks_off_by_one`; W1b shows the kernel on the same data.
  W2.  For a requested id ≥ nacon the kernel does not write: `out[tid]` keeps its pre-launch value, whereas
       mj_contactForce zeroes its result.  (`contact_force` does not clear `force` before the launch.)
  W3.  Elliptic cone: the copy loop guards `efc_address[id, i] < njmax` but not `≥ 0`.  `_efc_contact_init`
       writes −1 into the trailing addresses of a contact whose block crosses njmax (nefc overflow), so the
       loop reads `efc_force[worldid, -1]`: two efc_force arrays that agree on all valid rows (≥ 0) give
       different results.  (The pyramidal branch is immune: it derives the rows from efc_address[id,0].)
       Reproduced on the real code (Warp 1.17 CPU, where a negative index wraps to the end of the row):
       two condim-3 spheres on a plane, cone=elliptic, make_data(njmax=4): contact 1 gets addresses
       (3,−1,−1); with efc_force[0] = (1,2,3,4) `contact_force` returns (4,4,4,0,0,0) for it — the
       tangential components are copies of the LAST row, efc_force[0, njmax−1].  Only reachable after
       nefc overflow (which is itself reported through the overflow flag).
  W4.  Adhesion: the code returns mj_contactForce − adhesion[id]·e₀.  With adhesion ≠ 0 the result differs
       from mj_contactForce and the reported normal force can be negative although every pyramid edge
       force is ≥ 0 (so `normal_force_nonneg` is a statement about `_decode_pyramid`, not about
       `contact_force` when adhesion is present).
-/
import MjwVerif.Lemmas.C39

set_option linter.unusedVariables false
set_option linter.unusedSimpArgs false

namespace Mjw.Props.C39Witness
open Mjw Mjw.Gen.Support Mjw.Spec.ContactForce Mjw.Lemmas.C39

def frameI : Int → M33 ℝ := fun _ => ⟨1, 0, 0, 0, 1, 0, 0, 0, 1⟩
def fric1 : Int → V5 ℝ := fun _ => ⟨1, 1, 0, 0, 0⟩

/-- W1a: nacon = 1, requested id = 1 (= nacon), slot 1 holds a stale condim-1 contact at row 0 with
    efc_force 7: `contact_force_fn` returns (7,0,0,0,0,0); mj_contactForce returns 0. -/
theorem fn_accepts_id_eq_nacon_witness :
    contact_force_fn 0 frameI fric1 (fun _ => 1) (fun _ _ => 0) (fun _ => 0) (fun _ _ => (7:ℝ)) 10
        (fun _ => 1) 0 1 false = ⟨7, 0, 0, 0, 0, 0⟩ ∧
    contactForce true 1 1 0 (shifted (fun _ => (7:ℝ)) 0) (fric1 1) 1 = V6.zero ∧
    (⟨7, 0, 0, 0, 0, 0⟩ : V6 ℝ) ≠ V6.zero := by
  refine ⟨?_, ?_, ?_⟩
  · rw [fn_local_active _ _ _ _ _ _ _ _ _ _ _ (by norm_num) (by norm_num) (by norm_num)]
    simp [_decode_pyramid, V6.zero, V6.fill]
  · simp [contactForce]
  · simp [V6.zero, V6.fill]

/-- W1b: the kernel on the same data (contact_ids = [1]) does not call it: no write at all. -/
theorem kernel_masks_id_eq_nacon_witness (out : Int → V6 ℝ) :
    contact_force_kernel 0 frameI fric1 (fun _ => 1) (fun _ _ => 0) (fun _ => 0) (fun _ => 0)
        (fun _ _ => (7:ℝ)) 10 (fun _ => 1) (fun _ => 1) false out 0 = [] := by
  simp [contact_force_kernel]

/-- W2: … and therefore `out[0]` keeps its pre-launch content (here all ones), not mj_contactForce's zero. -/
theorem kernel_ge_nacon_leaves_out_witness :
    Write.lookupV
        (contact_force_kernel 0 frameI fric1 (fun _ => 1) (fun _ _ => 0) (fun _ => 0) (fun _ => 0)
          (fun _ _ => (7:ℝ)) 10 (fun _ => 1) (fun _ => 1) false (fun _ => V6.fill 1) 0)
        "out" [0] (V6.toList (V6.fill (1:ℝ)))
      = [1, 1, 1, 1, 1, 1] ∧
    V6.toList (contactForce true 1 1 0 (shifted (fun _ => (7:ℝ)) 0) (fric1 1) 1) = [0, 0, 0, 0, 0, 0] := by
  constructor
  · rw [kernel_masks_id_eq_nacon_witness]
    simp [Write.lookupV, V6.toList, V6.fill]
  · simp [contactForce, V6.zero, V6.fill, V6.toList]

/-- W3: elliptic, condim 3, njmax = 6, the contact's block starts at row 5 so `_efc_contact_init` stored the
    addresses (5, −1, −1).  Two efc_force arrays that agree on every row ≥ 0 give different wrenches:
    the function reads row −1. -/
theorem elliptic_reads_row_minus_one_witness :
    let adr : Int → Int → Int := fun _ i => if i = 0 then 5 else -1
    let efc₁ : Int → Int → ℝ := fun _ _ => 0
    let efc₂ : Int → Int → ℝ := fun _ r => if r = -1 then 9 else 0
    (∀ w r, 0 ≤ r → efc₁ w r = efc₂ w r) ∧
    contact_force_fn 1 frameI fric1 (fun _ => 3) adr (fun _ => 0) efc₁ 6 (fun _ => 1) 0 0 false
      = ⟨0, 0, 0, 0, 0, 0⟩ ∧
    contact_force_fn 1 frameI fric1 (fun _ => 3) adr (fun _ => 0) efc₂ 6 (fun _ => 1) 0 0 false
      = ⟨0, 9, 9, 0, 0, 0⟩ := by
  intro adr efc₁ efc₂
  refine ⟨?_, ?_, ?_⟩
  · intro w r hr
    have : r ≠ -1 := by omega
    simp [efc₁, efc₂, this]
  · rw [fn_local_active _ _ _ _ _ _ _ _ _ _ _ (by norm_num) (by norm_num) (by simp [adr])]
    simp only [show ((1:Int) = 0) = False by simp, if_false]
    rw [ellLoop_eq _ _ _ _ (Or.inr (Or.inl rfl))]
    simp [copyRows, ellMasked, adr, efc₁]
  · rw [fn_local_active _ _ _ _ _ _ _ _ _ _ _ (by norm_num) (by norm_num) (by simp [adr])]
    simp only [show ((1:Int) = 0) = False by simp, if_false]
    rw [ellLoop_eq _ _ _ _ (Or.inr (Or.inl rfl))]
    simp [copyRows, ellMasked, adr, efc₂]

/-- W4: pyramidal condim 3, the four edge forces all 1 (≥ 0), μ = (1,1), adhesion 5: mj_contactForce gives
    normal force 4; `contact_force_fn` reports −1. -/
theorem adhesion_negative_normal_witness :
    contact_force_fn 0 frameI fric1 (fun _ => 3) (fun _ i => i) (fun _ => 5) (fun _ _ => (1:ℝ)) 10
        (fun _ => 1) 0 0 false = ⟨-1, 0, 0, 0, 0, 0⟩ ∧
    contactForce true 1 0 0 (shifted (fun _ => (1:ℝ)) 0) (fric1 0) 3 = ⟨4, 0, 0, 0, 0, 0⟩ := by
  constructor
  · rw [fn_local_active _ _ _ _ _ _ _ _ _ _ _ (by norm_num) (by norm_num) (by norm_num)]
    simp only [if_true]
    rw [decode3_masked]
    simp [decodePyramid, tangent, sumTo, masked, fric1, V5.get]
    norm_num
  · simp [contactForce, decodePyramid, tangent, sumTo, shifted, fric1, V5.get]
    norm_num

end Mjw.Props.C39Witness
