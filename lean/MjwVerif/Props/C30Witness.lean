/-
  C30 witness: the history buffer that mujoco_warp's `make_data` / `reset_data` leave behind is NOT a valid
  buffer, and delayed reads from it differ from MuJoCo's.

  Facts about the host code (not expressible on the translated kernels; confirmed by probe on /repo):
  `io.make_data` allocates `d.history` as zeros and `io.reset_data` never writes it, whereas MuJoCo's
  `mj_makeData/mj_resetData` initialise every buffer to
      [user = 0, cursor = n-1, times = -n·dt, …, -dt, values = 0].
  Here `zeroBuf` is the all-zero row and `mjBuf` the MuJoCo-initialised row for ONE buffer at offset 0 with
  `n = 2`, `dt = 1/128` (`Lemmas/C30.lean`).  All theorems are about the generated functions
  `Mjw.Gen.History._history_insert_scalar` / `_history_read_scalar` on these concrete rows.

  Scenario of `delayed_read_differs_witness`: actuator with `nsample = 2`, `delay = 2·dt`, ZOH.
  Step 0 inserts `(t = 0, ctrl = 1)`.  At step 1 (`time = dt`) the delayed control is read at
  `t = dt - 2·dt = -dt`.  MuJoCo (and mujoco_warp started from `mjBuf`) returns the initial value `0`
  (the control applied one step ago must not be visible yet).  Started from the all-zero buffer,
  mujoco_warp returns `1`: the first insertion hits the "exact match" case on the bogus time stamp `0`
  and every read with `t ≤ 1e-6` returns that slot.  I.e. the delay is ignored at the start of an episode.
-/
import MjwVerif.Lemmas.Real
import MjwVerif.Lemmas.C30
import MjwVerif.Gen.History

namespace Mjw.Props.C30
open Mjw Mjw.Hist Mjw.Lemmas.C30

/-- (6) the all-zero buffer does not satisfy `Inv` (both time stamps are 0: not strictly increasing) -/
theorem zero_initialised_buffer_breaks_inv : ¬ Inv zeroBuf 0 0 2 := zero_not_inv

/-- … whereas the MuJoCo-initialised one does -/
theorem mj_initialised_buffer_inv : MjInit mjBuf 0 0 2 (1 / 128) ∧ Inv mjBuf 0 0 2 :=
  ⟨mjBuf_init, (run_inv (fuel := 1) (fun _ => 0) (by norm_num) (by norm_num) (by norm_num) (by norm_num)
    mjBuf_init 0).1⟩

/-- what the first insertion does to the all-zero buffer: "exact match" on the bogus time 0, so only
    `values[1]` (cell 5) is written; times stay `0, 0`, the cursor stays 0 -/
theorem zero_buffer_first_insert_witness (fuel : Nat) (w k : Int) :
    step (fun b => Gen.History._history_insert_scalar 0 0 2 0 1 b fuel) zeroBuf w k
      = if w = 0 ∧ k = 5 then 1 else 0 :=
  zero_after_one fuel w k

/-- (6') **the delayed read differs**: after ONE insertion `(t = 0, value = 1)`, the ZOH read at
    `t = -1/128` (= `1·dt - 2·dt`) returns `1` from the all-zero buffer but `0` from the MuJoCo-initialised
    buffer (which is what `delayed_ctrl_is_past_sample` says it must be: `k = 1 < m = 2`). -/
theorem delayed_read_differs_witness (fuel : Nat) :
    Gen.History._history_read_scalar
        (step (fun b => Gen.History._history_insert_scalar 0 0 2 0 1 b fuel) zeroBuf) 0 0 2 (-(1 / 128)) 0 fuel = 1
    ∧ Gen.History._history_read_scalar
        (step (fun b => Gen.History._history_insert_scalar 0 0 2 0 1 b fuel) mjBuf) 0 0 2 (-(1 / 128)) 0 fuel = 0 := by
  constructor
  · exact zero_read_after_one fuel
  · have hf : (2 : Int) - 1 ≤ 2 ^ fuel := by
      have : (1 : Int) ≤ 2 ^ fuel := by exact_mod_cast Nat.one_le_two_pow
      omega
    have h := run_read (w := 0) (off := 0) (n := 2) (fuel := fuel) (fun _ => 1) (by norm_num) (by norm_num) hf
      (by rw [eps_real]; norm_num) mjBuf_init 1 2 (by norm_num) (by norm_num)
    have e1 : runCtrl mjBuf 0 0 2 (1 / 128) (fun _ => 1) fuel 1
        = step (fun b => Gen.History._history_insert_scalar 0 0 2 0 1 b fuel) mjBuf := by
      show step _ mjBuf = step _ mjBuf
      norm_num
    have e2 : ((((1 : Nat) : Int) - ((2 : Nat) : Int) : Int) : ℝ) * (1 / 128) = -(1 / 128) := by norm_num
    rw [e1, e2] at h
    rw [h]
    unfold ctrlAt
    norm_num

/-- the two reads differ -/
theorem delayed_read_differs_ne_witness (fuel : Nat) :
    Gen.History._history_read_scalar
        (step (fun b => Gen.History._history_insert_scalar 0 0 2 0 1 b fuel) zeroBuf) 0 0 2 (-(1 / 128)) 0 fuel
    ≠ Gen.History._history_read_scalar
        (step (fun b => Gen.History._history_insert_scalar 0 0 2 0 1 b fuel) mjBuf) 0 0 2 (-(1 / 128)) 0 fuel := by
  rw [(delayed_read_differs_witness fuel).1, (delayed_read_differs_witness fuel).2]
  norm_num

/-- second way to break `Inv`: `init_ctrl_history(m, d, ctrlid, times=None, values)` launches
    `_init_ctrl_history_kernel` with `has_times = 0`, which writes `-mjMAXVAL = -1e10` into EVERY time slot
    (MuJoCo's `mj_initCtrlHistory` documents "if times is NULL, uses existing buffer timestamps").
    Here: `nsample = 2`, offset 0, applied to the all-zero row: cursor 1, times `-1e10, -1e10`. -/
theorem init_without_times_breaks_inv_witness :
    (initNoTimes 0 1 = 1 ∧ initNoTimes 0 2 = -(10 ^ 10) ∧ initNoTimes 0 3 = -(10 ^ 10))
    ∧ ¬ Inv initNoTimes 0 0 2 :=
  ⟨initNoTimes_cells, initNoTimes_not_inv⟩

end Mjw.Props.C30
