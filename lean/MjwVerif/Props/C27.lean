/-
  C27  Velocity derivatives are correct.

  Source: /repo/mujoco_warp/_src/util_misc.py (`_poly_force`, `_poly_force_deriv`, `poly_potential`),
  derivative.py (`_qderiv_actuator_passive_vel`, `_qderiv_actuator_passive`, `_qderiv_tendon_damping`),
  forward.py (`_compute_damping_deriv`), passive.py (callers of `_poly_force`).

  READ THIS FIRST (1).  `_poly_force(linear, poly, x, flg_odd)` is NOT a force: it is the (state dependent)
  stiffness / damping COEFFICIENT  k(x) = linear + poly₀·x̃ + poly₁·x̃²  with x̃ = |x| if flg_odd == 1 else x.
  Every caller in passive.py forms the force as  F(x) = −x·k(x)   (`-v * _poly_force(damping, dpoly, v, 1)`,
  `-fdif * _poly_force(stiffness, spoly, fdif, 0)`, …).   `_poly_force_deriv` = linear + 2·poly₀·x̃ + 3·poly₁·x̃²
  is  d/dx [x·k(x)] = −dF/dx,  and NOT d/dx k(x).  So
    * the literal statement "HasDerivAt (_poly_force …) (_poly_force_deriv …)" is FALSE
      (`poly_force_deriv_literal_witness` in Props/C27Witness.lean), and
    * the statement the code needs, d/dx [x·_poly_force(x)] = _poly_force_deriv(x), is TRUE for all
      coefficients, both values of the flag and EVERY x including x = 0 (`poly_force_deriv_is_derivative`).

  Sections: 1 polynomial force law · 2 potential · 3 kernels (`_compute_damping_deriv`,
  `_qderiv_actuator_passive`, `_qderiv_actuator_passive_vel`, `_qderiv_tendon_damping`) · 4 examples.
-/
import MjwVerif.Lemmas.C27
import MjwVerif.Lemmas.C03
import MjwVerif.Gen.Derivative
import MjwVerif.Gen.Forward

set_option linter.unusedVariables false
set_option linter.unusedSimpArgs false

namespace Mjw.Props.C27
open Mjw Mjw.Gen.Util_misc Mjw.Gen.Derivative Mjw.Gen.Forward Mjw.Lemmas.C24 Mjw.Lemmas.C27 Mjw.Lemmas.C03

/-! ## 1. the polynomial force law -/

/-- **`_poly_force_deriv` is the derivative of `x ↦ x·_poly_force(x)`** — for all coefficients, for both
    settings of `flg_odd` (any integer; only `== 1` matters) and at every x, including x = 0 where `|x|`
    itself is not differentiable (x·|x| is). -/
theorem poly_force_deriv_is_derivative (lin : ℝ) (poly : V2 ℝ) (x : ℝ) (odd : Int) :
    HasDerivAt (fun y => y * _poly_force lin poly y odd) (_poly_force_deriv lin poly x odd) x := by
  simp only [poly_force_closed, poly_force_deriv_closed, xval]
  by_cases ho : odd = 1
  · simp only [ho, if_true]
    have h := ((hasDerivAt_id' x).const_mul lin).add
      (((hasDerivAt_mul_abs x).const_mul poly.c0).add ((hasDerivAt_cube x).const_mul poly.c1))
    refine hasDerivAt_congr h (fun y => ?_) ?_
    · have := abs_mul_abs_self y
      simp only [Pi.add_apply]
      linear_combination (poly.c1 * y) * this
    · have := abs_mul_abs_self x
      linear_combination (3 * poly.c1) * this
  · simp only [ho, if_false]
    have h := ((hasDerivAt_id' x).const_mul lin).add
      (((hasDerivAt_quad 1 x).const_mul poly.c0).add ((hasDerivAt_cube x).const_mul poly.c1))
    refine hasDerivAt_congr h (fun y => ?_) ?_
    · simp only [Pi.add_apply]; ring
    · ring

/-- the damper force of passive.py, `F(v) = −v·_poly_force(damping, dpoly, v, 1)`, has derivative
    `−_poly_force_deriv(damping, dpoly, v, 1)` at every v: the quantity `_qderiv_actuator_passive`,
    `_qderiv_tendon_damping`, `_compute_damping_deriv` and `_qfrc_eulerdamp` use. -/
theorem damper_force_hasDerivAt (damping : ℝ) (dpoly : V2 ℝ) (v : ℝ) :
    HasDerivAt (fun y => -y * _poly_force damping dpoly y 1) (-(_poly_force_deriv damping dpoly v 1)) v := by
  have h := (poly_force_deriv_is_derivative damping dpoly v 1).neg
  refine hasDerivAt_congr h (fun y => ?_) rfl
  simp only [Pi.neg_apply]; ring

/-- the spring force of passive.py (hinge / slide / tendon), `F(x) = −x·_poly_force(stiffness, spoly, x, 0)`. -/
theorem spring_force_hasDerivAt (k : ℝ) (spoly : V2 ℝ) (x : ℝ) :
    HasDerivAt (fun y => -y * _poly_force k spoly y 0) (-(_poly_force_deriv k spoly x 0)) x := by
  have h := (poly_force_deriv_is_derivative k spoly x 0).neg
  refine hasDerivAt_congr h (fun y => ?_) rfl
  simp only [Pi.neg_apply]; ring

/-- linear case (`poly = 0`): coefficient and derivative are both the constant `linear`
    (MuJoCo's classic `-damping·v`, `-stiffness·x`). -/
theorem poly_force_linear (lin x : ℝ) (odd : Int) :
    _poly_force lin ⟨0, 0⟩ x odd = lin ∧ _poly_force_deriv lin ⟨0, 0⟩ x odd = lin := by
  rw [poly_force_closed, poly_force_deriv_closed]; simp

/-- dissipativity: with non-negative coefficients the damper never injects power, `F(v)·v ≤ 0`, and the
    derivative coefficient is non-negative (the implicit-damping matrices `M + h·diag B` only grow). -/
theorem damper_dissipative (damping : ℝ) (dpoly : V2 ℝ) (v : ℝ) (h0 : 0 ≤ damping) (h1 : 0 ≤ dpoly.c0)
    (h2 : 0 ≤ dpoly.c1) :
    (-v * _poly_force damping dpoly v 1) * v ≤ 0 ∧ 0 ≤ _poly_force_deriv damping dpoly v 1 := by
  rw [poly_force_closed, poly_force_deriv_closed]
  simp only [xval, if_true]
  have ha := abs_nonneg v
  have hk : 0 ≤ damping + dpoly.c0 * |v| + dpoly.c1 * |v| * |v| := by positivity
  constructor
  · have : 0 ≤ v * v := mul_self_nonneg v
    nlinarith [mul_nonneg hk this]
  · positivity

/-! ## 2. the potential -/

/-- `poly_potential` has derivative `x·k̃(x)` where `k̃` is `_poly_force` with the quadratic coefficient
    `poly₀` replaced by `3·0.3333333333333333·poly₀`: the translator prints Python's `1.0/3.0` as the decimal
    `0.3333333333333333`, so over ℝ the factor is `0.9999999999999999`, not 1 (in binary32 it rounds to 1/3's
    nearest float either way).  All x, both flag settings. -/
theorem poly_potential_hasDerivAt (lin : ℝ) (poly : V2 ℝ) (x : ℝ) (odd : Int) :
    HasDerivAt (fun y => poly_potential lin poly y odd)
      (x * _poly_force lin ⟨3 * (3333333333333333 / 10 ^ 16) * poly.c0, poly.c1⟩ x odd) x := by
  simp only [poly_potential_closed, poly_force_closed, xval]
  by_cases ho : odd = 1
  · simp only [ho, if_true]
    have hc : HasDerivAt (fun y : ℝ => y * (y * |y|)) (3 * (x * |x|)) x := by
      have := (hasDerivAt_id' x).mul (hasDerivAt_mul_abs x)
      refine hasDerivAt_congr this (fun y => rfl) ?_
      ring
    have h := ((hasDerivAt_quad (1 / 2 * lin) x).add
      (hc.const_mul (poly.c0 * (3333333333333333 / 10 ^ 16)))).add
      ((hasDerivAt_quartic x).const_mul (poly.c1 * (1 / 4)))
    refine hasDerivAt_congr h (fun y => ?_) ?_
    · have := abs_mul_abs_self y
      simp only [Pi.add_apply]
      linear_combination (1 / 2 * lin + poly.c0 * (3333333333333333 / 10 ^ 16) * |y|
        + poly.c1 * (1 / 4) * (|y| * |y| + y * y)) * this
    · have := abs_mul_abs_self x
      linear_combination (x * poly.c1) * this
  · simp only [ho, if_false]
    have h := ((hasDerivAt_quad (1 / 2 * lin) x).add
      ((hasDerivAt_cube x).const_mul (poly.c0 * (3333333333333333 / 10 ^ 16)))).add
      ((hasDerivAt_quartic x).const_mul (poly.c1 * (1 / 4)))
    refine hasDerivAt_congr h (fun y => ?_) ?_
    · simp only [Pi.add_apply]; ring
    · ring

/-- … hence exactly `x·_poly_force(x)` (force = −∂potential/∂x for `F = −x·k(x)`) when `poly₀ = 0`;
    in general the defect is `10⁻¹⁶·poly₀·x·x̃` (decimal-literal artefact of the ℝ model). -/
theorem poly_potential_hasDerivAt_exact (lin : ℝ) (poly : V2 ℝ) (x : ℝ) (odd : Int) (h0 : poly.c0 = 0) :
    HasDerivAt (fun y => poly_potential lin poly y odd) (x * _poly_force lin poly x odd) x := by
  have h := poly_potential_hasDerivAt lin poly x odd
  have e : (⟨3 * (3333333333333333 / 10 ^ 16) * poly.c0, poly.c1⟩ : V2 ℝ) = poly := by
    cases poly; simp only at h0; subst h0; simp
  rwa [e] at h

theorem poly_potential_deriv_defect (lin : ℝ) (poly : V2 ℝ) (x : ℝ) (odd : Int) :
    x * _poly_force lin ⟨3 * (3333333333333333 / 10 ^ 16) * poly.c0, poly.c1⟩ x odd
      = x * _poly_force lin poly x odd - 1 / 10 ^ 16 * poly.c0 * x * xval x odd := by
  simp only [poly_force_closed]; ring

/-! ## 3. kernels -/

section kernels

/-- `_compute_damping_deriv` stores `B_i = _poly_force_deriv(dof_damping_i, dof_dampingpoly_i, qvel_i, 1)`
    = −∂(damper force)/∂qvel_i (by `damper_force_hasDerivAt`). -/
theorem compute_damping_deriv_spec (damping : Int → Int → ℝ) (dpoly : Int → Int → V2 ℝ)
    (qvel out : Int → Int → ℝ) (s1 s2 w i : Int) :
    _compute_damping_deriv damping dpoly qvel out s1 s2 w i
      = [Write.mk "deriv_out" [w, i]
          (WVal.f (_poly_force_deriv (damping (Int.tmod w s1) i) (dpoly (Int.tmod w s2) i) (qvel w i) 1))
          WKind.set] ∧
    HasDerivAt (fun v => -v * _poly_force (damping (Int.tmod w s1) i) (dpoly (Int.tmod w s2) i) v 1)
      (-(_poly_force_deriv (damping (Int.tmod w s1) i) (dpoly (Int.tmod w s2) i) (qvel w i) 1)) (qvel w i) :=
  ⟨rfl, damper_force_hasDerivAt _ _ _⟩

/-- `_qderiv_actuator_passive` (assembles `M − h·qDeriv` entry-wise; `qDeriv_in` holds the actuator part):
    off-pattern pairs write nothing; otherwise exactly one store
      `out[w, madr] := M[w, madr] − h·(qDeriv_in[w, madr] − [damper enabled ∧ i = j]·B_i)`,
    i.e. the dof-damping contribution to qDeriv is `−B_i = ∂(damper force)/∂qvel_i` on the diagonal.
    `DisableBit.DAMPER = 64`. -/
theorem qderiv_actuator_passive_spec (h : Int → ℝ) (flags : Int) (damping : Int → Int → ℝ)
    (dpoly : Int → Int → V2 ℝ) (elemid : Int → Int → Int) (qvel M : Int → Int → ℝ) (Mi Mj : Int → Int)
    (qin qout : Int → Int → ℝ) (s1 s2 s0 w e : Int) :
    _qderiv_actuator_passive h flags damping dpoly elemid qvel M Mi Mj qin qout s1 s2 s0 w e
      = if elemid (Mi e) (Mj e) < 0 then []
        else [Write.mk "qDeriv_out" [w, elemid (Mi e) (Mj e)]
          (WVal.f (M w (elemid (Mi e) (Mj e))
            - (qin w (elemid (Mi e) (Mj e))
                - (if Mjw.iand flags 64 = 0 ∧ Mi e = Mj e then
                     _poly_force_deriv (damping (Int.tmod w s1) (Mi e)) (dpoly (Int.tmod w s2) (Mi e))
                       (qvel w (Mi e)) 1
                   else 0)) * h (Int.tmod w s0))) WKind.set] := by
  unfold _qderiv_actuator_passive
  by_cases hm : elemid (Mi e) (Mj e) < 0
  · simp only [hm, decide_true, if_true]
  · simp only [hm, decide_false, Bool.false_eq_true, if_false]
    by_cases hc : Mjw.iand flags 64 = 0 ∧ Mi e = Mj e
    · have : ((!(decide (Mjw.iand flags 64 ≠ 0))) && (decide (Mi e = Mj e))) = true := by
        simp [hc.1, hc.2]
      simp only [this, if_true, if_pos hc, hsub, hmul, List.nil_append]
    · have : ((!(decide (Mjw.iand flags 64 ≠ 0))) && (decide (Mi e = Mj e))) = false := by
        rw [Bool.and_eq_false_iff]
        by_cases h1 : Mjw.iand flags 64 = 0
        · right; simpa using fun h2 => hc ⟨h1, h2⟩
        · left; simp [h1]
      simp only [this, Bool.false_eq_true, if_false, if_neg hc, hsub, hmul, List.nil_append, sub_zero]

/-- the input the velocity gain multiplies in `_qderiv_actuator_passive_vel`: for stateless actuators
    (`dyntype == NONE`) the control `_actuator_force` uses, i.e. `Lemmas.C03.usedCtrl` = `ctrl` clamped to `ctrlrange`
    iff `ctrllimited` and CLAMPCTRL is not disabled; else the last activation variable (its next value if
    `actearly`). -/
noncomputable def velInput (h : Int → ℝ) (dyntype actadr actnum : Int → Int) (dynprm : Int → Int → V10 ℝ)
    (actlimited : Int → Bool) (actrange : Int → Int → V2 ℝ) (actearly : Int → Bool)
    (ctrllimited : Int → Bool) (ctrlrange : Int → Int → V2 ℝ)
    (act_in ctrl_in act_dot_in : Int → Int → ℝ) (dsbl : Int) (sdyn sh sar scr w a : Int) : ℝ :=
  if dyntype a ≠ 0 then
    (if actearly a then
      Mjw.Gen.Support.next_act (h (Int.tmod w sh)) (dyntype a) (dynprm (Int.tmod w sdyn) a)
        (actrange (Int.tmod w sar) a) (act_in w (actadr a + actnum a - 1)) (act_dot_in w (actadr a + actnum a - 1))
        (Scalar.lit 1 0) (actlimited a)
     else act_in w (actadr a + actnum a - 1))
  else usedCtrl (ctrllimited a) dsbl (ctrl_in w a) (ctrlrange (Int.tmod w scr) a)

/-- `usedCtrl` over ℝ, written out: `Scalar.clamp x lo hi = min (max lo x) hi` -/
theorem usedCtrl_real (lim : Bool) (dsbl : Int) (x : ℝ) (rng : V2 ℝ) :
    usedCtrl lim dsbl x rng = if lim = true ∧ dsbl = 0 then min (max rng.c0 x) rng.c1 else x := by
  unfold usedCtrl
  by_cases h : lim = true ∧ dsbl = 0
  · obtain ⟨h1, h2⟩ := h
    subst h1; subst h2
    simp [Scalar.clamp]
  · rw [if_neg h]
    have : (lim && !(decide (dsbl ≠ 0))) = false := by
      rw [Bool.and_eq_false_iff]
      by_cases h1 : lim = true
      · right; simpa using fun h2 => h ⟨h1, h2⟩
      · left; simpa using h1
    simp only [this, Bool.false_eq_true, if_false]

/-- **`_qderiv_actuator_passive_vel`, affine gain and affine bias** (`GainType.AFFINE = BiasType.AFFINE = 1`;
    position / velocity / damper / general actuators), force not clamped by `forcerange`: exactly one store
      `vel[w,a] := biasprm[2] + gainprm[2] · u`,     u = `velInput` (clamped ctrl, or activation),
    in every sub-case of the code (both zero → the early `0`; gain = 0 → bias only; …). -/
theorem qderiv_actuator_vel_affine (h : Int → ℝ) (dyntype gaintype biastype actadr actnum : Int → Int)
    (dynprm gainprm biasprm : Int → Int → V10 ℝ) (actlimited : Int → Bool) (actrange : Int → Int → V2 ℝ)
    (actearly forcelimited : Int → Bool) (frange : Int → Int → V2 ℝ)
    (ctrllimited : Int → Bool) (ctrlrange : Int → Int → V2 ℝ)
    (act_in ctrl_in act_dot_in force : Int → Int → ℝ) (dsbl : Int) (vel_out : Int → Int → ℝ)
    (sg sb sdyn sh sfr sar scr w a : Int)
    (hg : gaintype a = 1) (hb : biastype a = 1)
    (hcl : ¬ (forcelimited a = true ∧
      (force w a ≤ (frange (Int.tmod w sfr) a).c0 ∨ (frange (Int.tmod w sfr) a).c1 ≤ force w a))) :
    _qderiv_actuator_passive_vel h dyntype gaintype biastype actadr actnum dynprm gainprm biasprm actlimited
        actrange actearly forcelimited frange ctrllimited ctrlrange act_in ctrl_in act_dot_in force dsbl vel_out
        sg sb sdyn sh sfr sar scr w a
      = [Write.mk "vel_out" [w, a]
          (WVal.f ((biasprm (Int.tmod w sb) a).c2 + (gainprm (Int.tmod w sg) a).c2
            * velInput h dyntype actadr actnum dynprm actlimited actrange actearly ctrllimited ctrlrange
                act_in ctrl_in act_dot_in dsbl sdyn sh sar scr w a)) WKind.set] := by
  unfold _qderiv_actuator_passive_vel velInput usedCtrl
  simp only [hg, hb, decide_true, if_true]
  generalize (biasprm (Int.tmod w sb) a).c2 = b
  generalize (gainprm (Int.tmod w sg) a).c2 = g
  generalize Mjw.Gen.Support.next_act (h (Int.tmod w sh)) (dyntype a) (dynprm (Int.tmod w sdyn) a)
        (actrange (Int.tmod w sar) a) (act_in w (actadr a + actnum a - 1)) (act_dot_in w (actadr a + actnum a - 1))
        (Scalar.lit 1 0) (actlimited a) = na
  generalize Scalar.clamp (ctrl_in w a) (ctrlrange (Int.tmod w scr) a).c0 (ctrlrange (Int.tmod w scr) a).c1 = cc
  simp only [sbeq, sbne, sle, sge, lit0, hadd, hmul, Bool.and_eq_true, Bool.or_eq_true, List.nil_append,
    zero_add, decide_eq_true_eq, ne_eq]
  split_ifs <;> simp_all

/-- **the derivative kernel differentiates the force the force kernel computes**: `_qderiv_actuator_passive_vel`
    sees `ctrl` only through `usedCtrl(ctrllimited[a], dsbl_clampctrl, ctrl[w,a], ctrlrange[w % n, a])` — its task
    `(w, a)` gives the same writes as the task of an UNLIMITED actuator fed with that value — which is, with the
    same four arguments, exactly how `_actuator_force` sees it (`Lemmas.C03.actuator_force_ctrl_clamp`, restated
    as the second conjunct).  All gain / bias / dyn types, every scalar type `K`. -/
theorem qderiv_uses_same_ctrl_as_force {K : Type} [Scalar K]
    (na : Int) (h : Int → K) (dyntype gaintype biastype actadr actnum : Int → Int)
    (dynprm gainprm biasprm : Int → Int → V10 K) (actlimited : Int → Bool) (actrange : Int → Int → V2 K)
    (actearly forcelimited : Int → Bool) (frange : Int → Int → V2 K)
    (ctrllimited : Int → Bool) (ctrlrange : Int → Int → V2 K) (acc0 : Int → Int → K) (lengthrange : Int → Int → V2 K)
    (act_in ctrl_in act_dot_in force len velo : Int → Int → K) (dsbl : Int) (vel_out act_dot_out force_out : Int → Int → K)
    (sg sb sdyn sh sfr sar scr s5 s6 w a : Int) :
    _qderiv_actuator_passive_vel h dyntype gaintype biastype actadr actnum dynprm gainprm biasprm actlimited
        actrange actearly forcelimited frange ctrllimited ctrlrange act_in ctrl_in act_dot_in force dsbl vel_out
        sg sb sdyn sh sfr sar scr w a
      = _qderiv_actuator_passive_vel h dyntype gaintype biastype actadr actnum dynprm gainprm biasprm actlimited
        actrange actearly forcelimited frange (fun _ => false) ctrlrange act_in
        (fun _ _ => usedCtrl (ctrllimited a) dsbl (ctrl_in w a) (ctrlrange (Int.tmod w scr) a))
        act_dot_in force dsbl vel_out sg sb sdyn sh sfr sar scr w a
    ∧
    _actuator_force na h dyntype gaintype biastype actadr actnum dynprm gainprm biasprm actlimited actrange
        actearly forcelimited frange ctrllimited ctrlrange acc0 lengthrange act_in ctrl_in len velo dsbl
        act_dot_out force_out scr sdyn sg sh sb sar s5 s6 sfr w a
      = _actuator_force na h dyntype gaintype biastype actadr actnum dynprm gainprm biasprm actlimited actrange
        actearly forcelimited frange (fun _ => false) ctrlrange acc0 lengthrange act_in
        (fun _ _ => usedCtrl (ctrllimited a) dsbl (ctrl_in w a) (ctrlrange (Int.tmod w scr) a))
        len velo dsbl act_dot_out force_out scr sdyn sg sh sb sar s5 s6 sfr w a := by
  refine ⟨?_, actuator_force_ctrl_clamp _ _ _ _ _ _ _ _ _ _ _ _ _ _ _ _ _ _ _ _ _ _ _ _ _ _ _ _ _ _ _ _ _ _ _ _ _⟩
  unfold _qderiv_actuator_passive_vel
  conv => lhs; zeta
  conv => rhs; zeta
  -- the two big tuple-valued `if`s (gain block, bias block) do not involve ctrl: name their results
  generalize (ite (decide (gaintype a = 1) = true) _ _ : K × V10 K × V10 K × K × Int × K × K × K × K × K × K) = t1
  obtain ⟨g, p1, p2, p3, p4, p5, p6, p7, p8, p9, b0⟩ := t1
  dsimp only
  generalize (ite (decide (biastype a = 1) = true) _ _ :
    K × V10 K × K × V10 K × K × K × I6 × Int × Int × K × K × K × K) = t2
  obtain ⟨b, q1, q2, q3, q4, q5, q6, q7, q8, q9, q10, q11, q12⟩ := t2
  dsimp only
  -- the clamp block: same second component (the control used) on both sides
  generalize hL : (ite ((ctrllimited a && !decide (dsbl ≠ 0)) = true) _ _ : V2 K × K) = tL
  generalize hR : (ite ((false && !decide (dsbl ≠ 0)) = true) _ _ : V2 K × K) = tR
  have h2 : tL.2 = tR.2 := by
    rw [← hL, ← hR]
    simp only [usedCtrl, Bool.false_and, Bool.false_eq_true, if_false]
    split <;> rfl
  clear hL hR
  obtain ⟨x, y⟩ := tL
  obtain ⟨x', y'⟩ := tR
  simp only at h2
  subst h2
  dsimp only
  split_ifs <;> rfl

/-- what that number is: the affine actuator force of forward.py `_actuator_force`,
    `force = gain·u + bias`, `gain = g₀ + g₁·length + g₂·velocity`, `bias = b₀ + b₁·length + b₂·velocity`,
    has ∂force/∂velocity = `b₂ + g₂·u` (u does not depend on the current velocity). -/
theorem affine_force_hasDerivAt (g0 g1 g2 b0 b1 b2 len u vel : ℝ) :
    HasDerivAt (fun v => (g0 + g1 * len + g2 * v) * u + (b0 + b1 * len + b2 * v)) (b2 + g2 * u) vel := by
  have h := ((hasDerivAt_lin u (g0 + g1 * len) g2 vel).add (hasDerivAt_lin 1 (b0 + b1 * len) b2 vel))
  refine hasDerivAt_congr h (fun v => ?_) ?_
  · simp only [Pi.add_apply]; ring
  · ring

/-- same kernel, affine/affine, force clamped by `forcerange` (and not both coefficients zero): stores 0
    (a saturated actuator has zero velocity derivative). -/
theorem qderiv_actuator_vel_clamped (h : Int → ℝ) (dyntype gaintype biastype actadr actnum : Int → Int)
    (dynprm gainprm biasprm : Int → Int → V10 ℝ) (actlimited : Int → Bool) (actrange : Int → Int → V2 ℝ)
    (actearly forcelimited : Int → Bool) (frange : Int → Int → V2 ℝ)
    (ctrllimited : Int → Bool) (ctrlrange : Int → Int → V2 ℝ)
    (act_in ctrl_in act_dot_in force : Int → Int → ℝ) (dsbl : Int) (vel_out : Int → Int → ℝ)
    (sg sb sdyn sh sfr sar scr w a : Int)
    (hg : gaintype a = 1) (hb : biastype a = 1) (hfl : forcelimited a = true)
    (hcl : force w a ≤ (frange (Int.tmod w sfr) a).c0 ∨ (frange (Int.tmod w sfr) a).c1 ≤ force w a) :
    _qderiv_actuator_passive_vel h dyntype gaintype biastype actadr actnum dynprm gainprm biasprm actlimited
        actrange actearly forcelimited frange ctrllimited ctrlrange act_in ctrl_in act_dot_in force dsbl vel_out
        sg sb sdyn sh sfr sar scr w a
      = [Write.mk "vel_out" [w, a] (WVal.f (0 : ℝ)) WKind.set] := by
  unfold _qderiv_actuator_passive_vel
  simp only [hg, hb, decide_true, if_true, hfl]
  have hc : ((Scalar.le (force w a) (frange (Int.tmod w sfr) a).c0)
      || (Scalar.ge (force w a) (frange (Int.tmod w sfr) a).c1)) = true := by
    simpa [Bool.or_eq_true] using hcl
  simp only [hc, if_true, lit0, List.nil_append]
  split_ifs <;> rfl

/-- same kernel, neither gain nor bias of type AFFINE (1) or DCMOTOR (3) — e.g. a plain `motor`
    (fixed gain, no bias), muscles, user types: stores 0. -/
theorem qderiv_actuator_vel_none (h : Int → ℝ) (dyntype gaintype biastype actadr actnum : Int → Int)
    (dynprm gainprm biasprm : Int → Int → V10 ℝ) (actlimited : Int → Bool) (actrange : Int → Int → V2 ℝ)
    (actearly forcelimited : Int → Bool) (frange : Int → Int → V2 ℝ)
    (ctrllimited : Int → Bool) (ctrlrange : Int → Int → V2 ℝ)
    (act_in ctrl_in act_dot_in force : Int → Int → ℝ) (dsbl : Int) (vel_out : Int → Int → ℝ)
    (sg sb sdyn sh sfr sar scr w a : Int)
    (hg1 : gaintype a ≠ 1) (hg3 : gaintype a ≠ 3) (hb1 : biastype a ≠ 1) (hb3 : biastype a ≠ 3) :
    _qderiv_actuator_passive_vel h dyntype gaintype biastype actadr actnum dynprm gainprm biasprm actlimited
        actrange actearly forcelimited frange ctrllimited ctrlrange act_in ctrl_in act_dot_in force dsbl vel_out
        sg sb sdyn sh sfr sar scr w a
      = [Write.mk "vel_out" [w, a] (WVal.f (0 : ℝ)) WKind.set] := by
  unfold _qderiv_actuator_passive_vel
  simp only [hg1, hg3, hb1, hb3, decide_false, Bool.false_eq_true, if_false, sbeq, lit0, Bool.and_eq_true,
    and_self, if_true, List.nil_append]

/- NOT characterised (would be `qderiv_actuator_vel_dcmotor_partial`): the closed form of the DCMOTOR gain / bias
   branches (back-EMF, LuGre, thermal resistance terms; they need `dcmotor_slots` and the DC-motor force law of
   `_actuator_force`, ~300 generated lines).  `qderiv_uses_same_ctrl_as_force` does cover them.
   History: before /repo commit "fix: velocity derivative of affine actuators used the raw control…" the kernel
   multiplied the gain by the RAW `ctrl_in` while `_actuator_force` clamps ctrl to `ctrlrange` first (found by the
   former `clamped_ctrl_derivative_witness`); `clamped_ctrl_derivative_repaired` below is that witness's scenario,
   now a positive statement. -/

/-- **`_qderiv_tendon_damping`** (CSR rows of `ten_J` with pairwise distinct column indices): off-pattern
    pairs write nothing; otherwise exactly one store
      `out[w, madr] := out[w, madr] + h · Σ_t J_t[i]·J_t[j]·B_t`,
    `B_t = _poly_force_deriv(tendon_damping_t, tendon_dampingpoly_t, ten_velocity_t, 1)`, `J_t[d] = rowEntry …`
    the dense entry of tendon t's Jacobian row in column d.  With `out = M − h·qDeriv` on entry this is
    `qDeriv += −Jᵀ·diag(B)·J = ∂(Jᵀ·F_damper(J·qvel))/∂qvel` (`damper_force_hasDerivAt` for each tendon).
    All loops of the kernel are covered (tendons with all-zero coefficients are skipped by the code: their
    `B_t` is 0; the row scan's early `break` is sound because column indices are distinct). -/
theorem qderiv_tendon_damping_spec (ntendon : Int) (h : Int → ℝ) (rownnz rowadr colind : Int → Int)
    (tdamp : Int → Int → ℝ) (tpoly : Int → Int → V2 ℝ) (elemid : Int → Int → Int) (J tvel : Int → Int → ℝ)
    (Mi Mj : Int → Int) (qout : Int → Int → ℝ) (s1 s2 s0 w e : Int)
    (hd : ∀ t : Nat, t < ntendon.toNat → RowDistinct colind (rowadr t) (rownnz t).toNat) :
    _qderiv_tendon_damping ntendon h rownnz rowadr colind tdamp tpoly elemid J tvel Mi Mj qout s1 s2 s0 w e
      = if elemid (Mi e) (Mj e) < 0 then []
        else [Write.mk "qDeriv_out" [w, elemid (Mi e) (Mj e)]
          (WVal.f (qout w (elemid (Mi e) (Mj e))
            + h (Int.tmod w s0) * ∑ t ∈ Finset.range ntendon.toNat,
                rowEntry colind (J w) (rowadr t) (Mi e) (rownnz t).toNat
                  * rowEntry colind (J w) (rowadr t) (Mj e) (rownnz t).toNat
                  * _poly_force_deriv (tdamp (Int.tmod w s1) t) (tpoly (Int.tmod w s2) t) (tvel w t) 1))
          WKind.set] := by
  rw [qderiv_tendon_damping_eq, tendonAcc_real _ _ _ _ _ _ _ _ _ _ _ _ _ hd]
  by_cases hm : elemid (Mi e) (Mj e) < 0
  · simp only [hm, decide_true, if_true]
  · simp only [hm, decide_false, Bool.false_eq_true, if_false, hsub, hmul]
    congr 3
    ring

end kernels

/-! ## 4. non-vacuity -/

section examples

/-- damper with damping 2, dampingpoly (3, 1) at v = −2: coefficient k = 2 + 3·2 + 1·4 = 12, force = 24,
    derivative coefficient B = 2 + 2·3·2 + 3·1·4 = 26. -/
example : _poly_force (2:ℝ) ⟨3, 1⟩ (-2) 1 = 12 ∧ _poly_force_deriv (2:ℝ) ⟨3, 1⟩ (-2) 1 = 26 := by
  rw [poly_force_closed, poly_force_deriv_closed]
  simp only [xval, if_true]
  rw [show |(-2:ℝ)| = 2 by rw [abs_neg]; norm_num]
  norm_num

/-- same coefficients, flag 0 (spring convention) at x = −2: k = 2 − 6 + 4 = 0, derivative 2 − 12 + 12 = 2. -/
example : _poly_force (2:ℝ) ⟨3, 1⟩ (-2) 0 = 0 ∧ _poly_force_deriv (2:ℝ) ⟨3, 1⟩ (-2) 0 = 2 := by
  rw [poly_force_closed, poly_force_deriv_closed]
  simp only [xval]
  norm_num

/-- the derivative theorem at the kink x = 0 of the odd extension is a genuine instance -/
example : HasDerivAt (fun y => y * _poly_force (2:ℝ) ⟨3, 1⟩ y 1) 2 0 := by
  have h := poly_force_deriv_is_derivative 2 ⟨3, 1⟩ 0 1
  have e : _poly_force_deriv (2:ℝ) ⟨3, 1⟩ 0 1 = 2 := by
    rw [poly_force_deriv_closed]; simp [xval]
  rwa [e] at h

/-- a one-entry CSR row trivially has distinct column indices; a 2-entry row with columns 0, 1 too -/
example : RowDistinct (fun k => k) 0 2 := by
  intro k1 k2 _ _ h
  simpa using h

/-- `_qderiv_actuator_passive` on a diagonal entry with damper enabled (flags = 0): M = 5, actuator part 1,
    B = damping = 2 (no polynomial terms), h = 0.5 → 5 − 0.5·(1 − 2) = 5.5. -/
example : _qderiv_actuator_passive (fun _ => (0.5:ℝ)) 0 (fun _ _ => 2) (fun _ _ => ⟨0, 0⟩) (fun _ _ => 0)
    (fun _ _ => 7) (fun _ _ => 5) (fun _ => 0) (fun _ => 0) (fun _ _ => 1) (fun _ _ => 0) 1 1 1 0 0
    = [Write.mk "qDeriv_out" [0, 0] (WVal.f (5.5:ℝ)) WKind.set] := by
  rw [qderiv_actuator_passive_spec]
  have : Mjw.iand 0 64 = 0 := by decide
  simp [this, (poly_force_linear 2 7 1).2]
  norm_num

/-- affine actuator with g₂ = −0.5, b₂ = −3, ctrl 4, stateless, not ctrl-limited:
    stored derivative −3 + (−0.5)·4 = −5. -/
example : _qderiv_actuator_passive_vel (fun _ => (0.01:ℝ)) (fun _ => 0) (fun _ => 1) (fun _ => 1) (fun _ => 0)
    (fun _ => 0) (fun _ _ => V10.zero) (fun _ _ => ⟨0, 0, -0.5, 0, 0, 0, 0, 0, 0, 0⟩)
    (fun _ _ => ⟨0, 0, -3, 0, 0, 0, 0, 0, 0, 0⟩) (fun _ => false) (fun _ _ => ⟨0, 0⟩) (fun _ => false)
    (fun _ => false) (fun _ _ => ⟨0, 0⟩) (fun _ => false) (fun _ _ => ⟨0, 0⟩)
    (fun _ _ => 0) (fun _ _ => 4) (fun _ _ => 0) (fun _ _ => 0) 0
    (fun _ _ => 0) 1 1 1 1 1 1 1 0 0
    = [Write.mk "vel_out" [0, 0] (WVal.f (-5:ℝ)) WKind.set] := by
  rw [qderiv_actuator_vel_affine _ _ _ _ _ _ _ _ _ _ _ _ _ _ _ _ _ _ _ _ _ _ _ _ _ _ _ _ _ _ _ rfl rfl (by simp)]
  simp [velInput, usedCtrl_real]
  norm_num

/-- the force `_actuator_force` stores for a stateless affine actuator with gainprm = (0,0,1), biasprm = 0,
    ctrl = 3, ctrl-limited with ctrlrange [−1,1], as a function of the actuator velocity v -/
noncomputable def clampedForce (v : ℝ) : ℝ :=
  Write.lookupF
    (_actuator_force (K := ℝ) 0 (fun _ => 0.01) (fun _ => 0) (fun _ => 1) (fun _ => 1) (fun _ => 0) (fun _ => 0)
      (fun _ _ => V10.zero) (fun _ _ => ⟨0, 0, 1, 0, 0, 0, 0, 0, 0, 0⟩) (fun _ _ => V10.zero)
      (fun _ => false) (fun _ _ => ⟨0, 0⟩) (fun _ => false) (fun _ => false) (fun _ _ => ⟨0, 0⟩)
      (fun _ => true) (fun _ _ => ⟨-1, 1⟩) (fun _ _ => 0) (fun _ _ => ⟨0, 0⟩)
      (fun _ _ => 0) (fun _ _ => 3) (fun _ _ => 0) (fun _ _ => v) 0 (fun _ _ => 0) (fun _ _ => 0)
      1 1 1 1 1 1 1 1 1 0 0) "actuator_force_out" [0, 0] 0

/-- what `_qderiv_actuator_passive_vel` stores for the same actuator, same ctrl -/
noncomputable def clampedVelDeriv : ℝ :=
  Write.lookupF
    (_qderiv_actuator_passive_vel (fun _ => (0.01:ℝ)) (fun _ => 0) (fun _ => 1) (fun _ => 1) (fun _ => 0)
      (fun _ => 0) (fun _ _ => V10.zero) (fun _ _ => ⟨0, 0, 1, 0, 0, 0, 0, 0, 0, 0⟩)
      (fun _ _ => V10.zero) (fun _ => false) (fun _ _ => ⟨0, 0⟩) (fun _ => false)
      (fun _ => false) (fun _ _ => ⟨0, 0⟩) (fun _ => true) (fun _ _ => ⟨-1, 1⟩)
      (fun _ _ => 0) (fun _ _ => 3) (fun _ _ => 0) (fun _ _ => 0) 0
      (fun _ _ => 0) 1 1 1 1 1 1 1 0 0) "vel_out" [0, 0] 0

theorem clampedForce_eq (v : ℝ) : clampedForce v = v := by
  unfold clampedForce _actuator_force
  simp [Write.lookupF, Scalar.clamp, V10.zero, V10.fill]

theorem clampedVelDeriv_eq : clampedVelDeriv = 1 := by
  unfold clampedVelDeriv
  rw [qderiv_actuator_vel_affine _ _ _ _ _ _ _ _ _ _ _ _ _ _ _ _ _ _ _ _ _ _ _ _ _ _ _ _ _ _ _ rfl rfl (by simp)]
  simp [Write.lookupF, velInput, usedCtrl_real, V10.zero, V10.fill]

/-- the scenario of the former defect witness (ctrl = 3 outside ctrlrange [−1,1], velocity gain 1), evaluated on
    the generated kernels: the force `_actuator_force` stores is v ↦ 1·v and the value
    `_qderiv_actuator_passive_vel` stores IS its derivative (it was 3 before the repair). -/
theorem clamped_ctrl_derivative_repaired (v : ℝ) : HasDerivAt clampedForce clampedVelDeriv v := by
  have hf : clampedForce = fun v => v := funext clampedForce_eq
  rw [hf, clampedVelDeriv_eq]
  exact hasDerivAt_id' v

end examples

end Mjw.Props.C27
