/-
  C17  No out-of-bounds access or crash on accepted inputs.
  Lean cannot prove memory safety of 40k lines of kernels; it proves it for the indices that are DATA DEPENDENT —
  slots handed out by atomic counters and indices stored in memory — which is where the risk is.  This file collects
  (as aliases, so that they are audited and counted under C17) the in-bounds theorems proved about the kernels
  regenerated from /repo, each for ALL inputs:
   * constraint rows: every write of the 11 row builders to a per-row array has row index r with
     alloc ≤ r < alloc + k and r < njmax (= the allocated leading dimension)                         [C16 `_safe`]
   * contact slots / broadphase pairs: written slot = alloc < naconmax                                 [C16 guards]
   * island flood fill: DFS stack depth ≤ ntree² (the scratch size), all writes inside stack[0..n²) and
     tree_island[0..n)                                                                                  [C28]
   * DOF compaction: all writes inside the padded compact arrays                                        [C38]
   * history buffers: the physical index is in [0, n)                                                   [C30]
   * state get/set: addresses in [0, stateSize), own world only                                         [C15]
  C17_partial: thread-id and Model-lookup indices rely on MjModel well-formedness (MuJoCo's compiler) and on launch
  dimensions; tile/Cholesky/GJK/EPA/SDF/render kernels are not covered.  The conclusion is exercised with Warp's
  bounds-checked debug build on random models, tiny and exact-fit capacities and flag combinations.
-/
import MjwVerif.Props.C16
import MjwVerif.Props.C28
import MjwVerif.Props.C38
import MjwVerif.Props.C30
import MjwVerif.Props.C15
import Batteries.Tactic.Alias

namespace Mjw.Props.C17

alias rows_connect_in_bounds := Mjw.Props.C16.equality_connect_safe
alias rows_weld_in_bounds := Mjw.Props.C16.equality_weld_safe
alias rows_joint_in_bounds := Mjw.Props.C16.equality_joint_safe
alias rows_tendon_in_bounds := Mjw.Props.C16.equality_tendon_safe
alias rows_flex_in_bounds := Mjw.Props.C16.equality_flex_safe
alias rows_friction_dof_in_bounds := Mjw.Props.C16.friction_dof_safe
alias rows_friction_tendon_in_bounds := Mjw.Props.C16.friction_tendon_safe
alias rows_limit_slide_hinge_in_bounds := Mjw.Props.C16.limit_slide_hinge_safe
alias rows_limit_ball_in_bounds := Mjw.Props.C16.limit_ball_safe
alias rows_limit_tendon_in_bounds := Mjw.Props.C16.limit_tendon_safe
alias rows_contact_in_bounds := Mjw.Props.C16.contact_init_safe
alias contact_slot_in_bounds := Mjw.Props.C16.write_contact_guard
alias collision_pair_slot_in_bounds := Mjw.Props.C16.add_geom_pair_guard
alias flood_fill_stack_bound := Mjw.Props.C28.stack_bound
alias flood_fill_writes_in_bounds := Mjw.Props.C28.writes_in_bounds
alias compact_writes_in_bounds := Mjw.Props.C38.compact_writes_in_bounds
alias history_index_in_range := Mjw.Props.C30.physical_index_spec
alias get_state_addresses_in_range := Mjw.Props.C15.get_only_state_out_own_world
alias set_state_own_world := Mjw.Props.C15.set_only_own_world

end Mjw.Props.C17
