/-
  C40  Flex deformables agree with MuJoCo C.          (C40_partial)

  Source: /repo/mujoco_warp/_src/collision_flex.py, constraint.py (`_equality_flex`), support.py (flex basis
  functions), passive.py (`_apply_face_forces`).

  WHAT IS PROVED (all about `Mjw.Gen.*` definitions regenerated from the source on every run)
   1 broadphase boxes   `_flex_element_aabb_filter` is exactly "separated along some axis" (`aabb_filter_iff`), is
                        symmetric and never rejects two boxes that share a point; `_flex_broadphase_bounds` writes a box
                        that contains every vertex of the flex, inflated by radius+margin+gap.
   2 plane cull         `_flex_broadphase_plane`: exact write list; the flex-AABB cull never removes a vertex the
                        vertex test itself would accept (`plane_cull_sound`).
   4 triangle test      `_inside_triangle` = the barycentric coordinates of the orthogonal projection of P on the
                        triangle's plane lie in [-tol, 1+tol] (and `false` on degenerate triangles).
   5 contact parameters `_mix_flex_contact_params` is MuJoCo's mj_contactParam rule (priority, else condim max,
                        solmix weight in [0,1], friction max) with the friction floor 1e-5 and gap = gap₁ + gap₂.
   6 filtering rules    `_exclude_self_collision` is true iff the elements share a vertex or two of their vertices are
                        attached to the same body; `_elem_active`; `_get_element_vertices`; `_tie_break_fps` is a strict
                        lexicographic order.
   7 candidate records  `_write_candidate`: exact write list incl. the three (geom, flex, elem, vert) encodings;
                        `_write_filtered_contacts`: guards and the includemargin rule.
   8 edge equality      `_equality_flex`: guard logic, counters, row-overflow and nnz-overflow behaviour (a row dropped for
                        lack of njmax_nnz gets rownnz 0: `equality_flex_nnz_overflow`).
   9 basis functions    `eval_basis_trilinear` is a non-negative partition of unity with linear precision (the weights
                        `_flex_vertices` uses for interpolated flexes); `_apply_face_forces` exerts zero net force
                        (bilinear faces).
  10 stage 3 of `_flex_broadphase` (distance of the geom centre to the triangle plane against the bounding radius
     `r_extent`) is SOUND: `flex_broadphase_stage3_sound` — if the kernel emits nothing for a supported geom type and
     neither AABB stage rejected, then every point within `r_extent` of the geom centre is farther than
     `margin + radius` from every point of the triangle's plane; and `r_extent` does bound the geom
     (`Lemmas.C40.rExtent_sphere/_capsule/_cylinder/_box`, `rot_preserves`).  This was FALSE for capsules and cylinders
     (found by this check: Lean witnesses + oracle); repaired in /repo by "fix: flex broadphase culled real capsule and
     cylinder contacts (wrong bounding radius)"; the witnesses were deleted.

  ASSUMED: nothing beyond the hypotheses stated in each theorem (unit plane normal, non-negative radius/margins).

  MISSING (why `_partial`): `smooth._flex_vertices`, `_flex_nodes`, `_flex_edges`, `passive._flex_elasticity`,
  `_flex_bending`, `_flex_passive_interp`, `_flex_passive_bend_interp` and the element narrowphase kernels are not in
  `Gen` (the translator rejects `for f in range(nflex): … break` with `f` used after the loop, `wp.quat_rotate`, 6×6
  matrices), so positions / edge lengths / velocities / elastic forces are compared with MuJoCo only by the sampled
  oracle (harness/props/c40.py), which finds several disagreements (see the report).  Not proved either: the closed form
  of the Jacobian copy loops of `_equality_flex`, the FPS filter `_filter_flex_fps`, the interval soundness of
  `_flex_sap_project` / `_elements_overlap`, and that stages 1/2 of `_flex_broadphase` (world AABB of the geom) are sound.
-/
import MjwVerif.Lemmas.C40
import MjwVerif.Gen.Constraint

set_option linter.unusedVariables false
set_option linter.unusedSimpArgs false

namespace Mjw.Props.C40
open Mjw Mjw.Gen.Collision_flex Mjw.Gen.Support Mjw.Gen.Passive Mjw.Gen.Constraint Mjw.Lemmas.C40

/-! ## 1. axis-aligned boxes -/

/-- `_flex_element_aabb_filter` returns `true` (= reject the pair) iff the boxes are separated along an axis. -/
theorem aabb_filter_iff (a0 a1 b0 b1 : V3 ℝ) :
    _flex_element_aabb_filter a0 a1 b0 b1 = true ↔
      (a1.c0 < b0.c0 ∨ b1.c0 < a0.c0) ∨ (a1.c1 < b0.c1 ∨ b1.c1 < a0.c1) ∨ (a1.c2 < b0.c2 ∨ b1.c2 < a0.c2) := by
  unfold _flex_element_aabb_filter
  simp only [Bool.or_eq_true, slt, sgt]
  split_ifs <;> simp_all

/-- the filter does not depend on the order of the two boxes -/
theorem aabb_filter_symm (a0 a1 b0 b1 : V3 ℝ) :
    _flex_element_aabb_filter a0 a1 b0 b1 = _flex_element_aabb_filter b0 b1 a0 a1 := by
  rw [Bool.eq_iff_iff, aabb_filter_iff, aabb_filter_iff]
  tauto

/-- soundness: two boxes with a common point are never rejected -/
theorem aabb_filter_sound (a0 a1 b0 b1 p : V3 ℝ) (ha0 : V3le a0 p) (ha1 : V3le p a1) (hb0 : V3le b0 p)
    (hb1 : V3le p b1) : _flex_element_aabb_filter a0 a1 b0 b1 = false := by
  rw [← Bool.not_eq_true, aabb_filter_iff]
  obtain ⟨x0, x1, x2⟩ := ha0; obtain ⟨y0, y1, y2⟩ := ha1
  obtain ⟨z0, z1, z2⟩ := hb0; obtain ⟨w0, w1, w2⟩ := hb1
  rintro ((h | h) | (h | h) | (h | h)) <;> linarith

example : V3le (⟨0, 0, 0⟩ : V3 ℝ) ⟨1, 1, 1⟩ := by unfold V3le; norm_num

/-! ## 4. point in triangle -/

/-- `_inside_triangle`: false on (nearly) degenerate triangles; otherwise true iff the numbers
    `v = (d11 d20 − d01 d21)/den`, `w = (d00 d21 − d01 d20)/den`, `u = 1 − v − w` all lie in `[−tol, 1 + tol]`,
    and these are the barycentric coordinates of the ORTHOGONAL PROJECTION of `P` onto the plane of `A B C`:
    `Q = A + v (B − A) + w (C − A)` satisfies `(P − Q) ⟂ (B − A)` and `(P − Q) ⟂ (C − A)`. -/
theorem inside_triangle_spec (P A B C : V3 ℝ) (tol : ℝ) :
    _inside_triangle P A B C tol = true ↔
      ∃ u v w : ℝ, u + v + w = 1 ∧
        (1 / 10 ^ 12 ≤ |V3.dot (V3.sub B A) (V3.sub B A) * V3.dot (V3.sub C A) (V3.sub C A)
                        - V3.dot (V3.sub B A) (V3.sub C A) * V3.dot (V3.sub B A) (V3.sub C A)|) ∧
        V3.dot (V3.sub P (V3.add A (V3.add (V3.smul v (V3.sub B A)) (V3.smul w (V3.sub C A))))) (V3.sub B A) = 0 ∧
        V3.dot (V3.sub P (V3.add A (V3.add (V3.smul v (V3.sub B A)) (V3.smul w (V3.sub C A))))) (V3.sub C A) = 0 ∧
        (-tol ≤ u ∧ -tol ≤ v ∧ -tol ≤ w ∧ u ≤ 1 + tol ∧ v ≤ 1 + tol ∧ w ≤ 1 + tol) := by
  obtain ⟨p0, p1, p2⟩ := P; obtain ⟨a0, a1, a2⟩ := A; obtain ⟨b0, b1, b2⟩ := B; obtain ⟨c0, c1, c2⟩ := C
  unfold _inside_triangle
  simp only [V3.dot, V3.sub, V3.add, V3.smul, hadd, hsub, hmul, hdiv, hneg, slt, sge, sle, sabs, lit_tri, lit1,
    Bool.and_eq_true]
  set den := ((b0 - a0) * (b0 - a0) + (b1 - a1) * (b1 - a1) + (b2 - a2) * (b2 - a2)) *
      ((c0 - a0) * (c0 - a0) + (c1 - a1) * (c1 - a1) + (c2 - a2) * (c2 - a2)) -
      ((b0 - a0) * (c0 - a0) + (b1 - a1) * (c1 - a1) + (b2 - a2) * (c2 - a2)) *
      ((b0 - a0) * (c0 - a0) + (b1 - a1) * (c1 - a1) + (b2 - a2) * (c2 - a2)) with hden
  by_cases hd : |den| < 1 / 10 ^ 12
  · simp only [hd, if_true, Bool.false_eq_true, false_iff]
    rintro ⟨u, v, w, _, h, _⟩
    linarith
  · simp only [hd, if_false, Bool.and_eq_true, sge, sle]
    have hpos : (0:ℝ) < 1 / 10 ^ 12 := by positivity
    have hne : den ≠ 0 := by
      intro h0; rw [h0, abs_zero] at hd; exact hd hpos
    constructor
    · rintro ⟨⟨⟨⟨⟨h1, h2⟩, h3⟩, h4⟩, h5⟩, h6⟩
      refine ⟨_, _, _, by ring, not_lt.mp hd, ?_, ?_, ⟨h1, h2, h3, h4, h5, h6⟩⟩
      · field_simp
        rw [hden]; ring
      · field_simp
        rw [hden]; ring
    · rintro ⟨u, v, w, hs, _, ho1, ho2, h1, h2, h3, h4, h5, h6⟩
      -- the two orthogonality equations determine v and w (Cramer)
      have hv : v = (((c0 - a0) * (c0 - a0) + (c1 - a1) * (c1 - a1) + (c2 - a2) * (c2 - a2)) *
            ((p0 - a0) * (b0 - a0) + (p1 - a1) * (b1 - a1) + (p2 - a2) * (b2 - a2)) -
          ((b0 - a0) * (c0 - a0) + (b1 - a1) * (c1 - a1) + (b2 - a2) * (c2 - a2)) *
            ((p0 - a0) * (c0 - a0) + (p1 - a1) * (c1 - a1) + (p2 - a2) * (c2 - a2))) / den := by
        rw [eq_div_iff hne, hden]
        linear_combination (-((c0 - a0) * (c0 - a0) + (c1 - a1) * (c1 - a1) + (c2 - a2) * (c2 - a2))) * ho1
          + ((b0 - a0) * (c0 - a0) + (b1 - a1) * (c1 - a1) + (b2 - a2) * (c2 - a2)) * ho2
      have hw : w = (((b0 - a0) * (b0 - a0) + (b1 - a1) * (b1 - a1) + (b2 - a2) * (b2 - a2)) *
            ((p0 - a0) * (c0 - a0) + (p1 - a1) * (c1 - a1) + (p2 - a2) * (c2 - a2)) -
          ((b0 - a0) * (c0 - a0) + (b1 - a1) * (c1 - a1) + (b2 - a2) * (c2 - a2)) *
            ((p0 - a0) * (b0 - a0) + (p1 - a1) * (b1 - a1) + (p2 - a2) * (b2 - a2))) / den := by
        rw [eq_div_iff hne, hden]
        linear_combination (-((b0 - a0) * (b0 - a0) + (b1 - a1) * (b1 - a1) + (b2 - a2) * (b2 - a2))) * ho2
          + ((b0 - a0) * (c0 - a0) + (b1 - a1) * (c1 - a1) + (b2 - a2) * (c2 - a2)) * ho1
      have hu : u = 1 - v - w := by linarith
      rw [← hv, ← hw, ← hu]
      exact ⟨⟨⟨⟨⟨h1, h2⟩, h3⟩, h4⟩, h5⟩, h6⟩

/-- the centroid of the unit right triangle is inside (non-vacuity) -/
example : _inside_triangle (⟨1 / 3, 1 / 3, 5⟩ : V3 ℝ) ⟨0, 0, 0⟩ ⟨1, 0, 0⟩ ⟨0, 1, 0⟩ 0 = true := by
  rw [inside_triangle_spec]
  refine ⟨1 / 3, 1 / 3, 1 / 3, by norm_num, ?_, ?_, ?_, by norm_num⟩ <;>
    (simp [V3.dot, V3.sub, V3.add, V3.smul]; try norm_num)

/-! ## 6. filtering rules -/

/-- `_tie_break_fps curr sel`: no selection yet, or `cand_elem[curr] < cand_elem[sel]` lexicographically. -/
theorem tie_break_iff {K : Type} [Scalar K] (curr sel : Int) (ce : Int → I2) :
    _tie_break_fps (K := K) curr sel ce = true ↔
      sel < 0 ∨ (ce curr).c0 < (ce sel).c0 ∨ ((ce curr).c0 = (ce sel).c0 ∧ (ce curr).c1 < (ce sel).c1) := by
  unfold _tie_break_fps
  by_cases h : sel < 0
  · simp [h]
  · simp only [h, decide_false, Bool.false_eq_true, if_false, false_or]
    by_cases h2 : (ce curr).c0 = (ce sel).c0
    · simp [h2]
    · simp only [ne_eq, h2, not_false_eq_true, decide_true, if_true, decide_eq_true_eq, false_and, or_false]

/-- among selected candidates (`sel ≥ 0`) the tie break is a strict order: irreflexive, asymmetric, transitive,
    and total on distinct element pairs — the FPS selection is therefore independent of the visiting order. -/
theorem tie_break_strict_order {K : Type} [Scalar K] (a b c : Int) (ce : Int → I2) (ha : 0 ≤ a) (hb : 0 ≤ b) (hc : 0 ≤ c) :
    _tie_break_fps (K := K) a a ce = false ∧
    (_tie_break_fps (K := K) a b ce = true → _tie_break_fps (K := K) b a ce = false) ∧
    (_tie_break_fps (K := K) a b ce = true → _tie_break_fps (K := K) b c ce = true → _tie_break_fps (K := K) a c ce = true) ∧
    (ce a ≠ ce b → _tie_break_fps (K := K) a b ce = true ∨ _tie_break_fps (K := K) b a ce = true) := by
  have na : ¬ a < 0 := not_lt.mpr ha
  have nb : ¬ b < 0 := not_lt.mpr hb
  have nc : ¬ c < 0 := not_lt.mpr hc
  refine ⟨?_, ?_, ?_, ?_⟩
  · rw [← Bool.not_eq_true, tie_break_iff]; simp [na]
  · intro h; rw [← Bool.not_eq_true, tie_break_iff]; rw [tie_break_iff] at h
    simp only [na, nb, false_or] at h ⊢
    omega
  · intro h1 h2; rw [tie_break_iff] at h1 h2 ⊢
    simp only [na, nb, nc, false_or] at h1 h2 ⊢
    omega
  · intro hne; rw [tie_break_iff, tie_break_iff]
    simp only [na, nb, false_or]
    have : (ce a).c0 ≠ (ce b).c0 ∨ (ce a).c1 ≠ (ce b).c1 := by
      by_contra hcon; push Not at hcon
      apply hne
      cases hx : ce a; cases hy : ce b
      rw [hx, hy] at hcon; simp only at hcon
      rw [hcon.1, hcon.2]
    omega

/-- `_elem_active`: elements of 1D/2D flexes are always active; a tetrahedron iff its layer is below `activelayers`. -/
theorem elem_active_iff {K : Type} [Scalar K] (al dim eadr elayer : Int → Int) (f e : Int) :
    _elem_active (K := K) al dim eadr elayer f e = true ↔ dim f < 3 ∨ elayer (eadr f + e) < al f := by
  unfold _elem_active
  by_cases h : dim f < 3 <;> simp [h]

/-- `_get_element_vertices`: the `dim+1` vertex ids of the element, padded with −1. -/
theorem get_element_vertices_spec {K : Type} [Scalar K] (elem : Int → Int) (dim adr : Int) :
    _get_element_vertices (K := K) elem dim adr
      = ⟨elem adr, elem (adr + 1), if 2 ≤ dim then elem (adr + 2) else -1, if 3 ≤ dim then elem (adr + 3) else -1⟩ := by
  unfold _get_element_vertices
  by_cases h2 : 2 ≤ dim <;> by_cases h3 : 3 ≤ dim <;> simp [h2, h3, ge_iff_le]


/-- `_exclude_self_collision` (element adjacency exclusion of flex self-collision): true iff some valid vertex of the
    first element equals a vertex of the second, or the two vertices are attached to the same (non-negative) body.
    `n1`, `n2` = number of vertices of the elements (the loops run over `range(n)`). -/
theorem exclude_self_collision_iff {K : Type} [Scalar K] (vb : Int → Int) (v1 v2 : I4) (n1 n2 : Nat) (vadr : Int) :
    _exclude_self_collision (K := K) vb v1 n1 v2 n2 vadr = true ↔
      ∃ i : Nat, i < n1 ∧ 0 ≤ I4.get v1 i ∧ ∃ j : Nat, j < n2 ∧
        (I4.get v1 i = I4.get v2 j ∨
          (0 ≤ I4.get v2 j ∧ 0 ≤ vb (vadr + I4.get v1 i) ∧ vb (vadr + I4.get v1 i) = vb (vadr + I4.get v2 j))) := by
  classical
  unfold _exclude_self_collision
  -- inner loop, for a fixed first vertex
  have inner : ∀ i : Int, Mjw.forRange (0 : Int) (n2 : Int) (false, false, false)
      (fun (j : Int) (st : (Bool × Bool × Bool)) =>
            let (brk_2, retf, rv) := st
            if brk_2 then st else
            let idx2 : Int := (I4.get v2 j)
            if (decide (I4.get v1 i = idx2)) then
              (true, true, true)
            else
              if ((decide (idx2 ≥ (0 : Int))) && (decide (vb (vadr + I4.get v1 i) ≥ (0 : Int)))) then
                let b2 : Int := (vb (vadr + idx2))
                if (decide (vb (vadr + I4.get v1 i) = b2)) then
                  (true, true, true)
                else
                  (brk_2, retf, rv)
              else
                (brk_2, retf, rv))
      = if ∃ j : Nat, j < n2 ∧ (I4.get v1 i = I4.get v2 j ∨
          (0 ≤ I4.get v2 j ∧ 0 ≤ vb (vadr + I4.get v1 i) ∧ vb (vadr + I4.get v1 i) = vb (vadr + I4.get v2 j)))
        then (true, true, true) else (false, false, false) := by
    intro i
    refine forRange_flag n2 _ (fun j => I4.get v1 i = I4.get v2 j ∨
          (0 ≤ I4.get v2 j ∧ 0 ≤ vb (vadr + I4.get v1 i) ∧ vb (vadr + I4.get v1 i) = vb (vadr + I4.get v2 j))) ?_ ?_
    · intro j; rfl
    · intro j
      by_cases h1 : I4.get v1 i = I4.get v2 j
      · simp [h1]
      · by_cases h2 : 0 ≤ I4.get v2 j <;> by_cases h3 : 0 ≤ vb (vadr + I4.get v1 i) <;>
          by_cases h4 : vb (vadr + I4.get v1 i) = vb (vadr + I4.get v2 j) <;> simp [h1, h2, h3, h4]
  have outer := forRange_flag n1
    (fun (i : Int) (st : (Bool × Bool × Bool)) =>
      let (brk_1, retf, rv) := st
      if brk_1 then st else
      let idx1 : Int := (I4.get v1 i)
      if (decide (idx1 ≥ (0 : Int))) then
        let b1 : Int := (vb (vadr + idx1))
        let (brk_2, retf, rv) := Mjw.forRange (0 : Int) (n2 : Int) (false, retf, rv) (fun (j : Int) (st : (Bool × Bool × Bool)) =>
            let (brk_2, retf, rv) := st
            if brk_2 then st else
            let idx2 : Int := (I4.get v2 j)
            if (decide (idx1 = idx2)) then
              (true, true, true)
            else
              if ((decide (idx2 ≥ (0 : Int))) && (decide (b1 ≥ (0 : Int)))) then
                let b2 : Int := (vb (vadr + idx2))
                if (decide (b1 = b2)) then
                  (true, true, true)
                else
                  (brk_2, retf, rv)
              else
                (brk_2, retf, rv))
        if retf then (true, true, rv) else
        (brk_1, retf, rv)
      else
        (brk_1, retf, rv))
    (fun i => 0 ≤ I4.get v1 i ∧ ∃ j : Nat, j < n2 ∧ (I4.get v1 i = I4.get v2 j ∨
          (0 ≤ I4.get v2 j ∧ 0 ≤ vb (vadr + I4.get v1 i) ∧ vb (vadr + I4.get v1 i) = vb (vadr + I4.get v2 j))))
    (fun i => rfl)
    (by
      intro i
      by_cases h0 : 0 ≤ I4.get v1 i
      · simp only [h0, ge_iff_le, decide_true, if_true, Bool.false_eq_true, if_false, true_and]
        rw [inner i]
        by_cases hex : ∃ j : Nat, j < n2 ∧ (I4.get v1 i = I4.get v2 j ∨
          (0 ≤ I4.get v2 j ∧ 0 ≤ vb (vadr + I4.get v1 i) ∧ vb (vadr + I4.get v1 i) = vb (vadr + I4.get v2 j)))
        · rw [if_pos hex]; rfl
        · rw [if_neg hex]; rfl
      · simp [h0])
  simp only [] at outer ⊢
  rw [outer]
  by_cases h : ∃ k : Nat, k < n1 ∧ 0 ≤ I4.get v1 k ∧ ∃ j : Nat, j < n2 ∧ (I4.get v1 k = I4.get v2 j ∨
          (0 ≤ I4.get v2 j ∧ 0 ≤ vb (vadr + I4.get v1 k) ∧ vb (vadr + I4.get v1 k) = vb (vadr + I4.get v2 j)))
  · rw [if_pos h]
    simpa using h
  · rw [if_neg h]
    simpa using h

/-- two triangles sharing vertex 7 are excluded (non-vacuity) -/
example : _exclude_self_collision (K := ℝ) (fun _ => -1) ⟨3, 7, 9, -1⟩ (3 : Nat) ⟨7, 11, 12, -1⟩ (3 : Nat) 0 = true := by
  rw [exclude_self_collision_iff]
  exact ⟨1, by norm_num, by decide, 0, by norm_num, Or.inl (by decide)⟩

/-! ## 7. candidate records -/

/-- **`_write_candidate`**: nothing for the sentinel distance (`dist ≥ 1e10`); otherwise one slot allocation on
    `ncand_out[0]`; on overflow only the flag `8` (FLEX) is or-ed into `overflow_out[world]`; otherwise exactly eight
    stores at the allocated slot, with the encodings
      geom ≥ 0  (geom–flex):        geom (g, −1)   elem (−1, e)   vert (−1, v)
      geom = −2 (element–element):  geom (−1, −1)  elem (e, v)    vert (−1, −1)
      else      (vertex–element):   geom (−1, −1)  elem (−1, e)   vert (v, −1)
    and `flex (flexid1, flexid2)` in all three. -/
theorem write_candidate_spec {K : Type} [Scalar K] (maxc : Int) (dist : K) (pos nrm : V3 K)
    (geom f1 f2 e v w : Int) (warn : Bool) (ov : Int → Int) (cd : Int → K) (cp cn : Int → V3 K)
    (cg cf ce cv : Int → I2) (cw nc : Int → Int) (slot : Int) :
    _write_candidate maxc dist pos nrm geom f1 f2 e v w warn ov cd cp cn cg cf ce cv cw nc slot
      = if Scalar.ge dist (Scalar.lit 1 10 : K) = true then []
        else (Write.mk "ncand_out" [0] (WVal.i 1) WKind.alloc : Write K) ::
          (if slot ≥ maxc then [Write.mk "overflow_out" [w] (WVal.i 8) WKind.aor]
           else
            [Write.mk "cand_dist_out" [slot] (WVal.f dist) WKind.set,
             Write.mk "cand_pos_out" [slot] (WVal.v (V3.toList pos)) WKind.set,
             Write.mk "cand_nrm_out" [slot] (WVal.v (V3.toList nrm)) WKind.set,
             Write.mk "cand_geom_out" [slot] (WVal.iv (I2.toList (if geom ≥ 0 then ⟨geom, -1⟩ else ⟨-1, -1⟩))) WKind.set,
             Write.mk "cand_flex_out" [slot] (WVal.iv (I2.toList ⟨f1, f2⟩)) WKind.set,
             Write.mk "cand_elem_out" [slot] (WVal.iv (I2.toList
               (if geom ≥ 0 then ⟨-1, e⟩ else if geom = -2 then ⟨e, v⟩ else ⟨-1, e⟩))) WKind.set,
             Write.mk "cand_vert_out" [slot] (WVal.iv (I2.toList
               (if geom ≥ 0 then ⟨-1, v⟩ else if geom = -2 then ⟨-1, -1⟩ else ⟨v, -1⟩))) WKind.set,
             Write.mk "cand_worldid_out" [slot] (WVal.i w) WKind.set]) := by
  unfold _write_candidate
  by_cases hd : Scalar.ge dist (Scalar.lit 1 10 : K) = true
  · simp only [hd, if_true]
  · simp only [hd, Bool.false_eq_true, if_false, List.nil_append]
    by_cases ho : slot ≥ maxc
    · simp [ho]
    · by_cases hg : geom ≥ 0
      · simp [ho, hg]
      · by_cases h2 : geom = -2 <;> simp [ho, hg, h2]

/-! ## 5. contact parameter mixing -/

/-- MuJoCo's solmix weight (`mj_contactParam`): `s₁/(s₁+s₂)` if both are at least mjMINVAL, `½` if both are below,
    else all weight on the one that is not below. -/
noncomputable def mixW (s1 s2 : ℝ) : ℝ :=
  if 1 / 10 ^ 15 ≤ s1 ∧ 1 / 10 ^ 15 ≤ s2 then s1 / (s1 + s2)
  else if s1 < 1 / 10 ^ 15 ∧ s2 < 1 / 10 ^ 15 then 1 / 2
  else if s1 < 1 / 10 ^ 15 then 0 else 1

/-- the weight is always in [0, 1] (no hypothesis on the solmix values) -/
theorem mixW_mem (s1 s2 : ℝ) : 0 ≤ mixW s1 s2 ∧ mixW s1 s2 ≤ 1 := by
  unfold mixW
  have hp : (0:ℝ) < 1 / 10 ^ 15 := by positivity
  split_ifs with h1 h2 h3
  · have a : 0 < s1 := lt_of_lt_of_le hp h1.1
    have b : 0 < s2 := lt_of_lt_of_le hp h1.2
    have c : 0 < s1 + s2 := by linarith
    exact ⟨by positivity, by rw [div_le_one c]; linarith⟩
  · norm_num
  · norm_num
  · norm_num

/-- the friction vector stored in a contact: (μ₀, μ₀, μ₁, μ₂, μ₂), each at least mjMINMU = 1e-5 -/
noncomputable def floorFriction (f : V3 ℝ) : V5 ℝ :=
  ⟨max (1 / 10 ^ 5) f.c0, max (1 / 10 ^ 5) f.c0, max (1 / 10 ^ 5) f.c1, max (1 / 10 ^ 5) f.c2, max (1 / 10 ^ 5) f.c2⟩

/-- higher priority wins outright (first object) -/
theorem mix_priority_first (ca pa : Int) (sa : ℝ) (ra : V2 ℝ) (ia : V5 ℝ) (fa : V3 ℝ) (ga : ℝ)
    (cb pb : Int) (sb : ℝ) (rb : V2 ℝ) (ib : V5 ℝ) (fb : V3 ℝ) (gb : ℝ) (h : pb < pa) :
    _mix_flex_contact_params ca pa sa ra ia fa ga cb pb sb rb ib fb gb = (ca, ga + gb, ra, ia, floorFriction fa) := by
  unfold _mix_flex_contact_params floorFriction
  simp [h, lit_mu]

/-- higher priority wins outright (second object) -/
theorem mix_priority_second (ca pa : Int) (sa : ℝ) (ra : V2 ℝ) (ia : V5 ℝ) (fa : V3 ℝ) (ga : ℝ)
    (cb pb : Int) (sb : ℝ) (rb : V2 ℝ) (ib : V5 ℝ) (fb : V3 ℝ) (gb : ℝ) (h : pa < pb) :
    _mix_flex_contact_params ca pa sa ra ia fa ga cb pb sb rb ib fb gb = (cb, ga + gb, rb, ib, floorFriction fb) := by
  unfold _mix_flex_contact_params floorFriction
  have h' : ¬ pb < pa := by omega
  simp [h, h', lit_mu]

/-- equal priority: condim = max, solref = weighted mean if both time constants are positive else the component-wise
    minimum, solimp = weighted mean, friction = component-wise maximum; weight `mixW solmix₁ solmix₂`. -/
theorem mix_equal_priority (ca pa : Int) (sa : ℝ) (ra : V2 ℝ) (ia : V5 ℝ) (fa : V3 ℝ) (ga : ℝ)
    (cb pb : Int) (sb : ℝ) (rb : V2 ℝ) (ib : V5 ℝ) (fb : V3 ℝ) (gb : ℝ) (h : pa = pb) :
    _mix_flex_contact_params ca pa sa ra ia fa ga cb pb sb rb ib fb gb
      = (max ca cb, ga + gb,
         (if 0 < ra.c0 ∧ 0 < rb.c0 then
            (⟨mixW sa sb * ra.c0 + (1 - mixW sa sb) * rb.c0, mixW sa sb * ra.c1 + (1 - mixW sa sb) * rb.c1⟩ : V2 ℝ)
          else ⟨min ra.c0 rb.c0, min ra.c1 rb.c1⟩),
         (⟨mixW sa sb * ia.c0 + (1 - mixW sa sb) * ib.c0, mixW sa sb * ia.c1 + (1 - mixW sa sb) * ib.c1,
           mixW sa sb * ia.c2 + (1 - mixW sa sb) * ib.c2, mixW sa sb * ia.c3 + (1 - mixW sa sb) * ib.c3,
           mixW sa sb * ia.c4 + (1 - mixW sa sb) * ib.c4⟩ : V5 ℝ),
         floorFriction ⟨max fa.c0 fb.c0, max fa.c1 fb.c1, max fa.c2 fb.c2⟩) := by
  subst h
  unfold _mix_flex_contact_params floorFriction mixW
  simp only [gt_iff_lt, lt_self_iff_false, decide_false, Bool.false_eq_true, if_false, lit_minval, lit_mu, lit0,
    lit_half, lit1, hadd, hsub, hmul, hdiv, sge, slt, sgt, smin, smax, Bool.and_eq_true]

/-- in every case all five friction coefficients of the mixed contact are at least 1e-5 -/
theorem mix_friction_floor (ca pa : Int) (sa : ℝ) (ra : V2 ℝ) (ia : V5 ℝ) (fa : V3 ℝ) (ga : ℝ)
    (cb pb : Int) (sb : ℝ) (rb : V2 ℝ) (ib : V5 ℝ) (fb : V3 ℝ) (gb : ℝ) :
    let fr := (_mix_flex_contact_params ca pa sa ra ia fa ga cb pb sb rb ib fb gb).2.2.2.2
    1 / 10 ^ 5 ≤ fr.c0 ∧ 1 / 10 ^ 5 ≤ fr.c1 ∧ 1 / 10 ^ 5 ≤ fr.c2 ∧ 1 / 10 ^ 5 ≤ fr.c3 ∧ 1 / 10 ^ 5 ≤ fr.c4 := by
  rcases lt_trichotomy pa pb with h | h | h
  · rw [mix_priority_second _ _ _ _ _ _ _ _ _ _ _ _ _ _ h]
    simp only [floorFriction]
    exact ⟨le_max_left _ _, le_max_left _ _, le_max_left _ _, le_max_left _ _, le_max_left _ _⟩
  · rw [mix_equal_priority _ _ _ _ _ _ _ _ _ _ _ _ _ _ h]
    simp only [floorFriction]
    exact ⟨le_max_left _ _, le_max_left _ _, le_max_left _ _, le_max_left _ _, le_max_left _ _⟩
  · rw [mix_priority_first _ _ _ _ _ _ _ _ _ _ _ _ _ _ h]
    simp only [floorFriction]
    exact ⟨le_max_left _ _, le_max_left _ _, le_max_left _ _, le_max_left _ _, le_max_left _ _⟩


/-- the gap of the mixed contact is always the sum of the two gaps -/
theorem mix_gap (ca pa : Int) (sa : ℝ) (ra : V2 ℝ) (ia : V5 ℝ) (fa : V3 ℝ) (ga : ℝ)
    (cb pb : Int) (sb : ℝ) (rb : V2 ℝ) (ib : V5 ℝ) (fb : V3 ℝ) (gb : ℝ) :
    (_mix_flex_contact_params ca pa sa ra ia fa ga cb pb sb rb ib fb gb).2.1 = ga + gb := by
  unfold _mix_flex_contact_params
  simp only [hadd]


/-! ## 1b. flex bounding box -/

/-- a flex without vertices writes nothing -/
theorem broadphase_bounds_empty (fm fg : Int → ℝ) (vadr vnum : Int → Int) (rad : Int → ℝ) (x : Int → Int → V3 ℝ)
    (o1 o2 : Int → Int → V3 ℝ) (w f : Int) (h : vnum f = 0) :
    _flex_broadphase_bounds fm fg vadr vnum rad x o1 o2 w f = [] := by
  unfold _flex_broadphase_bounds
  simp [h]

/-- **`_flex_broadphase_bounds`**: exactly two stores, `flex_aabb_min[w,f] = lo − b`, `flex_aabb_max[w,f] = hi + b` with
    `b = radius + (margin + gap)`, where the box `[lo, hi]` contains every vertex position of the flex. -/
theorem broadphase_bounds_encloses (fm fg : Int → ℝ) (vadr vnum : Int → Int) (rad : Int → ℝ) (x : Int → Int → V3 ℝ)
    (o1 o2 : Int → Int → V3 ℝ) (w f : Int) (n : Nat) (hn : vnum f = n) (h0 : n ≠ 0) :
    ∃ lo hi : V3 ℝ,
      _flex_broadphase_bounds fm fg vadr vnum rad x o1 o2 w f
        = [Write.mk "flex_aabb_min_out" [w, f] (WVal.v (V3.toList (V3.sub lo
              ⟨rad f + (fm f + fg f), rad f + (fm f + fg f), rad f + (fm f + fg f)⟩))) WKind.set,
           Write.mk "flex_aabb_max_out" [w, f] (WVal.v (V3.toList (V3.add hi
              ⟨rad f + (fm f + fg f), rad f + (fm f + fg f), rad f + (fm f + fg f)⟩))) WKind.set] ∧
      ∀ k : Nat, k < n → V3le lo (x w (vadr f + k)) ∧ V3le (x w (vadr f + k)) hi := by
  have key := minmax_fold (fun i => x w (vadr f + i)) n
    (⟨(Scalar.lit 1 10 : ℝ), (Scalar.lit 1 10 : ℝ), (Scalar.lit 1 10 : ℝ)⟩ : V3 ℝ)
    (⟨(-(Scalar.lit 1 10 : ℝ)), (-(Scalar.lit 1 10 : ℝ)), (-(Scalar.lit 1 10 : ℝ))⟩ : V3 ℝ)
  simp only [] at key
  refine ⟨_, _, ?_, key.2.2⟩
  unfold _flex_broadphase_bounds
  have hz : ¬ ((n : Int) = 0) := by exact_mod_cast h0
  simp only [hn, hz, decide_false, Bool.false_eq_true, if_false, List.nil_append, hadd, List.cons_append]

example : ((3 : Nat) : Int) = 3 ∧ (3 : Nat) ≠ 0 := by constructor <;> norm_num

/-! ## 2. plane – vertex broadphase -/

/-- exact write list of `_flex_broadphase_plane`: nothing unless the geom is a plane (type 0); nothing if the flex box
    is further than `margin` from the plane (cull); nothing if the vertex sphere is not closer than `margin`; otherwise one
    slot allocation and the pair (or the overflow flag 4). -/
theorem broadphase_plane_spec (gt : Int → Int) (gm : Int → Int → ℝ) (fm fr : Int → ℝ) (pairs : Int → I2)
    (vf : Int → Int) (gx : Int → Int → V3 ℝ) (gR : Int → Int → M33 ℝ) (vx : Int → Int → V3 ℝ) (nmax : Int)
    (amin amax : Int → Int → V3 ℝ) (nc ov : Int → Int) (cp : Int → I2) (cw : Int → Int) (s0 slot : Int) (warn : Bool)
    (w p : Int) :
    _flex_broadphase_plane__kernel gt gm fm fr pairs vf gx gR vx nmax amin amax nc ov cp cw s0 slot warn w p
      = (let vert := (pairs p).c0; let g := (pairs p).c1; let f := vf vert
         let n : V3 ℝ := ⟨(gR w g).m02, (gR w g).m12, (gR w g).m22⟩
         let margin := gm (Int.tmod w s0) g + fm f
         let c := V3.smul (1 / 2) (V3.add (amin w f) (amax w f))
         let h := V3.smul (1 / 2) (V3.sub (amax w f) (amin w f))
         if gt g ≠ 0 then []
         else if margin < V3.dot (V3.sub c (gx w g)) n - (|h.c0 * n.c0| + |h.c1 * n.c1| + |h.c2 * n.c2|) then []
         else if margin ≤ V3.dot (V3.sub (vx w vert) (gx w g)) n - fr f then []
         else (Write.mk "ncollision_out" [0] (WVal.i 1) WKind.alloc : Write ℝ) ::
           (if slot ≥ nmax then [Write.mk "overflow_out" [w] (WVal.i 4) WKind.aor]
            else [Write.mk "collision_pair_out" [slot] (WVal.iv (I2.toList ⟨vert, g⟩)) WKind.set,
                  Write.mk "collision_worldid_out" [slot] (WVal.i w) WKind.set])) := by
  unfold _flex_broadphase_plane__kernel
  simp only [lit_half, hadd, hsub, hmul, sgt, sge, sabs, ne_eq, decide_not, Bool.not_eq_eq_eq_not, Bool.not_true,
    decide_eq_false_iff_not, ite_not, List.nil_append, List.cons_append, decide_eq_true_eq, ge_iff_le]
  split_ifs <;> simp_all

/-- **the cull is redundant** (so it can never lose a contact): if the stored flex box is the `[lo, hi]` box of
    `broadphase_bounds_encloses` inflated by `b = radius + m'`, `m' ≥ 0`, the vertex lies in `[lo, hi]` and the plane normal
    is a unit vector, then the kernel emits a pair iff the geom is a plane and `dist = (vert − plane)·n − radius < margin`. -/
theorem plane_cull_sound (gt : Int → Int) (gm : Int → Int → ℝ) (fm fr : Int → ℝ) (pairs : Int → I2)
    (vf : Int → Int) (gx : Int → Int → V3 ℝ) (gR : Int → Int → M33 ℝ) (vx : Int → Int → V3 ℝ) (nmax : Int)
    (amin amax : Int → Int → V3 ℝ) (nc ov : Int → Int) (cp : Int → I2) (cw : Int → Int) (s0 slot : Int) (warn : Bool)
    (w p : Int) (lo hi : V3 ℝ) (m' : ℝ) (hr : 0 ≤ fr (vf (pairs p).c0)) (hm : 0 ≤ m')
    (hmin : amin w (vf (pairs p).c0) = V3.sub lo ⟨fr (vf (pairs p).c0) + m', fr (vf (pairs p).c0) + m', fr (vf (pairs p).c0) + m'⟩)
    (hmax : amax w (vf (pairs p).c0) = V3.add hi ⟨fr (vf (pairs p).c0) + m', fr (vf (pairs p).c0) + m', fr (vf (pairs p).c0) + m'⟩)
    (h1 : V3le lo (vx w (pairs p).c0)) (h2 : V3le (vx w (pairs p).c0) hi)
    (hn : (gR w (pairs p).c1).m02 * (gR w (pairs p).c1).m02 + (gR w (pairs p).c1).m12 * (gR w (pairs p).c1).m12
        + (gR w (pairs p).c1).m22 * (gR w (pairs p).c1).m22 = 1) :
    _flex_broadphase_plane__kernel gt gm fm fr pairs vf gx gR vx nmax amin amax nc ov cp cw s0 slot warn w p ≠ [] ↔
      gt (pairs p).c1 = 0 ∧
      V3.dot (V3.sub (vx w (pairs p).c0) (gx w (pairs p).c1))
          ⟨(gR w (pairs p).c1).m02, (gR w (pairs p).c1).m12, (gR w (pairs p).c1).m22⟩ - fr (vf (pairs p).c0)
        < gm (Int.tmod w s0) (pairs p).c1 + fm (vf (pairs p).c0) := by
  rw [broadphase_plane_spec]
  have hb := plane_cull_bound lo hi (vx w (pairs p).c0)
    ⟨(gR w (pairs p).c1).m02, (gR w (pairs p).c1).m12, (gR w (pairs p).c1).m22⟩ (gx w (pairs p).c1)
    (fr (vf (pairs p).c0) + m') (by linarith) hn h1 h2
  simp only [hmin, hmax]
  dsimp only at hb ⊢
  by_cases hg : gt (pairs p).c1 = 0
  · simp only [hg, ne_eq, not_true_eq_false, if_false, true_and]
    split_ifs with hc hd
    · simp only [not_true_eq_false, false_iff, not_lt]
      linarith
    · simp only [not_true_eq_false, false_iff, not_lt]
      linarith
    · simp only [reduceCtorEq, not_false_eq_true, true_iff]
      linarith
  · simp [hg]

/-! ## 10. stage 3 of the triangle – geom broadphase -/

/-- **stage 3 of `_flex_broadphase` is sound** (thread: world `w`, candidate pair `p`).  If the kernel emits nothing, then
    the geom type is not one of sphere/capsule/cylinder/box/mesh/ellipsoid (2,3,5,6,7,4), or one of the two AABB stages
    rejected the pair, or: every point `q` within the bounding radius `rExtent` of the geom centre and every point `x` of
    the triangle's plane are farther apart than `margin + flex radius` — so no contact within the margin is lost.
    `rExtent` is what the kernel computes from the local AABB half sizes (sphere h₀, capsule h₂ = r + l,
    cylinder sqrt(h₀² + h₂²), box/mesh/ellipsoid |h|); that it bounds the geom is `rExtent_sphere/_capsule/_cylinder/_box`
    together with `rot_preserves` in Lemmas/C40.lean. -/
theorem flex_broadphase_stage3_sound (gt : Int → Int) (aabb : Int → Int → Int → V3 ℝ) (gm : Int → Int → ℝ)
    (fm : Int → ℝ) (vadr : Int → Int) (fr : Int → ℝ) (gx : Int → Int → V3 ℝ) (gR : Int → Int → M33 ℝ)
    (vx : Int → Int → V3 ℝ) (nmax : Int) (amin amax : Int → Int → V3 ℝ) (triadr tridata tri : Int → Int)
    (pairs : Int → I2) (tflex : Int → Int) (nc ov : Int → Int) (cp : Int → I2) (cw : Int → Int) (s0 s1 slot : Int)
    (warn : Bool) (w p : Int) (q x : V3 ℝ) :
    let tid := (pairs p).c0
    let g := (pairs p).c1
    let f := tflex tid
    let d := tridata f + (tid - triadr f) * 3
    let t1 := vx w (vadr f + tri d)
    let t2 := vx w (vadr f + tri (d + 1))
    let t3 := vx w (vadr f + tri (d + 2))
    let h := aabb (Int.tmod w s1) g 1
    let m := gm (Int.tmod w s0) g + fm f
    let box := geomBox (gR w g) (aabb (Int.tmod w s1) g 0) h (gx w g) m
    0 ≤ rExtent (gt g) h →
    V3.dot (V3.sub q (gx w g)) (V3.sub q (gx w g)) ≤ rExtent (gt g) h ^ 2 →
    V3.dot (V3.sub x t1) (V3.normalize (V3.cross (V3.sub t2 t1) (V3.sub t3 t1))) = 0 →
    _flex_broadphase__kernel gt aabb gm fm vadr fr gx gR vx nmax amin amax triadr tridata tri pairs tflex nc ov cp cw
        s0 s1 slot warn w p = [] →
    (gt g ≠ 2 ∧ gt g ≠ 3 ∧ gt g ≠ 6 ∧ gt g ≠ 5 ∧ gt g ≠ 7 ∧ gt g ≠ 4) ∨
    _flex_element_aabb_filter box.1 box.2 (amin w f) (amax w f) = true ∨
    _flex_element_aabb_filter box.1 box.2
      (V3.sub (V3.vmin t1 (V3.vmin t2 t3)) ⟨fr f, fr f, fr f⟩) (V3.add (V3.vmax t1 (V3.vmax t2 t3)) ⟨fr f, fr f, fr f⟩) = true ∨
    m + fr f < V3.length (V3.sub q x) := by
  intro tid g f d t1 t2 t3 h m box hr hq hx hk
  rw [flex_broadphase_eq_core] at hk
  exact bpCore_sound (gt g) (gm (Int.tmod w s0) g) (fm f) (fr f) (aabb (Int.tmod w s1) g 0) h (gx w g) (gR w g) t1 t2 t3
    (amin w f) (amax w f) nmax slot w tid g q x hr hq hx hk


/-- regression of the repaired defect, evaluated on the generated kernel: triangle (0,0,0) (1,0,0) (0,1,0), radius 0,
    margins 0, axis-aligned CYLINDER (type 5) of radius 1 and half height 3 centred at (0.2, 0.2, 2.5), which passes
    through the triangle at (0.2, 0.2, 0): the pair is now emitted (`r_extent = sqrt 10 ≥ 2.5`; it was `sqrt 2`). -/
example :
    _flex_broadphase__kernel (K := ℝ) (fun _ => 5) (fun _ _ k => if k = 0 then ⟨0, 0, 0⟩ else ⟨1, 1, 3⟩) (fun _ _ => 0)
      (fun _ => 0) (fun _ => 0) (fun _ => 0) (fun _ _ => ⟨0.2, 0.2, 2.5⟩) (fun _ _ => ⟨1, 0, 0, 0, 1, 0, 0, 0, 1⟩)
      (fun _ v => if v = 0 then ⟨0, 0, 0⟩ else if v = 1 then ⟨1, 0, 0⟩ else ⟨0, 1, 0⟩) 10 (fun _ _ => ⟨0, 0, 0⟩)
      (fun _ _ => ⟨1, 1, 0⟩) (fun _ => 0) (fun _ => 0) (fun i => i) (fun _ => ⟨0, 0⟩) (fun _ => 0) (fun _ => 0) (fun _ => 0)
      (fun _ => ⟨0, 0⟩) (fun _ => 0) 1 1 0 false 0 0
      = [Write.mk "ncollision_out" [0] (WVal.i 1) WKind.alloc,
         Write.mk "collision_pair_out" [0] (WVal.iv [0, 0]) WKind.set,
         Write.mk "collision_worldid_out" [0] (WVal.i 0) WKind.set] := by
  unfold _flex_broadphase__kernel
  have h : (5 / 2 : ℝ) ≤ Real.sqrt 10 := by
    rw [Real.le_sqrt' (by norm_num)]; norm_num
  simp [_flex_element_aabb_filter, V3.add, V3.sub, V3.vmin, V3.vmax, V3.cross, V3.normalize, V3.length,
    V3.dot, M33.mulVec, V3.zero, V3.fill, I2.toList]
  have habs : |(2.5 : ℝ)| = 5 / 2 := by rw [abs_of_nonneg] <;> norm_num
  have hsq : Real.sqrt (1 + 3 * 3) = Real.sqrt 10 := by norm_num
  rw [habs, hsq]
  have hn : ¬ (Real.sqrt 10 < 5 / 2) := not_lt.mpr h
  norm_num [hn]

/-! ## 7b. contact records -/

/-- `_write_filtered_contacts`: candidates beyond `ncand[0]` and de-activated candidates write nothing -/
theorem write_filtered_guards {K : Type} [Scalar K] (gt gc gp : Int → Int) (gsm : Int → Int → K) (gsr : Int → Int → V2 K)
    (gsi : Int → Int → V5 K) (gf : Int → Int → V3 K) (gm gg : Int → Int → K) (fc fp : Int → Int) (fsm : Int → K)
    (fsr : Int → V2 K) (fsi : Int → V5 K) (ff : Int → V3 K) (fm fg : Int → K) (fd : Int → Int) (nmax : Int)
    (ncand : Int → Int) (cdist : Int → K) (cpos cnrm : Int → V3 K) (cgeom cflex celem cvert : Int → I2)
    (cworld cact : Int → Int) (o1 : Int → K) (o2 : Int → V3 K) (o3 : Int → M33 K) (o4 : Int → K) (o5 : Int → V5 K)
    (o6 o7 : Int → V2 K) (o8 : Int → V5 K) (o9 : Int → Int) (o10 o11 o12 o13 : Int → I2) (o14 o15 o16 o17 o18 : Int → Int)
    (s1 s2 s3 s4 s5 s6 slot : Int) (warn : Bool) (i : Int) (h : ncand 0 ≤ i ∨ cact i = 0) :
    _write_filtered_contacts__kernel gt gc gp gsm gsr gsi gf gm gg fc fp fsm fsr fsi ff fm fg fd nmax ncand cdist cpos
      cnrm cgeom cflex celem cvert cworld cact o1 o2 o3 o4 o5 o6 o7 o8 o9 o10 o11 o12 o13 o14 o15 o16 o17 o18
      s1 s2 s3 s4 s5 s6 slot warn i = [] := by
  unfold _write_filtered_contacts__kernel
  by_cases h1 : ncand 0 ≤ i
  · simp [h1]
  · have h2 : cact i = 0 := h.resolve_left h1
    simp [h1, h2]

/-- **includemargin of a geom–flex contact** (active candidate `i` with `geom ≥ 0`, closer than
    `margin = geom_margin + flex_margin`, slot available): the kernel stores `margin − (geom_gap + flex_gap)` for PLANES
    and `margin` for every other geom type.  (MuJoCo 3.13 stores `margin` for all flex contacts — the plane case is a
    departure found by the oracle, trigger `plane-includemargin-gap`.) -/
theorem write_filtered_includemargin (gt gc gp : Int → Int) (gsm : Int → Int → ℝ) (gsr : Int → Int → V2 ℝ)
    (gsi : Int → Int → V5 ℝ) (gf : Int → Int → V3 ℝ) (gm gg : Int → Int → ℝ) (fc fp : Int → Int) (fsm : Int → ℝ)
    (fsr : Int → V2 ℝ) (fsi : Int → V5 ℝ) (ff : Int → V3 ℝ) (fm fg : Int → ℝ) (fd : Int → Int) (nmax : Int)
    (ncand : Int → Int) (cdist : Int → ℝ) (cpos cnrm : Int → V3 ℝ) (cgeom cflex celem cvert : Int → I2)
    (cworld cact : Int → Int) (o1 : Int → ℝ) (o2 : Int → V3 ℝ) (o3 : Int → M33 ℝ) (o4 : Int → ℝ) (o5 : Int → V5 ℝ)
    (o6 o7 : Int → V2 ℝ) (o8 : Int → V5 ℝ) (o9 : Int → Int) (o10 o11 o12 o13 : Int → I2) (o14 o15 o16 o17 o18 : Int → Int)
    (s1 s2 s3 s4 s5 s6 slot : Int) (warn : Bool) (i : Int)
    (hi : i < ncand 0) (ha : cact i ≠ 0) (hg : 0 ≤ (cgeom i).c0) (hs : slot < nmax)
    (hd : cdist i < gm (Int.tmod (cworld i) s1) (cgeom i).c0 + fm (cflex i).c1) :
    (Write.mk "contact_includemargin_out" [slot]
        (WVal.f (if gt (cgeom i).c0 = 0 then
            (gm (Int.tmod (cworld i) s1) (cgeom i).c0 + fm (cflex i).c1)
              - (gg (Int.tmod (cworld i) s6) (cgeom i).c0 + fg (cflex i).c1)
          else gm (Int.tmod (cworld i) s1) (cgeom i).c0 + fm (cflex i).c1)) WKind.set : Write ℝ) ∈
    _write_filtered_contacts__kernel gt gc gp gsm gsr gsi gf gm gg fc fp fsm fsr fsi ff fm fg fd nmax ncand cdist cpos
      cnrm cgeom cflex celem cvert cworld cact o1 o2 o3 o4 o5 o6 o7 o8 o9 o10 o11 o12 o13 o14 o15 o16 o17 o18
      s1 s2 s3 s4 s5 s6 slot warn i := by
  unfold _write_filtered_contacts__kernel
  have h1 : ¬ ncand 0 ≤ i := not_le.mpr hi
  have h3 : ¬ nmax ≤ slot := not_le.mpr hs
  have h4 : ¬ (gm (Int.tmod (cworld i) s1) (cgeom i).c0 + fm (cflex i).c1 ≤ cdist i) := not_le.mpr hd
  have hgap := mix_gap (gc (cgeom i).c0) (gp (cgeom i).c0) (gsm (Int.tmod (cworld i) s2) (cgeom i).c0)
    (gsr (Int.tmod (cworld i) s3) (cgeom i).c0) (gsi (Int.tmod (cworld i) s4) (cgeom i).c0)
    (gf (Int.tmod (cworld i) s5) (cgeom i).c0) (gg (Int.tmod (cworld i) s6) (cgeom i).c0)
    (fc (cflex i).c1) (fp (cflex i).c1) (fsm (cflex i).c1) (fsr (cflex i).c1) (fsi (cflex i).c1) (ff (cflex i).c1) (fg (cflex i).c1)
  by_cases hp : gt (cgeom i).c0 = 0
  · simp [h1, ha, hg, h3, h4, hp, hgap]
  · simp [h1, ha, hg, h3, h4, hp]

/-! ## 8. edge equality constraint -/

/-- **`_equality_flex`**, thread (world `w`, flex equality `q`, edge `e`): nothing if the equality is inactive, if the
    flex is interpolated (`flex_interp ≠ 0`), or if the edge does not belong to the flex; otherwise `ne[w] += 1` and one
    row allocation on `nefc[w]`, and NOTHING ELSE when the allocated row index is `≥ njmax` (the row is dropped; `ne` and
    `nefc` still count it).  In the remaining case the kernel passes `pos = flexedge_length[w,e] − flexedge_length0[e]`
    (twice: pos and pos_imp), `invweight = flexedge_invweight0[e]` and `Jqvel = Σ J·qvel` over the edge's sparse Jacobian
    row to `_efc_row` (whose write list is characterised in Props/C05.lean) — that part is by inspection of the generated
    text only (`_partial`). -/
theorem equality_flex_guards {K : Type} [Scalar K] (nv : Int) (ts : Int → K) (dflags : Int) (interp eadr enum : Int → Int)
    (l0 iw0 : Int → K) (jnnz jadr jcol : Int → Int) (obj1 : Int → Int) (solref : Int → Int → V2 K)
    (solimp : Int → Int → V5 K) (eqadr : Int → Int) (qvel : Int → Int → K) (active : Int → Int → Bool)
    (J len : Int → Int → K) (njmax nnzmax : Int) (ne nefc : Int → Int) (ty id jadr2 jnrow : Int → Int → Int)
    (jnblock : Int → Int) (rnnz radr : Int → Int → Int) (cind : Int → Int → Int → Int) (Jout : Int → Int → Int → K)
    (pos mar D vel aref fl : Int → Int → K) (ennz : Int → Int) (a0 : Int) (sn : Bool) (a1 s1 s2 : Int) (sp : Bool)
    (a2 s3 w q e : Int) :
    let k := _equality_flex__kernel nv ts dflags interp eadr enum l0 iw0 jnnz jadr jcol obj1 solref solimp eqadr qvel
      active J len njmax nnzmax ne nefc ty id jadr2 jnrow jnblock rnnz radr cind Jout pos mar D vel aref fl ennz
      a0 sn a1 s1 s2 sp a2 s3 w q e
    (active w (eqadr q) = false → k = []) ∧
    (interp (obj1 (eqadr q)) ≠ 0 → k = []) ∧
    ((e < eadr (obj1 (eqadr q)) ∨ eadr (obj1 (eqadr q)) + enum (obj1 (eqadr q)) ≤ e) → k = []) ∧
    (active w (eqadr q) = true → interp (obj1 (eqadr q)) = 0 → eadr (obj1 (eqadr q)) ≤ e →
      e < eadr (obj1 (eqadr q)) + enum (obj1 (eqadr q)) → njmax ≤ a0 →
      k = [Write.mk "ne_out" [w] (WVal.i 1) WKind.aadd, Write.mk "nefc_out" [w] (WVal.i 1) WKind.alloc]) := by
  intro k
  refine ⟨?_, ?_, ?_, ?_⟩
  · intro h
    simp only [k, _equality_flex__kernel, h, Bool.not_false, if_true]
  · intro h
    simp only [k, _equality_flex__kernel]
    by_cases ha : active w (eqadr q) = true
    · simp [ha, h]
    · simp [ha]
  · intro h
    simp only [k, _equality_flex__kernel]
    by_cases ha : active w (eqadr q) = true
    · by_cases hi : interp (obj1 (eqadr q)) = 0
      · have : ((decide (e < eadr (obj1 (eqadr q)))) || (decide (e ≥ eadr (obj1 (eqadr q)) + enum (obj1 (eqadr q))))) = true := by
          rcases h with h | h <;> simp [h]
        simp [ha, hi, this]
      · simp [ha, hi]
    · simp [ha]
  · intro ha hi h1 h2 h3
    have h1' : ¬ e < eadr (obj1 (eqadr q)) := not_lt.mpr h1
    have h2' : ¬ e ≥ eadr (obj1 (eqadr q)) + enum (obj1 (eqadr q)) := not_le.mpr h2
    simp [k, _equality_flex__kernel, ha, hi, h1', h2', h3]

/-- **`_equality_flex`, sparse Jacobian, row fits (`efcid < njmax`) but its non-zeros do not** (`rowadr + rownnz >
    njmax_nnz`): the kernel records the request on `efc_nnz`, then sets the row's `efc_J_rownnz` back to 0 and writes nothing
    else (no column indices, no values, no `_efc_row`), so later readers never index `efc_J` through the dropped row
    (after /repo "fix: a row dropped for lack of njmax_nnz kept its non-zero count"). -/
theorem equality_flex_nnz_overflow {K : Type} [Scalar K] (nv : Int) (ts : Int → K) (dflags : Int) (interp eadr enum : Int → Int)
    (l0 iw0 : Int → K) (jnnz jadr jcol : Int → Int) (obj1 : Int → Int) (solref : Int → Int → V2 K)
    (solimp : Int → Int → V5 K) (eqadr : Int → Int) (qvel : Int → Int → K) (active : Int → Int → Bool)
    (J len : Int → Int → K) (njmax nnzmax : Int) (ne nefc : Int → Int) (ty id jadr2 jnrow : Int → Int → Int)
    (jnblock : Int → Int) (rnnz radr : Int → Int → Int) (cind : Int → Int → Int → Int) (Jout : Int → Int → Int → K)
    (pos mar D vel aref fl : Int → Int → K) (ennz : Int → Int) (a0 : Int) (sn : Bool) (a1 s1 s2 : Int)
    (a2 s3 w q e : Int)
    (ha : active w (eqadr q) = true) (hi : interp (obj1 (eqadr q)) = 0) (h1 : eadr (obj1 (eqadr q)) ≤ e)
    (h2 : e < eadr (obj1 (eqadr q)) + enum (obj1 (eqadr q))) (h3 : a0 < njmax) (h4 : nnzmax < a2 + jnnz e) :
    _equality_flex__kernel nv ts dflags interp eadr enum l0 iw0 jnnz jadr jcol obj1 solref solimp eqadr qvel
      active J len njmax nnzmax ne nefc ty id jadr2 jnrow jnblock rnnz radr cind Jout pos mar D vel aref fl ennz
      a0 sn a1 s1 s2 true a2 s3 w q e
      = [Write.mk "ne_out" [w] (WVal.i 1) WKind.aadd, Write.mk "nefc_out" [w] (WVal.i 1) WKind.alloc]
        ++ (if sn then [Write.mk "efc_jtdaj_nblock_out" [w] (WVal.i 1) WKind.alloc,
                        Write.mk "efc_jtdaj_adr_out" [w, a1] (WVal.i a0) WKind.set,
                        Write.mk "efc_jtdaj_nrow_out" [w, a1] (WVal.i 1) WKind.set] else [])
        ++ [Write.mk "efc_J_rownnz_out" [w, a0] (WVal.i (jnnz e)) WKind.set,
            Write.mk "efc_nnz_out" [w] (WVal.i (jnnz e)) WKind.alloc,
            Write.mk "efc_J_rownnz_out" [w, a0] (WVal.i 0) WKind.set] := by
  have h1' : ¬ e < eadr (obj1 (eqadr q)) := not_lt.mpr h1
  have h2' : ¬ e ≥ eadr (obj1 (eqadr q)) + enum (obj1 (eqadr q)) := not_le.mpr h2
  have h3' : ¬ njmax ≤ a0 := not_le.mpr h3
  cases sn <;> simp [_equality_flex__kernel, ha, hi, h1', h2', h3', h4]

/-! ## 9. interpolation basis and face forces -/

/-- closed form of the eight trilinear weights (`node_idx = 4 i + 2 j + k`) -/
theorem tri_closed (l : V3 ℝ) :
    eval_basis_trilinear l 0 = (1 - l.c0) * (1 - l.c1) * (1 - l.c2) ∧
    eval_basis_trilinear l 1 = (1 - l.c0) * (1 - l.c1) * l.c2 ∧
    eval_basis_trilinear l 2 = (1 - l.c0) * l.c1 * (1 - l.c2) ∧
    eval_basis_trilinear l 3 = (1 - l.c0) * l.c1 * l.c2 ∧
    eval_basis_trilinear l 4 = l.c0 * (1 - l.c1) * (1 - l.c2) ∧
    eval_basis_trilinear l 5 = l.c0 * (1 - l.c1) * l.c2 ∧
    eval_basis_trilinear l 6 = l.c0 * l.c1 * (1 - l.c2) ∧
    eval_basis_trilinear l 7 = l.c0 * l.c1 * l.c2 := by
  obtain ⟨a0,a1,a2,a3,a4,a5,a6,a7⟩ := iand_facts
  obtain ⟨b0,b1,b2,b3,b4,b5,b6,b7,c0,c1,c2,c3,c4,c5,c6,c7⟩ := ishr_facts
  simp only [eval_basis_trilinear, _phi, a0,a1,a2,a3,a4,a5,a6,a7,b0,b1,b2,b3,b4,b5,b6,b7,c0,c1,c2,c3,c4,c5,c6,c7, lit1, hsub, hmul]
  simp

/-- **partition of unity, non-negativity on the unit cube and linear precision** of the trilinear basis: the
    interpolated vertex position `Σ wₙ · nodeₙ` of `_flex_vertices` is a convex combination of the eight cell nodes and
    reproduces every affine function of the local coordinates. -/
theorem trilinear_partition_of_unity (l : V3 ℝ) :
    (eval_basis_trilinear l 0 + eval_basis_trilinear l 1 + eval_basis_trilinear l 2 + eval_basis_trilinear l 3
      + eval_basis_trilinear l 4 + eval_basis_trilinear l 5 + eval_basis_trilinear l 6 + eval_basis_trilinear l 7 = 1) ∧
    (eval_basis_trilinear l 4 + eval_basis_trilinear l 5 + eval_basis_trilinear l 6 + eval_basis_trilinear l 7 = l.c0) ∧
    (eval_basis_trilinear l 2 + eval_basis_trilinear l 3 + eval_basis_trilinear l 6 + eval_basis_trilinear l 7 = l.c1) ∧
    (eval_basis_trilinear l 1 + eval_basis_trilinear l 3 + eval_basis_trilinear l 5 + eval_basis_trilinear l 7 = l.c2) := by
  obtain ⟨h0, h1, h2, h3, h4, h5, h6, h7⟩ := tri_closed l
  rw [h0, h1, h2, h3, h4, h5, h6, h7]
  refine ⟨?_, ?_, ?_, ?_⟩ <;> ring

theorem trilinear_nonneg (l : V3 ℝ) (h0 : 0 ≤ l.c0 ∧ l.c0 ≤ 1) (h1 : 0 ≤ l.c1 ∧ l.c1 ≤ 1) (h2 : 0 ≤ l.c2 ∧ l.c2 ≤ 1)
    (n : Int) (hn : n = 0 ∨ n = 1 ∨ n = 2 ∨ n = 3 ∨ n = 4 ∨ n = 5 ∨ n = 6 ∨ n = 7) :
    0 ≤ eval_basis_trilinear l n := by
  obtain ⟨e0, e1, e2, e3, e4, e5, e6, e7⟩ := tri_closed l
  have a0 : 0 ≤ 1 - l.c0 := by linarith [h0.2]
  have a1 : 0 ≤ 1 - l.c1 := by linarith [h1.2]
  have a2 : 0 ≤ 1 - l.c2 := by linarith [h2.2]
  rcases hn with h | h | h | h | h | h | h | h <;> subst h
  · rw [e0]; exact mul_nonneg (mul_nonneg a0 a1) a2
  · rw [e1]; exact mul_nonneg (mul_nonneg a0 a1) h2.1
  · rw [e2]; exact mul_nonneg (mul_nonneg a0 h1.1) a2
  · rw [e3]; exact mul_nonneg (mul_nonneg a0 h1.1) h2.1
  · rw [e4]; exact mul_nonneg (mul_nonneg h0.1 a1) a2
  · rw [e5]; exact mul_nonneg (mul_nonneg h0.1 a1) h2.1
  · rw [e6]; exact mul_nonneg (mul_nonneg h0.1 h1.1) a2
  · rw [e7]; exact mul_nonneg (mul_nonneg h0.1 h1.1) h2.1

example : (0:ℝ) ≤ (⟨0.25, 0.5, 1⟩ : V3 ℝ).c0 ∧ (⟨0.25, 0.5, 1⟩ : V3 ℝ).c0 ≤ 1 := by norm_num

/-- **Newton's third law for `_apply_face_forces`** (bilinear face, `order_abs = 1`): the four nodal forces the function
    adds to `body_force_out` (as spatial vectors; four atomic adds) have zero resultant, for every local coordinate,
    every pair of tangent weights and every stiffness scale. -/
theorem apply_face_forces_net_zero (nb : Int → Int) (face : Int → Int → Int) (xi nx : Int → Int → V3 ℝ) (fid : Int)
    (lc : V2 ℝ) (wt1 wt2 : V3 ℝ) (s : ℝ) (w : Int) (out : Int → Int → V6 ℝ) :
    linSum (_apply_face_forces nb face xi nx fid lc wt1 wt2 s 1 w out) = ⟨0, 0, 0⟩ ∧
    (_apply_face_forces nb face xi nx fid lc wt1 wt2 s 1 w out).length = 4 := by
  unfold _apply_face_forces
  simp only [forRange_three]
  refine ⟨?_, by simp⟩
  simp [linSum, dphi2D, flex_dphi, flex_phi, V3.muls, V3.sub, V6.ofV3, V6.toList, V3.neg, V3.cross]
  refine ⟨?_, ?_, ?_⟩ <;> ring

/-! ## non-vacuity of the hypotheses used above -/

/-- `plane_cull_sound`: unit normal (0,0,1), vertex (½,½,½) in the box [0,1]³, radius 0.01, m' = 0 -/
example : ((0:ℝ) * 0 + 0 * 0 + 1 * 1 = 1) ∧ V3le (⟨0, 0, 0⟩ : V3 ℝ) ⟨0.5, 0.5, 0.5⟩ ∧ V3le (⟨0.5, 0.5, 0.5⟩ : V3 ℝ) ⟨1, 1, 1⟩
    ∧ (0:ℝ) ≤ 0.01 := by
  unfold V3le; norm_num

/-- `mix_priority_first/second/equal`, `write_filtered_includemargin`, `equality_flex_guards`: the integer guards -/
example : (0:Int) < 1 ∧ (1:Int) ≠ 0 ∧ (0:Int) ≤ 0 ∧ (2:Int) = 2 := by decide

/-- a concrete mixed contact: equal priority, solmix 1 and 3 → weight ¼; condim max(1,3) = 3; friction floor active -/
example : mixW 1 3 = 1 / 4 := by
  unfold mixW
  norm_num

/-- a concrete candidate record: vertex–element self-collision candidate (geom = −1) in slot 2 -/
example : _write_candidate (K := ℝ) 10 (-0.01) ⟨0, 0, 1⟩ ⟨0, 0, 1⟩ (-1) 0 0 5 7 0 false (fun _ => 0) (fun _ => 0)
    (fun _ => ⟨0, 0, 0⟩) (fun _ => ⟨0, 0, 0⟩) (fun _ => ⟨0, 0⟩) (fun _ => ⟨0, 0⟩) (fun _ => ⟨0, 0⟩) (fun _ => ⟨0, 0⟩)
    (fun _ => 0) (fun _ => 0) 2
    = [Write.mk "ncand_out" [0] (WVal.i 1) WKind.alloc,
       Write.mk "cand_dist_out" [2] (WVal.f (-0.01)) WKind.set,
       Write.mk "cand_pos_out" [2] (WVal.v [0, 0, 1]) WKind.set,
       Write.mk "cand_nrm_out" [2] (WVal.v [0, 0, 1]) WKind.set,
       Write.mk "cand_geom_out" [2] (WVal.iv [-1, -1]) WKind.set,
       Write.mk "cand_flex_out" [2] (WVal.iv [0, 0]) WKind.set,
       Write.mk "cand_elem_out" [2] (WVal.iv [-1, 5]) WKind.set,
       Write.mk "cand_vert_out" [2] (WVal.iv [7, -1]) WKind.set,
       Write.mk "cand_worldid_out" [2] (WVal.i 0) WKind.set] := by
  rw [write_candidate_spec]
  have h : ¬ ((10:ℝ) ^ 10 ≤ -0.01) := by norm_num
  simp [V3.toList, I2.toList, lit_maxval, h]

end Mjw.Props.C40
