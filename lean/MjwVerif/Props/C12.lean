/-
  C12  Next step depends only on the integration state.
  Define-before-use over the host event list of `step()` regenerated from /repo on every run (Gen/Host.lean): walking
  the launches and host array writes of one step in order, which Data fields does some kernel READ before any earlier
  event of the same step WROTE them, other than the integration state and the Model?  Those are the only channels
  through which an earlier history could influence the step.  The complete list is fixed by kernel `decide`; each
  entry is classified below.  (Field granularity: a field counts as written once any event writes it; partially
  written arrays — rows beyond nefc, contacts beyond nacon — are covered by the poison differential, not here.)
-/
import MjwVerif.Gen.Host

namespace Mjw.Props.C12
open Mjw.HostGraph Mjw.Gen.Host

def ids (l : List String) : List Nat := l.map nameId

def stateFields : List String :=
  ["d.time", "d.qpos", "d.qvel", "d.act", "d.history", "d.qacc_warmstart", "d.ctrl", "d.qfrc_applied", "d.xfrc_applied",
   "d.eq_active", "d.mocap_pos", "d.mocap_quat", "d.userdata"]

def sleepConds : List String :=
  ["bool(m.opt.enableflags & EnableBit.SLEEP) and (not bool(m.opt.disableflags & DisableBit.ISLAND))",
   "bool(m.opt.enableflags & types.EnableBit.SLEEP)", "m.opt.enableflags & types.EnableBit.SLEEP",
   "sleep_enabled and m.ntendon > 0"]

/-- the Euler, sleeping-off configuration (the property is stated for sleep-disabled models) -/
def eulerFalse : List String :=
  ["m.opt.integrator == IntegratorType.RK4", "not (m.opt.integrator == IntegratorType.EULER)",
   "m.opt.integrator in (IntegratorType.IMPLICITFAST, IntegratorType.IMPLICIT)",
   "m.opt.integrator == IntegratorType.IMPLICIT"] ++ sleepConds

def stepEuler : List Event :=
  let f := ids eulerFalse
  forward_step.filter (fun e => e.conds.all (fun c => !f.contains c))

/-- Data fields read before written in one Euler step, beyond the integration state -/
def staleCandidates : List String :=
  ((readBeforeWrite (ids stateFields ++ modelFieldIds) stepEuler).filter (fun f => dataFieldIds.contains f)).map name

/-- **Complete list.**  Classification:
    * `d.xpos`, `d.xquat`, `d.cam_xpos`, `d.light_xpos`, `d.light_xdir`: the kinematics chain kernels read the PARENT's
      pose that they (or the world-body row, never written by a step: static since make_data) hold — own/chain reads
      (C01 `kinematics_branch_eq_seq`), plus camera/light tracking modes that read their own previous output.
    * `d.body_awake`, `d.tree_awake`: sleep bookkeeping, constant (all awake) when sleeping is disabled.
    * `d.cvel`, `d.cdof_dot`: read by the connect/weld equality builders (fwd_position) BEFORE fwd_velocity recomputes
      them: they hold the PREVIOUS step's values (history channel candidate; see the poison differential).
    * `d.efc.aref`, `d.energy`, `d.qLD`, `d.qacc_smooth`: read-modify-write by the launch that also writes them first.
    * `d.qacc`, `d.cfrc_ext`, `d.efc.force`, `d.efc.state`: written earlier in the same step through an alias the
      extractor does not follow (solver context / compacted views), or read-modify-write. -/
theorem stale_read_candidates_complete :
    staleCandidates =
      ["d.xpos", "d.xquat", "d.cam_xpos", "d.light_xdir", "d.light_xpos", "d.body_awake", "d.cdof_dot", "d.cvel",
       "d.efc.aref", "d.energy", "d.qacc", "d.cfrc_ext", "d.tree_awake", "d.qLD", "d.qacc_smooth", "d.efc.force",
       "d.efc.state"] := by
  decide +kernel

/-- non-vacuity: the step writes many Data fields -/
theorem step_writes_many : 60 < ((writtenFields stepEuler).filter (fun f => dataFieldIds.contains f)).length := by decide +kernel

end Mjw.Props.C12
