/-
  C05 witnesses: the places where `_efc_row` / `_efc_contact_update` (as generated from
  /repo/mujoco_warp/_src/constraint.py) do NOT compute what MuJoCo's C code computes
  (`Spec/Impedance.lean` = `getsolparam`, `getimpedance`, `mj_makeImpedance`).  Each theorem is the negation of
  `Props.C05.efc_row_eq_spec` with ONE of its hypotheses dropped, on concrete inputs — so every hypothesis of that
  theorem is necessary.  All five were also reproduced numerically (mujoco 3.13 `mj_forward` vs
  `mujoco_warp.forward`, sphere on plane):

  W1 `width_minval_witness`      solimp width = 0 (≤ mjMINVAL): C uses the flat impedance (dmin+dmax)/2 = 0.925,
                                 the code saturates at dmax = 0.95           (C: D = 12.92 ·c, warp: D = 19.90 ·c).
  W2 `dmin_gt_dmax_witness`      solimp dmin = 0.95 > dmax = 0.9: C interpolates (imp = dmin at pos = margin), the
                                 code's extra `clamp(imp, dmin, dmax)` returns dmax for every position.
  W3 `mixed_solref_witness`      solref = (-100, 1) (mixed format): C warns and substitutes the default (0.02, 1);
                                 the code uses k = 100/dmax² (direct) together with b = 2/(dmax·timeconst).
  W4 `stiffness_minval_witness`  solref = (1e-9, 1), REFSAFE disabled: C clamps the denominator of K at mjMINVAL
                                 (K = 1e15); the code does not (K = 1.1e18).
  W5 `elliptic_friction_pos_margin_witness`  elliptic cone, friction row (dimid = 1), includemargin = 0.1:
                                 the code stores efc_pos = efc_margin = includemargin, MuJoCo stores 0 and 0
                                 (no effect on aref/D: pos − margin = 0 in both).
-/
import MjwVerif.Props.C05
set_option linter.unusedVariables false
set_option linter.unusedSimpArgs false

namespace Mjw.Props.C05Witness
open Mjw Mjw.Lemmas.C05 Mjw.Props.C05

/-- the real number stored in cell `j` of a write list (0 if there is none) -/
noncomputable def cellF (ws : List (Write ℝ)) (j : Nat) : ℝ :=
  match (ws.getD j ⟨"", [], WVal.i 0, WKind.set⟩).val with
  | WVal.f x => x
  | _ => 0

private def z2 : Int → Int → Int := fun _ _ => 0
private noncomputable def zr : Int → Int → ℝ := fun _ _ => 0

/-- W1: `width ≤ mjMINVAL`.  `efc_row_eq_spec` without `hwidth` is false:
    solref (0.02, 1), solimp (0.9, 0.95, 0, 0.5, 2), timestep 0.002, pos = −0.01, margin = 0, invweight 1 —
    the `D` cells differ (code 19 = 0.95/0.05, MuJoCo 12.33 = 0.925/0.075). -/
theorem width_minval_witness :
    Gen.Constraint._efc_row 0 0 (0.002 : ℝ) 0 (-0.01 - 0) (-0.01 - 0) 1 ⟨0.02, 1⟩ ⟨0.9, 0.95, 0, 0.5, 2⟩ 0 0 0 5 0
        z2 z2 zr zr zr zr zr zr
      ≠ rowCells 0 0 (Spec.Impedance.row (!(decide (Mjw.iand 0 4096 ≠ 0))) 0.002 ⟨0.02, 1⟩ ⟨0.9, 0.95, 0, 0.5, 2⟩
          (-0.01) 0 (-0.01) 0 1 0 0) 5 0 := by
  intro h
  have h0 := congrArg (fun l => cellF l 0) h
  rw [efc_row_code] at h0
  simp only [cellF, rowCells, List.getD_cons_zero, Spec.Impedance.row, Spec.Impedance.regR, Spec.Impedance.getImpedance,
    solimpFix_eq, Spec.Impedance.mjMINVAL, lit_1_0, lit_1_m15, lit_5_m1, lit_0_0, hadd, hsub, hmul, hdiv, smax, sle, sbeq,
    Bool.or_eq_true, impCode, clampImp] at h0
  norm_num [max_def, min_def] at h0


/-- W2: clamped `dmin > dmax`.  `efc_row_eq_spec` without `hdord` is false:
    solimp (0.95, 0.9, 0.02, 0.5, 2), pos = margin = 0 (x = 0): MuJoCo's impedance is `dmin = 0.95`,
    the code's is `dmax = 0.9` — `D` = 9 vs 19 (invweight 1). -/
theorem dmin_gt_dmax_witness :
    Gen.Constraint._efc_row 0 0 (0.002 : ℝ) 0 (0 - 0) (0 - 0) 1 ⟨0.02, 1⟩ ⟨0.95, 0.9, 0.02, 0.5, 2⟩ 0 0 0 5 0
        z2 z2 zr zr zr zr zr zr
      ≠ rowCells 0 0 (Spec.Impedance.row (!(decide (Mjw.iand 0 4096 ≠ 0))) 0.002 ⟨0.02, 1⟩ ⟨0.95, 0.9, 0.02, 0.5, 2⟩
          0 0 0 0 1 0 0) 5 0 := by
  intro h
  have h0 := congrArg (fun l => cellF l 0) h
  rw [efc_row_code] at h0
  have e : impCode (clampImp 0.95) (clampImp 0.9) (clampImp 0.5) (max 1 2) (|(0:ℝ) - 0| / max 1e-15 0.02) = 0.9 := by
    rw [impCode_inverted _ _ _ _ _ (by norm_num [clampImp, max_def, min_def])]
    norm_num [clampImp, max_def, min_def]
  simp only [e] at h0
  simp only [cellF, rowCells, List.getD_cons_zero, Spec.Impedance.row, Spec.Impedance.regR, Spec.Impedance.getImpedance,
    solimpFix_eq, Spec.Impedance.mjMINVAL, lit_1_0, lit_1_m15, lit_5_m1, lit_0_0, hadd, hsub, hmul, hdiv, smax, sle, sbeq,
    sge, sabs, Bool.or_eq_true, clampImp] at h0
  norm_num [max_def, min_def] at h0

/-- W3: mixed solref format.  `efc_row_eq_spec` without `hmix` is false:
    solref (−100, 1), solimp (0.9, 0.95, 0.001, 0.5, 2), pos = −0.01, vel = 0: the `aref` cells differ
    (code: k = 100/dmax² ⇒ aref = 1.0526; MuJoCo: default solref ⇒ k = 2770.08, aref = 26.316). -/
theorem mixed_solref_witness :
    Gen.Constraint._efc_row 0 0 (0.002 : ℝ) 0 (-0.01 - 0) (-0.01 - 0) 1 ⟨-100, 1⟩ ⟨0.9, 0.95, 0.001, 0.5, 2⟩ 0 0 0 5 0
        z2 z2 zr zr zr zr zr zr
      ≠ rowCells 0 0 (Spec.Impedance.row (!(decide (Mjw.iand 0 4096 ≠ 0))) 0.002 ⟨-100, 1⟩ ⟨0.9, 0.95, 0.001, 0.5, 2⟩
          (-0.01) 0 (-0.01) 0 1 0 0) 5 0 := by
  intro h
  have h0 := congrArg (fun l => cellF l 2) h
  rw [efc_row_code] at h0
  have hi : Mjw.iand 0 4096 = 0 := by decide
  have hmixed : Spec.Impedance.mixedSolref (⟨-100, 1⟩ : V2 ℝ) = true := by
    simp [Spec.Impedance.mixedSolref, Scalar.gt, Scalar.lt, lit_0_0]
  simp only [cellF, rowCells, List.getD_cons_succ, List.getD_cons_zero, Spec.Impedance.row, Spec.Impedance.getImpedance,
    Spec.Impedance.stiffness, Spec.Impedance.damping, Spec.Impedance.solrefFix, Spec.Impedance.defaultSolref, hmixed,
    solimpFix_eq, Spec.Impedance.mjMINVAL, lit_1_0, lit_1_m15, lit_5_m1, lit_0_0, lit_2_0, lit_2_m2, hadd, hsub, hmul,
    hdiv, hneg, smax, sle, sbeq, sge, sgt, sabs, Bool.or_eq_true, impCode, clampImp, kCode, bCode, tcCode, hi] at h0
  norm_num [max_def, min_def, abs_of_neg] at h0

/-- W4: no `mjMINVAL` clamp of the stiffness denominator.  `efc_row_eq_spec` without `hk` is false:
    solref (1e-9, 1), REFSAFE disabled (`disableflags = 4096`), pos = −0.01, vel = 0: MuJoCo's K is `1/mjMINVAL = 1e15`,
    the code's is `1/(0.9025e-18)`. -/
theorem stiffness_minval_witness :
    Gen.Constraint._efc_row 4096 0 (0.002 : ℝ) 0 (-0.01 - 0) (-0.01 - 0) 1 ⟨1e-9, 1⟩ ⟨0.9, 0.95, 0.001, 0.5, 2⟩ 0 0 0 5 0
        z2 z2 zr zr zr zr zr zr
      ≠ rowCells 0 0 (Spec.Impedance.row (!(decide (Mjw.iand 4096 4096 ≠ 0))) 0.002 ⟨1e-9, 1⟩ ⟨0.9, 0.95, 0.001, 0.5, 2⟩
          (-0.01) 0 (-0.01) 0 1 0 0) 5 0 := by
  intro h
  have h0 := congrArg (fun l => cellF l 2) h
  rw [efc_row_code] at h0
  have hi : Mjw.iand 4096 4096 = 4096 := by decide
  have hmixed : Spec.Impedance.mixedSolref (⟨1e-9, 1⟩ : V2 ℝ) = false := by
    simp [Spec.Impedance.mixedSolref, Scalar.gt, Scalar.lt, lit_0_0]
    norm_num
  simp only [cellF, rowCells, List.getD_cons_succ, List.getD_cons_zero, Spec.Impedance.row, Spec.Impedance.getImpedance,
    Spec.Impedance.stiffness, Spec.Impedance.damping, Spec.Impedance.solrefFix, Spec.Impedance.defaultSolref, hmixed,
    solimpFix_eq, Spec.Impedance.mjMINVAL, lit_1_0, lit_1_m15, lit_5_m1, lit_0_0, lit_2_0, lit_2_m2, hadd, hsub, hmul,
    hdiv, hneg, smax, sle, sbeq, sge, sgt, sabs, Bool.or_eq_true, impCode, clampImp, kCode, bCode, tcCode, hi] at h0
  norm_num [max_def, min_def, abs_of_neg] at h0


/-- W5: friction rows of an elliptic contact.  One contact (`conid = 0`, `condim = 3`, `dist = 0.09`,
    `includemargin = 0.1`), thread `dimid = 1` (first friction row, address 1).  MuJoCo's row has `efc_pos = 0`,
    `efc_margin = 0` (`mj_instantiateContact` passes `cpos = (dist, 0, 0)`, `cmargin = (includemargin, 0, 0)`), i.e. it is
    `Spec.Impedance.row … (pos := 0) (margin := 0) (posImp := dist) (marginImp := includemargin)`.  The generated
    kernel writes `efc_pos = efc_margin = includemargin = 0.1` instead — the write lists differ. -/
theorem elliptic_friction_pos_margin_witness :
    Gen.Constraint._efc_contact_update__kernel (K := ℝ) (fun _ => 0.002) 0 (fun _ => 1) (fun _ _ => ⟨1, 1⟩) (fun _ => 0)
        (fun _ _ => 1) (fun _ _ => 0) (fun _ => 1) (fun _ => 0.09) (fun _ => 3) (fun _ => 0.1) (fun _ => 0)
        (fun _ => ⟨0, 1⟩) (fun _ => ⟨1, 1, 0.005, 0.0001, 0.0001⟩) (fun _ => ⟨0.02, 1⟩) (fun _ => ⟨0, 0⟩)
        (fun _ => ⟨0.9, 0.95, 0.001, 0.5, 2⟩) (fun _ => 0) (fun _ => 1) z2 z2 zr zr zr zr zr zr true 1 1 1 false 0 1
      ≠ Write.renameAll efcRowRenaming
          (rowCells 0 1 (Spec.Impedance.row (!(decide (Mjw.iand 0 4096 ≠ 0))) 0.002 ⟨0.02, 1⟩ ⟨0.9, 0.95, 0.001, 0.5, 2⟩
            0 0 0.09 0.1 (1 + 1) 0 0) 7 0) := by
  intro h
  rw [contact_update_elliptic (hflg := rfl) (hc := by norm_num) (hty := by decide) (hd := by norm_num) (hadr := by norm_num)] at h
  have h0 := congrArg (fun l => cellF l 3) h
  rw [efc_row_code] at h0
  simp [cellF, rowCells, efcRowRenaming, Write.renameAll, Write.rename, Spec.Impedance.row, lit_0_0] at h0
  norm_num at h0

end Mjw.Props.C05Witness
