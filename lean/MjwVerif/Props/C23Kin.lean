/-
  C23  Rotations stay valid — the kinematics kernel.

  Theorems about `Mjw.Gen.Smooth._kinematics_branch`, regenerated from /repo/mujoco_warp/_src/smooth.py on every
  run (the kernel that produces `d.xquat`, from which `xmat`, `ximat`, `geom_xmat`, `site_xmat`, `cam_xmat` are
  derived by `quat_to_mat (mul_quat xquat local)`; `Props/C23.lean` (5), (2), (7)).  Over ℝ.

  What is proved (ALL inputs: zero / non-unit quaternions in qpos, body_quat and mocap_quat; any tree; no hypothesis
  on joint counts or mocap ids — joint-less and mocap bodies are covered like every other body):
    * `kinematics_xquat_writes_unit`      every value the kernel writes to `xquat_out` is a unit quaternion;
    * `kinematics_every_body_xquat_unit`  for EVERY loop index `i` of the thread (`start ≤ i < end`) the kernel does
                                          write `xquat_out[w, body_branches[i]]`, and the value is unit;
    * `kinematics_jointless_body_step`    the kernel is the fold of its loop body, and the iteration of a body WITHOUT
                                          joints (welded body, mocap body) appends exactly the two pose writes, the
                                          quaternion being `normalize (parent ⊗ frame)` where `frame` is the raw
                                          `mocap_quat` for a mocap body: the final normalisation is unconditional.
  What is assumed: nothing beyond the model of the kernel (translator + `Model/Kernel.lean`); the loop-body copy
  `bodyStepG` of `Lemmas/C01.lean` is tied to the generated definition by `rfl` (`kinematics_branch_unfold`).
  What is missing: float32 round-off; that every body is on some branch (a host-side fact of `put_model`).
-/
import MjwVerif.Lemmas.C01Real

set_option linter.unusedVariables false
namespace Mjw.Props.C23
open Mjw Mjw.Gen.Math Mjw.Spec.Kinematics Mjw.Lemmas.C01 Mjw.Lemmas.C01R

/-- bundle version of `kinematics_xquat_writes_unit` -/
private theorem kin_xquat_unit (a : KinArgs ℝ) (w br : Int) (x : Write ℝ) (hx : x ∈ kin a w br)
    (ha : x.arr = "xquat_out") :
    ∃ q : Q ℝ, x.val = WVal.v (Q.toList q) ∧ x.kind = WKind.set ∧ nrm2 q = 1 := by
  rw [kinematics_branch_unfold] at hx
  revert x
  apply Mjw.Lemmas.C01.forRange_inv
    (fun ws : List (Write ℝ) => ∀ x ∈ ws, x.arr = "xquat_out" →
      ∃ q : Q ℝ, x.val = WVal.v (Q.toList q) ∧ x.kind = WKind.set ∧ nrm2 q = 1)
  · intro x hx; cases hx
  · intro i ws _ _ ih x hx ha
    rw [bodyStepG_eq] at hx
    rcases List.mem_append.mp hx with hx | hx
    · exact ih x hx ha
    · rcases mem_bodyWrites_pose _ _ _ _ _ x hx (Or.inr ha) with rfl | rfl
      · exact absurd (show ("xpos_out" : String) = "xquat_out" from ha) (by decide)
      · exact ⟨_, rfl, rfl, kinBodyW_unit _ _ _ _ _⟩

/-- a fold whose step only appends keeps everything it had and contains what each step appended -/
private theorem foldl_append_mem {α : Type} (new : Nat → List α → List α) (l : List Nat) :
    ∀ init : List α,
      (∀ y ∈ init, y ∈ l.foldl (fun s k => s ++ new k s) init)
      ∧ ∀ k ∈ l, ∃ s, ∀ y ∈ new k s, y ∈ l.foldl (fun s k => s ++ new k s) init := by
  induction l with
  | nil => intro init; exact ⟨fun y hy => hy, fun k hk => by cases hk⟩
  | cons a l ih =>
    intro init
    obtain ⟨h1, h2⟩ := ih (init ++ new a init)
    refine ⟨fun y hy => h1 y (List.mem_append_left _ hy), ?_⟩
    intro k hk
    rcases List.mem_cons.mp hk with rfl | hk
    · exact ⟨init, fun y hy => h1 y (List.mem_append_right _ hy)⟩
    · exact h2 k hk

/-- bundle version of `kinematics_every_body_xquat_unit` -/
private theorem kin_every_body (a : KinArgs ℝ) (w br i : Int) (h1 : a.body_branch_start br ≤ i)
    (h2 : i < a.body_branch_start (br + 1)) :
    ∃ q : Q ℝ, nrm2 q = 1 ∧
      (Write.mk "xquat_out" [w, a.body_branches i] (WVal.v (Q.toList q)) WKind.set : Write ℝ) ∈ kin a w br := by
  rw [kinematics_branch_unfold]
  unfold forRange
  let new : Nat → List (Write ℝ) → List (Write ℝ) := fun k s =>
    bodyWrites w (a.body_branches (a.body_branch_start br + Int.ofNat k))
      (a.body_jntadr (a.body_branches (a.body_branch_start br + Int.ofNat k)))
      (isFree a (a.body_branches (a.body_branch_start br + Int.ofNat k)))
      (bodyOutW a w s (a.body_branches (a.body_branch_start br + Int.ofNat k)))
  have hf : (fun (s : List (Write ℝ)) (k : Nat) => bodyStepG a w (a.body_branch_start br + Int.ofNat k) s)
      = (fun s k => s ++ new k s) := by
    funext s k; exact bodyStepG_eq a w _ s
  rw [hf]
  have hk : (i - a.body_branch_start br).toNat ∈ List.range (a.body_branch_start (br + 1) - a.body_branch_start br).toNat := by
    apply List.mem_range.mpr; omega
  obtain ⟨s, hs⟩ := (foldl_append_mem new _ []).2 _ hk
  have hi : a.body_branch_start br + Int.ofNat (i - a.body_branch_start br).toNat = i := by
    simp only [Int.ofNat_eq_natCast]; omega
  have hmem := (mem_bodyWrites_has_pose w (a.body_branches (a.body_branch_start br + Int.ofNat (i - a.body_branch_start br).toNat))
    (a.body_jntadr (a.body_branches (a.body_branch_start br + Int.ofNat (i - a.body_branch_start br).toNat)))
    (isFree a (a.body_branches (a.body_branch_start br + Int.ofNat (i - a.body_branch_start br).toNat)))
    (bodyOutW a w s (a.body_branches (a.body_branch_start br + Int.ofNat (i - a.body_branch_start br).toNat)))).2
  have hres := hs _ hmem
  rw [hi] at hres
  exact ⟨_, kinBodyW_unit _ _ _ _ _, hres⟩

/-- bundle version of `kinematics_jointless_body_step` -/
private theorem bodyStepG_jointless {K : Type} [Scalar K] (a : KinArgs K) (w i : Int) (ws : List (Write K))
    (hj : a.body_jntnum (a.body_branches i) = 0) :
    bodyStepG a w i ws
      = ws ++ [(Write.mk "xpos_out" [w, a.body_branches i]
                  (WVal.v (V3.toList (bodyFrameW (parentOf a w ws (a.body_branches i)) (bpAt a w (a.body_branches i))).pos))
                  WKind.set : Write K),
               (Write.mk "xquat_out" [w, a.body_branches i]
                  (WVal.v (Q.toList (Q.normalize
                    (bodyFrameW (parentOf a w ws (a.body_branches i)) (bpAt a w (a.body_branches i))).quat)))
                  WKind.set : Write K)] := by
  rw [bodyStepG_eq]
  have hfree : isFree a (a.body_branches i) = false := by simp [isFree, hj]
  have hjn : jointsOf a w (a.body_branches i) = [] := by simp [jointsOf, hj, jointList]
  simp only [hfree, bodyOutW, hjn, kinBodyW, regularBodyW, jointsFoldW, bodyWrites, jntWrites, poseWrites,
    Bool.false_eq_true, if_false, List.nil_append]

/-- (8) **every `xquat_out` value the kinematics kernel writes is a unit quaternion** — stated about the generated
    definition itself; all inputs, all bodies (bodies without joints and mocap bodies included: no hypothesis
    mentions `body_jntnum` or `body_mocapid`). -/
theorem kinematics_xquat_writes_unit (qpos0 : Int → Int → ℝ) (body_parentid body_mocapid body_jntnum body_jntadr : Int → Int)
    (body_pos : Int → Int → V3 ℝ) (body_quat : Int → Int → Q ℝ) (jnt_type jnt_qposadr : Int → Int)
    (jnt_pos jnt_axis : Int → Int → V3 ℝ) (body_branches body_branch_start : Int → Int) (qpos_in : Int → Int → ℝ)
    (mocap_pos_in : Int → Int → V3 ℝ) (mocap_quat_in : Int → Int → Q ℝ) (xpos_out : Int → Int → V3 ℝ)
    (xquat_out : Int → Int → Q ℝ) (xanchor_out xaxis_out : Int → Int → V3 ℝ)
    (jnt_axis_shape0 jnt_pos_shape0 body_pos_shape0 body_quat_shape0 qpos0_shape0 w br : Int) (x : Write ℝ)
    (hx : x ∈ Gen.Smooth._kinematics_branch qpos0 body_parentid body_mocapid body_jntnum body_jntadr body_pos body_quat
            jnt_type jnt_qposadr jnt_pos jnt_axis body_branches body_branch_start qpos_in mocap_pos_in mocap_quat_in
            xpos_out xquat_out xanchor_out xaxis_out jnt_axis_shape0 jnt_pos_shape0 body_pos_shape0 body_quat_shape0
            qpos0_shape0 w br)
    (ha : x.arr = "xquat_out") :
    ∃ q : Q ℝ, x.val = WVal.v (Q.toList q) ∧ x.kind = WKind.set ∧ nrm2 q = 1 :=
  kin_xquat_unit ⟨qpos0, body_parentid, body_mocapid, body_jntnum, body_jntadr, body_pos, body_quat, jnt_type,
    jnt_qposadr, jnt_pos, jnt_axis, body_branches, body_branch_start, qpos_in, mocap_pos_in, mocap_quat_in, xpos_out,
    xquat_out, xanchor_out, xaxis_out, jnt_axis_shape0, jnt_pos_shape0, body_pos_shape0, body_quat_shape0,
    qpos0_shape0⟩ w br x hx ha

/-- (9) **the stored `xquat` is unit for EVERY body of the thread's chain**: for each loop index `i` the kernel does
    write `xquat_out[w, body_branches[i]]` and the written value is a unit quaternion — whatever the body's number
    of joints, mocap id, parent, and whatever (zero / non-unit) quaternions sit in qpos, body_quat, mocap_quat. -/
theorem kinematics_every_body_xquat_unit (qpos0 : Int → Int → ℝ) (body_parentid body_mocapid body_jntnum body_jntadr : Int → Int)
    (body_pos : Int → Int → V3 ℝ) (body_quat : Int → Int → Q ℝ) (jnt_type jnt_qposadr : Int → Int)
    (jnt_pos jnt_axis : Int → Int → V3 ℝ) (body_branches body_branch_start : Int → Int) (qpos_in : Int → Int → ℝ)
    (mocap_pos_in : Int → Int → V3 ℝ) (mocap_quat_in : Int → Int → Q ℝ) (xpos_out : Int → Int → V3 ℝ)
    (xquat_out : Int → Int → Q ℝ) (xanchor_out xaxis_out : Int → Int → V3 ℝ)
    (jnt_axis_shape0 jnt_pos_shape0 body_pos_shape0 body_quat_shape0 qpos0_shape0 w br i : Int)
    (h1 : body_branch_start br ≤ i) (h2 : i < body_branch_start (br + 1)) :
    ∃ q : Q ℝ, nrm2 q = 1 ∧
      (Write.mk "xquat_out" [w, body_branches i] (WVal.v (Q.toList q)) WKind.set : Write ℝ)
        ∈ Gen.Smooth._kinematics_branch qpos0 body_parentid body_mocapid body_jntnum body_jntadr body_pos body_quat
            jnt_type jnt_qposadr jnt_pos jnt_axis body_branches body_branch_start qpos_in mocap_pos_in mocap_quat_in
            xpos_out xquat_out xanchor_out xaxis_out jnt_axis_shape0 jnt_pos_shape0 body_pos_shape0 body_quat_shape0
            qpos0_shape0 w br :=
  kin_every_body ⟨qpos0, body_parentid, body_mocapid, body_jntnum, body_jntadr, body_pos, body_quat, jnt_type,
    jnt_qposadr, jnt_pos, jnt_axis, body_branches, body_branch_start, qpos_in, mocap_pos_in, mocap_quat_in, xpos_out,
    xquat_out, xanchor_out, xaxis_out, jnt_axis_shape0, jnt_pos_shape0, body_pos_shape0, body_quat_shape0,
    qpos0_shape0⟩ w br i h1 h2

/-- (10) **a body without joints is normalised like any other** (every scalar type — also float32 —, all inputs):
    the generated kernel is the fold of `bodyStepG a w` over the chain, and the iteration of a body with
    `body_jntnum = 0` appends exactly its two pose writes, the quaternion being
    `normalize (parent ⊗ frame)`; for a mocap body `frame` is the user-written `mocap_quat` AS IS (`bpAt`,
    `bodyFrameW`), so the trailing `normalize` is the only thing that makes the stored value unit. -/
theorem kinematics_jointless_body_step {K : Type} [Scalar K] (a : KinArgs K) (w br : Int) :
    kin a w br = forRange (a.body_branch_start br) (a.body_branch_start (br + 1)) [] (bodyStepG a w)
    ∧ ∀ (i : Int) (ws : List (Write K)), a.body_jntnum (a.body_branches i) = 0 →
        bodyStepG a w i ws
          = ws ++ [(Write.mk "xpos_out" [w, a.body_branches i]
                      (WVal.v (V3.toList (bodyFrameW (parentOf a w ws (a.body_branches i)) (bpAt a w (a.body_branches i))).pos))
                      WKind.set : Write K),
                   (Write.mk "xquat_out" [w, a.body_branches i]
                      (WVal.v (Q.toList (Q.normalize
                        (bodyFrameW (parentOf a w ws (a.body_branches i)) (bpAt a w (a.body_branches i))).quat)))
                      WKind.set : Write K)] :=
  ⟨kinematics_branch_unfold a w br, fun i ws hj => bodyStepG_jointless a w i ws hj⟩

/-! ### non-vacuity: a one-body chain whose body is a joint-less mocap body with the NON-unit `mocap_quat = (2,0,0,0)` -/

/-- thread `br` handles the chain `[br]`; every body is a mocap body without joints and without parent -/
noncomputable def mocapArgs : KinArgs ℝ :=
  { qpos0 := fun _ _ => 0, body_parentid := fun _ => -1, body_mocapid := fun _ => 0, body_jntnum := fun _ => 0,
    body_jntadr := fun _ => -1, body_pos := fun _ _ => ⟨0, 0, 0⟩, body_quat := fun _ _ => ⟨1, 0, 0, 0⟩,
    jnt_type := fun _ => 0, jnt_qposadr := fun _ => 0, jnt_pos := fun _ _ => ⟨0, 0, 0⟩, jnt_axis := fun _ _ => ⟨0, 0, 1⟩,
    body_branches := fun i => i, body_branch_start := fun b => b, qpos_in := fun _ _ => 0,
    mocap_pos_in := fun _ _ => ⟨0, 0, 0⟩, mocap_quat_in := fun _ _ => ⟨2, 0, 0, 0⟩, xpos_out := fun _ _ => ⟨0, 0, 0⟩,
    xquat_out := fun _ _ => ⟨1, 0, 0, 0⟩, xanchor_out := fun _ _ => ⟨0, 0, 0⟩, xaxis_out := fun _ _ => ⟨0, 0, 0⟩,
    jnt_axis_shape0 := 1, jnt_pos_shape0 := 1, body_pos_shape0 := 1, body_quat_shape0 := 1, qpos0_shape0 := 1 }

/-- the input quaternion is not unit … -/
example : nrm2 (mocapArgs.mocap_quat_in 0 0) = 4 := by norm_num [mocapArgs, nrm2]

/-- … the hypotheses of (9) hold for thread 1 and loop index 1, hence those of (8) for the write it exhibits … -/
example : ∃ x ∈ kin mocapArgs 0 1, x.arr = "xquat_out" ∧ x.idx = [0, 1] := by
  obtain ⟨q, _, hq⟩ := kin_every_body mocapArgs 0 1 1 (by simp [mocapArgs]) (by simp [mocapArgs])
  exact ⟨_, hq, rfl, rfl⟩

/-- … and the hypothesis of (10) holds: the write is `normalize` of the raw mocap quaternion -/
example (ws : List (Write ℝ)) :
    bodyStepG mocapArgs 0 1 ws
      = ws ++ [(Write.mk "xpos_out" [0, 1] (WVal.v (V3.toList (⟨0, 0, 0⟩ : V3 ℝ))) WKind.set : Write ℝ),
               (Write.mk "xquat_out" [0, 1] (WVal.v (Q.toList (Q.normalize (⟨2, 0, 0, 0⟩ : Q ℝ)))) WKind.set : Write ℝ)] := by
  rw [(kinematics_jointless_body_step mocapArgs 0 1).2 1 ws rfl]
  simp [mocapArgs, bodyFrameW, parentOf, bpAt]

end Mjw.Props.C23
