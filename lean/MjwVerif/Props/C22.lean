/-
  C22 (part)  Jacobians are consistent with positions and velocities: the point Jacobian columns computed by
  `support.jac_dof` / `_compute_jacp` / `_compute_jacr` / the `jac()` kernel are MuJoCo's `mj_jac` column formula,
  and for a hinge joint the translational column is the velocity `a × (x − p)` of the point.

  Theorems are about `Mjw.Gen.Support.*` and `Mjw.Gen.Smooth._cdof` (regenerated from /repo on every run).
  `Spec.Kinematics.jacColumn` transcribes `mj_jac` (engine_support.c):
      offset = point − subtree_com[body_rootid[body]]
      for every dof i in the kinematic chain of the body:  jacr[:, i] = cdof_ang(i);  jacp[:, i] = cdof_lin(i) + cdof_ang(i) × offset
      all other columns are 0
-/
import MjwVerif.Props.C01
import MjwVerif.Gen.Support

set_option linter.unusedVariables false
set_option linter.unusedSimpArgs false
namespace Mjw.Props.C22
open Mjw Mjw.Gen.Math Mjw.Spec.Kinematics Mjw.Props.C01

/-! ## 7. the column formula -/

/-- (7) **`jac_dof_spec`** (every scalar type): `jac_dof` returns MuJoCo's `mj_jac` column:
    `(cdof_lin + cdof_ang × (point − subtree_com[root]), cdof_ang)` if `body_isdofancestor[body, dof] ≠ 0`, else (0, 0). -/
theorem jac_dof_spec {K : Type} [Scalar K] (body_parentid body_rootid dof_bodyid : Int → Int)
    (body_isdofancestor : Int → Int → Int) (subtree_com_in : Int → Int → V3 K) (cdof_in : Int → Int → V6 K)
    (point : V3 K) (bodyid dofid w : Int) :
    Gen.Support.jac_dof body_parentid body_rootid dof_bodyid body_isdofancestor subtree_com_in cdof_in point bodyid dofid w
      = jacColumn (cdof_in w dofid) (V3.sub point (subtree_com_in w (body_rootid bodyid)))
          (decide (body_isdofancestor bodyid dofid ≠ 0)) := by
  unfold Gen.Support.jac_dof jacColumn
  by_cases h : body_isdofancestor bodyid dofid = 0 <;> simp [h, V3.fill]

/-- `_compute_jacp` / `_compute_jacr` (the variants used with a pre-fetched cdof and an `affect` flag) are the same
    column formula -/
theorem compute_jacp_jacr_spec {K : Type} [Scalar K] (cdof : V6 K) (offset : V3 K) (affect : Int) :
    (Gen.Support._compute_jacp cdof offset affect, Gen.Support._compute_jacr cdof affect)
      = jacColumn cdof offset (decide (affect ≠ 0)) := by
  unfold Gen.Support._compute_jacp Gen.Support._compute_jacr jacColumn
  by_cases h : affect = 0 <;> simp [h, V3.fill]

/-- exact write list of the `jac()` kernel for dof `dof` of world `w`: the three components of each requested
    column, row-major `jacp[w, r, dof]` -/
theorem jac_kernel_writes {K : Type} [Scalar K] (body_parentid body_rootid dof_bodyid : Int → Int)
    (body_isdofancestor : Int → Int → Int) (subtree_com_in : Int → Int → V3 K) (cdof_in : Int → Int → V6 K)
    (point_in : Int → V3 K) (bodyid_in : Int → Int) (jacp_out jacr_out : Int → Int → Int → K) (hasp hasr : Bool)
    (w dof : Int) :
    Gen.Support._make_jac_kernel___jac body_parentid body_rootid dof_bodyid body_isdofancestor subtree_com_in cdof_in
        point_in bodyid_in jacp_out jacr_out hasp hasr w dof
      = (let col := jacColumn (cdof_in w dof) (V3.sub (point_in w) (subtree_com_in w (body_rootid (bodyid_in w))))
                      (decide (body_isdofancestor (bodyid_in w) dof ≠ 0))
         (if hasp then
            [(Write.mk "jacp_out" [w, 0, dof] (WVal.f col.1.c0) WKind.set : Write K),
             (Write.mk "jacp_out" [w, 1, dof] (WVal.f col.1.c1) WKind.set : Write K),
             (Write.mk "jacp_out" [w, 2, dof] (WVal.f col.1.c2) WKind.set : Write K)] else [])
         ++ (if hasr then
            [(Write.mk "jacr_out" [w, 0, dof] (WVal.f col.2.c0) WKind.set : Write K),
             (Write.mk "jacr_out" [w, 1, dof] (WVal.f col.2.c1) WKind.set : Write K),
             (Write.mk "jacr_out" [w, 2, dof] (WVal.f col.2.c2) WKind.set : Write K)] else [])) := by
  unfold Gen.Support._make_jac_kernel___jac
  simp only [jac_dof_spec]
  cases hasp <;> cases hasr <;> simp

/-! ## 8. the translational column is the velocity of the point -/

/-- the value `_cdof` writes for a HINGE joint: `(xaxis, xaxis × (subtree_com[root] − xanchor))` -/
theorem cdof_hinge {K : Type} [Scalar K] (body_rootid jnt_type jnt_dofadr jnt_bodyid : Int → Int)
    (xmat_in : Int → Int → M33 K) (xanchor_in xaxis_in subtree_com_in : Int → Int → V3 K)
    (cdof_out : Int → Int → V6 K) (w j : Int) (hj : jnt_type j = 3) :
    Gen.Smooth._cdof body_rootid jnt_type jnt_dofadr jnt_bodyid xmat_in xanchor_in xaxis_in subtree_com_in cdof_out w j
      = [(Write.mk "cdof_out" [w, jnt_dofadr j + 0]
            (WVal.v (V6.toList (V6.ofV3 (xaxis_in w j)
              (V3.cross (xaxis_in w j) (V3.sub (subtree_com_in w (body_rootid (jnt_bodyid j))) (xanchor_in w j))))))
            WKind.set : Write K)] := by
  rw [cdof_spec, hj]
  simp [cdofWrites, cdofJoint, jFREE, jBALL, jSLIDE, jHINGE, dofCom]

/-- the value `_cdof` writes for a SLIDE joint: `(0, xaxis)` -/
theorem cdof_slide {K : Type} [Scalar K] (body_rootid jnt_type jnt_dofadr jnt_bodyid : Int → Int)
    (xmat_in : Int → Int → M33 K) (xanchor_in xaxis_in subtree_com_in : Int → Int → V3 K)
    (cdof_out : Int → Int → V6 K) (w j : Int) (hj : jnt_type j = 2) :
    Gen.Smooth._cdof body_rootid jnt_type jnt_dofadr jnt_bodyid xmat_in xanchor_in xaxis_in subtree_com_in cdof_out w j
      = [(Write.mk "cdof_out" [w, jnt_dofadr j + 0]
            (WVal.v (V6.toList (V6.ofV3 (⟨Scalar.lit 0 0, Scalar.lit 0 0, Scalar.lit 0 0⟩ : V3 K) (xaxis_in w j))))
            WKind.set : Write K)] := by
  rw [cdof_spec, hj]
  simp [cdofWrites, cdofJoint, jFREE, jBALL, jSLIDE, jHINGE, dofCom]

/-- (8, algebraic part) **for a hinge joint with axis `a` through anchor `p`, the column `jac_dof` computes from the
    cdof that `_cdof` wrote is `(a × (x − p), a)`** — the subtree-com offsets cancel; this is the velocity of a point
    `x` rigidly attached below the joint per unit joint velocity.  (`body_rootid` of the joint's body and of the query
    body agree because the dof is an ancestor: `hroot`.) -/
theorem jacp_hinge_eq_axis_cross (body_parentid body_rootid dof_bodyid : Int → Int)
    (body_isdofancestor : Int → Int → Int) (subtree_com_in : Int → Int → V3 ℝ) (cdof_in : Int → Int → V6 ℝ)
    (x a p : V3 ℝ) (bodyid dofid w jbody : Int)
    (hanc : body_isdofancestor bodyid dofid ≠ 0) (hroot : body_rootid jbody = body_rootid bodyid)
    (hcdof : cdof_in w dofid = V6.ofV3 a (V3.cross a (V3.sub (subtree_com_in w (body_rootid jbody)) p))) :
    Gen.Support.jac_dof body_parentid body_rootid dof_bodyid body_isdofancestor subtree_com_in cdof_in x bodyid dofid w
      = (V3.cross a (V3.sub x p), a) := by
  rw [jac_dof_spec, hcdof, hroot]
  simp only [jacColumn, hanc, ne_eq, not_false_eq_true, decide_true, if_true, V6.ofV3, V6.top, V6.bottom]
  congr 1
  apply V3.ext' <;> simp only [V3.add, V3.cross, V3.sub, hadd, hsub, hmul] <;> ring

/-- for a slide joint the column is `(a, 0)`: pure translation along the axis -/
theorem jacp_slide_eq_axis (body_parentid body_rootid dof_bodyid : Int → Int)
    (body_isdofancestor : Int → Int → Int) (subtree_com_in : Int → Int → V3 ℝ) (cdof_in : Int → Int → V6 ℝ)
    (x a : V3 ℝ) (bodyid dofid w : Int) (hanc : body_isdofancestor bodyid dofid ≠ 0)
    (hcdof : cdof_in w dofid = V6.ofV3 (⟨0, 0, 0⟩ : V3 ℝ) a) :
    Gen.Support.jac_dof body_parentid body_rootid dof_bodyid body_isdofancestor subtree_com_in cdof_in x bodyid dofid w
      = (a, ⟨0, 0, 0⟩) := by
  rw [jac_dof_spec, hcdof]
  simp only [jacColumn, hanc, ne_eq, not_false_eq_true, decide_true, if_true, V6.ofV3, V6.top, V6.bottom]
  congr 1
  apply V3.ext' <;> simp only [V3.add, V3.cross, V3.sub, hadd, hsub, hmul] <;> ring

end Mjw.Props.C22
