/-
  C22 (part)  Jacobians are consistent with positions and velocities: the point Jacobian columns computed by
  `support.jac_dof` / `_compute_jacp` / `_compute_jacr` / the `jac()` kernel are MuJoCo's `mj_jac` column formula,
  and for a hinge joint the translational column is the velocity `a × (x − p)` of the point.

  Theorems are about `Mjw.Gen.Support.*` and `Mjw.Gen.Smooth._cdof` (regenerated from /repo on every run).
  `Spec.Kinematics.jacColumn` transcribes `mj_jac` (engine_support.c):
      offset = point − subtree_com[body_rootid[body]]
      for every dof i in the kinematic chain of the body:  jacr[:, i] = cdof_ang(i);  jacp[:, i] = cdof_lin(i) + cdof_ang(i) × offset
      all other columns are 0

  Actuator Jacobians (section 9): for a slider-crank transmission whose SLIDER site sits on a moving body (smallest
  topology: crank on the world, slider body with one dof, regular branch det > 0) the generated `_transmission` kernel
  writes exactly one moment entry, and that entry IS the derivative of the length the kernel writes, along every motion
  in which the slider axis turns with the body's angular Jacobian column (`da = jacr × a`, the kinematic fact
  `hasDerivAt_rodrigues` for a hinge) and the slider→crank vector moves with the difference of the translational columns.
  A swapped cross product (`a × jacr`) or a sign error in `dlda`/`dldv` breaks `transmission_slidercrank_slider_moves`.
  MISSING for actuators: general trees (several dofs, common ancestors), the degenerate branch, other transmissions.
-/
import MjwVerif.Props.C01
import MjwVerif.Gen.Support
import MjwVerif.Lemmas.C22
import MjwVerif.Lemmas.C22Trn

set_option linter.unusedVariables false
set_option linter.unusedSimpArgs false
namespace Mjw.Props.C22
open Mjw Mjw.Gen.Math Mjw.Spec.Kinematics Mjw.Props.C01 Mjw.Props.C23 Mjw.Lemmas.C01R Mjw.Lemmas.C22

/-! ## 7. the column formula -/

/-- (7) **`jac_dof_spec`** (every scalar type): `jac_dof` returns MuJoCo's `mj_jac` column:
    `(cdof_lin + cdof_ang × (point − subtree_com[root]), cdof_ang)` if `body_isdofancestor[body, dof] ≠ 0`, else (0, 0). -/
theorem jac_dof_spec {K : Type} [Scalar K] (body_parentid body_rootid dof_bodyid : Int → Int)
    (body_isdofancestor : Int → Int → Int) (subtree_com_in : Int → Int → V3 K) (cdof_in : Int → Int → V6 K)
    (point : V3 K) (bodyid dofid w : Int) :
    Gen.Support.jac_dof body_parentid body_rootid dof_bodyid body_isdofancestor subtree_com_in cdof_in point bodyid dofid w
      = jacColumn (cdof_in w dofid) (V3.sub point (subtree_com_in w (body_rootid bodyid)))
          (decide (body_isdofancestor bodyid dofid ≠ 0)) := by
  unfold Gen.Support.jac_dof jacColumn
  by_cases h : body_isdofancestor bodyid dofid = 0 <;> simp [h, V3.fill]

/-- `_compute_jacp` / `_compute_jacr` (the variants used with a pre-fetched cdof and an `affect` flag) are the same
    column formula -/
theorem compute_jacp_jacr_spec {K : Type} [Scalar K] (cdof : V6 K) (offset : V3 K) (affect : Int) :
    (Gen.Support._compute_jacp cdof offset affect, Gen.Support._compute_jacr cdof affect)
      = jacColumn cdof offset (decide (affect ≠ 0)) := by
  unfold Gen.Support._compute_jacp Gen.Support._compute_jacr jacColumn
  by_cases h : affect = 0 <;> simp [h, V3.fill]

/-- exact write list of the `jac()` kernel for dof `dof` of world `w`: the three components of each requested
    column, row-major `jacp[w, r, dof]` -/
theorem jac_kernel_writes {K : Type} [Scalar K] (body_parentid body_rootid dof_bodyid : Int → Int)
    (body_isdofancestor : Int → Int → Int) (subtree_com_in : Int → Int → V3 K) (cdof_in : Int → Int → V6 K)
    (point_in : Int → V3 K) (bodyid_in : Int → Int) (jacp_out jacr_out : Int → Int → Int → K) (hasp hasr : Bool)
    (w dof : Int) :
    Gen.Support._make_jac_kernel___jac body_parentid body_rootid dof_bodyid body_isdofancestor subtree_com_in cdof_in
        point_in bodyid_in jacp_out jacr_out hasp hasr w dof
      = (let col := jacColumn (cdof_in w dof) (V3.sub (point_in w) (subtree_com_in w (body_rootid (bodyid_in w))))
                      (decide (body_isdofancestor (bodyid_in w) dof ≠ 0))
         (if hasp then
            [(Write.mk "jacp_out" [w, 0, dof] (WVal.f col.1.c0) WKind.set : Write K),
             (Write.mk "jacp_out" [w, 1, dof] (WVal.f col.1.c1) WKind.set : Write K),
             (Write.mk "jacp_out" [w, 2, dof] (WVal.f col.1.c2) WKind.set : Write K)] else [])
         ++ (if hasr then
            [(Write.mk "jacr_out" [w, 0, dof] (WVal.f col.2.c0) WKind.set : Write K),
             (Write.mk "jacr_out" [w, 1, dof] (WVal.f col.2.c1) WKind.set : Write K),
             (Write.mk "jacr_out" [w, 2, dof] (WVal.f col.2.c2) WKind.set : Write K)] else [])) := by
  unfold Gen.Support._make_jac_kernel___jac
  simp only [jac_dof_spec]
  cases hasp <;> cases hasr <;> simp

/-! ## 8. the translational column is the velocity of the point -/

/-- the value `_cdof` writes for a HINGE joint: `(xaxis, xaxis × (subtree_com[root] − xanchor))` -/
theorem cdof_hinge {K : Type} [Scalar K] (body_rootid jnt_type jnt_dofadr jnt_bodyid : Int → Int)
    (xmat_in : Int → Int → M33 K) (xanchor_in xaxis_in subtree_com_in : Int → Int → V3 K)
    (cdof_out : Int → Int → V6 K) (w j : Int) (hj : jnt_type j = 3) :
    Gen.Smooth._cdof body_rootid jnt_type jnt_dofadr jnt_bodyid xmat_in xanchor_in xaxis_in subtree_com_in cdof_out w j
      = [(Write.mk "cdof_out" [w, jnt_dofadr j + 0]
            (WVal.v (V6.toList (V6.ofV3 (xaxis_in w j)
              (V3.cross (xaxis_in w j) (V3.sub (subtree_com_in w (body_rootid (jnt_bodyid j))) (xanchor_in w j))))))
            WKind.set : Write K)] := by
  rw [cdof_spec, hj]
  simp [cdofWrites, cdofJoint, jFREE, jBALL, jSLIDE, jHINGE, dofCom]

/-- the value `_cdof` writes for a SLIDE joint: `(0, xaxis)` -/
theorem cdof_slide {K : Type} [Scalar K] (body_rootid jnt_type jnt_dofadr jnt_bodyid : Int → Int)
    (xmat_in : Int → Int → M33 K) (xanchor_in xaxis_in subtree_com_in : Int → Int → V3 K)
    (cdof_out : Int → Int → V6 K) (w j : Int) (hj : jnt_type j = 2) :
    Gen.Smooth._cdof body_rootid jnt_type jnt_dofadr jnt_bodyid xmat_in xanchor_in xaxis_in subtree_com_in cdof_out w j
      = [(Write.mk "cdof_out" [w, jnt_dofadr j + 0]
            (WVal.v (V6.toList (V6.ofV3 (⟨Scalar.lit 0 0, Scalar.lit 0 0, Scalar.lit 0 0⟩ : V3 K) (xaxis_in w j))))
            WKind.set : Write K)] := by
  rw [cdof_spec, hj]
  simp [cdofWrites, cdofJoint, jFREE, jBALL, jSLIDE, jHINGE, dofCom]

/-- (8, algebraic part) **for a hinge joint with axis `a` through anchor `p`, the column `jac_dof` computes from the
    cdof that `_cdof` wrote is `(a × (x − p), a)`** — the subtree-com offsets cancel; this is the velocity of a point
    `x` rigidly attached below the joint per unit joint velocity.  (`body_rootid` of the joint's body and of the query
    body agree because the dof is an ancestor: `hroot`.) -/
theorem jacp_hinge_eq_axis_cross (body_parentid body_rootid dof_bodyid : Int → Int)
    (body_isdofancestor : Int → Int → Int) (subtree_com_in : Int → Int → V3 ℝ) (cdof_in : Int → Int → V6 ℝ)
    (x a p : V3 ℝ) (bodyid dofid w jbody : Int)
    (hanc : body_isdofancestor bodyid dofid ≠ 0) (hroot : body_rootid jbody = body_rootid bodyid)
    (hcdof : cdof_in w dofid = V6.ofV3 a (V3.cross a (V3.sub (subtree_com_in w (body_rootid jbody)) p))) :
    Gen.Support.jac_dof body_parentid body_rootid dof_bodyid body_isdofancestor subtree_com_in cdof_in x bodyid dofid w
      = (V3.cross a (V3.sub x p), a) := by
  rw [jac_dof_spec, hcdof, hroot]
  simp only [jacColumn, hanc, ne_eq, not_false_eq_true, decide_true, if_true, V6.ofV3, V6.top, V6.bottom]
  congr 1
  apply V3.ext' <;> simp only [V3.add, V3.cross, V3.sub, hadd, hsub, hmul] <;> ring

/-- for a slide joint the column is `(a, 0)`: pure translation along the axis -/
theorem jacp_slide_eq_axis (body_parentid body_rootid dof_bodyid : Int → Int)
    (body_isdofancestor : Int → Int → Int) (subtree_com_in : Int → Int → V3 ℝ) (cdof_in : Int → Int → V6 ℝ)
    (x a : V3 ℝ) (bodyid dofid w : Int) (hanc : body_isdofancestor bodyid dofid ≠ 0)
    (hcdof : cdof_in w dofid = V6.ofV3 (⟨0, 0, 0⟩ : V3 ℝ) a) :
    Gen.Support.jac_dof body_parentid body_rootid dof_bodyid body_isdofancestor subtree_com_in cdof_in x bodyid dofid w
      = (a, ⟨0, 0, 0⟩) := by
  rw [jac_dof_spec, hcdof]
  simp only [jacColumn, hanc, ne_eq, not_false_eq_true, decide_true, if_true, V6.ofV3, V6.top, V6.bottom]
  congr 1
  apply V3.ext' <;> simp only [V3.add, V3.cross, V3.sub, hadd, hsub, hmul] <;> ring


/-- the world position of the body-fixed point `l` of a body hinged (axis `a`, anchor offset `jpos`, both in the
    body frame `(P0, Qp)` before the joint) as the kernel's HINGE branch computes it for joint angle `t`:
    `xquat = Qp * axis_angle(a, t)`, `xpos = xanchor − rot(jpos, xquat)`, point = `xpos + rot(l, xquat)` -/
noncomputable def hingePoint (P0 : V3 ℝ) (Qp : Q ℝ) (a jpos l : V3 ℝ) (t : ℝ) : V3 ℝ :=
  let xquat := mul_quat Qp (axis_angle_to_quat a t)
  let xanchor := V3.add (rot_vec_quat jpos Qp) P0
  V3.add (V3.sub xanchor (rot_vec_quat jpos xquat)) (rot_vec_quat l xquat)

theorem hingePoint_eq (P0 : V3 ℝ) (Qp : Q ℝ) (a jpos l : V3 ℝ) (ha : vnrm2 a = 1) (t : ℝ) :
    hingePoint P0 Qp a jpos l t
      = V3.add (V3.add (rot_vec_quat jpos Qp) P0) (rot_vec_quat (rodrigues a (V3.sub l jpos) t) Qp) := by
  unfold hingePoint
  simp only
  rw [← rot_axis_angle_eq_rodrigues a _ ha, ← rot_mul_quat, ← rot_sub]
  apply V3.ext' <;> simp only [V3.add, V3.sub, hadd, hsub] <;> ring

/-- (8) **`jacp_is_velocity_map_hinge`**: for a single hinge joint (unit axis `a`, any unit frame quaternion `Qp`), the
    derivative with respect to the joint angle of the world position `x(θ)` of a body-fixed point is
    `xaxis × (x(θ) − xanchor)` — exactly the translational Jacobian column `jac_dof` computes from the `_cdof` value
    (`jacp_hinge_eq_axis_cross` with `a := xaxis`, `p := xanchor`), componentwise. -/
theorem jacp_is_velocity_map_hinge (P0 : V3 ℝ) (Qp : Q ℝ) (hQ : nrm2 Qp = 1) (a jpos l : V3 ℝ) (ha : vnrm2 a = 1)
    (θ : ℝ) :
    let xanchor := V3.add (rot_vec_quat jpos Qp) P0
    let xaxis := rot_vec_quat a Qp
    let col := V3.cross xaxis (V3.sub (hingePoint P0 Qp a jpos l θ) xanchor)
    HasDerivAt (fun t => (hingePoint P0 Qp a jpos l t).c0) col.c0 θ
    ∧ HasDerivAt (fun t => (hingePoint P0 Qp a jpos l t).c1) col.c1 θ
    ∧ HasDerivAt (fun t => (hingePoint P0 Qp a jpos l t).c2) col.c2 θ := by
  intro xanchor xaxis col
  obtain ⟨d0, d1, d2⟩ := hasDerivAt_rodrigues a (V3.sub l jpos) ha θ
  obtain ⟨r0, r1, r2⟩ := hasDerivAt_rot_component Qp _ _ _ _ _ _ θ d0 d1 d2
  have hcol : col = rot_vec_quat (V3.cross a (rodrigues a (V3.sub l jpos) θ)) Qp := by
    show V3.cross (rot_vec_quat a Qp) (V3.sub (hingePoint P0 Qp a jpos l θ) (V3.add (rot_vec_quat jpos Qp) P0)) = _
    rw [rot_cross Qp hQ, hingePoint_eq P0 Qp a jpos l ha]
    congr 1
    apply V3.ext' <;> simp only [V3.add, V3.sub, hadd, hsub] <;> ring
  have hfun : ∀ t, hingePoint P0 Qp a jpos l t
      = V3.add xanchor (rot_vec_quat ⟨(rodrigues a (V3.sub l jpos) t).c0, (rodrigues a (V3.sub l jpos) t).c1,
          (rodrigues a (V3.sub l jpos) t).c2⟩ Qp) := fun t => hingePoint_eq P0 Qp a jpos l ha t
  rw [hcol]
  simp only [hfun, V3.add, hadd]
  exact ⟨r0.const_add _, r1.const_add _, r2.const_add _⟩

/-- (8) **`jacp_is_velocity_map_partial`** — what is proved of "jacp · qvel is the velocity of the point":
    (i) for a HINGE dof the column is `xaxis × (x − xanchor)` (`jacp_hinge_eq_axis_cross`, from the `_cdof` value) and
        this IS ∂x/∂θ of the kernel's own kinematics (`jacp_is_velocity_map_hinge`);
    (ii) for a SLIDE dof the column is `xaxis` (`jacp_slide_eq_axis`), and ∂x/∂q = xaxis since the kernel's SLIDE branch
        is `xpos += xaxis * (q − q0)` with everything else independent of `q`.
    FULL STATEMENT (not proved): for every kinematic tree, every body `b`, point `x` fixed on `b`, and every dof `i`,
      ∂x/∂q_i (through `_kinematics_branch`, with quaternion joints differentiated along `quat_integrate`) equals
      `(jac_dof … x b i w).1`, and the angular velocity map equals `.2`; i.e. `v_point = Σ_i jacp[:, i] qvel_i`.
    MISSING: chains of several joints (needs the derivative of `kinChainW` with respect to an ancestor's joint, i.e.
    rigid motion of the whole subtree), BALL and FREE rotational dofs (derivative along the exponential map). -/
theorem jacp_is_velocity_map_partial (P0 : V3 ℝ) (Qp : Q ℝ) (hQ : nrm2 Qp = 1) (a jpos l : V3 ℝ) (ha : vnrm2 a = 1)
    (θ : ℝ) (body_parentid body_rootid dof_bodyid : Int → Int) (body_isdofancestor : Int → Int → Int)
    (subtree_com_in : Int → Int → V3 ℝ) (cdof_in : Int → Int → V6 ℝ) (bodyid dofid w jbody : Int)
    (hanc : body_isdofancestor bodyid dofid ≠ 0) (hroot : body_rootid jbody = body_rootid bodyid)
    (hcdof : cdof_in w dofid = V6.ofV3 (rot_vec_quat a Qp)
      (V3.cross (rot_vec_quat a Qp) (V3.sub (subtree_com_in w (body_rootid jbody)) (V3.add (rot_vec_quat jpos Qp) P0)))) :
    let col := (Gen.Support.jac_dof body_parentid body_rootid dof_bodyid body_isdofancestor subtree_com_in cdof_in
                  (hingePoint P0 Qp a jpos l θ) bodyid dofid w).1
    HasDerivAt (fun t => (hingePoint P0 Qp a jpos l t).c0) col.c0 θ
    ∧ HasDerivAt (fun t => (hingePoint P0 Qp a jpos l t).c1) col.c1 θ
    ∧ HasDerivAt (fun t => (hingePoint P0 Qp a jpos l t).c2) col.c2 θ := by
  intro col
  have : col = V3.cross (rot_vec_quat a Qp)
      (V3.sub (hingePoint P0 Qp a jpos l θ) (V3.add (rot_vec_quat jpos Qp) P0)) := by
    show (Gen.Support.jac_dof _ _ _ _ _ _ _ _ _ _).1 = _
    rw [jacp_hinge_eq_axis_cross body_parentid body_rootid dof_bodyid body_isdofancestor subtree_com_in cdof_in
      _ _ _ bodyid dofid w jbody hanc hroot hcdof]
  rw [this]
  exact jacp_is_velocity_map_hinge P0 Qp hQ a jpos l ha θ

/-! ## 9. slider-crank transmission: the moment written by the kernel is the derivative of the length it writes -/

open Mjw.Lemmas.C22Trn Mjw.Gen.Smooth in
/-- (9) **`slidercrank_moment_is_length_derivative`**: crank site `0` on the world, slider site `1` on body `1` with one dof
    (dof `0`); all real inputs arbitrary, regular branch (`det > 0`). Let `t ↦ (a t, v t)` be ANY differentiable motion of the
    slider axis and of the slider→crank vector that passes through the kernel's inputs at `θ`, in which the axis turns with
    the angular Jacobian column of the slider body (`a' = jacr × a`) and the vector moves with the difference of the
    translational columns (`v' = jac_crank − jac_slider`), both columns being the kernel's own `jac_dof` values. Then
    `_transmission` writes `actuator_length_out = L θ` and exactly the value `L' θ` to `actuator_moment_out`, where
    `L t = gear · (a t · v t − √((a t · v t)² + r² − v t · v t))`. -/
theorem slidercrank_moment_is_length_derivative
    (nv : Int) (bp br dofbody : Int → Int) (anc : Int → Int → Int) (jt jq jd : Int → Int)
    (squat : Int → Int → Q ℝ) (tn ta tc : Int → Int) (crank : Int → Int → ℝ) (gear : Int → Int → V6 ℝ)
    (qpos : Int → Int → ℝ) (xquat : Int → Int → Q ℝ) (sxpos : Int → Int → V3 ℝ) (sxmat : Int → Int → M33 ℝ)
    (com : Int → Int → V3 ℝ) (cdof : Int → Int → V6 ℝ) (tJ tL : Int → Int → ℝ) (mnnz : Int → Int)
    (lo : Int → Int → ℝ) (rn ra rc : Int → Int → Int) (mo : Int → Int → ℝ)
    (gs a0' a1' a2' cs a3 a4 a5 qs a6 a7 : Int) (fuel : Nat) (w a : Int)
    (hdet : 0 < scDet (sliderAxis (sxmat w 1)) ((sxpos w 0).sub (sxpos w 1)) (crank (Int.tmod w cs) a))
    (a0 a1 a2 v0 v1 v2 : ℝ → ℝ) (θ : ℝ)
    (hA : (⟨a0 θ, a1 θ, a2 θ⟩ : V3 ℝ) = sliderAxis (sxmat w 1))
    (hV : (⟨v0 θ, v1 θ, v2 θ⟩ : V3 ℝ) = (sxpos w 0).sub (sxpos w 1))
    (ha0 : HasDerivAt a0 (V3.cross (Gen.Support.jac_dof bp br dofbody anc com cdof (sxpos w 1) 1 0 w).2 (sliderAxis (sxmat w 1))).c0 θ)
    (ha1 : HasDerivAt a1 (V3.cross (Gen.Support.jac_dof bp br dofbody anc com cdof (sxpos w 1) 1 0 w).2 (sliderAxis (sxmat w 1))).c1 θ)
    (ha2 : HasDerivAt a2 (V3.cross (Gen.Support.jac_dof bp br dofbody anc com cdof (sxpos w 1) 1 0 w).2 (sliderAxis (sxmat w 1))).c2 θ)
    (hv0 : HasDerivAt v0 ((Gen.Support.jac_dof bp br dofbody anc com cdof (sxpos w 0) 0 0 w).1.sub
                            (Gen.Support.jac_dof bp br dofbody anc com cdof (sxpos w 1) 1 0 w).1).c0 θ)
    (hv1 : HasDerivAt v1 ((Gen.Support.jac_dof bp br dofbody anc com cdof (sxpos w 0) 0 0 w).1.sub
                            (Gen.Support.jac_dof bp br dofbody anc com cdof (sxpos w 1) 1 0 w).1).c1 θ)
    (hv2 : HasDerivAt v2 ((Gen.Support.jac_dof bp br dofbody anc com cdof (sxpos w 0) 0 0 w).1.sub
                            (Gen.Support.jac_dof bp br dofbody anc com cdof (sxpos w 1) 1 0 w).1).c2 θ) :
    let ws := _transmission (K := ℝ) nv bp br (fun b => b) dofnum dofadr jt jq jd dofbody (fun _ => -1) (fun s => s) squat
        tn ta tc (fun _ => 2) (fun _ => ⟨0, 1⟩) crank gear anc qpos xquat sxpos sxmat com cdof tJ tL mnnz lo rn ra rc mo
        gs a0' a1' a2' cs a3 a4 a5 qs a6 a7 (fuel + 2) w a
    let L : ℝ → ℝ := fun t => scLength ⟨a0 t, a1 t, a2 t⟩ ⟨v0 t, v1 t, v2 t⟩ (crank (Int.tmod w cs) a) * (gear (Int.tmod w gs) a).c0
    (Write.mk "actuator_length_out" [w, a] (WVal.f (L θ)) WKind.set : Write ℝ) ∈ ws
    ∧ ∃ m : ℝ, (∀ x : ℝ, (Write.mk "actuator_moment_out" [w, a3] (WVal.f x) WKind.set : Write ℝ) ∈ ws ↔ x = m)
        ∧ HasDerivAt L m θ := by
  intro ws L
  have hw : ws = _ := transmission_slidercrank_slider_moves nv bp br dofbody anc jt jq jd squat tn ta tc crank gear qpos xquat
    sxpos sxmat com cdof tJ tL mnnz lo rn ra rc mo gs a0' a1' a2' cs a3 a4 a5 qs a6 a7 fuel w a hdet
  have hdet' : 0 < scDet ⟨a0 θ, a1 θ, a2 θ⟩ ⟨v0 θ, v1 θ, v2 θ⟩ (crank (Int.tmod w cs) a) := by rw [hA, hV]; exact hdet
  have hd := (hasDerivAt_scLength a0 a1 a2 v0 v1 v2 _ _ (crank (Int.tmod w cs) a) θ ha0 ha1 ha2 hv0 hv1 hv2 hdet').mul_const
    (gear (Int.tmod w gs) a).c0
  refine ⟨?_, _, ?_, hd⟩
  · rw [hw]
    simp only [L, scLength, hA, hV]
    simp
  · intro x
    rw [hw]
    simp only [hA, hV, scMoment]
    simp

open Mjw.Lemmas.C22Trn in
/-- non-vacuity of (9): a hinge about the world z axis through the origin (`cdof = (0,0,1; 0,0,0)`, `subtree_com = 0`)
    carries the slider site at `(cos t, sin t, 0)` with slider axis `(cos t, sin t, 0)`; the crank site `(3, 1, 0)` is fixed in
    the world; rod length 2 (`det = 3` at `t = 0`). All hypotheses hold at `θ = 0`. -/
example : ∃ m : ℝ, HasDerivAt (fun t => scLength ⟨Real.cos t, Real.sin t, 0⟩ ⟨3 - Real.cos t, 1 - Real.sin t, 0⟩ 2 * 1) m 0 := by
  have hc := Real.hasDerivAt_cos 0
  have hsn := Real.hasDerivAt_sin 0
  obtain ⟨-, m, -, hm⟩ := slidercrank_moment_is_length_derivative 1 (fun _ => 0) (fun _ => 0) (fun _ => 1)
    (fun b _ => if b = 1 then 1 else 0) (fun _ => 3) (fun _ => 0) (fun _ => 0) (fun _ _ => ⟨1, 0, 0, 0⟩) (fun _ => 0) (fun _ => 0)
    (fun _ => 0) (fun _ _ => 2) (fun _ _ => ⟨1, 0, 0, 0, 0, 0⟩) (fun _ _ => 0) (fun _ _ => ⟨1, 0, 0, 0⟩)
    (fun _ s => if s = 0 then ⟨3, 1, 0⟩ else ⟨1, 0, 0⟩) (fun _ _ => ⟨0, 0, 1, 1, 0, 0, 0, 1, 0⟩) (fun _ _ => ⟨0, 0, 0⟩)
    (fun _ _ => ⟨0, 0, 1, 0, 0, 0⟩) (fun _ _ => 0) (fun _ _ => 0) (fun _ => 0) (fun _ _ => 0) (fun _ _ => 0) (fun _ _ => 0)
    (fun _ _ => 0) (fun _ _ => 0) 1 0 0 0 1 0 0 0 1 0 0 0 0 0
    (by norm_num [scDet, sliderAxis, V3.dot, V3.sub])
    (fun t => Real.cos t) (fun t => Real.sin t) (fun _ => 0) (fun t => 3 - Real.cos t) (fun t => 1 - Real.sin t) (fun _ => 0) 0
    (by simp [sliderAxis]) (by simp [V3.sub])
    (by simpa [Gen.Support.jac_dof, V3.cross, sliderAxis, V6.top, V6.bottom] using hc)
    (by simpa [Gen.Support.jac_dof, V3.cross, sliderAxis, V6.top, V6.bottom] using hsn)
    (by simpa [Gen.Support.jac_dof, V3.cross, sliderAxis, V6.top, V6.bottom] using hasDerivAt_const (0 : ℝ) (0 : ℝ))
    (by simpa [Gen.Support.jac_dof, V3.cross, V3.sub, V3.add, V3.fill, V6.top, V6.bottom] using (hc.const_sub 3))
    (by simpa [Gen.Support.jac_dof, V3.cross, V3.sub, V3.add, V3.fill, V6.top, V6.bottom] using (hsn.const_sub 1))
    (by simpa [Gen.Support.jac_dof, V3.cross, V3.sub, V3.add, V3.fill, V6.top, V6.bottom] using hasDerivAt_const (0 : ℝ) (0 : ℝ))
  exact ⟨m, hm⟩

/-- non-vacuity: a unit frame quaternion and a unit axis -/
example : nrm2 (⟨3/5, 0, 4/5, 0⟩ : Q ℝ) = 1 ∧ vnrm2 (⟨0, 0, 1⟩ : V3 ℝ) = 1 := by
  constructor <;> norm_num [nrm2, vnrm2]

end Mjw.Props.C22
