/-
  C22 (part)  Jacobians are consistent with positions and velocities: the point Jacobian columns computed by
  `support.jac_dof` / `_compute_jacp` / `_compute_jacr` / the `jac()` kernel are MuJoCo's `mj_jac` column formula,
  and for a hinge joint the translational column is the velocity `a × (x − p)` of the point.

  Theorems are about `Mjw.Gen.Support.*` and `Mjw.Gen.Smooth._cdof` (regenerated from /repo on every run).
  `Spec.Kinematics.jacColumn` transcribes `mj_jac` (engine_support.c):
      offset = point − subtree_com[body_rootid[body]]
      for every dof i in the kinematic chain of the body:  jacr[:, i] = cdof_ang(i);  jacp[:, i] = cdof_lin(i) + cdof_ang(i) × offset
      all other columns are 0
-/
import MjwVerif.Props.C01
import MjwVerif.Gen.Support
import MjwVerif.Lemmas.C22

set_option linter.unusedVariables false
set_option linter.unusedSimpArgs false
namespace Mjw.Props.C22
open Mjw Mjw.Gen.Math Mjw.Spec.Kinematics Mjw.Props.C01 Mjw.Props.C23 Mjw.Lemmas.C01R Mjw.Lemmas.C22

/-! ## 7. the column formula -/

/-- (7) **`jac_dof_spec`** (every scalar type): `jac_dof` returns MuJoCo's `mj_jac` column:
    `(cdof_lin + cdof_ang × (point − subtree_com[root]), cdof_ang)` if `body_isdofancestor[body, dof] ≠ 0`, else (0, 0). -/
theorem jac_dof_spec {K : Type} [Scalar K] (body_parentid body_rootid dof_bodyid : Int → Int)
    (body_isdofancestor : Int → Int → Int) (subtree_com_in : Int → Int → V3 K) (cdof_in : Int → Int → V6 K)
    (point : V3 K) (bodyid dofid w : Int) :
    Gen.Support.jac_dof body_parentid body_rootid dof_bodyid body_isdofancestor subtree_com_in cdof_in point bodyid dofid w
      = jacColumn (cdof_in w dofid) (V3.sub point (subtree_com_in w (body_rootid bodyid)))
          (decide (body_isdofancestor bodyid dofid ≠ 0)) := by
  unfold Gen.Support.jac_dof jacColumn
  by_cases h : body_isdofancestor bodyid dofid = 0 <;> simp [h, V3.fill]

/-- `_compute_jacp` / `_compute_jacr` (the variants used with a pre-fetched cdof and an `affect` flag) are the same
    column formula -/
theorem compute_jacp_jacr_spec {K : Type} [Scalar K] (cdof : V6 K) (offset : V3 K) (affect : Int) :
    (Gen.Support._compute_jacp cdof offset affect, Gen.Support._compute_jacr cdof affect)
      = jacColumn cdof offset (decide (affect ≠ 0)) := by
  unfold Gen.Support._compute_jacp Gen.Support._compute_jacr jacColumn
  by_cases h : affect = 0 <;> simp [h, V3.fill]

/-- exact write list of the `jac()` kernel for dof `dof` of world `w`: the three components of each requested
    column, row-major `jacp[w, r, dof]` -/
theorem jac_kernel_writes {K : Type} [Scalar K] (body_parentid body_rootid dof_bodyid : Int → Int)
    (body_isdofancestor : Int → Int → Int) (subtree_com_in : Int → Int → V3 K) (cdof_in : Int → Int → V6 K)
    (point_in : Int → V3 K) (bodyid_in : Int → Int) (jacp_out jacr_out : Int → Int → Int → K) (hasp hasr : Bool)
    (w dof : Int) :
    Gen.Support._make_jac_kernel___jac body_parentid body_rootid dof_bodyid body_isdofancestor subtree_com_in cdof_in
        point_in bodyid_in jacp_out jacr_out hasp hasr w dof
      = (let col := jacColumn (cdof_in w dof) (V3.sub (point_in w) (subtree_com_in w (body_rootid (bodyid_in w))))
                      (decide (body_isdofancestor (bodyid_in w) dof ≠ 0))
         (if hasp then
            [(Write.mk "jacp_out" [w, 0, dof] (WVal.f col.1.c0) WKind.set : Write K),
             (Write.mk "jacp_out" [w, 1, dof] (WVal.f col.1.c1) WKind.set : Write K),
             (Write.mk "jacp_out" [w, 2, dof] (WVal.f col.1.c2) WKind.set : Write K)] else [])
         ++ (if hasr then
            [(Write.mk "jacr_out" [w, 0, dof] (WVal.f col.2.c0) WKind.set : Write K),
             (Write.mk "jacr_out" [w, 1, dof] (WVal.f col.2.c1) WKind.set : Write K),
             (Write.mk "jacr_out" [w, 2, dof] (WVal.f col.2.c2) WKind.set : Write K)] else [])) := by
  unfold Gen.Support._make_jac_kernel___jac
  simp only [jac_dof_spec]
  cases hasp <;> cases hasr <;> simp

/-! ## 8. the translational column is the velocity of the point -/

/-- the value `_cdof` writes for a HINGE joint: `(xaxis, xaxis × (subtree_com[root] − xanchor))` -/
theorem cdof_hinge {K : Type} [Scalar K] (body_rootid jnt_type jnt_dofadr jnt_bodyid : Int → Int)
    (xmat_in : Int → Int → M33 K) (xanchor_in xaxis_in subtree_com_in : Int → Int → V3 K)
    (cdof_out : Int → Int → V6 K) (w j : Int) (hj : jnt_type j = 3) :
    Gen.Smooth._cdof body_rootid jnt_type jnt_dofadr jnt_bodyid xmat_in xanchor_in xaxis_in subtree_com_in cdof_out w j
      = [(Write.mk "cdof_out" [w, jnt_dofadr j + 0]
            (WVal.v (V6.toList (V6.ofV3 (xaxis_in w j)
              (V3.cross (xaxis_in w j) (V3.sub (subtree_com_in w (body_rootid (jnt_bodyid j))) (xanchor_in w j))))))
            WKind.set : Write K)] := by
  rw [cdof_spec, hj]
  simp [cdofWrites, cdofJoint, jFREE, jBALL, jSLIDE, jHINGE, dofCom]

/-- the value `_cdof` writes for a SLIDE joint: `(0, xaxis)` -/
theorem cdof_slide {K : Type} [Scalar K] (body_rootid jnt_type jnt_dofadr jnt_bodyid : Int → Int)
    (xmat_in : Int → Int → M33 K) (xanchor_in xaxis_in subtree_com_in : Int → Int → V3 K)
    (cdof_out : Int → Int → V6 K) (w j : Int) (hj : jnt_type j = 2) :
    Gen.Smooth._cdof body_rootid jnt_type jnt_dofadr jnt_bodyid xmat_in xanchor_in xaxis_in subtree_com_in cdof_out w j
      = [(Write.mk "cdof_out" [w, jnt_dofadr j + 0]
            (WVal.v (V6.toList (V6.ofV3 (⟨Scalar.lit 0 0, Scalar.lit 0 0, Scalar.lit 0 0⟩ : V3 K) (xaxis_in w j))))
            WKind.set : Write K)] := by
  rw [cdof_spec, hj]
  simp [cdofWrites, cdofJoint, jFREE, jBALL, jSLIDE, jHINGE, dofCom]

/-- (8, algebraic part) **for a hinge joint with axis `a` through anchor `p`, the column `jac_dof` computes from the
    cdof that `_cdof` wrote is `(a × (x − p), a)`** — the subtree-com offsets cancel; this is the velocity of a point
    `x` rigidly attached below the joint per unit joint velocity.  (`body_rootid` of the joint's body and of the query
    body agree because the dof is an ancestor: `hroot`.) -/
theorem jacp_hinge_eq_axis_cross (body_parentid body_rootid dof_bodyid : Int → Int)
    (body_isdofancestor : Int → Int → Int) (subtree_com_in : Int → Int → V3 ℝ) (cdof_in : Int → Int → V6 ℝ)
    (x a p : V3 ℝ) (bodyid dofid w jbody : Int)
    (hanc : body_isdofancestor bodyid dofid ≠ 0) (hroot : body_rootid jbody = body_rootid bodyid)
    (hcdof : cdof_in w dofid = V6.ofV3 a (V3.cross a (V3.sub (subtree_com_in w (body_rootid jbody)) p))) :
    Gen.Support.jac_dof body_parentid body_rootid dof_bodyid body_isdofancestor subtree_com_in cdof_in x bodyid dofid w
      = (V3.cross a (V3.sub x p), a) := by
  rw [jac_dof_spec, hcdof, hroot]
  simp only [jacColumn, hanc, ne_eq, not_false_eq_true, decide_true, if_true, V6.ofV3, V6.top, V6.bottom]
  congr 1
  apply V3.ext' <;> simp only [V3.add, V3.cross, V3.sub, hadd, hsub, hmul] <;> ring

/-- for a slide joint the column is `(a, 0)`: pure translation along the axis -/
theorem jacp_slide_eq_axis (body_parentid body_rootid dof_bodyid : Int → Int)
    (body_isdofancestor : Int → Int → Int) (subtree_com_in : Int → Int → V3 ℝ) (cdof_in : Int → Int → V6 ℝ)
    (x a : V3 ℝ) (bodyid dofid w : Int) (hanc : body_isdofancestor bodyid dofid ≠ 0)
    (hcdof : cdof_in w dofid = V6.ofV3 (⟨0, 0, 0⟩ : V3 ℝ) a) :
    Gen.Support.jac_dof body_parentid body_rootid dof_bodyid body_isdofancestor subtree_com_in cdof_in x bodyid dofid w
      = (a, ⟨0, 0, 0⟩) := by
  rw [jac_dof_spec, hcdof]
  simp only [jacColumn, hanc, ne_eq, not_false_eq_true, decide_true, if_true, V6.ofV3, V6.top, V6.bottom]
  congr 1
  apply V3.ext' <;> simp only [V3.add, V3.cross, V3.sub, hadd, hsub, hmul] <;> ring


/-- the world position of the body-fixed point `l` of a body hinged (axis `a`, anchor offset `jpos`, both in the
    body frame `(P0, Qp)` before the joint) as the kernel's HINGE branch computes it for joint angle `t`:
    `xquat = Qp * axis_angle(a, t)`, `xpos = xanchor − rot(jpos, xquat)`, point = `xpos + rot(l, xquat)` -/
noncomputable def hingePoint (P0 : V3 ℝ) (Qp : Q ℝ) (a jpos l : V3 ℝ) (t : ℝ) : V3 ℝ :=
  let xquat := mul_quat Qp (axis_angle_to_quat a t)
  let xanchor := V3.add (rot_vec_quat jpos Qp) P0
  V3.add (V3.sub xanchor (rot_vec_quat jpos xquat)) (rot_vec_quat l xquat)

theorem hingePoint_eq (P0 : V3 ℝ) (Qp : Q ℝ) (a jpos l : V3 ℝ) (ha : vnrm2 a = 1) (t : ℝ) :
    hingePoint P0 Qp a jpos l t
      = V3.add (V3.add (rot_vec_quat jpos Qp) P0) (rot_vec_quat (rodrigues a (V3.sub l jpos) t) Qp) := by
  unfold hingePoint
  simp only
  rw [← rot_axis_angle_eq_rodrigues a _ ha, ← rot_mul_quat, ← rot_sub]
  apply V3.ext' <;> simp only [V3.add, V3.sub, hadd, hsub] <;> ring

/-- (8) **`jacp_is_velocity_map_hinge`**: for a single hinge joint (unit axis `a`, any unit frame quaternion `Qp`), the
    derivative with respect to the joint angle of the world position `x(θ)` of a body-fixed point is
    `xaxis × (x(θ) − xanchor)` — exactly the translational Jacobian column `jac_dof` computes from the `_cdof` value
    (`jacp_hinge_eq_axis_cross` with `a := xaxis`, `p := xanchor`), componentwise. -/
theorem jacp_is_velocity_map_hinge (P0 : V3 ℝ) (Qp : Q ℝ) (hQ : nrm2 Qp = 1) (a jpos l : V3 ℝ) (ha : vnrm2 a = 1)
    (θ : ℝ) :
    let xanchor := V3.add (rot_vec_quat jpos Qp) P0
    let xaxis := rot_vec_quat a Qp
    let col := V3.cross xaxis (V3.sub (hingePoint P0 Qp a jpos l θ) xanchor)
    HasDerivAt (fun t => (hingePoint P0 Qp a jpos l t).c0) col.c0 θ
    ∧ HasDerivAt (fun t => (hingePoint P0 Qp a jpos l t).c1) col.c1 θ
    ∧ HasDerivAt (fun t => (hingePoint P0 Qp a jpos l t).c2) col.c2 θ := by
  intro xanchor xaxis col
  obtain ⟨d0, d1, d2⟩ := hasDerivAt_rodrigues a (V3.sub l jpos) ha θ
  obtain ⟨r0, r1, r2⟩ := hasDerivAt_rot_component Qp _ _ _ _ _ _ θ d0 d1 d2
  have hcol : col = rot_vec_quat (V3.cross a (rodrigues a (V3.sub l jpos) θ)) Qp := by
    show V3.cross (rot_vec_quat a Qp) (V3.sub (hingePoint P0 Qp a jpos l θ) (V3.add (rot_vec_quat jpos Qp) P0)) = _
    rw [rot_cross Qp hQ, hingePoint_eq P0 Qp a jpos l ha]
    congr 1
    apply V3.ext' <;> simp only [V3.add, V3.sub, hadd, hsub] <;> ring
  have hfun : ∀ t, hingePoint P0 Qp a jpos l t
      = V3.add xanchor (rot_vec_quat ⟨(rodrigues a (V3.sub l jpos) t).c0, (rodrigues a (V3.sub l jpos) t).c1,
          (rodrigues a (V3.sub l jpos) t).c2⟩ Qp) := fun t => hingePoint_eq P0 Qp a jpos l ha t
  rw [hcol]
  simp only [hfun, V3.add, hadd]
  exact ⟨r0.const_add _, r1.const_add _, r2.const_add _⟩

/-- (8) **`jacp_is_velocity_map_partial`** — what is proved of "jacp · qvel is the velocity of the point":
    (i) for a HINGE dof the column is `xaxis × (x − xanchor)` (`jacp_hinge_eq_axis_cross`, from the `_cdof` value) and
        this IS ∂x/∂θ of the kernel's own kinematics (`jacp_is_velocity_map_hinge`);
    (ii) for a SLIDE dof the column is `xaxis` (`jacp_slide_eq_axis`), and ∂x/∂q = xaxis since the kernel's SLIDE branch
        is `xpos += xaxis * (q − q0)` with everything else independent of `q`.
    FULL STATEMENT (not proved): for every kinematic tree, every body `b`, point `x` fixed on `b`, and every dof `i`,
      ∂x/∂q_i (through `_kinematics_branch`, with quaternion joints differentiated along `quat_integrate`) equals
      `(jac_dof … x b i w).1`, and the angular velocity map equals `.2`; i.e. `v_point = Σ_i jacp[:, i] qvel_i`.
    MISSING: chains of several joints (needs the derivative of `kinChainW` with respect to an ancestor's joint, i.e.
    rigid motion of the whole subtree), BALL and FREE rotational dofs (derivative along the exponential map). -/
theorem jacp_is_velocity_map_partial (P0 : V3 ℝ) (Qp : Q ℝ) (hQ : nrm2 Qp = 1) (a jpos l : V3 ℝ) (ha : vnrm2 a = 1)
    (θ : ℝ) (body_parentid body_rootid dof_bodyid : Int → Int) (body_isdofancestor : Int → Int → Int)
    (subtree_com_in : Int → Int → V3 ℝ) (cdof_in : Int → Int → V6 ℝ) (bodyid dofid w jbody : Int)
    (hanc : body_isdofancestor bodyid dofid ≠ 0) (hroot : body_rootid jbody = body_rootid bodyid)
    (hcdof : cdof_in w dofid = V6.ofV3 (rot_vec_quat a Qp)
      (V3.cross (rot_vec_quat a Qp) (V3.sub (subtree_com_in w (body_rootid jbody)) (V3.add (rot_vec_quat jpos Qp) P0)))) :
    let col := (Gen.Support.jac_dof body_parentid body_rootid dof_bodyid body_isdofancestor subtree_com_in cdof_in
                  (hingePoint P0 Qp a jpos l θ) bodyid dofid w).1
    HasDerivAt (fun t => (hingePoint P0 Qp a jpos l t).c0) col.c0 θ
    ∧ HasDerivAt (fun t => (hingePoint P0 Qp a jpos l t).c1) col.c1 θ
    ∧ HasDerivAt (fun t => (hingePoint P0 Qp a jpos l t).c2) col.c2 θ := by
  intro col
  have : col = V3.cross (rot_vec_quat a Qp)
      (V3.sub (hingePoint P0 Qp a jpos l θ) (V3.add (rot_vec_quat jpos Qp) P0)) := by
    show (Gen.Support.jac_dof _ _ _ _ _ _ _ _ _ _).1 = _
    rw [jacp_hinge_eq_axis_cross body_parentid body_rootid dof_bodyid body_isdofancestor subtree_com_in cdof_in
      _ _ _ bodyid dofid w jbody hanc hroot hcdof]
  rw [this]
  exact jacp_is_velocity_map_hinge P0 Qp hQ a jpos l ha θ

/-- non-vacuity: a unit frame quaternion and a unit axis -/
example : nrm2 (⟨3/5, 0, 4/5, 0⟩ : Q ℝ) = 1 ∧ vnrm2 (⟨0, 0, 1⟩ : V3 ℝ) = 1 := by
  constructor <;> norm_num [nrm2, vnrm2]

end Mjw.Props.C22
