/-
  C34  ray() returns, for every ray, the distance and surface normal of the nearest intersection among
  eligible geoms (or no hit = -1).
  Theorems are about `Mjw.Gen.Ray.*`, regenerated from /repo/mujoco_warp/_src/ray.py on every run,
  instantiated at K = ℝ.  `minval` is MJ_MINVAL = 1e-15, `rayPt pnt vec t = pnt + t·vec`,
  `distSq p q = |p - q|²`, `IsOrtho m` = `m·mᵀ = I ∧ mᵀ·m = I` (all from `Lemmas/C34.lean`).
-/
import MjwVerif.Lemmas.C34

namespace Mjw.Props.C34
open Mjw Mjw.Gen.Ray Mjw.Lemmas.C34

/-! ### 4. `_ray_map` -/

/-- (4a) `_ray_map` returns `lpnt = matᵀ·(pnt - pos)`, `lvec = matᵀ·vec` (any `mat`). -/
theorem ray_map_spec (pos : V3 ℝ) (mat : M33 ℝ) (pnt vec : V3 ℝ) :
    _ray_map pos mat pnt vec =
      (M33.mulVec (M33.transpose mat) (V3.sub pnt pos), M33.mulVec (M33.transpose mat) vec) := rfl

/-- (4a') written out in coordinates: component `k` of `lpnt` is column `k` of `mat` dotted with `pnt - pos`. -/
theorem ray_map_coords (pos : V3 ℝ) (mat : M33 ℝ) (pnt vec : V3 ℝ) :
    _ray_map pos mat pnt vec =
      (⟨mat.m00 * (pnt.c0 - pos.c0) + mat.m10 * (pnt.c1 - pos.c1) + mat.m20 * (pnt.c2 - pos.c2),
        mat.m01 * (pnt.c0 - pos.c0) + mat.m11 * (pnt.c1 - pos.c1) + mat.m21 * (pnt.c2 - pos.c2),
        mat.m02 * (pnt.c0 - pos.c0) + mat.m12 * (pnt.c1 - pos.c1) + mat.m22 * (pnt.c2 - pos.c2)⟩,
       ⟨mat.m00 * vec.c0 + mat.m10 * vec.c1 + mat.m20 * vec.c2,
        mat.m01 * vec.c0 + mat.m11 * vec.c1 + mat.m21 * vec.c2,
        mat.m02 * vec.c0 + mat.m12 * vec.c1 + mat.m22 * vec.c2⟩) := rfl

/-- (4b) the map is affine along the ray: the local image of the world point `pnt + t·vec` is
    `lpnt + t·lvec` (any `mat`). -/
theorem ray_map_affine (pos : V3 ℝ) (mat : M33 ℝ) (pnt vec : V3 ℝ) (t : ℝ) :
    M33.mulVec (M33.transpose mat) (V3.sub (rayPt pnt vec t) pos) =
      rayPt (_ray_map pos mat pnt vec).1 (_ray_map pos mat pnt vec).2 t := by
  apply V3.ext' <;>
    simp only [_ray_map, rayPt, M33.mulVec, M33.transpose, V3.sub, V3.add, V3.muls, hadd, hsub, hmul] <;> ring

/-- (4c) for an orthogonal `mat` the map preserves distances along the ray:
    `|lpnt + t·lvec|² = |pnt + t·vec - pos|²`. -/
theorem ray_map_preserves_dist (pos : V3 ℝ) (mat : M33 ℝ) (pnt vec : V3 ℝ) (t : ℝ) (hm : IsOrtho mat) :
    V3.dot (rayPt (_ray_map pos mat pnt vec).1 (_ray_map pos mat pnt vec).2 t)
        (rayPt (_ray_map pos mat pnt vec).1 (_ray_map pos mat pnt vec).2 t) =
      distSq (rayPt pnt vec t) pos := by
  obtain ⟨h, -⟩ := hm
  have e := ortho_rows h
  obtain ⟨e00, e01, e02, e11, e12, e22⟩ := e
  simp only [_ray_map, rayPt, distSq, M33.mulVec, M33.transpose, V3.sub, V3.add, V3.muls, V3.dot,
    hadd, hsub, hmul]
  linear_combination
    ((pnt.c0 + vec.c0 * t - pos.c0) ^ 2) * e00 + ((pnt.c1 + vec.c1 * t - pos.c1) ^ 2) * e11 +
    ((pnt.c2 + vec.c2 * t - pos.c2) ^ 2) * e22 +
    2 * ((pnt.c0 + vec.c0 * t - pos.c0) * (pnt.c1 + vec.c1 * t - pos.c1)) * e01 +
    2 * ((pnt.c0 + vec.c0 * t - pos.c0) * (pnt.c2 + vec.c2 * t - pos.c2)) * e02 +
    2 * ((pnt.c1 + vec.c1 * t - pos.c1) * (pnt.c2 + vec.c2 * t - pos.c2)) * e12

/-! ### 7. `_ray_eliminate` -/

/-- (7) A geom is eliminated iff
    * it belongs to the excluded body, or
    * it has no material and its own rgba alpha is 0, or
    * it has a material whose rgba alpha is 0, or
    * static geoms are not wanted (`flg_static = false`) and its body is welded to the world, or
    * a group mask is given (not all six entries equal -1) and the entry of the geom's group
      (clamped to 0..5) is 0. -/
theorem ray_eliminate_iff (body_weldid geom_bodyid geom_matid geom_group : Int → Int)
    (geom_rgba mat_rgba : Int → V4 ℝ) (geomid : Int) (geomgroup : V6 ℝ) (flg_static : Bool)
    (bodyexclude : Int) :
    _ray_eliminate body_weldid geom_bodyid geom_matid geom_group geom_rgba mat_rgba geomid geomgroup
        flg_static bodyexclude = true ↔
      (geom_bodyid geomid = bodyexclude ∨
       (geom_matid geomid < 0 ∧ (geom_rgba geomid).c3 = 0) ∨
       (0 ≤ geom_matid geomid ∧ (mat_rgba (geom_matid geomid)).c3 = 0) ∨
       (flg_static = false ∧ body_weldid (geom_bodyid geomid) = 0) ∨
       (¬ (geomgroup.c0 = -1 ∧ geomgroup.c1 = -1 ∧ geomgroup.c2 = -1 ∧ geomgroup.c3 = -1 ∧
            geomgroup.c4 = -1 ∧ geomgroup.c5 = -1) ∧
        V6.get geomgroup (min 5 (max 0 (geom_group geomid))) = 0)) := by
  have l0 : (Scalar.lit 0 0 : ℝ) = 0 := by norm_num
  have l1 : (Scalar.lit (-1) 0 : ℝ) = -1 := by norm_num
  simp only [_ray_eliminate, l0, l1]
  split_ifs <;> simp_all
  all_goals
    constructor
    · intro h; tauto
    · rintro (⟨h1, _⟩ | h)
      · omega
      · tauto

/-! ### 1. `_ray_quad`
  The code has exactly one guard: `det = b² - a·c < MJ_MINVAL` returns `(-1, (-1,-1))`.  There is **no** guard
  on `a`: `den = safe_div(1, a)` is `1/a` for `a ≠ 0` and `1/MJ_MINVAL` for `a = 0`.  The theorems below
  therefore carry `a ≠ 0` (roots) resp. `0 < a` (ordering x0 < x1, hence "nearest") as hypotheses; see
  `C34Witness.lean` for what happens at `a < 0` and `a = 0` (not reachable from the callers in ray.py, which
  pass a sum of squares for `a` and, when that sum is 0, also `b = 0`, so that the guard rejects). -/

/-- (1a) rejected branch: `det < MJ_MINVAL` gives `-1` and both roots `-1`. -/
theorem ray_quad_reject (a b c : ℝ) (h : b * b - a * c < minval) :
    _ray_quad a b c = (-1, ⟨-1, -1⟩) := by
  rw [ray_quad_eq, if_pos h]

/-- (1b) accepted branch, `a ≠ 0`: the two returned numbers are the roots
    `(-b ∓ √det)/a` of `a·x² + 2·b·x + c = 0`, and the returned scalar is one of them or `-1`. -/
theorem ray_quad_roots (a b c : ℝ) (ha : a ≠ 0) (hd : minval ≤ b * b - a * c) :
    let r := _ray_quad a b c
    r.2.c0 = (-b - Real.sqrt (b * b - a * c)) / a ∧ r.2.c1 = (-b + Real.sqrt (b * b - a * c)) / a ∧
    a * r.2.c0 ^ 2 + 2 * b * r.2.c0 + c = 0 ∧ a * r.2.c1 ^ 2 + 2 * b * r.2.c1 + c = 0 ∧
    (r.1 = r.2.c0 ∨ r.1 = r.2.c1 ∨ r.1 = -1) := by
  have hdpos : 0 ≤ b * b - a * c := le_trans minval_pos.le hd
  have hss := Real.mul_self_sqrt hdpos
  intro r
  have hr : r = _ray_quad a b c := rfl
  rw [ray_quad_eq, if_neg (not_lt.mpr hd)] at hr
  simp only [ha, ne_eq, not_false_eq_true, if_true, mul_one_div] at hr
  set s := Real.sqrt (b * b - a * c)
  have e0 : a * ((-b - s) / a) ^ 2 + 2 * b * ((-b - s) / a) + c = 0 := by
    field_simp; nlinarith [hss]
  have e1 : a * ((-b + s) / a) ^ 2 + 2 * b * ((-b + s) / a) + c = 0 := by
    field_simp; nlinarith [hss]
  split_ifs at hr <;> rw [hr] <;> simp [e0, e1]

/-- (1c) accepted branch, `0 < a`: the returned scalar `x` is the **smallest non-negative root**:
    if `x ≥ 0` it is a root and no root in `[0, x)` exists; if `x < 0` then `x = -1` and there is no
    non-negative root at all.  Moreover every root is one of the two returned numbers. -/
theorem ray_quad_nearest (a b c : ℝ) (ha : 0 < a) (hd : minval ≤ b * b - a * c) :
    let r := _ray_quad a b c
    (0 ≤ r.1 → a * r.1 ^ 2 + 2 * b * r.1 + c = 0 ∧
        ∀ t : ℝ, 0 ≤ t → a * t ^ 2 + 2 * b * t + c = 0 → r.1 ≤ t) ∧
    (r.1 < 0 → r.1 = -1 ∧ ∀ t : ℝ, 0 ≤ t → a * t ^ 2 + 2 * b * t + c ≠ 0) ∧
    (∀ t : ℝ, a * t ^ 2 + 2 * b * t + c = 0 ↔ t = r.2.c0 ∨ t = r.2.c1) ∧ r.2.c0 < r.2.c1 := by
  obtain ⟨x0, x1, hlt, hf, -, -, hq⟩ := ray_quad_pos a b c ha hd
  have hroot : ∀ t : ℝ, a * t ^ 2 + 2 * b * t + c = 0 ↔ t = x0 ∨ t = x1 := by
    intro t
    rw [hf t]
    constructor
    · intro h
      rcases mul_eq_zero.mp h with h | h
      · rcases mul_eq_zero.mp h with h | h
        · exact absurd h (ne_of_gt ha)
        · left; linarith
      · right; linarith
    · rintro (h | h) <;> rw [h] <;> ring
  intro r
  have hr : r = _ray_quad a b c := rfl
  rw [hq] at hr
  rw [hr]
  refine ⟨?_, ?_, hroot, hlt⟩
  · intro h0
    simp only at h0 ⊢
    split_ifs at h0 ⊢ with h1 h2
    · refine ⟨(hroot x0).mpr (Or.inl rfl), ?_⟩
      intro t _ ht
      rcases (hroot t).mp ht with h | h <;> linarith
    · refine ⟨(hroot x1).mpr (Or.inr rfl), ?_⟩
      intro t ht0 ht
      rcases (hroot t).mp ht with h | h <;> linarith
    · linarith
  · intro h0
    simp only at h0 ⊢
    split_ifs at h0 ⊢ with h1 h2
    · linarith
    · linarith
    · refine ⟨rfl, ?_⟩
      intro t ht0 ht
      rcases (hroot t).mp ht with h | h <;> linarith

/-! ### 2. `ray_sphere pos dist_sqr pnt vec`
  (no `mat`; the second argument is the squared radius).  `sphereDet` is the discriminant
  `(vec·d)² - (vec·vec)(d·d - r²)`, `d = pnt - pos`. -/

/-- (2a) **hit**: if the returned distance `x` is `≥ 0` then `r² > 0`, the point `pnt + x·vec` lies on the
    sphere, no smaller `t ≥ 0` does (nearest hit), and the returned normal is the unit *outward* normal
    `(p - pos)/r` — also for rays that start inside the sphere (then `x` is the exit point and the normal
    points along the ray; the code does not flip it). -/
theorem ray_sphere_hit (pos : V3 ℝ) (r2 : ℝ) (pnt vec : V3 ℝ) :
    let r := ray_sphere pos r2 pnt vec
    0 ≤ r.1 →
      0 < r2 ∧ distSq (rayPt pnt vec r.1) pos = r2 ∧
      (∀ t : ℝ, 0 ≤ t → distSq (rayPt pnt vec t) pos = r2 → r.1 ≤ t) ∧
      r.2 = V3.divs (V3.sub (rayPt pnt vec r.1) pos) (Real.sqrt r2) ∧ V3.dot r.2 r.2 = 1 := by
  intro r h0
  have hr : r = ray_sphere pos r2 pnt vec := rfl
  rcases ray_sphere_cases pos r2 pnt vec with ⟨-, h⟩ | ⟨hd, ha, ⟨h, -⟩ | ⟨x, hx, h, hon, hnear⟩⟩
  · rw [h] at hr; rw [hr] at h0; norm_num at h0
  · rw [h] at hr; rw [hr] at h0; norm_num at h0
  · rw [h] at hr
    have hr2 : 0 < r2 := by
      have := sphereDet_le pos r2 pnt vec
      have hp : 0 < V3.dot vec vec * r2 := lt_of_lt_of_le (lt_of_lt_of_le minval_pos hd) this
      by_contra hneg
      have := mul_nonpos_of_nonneg_of_nonpos ha.le (not_lt.mp hneg)
      linarith
    obtain ⟨e1, e2⟩ := normalize_of_dot (v := V3.sub (rayPt pnt vec x) pos) hon hr2
    rw [hr]
    exact ⟨hr2, hon, hnear, e1, e2⟩

/-- (2b) **miss**: a negative result is exactly `-1` with zero normal, and then either the discriminant is
    below `MJ_MINVAL` (the code's grazing/miss guard) or no `t ≥ 0` reaches the sphere. -/
theorem ray_sphere_miss (pos : V3 ℝ) (r2 : ℝ) (pnt vec : V3 ℝ) :
    let r := ray_sphere pos r2 pnt vec
    r.1 < 0 →
      r = (-1, V3.zero) ∧
      (sphereDet pos r2 pnt vec < minval ∨ ∀ t : ℝ, 0 ≤ t → distSq (rayPt pnt vec t) pos ≠ r2) := by
  intro r h0
  have hr : r = ray_sphere pos r2 pnt vec := rfl
  rcases ray_sphere_cases pos r2 pnt vec with ⟨hd, h⟩ | ⟨hd, ha, ⟨h, hno⟩ | ⟨x, hx, h, hon, hnear⟩⟩
  · exact ⟨hr.trans h, Or.inl hd⟩
  · exact ⟨hr.trans h, Or.inr hno⟩
  · rw [h] at hr; rw [hr] at h0; simp only at h0; linarith

/-- (2c) **completeness**: with discriminant `≥ MJ_MINVAL`, if some `t ≥ 0` reaches the sphere the function
    reports a hit. -/
theorem ray_sphere_complete (pos : V3 ℝ) (r2 : ℝ) (pnt vec : V3 ℝ)
    (hd : minval ≤ sphereDet pos r2 pnt vec) (t : ℝ) (ht : 0 ≤ t)
    (hon : distSq (rayPt pnt vec t) pos = r2) :
    0 ≤ (ray_sphere pos r2 pnt vec).1 := by
  by_contra hneg
  rcases (ray_sphere_miss pos r2 pnt vec (not_le.mp hneg)).2 with h | h
  · exact absurd hd (not_le.mpr h)
  · exact h t ht hon

/-- non-vacuity (2): the ray from (-2,0,0) along +x hits the unit sphere at the origin at distance 1 with
    normal (-1,0,0); the ray from the centre along +x (start inside) exits at distance 1 with normal
    (+1,0,0), i.e. the outward normal, pointing along the ray. -/
example : ray_sphere (⟨0, 0, 0⟩ : V3 ℝ) 1 ⟨-2, 0, 0⟩ ⟨1, 0, 0⟩ = (1, ⟨-1, 0, 0⟩) := by
  rw [ray_sphere_eq, ray_quad_eq]
  norm_num [V3.dot, V3.sub, rayPt, V3.add, V3.muls, V3.normalize, V3.length, minval]

example : ray_sphere (⟨0, 0, 0⟩ : V3 ℝ) 1 ⟨0, 0, 0⟩ ⟨1, 0, 0⟩ = (1, ⟨1, 0, 0⟩) := by
  rw [ray_sphere_eq, ray_quad_eq]
  norm_num [V3.dot, V3.sub, rayPt, V3.add, V3.muls, V3.normalize, V3.length, minval]

/-! ### 3. `ray_plane` -/

/-- (3a) exact description.  With `(lpnt, lvec) = _ray_map …` and `x = -lpnt.z / lvec.z`, the function
    reports `x` with normal = third column of `mat` (the plane's z axis in world coordinates) iff
    `lvec.z ≤ -MJ_MINVAL` (ray travels towards the front side), `x ≥ 0`, and for each of the two in-plane
    axes either `size_i ≤ 0` (infinite) or `|p_i| ≤ size_i`; otherwise `(-1, 0)`. -/
theorem ray_plane_eq (pos : V3 ℝ) (mat : M33 ℝ) (size pnt vec : V3 ℝ) :
    let l := _ray_map pos mat pnt vec
    let x := -l.1.c2 / l.2.c2
    ray_plane pos mat size pnt vec =
      if l.2.c2 ≤ -minval ∧ 0 ≤ x ∧ (size.c0 ≤ 0 ∨ |l.1.c0 + x * l.2.c0| ≤ size.c0) ∧
          (size.c1 ≤ 0 ∨ |l.1.c1 + x * l.2.c1| ≤ size.c1)
      then (x, ⟨mat.m02, mat.m12, mat.m22⟩) else (-1, V3.zero) := by
  obtain ⟨lp, lv, hl⟩ : ∃ lp lv, _ray_map pos mat pnt vec = (lp, lv) := ⟨_, _, rfl⟩
  dsimp only
  simp only [ray_plane, hl, sgt, slt, sle, sabs, hneg, hdiv, hadd, hmul, slit, lit_minval,
    Bool.and_eq_true, Bool.or_eq_true]
  norm_num
  split_ifs
  all_goals
    rename_i hc
    first
    | rfl
    | (exfalso; simp only [not_lt] at *; tauto)
    | (exfalso; obtain ⟨a1, a2, -⟩ := hc; linarith)

/-- (3b) **hit**: a result `x ≥ 0` means: the local direction has `lvec.z ≤ -MJ_MINVAL < 0` and the local
    start has `lpnt.z ≥ 0` (the ray comes from the front side, the side the normal points to), the hit point
    has local `z = 0`, it is the only ray point in the plane, it lies inside the rectangle when the
    half-sizes are positive, and the normal is the plane's z axis (third column of `mat`). -/
theorem ray_plane_hit (pos : V3 ℝ) (mat : M33 ℝ) (size pnt vec : V3 ℝ) :
    let l := _ray_map pos mat pnt vec
    let r := ray_plane pos mat size pnt vec
    0 ≤ r.1 →
      l.2.c2 ≤ -minval ∧ 0 ≤ l.1.c2 ∧ (rayPt l.1 l.2 r.1).c2 = 0 ∧
      (∀ t : ℝ, (rayPt l.1 l.2 t).c2 = 0 → t = r.1) ∧
      (0 < size.c0 → |(rayPt l.1 l.2 r.1).c0| ≤ size.c0) ∧
      (0 < size.c1 → |(rayPt l.1 l.2 r.1).c1| ≤ size.c1) ∧
      r.2 = ⟨mat.m02, mat.m12, mat.m22⟩ := by
  obtain ⟨lp, lv, hl⟩ : ∃ lp lv, _ray_map pos mat pnt vec = (lp, lv) := ⟨_, _, rfl⟩
  have hr := ray_plane_eq pos mat size pnt vec
  rw [hl] at hr ⊢
  dsimp only at hr ⊢
  intro h0
  split_ifs at hr with hc
  · obtain ⟨hz, hx, hb0, hb1⟩ := hc
    have hneg : lv.c2 < 0 := lt_of_le_of_lt hz (by linarith [minval_pos])
    have hne : lv.c2 ≠ 0 := ne_of_lt hneg
    rw [hr]
    simp only [rayPt, V3.add, V3.muls, hadd, hmul]
    refine ⟨hz, ?_, ?_, ?_, ?_, ?_, trivial⟩
    · rw [div_nonneg_iff] at hx
      rcases hx with ⟨h1, h2⟩ | ⟨h1, _⟩
      · linarith
      · linarith
    · field_simp; ring
    · intro t ht
      field_simp
      linarith
    · intro hs
      rcases hb0 with h | h
      · linarith
      · rwa [mul_comm]
    · intro hs
      rcases hb1 with h | h
      · linarith
      · rwa [mul_comm]
  · rw [hr] at h0; norm_num at h0

/-- (3c) **miss** is always reported as `(-1, 0)`. -/
theorem ray_plane_miss (pos : V3 ℝ) (mat : M33 ℝ) (size pnt vec : V3 ℝ) :
    (ray_plane pos mat size pnt vec).1 < 0 → ray_plane pos mat size pnt vec = (-1, V3.zero) := by
  intro h0
  have := ray_plane_eq pos mat size pnt vec
  simp only at this
  rw [this] at h0 ⊢
  split_ifs at h0 ⊢ with hc
  · exact absurd hc.2.1 (not_le.mpr h0)
  · rfl

/-- non-vacuity (3): a ray from (0,0,1) straight down hits the infinite plane z = 0 at distance 1,
    normal (0,0,1). -/
example : ray_plane (⟨0, 0, 0⟩ : V3 ℝ) M33.identity ⟨0, 0, 0⟩ ⟨0, 0, 1⟩ ⟨0, 0, -1⟩ = (1, ⟨0, 0, 1⟩) := by
  have := ray_plane_eq (⟨0, 0, 0⟩ : V3 ℝ) M33.identity ⟨0, 0, 0⟩ ⟨0, 0, 1⟩ ⟨0, 0, -1⟩
  simp only at this
  rw [this]
  norm_num [_ray_map, M33.mulVec, M33.transpose, M33.identity, V3.sub, minval]

/-! ### 5. `ray_ellipsoid`
  `ellScale size = (safe_div 1 size₀², safe_div 1 size₁², safe_div 1 size₂²)`; for `sizeᵢ ≠ 0` this is
  `1/sizeᵢ²` (for `sizeᵢ = 0` the code substitutes `1/MJ_MINVAL`, so no hypothesis on `size` is needed for
  the general statement). -/

/-- (5a) **hit**, general form: if the result `x ≥ 0`, the local hit point `p = lpnt + x·lvec` satisfies
    `Σ sᵢ·pᵢ² = 1`, no smaller `t ≥ 0` does, and the normal is `mat · normalize(s ∘ p)` (the gradient
    direction of the ellipsoid's quadratic form, rotated to the world frame). -/
theorem ray_ellipsoid_hit (pos : V3 ℝ) (mat : M33 ℝ) (size pnt vec : V3 ℝ) :
    let l := _ray_map pos mat pnt vec
    let s := ellScale size
    let r := ray_ellipsoid pos mat size pnt vec
    let E : ℝ → ℝ := fun t => s.c0 * (rayPt l.1 l.2 t).c0 ^ 2 + s.c1 * (rayPt l.1 l.2 t).c1 ^ 2 +
      s.c2 * (rayPt l.1 l.2 t).c2 ^ 2
    0 ≤ r.1 →
      E r.1 = 1 ∧ (∀ t : ℝ, 0 ≤ t → E t = 1 → r.1 ≤ t) ∧
      r.2 = M33.mulVec mat (V3.normalize (V3.cwmul s (rayPt l.1 l.2 r.1))) := by
  obtain ⟨lp, lv, hl⟩ : ∃ lp lv, _ray_map pos mat pnt vec = (lp, lv) := ⟨_, _, rfl⟩
  obtain ⟨s0, s1, s2⟩ := ellScale_pos size
  have hr := ray_ellipsoid_eq pos mat size pnt vec
  rw [hl] at hr ⊢
  dsimp only at hr ⊢
  set s := ellScale size with hs
  have hq := quad_sol (V3.dot (V3.cwmul s lv) lv) (V3.dot (V3.cwmul s lv) lp)
    (V3.dot (V3.cwmul s lp) lp - 1)
    (by simp only [V3.dot, V3.cwmul, hadd, hmul]
        nlinarith [mul_nonneg s0.le (mul_self_nonneg lv.c0), mul_nonneg s1.le (mul_self_nonneg lv.c1),
          mul_nonneg s2.le (mul_self_nonneg lv.c2)])
    (by simp only [V3.dot, V3.cwmul, hadd, hmul]
        intro h
        have h0 : s.c0 * lv.c0 * lv.c0 = 0 := by
          nlinarith [mul_nonneg s0.le (mul_self_nonneg lv.c0), mul_nonneg s1.le (mul_self_nonneg lv.c1),
            mul_nonneg s2.le (mul_self_nonneg lv.c2)]
        have h1 : s.c1 * lv.c1 * lv.c1 = 0 := by
          nlinarith [mul_nonneg s0.le (mul_self_nonneg lv.c0), mul_nonneg s1.le (mul_self_nonneg lv.c1),
            mul_nonneg s2.le (mul_self_nonneg lv.c2)]
        have h2 : s.c2 * lv.c2 * lv.c2 = 0 := by
          nlinarith [mul_nonneg s0.le (mul_self_nonneg lv.c0), mul_nonneg s1.le (mul_self_nonneg lv.c1),
            mul_nonneg s2.le (mul_self_nonneg lv.c2)]
        have z0 : lv.c0 = 0 := by
          rcases mul_eq_zero.mp h0 with h | h
          · rcases mul_eq_zero.mp h with h | h
            · exact absurd h (ne_of_gt s0)
            · exact h
          · exact h
        have z1 : lv.c1 = 0 := by
          rcases mul_eq_zero.mp h1 with h | h
          · rcases mul_eq_zero.mp h with h | h
            · exact absurd h (ne_of_gt s1)
            · exact h
          · exact h
        have z2 : lv.c2 = 0 := by
          rcases mul_eq_zero.mp h2 with h | h
          · rcases mul_eq_zero.mp h with h | h
            · exact absurd h (ne_of_gt s2)
            · exact h
          · exact h
        rw [z0, z1, z2]; ring)
  dsimp only at hq
  obtain ⟨hq1, -, -, -⟩ := hq
  have hE : ∀ t : ℝ, s.c0 * (rayPt lp lv t).c0 ^ 2 + s.c1 * (rayPt lp lv t).c1 ^ 2 +
      s.c2 * (rayPt lp lv t).c2 ^ 2 - 1 =
      V3.dot (V3.cwmul s lv) lv * t ^ 2 + 2 * V3.dot (V3.cwmul s lv) lp * t +
        (V3.dot (V3.cwmul s lp) lp - 1) := by
    intro t
    simp only [V3.dot, V3.cwmul, rayPt, V3.add, V3.muls, hadd, hmul]
    ring
  rw [hr]
  dsimp only
  intro h0
  obtain ⟨e1, e2⟩ := hq1 h0
  refine ⟨?_, ?_, ?_⟩
  · have := hE ((_ray_quad (V3.dot (V3.cwmul s lv) lv) (V3.dot (V3.cwmul s lv) lp)
      (V3.dot (V3.cwmul s lp) lp - 1)).1)
    linarith
  · intro t ht hEt
    apply e2 t ht
    have := hE t
    linarith
  · rw [if_pos h0]

/-- (5b) with non-zero semi-axes the hit point satisfies the ellipsoid equation `Σ (pᵢ/sizeᵢ)² = 1`. -/
theorem ray_ellipsoid_hit_on_surface (pos : V3 ℝ) (mat : M33 ℝ) (size pnt vec : V3 ℝ)
    (h0 : size.c0 ≠ 0) (h1 : size.c1 ≠ 0) (h2 : size.c2 ≠ 0) :
    let l := _ray_map pos mat pnt vec
    let r := ray_ellipsoid pos mat size pnt vec
    0 ≤ r.1 →
      ((rayPt l.1 l.2 r.1).c0 / size.c0) ^ 2 + ((rayPt l.1 l.2 r.1).c1 / size.c1) ^ 2 +
        ((rayPt l.1 l.2 r.1).c2 / size.c2) ^ 2 = 1 := by
  intro l r hr
  have h := (ray_ellipsoid_hit pos mat size pnt vec hr).1
  simp only [ellScale, safe_inv_of_ne _ (mul_ne_zero h0 h0), safe_inv_of_ne _ (mul_ne_zero h1 h1),
    safe_inv_of_ne _ (mul_ne_zero h2 h2)] at h
  rw [← h]
  field_simp
  ring

/-- (5c) a negative result is exactly `(-1, 0)`. -/
theorem ray_ellipsoid_miss (pos : V3 ℝ) (mat : M33 ℝ) (size pnt vec : V3 ℝ) :
    (ray_ellipsoid pos mat size pnt vec).1 < 0 → ray_ellipsoid pos mat size pnt vec = (-1, V3.zero) := by
  obtain ⟨s0, s1, s2⟩ := ellScale_pos size
  rw [ray_ellipsoid_eq]
  dsimp only
  intro h
  rw [if_neg (not_le.mpr h)]
  have := ray_quad_neg _ _ _ h
  rw [this]

/-! ### 6. `ray_box`
  The code first requires a hit of the bounding sphere (radius² = size·size), then tests, for every axis `i`
  with `|lvec_i| > MJ_MINVAL`, the two faces `p_i = ∓size_i`: candidate `sol = (∓size_i - lpnt_i)/lvec_i`
  is accepted when `sol ≥ 0` and the other two coordinates satisfy `|p_j| ≤ size_j` (exact comparison, no
  tolerance); the smallest accepted candidate wins. -/

/-- (6a) **hit on surface + normal**: if `ray_box` returns `x ≥ 0`, the local hit point `p = lpnt + x·lvec`
    lies on a face: for some sign `s = ∓1` and some axis `i`, `p_i = s·size_i` and `|p_j| ≤ size_j` for the
    other two axes, and the returned normal is the signed axis `mat·(s·e_i)`. -/
theorem ray_box_hit_on_surface (pos : V3 ℝ) (mat : M33 ℝ) (size pnt vec : V3 ℝ) :
    let l := _ray_map pos mat pnt vec
    let r := ray_box pos mat size pnt vec
    let p := rayPt l.1 l.2 r.1
    0 ≤ r.1 →
      ∃ s : ℝ, (s = -1 ∨ s = 1) ∧
        ((p.c0 = s * size.c0 ∧ |p.c1| ≤ size.c1 ∧ |p.c2| ≤ size.c2 ∧ r.2.2 = M33.mulVec mat ⟨s, 0, 0⟩) ∨
         (p.c1 = s * size.c1 ∧ |p.c0| ≤ size.c0 ∧ |p.c2| ≤ size.c2 ∧ r.2.2 = M33.mulVec mat ⟨0, s, 0⟩) ∨
         (p.c2 = s * size.c2 ∧ |p.c0| ≤ size.c0 ∧ |p.c1| ≤ size.c1 ∧ r.2.2 = M33.mulVec mat ⟨0, 0, s⟩)) := by
  obtain ⟨lp, lv, hl⟩ : ∃ lp lv, _ray_map pos mat pnt vec = (lp, lv) := ⟨_, _, rfl⟩
  have hspec := ray_box_spec pos mat size pnt vec
  rw [hl] at hspec ⊢
  dsimp only at hspec ⊢
  rcases hspec with ⟨-, hr⟩ | ⟨-, x, fa, fs, all, hr, -, hI, -⟩
  · rw [hr]; intro h0; norm_num at h0
  · rw [hr]
    dsimp only
    intro h0
    obtain ⟨hs, hface⟩ := hI h0
    simp only [rayPt, V3.add, V3.muls, hadd, hmul, mul_comm lv.c0 x, mul_comm lv.c1 x, mul_comm lv.c2 x]
    refine ⟨(fs : ℝ), ?_, ?_⟩
    · rcases hs with h | h <;> rw [h] <;> norm_num
    · rcases hface with ⟨hfa, -, he, hb0, hb1⟩ | ⟨hfa, -, he, hb0, hb1⟩ | ⟨hfa, -, he, hb0, hb1⟩
      · left
        refine ⟨he, hb0, hb1, ?_⟩
        simp [boxNormal, h0, hfa, V3.set, V3.zero, V3.fill]
      · right; left
        refine ⟨he, hb0, hb1, ?_⟩
        simp [boxNormal, h0, hfa, V3.set, V3.zero, V3.fill]
      · right; right
        refine ⟨he, hb0, hb1, ?_⟩
        simp [boxNormal, h0, hfa, V3.set, V3.zero, V3.fill]

/-- (6b) **nearest + completeness** relative to the faces the code tests: let `t ≥ 0` be any ray parameter
    at which the ray meets a face `q_i = ∓size_i`, `|q_j| ≤ size_j (j ≠ i)` of an axis with
    `|lvec_i| > MJ_MINVAL`.  If the bounding-sphere pre-test passes, `ray_box` reports a hit `x` with
    `0 ≤ x ≤ t`.  (Faces of an axis with `|lvec_i| ≤ MJ_MINVAL` are skipped by the code, and a ray whose
    bounding-sphere discriminant is `< MJ_MINVAL` is rejected: these two tolerances are the only gap to
    "nearest intersection with the box surface".) -/
theorem ray_box_nearest (pos : V3 ℝ) (mat : M33 ℝ) (size pnt vec : V3 ℝ) (t : ℝ) :
    let l := _ray_map pos mat pnt vec
    let r := ray_box pos mat size pnt vec
    let q := rayPt l.1 l.2 t
    0 ≤ (ray_sphere pos (V3.dot size size) pnt vec).1 → 0 ≤ t →
    ((minval < |l.2.c0| ∧ (q.c0 = -size.c0 ∨ q.c0 = size.c0) ∧ |q.c1| ≤ size.c1 ∧ |q.c2| ≤ size.c2) ∨
     (minval < |l.2.c1| ∧ (q.c1 = -size.c1 ∨ q.c1 = size.c1) ∧ |q.c0| ≤ size.c0 ∧ |q.c2| ≤ size.c2) ∨
     (minval < |l.2.c2| ∧ (q.c2 = -size.c2 ∨ q.c2 = size.c2) ∧ |q.c0| ≤ size.c0 ∧ |q.c1| ≤ size.c1)) →
    0 ≤ r.1 ∧ r.1 ≤ t := by
  obtain ⟨lp, lv, hl⟩ : ∃ lp lv, _ray_map pos mat pnt vec = (lp, lv) := ⟨_, _, rfl⟩
  have hspec := ray_box_spec pos mat size pnt vec
  rw [hl] at hspec ⊢
  dsimp only at hspec ⊢
  intro hsph ht hq
  rcases hspec with ⟨hneg, -⟩ | ⟨-, x, fa, fs, all, hr, -, -, hC⟩
  · exact absurd hsph (not_le.mpr hneg)
  · rw [hr]
    dsimp only
    apply hC t
    simp only [rayPt, V3.add, V3.muls, hadd, hmul, mul_comm lv.c0 t, mul_comm lv.c1 t, mul_comm lv.c2 t] at hq
    unfold BoxCand FaceCand
    rcases hq with ⟨hg, he | he, hb0, hb1⟩ | ⟨hg, he | he, hb0, hb1⟩ | ⟨hg, he | he, hb0, hb1⟩
    · left; exact ⟨hg, Or.inl ⟨ht, by rw [he]; push_cast; ring, hb0, hb1⟩⟩
    · left; exact ⟨hg, Or.inr ⟨ht, by rw [he]; push_cast; ring, hb0, hb1⟩⟩
    · right; left; exact ⟨hg, Or.inl ⟨ht, by rw [he]; push_cast; ring, hb0, hb1⟩⟩
    · right; left; exact ⟨hg, Or.inr ⟨ht, by rw [he]; push_cast; ring, hb0, hb1⟩⟩
    · right; right; exact ⟨hg, Or.inl ⟨ht, by rw [he]; push_cast; ring, hb0, hb1⟩⟩
    · right; right; exact ⟨hg, Or.inr ⟨ht, by rw [he]; push_cast; ring, hb0, hb1⟩⟩

/-- (6c) **miss**: a negative result is exactly `-1` with zero normal. -/
theorem ray_box_miss (pos : V3 ℝ) (mat : M33 ℝ) (size pnt vec : V3 ℝ) :
    let r := ray_box pos mat size pnt vec
    r.1 < 0 → r.1 = -1 ∧ r.2.2 = V3.zero := by
  have hspec := ray_box_spec pos mat size pnt vec
  rcases hspec with ⟨-, hr⟩ | ⟨-, x, fa, fs, all, hr, hx, -, -⟩
  · rw [hr]; dsimp only; intro _; exact ⟨rfl, rfl⟩
  · rw [hr]
    dsimp only
    intro h0
    rcases hx with hx | hx
    · subst hx
      refine ⟨rfl, ?_⟩
      simp [boxNormal]
    · exact absurd hx (not_le.mpr h0)

/-! ### 8. `ray_cylinder`, `ray_capsule`
  `size.c0` = radius, `size.c1` = half-height, axis = local z. -/

/-- (8a) PARTIAL (soundness of a reported hit; nearest-ness is not proved).
    If `ray_cylinder` returns `x ≥ 0`, the local hit point `p = lpnt + x·lvec` lies on the cylinder surface:
    on the bottom cap (`p.z = -h`, `p.x² + p.y² ≤ r²`, normal `mat·(0,0,-1)`), on the top cap
    (`p.z = h`, …, normal `mat·(0,0,1)`), or on the side (`p.x² + p.y² = r²`, `|p.z| ≤ h`,
    normal `mat·normalize(p.x, p.y, 0)`).
    Full statement wanted: additionally `∀ t ≥ 0` with `lpnt + t·lvec` on the surface, `x ≤ t`. -/
theorem ray_cylinder_hit_on_surface_partial (pos : V3 ℝ) (mat : M33 ℝ) (size pnt vec : V3 ℝ) :
    let l := _ray_map pos mat pnt vec
    let r := ray_cylinder pos mat size pnt vec
    let p := rayPt l.1 l.2 r.1
    0 ≤ r.1 →
      (p.c2 = -size.c1 ∧ p.c0 * p.c0 + p.c1 * p.c1 ≤ size.c0 * size.c0 ∧
          r.2 = M33.mulVec mat ⟨0, 0, -1⟩) ∨
      (p.c2 = size.c1 ∧ p.c0 * p.c0 + p.c1 * p.c1 ≤ size.c0 * size.c0 ∧
          r.2 = M33.mulVec mat ⟨0, 0, 1⟩) ∨
      (p.c0 * p.c0 + p.c1 * p.c1 = size.c0 * size.c0 ∧ |p.c2| ≤ size.c1 ∧
          r.2 = M33.mulVec mat (V3.normalize ⟨p.c0, p.c1, 0⟩)) := by
  obtain ⟨lp, lv, hl⟩ : ∃ lp lv, _ray_map pos mat pnt vec = (lp, lv) := ⟨_, _, rfl⟩
  have hr := ray_cylinder_eq pos mat size pnt vec
  rw [hl] at hr ⊢
  dsimp only at hr ⊢
  have hinv := cylSide_inv lp lv size _ _ (cylCaps_inv lp lv size)
  set s := cylSide lp lv size (cylCaps lp lv size).2.2.1 (cylCaps lp lv size).2.2.2 with hs
  obtain ⟨x, part⟩ := s
  rw [hr]
  simp only [slt, lit_zero, lit_neg_one]
  split_ifs with hd
  · intro h0; norm_num at h0
  · dsimp only at hinv ⊢
    intro h0
    simp only [rayPt, V3.add, V3.muls, hadd, hmul, mul_comm lv.c0 x, mul_comm lv.c1 x, mul_comm lv.c2 x]
    rcases hinv with (⟨hx, -⟩ | ⟨-, hz | hz, hdisk⟩) | ⟨-, hp, hside, hzz⟩
    · rw [hx] at h0; norm_num at h0
    · left
      refine ⟨hz.2, hdisk, ?_⟩
      simp [cylNormal, h0, hz.1]
    · right; left
      refine ⟨hz.2, hdisk, ?_⟩
      simp [cylNormal, h0, hz.1]
    · right; right
      refine ⟨hside, hzz, ?_⟩
      simp [cylNormal, h0, hp, V3.add, V3.muls, mul_comm]

/-- (8b) a negative `ray_cylinder` result is exactly `(-1, 0)`. -/
theorem ray_cylinder_miss (pos : V3 ℝ) (mat : M33 ℝ) (size pnt vec : V3 ℝ) :
    (ray_cylinder pos mat size pnt vec).1 < 0 → ray_cylinder pos mat size pnt vec = (-1, V3.zero) := by
  obtain ⟨lp, lv, hl⟩ : ∃ lp lv, _ray_map pos mat pnt vec = (lp, lv) := ⟨_, _, rfl⟩
  have hr := ray_cylinder_eq pos mat size pnt vec
  rw [hl] at hr
  dsimp only at hr
  have hinv := cylSide_inv lp lv size _ _ (cylCaps_inv lp lv size)
  set s := cylSide lp lv size (cylCaps lp lv size).2.2.1 (cylCaps lp lv size).2.2.2 with hs
  obtain ⟨x, part⟩ := s
  rw [hr]
  simp only [slt, lit_zero, lit_neg_one]
  split_ifs with hd
  · intro _; rfl
  · dsimp only at hinv ⊢
    intro h0
    rcases hinv with (⟨hx, -⟩ | ⟨hx, -⟩) | ⟨hx, -⟩
    · subst hx; simp [cylNormal]
    · exact absurd hx (not_le.mpr h0)
    · exact absurd hx (not_le.mpr h0)

/-- (8c) PARTIAL (soundness of a reported hit; nearest-ness is not proved).
    If `ray_capsule` returns `x ≥ 0`, the local hit point `p = lpnt + x·lvec` lies on the capsule surface:
    on the cylinder side (`p.x² + p.y² = r²`, `|p.z| ≤ h`, normal `mat·normalize(p.x, p.y, 0)`), on the top
    hemisphere (`|p - (0,0,h)|² = r²`, `p.z ≥ h`, normal `mat·normalize(p - (0,0,h))`) or on the bottom
    hemisphere (`|p + (0,0,h)|² = r²`, `p.z ≤ -h`, normal `mat·normalize(p + (0,0,h))`).
    Full statement wanted: additionally `∀ t ≥ 0` with `lpnt + t·lvec` on the surface, `x ≤ t`. -/
theorem ray_capsule_hit_on_surface_partial (pos : V3 ℝ) (mat : M33 ℝ) (size pnt vec : V3 ℝ) :
    let l := _ray_map pos mat pnt vec
    let r := ray_capsule pos mat size pnt vec
    let p := rayPt l.1 l.2 r.1
    0 ≤ r.1 →
      (p.c0 * p.c0 + p.c1 * p.c1 = size.c0 * size.c0 ∧ |p.c2| ≤ size.c1 ∧
          r.2 = M33.mulVec mat (V3.normalize ⟨p.c0, p.c1, 0⟩)) ∨
      (p.c0 * p.c0 + p.c1 * p.c1 + (p.c2 - size.c1) * (p.c2 - size.c1) = size.c0 * size.c0 ∧
          size.c1 ≤ p.c2 ∧ r.2 = M33.mulVec mat (V3.normalize ⟨p.c0, p.c1, p.c2 - size.c1⟩)) ∨
      (p.c0 * p.c0 + p.c1 * p.c1 + (p.c2 + size.c1) * (p.c2 + size.c1) = size.c0 * size.c0 ∧
          p.c2 ≤ -size.c1 ∧ r.2 = M33.mulVec mat (V3.normalize ⟨p.c0, p.c1, p.c2 + size.c1⟩)) := by
  obtain ⟨lp, lv, hl⟩ : ∃ lp lv, _ray_map pos mat pnt vec = (lp, lv) := ⟨_, _, rfl⟩
  have hspec := ray_capsule_spec pos mat size pnt vec
  rw [hl] at hspec ⊢
  dsimp only at hspec ⊢
  rcases hspec with ⟨-, hr⟩ | ⟨-, x, part, hr, -, hI⟩
  · rw [hr]; intro h0; norm_num at h0
  · rw [hr]
    dsimp only
    intro h0
    simp only [rayPt, V3.add, V3.muls, hadd, hmul, mul_comm lv.c0 x, mul_comm lv.c1 x, mul_comm lv.c2 x]
    rcases hI h0 with ⟨hp, he, hz⟩ | ⟨hp, he, hz⟩ | ⟨hp, he, hz⟩
    · left
      refine ⟨he, hz, ?_⟩
      simp [capsNormal, h0, hp, mul_comm]
    · right; left
      refine ⟨he, hz, ?_⟩
      simp [capsNormal, h0, hp, mul_comm]
    · right; right
      refine ⟨he, hz, ?_⟩
      simp [capsNormal, h0, hp, mul_comm]

/-- (8d) a negative `ray_capsule` result is exactly `(-1, 0)`. -/
theorem ray_capsule_miss (pos : V3 ℝ) (mat : M33 ℝ) (size pnt vec : V3 ℝ) :
    (ray_capsule pos mat size pnt vec).1 < 0 → ray_capsule pos mat size pnt vec = (-1, V3.zero) := by
  rcases ray_capsule_spec pos mat size pnt vec with ⟨-, hr⟩ | ⟨-, x, part, hr, hx, -⟩
  · intro _; exact hr
  · rw [hr]
    dsimp only
    intro h0
    rcases hx with hx | hx
    · subst hx; simp [capsNormal]
    · exact absurd hx (not_le.mpr h0)

/-! ### `ray_geom` (dispatch) and `_ray_triangle` -/

/-- `ray_geom` dispatches on the geom type: 0 plane, 2 sphere (radius² = size₀²), 3 capsule, 4 ellipsoid,
    5 cylinder, 6 box (distance and normal of `ray_box`), anything else: no hit. -/
theorem ray_geom_dispatch (pos : V3 ℝ) (mat : M33 ℝ) (size pnt vec : V3 ℝ) (g : Int) :
    ray_geom pos mat size pnt vec g =
      if g = 0 then ray_plane pos mat size pnt vec
      else if g = 2 then ray_sphere pos (size.c0 * size.c0) pnt vec
      else if g = 3 then ray_capsule pos mat size pnt vec
      else if g = 4 then ray_ellipsoid pos mat size pnt vec
      else if g = 5 then ray_cylinder pos mat size pnt vec
      else if g = 6 then ((ray_box pos mat size pnt vec).1, (ray_box pos mat size pnt vec).2.2)
      else (-1, V3.zero) := by
  simp only [ray_geom, decide_eq_true_eq, hmul, lit_neg_one]

/-- "no hit = -1": for every geom type, a negative `ray_geom` distance is exactly `-1` and comes with the
    zero normal. -/
theorem ray_geom_miss (pos : V3 ℝ) (mat : M33 ℝ) (size pnt vec : V3 ℝ) (g : Int) :
    (ray_geom pos mat size pnt vec g).1 < 0 → ray_geom pos mat size pnt vec g = (-1, V3.zero) := by
  rw [ray_geom_dispatch]
  split_ifs
  · exact ray_plane_miss pos mat size pnt vec
  · intro h; exact (ray_sphere_miss pos _ pnt vec h).1
  · exact ray_capsule_miss pos mat size pnt vec
  · exact ray_ellipsoid_miss pos mat size pnt vec
  · exact ray_cylinder_miss pos mat size pnt vec
  · intro h
    obtain ⟨h1, h2⟩ := ray_box_miss pos mat size pnt vec h
    exact Prod.ext h1 h2
  · intro _; rfl

/-- `_ray_triangle`, PARTIAL: if it returns a distance `d ≥ 0` then the ray is not parallel to the triangle's
    plane (`|vec·nrm| ≥ MJ_MINVAL`, `nrm = (v0-v2)×(v1-v2)`), the hit point `pnt + d·vec` lies in that plane,
    and the returned normal is `normalize nrm`.
    Full statement wanted: for `b0, b1` an orthonormal basis of `vec⊥` the hit point is
    `v2 + t0·(v0-v2) + t1·(v1-v2)` with `t0, t1 ≥ 0`, `t0 + t1 ≤ 1` (inside the triangle); not proved. -/
theorem ray_triangle_hit_in_plane_partial (v0 v1 v2 pnt vec b0 b1 : V3 ℝ) :
    let r := _ray_triangle v0 v1 v2 pnt vec b0 b1
    let nrm := V3.cross (V3.sub v0 v2) (V3.sub v1 v2)
    0 ≤ r.1 →
      minval ≤ |V3.dot vec nrm| ∧ V3.dot (V3.sub (rayPt pnt vec r.1) v2) nrm = 0 ∧
      r.2 = V3.normalize nrm := by
  dsimp only
  unfold _ray_triangle
  simp only [sgt, slt, sge, sabs, lit_zero, lit_one, lit_neg_one, lit_minval', Bool.or_eq_true, Bool.and_eq_true,
    hneg, hdiv]
  split_ifs with h1 h2 h3 h4 h5
  all_goals try (intro h0; norm_num at h0; done)
  · intro _
    rw [not_lt] at h4
    refine ⟨h4, ?_, rfl⟩
    have hne : V3.dot vec (V3.cross (V3.sub v0 v2) (V3.sub v1 v2)) ≠ 0 := by
      intro h; rw [h, abs_zero] at h4; linarith [minval_pos]
    generalize V3.cross (V3.sub v0 v2) (V3.sub v1 v2) = n at hne ⊢
    have hlin : ∀ t : ℝ, V3.dot (V3.sub (rayPt pnt vec t) v2) n = V3.dot (V3.sub pnt v2) n + t * V3.dot vec n := by
      intro t
      simp only [V3.dot, V3.sub, rayPt, V3.add, V3.muls, hadd, hsub, hmul]
      ring
    rw [hlin]
    field_simp
    ring

/-! ### non-vacuity: concrete rays meeting the hypotheses `0 ≤ r.1` of the theorems above -/

example : (0 : ℝ) < 1 ∧ minval ≤ (-2 : ℝ) * (-2) - 1 * 3 := by norm_num [minval]

example : ray_ellipsoid (⟨0, 0, 0⟩ : V3 ℝ) M33.identity ⟨1, 2, 3⟩ ⟨-3, 0, 0⟩ ⟨1, 0, 0⟩ = (2, ⟨-1, 0, 0⟩) := by
  rw [ray_ellipsoid_eq]
  norm_num [ray_quad_eq, ellScale, Mjw.Gen.Math.safe_div_F_F, _ray_map, M33.mulVec,
    M33.transpose, M33.identity, V3.sub, V3.dot, V3.cwmul, rayPt, V3.add, V3.muls, V3.normalize, V3.length,
    V3.zero, V3.fill, minval]

/-- box with half-sizes (1,2,2): the ray from (-5,0,0) along +x hits the face x = -1 at distance 4 -/
example : (ray_box (⟨0, 0, 0⟩ : V3 ℝ) M33.identity ⟨1, 2, 2⟩ ⟨-5, 0, 0⟩ ⟨1, 0, 0⟩).1 = 4 ∧
    (ray_box (⟨0, 0, 0⟩ : V3 ℝ) M33.identity ⟨1, 2, 2⟩ ⟨-5, 0, 0⟩ ⟨1, 0, 0⟩).2.2 = ⟨-1, 0, 0⟩ := by
  rw [ray_box_eq]
  norm_num [ray_sphere_eq, ray_quad_eq, boxAxisK, boxFaceK, boxNormal, boxAll0, _ray_map, M33.mulVec,
    M33.transpose, M33.identity, V3.sub, V3.dot, rayPt, V3.add, V3.muls, V3.set, V3.zero, V3.fill,
    minval, sqrt9]

/-- capsule r = 1, h = 2: the ray from (0,0,5) straight down hits the top hemisphere at distance 2 -/
example : ray_capsule (⟨0, 0, 0⟩ : V3 ℝ) M33.identity ⟨1, 2, 0⟩ ⟨0, 0, 5⟩ ⟨0, 0, -1⟩ = (2, ⟨0, 0, 1⟩) := by
  rw [ray_capsule_eq]
  norm_num [ray_sphere_eq, ray_quad_eq, capsSideK, capsCapK, capsUpdK, capsNormal, _ray_map, M33.mulVec,
    M33.transpose, M33.identity, V3.sub, V3.dot, rayPt, V3.add, V3.muls, V3.normalize, V3.length, V3.zero,
    V3.fill, minval, sqrt9]

/-- cylinder r = 3, h = 4: the ray from (0,0,10) straight down hits the top cap at distance 6 -/
example : (ray_cylinder (⟨0, 0, 0⟩ : V3 ℝ) M33.identity ⟨3, 4, 0⟩ ⟨0, 0, 10⟩ ⟨0, 0, -1⟩).1 = 6 := by
  rw [ray_cylinder_eq]
  norm_num [ray_sphere_eq, ray_quad_eq, cylCaps, cylSide, cylNormal, _ray_map, M33.mulVec, M33.transpose,
    M33.identity, V3.sub, V3.dot, V2.dot, rayPt, V3.add, V3.muls, minval, sqrt25]

/-- the identity matrix is orthogonal (hypothesis of 4c) -/
example : IsOrtho (M33.identity : M33 ℝ) := by
  constructor <;> apply M33.ext' <;> norm_num [M33.mul, M33.transpose, M33.identity]

end Mjw.Props.C34
