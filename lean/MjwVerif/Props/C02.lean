/-
  C02  Smooth dynamics agree with MuJoCo C.                                                   (C02_partial)

  Source: /repo/mujoco_warp/_src/passive.py (`_spring_damper_dof_passive`, `_spring_damper_tendon_passive`, `_gravity_force`,
  `_fluid_force`, `_qfrc_passive_kernel`), smooth.py (`_comvel_branch`, `_cacc_world`, `_cacc_branch`, `_cfrc`, `_cfrc_backward`,
  `_qfrc_bias`, `_crb_accumulate`, `_M`), forward.py (`_qfrc_smooth`), support.py (`jac_dof`).  Reference: Spec/Passive.lean
  (transcription of MuJoCo 3.13 engine_passive.c / engine_core_smooth.c).

  WHAT IS PROVED (all about the regenerated `Mjw.Gen.*` definitions, for all inputs, generic sizes):
  §1 passive forces (generic `K` unless noted)
     * `spring_damper_hinge_slide / _ball / _free`: the exact write list of `_spring_damper_dof_passive` for every joint type:
       −x·k(x), −k(|dif|)·dif through `quat_sub(normalize q, q_spring)`, −v·b(|v|), with polynomial coefficients, and zeros for an
       absent component; `present` carries the exact gating (some coefficient ≠ 0 and the SPRING (32) / DAMPER (64) bit clear).
     * `spring_bit_zeroes_spring`, `damper_bit_zeroes_damper`: a set disable bit makes every write of that component 0.
     * `tendon_spring_damper_writes` (dead band, J·force scattered by atomic adds), `gravity_force_writes` + `jac_dof_jacp`
       (J_p(xipos)ᵀ(−g·m·gravcomp) for gravcomp ≠ 0), `qfrc_passive_total` (spring + damper [+ gravcomp unless the joint routes it to
       the actuator] [+ fluid] [+ adhesion], exact static gating).
     * ℝ laws: `damper_power_nonpos`, `spring1_zero_at_ref`, `ball_spring_zero_at_ref`, `deadband_inside`, `fluid_zero_without_medium`
       (both fluid models write exactly 0 when density = viscosity = 0; also world body / massless body).
     * `fluid_ellipsoid_wrench_at_geom` (generic K): in ellipsoid mode the written body wrench is Σ_g (F_g, T_g + (geom_xpos_g − xipos) × F_g):
       every geom's force acts AT THE GEOM CENTRE, as MuJoCo's `mj_applyFT(…, geom_xpos, …)` (Spec.Passive.wrenchAt);
       `fluid_ellipsoid_offset_example`: concrete regression (torque (0, π/2, 0) for a sphere 1/2 off the body com).  The moment arm was
       MISSING before repository commit d9b6385 "fix: ellipsoid fluid model dropped the moment arm of geoms that are not at the body's
       centre of mass" — a genuine defect found by this property's check (the former Props/C02Witness.lean is deleted: no longer true).
  §2 com_vel: `comvel_branch_closed`: for every chain (any length, any joint-type sequence per body) the thread's write list is
     `chainWs`: body k gets cvel = cvel(parent) + Σ cdof·qvel over its dofs in order (`chainVel_succ`), cdof_dot per joint as in
     mj_comVel (`dotWrites`); `comvel_joint`: one joint step.
  §3 RNE: exact writes of `_cacc_world`, `_cfrc`, `_cfrc_backward`, `_qfrc_bias`; over ℝ: `cfrc_at_rest` (cvel = 0 ⇒ cfrc = I·cacc,
     linear in cacc: `inert_vec_add`, `inert_vec_smul`, zero for cacc = 0), `cacc_branch_at_rest` (qvel = 0 ⇒ every body of the chain
     gets the root's acceleration (0, −g)) ⇒ at rest qfrc_bias is linear in gravity and 0 for g = 0; `qfrc_bias_zero`.
  §4 fwd_acceleration: `qfrc_smooth_write` = passive − bias + actuator + applied; 0 for a sleeping tree.
  §5 CRB: `M_row_closed`: thread i writes armature on the diagonal address, then for k = 0,1,…,n−1 the entry (i, anc_k i) at address
     diag − k with value cdof_{anc_k}·(crb_{body i}·cdof_i) (+ armature exactly once, at k = 0; + the pre-launch content, which
     `crb` zeroes, for k > 0), n = min(length of the ancestor chain, rownnz i); `M_writes_in_row`: no write leaves row i (false before
     commit 8d35602 "fix: _M and _tendon_armature walked past the row of a simple dof", found by another property's check);
     `inert_form_symm` (why the lower triangle suffices); `crb_accumulate_write`.

  ASSUMED: Spec/Passive.lean is a faithful transcription of MuJoCo; the translator (validated by interception on every run).
  Tree hypotheses are explicit in the statements: `comvel_branch_closed` needs the chain to be linked (parent of the (k+1)-st body
  is the k-th) and joint counts ≥ 0; `M_row_closed` takes the number n of loop iterations (ancestors ≥ 0, n ≤ rownnz i, chain or row
  exhausted after n) with n ≤ fuel.

  MISSING (C02_partial): `support._apply_ft` (xfrc_applied, fluid and flex wrenches → joint space), the flex passive kernels
  (`_flex_elasticity`, `_flex_bending`, `_flex_passive_interp`, `_flex_passive_bend_interp`), `_tendon_dot`, and the LDL
  factor/solve kernels (`_solve_LD_sparse_fused`, tile Cholesky) are not in `Gen` (nested tile kernels / not on the allow-list), so
  qacc_smooth = M⁻¹ qfrc_smooth, the xfrc term and flex forces are covered by the differential oracle only.  The composition of
  launches (level-by-level `_crb_accumulate` / `_cfrc_backward`, which is the commutative-semigroup lemma of Lemmas/C01Tree.lean)
  and float32 round-off bounds are not formalised.  Deviations from MuJoCo C that are still present are outside the modelled kernels (flex edge
  stiffness/damping ignored; gravcomp when no body has gravcomp > 0) and are reported by harness/props/c02.py.
-/
import MjwVerif.Lemmas.C02

set_option linter.unusedVariables false
set_option linter.unusedSimpArgs false
set_option linter.unusedSectionVars false

namespace Mjw.Props.C02
open Mjw Mjw.Gen.Passive Mjw.Gen.Smooth Mjw.Gen.Forward Mjw.Gen.Util_misc Mjw.Gen.Support Mjw.Gen.Math Mjw.Spec.Passive Mjw.Lemmas.C02

/-! ## 1. passive forces -/
section passive
variable {K : Type} [Scalar K]

/-- hinge and slide joints -/
theorem spring_damper_hinge_slide (flags : Int) (qs : Int → Int → K) (jt jq jd : Int → Int) (ks : Int → Int → K) (kp : Int → Int → V2 K)
    (bd : Int → Int → K) (bp : Int → Int → V2 K) (qpos qvel so do_ : Int → Int → K) (s1 s2 s3 s4 s5 w j : Int)
    (h0 : jt j ≠ 0) (h1 : jt j ≠ 1) :
    _spring_damper_dof_passive flags qs jt jq jd ks kp bd bp qpos qvel so do_ s1 s2 s3 s4 s5 w j
      = let S := present (ks (Int.tmod w s1) j) (kp (Int.tmod w s2) j) (decide (Mjw.iand flags 32 ≠ 0))
        let D := present (bd (Int.tmod w s3) (jd j)) (bp (Int.tmod w s4) (jd j)) (decide (Mjw.iand flags 64 ≠ 0))
        let fs := W "qfrc_spring_out" w (jd j) (spring1 (ks (Int.tmod w s1) j) (kp (Int.tmod w s2) j) (qpos w (jq j) - qs (Int.tmod w s5) (jq j)))
        let fd := W "qfrc_damper_out" w (jd j) (damper1 (bd (Int.tmod w s3) (jd j)) (bp (Int.tmod w s4) (jd j)) (qvel w (jd j)))
        let zs := W "qfrc_spring_out" w (jd j) (Scalar.lit 0 0 : K)
        let zd := W "qfrc_damper_out" w (jd j) (Scalar.lit 0 0 : K)
        if S then (if D then [fs, fd] else [zd, fs]) else (if D then [zs, fd] else [zs, zd]) := by
  unfold _spring_damper_dof_passive
  have eS : (((Scalar.bne (ks (Int.tmod w s1) j) (Scalar.lit 0 0 : K)) || (Scalar.bne (kp (Int.tmod w s2) j).c0 (Scalar.lit 0 0 : K)) || (Scalar.bne (kp (Int.tmod w s2) j).c1 (Scalar.lit 0 0 : K))) && (!(decide ((Mjw.iand flags (32 : Int)) ≠ 0)))) = present (ks (Int.tmod w s1) j) (kp (Int.tmod w s2) j) (decide (Mjw.iand flags 32 ≠ 0)) := rfl
  have eD : (((Scalar.bne (bd (Int.tmod w s3) (jd j)) (Scalar.lit 0 0 : K)) || (Scalar.bne (bp (Int.tmod w s4) (jd j)).c0 (Scalar.lit 0 0 : K)) || (Scalar.bne (bp (Int.tmod w s4) (jd j)).c1 (Scalar.lit 0 0 : K))) && (!(decide ((Mjw.iand flags (64 : Int)) ≠ 0)))) = present (bd (Int.tmod w s3) (jd j)) (bp (Int.tmod w s4) (jd j)) (decide (Mjw.iand flags 64 ≠ 0)) := rfl
  simp only [eS, eD, spring1, damper1, poly_force_even, poly_force_odd, W]
  rcases Bool.eq_false_or_eq_true (present (ks (Int.tmod w s1) j) (kp (Int.tmod w s2) j) (decide (Mjw.iand flags 32 ≠ 0))) with hS | hS <;>
  rcases Bool.eq_false_or_eq_true (present (bd (Int.tmod w s3) (jd j)) (bp (Int.tmod w s4) (jd j)) (decide (Mjw.iand flags 64 ≠ 0))) with hD | hD <;>
  (simp only [hS, hD]; simp [h0, h1])

/-- ball joints -/
theorem spring_damper_ball (flags : Int) (qs : Int → Int → K) (jt jq jd : Int → Int) (ks : Int → Int → K) (kp : Int → Int → V2 K)
    (bd : Int → Int → K) (bp : Int → Int → V2 K) (qpos qvel so do_ : Int → Int → K) (s1 s2 s3 s4 s5 w j : Int)
    (h1 : jt j = 1) :
    _spring_damper_dof_passive flags qs jt jq jd ks kp bd bp qpos qvel so do_ s1 s2 s3 s4 s5 w j
      = let S := present (ks (Int.tmod w s1) j) (kp (Int.tmod w s2) j) (decide (Mjw.iand flags 32 ≠ 0))
        let D := present (bd (Int.tmod w s3) (jd j)) (bp (Int.tmod w s4) (jd j)) (decide (Mjw.iand flags 64 ≠ 0))
        let fs := W3 "qfrc_spring_out" w (jd j) (spring3 (ks (Int.tmod w s1) j) (kp (Int.tmod w s2) j)
                    (quat_sub (Q.normalize (q4 (qpos w) (jq j))) (q4 (qs (Int.tmod w s5)) (jq j))))
        let fd := D3 (bd (Int.tmod w s3) (jd j)) (bp (Int.tmod w s4) (jd j)) qvel w (jd j)
        if S then (if D then fs ++ fd else Z3 "qfrc_damper_out" w (jd j) ++ fs)
        else (if D then Z3 "qfrc_spring_out" w (jd j) ++ fd else Z3 "qfrc_spring_out" w (jd j) ++ Z3 "qfrc_damper_out" w (jd j)) := by
  unfold _spring_damper_dof_passive
  have eS : (((Scalar.bne (ks (Int.tmod w s1) j) (Scalar.lit 0 0 : K)) || (Scalar.bne (kp (Int.tmod w s2) j).c0 (Scalar.lit 0 0 : K)) || (Scalar.bne (kp (Int.tmod w s2) j).c1 (Scalar.lit 0 0 : K))) && (!(decide ((Mjw.iand flags (32 : Int)) ≠ 0)))) = present (ks (Int.tmod w s1) j) (kp (Int.tmod w s2) j) (decide (Mjw.iand flags 32 ≠ 0)) := rfl
  have eD : (((Scalar.bne (bd (Int.tmod w s3) (jd j)) (Scalar.lit 0 0 : K)) || (Scalar.bne (bp (Int.tmod w s4) (jd j)).c0 (Scalar.lit 0 0 : K)) || (Scalar.bne (bp (Int.tmod w s4) (jd j)).c1 (Scalar.lit 0 0 : K))) && (!(decide ((Mjw.iand flags (64 : Int)) ≠ 0)))) = present (bd (Int.tmod w s3) (jd j)) (bp (Int.tmod w s4) (jd j)) (decide (Mjw.iand flags 64 ≠ 0)) := rfl
  have h0 : jt j ≠ 0 := by omega
  simp only [eS, eD, spring3, damper1, poly_force_even, poly_force_odd, W, W3, Z3, D3, q4]
  rcases Bool.eq_false_or_eq_true (present (ks (Int.tmod w s1) j) (kp (Int.tmod w s2) j) (decide (Mjw.iand flags 32 ≠ 0))) with hS | hS <;>
  rcases Bool.eq_false_or_eq_true (present (bd (Int.tmod w s3) (jd j)) (bp (Int.tmod w s4) (jd j)) (decide (Mjw.iand flags 64 ≠ 0))) with hD | hD <;>
  (simp only [hS, hD]; simp [h0, h1])


/-- free joints -/
theorem spring_damper_free (flags : Int) (qs : Int → Int → K) (jt jq jd : Int → Int) (ks : Int → Int → K) (kp : Int → Int → V2 K)
    (bd : Int → Int → K) (bp : Int → Int → V2 K) (qpos qvel so do_ : Int → Int → K) (s1 s2 s3 s4 s5 w j : Int)
    (h0 : jt j = 0) :
    _spring_damper_dof_passive flags qs jt jq jd ks kp bd bp qpos qvel so do_ s1 s2 s3 s4 s5 w j
      = let S := present (ks (Int.tmod w s1) j) (kp (Int.tmod w s2) j) (decide (Mjw.iand flags 32 ≠ 0))
        let D := present (bd (Int.tmod w s3) (jd j)) (bp (Int.tmod w s4) (jd j)) (decide (Mjw.iand flags 64 ≠ 0))
        let dif : V3 K := ⟨qpos w (jq j + 0) - qs (Int.tmod w s5) (jq j + 0), qpos w (jq j + 1) - qs (Int.tmod w s5) (jq j + 1), qpos w (jq j + 2) - qs (Int.tmod w s5) (jq j + 2)⟩
        let fs := W3 "qfrc_spring_out" w (jd j) (spring3 (ks (Int.tmod w s1) j) (kp (Int.tmod w s2) j) dif)
                  ++ W3 "qfrc_spring_out" w (jd j + 3) (spring3 (ks (Int.tmod w s1) j) (kp (Int.tmod w s2) j)
                    (quat_sub (Q.normalize (q4 (qpos w) (jq j + 3))) (q4 (qs (Int.tmod w s5)) (jq j + 3))))
        let fd := D3 (bd (Int.tmod w s3) (jd j)) (bp (Int.tmod w s4) (jd j)) qvel w (jd j) ++ D3 (bd (Int.tmod w s3) (jd j)) (bp (Int.tmod w s4) (jd j)) qvel w (jd j + 3)
        let zs : List (Write K) := Z3 "qfrc_spring_out" w (jd j) ++ Z3 "qfrc_spring_out" w (jd j + 3)
        let zd : List (Write K) := Z3 "qfrc_damper_out" w (jd j) ++ Z3 "qfrc_damper_out" w (jd j + 3)
        if S then (if D then fs ++ fd else zd ++ fs) else (if D then zs ++ fd else zs ++ zd) := by
  unfold _spring_damper_dof_passive
  have eS : (((Scalar.bne (ks (Int.tmod w s1) j) (Scalar.lit 0 0 : K)) || (Scalar.bne (kp (Int.tmod w s2) j).c0 (Scalar.lit 0 0 : K)) || (Scalar.bne (kp (Int.tmod w s2) j).c1 (Scalar.lit 0 0 : K))) && (!(decide ((Mjw.iand flags (32 : Int)) ≠ 0)))) = present (ks (Int.tmod w s1) j) (kp (Int.tmod w s2) j) (decide (Mjw.iand flags 32 ≠ 0)) := rfl
  have eD : (((Scalar.bne (bd (Int.tmod w s3) (jd j)) (Scalar.lit 0 0 : K)) || (Scalar.bne (bp (Int.tmod w s4) (jd j)).c0 (Scalar.lit 0 0 : K)) || (Scalar.bne (bp (Int.tmod w s4) (jd j)).c1 (Scalar.lit 0 0 : K))) && (!(decide ((Mjw.iand flags (64 : Int)) ≠ 0)))) = present (bd (Int.tmod w s3) (jd j)) (bp (Int.tmod w s4) (jd j)) (decide (Mjw.iand flags 64 ≠ 0)) := rfl
  simp only [eS, eD, spring3, damper1, poly_force_even, poly_force_odd, W, W3, Z3, D3, q4]
  rcases Bool.eq_false_or_eq_true (present (ks (Int.tmod w s1) j) (kp (Int.tmod w s2) j) (decide (Mjw.iand flags 32 ≠ 0))) with hS | hS <;>
  rcases Bool.eq_false_or_eq_true (present (bd (Int.tmod w s3) (jd j)) (bp (Int.tmod w s4) (jd j)) (decide (Mjw.iand flags 64 ≠ 0))) with hD | hD <;>
  (simp only [hS, hD]; simp [h0, add_assoc])

theorem tendon_spring_damper_writes (rnz radr cind : Int → Int) (ks : Int → Int → K) (kp : Int → Int → V2 K) (bd : Int → Int → K) (bp : Int → Int → V2 K)
    (ls : Int → Int → V2 K) (J len vel : Int → Int → K) (dS dD : Bool) (so do_ : Int → Int → K) (s1 s2 s3 s4 s5 w t i : Int) :
    _spring_damper_tendon_passive rnz radr cind ks kp bd bp ls J len vel dS dD so do_ s1 s2 s3 s4 s5 w t i
      = let S := present (ks (Int.tmod w s1) t) (kp (Int.tmod w s2) t) dS
        let D := present (bd (Int.tmod w s3) t) (bp (Int.tmod w s4) t) dD
        if ((!S) && (!D)) || decide (i ≥ rnz t) then [] else
          (if S then [Write.mk "qfrc_spring_out" [w, cind (radr t + i)] (WVal.f (J w (radr t + i) *
              spring1 (ks (Int.tmod w s1) t) (kp (Int.tmod w s2) t) (deadband (len w t) (ls (Int.tmod w s5) t).c0 (ls (Int.tmod w s5) t).c1))) WKind.aadd] else [])
          ++ (if D then [Write.mk "qfrc_damper_out" [w, cind (radr t + i)] (WVal.f (J w (radr t + i) *
              damper1 (bd (Int.tmod w s3) t) (bp (Int.tmod w s4) t) (vel w t))) WKind.aadd] else []) := by
  unfold _spring_damper_tendon_passive
  have eS : (((Scalar.bne (ks (Int.tmod w s1) t) (Scalar.lit 0 0 : K)) || (Scalar.bne (kp (Int.tmod w s2) t).c0 (Scalar.lit 0 0 : K)) || (Scalar.bne (kp (Int.tmod w s2) t).c1 (Scalar.lit 0 0 : K))) && (!dS)) = present (ks (Int.tmod w s1) t) (kp (Int.tmod w s2) t) dS := rfl
  have eD : (((Scalar.bne (bd (Int.tmod w s3) t) (Scalar.lit 0 0 : K)) || (Scalar.bne (bp (Int.tmod w s4) t).c0 (Scalar.lit 0 0 : K)) || (Scalar.bne (bp (Int.tmod w s4) t).c1 (Scalar.lit 0 0 : K))) && (!dD)) = present (bd (Int.tmod w s3) t) (bp (Int.tmod w s4) t) dD := rfl
  simp only [eS, eD, spring1, damper1, deadband, poly_force_even, poly_force_odd]
  rcases Bool.eq_false_or_eq_true (present (ks (Int.tmod w s1) t) (kp (Int.tmod w s2) t) dS) with hS | hS <;>
  rcases Bool.eq_false_or_eq_true (present (bd (Int.tmod w s3) t) (bp (Int.tmod w s4) t) dD) with hD | hD <;>
  (simp only [hS, hD]; by_cases hi : i ≥ rnz t <;> simp [hi])


theorem jac_dof_jacp (pid rid dbody : Int → Int) (anc : Int → Int → Int) (com : Int → Int → V3 K) (cdof : Int → Int → V6 K)
    (point : V3 K) (b d w : Int) :
    (jac_dof pid rid dbody anc com cdof point b d w).1
      = if anc b d = 0 then V3.fill (Scalar.lit 0 0 : K) else jacpCol (cdof w d) point (com w (rid b)) := by
  unfold jac_dof jacpCol
  by_cases h : anc b d = 0 <;> simp [h]


theorem gravity_force_writes (g : Int → V3 K) (pid rid : Int → Int) (mass gc : Int → Int → K) (dbody : Int → Int) (anc : Int → Int → Int)
    (xipos com : Int → Int → V3 K) (cdof : Int → Int → V6 K) (out : Int → Int → K) (s1 s2 s3 w b d : Int) :
    _gravity_force g pid rid mass gc dbody anc xipos com cdof out s1 s2 s3 w b d
      = if Scalar.bne (gc (Int.tmod w s1) (b + 1)) (Scalar.lit 0 0) then
          [Write.mk "qfrc_gravcomp_out" [w, d] (WVal.f (V3.dot (jac_dof pid rid dbody anc com cdof (xipos w (b + 1)) (b + 1) d w).1
              (gravcompForce (g (Int.tmod w s2)) (mass (Int.tmod w s3) (b + 1)) (gc (Int.tmod w s1) (b + 1))))) WKind.aadd]
        else [] := by
  unfold _gravity_force gravcompForce
  rcases Bool.eq_false_or_eq_true (Scalar.bne (gc (Int.tmod w s1) (b + 1)) (Scalar.lit 0 0)) with h | h <;> simp [h]


theorem qfrc_passive_total (agc djnt : Int → Int) (sp dm gcf fl ad out : Int → Int → K) (grav fluid adh : Bool) (w d : Int) :
    _qfrc_passive_kernel__kernel agc djnt sp dm gcf fl ad out grav fluid adh w d
      = [Write.mk "qfrc_passive_out" [w, d] (WVal.f (
          let p0 := sp w d + dm w d
          let p1 := if grav && decide (agc (djnt d) = 0) then p0 + gcf w d else p0
          let p2 := if fluid then p1 + fl w d else p1
          if adh then p2 + ad w d else p2)) WKind.set] := by
  unfold _qfrc_passive_kernel__kernel
  cases grav <;> cases fluid <;> cases adh <;> by_cases h : agc (djnt d) = 0 <;> simp [h]

end passive


section bits
variable {K : Type} [Scalar K]

/-- SPRING disable bit (32) set ⇒ every `qfrc_spring` write of `_spring_damper_dof_passive` is 0, for every joint type -/
theorem spring_bit_zeroes_spring (flags : Int) (qs : Int → Int → K) (jt jq jd : Int → Int) (ks : Int → Int → K) (kp : Int → Int → V2 K)
    (bd : Int → Int → K) (bp : Int → Int → V2 K) (qpos qvel so do_ : Int → Int → K) (s1 s2 s3 s4 s5 w j : Int)
    (h : Mjw.iand flags 32 ≠ 0) :
    ∀ x ∈ _spring_damper_dof_passive flags qs jt jq jd ks kp bd bp qpos qvel so do_ s1 s2 s3 s4 s5 w j,
      x.arr = "qfrc_spring_out" → x.val = WVal.f (Scalar.lit 0 0 : K) := by
  have hd : decide (Mjw.iand flags 32 ≠ 0) = true := by simpa using h
  by_cases h0 : jt j = 0
  · rw [spring_damper_free _ _ _ _ _ _ _ _ _ _ _ _ _ _ _ _ _ _ _ _ h0]
    simp only [hd, present_disabled, Bool.false_eq_true, if_false]
    intro x hx
    split at hx <;> simp [Z3, D3, W3, W] at hx <;> rcases hx with hx | hx | hx | hx | hx | hx | hx | hx | hx | hx | hx | hx <;> subst hx <;> simp
  · by_cases h1 : jt j = 1
    · rw [spring_damper_ball _ _ _ _ _ _ _ _ _ _ _ _ _ _ _ _ _ _ _ _ h1]
      simp only [hd, present_disabled, Bool.false_eq_true, if_false]
      intro x hx
      split at hx <;> simp [Z3, D3, W3, W] at hx <;> rcases hx with hx | hx | hx | hx | hx | hx <;> subst hx <;> simp
    · rw [spring_damper_hinge_slide _ _ _ _ _ _ _ _ _ _ _ _ _ _ _ _ _ _ _ _ h0 h1]
      simp only [hd, present_disabled, Bool.false_eq_true, if_false]
      intro x hx
      split at hx <;> simp [W] at hx <;> rcases hx with hx | hx <;> subst hx <;> simp

/-- DAMPER disable bit (64) set ⇒ every `qfrc_damper` write is 0 -/
theorem damper_bit_zeroes_damper (flags : Int) (qs : Int → Int → K) (jt jq jd : Int → Int) (ks : Int → Int → K) (kp : Int → Int → V2 K)
    (bd : Int → Int → K) (bp : Int → Int → V2 K) (qpos qvel so do_ : Int → Int → K) (s1 s2 s3 s4 s5 w j : Int)
    (h : Mjw.iand flags 64 ≠ 0) :
    ∀ x ∈ _spring_damper_dof_passive flags qs jt jq jd ks kp bd bp qpos qvel so do_ s1 s2 s3 s4 s5 w j,
      x.arr = "qfrc_damper_out" → x.val = WVal.f (Scalar.lit 0 0 : K) := by
  have hd : decide (Mjw.iand flags 64 ≠ 0) = true := by simpa using h
  by_cases h0 : jt j = 0
  · rw [spring_damper_free _ _ _ _ _ _ _ _ _ _ _ _ _ _ _ _ _ _ _ _ h0]
    simp only [hd, present_disabled, Bool.false_eq_true, if_false]
    intro x hx
    split at hx <;> simp [Z3, D3, W3, W] at hx <;> rcases hx with hx | hx | hx | hx | hx | hx | hx | hx | hx | hx | hx | hx <;> subst hx <;> simp
  · by_cases h1 : jt j = 1
    · rw [spring_damper_ball _ _ _ _ _ _ _ _ _ _ _ _ _ _ _ _ _ _ _ _ h1]
      simp only [hd, present_disabled, Bool.false_eq_true, if_false]
      intro x hx
      split at hx <;> simp [Z3, D3, W3, W] at hx <;> rcases hx with hx | hx | hx | hx | hx | hx <;> subst hx <;> simp
    · rw [spring_damper_hinge_slide _ _ _ _ _ _ _ _ _ _ _ _ _ _ _ _ _ _ _ _ h0 h1]
      simp only [hd, present_disabled, Bool.false_eq_true, if_false]
      intro x hx
      split at hx <;> simp [W] at hx <;> rcases hx with hx | hx <;> subst hx <;> simp
end bits

/-! ### laws over ℝ and the fluid models -/


/-- a damper with non-negative coefficients never injects power: v·F(v) ≤ 0 (F = the value `_spring_damper_dof_passive` and
    `_spring_damper_tendon_passive` write, `damper1`) -/
theorem damper_power_nonpos (b : ℝ) (p : V2 ℝ) (v : ℝ) (hb : 0 ≤ b) (h0 : 0 ≤ p.c0) (h1 : 0 ≤ p.c1) :
    v * ((-v) * _poly_force b p v 1) ≤ 0 ∧ (-v) * _poly_force b p v 1 = damper1 b p v := by
  rw [poly_force_odd]
  refine ⟨?_, rfl⟩
  simp only [coef, hadd, hmul, hneg, sabs]
  have ha := abs_nonneg v
  have hk : 0 ≤ b + p.c0 * |v| + p.c1 * |v| * |v| := by positivity
  nlinarith [mul_nonneg hk (mul_self_nonneg v)]

example : ∃ (b : ℝ) (p : V2 ℝ), 0 ≤ b ∧ 0 ≤ p.c0 ∧ 0 ≤ p.c1 := ⟨1, ⟨0, 0⟩, by norm_num, le_refl _, le_refl _⟩

/-- the scalar spring force vanishes at the reference (x = 0), whatever the coefficients -/
theorem spring1_zero_at_ref (k : ℝ) (p : V2 ℝ) : (-(0 : ℝ)) * _poly_force k p 0 0 = 0 ∧ spring1 k p (0 : ℝ) = 0 := by
  constructor <;> simp [spring1]

/-- `quat_sub q q = 0` for every quaternion (no unit-norm hypothesis needed: the vector part of conj(q)·q is 0) -/
theorem quat_sub_self (q : Q ℝ) : quat_sub q q = ⟨0, 0, 0⟩ := by
  have hax : (⟨q.c0 * q.c1 + -q.c1 * q.c0 + -q.c2 * q.c3 - -q.c3 * q.c2, q.c0 * q.c2 - -q.c1 * q.c3 + -q.c2 * q.c0 + -q.c3 * q.c1,
      q.c0 * q.c3 + -q.c1 * q.c2 - -q.c2 * q.c1 + -q.c3 * q.c0⟩ : V3 ℝ) = ⟨0, 0, 0⟩ := by
    congr 1 <;> ring
  simp only [quat_sub, mul_quat, quat_to_vel, hadd, hsub, hmul, hneg, hax]
  simp [V3.length, V3.dot, V3.fill]

/-- the ball / free rotational spring force vanishes when the joint quaternion equals the (unit) reference quaternion -/
theorem ball_spring_zero_at_ref (k : ℝ) (p : V2 ℝ) (q : Q ℝ) (h : Q.dot q q = 1) :
    spring3 k p (quat_sub (Q.normalize q) q) = ⟨0, 0, 0⟩ := by
  rw [normalize_unit q h, quat_sub_self]
  simp [spring3]

example : Q.dot (⟨1, 0, 0, 0⟩ : Q ℝ) ⟨1, 0, 0, 0⟩ = 1 := by simp [Q.dot]

/-- inside the dead band `[lower, upper]` the tendon spring elongation, hence the tendon spring force, is 0 -/
theorem deadband_inside (len lo hi : ℝ) (k : ℝ) (p : V2 ℝ) (h1 : lo ≤ len) (h2 : len ≤ hi) :
    deadband len lo hi = 0 ∧ (-(deadband len lo hi)) * _poly_force k p (deadband len lo hi) 0 = 0 := by
  have e : deadband len lo hi = 0 := by
    simp only [deadband, sgt, slt, not_lt.mpr h2, not_lt.mpr h1, if_false]
    simp
  rw [e]; simp

example : (0 : ℝ) ≤ 1 ∧ (1 : ℝ) ≤ 2 := by norm_num

set_option maxHeartbeats 1000000 in
theorem fluid_zero_without_medium (wind : Int → V3 ℝ) (dens visc : Int → ℝ) (rid gnum gadr : Int → Int) (mass : Int → Int → ℝ)
    (inertia : Int → Int → V3 ℝ) (gtype : Int → Int) (gsize : Int → Int → V3 ℝ) (gfluid : Int → Int → ℝ) (ell : Int → Bool)
    (xipos : Int → Int → V3 ℝ) (ximat : Int → Int → M33 ℝ) (gpos : Int → Int → V3 ℝ) (gmat : Int → Int → M33 ℝ)
    (com : Int → Int → V3 ℝ) (cvel out : Int → Int → V6 ℝ) (s1 s2 s3 s4 s5 s6 w b : Int)
    (hd : dens (Int.tmod w s3) = 0) (hv : visc (Int.tmod w s4) = 0) :
    _fluid_force wind dens visc rid gnum gadr mass inertia gtype gsize gfluid ell xipos ximat gpos gmat com cvel out s1 s2 s3 s4 s5 s6 w b
      = [Write.mk "fluid_applied_out" [w, b] (WVal.v [0, 0, 0, 0, 0, 0]) WKind.set] := by
  unfold _fluid_force
  by_cases hb : b = 0
  · simp [hb, V6.ofV3, V3.fill, V6.toList]
  · simp only [hb, decide_false, Bool.false_eq_true, if_false]
    rcases Bool.eq_false_or_eq_true (Scalar.lt (mass (Int.tmod w s1) b) (Scalar.lit 1 (-15) : ℝ)) with hm | hm
    · simp only [hm, if_true]; simp [V6.ofV3, V3.fill, V6.toList]
    · simp only [hm, Bool.false_eq_true, if_false]
      rcases Bool.eq_false_or_eq_true (ell b) with he | he
      · simp only [he, if_true]
        generalize hF : Mjw.forRange (0 : Int) (gnum b) _ _ = r
        have key : r = ((⟨0, 0, 0⟩ : V3 ℝ), (⟨0, 0, 0⟩ : V3 ℝ)) := by
          rw [← hF]
          apply forRange_inv (fun st => st = ((⟨0, 0, 0⟩ : V3 ℝ), (⟨0, 0, 0⟩ : V3 ℝ)))
          · simp [V3.fill]
          · intro i st hst
            subst hst
            simp only [hd, hv]
            split
            · rfl
            · simp [V3.fill, V3.add, V3.sub, V3.smul, V3.muls, V3.cross, M33.mulVec, V3.length, V3.dot]
        subst key
        simp [V6.ofV3, V6.toList]
      · simp only [he, Bool.false_eq_true, if_false, hd, hv]
        simp [V3.fill, V6.ofV3, V6.toList, M33.mulVec]

set_option maxHeartbeats 1000000 in
/-- **ellipsoid fluid model: every geom's wrench acts at the geom centre** (MuJoCo: `mj_applyFT(…, geom_xpos, body, qfrc_fluid)` per geom).
    For a body in ellipsoid mode the kernel writes (Σ F_g, Σ [T_g + (geom_xpos_g − xipos) × F_g]) over the geoms with interaction
    coefficient > 0, where (F_g, T_g) = `geomWrenchG` is the geom's world-frame force and torque about its own centre and
    `Spec.Passive.wrenchAt` is `mj_applyFT` seen from `xipos` (the point `support._apply_ft` applies the total at).  Generic `K`.
    (Before repository commit d9b6385 the moment arm was missing; this check found it.) -/
theorem fluid_ellipsoid_wrench_at_geom {K : Type} [Scalar K] (wind : Int → V3 K) (dens visc : Int → K) (rid gnum gadr : Int → Int) (mass : Int → Int → K)
    (inertia : Int → Int → V3 K) (gtype : Int → Int) (gsize : Int → Int → V3 K) (gfluid : Int → Int → K) (ell : Int → Bool)
    (xipos : Int → Int → V3 K) (ximat : Int → Int → M33 K) (gpos : Int → Int → V3 K) (gmat : Int → Int → M33 K)
    (com : Int → Int → V3 K) (cvel out : Int → Int → V6 K) (s1 s2 s3 s4 s5 s6 w b : Int)
    (hb : b ≠ 0) (hm : Scalar.lt (mass (Int.tmod w s1) b) (Scalar.lit 1 (-15) : K) = false) (he : ell b = true) :
    _fluid_force wind dens visc rid gnum gadr mass inertia gtype gsize gfluid ell xipos ximat gpos gmat com cvel out s1 s2 s3 s4 s5 s6 w b
      = let ang := V6.top (cvel w b)
        let lin_com := V3.sub (V6.bottom (cvel w b)) (V3.cross (V3.sub (xipos w b) (com w (rid b))) ang)
        let FT := fun (g : Int) => geomWrenchG gtype gsize gfluid gpos gmat s5 w (wind (Int.tmod w s2)) (dens (Int.tmod w s3)) (visc (Int.tmod w s4))
                    (xipos w b) lin_com ang g
        let tot := Mjw.forRange (0 : Int) (gnum b) ((V3.fill (Scalar.lit 0 0 : K)), (V3.fill (Scalar.lit 0 0 : K)))
          (fun (i : Int) (st : V3 K × V3 K) =>
            if Scalar.le (gfluid (gadr b + i) 0) (Scalar.lit 0 0 : K) then st
            else (V3.add st.1 (wrenchAt (xipos w b) (gpos w (gadr b + i)) (FT (gadr b + i)).1 (FT (gadr b + i)).2).2, V3.add st.2 (FT (gadr b + i)).1))
        [Write.mk "fluid_applied_out" [w, b] (WVal.v (V6.toList (V6.ofV3 tot.2 tot.1))) WKind.set] := by
  unfold _fluid_force
  simp only [hb, decide_false, Bool.false_eq_true, if_false, hm, he, if_true]
  rfl

noncomputable def exCvel : Int → Int → V6 ℝ := fun _ _ => ⟨0, 0, 0, 0, 0, 1⟩
noncomputable def exGfluid : Int → Int → ℝ := fun _ i => if i = 0 ∨ i = 1 then 1 else 0
noncomputable def exId : M33 ℝ := ⟨1, 0, 0, 0, 1, 0, 0, 0, 1⟩

set_option maxHeartbeats 1000000 in
/-- regression of the repaired defect, on the ℝ model: a unit-sphere ellipsoid-model geom (interaction and blunt-drag coefficient 1)
    centred at (1/2,0,0) on a body whose inertial frame is at the origin, density 1, translating with unit speed along +z: the
    written wrench is force (0,0,−π) and torque (1/2,0,0) × (0,0,−π) = (0, π/2, 0)  (the old code wrote torque 0). -/
theorem fluid_ellipsoid_offset_example :
    _fluid_force (fun _ => ⟨0, 0, 0⟩) (fun _ => 1) (fun _ => 0) (fun _ => 1) (fun _ => 1) (fun _ => 0) (fun _ _ => 1)
      (fun _ _ => ⟨1, 1, 1⟩) (fun _ => 2) (fun _ _ => ⟨1, 1, 1⟩) exGfluid (fun _ => true) (fun _ _ => ⟨0, 0, 0⟩) (fun _ _ => exId)
      (fun _ _ => ⟨1 / 2, 0, 0⟩) (fun _ _ => exId) (fun _ _ => ⟨0, 0, 0⟩) exCvel (fun _ _ => ⟨0, 0, 0, 0, 0, 0⟩) 1 1 1 1 1 1 0 1
      = [Write.mk "fluid_applied_out" [0, 1] (WVal.v [0, 0, -Real.pi, 0, Real.pi / 2, 0]) WKind.set] := by
  unfold _fluid_force
  have h1 : max (((10:ℝ) ^ 15)⁻¹) 1 = 1 := max_eq_right (by norm_num)
  have h2 : ¬ (1 : ℝ) < ((10:ℝ) ^ 15)⁻¹ := by norm_num
  simp [h1, h2, Mjw.forRange, List.range_succ, exGfluid, exCvel, exId, geom_semiaxes, ellipsoid_max_moment, _pow2, _pow4, V3.fill, V3.add, V3.sub, V3.smul, V3.muls, V3.cross, M33.mulVec, M33.transpose,
    V3.length, V3.dot, V6.top, V6.bottom, V6.ofV3, V6.toList, V3.get]
  have h3 : ¬ (1 : ℝ) ≤ 0 := by norm_num
  simp only [h3, if_false]
  norm_num
  ring

-- hypotheses of the joint-type theorems / fluid theorems are satisfiable
example : ∃ jt : Int → Int, jt 0 ≠ 0 ∧ jt 0 ≠ 1 := ⟨fun _ => 3, by norm_num, by norm_num⟩
example : ∃ jt : Int → Int, jt 0 = 1 := ⟨fun _ => 1, rfl⟩
example : ∃ jt : Int → Int, jt 0 = 0 := ⟨fun _ => 0, rfl⟩
example : ∃ flags : Int, Mjw.iand flags 32 ≠ 0 ∧ Mjw.iand flags 64 ≠ 0 := ⟨96, by decide, by decide⟩
example : ∃ (dens visc : Int → ℝ), dens (Int.tmod 0 1) = 0 ∧ visc (Int.tmod 0 1) = 0 := ⟨fun _ => 0, fun _ => 0, rfl, rfl⟩
example : ∃ (mass : Int → Int → ℝ) (ell : Int → Bool), (1 : Int) ≠ 0 ∧ Scalar.lt (mass (Int.tmod 0 1) 1) (Scalar.lit 1 (-15) : ℝ) = false ∧ ell 1 = true :=
  ⟨fun _ _ => 1, fun _ => true, by norm_num, by rw [Bool.eq_false_iff, ne_eq, slt]; norm_num, rfl⟩
example : ∃ (qvel : Int → Int → ℝ), ∀ d, qvel 0 d = 0 := ⟨fun _ _ => 0, fun _ => rfl⟩

/-! ## 2. com_vel -/
section comvel
variable {K : Type} [Scalar K]

/-- **`_comvel_branch`, whole thread**: for a linked chain of any length, with any sequence of joint types on every body, the
    write list is `chainWs`: for k = 0, 1, …: the `cdof_dot` writes of body k (`dotsAll`/`dotWrites` = mj_comVel's rule) followed by
    `cvel[body k] := chainVel (k+1)`. -/
theorem comvel_branch_closed (pid jntnum jntadr dofadr jt branches bstart : Int → Int) (qvel : Int → Int → K)
    (cdof cvel_out cdof_dot_out : Int → Int → V6 K) (w br : Int)
    (hn : ∀ k < (bstart (br + 1) - bstart br).toNat, 0 ≤ jntnum (branches (bstart br + (k : Int))))
    (hl : ∀ k, k + 1 < (bstart (br + 1) - bstart br).toNat → pid (branches (bstart br + ((k + 1 : Nat) : Int))) = branches (bstart br + (k : Int))) :
    _comvel_branch pid jntnum jntadr dofadr jt branches bstart qvel cdof cvel_out cdof_dot_out w br
      = chainWs pid jntnum jntadr dofadr jt branches qvel cdof cvel_out w (bstart br) (bstart (br + 1) - bstart br).toNat := by
  rw [comvel_unfold, forRange_toNat, comvel_chain _ _ _ _ _ _ _ _ _ _ _ _ hn hl]

-- hypotheses of `comvel_branch_closed` are satisfiable: the chain 1 → 2 → 3 with parent b ↦ b − 1
example : ∃ (pid jntnum branches bstart : Int → Int) (br : Int),
    (∀ k < (bstart (br + 1) - bstart br).toNat, 0 ≤ jntnum (branches (bstart br + (k : Int)))) ∧
    (∀ k, k + 1 < (bstart (br + 1) - bstart br).toNat → pid (branches (bstart br + ((k + 1 : Nat) : Int))) = branches (bstart br + (k : Int))) ∧
    (bstart (br + 1) - bstart br).toNat = 3 :=
  ⟨fun b => b - 1, fun _ => 1, fun i => i + 1, fun b => 3 * b, 0, by intro k _; norm_num, by intro k _; push_cast; ring, by simp⟩
end comvel

/-! ## 3. RNE -/
section rne
variable {K : Type} [Scalar K]

theorem cacc_world_write (g : Int → V3 K) (out : Int → Int → V6 K) (s w : Int) :
    _cacc_world g out s w = [Write.mk "cacc_out" [w, 0] (WVal.v (V6.toList (V6.ofV3 (V3.fill (Scalar.lit 0 0 : K)) (V3.neg (g (Int.tmod w s)))))) WKind.set] := rfl

/-- `_cfrc`: cfrc_int[b] = I_b·cacc_b + cvel_b ×* (I_b·cvel_b) (− cfrc_ext_b); 0 for the world -/
theorem cfrc_write (cinert : Int → Int → V10 K) (cvel cacc ext out : Int → Int → V6 K) (flg : Bool) (w b : Int) :
    _cfrc cinert cvel cacc ext flg out w b
      = if b = 0 then [Write.mk "cfrc_int_out" [w, 0] (WVal.v (V6.toList (⟨Scalar.lit 0 0, Scalar.lit 0 0, Scalar.lit 0 0, Scalar.lit 0 0, Scalar.lit 0 0, Scalar.lit 0 0⟩ : V6 K))) WKind.set]
        else [Write.mk "cfrc_int_out" [w, b] (WVal.v (V6.toList (
          let f := V6.add (inert_vec (cinert w b) (cacc w b)) (motion_cross_force (cvel w b) (inert_vec (cinert w b) (cvel w b)))
          if flg then V6.sub f (ext w b) else f))) WKind.set] := by
  unfold _cfrc
  by_cases h : b = 0 <;> cases flg <;> simp [h]

/-- `_cfrc_backward`: body (≠ world) atomically adds its pre-launch cfrc_int to its parent -/
theorem cfrc_backward_write (pid : Int → Int) (cin : Int → Int → V6 K) (tree : Int → Int) (out : Int → Int → V6 K) (w n : Int) :
    _cfrc_backward pid cin tree out w n
      = if tree n ≠ 0 then [Write.mk "cfrc_int_out" [w, pid (tree n)] (WVal.v (V6.toList (cin w (tree n)))) WKind.aadd] else [] := by
  unfold _cfrc_backward
  by_cases h : tree n = 0 <;> simp [h]

/-- `_qfrc_bias`: qfrc_bias[d] = cdof_d · cfrc_int[body d] -/
theorem qfrc_bias_write (dbody : Int → Int) (cdof cfrc : Int → Int → V6 K) (out : Int → Int → K) (w d : Int) :
    _qfrc_bias dbody cdof cfrc out w d = [Write.mk "qfrc_bias_out" [w, d] (WVal.f (V6.dot (cdof w d) (cfrc w (dbody d)))) WKind.set] := rfl

/-- `_crb_accumulate`: body whose parent is not the world adds its pre-launch composite inertia to the parent -/
theorem crb_accumulate_write (pid : Int → Int) (crb : Int → Int → V10 K) (tree : Int → Int) (out : Int → Int → V10 K) (w n : Int) :
    _crb_accumulate pid crb tree out w n
      = if pid (tree n) = 0 then [] else [Write.mk "crb_out" [w, pid (tree n)] (WVal.v (V10.toList (crb w (tree n)))) WKind.aadd] := by
  unfold _crb_accumulate
  by_cases h : pid (tree n) = 0 <;> simp [h]
end rne

theorem inert_vec_add (i : V10 ℝ) (a b : V6 ℝ) : inert_vec i (V6.add a b) = V6.add (inert_vec i a) (inert_vec i b) := by
  simp only [inert_vec, V6.add, hadd, hsub, hmul]
  congr 1 <;> ring

theorem inert_vec_smul (i : V10 ℝ) (s : ℝ) (a : V6 ℝ) : inert_vec i (V6.smul s a) = V6.smul s (inert_vec i a) := by
  simp only [inert_vec, V6.smul, hadd, hsub, hmul]
  congr 1 <;> ring

/-- at rest (cvel = 0) the body force is the inertia applied to the acceleration: cfrc = I·cacc — linear in cacc (hence in gravity, by
    `cacc_branch_at_rest` and `cacc_world_write`), and 0 when cacc = 0 -/
theorem cfrc_at_rest (cinert : Int → Int → V10 ℝ) (cvel cacc ext out : Int → Int → V6 ℝ) (w b : Int) (hb : b ≠ 0)
    (hv : cvel w b = ⟨0, 0, 0, 0, 0, 0⟩) :
    _cfrc cinert cvel cacc ext false out w b = [Write.mk "cfrc_int_out" [w, b] (WVal.v (V6.toList (inert_vec (cinert w b) (cacc w b)))) WKind.set]
    ∧ inert_vec (cinert w b) (⟨0, 0, 0, 0, 0, 0⟩ : V6 ℝ) = ⟨0, 0, 0, 0, 0, 0⟩ := by
  constructor
  · rw [cfrc_write]
    simp [hb, hv, inert_vec, motion_cross_force, V6.add, V6.ofV3, V3.add, V3.cross, V6.toList]
  · simp [inert_vec]

example : ∃ (cvel : Int → Int → V6 ℝ) (b : Int), b ≠ 0 ∧ cvel 0 b = ⟨0, 0, 0, 0, 0, 0⟩ := ⟨fun _ _ => ⟨0, 0, 0, 0, 0, 0⟩, 1, by norm_num, rfl⟩

/-- zero internal force ⇒ zero bias force -/
theorem qfrc_bias_zero (dbody : Int → Int) (cdof cfrc : Int → Int → V6 ℝ) (out : Int → Int → ℝ) (w d : Int)
    (h : cfrc w (dbody d) = ⟨0, 0, 0, 0, 0, 0⟩) :
    _qfrc_bias dbody cdof cfrc out w d = [Write.mk "qfrc_bias_out" [w, d] (WVal.f 0) WKind.set] := by
  rw [qfrc_bias_write, h]; simp [V6.dot]


/-- at rest (`qvel = 0`, no acceleration term) `_cacc_branch` copies the acceleration of the chain's root parent to every body of the chain -/
theorem cacc_branch_at_rest (pid dofnum dofadr branches bstart : Int → Int) (qvel qacc : Int → Int → ℝ) (cdof cdof_dot cacc_out : Int → Int → V6 ℝ)
    (w br : Int) (hq : ∀ d, qvel w d = 0) :
    ∀ x ∈ _cacc_branch pid dofnum dofadr branches bstart qvel qacc cdof cdof_dot false cacc_out w br,
      x.arr = "cacc_out" ∧ x.kind = WKind.set ∧ x.val = WVal.v (V6.toList (cacc_out w (pid (branches (bstart br))))) := by
  unfold _cacc_branch
  simp only [Write.lookupV, List.foldl_nil]
  have key := forRange_inv (fun st : Int × V6 ℝ × List (Write ℝ) => st.2.1 = cacc_out w (pid (branches (bstart br))) ∧
      ∀ x ∈ st.2.2, x.arr = "cacc_out" ∧ x.kind = WKind.set ∧ x.val = WVal.v (V6.toList (cacc_out w (pid (branches (bstart br))))))
    (bstart br) (bstart (br + 1))
  refine (key _ _ ⟨rfl, by simp⟩ ?_).2
  rintro i ⟨b, c, ws⟩ ⟨hc, hws⟩
  simp only at hc
  subst hc
  have hin : Mjw.forRange (0 : Int) (dofnum (branches i)) (cacc_out w (pid (branches (bstart br))))
      (fun (j : Int) (st : V6 ℝ) => if false = true then V6.add (V6.add st (V6.muls (cdof_dot w (dofadr (branches i) + j)) (qvel w (dofadr (branches i) + j)))) (V6.muls (cdof w (dofadr (branches i) + j)) (qacc w (dofadr (branches i) + j)))
        else V6.add st (V6.muls (cdof_dot w (dofadr (branches i) + j)) (qvel w (dofadr (branches i) + j))))
      = cacc_out w (pid (branches (bstart br))) := by
    apply forRange_inv (fun st => st = cacc_out w (pid (branches (bstart br))))
    · rfl
    · intro j s hs; subst hs; simp [hq, V6_add_muls_zero]
  refine ⟨?_, ?_⟩
  · simpa using hin
  · intro x hx
    simp only [List.mem_append, List.mem_singleton] at hx
    rcases hx with hx | hx
    · exact hws x hx
    · subst hx
      refine ⟨rfl, rfl, ?_⟩
      simp only
      congr 2


/-! ## 4. fwd_acceleration -/
section fwdacc
variable {K : Type} [Scalar K]
/-- `_qfrc_smooth`: qfrc_smooth = passive − bias + actuator + applied (in this order of float operations); 0 for a dof of a sleeping tree
    when sleeping is enabled (xfrc_applied is added afterwards by `support._apply_ft`, not translated) -/
theorem qfrc_smooth_write (treeid dbody : Int → Int) (applied : Int → Int → K) (awake : Int → Int → Int) (bias passive act out : Int → Int → K)
    (sleep : Bool) (w d : Int) :
    _qfrc_smooth__kernel treeid dbody applied awake bias passive act out sleep w d
      = [Write.mk "qfrc_smooth_out" [w, d] (WVal.f (
          if sleep && decide (treeid (dbody d) ≥ 0) && decide (awake w (treeid (dbody d)) = 0) then (Scalar.lit 0 0 : K)
          else ((passive w d - bias w d) + act w d) + applied w d)) WKind.set] := by
  unfold _qfrc_smooth__kernel
  cases sleep <;> by_cases h1 : treeid (dbody d) ≥ 0 <;> by_cases h2 : awake w (treeid (dbody d)) = 0 <;> simp [h1, h2]
end fwdacc

/-! ## 5. CRB -/
section crb
variable {K : Type} [Scalar K]
/-- **closed form of `_M`** (after repository commit 8d35602: the walk over the ancestors stops at the start of row i).
    Thread i writes the armature on the diagonal address `rowadr i + rownnz i − 1`, then for k = 0, …, n−1 the entry (i, anc_k i) at
    address diag − k, where n = number of loop iterations: the ancestors anc_0 … anc_{n−1} are ≥ 0, n ≤ rownnz i, and the loop ends
    because the ancestor chain ends (anc_n < 0) or the row is exhausted (n = rownnz i). -/
theorem M_row_closed (dof_bodyid dof_parentid : Int → Int) (arm : Int → Int → K) (rownnz rowadr : Int → Int) (cdof : Int → Int → V6 K)
    (crb : Int → Int → V10 K) (M_out : Int → Int → K) (s : Int) (fuel : Nat) (w i : Int) (n : Nat) (hf : n ≤ fuel)
    (hanc : ∀ t < n, 0 ≤ ancDof dof_parentid i t) (hrow : (n : Int) ≤ rownnz i)
    (hend : ancDof dof_parentid i n < 0 ∨ rownnz i ≤ (n : Int)) :
    _M dof_bodyid dof_parentid arm rownnz rowadr cdof crb M_out s fuel w i
      = (Write.mk "M_out" [w, rowadr i + rownnz i - 1] (WVal.f (arm (Int.tmod w s) i)) WKind.set : Write K) ::
        (List.range n).map (mEntry w dof_parentid cdof M_out (inert_vec (crb w (dof_bodyid i)) (cdof w i)) (arm (Int.tmod w s) i) (rowadr i + rownnz i - 1) i) := by
  rw [M_unfold]
  have := mLoop w dof_parentid cdof M_out (inert_vec (crb w (dof_bodyid i)) (cdof w i)) (arm (Int.tmod w s) i) (rowadr i + rownnz i - 1) i (rowadr i) n fuel 0
    [(Write.mk "M_out" [w, rowadr i + rownnz i - 1] (WVal.f (arm (Int.tmod w s) i)) WKind.set : Write K)] hf
    (by intro t ht; refine ⟨by simpa using hanc t ht, ?_⟩; push_cast; omega)
    (by rcases hend with h | h
        · left; simpa using h
        · right; push_cast; omega)
    (by
      intro k' _
      have := lookupF_snoc_set ([] : List (Write K)) "M_out" [w, rowadr i + rownnz i - 1 - (k' : Int)] [w, rowadr i + rownnz i - 1] (arm (Int.tmod w s) i) (M_out w (rowadr i + rownnz i - 1 - (k' : Int)))
      simp only [List.nil_append] at this
      rw [this]
      by_cases hk : k' = 0
      · simp [hk]
      · have : ¬ ([w, rowadr i + rownnz i - 1] = [w, rowadr i + rownnz i - 1 - (k' : Int)]) := by
          intro h; simp only [List.cons.injEq, and_true, true_and] at h; omega
        simp [this, hk, Write.lookupF])
  simp only [Nat.cast_zero, sub_zero, ancDof, Nat.zero_add] at this
  rw [this]
  simp

/-- **no write of `_M` leaves row i**: every written address lies in `[rowadr i, rowadr i + rownnz i − 1]` (for a non-empty row).
    This is the property the repaired defect violated: for a "simple" dof (rownnz = 1 although the dof has ancestors) the old kernel
    went on to `diag − 1`, the diagonal cell of the preceding dof. -/
theorem M_writes_in_row (dof_bodyid dof_parentid : Int → Int) (arm : Int → Int → K) (rownnz rowadr : Int → Int) (cdof : Int → Int → V6 K)
    (crb : Int → Int → V10 K) (M_out : Int → Int → K) (s : Int) (fuel : Nat) (w i : Int) (n : Nat) (hf : n ≤ fuel)
    (hanc : ∀ t < n, 0 ≤ ancDof dof_parentid i t) (hrow : (n : Int) ≤ rownnz i)
    (hend : ancDof dof_parentid i n < 0 ∨ rownnz i ≤ (n : Int)) (hnz : 1 ≤ rownnz i) :
    ∀ x ∈ _M dof_bodyid dof_parentid arm rownnz rowadr cdof crb M_out s fuel w i,
      ∃ a, x.idx = [w, a] ∧ rowadr i ≤ a ∧ a ≤ rowadr i + rownnz i - 1 := by
  rw [M_row_closed _ _ _ _ _ _ _ _ _ _ _ _ n hf hanc hrow hend]
  intro x hx
  rcases List.mem_cons.mp hx with hx | hx
  · subst hx; exact ⟨_, rfl, by omega, le_refl _⟩
  · obtain ⟨k, hk, rfl⟩ := List.mem_map.mp hx
    have hk' := List.mem_range.mp hk
    exact ⟨_, rfl, by omega, by omega⟩

end crb

/-- the spatial-inertia form is symmetric: u·(I v) = v·(I u) — M(i,j) = M(j,i), so storing row i of the lower triangle suffices -/
theorem inert_form_symm (i : V10 ℝ) (u v : V6 ℝ) : V6.dot u (inert_vec i v) = V6.dot v (inert_vec i u) := by
  simp only [inert_vec, V6.dot, hadd, hsub, hmul]; ring

-- `M_row_closed`'s hypotheses are satisfiable: (a) a root dof (parent −1) with a one-entry row; (b) a "simple" dof: it has a parent
-- (dof 0) but its row holds the diagonal only (rownnz = 1) — the case of the repaired defect: one iteration, then the row is exhausted
example : ∃ (par rownnz : Int → Int) (i : Int) (n fuel : Nat), n ≤ fuel ∧ (∀ t < n, 0 ≤ ancDof par i t) ∧ (n : Int) ≤ rownnz i ∧
    (ancDof par i n < 0 ∨ rownnz i ≤ (n : Int)) ∧ 1 ≤ rownnz i :=
  ⟨fun _ => -1, fun _ => 1, 0, 1, 1, le_refl _, (by intro t ht; (have : t = 0 := by omega); subst this; simp [ancDof]), (by simp), Or.inl (by simp [ancDof]), le_refl _⟩
example : ∃ (par rownnz : Int → Int) (i : Int) (n fuel : Nat), n ≤ fuel ∧ (∀ t < n, 0 ≤ ancDof par i t) ∧ (n : Int) ≤ rownnz i ∧
    (¬ ancDof par i n < 0) ∧ rownnz i ≤ (n : Int) :=
  ⟨fun d => d - 1, fun _ => 1, 1, 1, 1, le_refl _, (by intro t ht; (have : t = 0 := by omega); subst this; simp [ancDof]), (by simp), (by simp [ancDof]), (by simp)⟩

end Mjw.Props.C02
