/-
  Helper lemmas for Props/C06 (constrained acceleration = optimum of a convex cost).
  Pure mathematics over ℝ (no generated code here): convexity of quadratic forms and of compositions with
  affine maps, first-order optimality on lines, derivative of the Gauss term along a line.
-/
import MjwVerif.Lemmas.C24
import Mathlib.Analysis.Convex.Deriv
import Mathlib.Analysis.Convex.Function
import Mathlib.LinearAlgebra.Matrix.PosDef

set_option linter.unusedSimpArgs false
set_option linter.unusedVariables false

namespace Mjw.Lemmas.C06
open Matrix Mjw.Lemmas.C24

variable {n m : ℕ}

/-- the quadratic form `x ↦ xᵀ M x` -/
def qf (M : Matrix (Fin n) (Fin n) ℝ) (x : Fin n → ℝ) : ℝ := x ⬝ᵥ M *ᵥ x

/-- bilinear form `(x, y) ↦ xᵀ M y` -/
def bf (M : Matrix (Fin n) (Fin n) ℝ) (x y : Fin n → ℝ) : ℝ := x ⬝ᵥ M *ᵥ y

theorem bf_add_left (M : Matrix (Fin n) (Fin n) ℝ) (x y z : Fin n → ℝ) : bf M (x + y) z = bf M x z + bf M y z := by
  simp only [bf, add_dotProduct]

theorem bf_add_right (M : Matrix (Fin n) (Fin n) ℝ) (x y z : Fin n → ℝ) : bf M x (y + z) = bf M x y + bf M x z := by
  simp only [bf, Matrix.mulVec_add, dotProduct_add]

theorem bf_smul_left (M : Matrix (Fin n) (Fin n) ℝ) (c : ℝ) (x y : Fin n → ℝ) : bf M (c • x) y = c * bf M x y := by
  simp only [bf, smul_dotProduct, smul_eq_mul]

theorem bf_smul_right (M : Matrix (Fin n) (Fin n) ℝ) (c : ℝ) (x y : Fin n → ℝ) : bf M x (c • y) = c * bf M x y := by
  simp only [bf, Matrix.mulVec_smul, dotProduct_smul, smul_eq_mul]

theorem bf_sub_left (M : Matrix (Fin n) (Fin n) ℝ) (x y z : Fin n → ℝ) : bf M (x - y) z = bf M x z - bf M y z := by
  simp only [bf, sub_dotProduct]

theorem bf_sub_right (M : Matrix (Fin n) (Fin n) ℝ) (x y z : Fin n → ℝ) : bf M x (y - z) = bf M x y - bf M x z := by
  simp only [bf, Matrix.mulVec_sub, dotProduct_sub]

/-- symmetric matrix ⇒ symmetric bilinear form -/
theorem bf_symm (M : Matrix (Fin n) (Fin n) ℝ) (hs : Mᵀ = M) (x y : Fin n → ℝ) : bf M x y = bf M y x := by
  simp only [bf]
  rw [Matrix.dotProduct_mulVec, ← Matrix.mulVec_transpose, hs, dotProduct_comm]

/-- `x ↦ ½ (x − a₀)ᵀ M (x − a₀)` is convex for positive semidefinite M (no symmetry needed) -/
theorem gauss_convex (M : Matrix (Fin n) (Fin n) ℝ) (hpsd : ∀ x : Fin n → ℝ, 0 ≤ x ⬝ᵥ M *ᵥ x) (a0 : Fin n → ℝ) :
    ConvexOn ℝ Set.univ (fun a : Fin n → ℝ => 1 / 2 * ((a - a0) ⬝ᵥ M *ᵥ (a - a0))) := by
  refine ⟨convex_univ, ?_⟩
  intro x _ y _ a b ha hb hab
  have e : a • x + b • y - a0 = a • (x - a0) + b • (y - a0) := by
    have : a0 = (a + b) • a0 := by rw [hab, one_smul]
    conv_lhs => rw [this]
    simp only [smul_sub, add_smul]; abel
  simp only [smul_eq_mul]
  rw [e]
  change 1 / 2 * bf M (a • (x - a0) + b • (y - a0)) (a • (x - a0) + b • (y - a0))
    ≤ a * (1 / 2 * bf M (x - a0) (x - a0)) + b * (1 / 2 * bf M (y - a0) (y - a0))
  set u := x - a0
  set v := y - a0
  have hq := hpsd (u - v)
  change 0 ≤ bf M (u - v) (u - v) at hq
  simp only [bf_add_left, bf_add_right, bf_smul_left, bf_smul_right, bf_sub_left, bf_sub_right] at hq ⊢
  have hb' : b = 1 - a := by linarith
  subst hb'
  have hab' : 0 ≤ a * (1 - a) := mul_nonneg ha hb
  nlinarith [mul_nonneg hab' hq]

/-- a convex function of one real variable composed with a map that is affine along segments -/
theorem convexOn_comp_affine {E : Type} [AddCommMonoid E] [Module ℝ E] (s : ℝ → ℝ) (g : E → ℝ)
    (hs : ConvexOn ℝ Set.univ s)
    (hg : ∀ (x y : E) (a b : ℝ), a + b = 1 → g (a • x + b • y) = a * g x + b * g y) :
    ConvexOn ℝ Set.univ (fun x => s (g x)) := by
  refine ⟨convex_univ, ?_⟩
  intro x _ y _ a b ha hb hab
  simp only [hg x y a b hab]
  have := hs.2 (Set.mem_univ (g x)) (Set.mem_univ (g y)) ha hb hab
  simpa [smul_eq_mul] using this

/-- the residual map `a ↦ (J a − aref)_i` is affine along segments -/
theorem residual_affine (J : Matrix (Fin m) (Fin n) ℝ) (aref : Fin m → ℝ) (i : Fin m)
    (x y : Fin n → ℝ) (a b : ℝ) (hab : a + b = 1) :
    (J *ᵥ (a • x + b • y) - aref) i = a * (J *ᵥ x - aref) i + b * (J *ᵥ y - aref) i := by
  simp only [Matrix.mulVec_add, Matrix.mulVec_smul, Pi.sub_apply, Pi.add_apply, Pi.smul_apply, smul_eq_mul]
  linear_combination (aref i) * hab

/-- 1-D first-order optimality: a convex function on ℝ with zero derivative at 0 satisfies g 0 ≤ g 1 -/
theorem convex_line_min (g : ℝ → ℝ) (hc : ConvexOn ℝ Set.univ g) (hd : HasDerivAt g 0 0) : g 0 ≤ g 1 := by
  have h := hc.le_slope_of_hasDerivAt (Set.mem_univ 0) (Set.mem_univ 1) one_pos hd
  rw [slope_def_field] at h
  simpa using h

/-- a convex function restricted to a line is convex -/
theorem convexOn_line {E : Type} [AddCommGroup E] [Module ℝ E] (c : E → ℝ) (hc : ConvexOn ℝ Set.univ c)
    (a v : E) : ConvexOn ℝ Set.univ (fun t : ℝ => c (a + t • v)) := by
  refine ⟨convex_univ, ?_⟩
  intro x _ y _ p q hp hq hpq
  have e : a + (p • x + q • y) • v = p • (a + x • v) + q • (a + y • v) := by
    have : a = (p + q) • a := by rw [hpq, one_smul]
    conv_lhs => rw [this]
    simp only [smul_add, add_smul, smul_smul, smul_eq_mul]; abel
  simp only [e]
  exact hc.2 (Set.mem_univ _) (Set.mem_univ _) hp hq hpq

/-- derivative of the Gauss term along a line, at any point t:  d/dt ½ (d + t v)ᵀ M (d + t v) = vᵀ M (d + t v)
    for symmetric M -/
theorem gauss_line_hasDerivAt (M : Matrix (Fin n) (Fin n) ℝ) (hs : Mᵀ = M) (d v : Fin n → ℝ) (t : ℝ) :
    HasDerivAt (fun t : ℝ => 1 / 2 * ((d + t • v) ⬝ᵥ M *ᵥ (d + t • v))) (v ⬝ᵥ M *ᵥ (d + t • v)) t := by
  have hexp : ∀ t : ℝ, 1 / 2 * ((d + t • v) ⬝ᵥ M *ᵥ (d + t • v))
      = 1 / 2 * bf M v v * t * t + bf M v d * (0 + 1 * t) + 1 / 2 * bf M d d := by
    intro t
    change 1 / 2 * bf M (d + t • v) (d + t • v) = _
    simp only [bf_add_left, bf_add_right, bf_smul_left, bf_smul_right]
    rw [bf_symm M hs d v]; ring
  have h := ((hasDerivAt_quad (1 / 2 * bf M v v) t).add (hasDerivAt_lin (bf M v d) 0 1 t)).add_const
    (1 / 2 * bf M d d)
  refine hasDerivAt_congr h (fun s => ?_) ?_
  · simp only [Pi.add_apply]; exact hexp s
  · change bf M v (d + t • v) = _
    simp only [bf_add_right, bf_smul_right]; ring

end Mjw.Lemmas.C06
