/-
  E3 metatheorem NI-world (world non-interference) over an abstract task calculus.
  A launch sequence is a list of tasks; each task belongs to a world, reads memory and performs writes.
  If every task (i) depends only on what its world may SEE and (ii) writes only what its world OWNS, and
  worlds' owned locations are invisible to each other, then the owned part of the final memory of world w
  is what w's own tasks alone compute — whatever the other worlds contain and however tasks interleave.
  Core Lean only.
-/
namespace Mjw.NI

structure Loc where
  field : String
  idx : List Int
  deriving DecidableEq, Repr

variable {V : Type}

abbrev Memory (V : Type) := Loc → V

def write (m : Memory V) (l : Loc) (v : V) : Memory V := fun l' => if l' = l then v else m l'

def applyWrites (m : Memory V) (ws : List (Loc × V)) : Memory V :=
  ws.foldl (fun m p => write m p.1 p.2) m

structure Task (V : Type) where
  world : Int
  run : Memory V → List (Loc × V)

def exec (m : Memory V) (ts : List (Task V)) : Memory V :=
  ts.foldl (fun m t => applyWrites m (t.run m)) m

/-- the discipline: `visible w` = locations a task of world w may depend on, `owned w` = locations it may write -/
structure Disciplined (visible owned : Int → Loc → Prop) (t : Task V) : Prop where
  dep : ∀ m m' : Memory V, (∀ l, visible t.world l → m l = m' l) → t.run m = t.run m'
  own : ∀ (m : Memory V) (p : Loc × V), p ∈ t.run m → owned t.world p.1

theorem applyWrites_other (m : Memory V) (ws : List (Loc × V)) (l : Loc)
    (h : ∀ p ∈ ws, p.1 ≠ l) : applyWrites m ws l = m l := by
  induction ws generalizing m with
  | nil => rfl
  | cons p ws ih =>
    simp only [applyWrites, List.foldl_cons]
    have h1 : p.1 ≠ l := h p (by simp)
    have := ih (write m p.1 p.2) (fun q hq => h q (by simp [hq]))
    simp only [applyWrites] at this
    rw [this]
    simp [write, Ne.symm h1]

theorem applyWrites_congr (m m' : Memory V) (ws : List (Loc × V)) (l : Loc) (h : m l = m' l) :
    applyWrites m ws l = applyWrites m' ws l := by
  induction ws generalizing m m' with
  | nil => simpa [applyWrites]
  | cons p ws ih =>
    simp only [applyWrites, List.foldl_cons]
    apply ih
    simp only [write]
    split <;> simp_all

/-- **NI-world.**  `visible w` must contain `owned w`, and no other world's owned location. -/
theorem noninterference (visible owned : Int → Loc → Prop)
    (_hsub : ∀ w l, owned w l → visible w l)
    (hsep : ∀ w w' l, w ≠ w' → owned w' l → ¬ visible w l)
    (ts : List (Task V)) (hd : ∀ t ∈ ts, Disciplined visible owned t) (w : Int) :
    ∀ m m' : Memory V, (∀ l, visible w l → m l = m' l) →
      ∀ l, visible w l → exec m ts l = exec m' (ts.filter (fun t => t.world = w)) l := by
  induction ts with
  | nil => intro m m' h l hl; simpa [exec] using h l hl
  | cons t ts ih =>
    intro m m' h l hl
    have hdt := hd t (by simp)
    have hd' : ∀ t' ∈ ts, Disciplined visible owned t' := fun t' ht' => hd t' (by simp [ht'])
    by_cases hw : t.world = w
    · -- w's own task: same writes on both sides
      have hrun : t.run m = t.run m' := hdt.dep m m' (by intro l' hl'; exact h l' (hw ▸ hl'))
      have hstep : ∀ l', visible w l' → applyWrites m (t.run m) l' = applyWrites m' (t.run m') l' := by
        intro l' hl'
        rw [hrun]
        exact applyWrites_congr m m' _ l' (h l' hl')
      simp only [exec, List.foldl_cons, List.filter_cons, hw, decide_true, if_true]
      exact ih hd' _ _ hstep l hl
    · -- another world's task: its writes are invisible to w
      have hstep : ∀ l', visible w l' → applyWrites m (t.run m) l' = m' l' := by
        intro l' hl'
        rw [applyWrites_other m (t.run m) l']
        · exact h l' hl'
        · intro p hp heq
          have hown := hdt.own m p hp
          exact hsep w t.world l' (fun e => hw e.symm) (heq ▸ hown) hl'
      simp only [exec, List.foldl_cons, List.filter_cons, hw, decide_false]
      exact ih hd' _ _ hstep l hl

/-- Corollary (C09): the trajectory of world w's visible state is independent of the other worlds' contents and
    of how the tasks of different worlds interleave (any two task lists with the same w-subsequence). -/
theorem batch_independent (visible owned : Int → Loc → Prop)
    (hsub : ∀ w l, owned w l → visible w l)
    (hsep : ∀ w w' l, w ≠ w' → owned w' l → ¬ visible w l)
    (ts ts' : List (Task V)) (hd : ∀ t ∈ ts, Disciplined visible owned t) (hd' : ∀ t ∈ ts', Disciplined visible owned t)
    (w : Int) (hsame : ts.filter (fun t => t.world = w) = ts'.filter (fun t => t.world = w))
    (m m' : Memory V) (h : ∀ l, visible w l → m l = m' l) :
    ∀ l, visible w l → exec m ts l = exec m' ts' l := by
  intro l hl
  have a := noninterference visible owned hsub hsep ts hd w m m (fun _ _ => rfl) l hl
  have b := noninterference visible owned hsub hsep ts' hd' w m' m (fun l hl => (h l hl).symm) l hl
  rw [a, b, hsame]

end Mjw.NI
