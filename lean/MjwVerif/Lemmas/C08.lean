/-
  Helper lemmas for property C08 (time integration) and C03 (activation part).
  * kernel calculus: a loop `for j in range(lo, hi): out[w, j] = g(j, out[w, j])` reads only pre-launch
    contents (`forRange_lookup`)
  * reals: Warp's `normalize`/`axis_angle_to_quat`/`quat_integrate` against MuJoCo C's
    `mju_normalize4`/`mju_axisAngle2Quat`/`mju_quatIntegrate` (`Spec/Integrate.lean`)
-/
import MjwVerif.Lemmas.Real
import MjwVerif.Spec.Integrate
import MjwVerif.Gen.Forward
import MjwVerif.Props.C23

open Mjw

namespace Mjw.Lemmas.C08

/-! ## kernel calculus -/

section kcalc
variable {K : Type}

/-- `[f lo, f (lo+1), …, f (hi-1)]` -/
def rangeL {α : Type} (lo hi : Int) (f : Int → α) : List α :=
  (List.range (hi - lo).toNat).map (fun k => f (lo + Int.ofNat k))

theorem lookupF_of_no_write [Scalar K] (ws : List (Write K)) (arr : String) (idx : List Int) (d : K)
    (h : ∀ x ∈ ws, ¬ (x.arr = arr ∧ x.idx = idx)) : Write.lookupF ws arr idx d = d := by
  unfold Write.lookupF
  induction ws generalizing d with
  | nil => rfl
  | cons x xs ih =>
    have hx : ¬ (x.arr = arr ∧ x.idx = idx) := h x List.mem_cons_self
    have : (x.arr == arr && x.idx == idx) = false := by
      cases h1 : (x.arr == arr && x.idx == idx)
      · rfl
      · exfalso; apply hx; simpa using h1
    simp only [List.foldl_cons, this]
    exact ih d (fun y hy => h y (List.mem_cons_of_mem _ hy))

/-- a loop that, in iteration `j`, reads its own cell `arr[w, j]` and stores `g j (that value)` into it,
    reads only pre-launch contents: the `j`-th store is `g j (pre w j)` -/
theorem foldl_lookup [Scalar K] (arr : String) (w lo : Int) (pre : Int → K) (g : Int → K → K) (m : Nat) :
    (List.range m).foldl (fun (st : List (Write K)) (k : Nat) =>
        st ++ [(Write.mk arr [w, lo + Int.ofNat k]
          (WVal.f (g (lo + Int.ofNat k) (Write.lookupF st arr [w, lo + Int.ofNat k] (pre (lo + Int.ofNat k))))) WKind.set : Write K)]) []
      = (List.range m).map (fun k => (Write.mk arr [w, lo + Int.ofNat k]
          (WVal.f (g (lo + Int.ofNat k) (pre (lo + Int.ofNat k)))) WKind.set : Write K)) := by
  induction m with
  | zero => rfl
  | succ m ih =>
    rw [List.range_succ, List.foldl_append, ih, List.map_append]
    simp only [List.foldl_cons, List.foldl_nil, List.map_cons, List.map_nil]
    rw [lookupF_of_no_write]
    intro x hx hc
    simp only [List.mem_map, List.mem_range] at hx
    obtain ⟨k, hk, rfl⟩ := hx
    have := hc.2
    simp only [List.cons.injEq, and_true, true_and, Int.ofNat_eq_natCast] at this
    omega

theorem forRange_lookup [Scalar K] (arr : String) (w lo hi : Int) (pre : Int → K) (g : Int → K → K) :
    forRange lo hi ([] : List (Write K)) (fun j st =>
        st ++ [(Write.mk arr [w, j] (WVal.f (g j (Write.lookupF st arr [w, j] (pre j)))) WKind.set : Write K)])
      = rangeL lo hi (fun j => (Write.mk arr [w, j] (WVal.f (g j (pre j))) WKind.set : Write K)) := by
  unfold forRange rangeL
  exact foldl_lookup arr w lo pre g _

theorem mem_rangeL {α : Type} {lo hi : Int} {f : Int → α} {x : α} :
    x ∈ rangeL lo hi f ↔ ∃ j : Int, lo ≤ j ∧ j < hi ∧ x = f j := by
  simp only [rangeL, List.mem_map, List.mem_range]
  constructor
  · rintro ⟨k, hk, rfl⟩
    exact ⟨lo + Int.ofNat k, by simp only [Int.ofNat_eq_natCast]; omega, by simp only [Int.ofNat_eq_natCast]; omega, rfl⟩
  · rintro ⟨j, h0, h1, rfl⟩
    refine ⟨(j - lo).toNat, by omega, ?_⟩
    congr 1
    simp only [Int.ofNat_eq_natCast]; omega

theorem rangeL_length {α : Type} (lo hi : Int) (f : Int → α) : (rangeL lo hi f).length = (hi - lo).toNat := by
  simp [rangeL]

end kcalc

/-! ## reals: Warp quaternion integration vs. MuJoCo C -/

section real
open Mjw.Gen.Math Mjw.Spec.Integrate Mjw.Props.C23

/-- `|q|` as both Warp and C compute it -/
noncomputable def qlen (q : Q ℝ) : ℝ := Real.sqrt (q.c0 * q.c0 + q.c1 * q.c1 + q.c2 * q.c2 + q.c3 * q.c3)
/-- `|v|` as both Warp and C compute it -/
noncomputable def vlen (v : V3 ℝ) : ℝ := Real.sqrt (v.c0 * v.c0 + v.c1 * v.c1 + v.c2 * v.c2)

theorem minval_real : (minval : ℝ) = 1e-15 := by
  simp only [minval, slit]; norm_num

theorem minval_pos : (0:ℝ) < (minval : ℝ) := by rw [minval_real]; norm_num
theorem minval_lt_one : (minval : ℝ) < 1 := by rw [minval_real]; norm_num

theorem mul_quat_eq_mulQuat {K : Type} [Scalar K] (a b : Q K) : mul_quat a b = mulQuat a b := rfl

/-- Warp `normalize(quat)` = C `mju_normalize4` away from the two thresholds of the C code -/
theorem normalize_eq_normalize4 (q : Q ℝ) (h1 : (minval : ℝ) ≤ qlen q)
    (h2 : qlen q = 1 ∨ (minval : ℝ) < |qlen q - 1|) : Q.normalize q = normalize4 q := by
  have hpos : 0 < qlen q := lt_of_lt_of_le minval_pos h1
  unfold Q.normalize normalize4
  simp only [Q.length, Q.dot, hadd, hmul, hdiv, hsub, slit, slt, sgt, ssqrt, sabs, Int.cast_zero, Int.cast_one,
    zpow_zero, mul_one]
  change (if 0 < qlen q then _ else _) = (if qlen q < minval then _ else if minval < |qlen q - 1| then _ else _)
  rw [if_pos hpos, if_neg (not_lt.mpr h1)]
  rcases h2 with h2 | h2
  · have c3 : ¬ ((minval : ℝ) < |qlen q - 1|) := by simp [h2, minval_pos.le]
    rw [if_neg c3]
    have h2' : Real.sqrt (q.c0 * q.c0 + q.c1 * q.c1 + q.c2 * q.c2 + q.c3 * q.c3) = 1 := h2
    apply Q.ext' <;> simp [h2']
  · rw [if_pos h2]

/-- Warp's rotation quaternion `axis_angle_to_quat(normalize(v), dt*|v|)` = C's
    `mju_axisAngle2Quat(normalize3(v), dt*|v|)` if `v = 0` or `|v| ≥ mjMINVAL` -/
theorem axis_angle_eq (v : V3 ℝ) (dt : ℝ) (h : vlen v = 0 ∨ (minval : ℝ) ≤ vlen v) :
    axis_angle_to_quat (V3.normalize v) (dt * V3.length v)
      = axisAngle2Quat (normalize3 v).1 (dt * (normalize3 v).2) := by
  have hlen : V3.length v = vlen v := by simp [V3.length, V3.dot, vlen]
  have hn2 : (normalize3 v).2 = vlen v := by
    unfold normalize3; simp only [hadd, hmul, ssqrt]
    split <;> rfl
  rw [hlen, hn2]
  rcases h with h | h
  · -- zero velocity: both give the identity quaternion
    have hnorm : V3.normalize v = ⟨0, 0, 0⟩ := by
      unfold V3.normalize
      simp only [hlen, h, slt, slit]
      simp [V3.zero, V3.fill]
    rw [hnorm, h]
    simp [axis_angle_to_quat, axisAngle2Quat, V3.muls]
  · have hpos : 0 < vlen v := lt_of_lt_of_le minval_pos h
    have hnorm : V3.normalize v = ⟨v.c0 / vlen v, v.c1 / vlen v, v.c2 / vlen v⟩ := by
      unfold V3.normalize
      simp only [hlen, slt, slit, hdiv, Int.cast_zero, zero_mul]
      rw [if_pos hpos]
    have hn1 : (normalize3 v).1 = ⟨v.c0 / vlen v, v.c1 / vlen v, v.c2 / vlen v⟩ := by
      unfold normalize3
      simp only [hadd, hmul, hdiv, ssqrt, slt, slit]
      change (if vlen v < minval then (_ : V3 ℝ × ℝ) else _).1 = _
      rw [if_neg (not_lt.mpr h)]
      apply V3.ext' <;> simp [vlen, div_eq_mul_inv]
    rw [hnorm, hn1]
    unfold axis_angle_to_quat axisAngle2Quat
    simp only [V3.muls, hmul, ssin, scos, slit, sbeq]
    by_cases ha : dt * vlen v = 0
    · simp [ha]
    · simp [ha]

/-- **Warp `quat_integrate` = C `mju_quatIntegrate`** (over ℝ) under the guards
    `mjMINVAL ≤ |q|`, `|q| = 1 ∨ mjMINVAL < ||q| - 1|`, `v = 0 ∨ mjMINVAL ≤ |v|` -/
theorem quat_integrate_eq_C (q : Q ℝ) (v : V3 ℝ) (dt : ℝ) (h1 : (minval : ℝ) ≤ qlen q)
    (h2 : qlen q = 1 ∨ (minval : ℝ) < |qlen q - 1|) (h3 : vlen v = 0 ∨ (minval : ℝ) ≤ vlen v) :
    quat_integrate q v dt = quatIntegrate q v dt := by
  rw [quat_integrate_eq, normalize_eq_normalize4 q h1 h2, axis_angle_eq v dt h3]
  rfl

end real

end Mjw.Lemmas.C08
