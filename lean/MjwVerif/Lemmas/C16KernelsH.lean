/-
  C16 helper lemmas, kernel part H (NJMAX_NNZ): the nnz request of every builder is an Int request (first half).
-/
import MjwVerif.Lemmas.C16
set_option linter.unusedSimpArgs false
set_option linter.unusedVariables false
set_option linter.unusedTactic false
set_option linter.unreachableTactic false
set_option linter.unusedSectionVars false
namespace Mjw.Lemmas.C16
open Mjw


section equality_connect
variable {K : Type} [Scalar K] (nv : Int) (nsite : Int) (opt_timestep : (Int → K)) (opt_disableflags : Int) (body_parentid : (Int → Int)) (body_rootid : (Int → Int)) (body_weldid : (Int → Int)) (body_dofnum : (Int → Int)) (body_dofadr : (Int → Int)) (body_invweight0 : (Int → Int → V2 K)) (jnt_type : (Int → Int)) (jnt_dofadr : (Int → Int)) (dof_bodyid : (Int → Int)) (dof_jntid : (Int → Int)) (dof_parentid : (Int → Int)) (site_bodyid : (Int → Int)) (eq_obj1id : (Int → Int)) (eq_obj2id : (Int → Int)) (eq_objtype : (Int → Int)) (eq_solref : (Int → Int → V2 K)) (eq_solimp : (Int → Int → V5 K)) (eq_data : (Int → Int → V11 K)) (body_isdofancestor : (Int → Int → Int)) (eq_connect_adr : (Int → Int)) (qvel_in : (Int → Int → K)) (eq_active_in : (Int → Int → Bool)) (xpos_in : (Int → Int → V3 K)) (xmat_in : (Int → Int → M33 K)) (site_xpos_in : (Int → Int → V3 K)) (subtree_com_in : (Int → Int → V3 K)) (cdof_in : (Int → Int → V6 K)) (cvel_in : (Int → Int → V6 K)) (cdof_dot_in : (Int → Int → V6 K)) (subtree_linvel_in : (Int → Int → V3 K)) (njmax_in : Int) (njmax_nnz_in : Int) (ne_out : (Int → Int)) (nefc_out : (Int → Int)) (efc_type_out : (Int → Int → Int)) (efc_id_out : (Int → Int → Int)) (efc_jtdaj_adr_out : (Int → Int → Int)) (efc_jtdaj_nrow_out : (Int → Int → Int)) (efc_jtdaj_nblock_out : (Int → Int)) (efc_J_rownnz_out : (Int → Int → Int)) (efc_J_rowadr_out : (Int → Int → Int)) (efc_J_colind_out : (Int → Int → Int → Int)) (efc_J_out : (Int → Int → Int → K)) (efc_pos_out : (Int → Int → K)) (efc_margin_out : (Int → Int → K)) (efc_D_out : (Int → Int → K)) (efc_vel_out : (Int → Int → K)) (efc_aref_out : (Int → Int → K)) (efc_frictionloss_out : (Int → Int → K)) (efc_nnz_out : (Int → Int)) (alloc0 : Int) (st_is_sparse_and_newton : Bool) (alloc1 : Int) (eq_data_shape0 : Int) (body_invweight0_shape0 : Int) (st_is_sparse : Bool) (alloc2 : Int) (eq_solref_shape0 : Int) (eq_solimp_shape0 : Int) (opt_timestep_shape0 : Int) (fuel : Nat) (tid0 : Int) (tid1 : Int)
local notation "KW" => Gen.Constraint._equality_connect__kernel nv nsite opt_timestep opt_disableflags body_parentid body_rootid body_weldid body_dofnum body_dofadr body_invweight0 jnt_type jnt_dofadr dof_bodyid dof_jntid dof_parentid site_bodyid eq_obj1id eq_obj2id eq_objtype eq_solref eq_solimp eq_data body_isdofancestor eq_connect_adr qvel_in eq_active_in xpos_in xmat_in site_xpos_in subtree_com_in cdof_in cvel_in cdof_dot_in subtree_linvel_in njmax_in njmax_nnz_in ne_out nefc_out efc_type_out efc_id_out efc_jtdaj_adr_out efc_jtdaj_nrow_out efc_jtdaj_nblock_out efc_J_rownnz_out efc_J_rowadr_out efc_J_colind_out efc_J_out efc_pos_out efc_margin_out efc_D_out efc_vel_out efc_aref_out efc_frictionloss_out efc_nnz_out alloc0 st_is_sparse_and_newton alloc1 eq_data_shape0 body_invweight0_shape0 st_is_sparse alloc2 eq_solref_shape0 eq_solimp_shape0 opt_timestep_shape0 fuel tid0 tid1

set_option maxHeartbeats 1600000 in
/-- the allocating atomic on `efc_nnz_out[w]` always carries an Int request -/
theorem equality_connect_nnz_req (h : reached KW "efc_nnz_out" [tid0]) : ∃ n, allocReq KW "efc_nnz_out" [tid0] n := by
  revert h
  unfold Gen.Constraint._equality_connect__kernel
  ksimp []
  all_goals (intros; try simp_all)
  all_goals (try tauto)
end equality_connect


section equality_weld
variable {K : Type} [Scalar K] (nv : Int) (nsite : Int) (opt_timestep : (Int → K)) (opt_disableflags : Int) (body_parentid : (Int → Int)) (body_rootid : (Int → Int)) (body_weldid : (Int → Int)) (body_dofnum : (Int → Int)) (body_dofadr : (Int → Int)) (body_invweight0 : (Int → Int → V2 K)) (jnt_type : (Int → Int)) (jnt_dofadr : (Int → Int)) (dof_bodyid : (Int → Int)) (dof_jntid : (Int → Int)) (dof_parentid : (Int → Int)) (site_bodyid : (Int → Int)) (site_quat : (Int → Int → Q K)) (eq_obj1id : (Int → Int)) (eq_obj2id : (Int → Int)) (eq_objtype : (Int → Int)) (eq_solref : (Int → Int → V2 K)) (eq_solimp : (Int → Int → V5 K)) (eq_data : (Int → Int → V11 K)) (body_isdofancestor : (Int → Int → Int)) (eq_wld_adr : (Int → Int)) (qvel_in : (Int → Int → K)) (eq_active_in : (Int → Int → Bool)) (xpos_in : (Int → Int → V3 K)) (xquat_in : (Int → Int → Q K)) (xmat_in : (Int → Int → M33 K)) (site_xpos_in : (Int → Int → V3 K)) (subtree_com_in : (Int → Int → V3 K)) (cdof_in : (Int → Int → V6 K)) (cvel_in : (Int → Int → V6 K)) (cdof_dot_in : (Int → Int → V6 K)) (subtree_linvel_in : (Int → Int → V3 K)) (njmax_in : Int) (njmax_nnz_in : Int) (ne_out : (Int → Int)) (nefc_out : (Int → Int)) (efc_type_out : (Int → Int → Int)) (efc_id_out : (Int → Int → Int)) (efc_jtdaj_adr_out : (Int → Int → Int)) (efc_jtdaj_nrow_out : (Int → Int → Int)) (efc_jtdaj_nblock_out : (Int → Int)) (efc_J_rownnz_out : (Int → Int → Int)) (efc_J_rowadr_out : (Int → Int → Int)) (efc_J_colind_out : (Int → Int → Int → Int)) (efc_J_out : (Int → Int → Int → K)) (efc_pos_out : (Int → Int → K)) (efc_margin_out : (Int → Int → K)) (efc_D_out : (Int → Int → K)) (efc_vel_out : (Int → Int → K)) (efc_aref_out : (Int → Int → K)) (efc_frictionloss_out : (Int → Int → K)) (efc_nnz_out : (Int → Int)) (alloc0 : Int) (st_is_sparse_and_newton : Bool) (alloc1 : Int) (eq_data_shape0 : Int) (site_quat_shape0 : Int) (body_invweight0_shape0 : Int) (st_is_sparse : Bool) (alloc2 : Int) (eq_solref_shape0 : Int) (eq_solimp_shape0 : Int) (opt_timestep_shape0 : Int) (fuel : Nat) (tid0 : Int) (tid1 : Int)
local notation "KW" => Gen.Constraint._equality_weld__kernel nv nsite opt_timestep opt_disableflags body_parentid body_rootid body_weldid body_dofnum body_dofadr body_invweight0 jnt_type jnt_dofadr dof_bodyid dof_jntid dof_parentid site_bodyid site_quat eq_obj1id eq_obj2id eq_objtype eq_solref eq_solimp eq_data body_isdofancestor eq_wld_adr qvel_in eq_active_in xpos_in xquat_in xmat_in site_xpos_in subtree_com_in cdof_in cvel_in cdof_dot_in subtree_linvel_in njmax_in njmax_nnz_in ne_out nefc_out efc_type_out efc_id_out efc_jtdaj_adr_out efc_jtdaj_nrow_out efc_jtdaj_nblock_out efc_J_rownnz_out efc_J_rowadr_out efc_J_colind_out efc_J_out efc_pos_out efc_margin_out efc_D_out efc_vel_out efc_aref_out efc_frictionloss_out efc_nnz_out alloc0 st_is_sparse_and_newton alloc1 eq_data_shape0 site_quat_shape0 body_invweight0_shape0 st_is_sparse alloc2 eq_solref_shape0 eq_solimp_shape0 opt_timestep_shape0 fuel tid0 tid1

set_option maxHeartbeats 1600000 in
/-- the allocating atomic on `efc_nnz_out[w]` always carries an Int request -/
theorem equality_weld_nnz_req (h : reached KW "efc_nnz_out" [tid0]) : ∃ n, allocReq KW "efc_nnz_out" [tid0] n := by
  revert h
  unfold Gen.Constraint._equality_weld__kernel
  ksimp []
  all_goals (intros; try simp_all)
  all_goals (try tauto)
end equality_weld


section equality_joint
variable {K : Type} [Scalar K] (nv : Int) (opt_timestep : (Int → K)) (opt_disableflags : Int) (qpos0 : (Int → Int → K)) (jnt_qposadr : (Int → Int)) (jnt_dofadr : (Int → Int)) (dof_invweight0 : (Int → Int → K)) (eq_obj1id : (Int → Int)) (eq_obj2id : (Int → Int)) (eq_solref : (Int → Int → V2 K)) (eq_solimp : (Int → Int → V5 K)) (eq_data : (Int → Int → V11 K)) (eq_jnt_adr : (Int → Int)) (qpos_in : (Int → Int → K)) (qvel_in : (Int → Int → K)) (eq_active_in : (Int → Int → Bool)) (njmax_in : Int) (njmax_nnz_in : Int) (ne_out : (Int → Int)) (nefc_out : (Int → Int)) (efc_type_out : (Int → Int → Int)) (efc_id_out : (Int → Int → Int)) (efc_jtdaj_adr_out : (Int → Int → Int)) (efc_jtdaj_nrow_out : (Int → Int → Int)) (efc_jtdaj_nblock_out : (Int → Int)) (efc_J_rownnz_out : (Int → Int → Int)) (efc_J_rowadr_out : (Int → Int → Int)) (efc_J_colind_out : (Int → Int → Int → Int)) (efc_J_out : (Int → Int → Int → K)) (efc_pos_out : (Int → Int → K)) (efc_margin_out : (Int → Int → K)) (efc_D_out : (Int → Int → K)) (efc_vel_out : (Int → Int → K)) (efc_aref_out : (Int → Int → K)) (efc_frictionloss_out : (Int → Int → K)) (efc_nnz_out : (Int → Int)) (alloc0 : Int) (st_is_sparse_and_newton : Bool) (alloc1 : Int) (eq_data_shape0 : Int) (qpos0_shape0 : Int) (dof_invweight0_shape0 : Int) (st_is_sparse : Bool) (alloc2 : Int) (opt_timestep_shape0 : Int) (eq_solref_shape0 : Int) (eq_solimp_shape0 : Int) (cl_rowadr : Int) (tid0 : Int) (tid1 : Int)
local notation "KW" => Gen.Constraint._equality_joint__kernel nv opt_timestep opt_disableflags qpos0 jnt_qposadr jnt_dofadr dof_invweight0 eq_obj1id eq_obj2id eq_solref eq_solimp eq_data eq_jnt_adr qpos_in qvel_in eq_active_in njmax_in njmax_nnz_in ne_out nefc_out efc_type_out efc_id_out efc_jtdaj_adr_out efc_jtdaj_nrow_out efc_jtdaj_nblock_out efc_J_rownnz_out efc_J_rowadr_out efc_J_colind_out efc_J_out efc_pos_out efc_margin_out efc_D_out efc_vel_out efc_aref_out efc_frictionloss_out efc_nnz_out alloc0 st_is_sparse_and_newton alloc1 eq_data_shape0 qpos0_shape0 dof_invweight0_shape0 st_is_sparse alloc2 opt_timestep_shape0 eq_solref_shape0 eq_solimp_shape0 cl_rowadr tid0 tid1

set_option maxHeartbeats 1600000 in
/-- the allocating atomic on `efc_nnz_out[w]` always carries an Int request -/
theorem equality_joint_nnz_req (h : reached KW "efc_nnz_out" [tid0]) : ∃ n, allocReq KW "efc_nnz_out" [tid0] n := by
  revert h
  unfold Gen.Constraint._equality_joint__kernel
  ksimp []
  all_goals (intros; try simp_all)
  all_goals (try tauto)
end equality_joint


section equality_tendon
variable {K : Type} [Scalar K] (nv : Int) (opt_timestep : (Int → K)) (opt_disableflags : Int) (eq_obj1id : (Int → Int)) (eq_obj2id : (Int → Int)) (eq_solref : (Int → Int → V2 K)) (eq_solimp : (Int → Int → V5 K)) (eq_data : (Int → Int → V11 K)) (ten_J_rownnz : (Int → Int)) (ten_J_rowadr : (Int → Int)) (ten_J_colind : (Int → Int)) (tendon_length0 : (Int → Int → K)) (tendon_invweight0 : (Int → Int → K)) (eq_ten_adr : (Int → Int)) (qvel_in : (Int → Int → K)) (eq_active_in : (Int → Int → Bool)) (ten_J_in : (Int → Int → K)) (ten_length_in : (Int → Int → K)) (njmax_in : Int) (njmax_nnz_in : Int) (ne_out : (Int → Int)) (nefc_out : (Int → Int)) (efc_type_out : (Int → Int → Int)) (efc_id_out : (Int → Int → Int)) (efc_jtdaj_adr_out : (Int → Int → Int)) (efc_jtdaj_nrow_out : (Int → Int → Int)) (efc_jtdaj_nblock_out : (Int → Int)) (efc_J_rownnz_out : (Int → Int → Int)) (efc_J_rowadr_out : (Int → Int → Int)) (efc_J_colind_out : (Int → Int → Int → Int)) (efc_J_out : (Int → Int → Int → K)) (efc_pos_out : (Int → Int → K)) (efc_margin_out : (Int → Int → K)) (efc_D_out : (Int → Int → K)) (efc_vel_out : (Int → Int → K)) (efc_aref_out : (Int → Int → K)) (efc_frictionloss_out : (Int → Int → K)) (efc_nnz_out : (Int → Int)) (alloc0 : Int) (st_is_sparse_and_newton : Bool) (alloc1 : Int) (eq_data_shape0 : Int) (eq_solref_shape0 : Int) (eq_solimp_shape0 : Int) (tendon_length0_shape0 : Int) (tendon_invweight0_shape0 : Int) (st_is_sparse : Bool) (alloc2 : Int) (opt_timestep_shape0 : Int) (cl_rowadr : Int) (fuel : Nat) (tid0 : Int) (tid1 : Int)
local notation "KW" => Gen.Constraint._equality_tendon__kernel nv opt_timestep opt_disableflags eq_obj1id eq_obj2id eq_solref eq_solimp eq_data ten_J_rownnz ten_J_rowadr ten_J_colind tendon_length0 tendon_invweight0 eq_ten_adr qvel_in eq_active_in ten_J_in ten_length_in njmax_in njmax_nnz_in ne_out nefc_out efc_type_out efc_id_out efc_jtdaj_adr_out efc_jtdaj_nrow_out efc_jtdaj_nblock_out efc_J_rownnz_out efc_J_rowadr_out efc_J_colind_out efc_J_out efc_pos_out efc_margin_out efc_D_out efc_vel_out efc_aref_out efc_frictionloss_out efc_nnz_out alloc0 st_is_sparse_and_newton alloc1 eq_data_shape0 eq_solref_shape0 eq_solimp_shape0 tendon_length0_shape0 tendon_invweight0_shape0 st_is_sparse alloc2 opt_timestep_shape0 cl_rowadr fuel tid0 tid1

set_option maxHeartbeats 1600000 in
/-- the allocating atomic on `efc_nnz_out[w]` always carries an Int request -/
theorem equality_tendon_nnz_req (h : reached KW "efc_nnz_out" [tid0]) : ∃ n, allocReq KW "efc_nnz_out" [tid0] n := by
  revert h
  unfold Gen.Constraint._equality_tendon__kernel
  ksimp []
  all_goals (intros; try simp_all)
  all_goals (try tauto)
end equality_tendon


section equality_flex
variable {K : Type} [Scalar K] (nv : Int) (opt_timestep : (Int → K)) (opt_disableflags : Int) (flex_interp : (Int → Int)) (flex_edgeadr : (Int → Int)) (flex_edgenum : (Int → Int)) (flexedge_length0 : (Int → K)) (flexedge_invweight0 : (Int → K)) (flexedge_J_rownnz : (Int → Int)) (flexedge_J_rowadr : (Int → Int)) (flexedge_J_colind : (Int → Int)) (eq_obj1id : (Int → Int)) (eq_solref : (Int → Int → V2 K)) (eq_solimp : (Int → Int → V5 K)) (eq_flex_adr : (Int → Int)) (qvel_in : (Int → Int → K)) (eq_active_in : (Int → Int → Bool)) (flexedge_J_in : (Int → Int → K)) (flexedge_length_in : (Int → Int → K)) (njmax_in : Int) (njmax_nnz_in : Int) (ne_out : (Int → Int)) (nefc_out : (Int → Int)) (efc_type_out : (Int → Int → Int)) (efc_id_out : (Int → Int → Int)) (efc_jtdaj_adr_out : (Int → Int → Int)) (efc_jtdaj_nrow_out : (Int → Int → Int)) (efc_jtdaj_nblock_out : (Int → Int)) (efc_J_rownnz_out : (Int → Int → Int)) (efc_J_rowadr_out : (Int → Int → Int)) (efc_J_colind_out : (Int → Int → Int → Int)) (efc_J_out : (Int → Int → Int → K)) (efc_pos_out : (Int → Int → K)) (efc_margin_out : (Int → Int → K)) (efc_D_out : (Int → Int → K)) (efc_vel_out : (Int → Int → K)) (efc_aref_out : (Int → Int → K)) (efc_frictionloss_out : (Int → Int → K)) (efc_nnz_out : (Int → Int)) (alloc0 : Int) (st_is_sparse_and_newton : Bool) (alloc1 : Int) (eq_solref_shape0 : Int) (eq_solimp_shape0 : Int) (st_is_sparse : Bool) (alloc2 : Int) (opt_timestep_shape0 : Int) (tid0 : Int) (tid1 : Int) (tid2 : Int)
local notation "KW" => Gen.Constraint._equality_flex__kernel nv opt_timestep opt_disableflags flex_interp flex_edgeadr flex_edgenum flexedge_length0 flexedge_invweight0 flexedge_J_rownnz flexedge_J_rowadr flexedge_J_colind eq_obj1id eq_solref eq_solimp eq_flex_adr qvel_in eq_active_in flexedge_J_in flexedge_length_in njmax_in njmax_nnz_in ne_out nefc_out efc_type_out efc_id_out efc_jtdaj_adr_out efc_jtdaj_nrow_out efc_jtdaj_nblock_out efc_J_rownnz_out efc_J_rowadr_out efc_J_colind_out efc_J_out efc_pos_out efc_margin_out efc_D_out efc_vel_out efc_aref_out efc_frictionloss_out efc_nnz_out alloc0 st_is_sparse_and_newton alloc1 eq_solref_shape0 eq_solimp_shape0 st_is_sparse alloc2 opt_timestep_shape0 tid0 tid1 tid2

set_option maxHeartbeats 1600000 in
/-- the allocating atomic on `efc_nnz_out[w]` always carries an Int request -/
theorem equality_flex_nnz_req (h : reached KW "efc_nnz_out" [tid0]) : ∃ n, allocReq KW "efc_nnz_out" [tid0] n := by
  revert h
  unfold Gen.Constraint._equality_flex__kernel
  ksimp []
  all_goals (intros; try simp_all)
  all_goals (try tauto)
end equality_flex

end Mjw.Lemmas.C16
