/-
  Helper lemmas for property C21: the inertia-assembly tasks `_M` / `_tendon_armature` stay inside their CSR row
  (after /repo commit "fix: _M and _tendon_armature walked past the row of a simple dof …").
-/
import MjwVerif.Model.Kernel
import MjwVerif.Gen.Smooth

open Mjw

namespace Mjw.Lemmas.C21

variable {K : Type}

theorem whileFuel_inv' {σ : Type} (I : σ → Prop) (c : σ → Bool) (b : σ → σ)
    (hstep : ∀ s, I s → c s = true → I (b s)) : ∀ (fuel : Nat) (s : σ), I s → I (whileFuel fuel c b s) := by
  intro fuel
  induction fuel with
  | zero => intro s h; exact h
  | succ n ih =>
    intro s h
    show I (if c s then whileFuel n c b (b s) else s)
    by_cases hc : c s = true
    · rw [if_pos hc]; exact ih _ (hstep s h hc)
    · rw [if_neg hc]; exact h

/-- a write to `M_out[w, a]` with `a` inside the row `[rowadr, rowadr + rownnz)` -/
def InRow (rowadr rownnz w : Int) (x : Write K) : Prop :=
  x.arr = "M_out" ∧ ∃ a : Int, x.idx = [w, a] ∧ rowadr ≤ a ∧ a < rowadr + rownnz

theorem inRow_mk (rowadr rownnz w a : Int) (v : WVal K) (k : WKind) (h0 : rowadr ≤ a) (h1 : a < rowadr + rownnz) :
    InRow rowadr rownnz w (Write.mk "M_out" [w, a] v k : Write K) :=
  ⟨rfl, a, rfl, h0, h1⟩

theorem all_append_one {P : Write K → Prop} (ws : List (Write K)) (x : Write K) (h : ∀ y ∈ ws, P y) (hx : P x) :
    ∀ y ∈ ws ++ [x], P y := by
  intro y hy
  rcases List.mem_append.mp hy with h' | h'
  · exact h y h'
  · rw [List.mem_singleton] at h'; rw [h']; exact hx

end Mjw.Lemmas.C21
