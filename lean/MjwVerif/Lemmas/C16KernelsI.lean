/-
  C16 helper lemmas, kernel part I (NJMAX_NNZ): the nnz request of every builder is an Int request (second half); the report kernel `_nnz_overflow`.
-/
import MjwVerif.Lemmas.C16
set_option linter.unusedSimpArgs false
set_option linter.unusedVariables false
set_option linter.unusedTactic false
set_option linter.unreachableTactic false
set_option linter.unusedSectionVars false
namespace Mjw.Lemmas.C16
open Mjw


section friction_dof
variable {K : Type} [Scalar K] (nv : Int) (opt_timestep : (Int → K)) (opt_disableflags : Int) (dof_solref : (Int → Int → V2 K)) (dof_solimp : (Int → Int → V5 K)) (dof_frictionloss : (Int → Int → K)) (dof_invweight0 : (Int → Int → K)) (qvel_in : (Int → Int → K)) (njmax_in : Int) (njmax_nnz_in : Int) (nf_out : (Int → Int)) (nefc_out : (Int → Int)) (efc_type_out : (Int → Int → Int)) (efc_id_out : (Int → Int → Int)) (efc_jtdaj_adr_out : (Int → Int → Int)) (efc_jtdaj_nrow_out : (Int → Int → Int)) (efc_jtdaj_nblock_out : (Int → Int)) (efc_J_rownnz_out : (Int → Int → Int)) (efc_J_rowadr_out : (Int → Int → Int)) (efc_J_colind_out : (Int → Int → Int → Int)) (efc_J_out : (Int → Int → Int → K)) (efc_pos_out : (Int → Int → K)) (efc_margin_out : (Int → Int → K)) (efc_D_out : (Int → Int → K)) (efc_vel_out : (Int → Int → K)) (efc_aref_out : (Int → Int → K)) (efc_frictionloss_out : (Int → Int → K)) (efc_nnz_out : (Int → Int)) (dof_frictionloss_shape0 : Int) (alloc0 : Int) (st_is_sparse_and_newton : Bool) (alloc1 : Int) (st_is_sparse : Bool) (alloc2 : Int) (dof_invweight0_shape0 : Int) (dof_solref_shape0 : Int) (dof_solimp_shape0 : Int) (opt_timestep_shape0 : Int) (tid0 : Int) (tid1 : Int)
local notation "KW" => Gen.Constraint._friction_dof__kernel nv opt_timestep opt_disableflags dof_solref dof_solimp dof_frictionloss dof_invweight0 qvel_in njmax_in njmax_nnz_in nf_out nefc_out efc_type_out efc_id_out efc_jtdaj_adr_out efc_jtdaj_nrow_out efc_jtdaj_nblock_out efc_J_rownnz_out efc_J_rowadr_out efc_J_colind_out efc_J_out efc_pos_out efc_margin_out efc_D_out efc_vel_out efc_aref_out efc_frictionloss_out efc_nnz_out dof_frictionloss_shape0 alloc0 st_is_sparse_and_newton alloc1 st_is_sparse alloc2 dof_invweight0_shape0 dof_solref_shape0 dof_solimp_shape0 opt_timestep_shape0 tid0 tid1

set_option maxHeartbeats 1600000 in
/-- the allocating atomic on `efc_nnz_out[w]` always carries an Int request -/
theorem friction_dof_nnz_req (h : reached KW "efc_nnz_out" [tid0]) : ∃ n, allocReq KW "efc_nnz_out" [tid0] n := by
  revert h
  unfold Gen.Constraint._friction_dof__kernel
  ksimp []
  all_goals (intros; try simp_all)
  all_goals (try tauto)
end friction_dof


section friction_tendon
variable {K : Type} [Scalar K] (nv : Int) (opt_timestep : (Int → K)) (opt_disableflags : Int) (ten_J_rownnz : (Int → Int)) (ten_J_rowadr : (Int → Int)) (ten_J_colind : (Int → Int)) (tendon_solref_fri : (Int → Int → V2 K)) (tendon_solimp_fri : (Int → Int → V5 K)) (tendon_frictionloss : (Int → Int → K)) (tendon_invweight0 : (Int → Int → K)) (qvel_in : (Int → Int → K)) (ten_J_in : (Int → Int → K)) (njmax_in : Int) (njmax_nnz_in : Int) (nf_out : (Int → Int)) (nefc_out : (Int → Int)) (efc_type_out : (Int → Int → Int)) (efc_id_out : (Int → Int → Int)) (efc_jtdaj_adr_out : (Int → Int → Int)) (efc_jtdaj_nrow_out : (Int → Int → Int)) (efc_jtdaj_nblock_out : (Int → Int)) (efc_J_rownnz_out : (Int → Int → Int)) (efc_J_rowadr_out : (Int → Int → Int)) (efc_J_colind_out : (Int → Int → Int → Int)) (efc_J_out : (Int → Int → Int → K)) (efc_pos_out : (Int → Int → K)) (efc_margin_out : (Int → Int → K)) (efc_D_out : (Int → Int → K)) (efc_vel_out : (Int → Int → K)) (efc_aref_out : (Int → Int → K)) (efc_frictionloss_out : (Int → Int → K)) (efc_nnz_out : (Int → Int)) (tendon_frictionloss_shape0 : Int) (alloc0 : Int) (st_is_sparse_and_newton : Bool) (alloc1 : Int) (st_is_sparse : Bool) (alloc2 : Int) (tendon_invweight0_shape0 : Int) (tendon_solref_fri_shape0 : Int) (tendon_solimp_fri_shape0 : Int) (opt_timestep_shape0 : Int) (tid0 : Int) (tid1 : Int)
local notation "KW" => Gen.Constraint._friction_tendon__kernel nv opt_timestep opt_disableflags ten_J_rownnz ten_J_rowadr ten_J_colind tendon_solref_fri tendon_solimp_fri tendon_frictionloss tendon_invweight0 qvel_in ten_J_in njmax_in njmax_nnz_in nf_out nefc_out efc_type_out efc_id_out efc_jtdaj_adr_out efc_jtdaj_nrow_out efc_jtdaj_nblock_out efc_J_rownnz_out efc_J_rowadr_out efc_J_colind_out efc_J_out efc_pos_out efc_margin_out efc_D_out efc_vel_out efc_aref_out efc_frictionloss_out efc_nnz_out tendon_frictionloss_shape0 alloc0 st_is_sparse_and_newton alloc1 st_is_sparse alloc2 tendon_invweight0_shape0 tendon_solref_fri_shape0 tendon_solimp_fri_shape0 opt_timestep_shape0 tid0 tid1

set_option maxHeartbeats 1600000 in
/-- the allocating atomic on `efc_nnz_out[w]` always carries an Int request -/
theorem friction_tendon_nnz_req (h : reached KW "efc_nnz_out" [tid0]) : ∃ n, allocReq KW "efc_nnz_out" [tid0] n := by
  revert h
  unfold Gen.Constraint._friction_tendon__kernel
  ksimp []
  all_goals (intros; try simp_all)
  all_goals (try tauto)
end friction_tendon


section limit_slide_hinge
variable {K : Type} [Scalar K] (nv : Int) (opt_timestep : (Int → K)) (opt_disableflags : Int) (jnt_qposadr : (Int → Int)) (jnt_dofadr : (Int → Int)) (jnt_solref : (Int → Int → V2 K)) (jnt_solimp : (Int → Int → V5 K)) (jnt_range : (Int → Int → V2 K)) (jnt_margin : (Int → Int → K)) (dof_invweight0 : (Int → Int → K)) (jnt_limited_slide_hinge_adr : (Int → Int)) (qpos_in : (Int → Int → K)) (qvel_in : (Int → Int → K)) (njmax_in : Int) (njmax_nnz_in : Int) (nl_out : (Int → Int)) (nefc_out : (Int → Int)) (efc_type_out : (Int → Int → Int)) (efc_id_out : (Int → Int → Int)) (efc_jtdaj_adr_out : (Int → Int → Int)) (efc_jtdaj_nrow_out : (Int → Int → Int)) (efc_jtdaj_nblock_out : (Int → Int)) (efc_J_rownnz_out : (Int → Int → Int)) (efc_J_rowadr_out : (Int → Int → Int)) (efc_J_colind_out : (Int → Int → Int → Int)) (efc_J_out : (Int → Int → Int → K)) (efc_pos_out : (Int → Int → K)) (efc_margin_out : (Int → Int → K)) (efc_D_out : (Int → Int → K)) (efc_vel_out : (Int → Int → K)) (efc_aref_out : (Int → Int → K)) (efc_frictionloss_out : (Int → Int → K)) (efc_nnz_out : (Int → Int)) (jnt_range_shape0 : Int) (jnt_margin_shape0 : Int) (alloc0 : Int) (st_is_sparse_and_newton : Bool) (alloc1 : Int) (st_is_sparse : Bool) (alloc2 : Int) (dof_invweight0_shape0 : Int) (jnt_solref_shape0 : Int) (jnt_solimp_shape0 : Int) (opt_timestep_shape0 : Int) (tid0 : Int) (tid1 : Int)
local notation "KW" => Gen.Constraint._limit_slide_hinge__kernel nv opt_timestep opt_disableflags jnt_qposadr jnt_dofadr jnt_solref jnt_solimp jnt_range jnt_margin dof_invweight0 jnt_limited_slide_hinge_adr qpos_in qvel_in njmax_in njmax_nnz_in nl_out nefc_out efc_type_out efc_id_out efc_jtdaj_adr_out efc_jtdaj_nrow_out efc_jtdaj_nblock_out efc_J_rownnz_out efc_J_rowadr_out efc_J_colind_out efc_J_out efc_pos_out efc_margin_out efc_D_out efc_vel_out efc_aref_out efc_frictionloss_out efc_nnz_out jnt_range_shape0 jnt_margin_shape0 alloc0 st_is_sparse_and_newton alloc1 st_is_sparse alloc2 dof_invweight0_shape0 jnt_solref_shape0 jnt_solimp_shape0 opt_timestep_shape0 tid0 tid1

set_option maxHeartbeats 1600000 in
/-- the allocating atomic on `efc_nnz_out[w]` always carries an Int request -/
theorem limit_slide_hinge_nnz_req (h : reached KW "efc_nnz_out" [tid0]) : ∃ n, allocReq KW "efc_nnz_out" [tid0] n := by
  revert h
  unfold Gen.Constraint._limit_slide_hinge__kernel
  ksimp []
  all_goals (intros; try simp_all)
  all_goals (try tauto)
end limit_slide_hinge


section limit_ball
variable {K : Type} [Scalar K] (nv : Int) (opt_timestep : (Int → K)) (opt_disableflags : Int) (jnt_qposadr : (Int → Int)) (jnt_dofadr : (Int → Int)) (jnt_solref : (Int → Int → V2 K)) (jnt_solimp : (Int → Int → V5 K)) (jnt_range : (Int → Int → V2 K)) (jnt_margin : (Int → Int → K)) (dof_invweight0 : (Int → Int → K)) (jnt_limited_ball_adr : (Int → Int)) (qpos_in : (Int → Int → K)) (qvel_in : (Int → Int → K)) (njmax_in : Int) (njmax_nnz_in : Int) (nl_out : (Int → Int)) (nefc_out : (Int → Int)) (efc_type_out : (Int → Int → Int)) (efc_id_out : (Int → Int → Int)) (efc_jtdaj_adr_out : (Int → Int → Int)) (efc_jtdaj_nrow_out : (Int → Int → Int)) (efc_jtdaj_nblock_out : (Int → Int)) (efc_J_rownnz_out : (Int → Int → Int)) (efc_J_rowadr_out : (Int → Int → Int)) (efc_J_colind_out : (Int → Int → Int → Int)) (efc_J_out : (Int → Int → Int → K)) (efc_pos_out : (Int → Int → K)) (efc_margin_out : (Int → Int → K)) (efc_D_out : (Int → Int → K)) (efc_vel_out : (Int → Int → K)) (efc_aref_out : (Int → Int → K)) (efc_frictionloss_out : (Int → Int → K)) (efc_nnz_out : (Int → Int)) (jnt_range_shape0 : Int) (jnt_margin_shape0 : Int) (alloc0 : Int) (st_is_sparse_and_newton : Bool) (alloc1 : Int) (st_is_sparse : Bool) (alloc2 : Int) (dof_invweight0_shape0 : Int) (jnt_solref_shape0 : Int) (jnt_solimp_shape0 : Int) (opt_timestep_shape0 : Int) (tid0 : Int) (tid1 : Int)
local notation "KW" => Gen.Constraint._limit_ball__kernel nv opt_timestep opt_disableflags jnt_qposadr jnt_dofadr jnt_solref jnt_solimp jnt_range jnt_margin dof_invweight0 jnt_limited_ball_adr qpos_in qvel_in njmax_in njmax_nnz_in nl_out nefc_out efc_type_out efc_id_out efc_jtdaj_adr_out efc_jtdaj_nrow_out efc_jtdaj_nblock_out efc_J_rownnz_out efc_J_rowadr_out efc_J_colind_out efc_J_out efc_pos_out efc_margin_out efc_D_out efc_vel_out efc_aref_out efc_frictionloss_out efc_nnz_out jnt_range_shape0 jnt_margin_shape0 alloc0 st_is_sparse_and_newton alloc1 st_is_sparse alloc2 dof_invweight0_shape0 jnt_solref_shape0 jnt_solimp_shape0 opt_timestep_shape0 tid0 tid1

set_option maxHeartbeats 1600000 in
/-- the allocating atomic on `efc_nnz_out[w]` always carries an Int request -/
theorem limit_ball_nnz_req (h : reached KW "efc_nnz_out" [tid0]) : ∃ n, allocReq KW "efc_nnz_out" [tid0] n := by
  revert h
  unfold Gen.Constraint._limit_ball__kernel
  ksimp []
  all_goals (intros; try simp_all)
  all_goals (try tauto)
end limit_ball


section limit_tendon
variable {K : Type} [Scalar K] (nv : Int) (opt_timestep : (Int → K)) (opt_disableflags : Int) (ten_J_rownnz : (Int → Int)) (ten_J_rowadr : (Int → Int)) (ten_J_colind : (Int → Int)) (tendon_solref_lim : (Int → Int → V2 K)) (tendon_solimp_lim : (Int → Int → V5 K)) (tendon_range : (Int → Int → V2 K)) (tendon_margin : (Int → Int → K)) (tendon_invweight0 : (Int → Int → K)) (tendon_limited_adr : (Int → Int)) (qvel_in : (Int → Int → K)) (ten_J_in : (Int → Int → K)) (ten_length_in : (Int → Int → K)) (njmax_in : Int) (njmax_nnz_in : Int) (nl_out : (Int → Int)) (nefc_out : (Int → Int)) (efc_type_out : (Int → Int → Int)) (efc_id_out : (Int → Int → Int)) (efc_jtdaj_adr_out : (Int → Int → Int)) (efc_jtdaj_nrow_out : (Int → Int → Int)) (efc_jtdaj_nblock_out : (Int → Int)) (efc_J_rownnz_out : (Int → Int → Int)) (efc_J_rowadr_out : (Int → Int → Int)) (efc_J_colind_out : (Int → Int → Int → Int)) (efc_J_out : (Int → Int → Int → K)) (efc_pos_out : (Int → Int → K)) (efc_margin_out : (Int → Int → K)) (efc_D_out : (Int → Int → K)) (efc_vel_out : (Int → Int → K)) (efc_aref_out : (Int → Int → K)) (efc_frictionloss_out : (Int → Int → K)) (efc_nnz_out : (Int → Int)) (tendon_range_shape0 : Int) (tendon_margin_shape0 : Int) (alloc0 : Int) (st_is_sparse_and_newton : Bool) (alloc1 : Int) (st_is_sparse : Bool) (alloc2 : Int) (tendon_invweight0_shape0 : Int) (tendon_solref_lim_shape0 : Int) (tendon_solimp_lim_shape0 : Int) (opt_timestep_shape0 : Int) (tid0 : Int) (tid1 : Int)
local notation "KW" => Gen.Constraint._limit_tendon__kernel nv opt_timestep opt_disableflags ten_J_rownnz ten_J_rowadr ten_J_colind tendon_solref_lim tendon_solimp_lim tendon_range tendon_margin tendon_invweight0 tendon_limited_adr qvel_in ten_J_in ten_length_in njmax_in njmax_nnz_in nl_out nefc_out efc_type_out efc_id_out efc_jtdaj_adr_out efc_jtdaj_nrow_out efc_jtdaj_nblock_out efc_J_rownnz_out efc_J_rowadr_out efc_J_colind_out efc_J_out efc_pos_out efc_margin_out efc_D_out efc_vel_out efc_aref_out efc_frictionloss_out efc_nnz_out tendon_range_shape0 tendon_margin_shape0 alloc0 st_is_sparse_and_newton alloc1 st_is_sparse alloc2 tendon_invweight0_shape0 tendon_solref_lim_shape0 tendon_solimp_lim_shape0 opt_timestep_shape0 tid0 tid1

set_option maxHeartbeats 1600000 in
/-- the allocating atomic on `efc_nnz_out[w]` always carries an Int request -/
theorem limit_tendon_nnz_req (h : reached KW "efc_nnz_out" [tid0]) : ∃ n, allocReq KW "efc_nnz_out" [tid0] n := by
  revert h
  unfold Gen.Constraint._limit_tendon__kernel
  ksimp []
  all_goals (intros; try simp_all)
  all_goals (try tauto)
end limit_tendon


section contact_init
variable {K : Type} [Scalar K] (body_weldid : (Int → Int)) (body_dofnum : (Int → Int)) (body_dofadr : (Int → Int)) (dof_parentid : (Int → Int)) (geom_bodyid : (Int → Int)) (njmax_in : Int) (njmax_nnz_in : Int) (nacon_in : (Int → Int)) (dist_in : (Int → K)) (condim_in : (Int → Int)) (includemargin_in : (Int → K)) (adhesion_in : (Int → K)) (worldid_in : (Int → Int)) (geom_in : (Int → I2)) (type_in : (Int → Int)) (nefc_out : (Int → Int)) (contact_efc_address_out : (Int → Int → Int)) (efc_id_out : (Int → Int → Int)) (efc_jtdaj_adr_out : (Int → Int → Int)) (efc_jtdaj_nrow_out : (Int → Int → Int)) (efc_jtdaj_nblock_out : (Int → Int)) (efc_J_rownnz_out : (Int → Int → Int)) (efc_J_rowadr_out : (Int → Int → Int)) (efc_nnz_out : (Int → Int)) (st_flg_adhesion : Bool) (st_IS_ELLIPTIC : Bool) (alloc0 : Int) (st_is_sparse_and_newton : Bool) (alloc1 : Int) (st_IS_SPARSE : Bool) (alloc2 : Int) (fuel : Nat) (tid0 : Int)
local notation "KW" => Gen.Constraint._efc_contact_init__kernel body_weldid body_dofnum body_dofadr dof_parentid geom_bodyid njmax_in njmax_nnz_in nacon_in dist_in condim_in includemargin_in adhesion_in worldid_in geom_in type_in nefc_out contact_efc_address_out efc_id_out efc_jtdaj_adr_out efc_jtdaj_nrow_out efc_jtdaj_nblock_out efc_J_rownnz_out efc_J_rowadr_out efc_nnz_out st_flg_adhesion st_IS_ELLIPTIC alloc0 st_is_sparse_and_newton alloc1 st_IS_SPARSE alloc2 fuel tid0

set_option maxHeartbeats 1600000 in
/-- the allocating atomic on `efc_nnz_out[w]` always carries an Int request -/
theorem contact_init_nnz_req (h : reached KW "efc_nnz_out" [worldid_in tid0]) : ∃ n, allocReq KW "efc_nnz_out" [worldid_in tid0] n := by
  revert h
  unfold Gen.Constraint._efc_contact_init__kernel
  ksimp []
  all_goals (intros; try simp_all)
  all_goals (try tauto)
end contact_init


/-- `_nnz_overflow`: the complete write list of the task of world `w` -/
theorem nnz_overflow_eq {K : Type} [Scalar K] (njmax_nnz_in : Int) (efc_nnz_in overflow_out : Int → Int) (tid0 : Int) :
    Gen.Constraint._nnz_overflow (K := K) njmax_nnz_in efc_nnz_in overflow_out tid0
      = if efc_nnz_in tid0 > njmax_nnz_in then
          [⟨"overflow_out", [tid0], WVal.i (Mjw.ior (overflow_out tid0) 2), WKind.set⟩]
        else [] := by
  unfold Gen.Constraint._nnz_overflow
  by_cases h : efc_nnz_in tid0 > njmax_nnz_in
  · simp [h, Write.lookupI]
  · simp [h]

end Mjw.Lemmas.C16
