/-
  Helper lemmas for property C03: the shape of the generated `_actuator_force` kernel (forward.py), every `K`.

  The kernel body is ~370 lines of nested `let (a, b, …) := if … then … else …`.  `unfold` + `simp`/`dsimp`/`rfl`
  time out on it; what works (5–8 s per theorem): `unfold`, `conv => zeta`, then repeatedly
  `generalize (ite <cond> _ _) = t` for the closed scrutinee of the next tuple-`match` and `split`.
-/
import MjwVerif.Gen.Forward
open Mjw

namespace Mjw.Lemmas.C03

/-- the control value `_actuator_force` works with: `ctrl` clamped to `ctrlrange` iff the actuator is
    `ctrllimited` and the CLAMPCTRL disable flag is clear -/
def usedCtrl {K : Type} [Scalar K] (lim : Bool) (dsbl : Int) (x : K) (rng : V2 K) : K :=
  if (lim && !(decide (dsbl ≠ 0))) then Scalar.clamp x rng.c0 rng.c1 else x

/-- what `_actuator_force` does with `gain*ctrl_act + bias` before storing it: clamp to `forcerange` iff
    `forcelimited`; then, for the DCMOTOR bias type (3) only, ADD the cogging torque
    `A sin(Np·length + φ)` (if `A ≠ 0`) and SUBTRACT the LuGre friction `σ0 z + σ1 ż` (if `σ0 > 0`) -/
def forceTail {K : Type} [Scalar K] (limited : Bool) (rng : V2 K) (biastype : Int) (biasprm dynprm : V10 K) (len : K)
    (z z_dot : K) (gain ctrl_act bias : K) : K :=
  let force : K := gain * ctrl_act + bias
  let force : K := if limited then Scalar.clamp force rng.c0 rng.c1 else force
  if biastype = 3 then
    let force : K := if Scalar.bne biasprm.c0 (Scalar.lit 0 0) then
      force + biasprm.c0 * Scalar.sin (biasprm.c1 * len + biasprm.c2) else force
    if Scalar.gt dynprm.c5 (Scalar.lit 0 0) then force - (dynprm.c5 * z + dynprm.c6 * z_dot) else force
  else force

/-- **shape of the force write**: the last write of an `_actuator_force` task `(w, u)` is
    `actuator_force_out[w, u] := forceTail(…, gain, ctrl_act, bias)` for some `gain`, `ctrl_act`, `bias`
    (computed by the gain/bias/activation blocks), everything before it being the task's `act_dot` writes -/
theorem actuator_force_shape {K : Type} [Scalar K] (na : Int) (opt_timestep : Int → K) (actuator_dyntype actuator_gaintype actuator_biastype actuator_actadr
    actuator_actnum : Int → Int) (actuator_dynprm actuator_gainprm actuator_biasprm : Int → Int → V10 K)
    (actuator_actlimited : Int → Bool) (actuator_actrange : Int → Int → V2 K) (actuator_actearly actuator_forcelimited
    : Int → Bool) (actuator_forcerange : Int → Int → V2 K) (actuator_ctrllimited : Int → Bool) (actuator_ctrlrange :
    Int → Int → V2 K) (actuator_acc0 : Int → Int → K) (actuator_lengthrange : Int → Int → V2 K) (act_in ctrl_in
    actuator_length_in actuator_velocity_in : Int → Int → K) (dsbl_clampctrl : Int) (act_dot_out actuator_force_out :
    Int → Int → K) (s0 s1 s2 s3 s4 s5 s6 s7 s8 : Int) (w u : Int) :
    ∃ (ws0 : List (Write K)) (gain ctrl_act bias z z_dot : K) (dynprm : V10 K),
    Gen.Forward._actuator_force na opt_timestep actuator_dyntype actuator_gaintype actuator_biastype actuator_actadr
    actuator_actnum actuator_dynprm actuator_gainprm actuator_biasprm actuator_actlimited actuator_actrange
    actuator_actearly actuator_forcelimited actuator_forcerange actuator_ctrllimited actuator_ctrlrange actuator_acc0
    actuator_lengthrange act_in ctrl_in actuator_length_in actuator_velocity_in dsbl_clampctrl act_dot_out
    actuator_force_out s0 s1 s2 s3 s4 s5 s6 s7 s8 w u
      = ws0 ++ [Write.mk "actuator_force_out" [w, u] (WVal.f (forceTail (actuator_forcelimited u)
          (actuator_forcerange (Int.tmod w s8) u) (actuator_biastype u) (actuator_biasprm (Int.tmod w s4) u) dynprm
          (actuator_length_in w u) z z_dot gain ctrl_act bias)) WKind.set] := by
  unfold Gen.Forward._actuator_force
  conv => enter [1, ws0, 1, gain, 1, ctrl_act, 1, bias, 1, z, 1, z_dot, 1, dynprm, 1]; zeta
  generalize (ite ((actuator_ctrllimited u && !decide (dsbl_clampctrl ≠ 0)) = true) _ _ : V2 K × K) = t0
  split
  generalize ht1 : (ite ((decide (na ≠ 0) && decide (actuator_actadr u ≥ (0:Int))) = true) _ _) = t1
  clear ht1
  split
  rename_i t1v act_last dyntype dynprm act_dot act gainprm slots adr x_I V R K' te u_prev slew_s slew u_eff ws ctrl2
    input_mode Imax RT C Ta alpha T0 T R_eff current sigma0 biasprm F_C F_S v_S z g a dimax ctrl_act0 offset actrange
    velocity h exp_ah int_h
  generalize ht2 : (ite (decide (actuator_gaintype u = (0:Int)) = true) _ _) = t2
  clear ht2
  split
  rename_i t2v gain acc0' lengthrange' R' K2 te' slots' adr' T' alpha' T0' Ta' input_mode' x_I' ctrl_act
  generalize ht3 : (ite (decide (actuator_biastype u = (1:Int)) = true) _ _) = t3
  clear ht3
  split
  rename_i t3v bias acc0 lengthrange K''
  refine ⟨ws, gain, ctrl_act, bias,
    act_in w (actuator_actadr u + (Gen.Util_misc.dcmotor_slots dynprm (actuator_gainprm (Int.tmod w s2) u)).c3),
    Write.lookupF ws "act_dot_out"
      [w, actuator_actadr u + (Gen.Util_misc.dcmotor_slots dynprm (actuator_gainprm (Int.tmod w s2) u)).c3]
      (act_dot_out w (actuator_actadr u + (Gen.Util_misc.dcmotor_slots dynprm (actuator_gainprm (Int.tmod w s2) u)).c3)),
    dynprm, ?_⟩
  simp only [forceTail]
  cases hl : actuator_forcelimited u <;> by_cases hb : actuator_biastype u = 3 <;>
    simp only [hb, decide_true, decide_false, if_true, if_false, Bool.false_eq_true] <;>
    (first | rfl | (split <;> first | rfl | (split <;> rfl)))

/-- **the kernel sees `ctrl` only through the clamp**: an `_actuator_force` task `(w, u)` gives the same
    writes as the task of an UNLIMITED actuator fed with `usedCtrl(ctrllimited[u], dsbl_clampctrl, ctrl[w,u],
    ctrlrange[w % n, u])` -/
theorem actuator_force_ctrl_clamp {K : Type} [Scalar K] (na : Int) (opt_timestep : Int → K) (actuator_dyntype actuator_gaintype actuator_biastype actuator_actadr
    actuator_actnum : Int → Int) (actuator_dynprm actuator_gainprm actuator_biasprm : Int → Int → V10 K)
    (actuator_actlimited : Int → Bool) (actuator_actrange : Int → Int → V2 K) (actuator_actearly actuator_forcelimited
    : Int → Bool) (actuator_forcerange : Int → Int → V2 K) (actuator_ctrllimited : Int → Bool) (actuator_ctrlrange :
    Int → Int → V2 K) (actuator_acc0 : Int → Int → K) (actuator_lengthrange : Int → Int → V2 K) (act_in ctrl_in
    actuator_length_in actuator_velocity_in : Int → Int → K) (dsbl_clampctrl : Int) (act_dot_out actuator_force_out :
    Int → Int → K) (s0 s1 s2 s3 s4 s5 s6 s7 s8 : Int) (w u : Int) :
    Gen.Forward._actuator_force na opt_timestep actuator_dyntype actuator_gaintype actuator_biastype actuator_actadr
    actuator_actnum actuator_dynprm actuator_gainprm actuator_biasprm actuator_actlimited actuator_actrange
    actuator_actearly actuator_forcelimited actuator_forcerange actuator_ctrllimited actuator_ctrlrange actuator_acc0
    actuator_lengthrange act_in ctrl_in actuator_length_in actuator_velocity_in dsbl_clampctrl act_dot_out
    actuator_force_out s0 s1 s2 s3 s4 s5 s6 s7 s8 w u
    = Gen.Forward._actuator_force na opt_timestep actuator_dyntype actuator_gaintype actuator_biastype actuator_actadr
    actuator_actnum actuator_dynprm actuator_gainprm actuator_biasprm actuator_actlimited actuator_actrange
    actuator_actearly actuator_forcelimited actuator_forcerange (fun _ => false) actuator_ctrlrange actuator_acc0
    actuator_lengthrange act_in (fun _ _ => usedCtrl (actuator_ctrllimited u) dsbl_clampctrl (ctrl_in w u)
    (actuator_ctrlrange (Int.tmod w s0) u)) actuator_length_in actuator_velocity_in dsbl_clampctrl act_dot_out
    actuator_force_out s0 s1 s2 s3 s4 s5 s6 s7 s8 w u := by
  unfold Gen.Forward._actuator_force
  conv => lhs; zeta
  conv => rhs; zeta
  generalize hL : (ite ((actuator_ctrllimited u && !decide (dsbl_clampctrl ≠ 0)) = true) _ _ : V2 K × K) = tL
  generalize hR : (ite ((false && !decide (dsbl_clampctrl ≠ 0)) = true) _ _ : V2 K × K) = tR
  have h2 : tL.2 = tR.2 := by
    rw [← hL, ← hR]
    simp only [usedCtrl, Bool.false_and, Bool.false_eq_true, if_false]
    split <;> rfl
  clear hL hR
  obtain ⟨a, b⟩ := tL
  obtain ⟨a', b'⟩ := tR
  simp only at h2
  subst h2
  rfl

end Mjw.Lemmas.C03
