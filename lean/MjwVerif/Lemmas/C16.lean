/-
  Helper lemmas for C16 (capacity overflow is never silent).

  Part A: the arena model `Model/Alloc.lean` (core Lean only).
  Part B: a small calculus for answering questions about the write list of a generated tier-B kernel
          WITHOUT looking at values: `AllW P ws` (every write satisfies `P`), `AnyW Q ws` (some write
          satisfies `Q`), simp lemmas pushing them through `++`, `if`, tuple projections, `forRange`/
          `whileFuel` loops whose body only adds writes that are neutral for the question, and through
          the shared row writer `_efc_row`.
  Part C: int32 bit facts for the overflow word.
-/
import MjwVerif.Lemmas.Real
import MjwVerif.Model.Alloc
import MjwVerif.Gen.Constraint

namespace Mjw.Lemmas.C16
open Mjw

/-! ## Part A: arena model -/
section model
open Mjw.Alloc

theorem finalFrom_eq (l : List Req) (c : Int) : finalFrom l c = c + finalFrom l 0 := by
  induction l generalizing c with
  | nil => simp [finalFrom]
  | cons q qs ih =>
    simp only [finalFrom]
    rw [ih (c + q.k), ih (0 + q.k)]; omega

theorem finalFrom_ge (l : List Req) (c : Int) : c ≤ finalFrom l c := by
  induction l generalizing c with
  | nil => simp [finalFrom]
  | cons q qs ih =>
    simp only [finalFrom]
    have := ih (c + q.k); omega

theorem finalFrom_perm {l₁ l₂ : List Req} (p : l₁.Perm l₂) (c : Int) : finalFrom l₁ c = finalFrom l₂ c := by
  induction p generalizing c with
  | nil => rfl
  | cons x _ ih => simp only [finalFrom]; exact ih _
  | swap x y l =>
    simp only [finalFrom]
    congr 1; omega
  | trans _ _ ih1 ih2 => exact (ih1 c).trans (ih2 c)

theorem final_perm {l₁ l₂ : List Req} (p : l₁.Perm l₂) : final l₁ = final l₂ := finalFrom_perm p 0

/-- every block lies between the counter value at the start and the final counter value -/
theorem mem_runFrom_bounds (guard : Guard) (C : Int) (l : List Req) (c : Int) (g : Grant)
    (hg : g ∈ runFrom guard C l c) : c ≤ g.off ∧ g.off + g.k ≤ finalFrom l c := by
  induction l generalizing c with
  | nil => cases hg
  | cons q qs ih =>
    simp only [runFrom, List.mem_cons] at hg
    rcases hg with rfl | hg
    · simp only [finalFrom]
      exact ⟨Int.le_refl _, finalFrom_ge qs _⟩
    · have := ih _ hg
      simp only [finalFrom]
      omega

/-- the grant of a block is exactly the guard evaluated at its offset -/
theorem mem_runFrom_granted (guard : Guard) (C : Int) (l : List Req) (c : Int) (g : Grant)
    (hg : g ∈ runFrom guard C l c) : g.granted = guard g.off g.k C := by
  induction l generalizing c with
  | nil => cases hg
  | cons q qs ih =>
    simp only [runFrom, List.mem_cons] at hg
    rcases hg with rfl | hg
    · rfl
    · exact ih _ hg

/-- blocks are laid out one after the other in processing order (whatever the guards say) -/
theorem runFrom_pairwise (guard : Guard) (C : Int) (l : List Req) (c : Int) :
    (runFrom guard C l c).Pairwise (fun (g h : Grant) => g.off + (g.k : Int) ≤ h.off) := by
  induction l generalizing c with
  | nil => exact List.Pairwise.nil
  | cons q qs ih =>
    simp only [runFrom]
    refine List.Pairwise.cons ?_ (ih _)
    intro h hh
    exact (mem_runFrom_bounds guard C qs _ h hh).1

/-- forgetting offsets and grants gives back the request list -/
theorem runFrom_reqs (guard : Guard) (C : Int) (l : List Req) (c : Int) :
    (runFrom guard C l c).map (fun g => (⟨g.id, g.k⟩ : Req)) = l := by
  induction l generalizing c with
  | nil => rfl
  | cons q qs ih => simp only [runFrom, List.map_cons, ih]

theorem runFrom_length (guard : Guard) (C : Int) (l : List Req) (c : Int) :
    (runFrom guard C l c).length = l.length := by
  induction l generalizing c with
  | nil => rfl
  | cons q qs ih => simp only [runFrom, List.length_cons, ih]

/-- two guards that agree on the blocks of the run give the same run -/
theorem runFrom_congr (g₁ g₂ : Guard) (C : Int) (l : List Req) (c : Int)
    (h : ∀ off, c ≤ off → ∀ k : Nat, off + (k : Int) ≤ finalFrom l c → g₁ off k C = g₂ off k C) :
    runFrom g₁ C l c = runFrom g₂ C l c := by
  induction l generalizing c with
  | nil => rfl
  | cons q qs ih =>
    simp only [runFrom]
    have h0 : g₁ c q.k C = g₂ c q.k C :=
      h c (Int.le_refl _) q.k (by simp only [finalFrom]; exact finalFrom_ge qs _)
    rw [h0, ih]
    intro off ho k hk
    exact h off (by omega) k (by simpa only [finalFrom] using hk)

theorem grantedReqs_all (gs : List Grant) (h : ∀ g ∈ gs, g.granted = true) :
    grantedReqs gs = gs.map (fun g => (⟨g.id, g.k⟩ : Req)) := by
  unfold grantedReqs
  rw [List.filter_eq_self.mpr h]

end model

/-! ## Part B: questions about write lists -/

variable {K : Type}

/-- every write of the list satisfies `P` -/
def AllW (P : Write K → Prop) (ws : List (Write K)) : Prop := ∀ w ∈ ws, P w
/-- some write of the list satisfies `Q` -/
def AnyW (Q : Write K → Prop) (ws : List (Write K)) : Prop := ∃ w ∈ ws, Q w

theorem allW_nil_iff (P : Write K → Prop) : AllW P ([] : List (Write K)) ↔ True :=
  ⟨fun _ => trivial, fun _ w hw => by cases hw⟩
theorem allW_append (P : Write K → Prop) (a b : List (Write K)) :
    AllW P (a ++ b) ↔ AllW P a ∧ AllW P b := by
  unfold AllW; simp only [List.mem_append]
  exact ⟨fun h => ⟨fun w hw => h w (Or.inl hw), fun w hw => h w (Or.inr hw)⟩,
    fun h w hw => hw.elim (h.1 w) (h.2 w)⟩
theorem allW_cons (P : Write K → Prop) (x : Write K) (b : List (Write K)) :
    AllW P (x :: b) ↔ P x ∧ AllW P b := by
  unfold AllW; simp only [List.mem_cons]
  exact ⟨fun h => ⟨h x (Or.inl rfl), fun w hw => h w (Or.inr hw)⟩,
    fun h w hw => hw.elim (fun e => e ▸ h.1) (h.2 w)⟩
theorem allW_ite (P : Write K → Prop) (c : Prop) [Decidable c] (a b : List (Write K)) :
    AllW P (if c then a else b) ↔ if c then AllW P a else AllW P b := by
  split <;> rfl

theorem anyW_nil_iff (Q : Write K → Prop) : AnyW Q ([] : List (Write K)) ↔ False :=
  ⟨fun h => (by obtain ⟨_, hw, _⟩ := h; cases hw), False.elim⟩
theorem anyW_append (Q : Write K → Prop) (a b : List (Write K)) :
    AnyW Q (a ++ b) ↔ AnyW Q a ∨ AnyW Q b := by
  unfold AnyW; simp only [List.mem_append]
  constructor
  · rintro ⟨w, hw | hw, h⟩
    · exact Or.inl ⟨w, hw, h⟩
    · exact Or.inr ⟨w, hw, h⟩
  · rintro (⟨w, hw, h⟩ | ⟨w, hw, h⟩)
    · exact ⟨w, Or.inl hw, h⟩
    · exact ⟨w, Or.inr hw, h⟩
theorem anyW_cons (Q : Write K → Prop) (x : Write K) (b : List (Write K)) :
    AnyW Q (x :: b) ↔ Q x ∨ AnyW Q b := by
  unfold AnyW; simp only [List.mem_cons]
  constructor
  · rintro ⟨w, hw | hw, h⟩
    · exact Or.inl (hw ▸ h)
    · exact Or.inr ⟨w, hw, h⟩
  · rintro (h | ⟨w, hw, h⟩)
    · exact ⟨x, Or.inl rfl, h⟩
    · exact ⟨w, Or.inr hw, h⟩
theorem anyW_ite (Q : Write K → Prop) (c : Prop) [Decidable c] (a b : List (Write K)) :
    AnyW Q (if c then a else b) ↔ if c then AnyW Q a else AnyW Q b := by
  split <;> rfl

theorem fst_ite {α β : Type _} (c : Prop) [Decidable c] (a b : α × β) :
    (if c then a else b).1 = if c then a.1 else b.1 := by split <;> rfl
theorem snd_ite {α β : Type _} (c : Prop) [Decidable c] (a b : α × β) :
    (if c then a else b).2 = if c then a.2 else b.2 := by split <;> rfl

/-! ### loops -/

theorem forRange_inv {σ : Type} (I : σ → Prop) (lo hi : Int) (init : σ) (f : Int → σ → σ)
    (h0 : I init) (hs : ∀ i s, lo ≤ i → i < hi → I s → I (f i s)) : I (forRange lo hi init f) := by
  unfold forRange
  have key : ∀ (l : List Nat) (init : σ), (∀ k ∈ l, (k : Int) < hi - lo) → I init →
      I (l.foldl (fun s (k : Nat) => f (lo + Int.ofNat k) s) init) := by
    intro l
    induction l with
    | nil => intro init _ h; exact h
    | cons a l ih =>
      intro init hl h
      have ha := hl a (List.mem_cons_self)
      exact ih _ (fun k hk => hl k (List.mem_cons_of_mem _ hk))
        (hs _ _ (by simp) (by simp only [Int.ofNat_eq_natCast]; omega) h)
  apply key _ _ _ h0
  intro k hk
  have := List.mem_range.mp hk
  omega

theorem whileFuel_inv {σ : Type} (I : σ → Prop) (fuel : Nat) (c : σ → Bool) (b : σ → σ) (init : σ)
    (h0 : I init) (hs : ∀ s, I s → I (b s)) : I (whileFuel fuel c b init) := by
  induction fuel generalizing init with
  | zero => exact h0
  | succ n ih =>
    unfold whileFuel
    split
    · exact ih _ (hs _ h0)
    · exact h0

/-- `for i in range(0, n): ws += g i`  lists the `g i` in order: membership -/
theorem mem_forRange_append {α : Type} (n : Int) (ws : List α) (g : Int → List α) (x : α) :
    x ∈ forRange 0 n ws (fun i st => st ++ g i) ↔ x ∈ ws ∨ ∃ i, 0 ≤ i ∧ i < n ∧ x ∈ g i := by
  unfold forRange
  have key : ∀ (m : Nat) (ws : List α),
      x ∈ (List.range m).foldl (fun s (k : Nat) => s ++ g (0 + Int.ofNat k)) ws
        ↔ x ∈ ws ∨ ∃ i : Int, 0 ≤ i ∧ i < m ∧ x ∈ g i := by
    intro m
    induction m with
    | zero => intro ws; simp; intro i h1 h2; omega
    | succ m ih =>
      intro ws
      rw [List.range_succ, List.foldl_append]
      simp only [List.foldl_cons, List.foldl_nil, List.mem_append, ih]
      constructor
      · rintro ((h | ⟨i, h1, h2, h3⟩) | h)
        · exact Or.inl h
        · exact Or.inr ⟨i, h1, by omega, h3⟩
        · exact Or.inr ⟨(m : Int), by omega, by omega, by simpa using h⟩
      · rintro (h | ⟨i, h1, h2, h3⟩)
        · exact Or.inl (Or.inl h)
        · by_cases hi : i < m
          · exact Or.inl (Or.inr ⟨i, h1, hi, h3⟩)
          · have : i = (m : Int) := by omega
            subst this
            exact Or.inr (by simpa using h3)
  have := key (n - 0).toNat ws
  rw [this]
  constructor
  · rintro (h | ⟨i, h1, h2, h3⟩)
    · exact Or.inl h
    · exact Or.inr ⟨i, h1, by omega, h3⟩
  · rintro (h | ⟨i, h1, h2, h3⟩)
    · exact Or.inl h
    · exact Or.inr ⟨i, h1, by omega, h3⟩

section loops
variable (R : List (Write K) → Prop)

theorem forRange_proj {σ : Type} (proj : σ → List (Write K)) (lo hi : Int) (init : σ) (f : Int → σ → σ)
    (h : ∀ i s, lo ≤ i → i < hi → (R (proj (f i s)) ↔ R (proj s))) :
    R (proj (forRange lo hi init f)) ↔ R (proj init) :=
  forRange_inv (fun s => R (proj s) ↔ R (proj init)) lo hi init f Iff.rfl
    (fun i s h1 h2 hI => (h i s h1 h2).trans hI)

theorem whileFuel_proj {σ : Type} (proj : σ → List (Write K)) (fuel : Nat) (c : σ → Bool) (b : σ → σ) (init : σ)
    (h : ∀ s, (R (proj (b s)) ↔ R (proj s))) :
    R (proj (whileFuel fuel c b init)) ↔ R (proj init) :=
  whileFuel_inv (fun s => R (proj s) ↔ R (proj init)) fuel c b init Iff.rfl
    (fun s hI => (h s).trans hI)
end loops

/-! simp forms for the state shapes that occur (`ws`, `(ws, …)`, `(_, _, ws, …)`): if one iteration does not
    change the answer, the loop does not.  The side condition is discharged by simp itself. -/
section loopsimp
variable {α β γ : Type} (P : Write K → Prop) (Q : Write K → Prop)

theorem allW_forRange_id (lo hi : Int) (init : List (Write K)) (f : Int → List (Write K) → List (Write K))
    (h : ∀ i s, lo ≤ i → i < hi → (AllW P (f i s) ↔ AllW P s)) :
    AllW P (forRange lo hi init f) ↔ AllW P init := forRange_proj (AllW P) id lo hi init f h
theorem allW_forRange_1 (lo hi : Int) (init : List (Write K) × β) (f : Int → List (Write K) × β → List (Write K) × β)
    (h : ∀ i s, lo ≤ i → i < hi → (AllW P (f i s).1 ↔ AllW P s.1)) :
    AllW P (forRange lo hi init f).1 ↔ AllW P init.1 := forRange_proj (AllW P) (·.1) lo hi init f h
theorem allW_forRange_221 (lo hi : Int) (init : α × β × List (Write K) × γ)
    (f : Int → α × β × List (Write K) × γ → α × β × List (Write K) × γ)
    (h : ∀ i s, lo ≤ i → i < hi → (AllW P (f i s).2.2.1 ↔ AllW P s.2.2.1)) :
    AllW P (forRange lo hi init f).2.2.1 ↔ AllW P init.2.2.1 := forRange_proj (AllW P) (·.2.2.1) lo hi init f h
theorem allW_whileFuel_221 (fuel : Nat) (c : α × β × List (Write K) × γ → Bool) (init : α × β × List (Write K) × γ)
    (b : α × β × List (Write K) × γ → α × β × List (Write K) × γ)
    (h : ∀ s, (AllW P (b s).2.2.1 ↔ AllW P s.2.2.1)) :
    AllW P (whileFuel fuel c b init).2.2.1 ↔ AllW P init.2.2.1 := whileFuel_proj (AllW P) (·.2.2.1) fuel c b init h

theorem anyW_forRange_id (lo hi : Int) (init : List (Write K)) (f : Int → List (Write K) → List (Write K))
    (h : ∀ i s, lo ≤ i → i < hi → (AnyW Q (f i s) ↔ AnyW Q s)) :
    AnyW Q (forRange lo hi init f) ↔ AnyW Q init := forRange_proj (AnyW Q) id lo hi init f h
theorem anyW_forRange_1 (lo hi : Int) (init : List (Write K) × β) (f : Int → List (Write K) × β → List (Write K) × β)
    (h : ∀ i s, lo ≤ i → i < hi → (AnyW Q (f i s).1 ↔ AnyW Q s.1)) :
    AnyW Q (forRange lo hi init f).1 ↔ AnyW Q init.1 := forRange_proj (AnyW Q) (·.1) lo hi init f h
theorem anyW_forRange_221 (lo hi : Int) (init : α × β × List (Write K) × γ)
    (f : Int → α × β × List (Write K) × γ → α × β × List (Write K) × γ)
    (h : ∀ i s, lo ≤ i → i < hi → (AnyW Q (f i s).2.2.1 ↔ AnyW Q s.2.2.1)) :
    AnyW Q (forRange lo hi init f).2.2.1 ↔ AnyW Q init.2.2.1 := forRange_proj (AnyW Q) (·.2.2.1) lo hi init f h
theorem anyW_whileFuel_221 (fuel : Nat) (c : α × β × List (Write K) × γ → Bool) (init : α × β × List (Write K) × γ)
    (b : α × β × List (Write K) × γ → α × β × List (Write K) × γ)
    (h : ∀ s, (AnyW Q (b s).2.2.1 ↔ AnyW Q s.2.2.1)) :
    AnyW Q (whileFuel fuel c b init).2.2.1 ↔ AnyW Q init.2.2.1 := whileFuel_proj (AnyW Q) (·.2.2.1) fuel c b init h

/-- a loop that appends `g i` in iteration `i` (the appended writes may matter for the question) -/
theorem allW_forRange_append (n : Int) (ws : List (Write K)) (g : Int → List (Write K)) :
    AllW P (forRange 0 n ws (fun i st => st ++ g i)) ↔ AllW P ws ∧ ∀ i, 0 ≤ i → i < n → AllW P (g i) := by
  unfold AllW
  simp only [mem_forRange_append]
  constructor
  · intro h
    exact ⟨fun w hw => h w (Or.inl hw), fun i h1 h2 w hw => h w (Or.inr ⟨i, h1, h2, hw⟩)⟩
  · rintro ⟨h1, h2⟩ w (hw | ⟨i, hi1, hi2, hw⟩)
    · exact h1 w hw
    · exact h2 i hi1 hi2 w hw

theorem anyW_forRange_append (n : Int) (ws : List (Write K)) (g : Int → List (Write K)) :
    AnyW Q (forRange 0 n ws (fun i st => st ++ g i)) ↔ AnyW Q ws ∨ ∃ i, 0 ≤ i ∧ i < n ∧ AnyW Q (g i) := by
  unfold AnyW
  simp only [mem_forRange_append]
  constructor
  · rintro ⟨w, hw | ⟨i, h1, h2, hw⟩, hq⟩
    · exact Or.inl ⟨w, hw, hq⟩
    · exact Or.inr ⟨i, h1, h2, w, hw, hq⟩
  · rintro (⟨w, hw, hq⟩ | ⟨i, h1, h2, w, hw, hq⟩)
    · exact ⟨w, Or.inl hw, hq⟩
    · exact ⟨w, Or.inr ⟨i, h1, h2, hw⟩, hq⟩

theorem ite_append_same {α : Type} (c : Prop) [Decidable c] (s a b : List α) :
    (if c then s ++ a else s ++ b) = s ++ (if c then a else b) := by split <;> rfl
theorem ite_append_nil {α : Type} (c : Prop) [Decidable c] (s a : List α) :
    (if c then s ++ a else s) = s ++ (if c then a else []) := by split <;> simp
end loopsimp

/-! ### the questions asked about the row builders -/

/-- the thread sets `arr[wid, r]` -/
def writesRow (ws : List (Write K)) (arr : String) (wid r : Int) : Prop :=
  AnyW (fun w => w.arr = arr ∧ w.kind = WKind.set ∧ w.idx = [wid, r]) ws

/-- the thread sets `arr[slot]` (1-d arrays: contacts, broadphase pairs) -/
def writesSlot (ws : List (Write K)) (arr : String) (slot : Int) : Prop :=
  AnyW (fun w => w.arr = arr ∧ w.kind = WKind.set ∧ w.idx = [slot]) ws

/-- the thread performed the allocating atomic on `ctr[idx]` -/
def reached (ws : List (Write K)) (ctr : String) (idx : List Int) : Prop :=
  AnyW (fun w => w.arr = ctr ∧ w.kind = WKind.alloc ∧ w.idx = idx) ws

/-- the thread performed an allocating atomic on `ctr[idx]` whose request `n` fits: `a + n ≤ cap`
    (`a` = the value the atomic returned) -/
def allocFits (ws : List (Write K)) (ctr : String) (idx : List Int) (a cap : Int) : Prop :=
  AnyW (fun w => w.arr = ctr ∧ w.kind = WKind.alloc ∧ w.idx = idx ∧ ∃ n, w.val = WVal.i n ∧ a + n ≤ cap) ws

/-- the thread performed the allocating atomic on `ctr[idx]` asking for `n` slots -/
def allocReq (ws : List (Write K)) (ctr : String) (idx : List Int) (n : Int) : Prop :=
  AnyW (fun w => w.arr = ctr ∧ w.kind = WKind.alloc ∧ w.idx = idx ∧ w.val = WVal.i n) ws

theorem writesRow_iff (ws : List (Write K)) (arr : String) (wid r : Int) :
    writesRow ws arr wid r ↔ ∃ w ∈ ws, w.arr = arr ∧ w.kind = WKind.set ∧ w.idx = [wid, r] := Iff.rfl

/-- the per-row constraint arrays (`efc_J_out` is per-row only in dense mode, see `RowSafe`) -/
def rowArrays : List String :=
  ["efc_type_out", "efc_id_out", "efc_pos_out", "efc_margin_out", "efc_D_out", "efc_vel_out",
   "efc_aref_out", "efc_frictionloss_out", "efc_J_rowadr_out", "efc_J_rownnz_out"]

/-- index safety of one write: per-row arrays are written only at `[wid, r]` with `lo ≤ r < hi`, `r < cap`;
    in dense mode the same for the row index of `efc_J_out[wid, r, dof]` -/
def RowSafe (wid lo hi cap : Int) (sparse : Bool) (w : Write K) : Prop :=
  (w.arr ∈ rowArrays → ∃ r, w.idx = [wid, r] ∧ lo ≤ r ∧ r < hi ∧ r < cap)
  ∧ (w.arr = "efc_J_out" → sparse = false → ∃ r d, w.idx = [wid, r, d] ∧ lo ≤ r ∧ r < hi ∧ r < cap)

/-! ### the shared row writer `_efc_row` (always called through the same `Write.renameAll`) -/

section efcrow
variable [Scalar K] (dis wid : Int) (ts : K) (efcid : Int) (pa pim iw : K) (sr : V2 K) (si : V5 K) (mg vel fl : K)
  (ty id' : Int) (tyo ido : Int → Int → Int) (po mo Do vo ao fo : Int → Int → K)

/-- value of the `j`-th write of `_efc_row` (kept opaque: index questions never look at it) -/
def efcRowVal (j : Nat) : WVal K :=
  ((Gen.Constraint._efc_row (K := K) dis wid ts efcid pa pim iw sr si mg vel fl ty id' tyo ido po mo Do vo ao fo).getD j
    ⟨"", [], WVal.i 0, WKind.set⟩).val

/-- `_efc_row` sets the eight per-row cells `[wid, efcid]`, nothing else -/
theorem efc_row_eq :
    Write.renameAll [("type_out", "efc_type_out"), ("id_out", "efc_id_out"), ("pos_out", "efc_pos_out"),
        ("margin_out", "efc_margin_out"), ("D_out", "efc_D_out"), ("vel_out", "efc_vel_out"),
        ("aref_out", "efc_aref_out"), ("frictionloss_out", "efc_frictionloss_out")]
      (Gen.Constraint._efc_row (K := K) dis wid ts efcid pa pim iw sr si mg vel fl ty id' tyo ido po mo Do vo ao fo)
    = [⟨"efc_D_out", [wid, efcid], efcRowVal dis wid ts efcid pa pim iw sr si mg vel fl ty id' tyo ido po mo Do vo ao fo 0, WKind.set⟩,
       ⟨"efc_vel_out", [wid, efcid], efcRowVal dis wid ts efcid pa pim iw sr si mg vel fl ty id' tyo ido po mo Do vo ao fo 1, WKind.set⟩,
       ⟨"efc_aref_out", [wid, efcid], efcRowVal dis wid ts efcid pa pim iw sr si mg vel fl ty id' tyo ido po mo Do vo ao fo 2, WKind.set⟩,
       ⟨"efc_pos_out", [wid, efcid], efcRowVal dis wid ts efcid pa pim iw sr si mg vel fl ty id' tyo ido po mo Do vo ao fo 3, WKind.set⟩,
       ⟨"efc_margin_out", [wid, efcid], efcRowVal dis wid ts efcid pa pim iw sr si mg vel fl ty id' tyo ido po mo Do vo ao fo 4, WKind.set⟩,
       ⟨"efc_frictionloss_out", [wid, efcid], efcRowVal dis wid ts efcid pa pim iw sr si mg vel fl ty id' tyo ido po mo Do vo ao fo 5, WKind.set⟩,
       ⟨"efc_type_out", [wid, efcid], WVal.i ty, WKind.set⟩,
       ⟨"efc_id_out", [wid, efcid], WVal.i id', WKind.set⟩] := by
  unfold efcRowVal Gen.Constraint._efc_row
  simp [Write.renameAll, Write.rename]
end efcrow

/-! ## Part C: int32 bit facts for the overflow word -/

/-- bit(s) `b` of the int32 word `x` are (partly) set: `x & b ≠ 0` -/
def hasBit (x b : Int) : Prop := Mjw.iand x b ≠ 0

instance (x b : Int) : Decidable (hasBit x b) := by unfold hasBit; infer_instance

theorem toInt_eq_zero {n : Nat} (v : BitVec n) : v.toInt = 0 ↔ v = 0 := by
  constructor
  · intro h
    apply BitVec.eq_of_toInt_eq
    simpa using h
  · rintro rfl; simp

theorem hasBit_ior (x y b : Int) : hasBit (Mjw.ior x y) b ↔ hasBit x b ∨ hasBit y b := by
  unfold hasBit Mjw.iand Mjw.ior
  rw [BitVec.ofInt_toInt]
  simp only [ne_eq, toInt_eq_zero]
  have : (BitVec.ofInt 32 x ||| BitVec.ofInt 32 y) &&& BitVec.ofInt 32 b
      = (BitVec.ofInt 32 x &&& BitVec.ofInt 32 b) ||| (BitVec.ofInt 32 y &&& BitVec.ofInt 32 b) := by
    ext i hi
    simp only [BitVec.getElem_and, BitVec.getElem_or]
    cases (BitVec.ofInt 32 x)[i] <;> cases (BitVec.ofInt 32 y)[i] <;> cases (BitVec.ofInt 32 b)[i] <;> rfl
  rw [this]
  have h2 : ∀ u v : BitVec 32, u ||| v = 0 ↔ u = 0 ∧ v = 0 := by
    intro u v
    constructor
    · intro h
      constructor
      · ext i hi
        have := congrArg (fun z : BitVec 32 => z[i]) h
        simp only [BitVec.getElem_or] at this ⊢
        cases hu : u[i] <;> simp_all
      · ext i hi
        have := congrArg (fun z : BitVec 32 => z[i]) h
        simp only [BitVec.getElem_or] at this ⊢
        cases hv : v[i] <;> simp_all
    · rintro ⟨rfl, rfl⟩; simp
  rw [h2]
  exact not_and_or


/-! ## Part D: row builders against the arena model -/

/-- a row-builder thread (everything fixed except the value `a` returned by its allocating atomic on
    `nefc_out[wid]`): it asks for `k` rows, `run a` is its write list, `arr` a representative per-row array,
    `ok a` the side condition under which rows that pass the row-capacity guard are really written
    (dense mode, or the thread's nnz request fits) -/
structure Builder (K : Type) where
  k : Nat
  wid : Int
  arr : String
  run : Int → List (Write K)
  ok : Int → Prop

/-- the builder writes all its `k` rows whenever they fit (`a + k ≤ njmax`), exact fit included -/
def Builder.exact (b : Builder K) (njmax : Int) : Prop :=
  ∀ a, allocReq (b.run a) "nefc_out" [b.wid] b.k → b.ok a → a + (b.k : Int) ≤ njmax →
    ∀ r, a ≤ r → r < a + (b.k : Int) → writesRow (b.run a) b.arr b.wid r

/-- the builder writes all its `k` rows whenever the capacity guard `guard a k njmax` lets it pass -/
def Builder.obeys (b : Builder K) (guard : Alloc.Guard) (njmax : Int) : Prop :=
  ∀ a, allocReq (b.run a) "nefc_out" [b.wid] b.k → b.ok a → guard a b.k njmax = true →
    ∀ r, a ≤ r → r < a + (b.k : Int) → writesRow (b.run a) b.arr b.wid r

theorem Builder.exact_of_obeys (b : Builder K) (guard : Alloc.Guard) (njmax : Int)
    (hguard : ∀ i C, guard i b.k C = true ↔ i + (b.k : Int) ≤ C) (h : b.obeys guard njmax) : b.exact njmax :=
  fun a h1 h2 h3 => h a h1 h2 ((hguard a njmax).mpr h3)

/-- the allocation requests of a list of builder threads (ids = positions, starting at `i`) -/
def reqsFrom : List (Builder K) → Nat → List Alloc.Req
  | [], _ => []
  | b :: bs, i => ⟨i, b.k⟩ :: reqsFrom bs (i + 1)

def reqsOf (bs : List (Builder K)) : List Alloc.Req := reqsFrom bs 0

theorem allocReq_reached (ws : List (Write K)) (ctr : String) (idx : List Int) (n : Int)
    (h : allocReq ws ctr idx n) : reached ws ctr idx := by
  obtain ⟨w, hw, h1, h2, h3, _⟩ := h
  exact ⟨w, hw, h1, h2, h3⟩

open Mjw.Alloc in
theorem zip_runFrom (guard : Guard) (C : Int) (bs : List (Builder K)) (i : Nat) (c : Int)
    (p : Builder K × Grant) (hp : p ∈ bs.zip (runFrom guard C (reqsFrom bs i) c)) :
    p.1 ∈ bs ∧ p.2.k = p.1.k ∧ c ≤ p.2.off ∧ p.2.off + (p.2.k : Int) ≤ finalFrom (reqsFrom bs i) c
      ∧ p.2.granted = guard p.2.off p.2.k C := by
  induction bs generalizing i c with
  | nil => simp [reqsFrom, runFrom] at hp
  | cons b bs ih =>
    simp only [reqsFrom, runFrom, List.zip_cons_cons, List.mem_cons] at hp
    rcases hp with rfl | hp
    · refine ⟨List.mem_cons_self, rfl, Int.le_refl _, ?_, rfl⟩
      simp only [reqsFrom, finalFrom]
      exact finalFrom_ge _ _
    · obtain ⟨h1, h2, h3, h4, h5⟩ := ih _ _ hp
      refine ⟨List.mem_cons_of_mem _ h1, h2, ?_, ?_, h5⟩
      · have : (0 : Int) ≤ (b.k : Int) := Int.natCast_nonneg _
        omega
      · simpa only [reqsFrom, finalFrom] using h4

/-- the simp set that answers an `AllW`/`AnyW` question about a generated kernel body -/
syntax "ksimp" "[" Lean.Parser.Tactic.simpLemma,* "]" : tactic
macro_rules
  | `(tactic| ksimp []) =>
    `(tactic| simp [fst_ite, snd_ite, allW_ite, allW_append, allW_cons, allW_nil_iff, allW_forRange_id,
       allW_forRange_1, allW_forRange_221, allW_whileFuel_221, allW_forRange_append,
       anyW_ite, anyW_append, anyW_cons, anyW_nil_iff, anyW_forRange_id, anyW_forRange_1, anyW_forRange_221,
       anyW_whileFuel_221, anyW_forRange_append, ite_append_same,
       efc_row_eq, RowSafe, rowArrays, writesRow, writesSlot, reached, allocFits, allocReq])
  | `(tactic| ksimp [$ts,*]) =>
    `(tactic| simp [$ts,*, fst_ite, snd_ite, allW_ite, allW_append, allW_cons, allW_nil_iff, allW_forRange_id,
       allW_forRange_1, allW_forRange_221, allW_whileFuel_221, allW_forRange_append,
       anyW_ite, anyW_append, anyW_cons, anyW_nil_iff, anyW_forRange_id, anyW_forRange_1, anyW_forRange_221,
       anyW_whileFuel_221, anyW_forRange_append, ite_append_same,
       efc_row_eq, RowSafe, rowArrays, writesRow, writesSlot, reached, allocFits, allocReq])

end Mjw.Lemmas.C16
