/-
  C16 helper lemmas, kernel part D (NJMAX_NNZ analysis): the `efc_J_rowadr/rownnz` cells a builder thread writes.
-/
import MjwVerif.Lemmas.C16
set_option linter.unusedSimpArgs false
set_option linter.unusedVariables false
set_option linter.unusedTactic false
set_option linter.unreachableTactic false
namespace Mjw.Lemmas.C16
open Mjw

/-- the thread sets the Int cell `arr[wid, r] := v` -/
def cellI {K : Type} (ws : List (Write K)) (arr : String) (wid r v : Int) : Prop :=
  AnyW (fun w => w.arr = arr ∧ w.kind = WKind.set ∧ w.idx = [wid, r] ∧ w.val = WVal.i v) ws


section equality_joint
variable {K : Type} [Scalar K] (nv : Int) (opt_timestep : (Int → K)) (opt_disableflags : Int) (qpos0 : (Int → Int → K)) (jnt_qposadr : (Int → Int)) (jnt_dofadr : (Int → Int)) (dof_invweight0 : (Int → Int → K)) (eq_obj1id : (Int → Int)) (eq_obj2id : (Int → Int)) (eq_solref : (Int → Int → V2 K)) (eq_solimp : (Int → Int → V5 K)) (eq_data : (Int → Int → V11 K)) (eq_jnt_adr : (Int → Int)) (qpos_in : (Int → Int → K)) (qvel_in : (Int → Int → K)) (eq_active_in : (Int → Int → Bool)) (njmax_in : Int) (njmax_nnz_in : Int) (ne_out : (Int → Int)) (nefc_out : (Int → Int)) (efc_type_out : (Int → Int → Int)) (efc_id_out : (Int → Int → Int)) (efc_jtdaj_adr_out : (Int → Int → Int)) (efc_jtdaj_nrow_out : (Int → Int → Int)) (efc_jtdaj_nblock_out : (Int → Int)) (efc_J_rownnz_out : (Int → Int → Int)) (efc_J_rowadr_out : (Int → Int → Int)) (efc_J_colind_out : (Int → Int → Int → Int)) (efc_J_out : (Int → Int → Int → K)) (efc_pos_out : (Int → Int → K)) (efc_margin_out : (Int → Int → K)) (efc_D_out : (Int → Int → K)) (efc_vel_out : (Int → Int → K)) (efc_aref_out : (Int → Int → K)) (efc_frictionloss_out : (Int → Int → K)) (efc_nnz_out : (Int → Int)) (alloc0 : Int) (st_is_sparse_and_newton : Bool) (alloc1 : Int) (eq_data_shape0 : Int) (qpos0_shape0 : Int) (dof_invweight0_shape0 : Int) (st_is_sparse : Bool) (alloc2 : Int) (opt_timestep_shape0 : Int) (eq_solref_shape0 : Int) (eq_solimp_shape0 : Int) (cl_rowadr : Int) (tid0 : Int) (tid1 : Int)
local notation "KW" => Gen.Constraint._equality_joint__kernel nv opt_timestep opt_disableflags qpos0 jnt_qposadr jnt_dofadr dof_invweight0 eq_obj1id eq_obj2id eq_solref eq_solimp eq_data eq_jnt_adr qpos_in qvel_in eq_active_in njmax_in njmax_nnz_in ne_out nefc_out efc_type_out efc_id_out efc_jtdaj_adr_out efc_jtdaj_nrow_out efc_jtdaj_nblock_out efc_J_rownnz_out efc_J_rowadr_out efc_J_colind_out efc_J_out efc_pos_out efc_margin_out efc_D_out efc_vel_out efc_aref_out efc_frictionloss_out efc_nnz_out alloc0 st_is_sparse_and_newton alloc1 eq_data_shape0 qpos0_shape0 dof_invweight0_shape0 st_is_sparse alloc2 opt_timestep_shape0 eq_solref_shape0 eq_solimp_shape0 cl_rowadr tid0 tid1

set_option maxHeartbeats 1600000 in
/-- a thread that writes `efc_J_rowadr_out[w, r] := v` (it does so only after its nnz guard passed) also wrote
    `efc_J_rownnz_out[w, r] := n` with `v + n ≤ njmax_nnz_in` -/
theorem equality_joint_granted_cells (r v : Int) (h : cellI KW "efc_J_rowadr_out" tid0 r v) :
    ∃ n, cellI KW "efc_J_rownnz_out" tid0 r n ∧ v + n ≤ njmax_nnz_in := by
  revert h
  unfold Gen.Constraint._equality_joint__kernel
  by_cases hg : alloc0 < njmax_in
  · cases st_is_sparse <;> ksimp [hg, cellI]
    all_goals (intros; subst_vars; try simp_all)
    all_goals (try omega)
    all_goals (try (split_ifs at * <;> omega))
  · ksimp [hg, cellI]

set_option maxHeartbeats 1600000 in
/-- … and `efc_J_rownnz_out[w, alloc0]` is written BEFORE the nnz guard: a thread whose nnz request is dropped
    leaves `rownnz` of its row NEW and `rowadr` of its row STALE -/
theorem equality_joint_dropped_cells (hr : reached KW "nefc_out" [tid0]) (hg : alloc0 < njmax_in) (hs : st_is_sparse = true)
    (hdrop : ¬ allocFits KW "efc_nnz_out" [tid0] alloc2 njmax_nnz_in) :
    (∃ n, cellI KW "efc_J_rownnz_out" tid0 alloc0 n) ∧ ∀ r v, ¬ cellI KW "efc_J_rowadr_out" tid0 r v := by
  revert hr hdrop
  subst hs
  unfold Gen.Constraint._equality_joint__kernel
  ksimp [hg, cellI]
  all_goals (intros; try simp_all)
  all_goals (try omega)
end equality_joint


section limit_slide_hinge
variable {K : Type} [Scalar K] (nv : Int) (opt_timestep : (Int → K)) (opt_disableflags : Int) (jnt_qposadr : (Int → Int)) (jnt_dofadr : (Int → Int)) (jnt_solref : (Int → Int → V2 K)) (jnt_solimp : (Int → Int → V5 K)) (jnt_range : (Int → Int → V2 K)) (jnt_margin : (Int → Int → K)) (dof_invweight0 : (Int → Int → K)) (jnt_limited_slide_hinge_adr : (Int → Int)) (qpos_in : (Int → Int → K)) (qvel_in : (Int → Int → K)) (njmax_in : Int) (njmax_nnz_in : Int) (nl_out : (Int → Int)) (nefc_out : (Int → Int)) (efc_type_out : (Int → Int → Int)) (efc_id_out : (Int → Int → Int)) (efc_jtdaj_adr_out : (Int → Int → Int)) (efc_jtdaj_nrow_out : (Int → Int → Int)) (efc_jtdaj_nblock_out : (Int → Int)) (efc_J_rownnz_out : (Int → Int → Int)) (efc_J_rowadr_out : (Int → Int → Int)) (efc_J_colind_out : (Int → Int → Int → Int)) (efc_J_out : (Int → Int → Int → K)) (efc_pos_out : (Int → Int → K)) (efc_margin_out : (Int → Int → K)) (efc_D_out : (Int → Int → K)) (efc_vel_out : (Int → Int → K)) (efc_aref_out : (Int → Int → K)) (efc_frictionloss_out : (Int → Int → K)) (efc_nnz_out : (Int → Int)) (jnt_range_shape0 : Int) (jnt_margin_shape0 : Int) (alloc0 : Int) (st_is_sparse_and_newton : Bool) (alloc1 : Int) (st_is_sparse : Bool) (alloc2 : Int) (dof_invweight0_shape0 : Int) (jnt_solref_shape0 : Int) (jnt_solimp_shape0 : Int) (opt_timestep_shape0 : Int) (tid0 : Int) (tid1 : Int)
local notation "KW" => Gen.Constraint._limit_slide_hinge__kernel nv opt_timestep opt_disableflags jnt_qposadr jnt_dofadr jnt_solref jnt_solimp jnt_range jnt_margin dof_invweight0 jnt_limited_slide_hinge_adr qpos_in qvel_in njmax_in njmax_nnz_in nl_out nefc_out efc_type_out efc_id_out efc_jtdaj_adr_out efc_jtdaj_nrow_out efc_jtdaj_nblock_out efc_J_rownnz_out efc_J_rowadr_out efc_J_colind_out efc_J_out efc_pos_out efc_margin_out efc_D_out efc_vel_out efc_aref_out efc_frictionloss_out efc_nnz_out jnt_range_shape0 jnt_margin_shape0 alloc0 st_is_sparse_and_newton alloc1 st_is_sparse alloc2 dof_invweight0_shape0 jnt_solref_shape0 jnt_solimp_shape0 opt_timestep_shape0 tid0 tid1

set_option maxHeartbeats 1600000 in
/-- a thread that writes `efc_J_rowadr_out[w, r] := v` (it does so only after its nnz guard passed) also wrote
    `efc_J_rownnz_out[w, r] := n` with `v + n ≤ njmax_nnz_in` -/
theorem limit_slide_hinge_granted_cells (r v : Int) (h : cellI KW "efc_J_rowadr_out" tid0 r v) :
    ∃ n, cellI KW "efc_J_rownnz_out" tid0 r n ∧ v + n ≤ njmax_nnz_in := by
  revert h
  unfold Gen.Constraint._limit_slide_hinge__kernel
  by_cases hg : alloc0 < njmax_in
  · cases st_is_sparse <;> ksimp [hg, cellI]
    all_goals (intros; subst_vars; try simp_all)
    all_goals (try omega)
    all_goals (try (split_ifs at * <;> omega))
  · ksimp [hg, cellI]

set_option maxHeartbeats 1600000 in
/-- … and `efc_J_rownnz_out[w, alloc0]` is written BEFORE the nnz guard: a thread whose nnz request is dropped
    leaves `rownnz` of its row NEW and `rowadr` of its row STALE -/
theorem limit_slide_hinge_dropped_cells (hr : reached KW "nefc_out" [tid0]) (hg : alloc0 < njmax_in) (hs : st_is_sparse = true)
    (hdrop : ¬ allocFits KW "efc_nnz_out" [tid0] alloc2 njmax_nnz_in) :
    (∃ n, cellI KW "efc_J_rownnz_out" tid0 alloc0 n) ∧ ∀ r v, ¬ cellI KW "efc_J_rowadr_out" tid0 r v := by
  revert hr hdrop
  subst hs
  unfold Gen.Constraint._limit_slide_hinge__kernel
  ksimp [hg, cellI]
  all_goals (intros; try simp_all)
  all_goals (try omega)
end limit_slide_hinge


section friction_dof
variable {K : Type} [Scalar K] (nv : Int) (opt_timestep : (Int → K)) (opt_disableflags : Int) (dof_solref : (Int → Int → V2 K)) (dof_solimp : (Int → Int → V5 K)) (dof_frictionloss : (Int → Int → K)) (dof_invweight0 : (Int → Int → K)) (qvel_in : (Int → Int → K)) (njmax_in : Int) (njmax_nnz_in : Int) (nf_out : (Int → Int)) (nefc_out : (Int → Int)) (efc_type_out : (Int → Int → Int)) (efc_id_out : (Int → Int → Int)) (efc_jtdaj_adr_out : (Int → Int → Int)) (efc_jtdaj_nrow_out : (Int → Int → Int)) (efc_jtdaj_nblock_out : (Int → Int)) (efc_J_rownnz_out : (Int → Int → Int)) (efc_J_rowadr_out : (Int → Int → Int)) (efc_J_colind_out : (Int → Int → Int → Int)) (efc_J_out : (Int → Int → Int → K)) (efc_pos_out : (Int → Int → K)) (efc_margin_out : (Int → Int → K)) (efc_D_out : (Int → Int → K)) (efc_vel_out : (Int → Int → K)) (efc_aref_out : (Int → Int → K)) (efc_frictionloss_out : (Int → Int → K)) (efc_nnz_out : (Int → Int)) (dof_frictionloss_shape0 : Int) (alloc0 : Int) (st_is_sparse_and_newton : Bool) (alloc1 : Int) (st_is_sparse : Bool) (alloc2 : Int) (dof_invweight0_shape0 : Int) (dof_solref_shape0 : Int) (dof_solimp_shape0 : Int) (opt_timestep_shape0 : Int) (tid0 : Int) (tid1 : Int)
local notation "KW" => Gen.Constraint._friction_dof__kernel nv opt_timestep opt_disableflags dof_solref dof_solimp dof_frictionloss dof_invweight0 qvel_in njmax_in njmax_nnz_in nf_out nefc_out efc_type_out efc_id_out efc_jtdaj_adr_out efc_jtdaj_nrow_out efc_jtdaj_nblock_out efc_J_rownnz_out efc_J_rowadr_out efc_J_colind_out efc_J_out efc_pos_out efc_margin_out efc_D_out efc_vel_out efc_aref_out efc_frictionloss_out efc_nnz_out dof_frictionloss_shape0 alloc0 st_is_sparse_and_newton alloc1 st_is_sparse alloc2 dof_invweight0_shape0 dof_solref_shape0 dof_solimp_shape0 opt_timestep_shape0 tid0 tid1

set_option maxHeartbeats 1600000 in
/-- a thread that writes `efc_J_rowadr_out[w, r] := v` (it does so only after its nnz guard passed) also wrote
    `efc_J_rownnz_out[w, r] := n` with `v + n ≤ njmax_nnz_in` -/
theorem friction_dof_granted_cells (r v : Int) (h : cellI KW "efc_J_rowadr_out" tid0 r v) :
    ∃ n, cellI KW "efc_J_rownnz_out" tid0 r n ∧ v + n ≤ njmax_nnz_in := by
  revert h
  unfold Gen.Constraint._friction_dof__kernel
  by_cases hg : alloc0 < njmax_in
  · cases st_is_sparse <;> ksimp [hg, cellI]
    all_goals (intros; subst_vars; try simp_all)
    all_goals (try omega)
    all_goals (try (split_ifs at * <;> omega))
  · ksimp [hg, cellI]

set_option maxHeartbeats 1600000 in
/-- … and `efc_J_rownnz_out[w, alloc0]` is written BEFORE the nnz guard: a thread whose nnz request is dropped
    leaves `rownnz` of its row NEW and `rowadr` of its row STALE -/
theorem friction_dof_dropped_cells (hr : reached KW "nefc_out" [tid0]) (hg : alloc0 < njmax_in) (hs : st_is_sparse = true)
    (hdrop : ¬ allocFits KW "efc_nnz_out" [tid0] alloc2 njmax_nnz_in) :
    (∃ n, cellI KW "efc_J_rownnz_out" tid0 alloc0 n) ∧ ∀ r v, ¬ cellI KW "efc_J_rowadr_out" tid0 r v := by
  revert hr hdrop
  subst hs
  unfold Gen.Constraint._friction_dof__kernel
  ksimp [hg, cellI]
  all_goals (intros; try simp_all)
  all_goals (try omega)
end friction_dof

end Mjw.Lemmas.C16
