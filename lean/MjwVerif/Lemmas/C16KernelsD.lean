/-
  C16 helper lemmas, kernel part D (NJMAX_NNZ): dropped threads of `_equality_joint`, `_equality_flex` (store `rownnz` BEFORE the nnz guard).
-/
import MjwVerif.Lemmas.C16
set_option linter.unusedSimpArgs false
set_option linter.unusedVariables false
set_option linter.unusedTactic false
set_option linter.unreachableTactic false
set_option linter.unusedSectionVars false
namespace Mjw.Lemmas.C16
open Mjw

/-- the thread sets the Int cell `arr[wid, r] := v` -/
def cellI {K : Type} (ws : List (Write K)) (arr : String) (wid r v : Int) : Prop :=
  AnyW (fun w => w.arr = arr ∧ w.kind = WKind.set ∧ w.idx = [wid, r] ∧ w.val = WVal.i v) ws


section equality_joint
variable {K : Type} [Scalar K] (nv : Int) (opt_timestep : (Int → K)) (opt_disableflags : Int) (qpos0 : (Int → Int → K)) (jnt_qposadr : (Int → Int)) (jnt_dofadr : (Int → Int)) (dof_invweight0 : (Int → Int → K)) (eq_obj1id : (Int → Int)) (eq_obj2id : (Int → Int)) (eq_solref : (Int → Int → V2 K)) (eq_solimp : (Int → Int → V5 K)) (eq_data : (Int → Int → V11 K)) (eq_jnt_adr : (Int → Int)) (qpos_in : (Int → Int → K)) (qvel_in : (Int → Int → K)) (eq_active_in : (Int → Int → Bool)) (njmax_in : Int) (njmax_nnz_in : Int) (ne_out : (Int → Int)) (nefc_out : (Int → Int)) (efc_type_out : (Int → Int → Int)) (efc_id_out : (Int → Int → Int)) (efc_jtdaj_adr_out : (Int → Int → Int)) (efc_jtdaj_nrow_out : (Int → Int → Int)) (efc_jtdaj_nblock_out : (Int → Int)) (efc_J_rownnz_out : (Int → Int → Int)) (efc_J_rowadr_out : (Int → Int → Int)) (efc_J_colind_out : (Int → Int → Int → Int)) (efc_J_out : (Int → Int → Int → K)) (efc_pos_out : (Int → Int → K)) (efc_margin_out : (Int → Int → K)) (efc_D_out : (Int → Int → K)) (efc_vel_out : (Int → Int → K)) (efc_aref_out : (Int → Int → K)) (efc_frictionloss_out : (Int → Int → K)) (efc_nnz_out : (Int → Int)) (alloc0 : Int) (st_is_sparse_and_newton : Bool) (alloc1 : Int) (eq_data_shape0 : Int) (qpos0_shape0 : Int) (dof_invweight0_shape0 : Int) (st_is_sparse : Bool) (alloc2 : Int) (opt_timestep_shape0 : Int) (eq_solref_shape0 : Int) (eq_solimp_shape0 : Int) (cl_rowadr : Int) (tid0 : Int) (tid1 : Int)
local notation "KW" => Gen.Constraint._equality_joint__kernel nv opt_timestep opt_disableflags qpos0 jnt_qposadr jnt_dofadr dof_invweight0 eq_obj1id eq_obj2id eq_solref eq_solimp eq_data eq_jnt_adr qpos_in qvel_in eq_active_in njmax_in njmax_nnz_in ne_out nefc_out efc_type_out efc_id_out efc_jtdaj_adr_out efc_jtdaj_nrow_out efc_jtdaj_nblock_out efc_J_rownnz_out efc_J_rowadr_out efc_J_colind_out efc_J_out efc_pos_out efc_margin_out efc_D_out efc_vel_out efc_aref_out efc_frictionloss_out efc_nnz_out alloc0 st_is_sparse_and_newton alloc1 eq_data_shape0 qpos0_shape0 dof_invweight0_shape0 st_is_sparse alloc2 opt_timestep_shape0 eq_solref_shape0 eq_solimp_shape0 cl_rowadr tid0 tid1

set_option maxHeartbeats 1600000 in
/-- dropped thread (row allocated, sparse, nnz request does not fit): the value of `efc_J_rownnz_out[w, alloc0]` after the
    thread's own writes is 0 (the count it stored before the guard is overwritten) -/
theorem equality_joint_dropped_rownnz_zero (d : Int) (hr : reached KW "nefc_out" [tid0]) (hg : alloc0 < njmax_in)
    (hs : st_is_sparse = true) (hdrop : ¬ allocFits KW "efc_nnz_out" [tid0] alloc2 njmax_nnz_in) :
    Write.lookupI KW "efc_J_rownnz_out" [tid0, alloc0] d = 0 := by
  revert hr hdrop
  subst hs
  unfold Gen.Constraint._equality_joint__kernel
  ksimp [hg, apply_ite (fun l => Write.lookupI l "efc_J_rownnz_out" [tid0, alloc0] d)]
  intros
  split_ifs <;> simp_all [Write.lookupI]
  all_goals (first | omega | (exfalso; omega))

set_option maxHeartbeats 1600000 in
/-- … and it never writes `efc_J_rowadr_out` -/
theorem equality_joint_dropped_no_rowadr (hs : st_is_sparse = true)
    (hdrop : ¬ allocFits KW "efc_nnz_out" [tid0] alloc2 njmax_nnz_in) (r v : Int) :
    ¬ cellI KW "efc_J_rowadr_out" tid0 r v := by
  revert hdrop
  subst hs
  unfold Gen.Constraint._equality_joint__kernel
  by_cases hg : alloc0 < njmax_in
  · ksimp [hg, cellI]
    all_goals (intros; try simp_all)
    all_goals (try omega)
  · ksimp [hg, cellI]
end equality_joint


section equality_flex
variable {K : Type} [Scalar K] (nv : Int) (opt_timestep : (Int → K)) (opt_disableflags : Int) (flex_interp : (Int → Int)) (flex_edgeadr : (Int → Int)) (flex_edgenum : (Int → Int)) (flexedge_length0 : (Int → K)) (flexedge_invweight0 : (Int → K)) (flexedge_J_rownnz : (Int → Int)) (flexedge_J_rowadr : (Int → Int)) (flexedge_J_colind : (Int → Int)) (eq_obj1id : (Int → Int)) (eq_solref : (Int → Int → V2 K)) (eq_solimp : (Int → Int → V5 K)) (eq_flex_adr : (Int → Int)) (qvel_in : (Int → Int → K)) (eq_active_in : (Int → Int → Bool)) (flexedge_J_in : (Int → Int → K)) (flexedge_length_in : (Int → Int → K)) (njmax_in : Int) (njmax_nnz_in : Int) (ne_out : (Int → Int)) (nefc_out : (Int → Int)) (efc_type_out : (Int → Int → Int)) (efc_id_out : (Int → Int → Int)) (efc_jtdaj_adr_out : (Int → Int → Int)) (efc_jtdaj_nrow_out : (Int → Int → Int)) (efc_jtdaj_nblock_out : (Int → Int)) (efc_J_rownnz_out : (Int → Int → Int)) (efc_J_rowadr_out : (Int → Int → Int)) (efc_J_colind_out : (Int → Int → Int → Int)) (efc_J_out : (Int → Int → Int → K)) (efc_pos_out : (Int → Int → K)) (efc_margin_out : (Int → Int → K)) (efc_D_out : (Int → Int → K)) (efc_vel_out : (Int → Int → K)) (efc_aref_out : (Int → Int → K)) (efc_frictionloss_out : (Int → Int → K)) (efc_nnz_out : (Int → Int)) (alloc0 : Int) (st_is_sparse_and_newton : Bool) (alloc1 : Int) (eq_solref_shape0 : Int) (eq_solimp_shape0 : Int) (st_is_sparse : Bool) (alloc2 : Int) (opt_timestep_shape0 : Int) (tid0 : Int) (tid1 : Int) (tid2 : Int)
local notation "KW" => Gen.Constraint._equality_flex__kernel nv opt_timestep opt_disableflags flex_interp flex_edgeadr flex_edgenum flexedge_length0 flexedge_invweight0 flexedge_J_rownnz flexedge_J_rowadr flexedge_J_colind eq_obj1id eq_solref eq_solimp eq_flex_adr qvel_in eq_active_in flexedge_J_in flexedge_length_in njmax_in njmax_nnz_in ne_out nefc_out efc_type_out efc_id_out efc_jtdaj_adr_out efc_jtdaj_nrow_out efc_jtdaj_nblock_out efc_J_rownnz_out efc_J_rowadr_out efc_J_colind_out efc_J_out efc_pos_out efc_margin_out efc_D_out efc_vel_out efc_aref_out efc_frictionloss_out efc_nnz_out alloc0 st_is_sparse_and_newton alloc1 eq_solref_shape0 eq_solimp_shape0 st_is_sparse alloc2 opt_timestep_shape0 tid0 tid1 tid2

set_option maxHeartbeats 1600000 in
/-- dropped thread (row allocated, sparse, nnz request does not fit): the value of `efc_J_rownnz_out[w, alloc0]` after the
    thread's own writes is 0 (the count it stored before the guard is overwritten) -/
theorem equality_flex_dropped_rownnz_zero (d : Int) (hr : reached KW "nefc_out" [tid0]) (hg : alloc0 < njmax_in)
    (hs : st_is_sparse = true) (hdrop : ¬ allocFits KW "efc_nnz_out" [tid0] alloc2 njmax_nnz_in) :
    Write.lookupI KW "efc_J_rownnz_out" [tid0, alloc0] d = 0 := by
  revert hr hdrop
  subst hs
  unfold Gen.Constraint._equality_flex__kernel
  ksimp [hg, apply_ite (fun l => Write.lookupI l "efc_J_rownnz_out" [tid0, alloc0] d)]
  intros
  split_ifs <;> simp_all [Write.lookupI]
  all_goals (first | omega | (exfalso; omega))

set_option maxHeartbeats 1600000 in
/-- … and it never writes `efc_J_rowadr_out` -/
theorem equality_flex_dropped_no_rowadr (hs : st_is_sparse = true)
    (hdrop : ¬ allocFits KW "efc_nnz_out" [tid0] alloc2 njmax_nnz_in) (r v : Int) :
    ¬ cellI KW "efc_J_rowadr_out" tid0 r v := by
  revert hdrop
  subst hs
  unfold Gen.Constraint._equality_flex__kernel
  by_cases hg : alloc0 < njmax_in
  · ksimp [hg, cellI]
    all_goals (intros; try simp_all)
    all_goals (try omega)
  · ksimp [hg, cellI]
end equality_flex

end Mjw.Lemmas.C16
