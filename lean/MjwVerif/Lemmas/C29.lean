/-
  Helper lemmas for C29 (sleeping): list state `rd`/`wr`, own-write lookups, loop invariants of the generated
  `_wake_tree` and `_build_cycles`, cycle walks on well-formed states.
-/
import MjwVerif.Lemmas.Real
import MjwVerif.Model.Sleep
import MjwVerif.Gen.Sleep

set_option linter.unusedVariables false
set_option linter.unusedSimpArgs false
namespace Mjw.Lemmas.C29
open Mjw Mjw.Sleep

variable {K : Type}

/-! ### `rd` / `wr` -/

theorem length_wr (s : List Int) (t v : Int) : (wr s t v).length = s.length := by
  unfold wr; split <;> simp

theorem rd_wr (s : List Int) (t v u : Int) :
    rd (wr s t v) u = if u = t ∧ 0 ≤ t ∧ t < s.length then v else rd s u := by
  unfold rd wr
  by_cases ht : 0 ≤ t
  · by_cases hu : 0 ≤ u
    · simp only [ht, hu, if_true, List.getD_eq_getElem?_getD, List.getElem?_set]
      by_cases e : u = t
      · subst e
        by_cases hl : u < s.length
        · have : u.toNat < s.length := by omega
          simp [this, hl]
        · have : ¬ u.toNat < s.length := by omega
          simp [this, hl]
      · have : ¬ t.toNat = u.toNat := by omega
        simp [this, e]
    · have : ¬ u = t := by omega
      simp [ht, hu, this]
  · have : ¬ (u = t ∧ 0 ≤ t ∧ t < s.length) := by omega
    simp [ht, this]

theorem rd_wr_self (s : List Int) (t v : Int) (h0 : 0 ≤ t) (h1 : t < s.length) : rd (wr s t v) t = v := by
  rw [rd_wr]; simp [h0, h1]

theorem rd_wr_ne (s : List Int) (t v u : Int) (h : u ≠ t) : rd (wr s t v) u = rd s u := by
  rw [rd_wr]; simp [h]

/-- extensionality through `rd` -/
theorem ext_rd (s s' : List Int) (hl : s.length = s'.length) (h : ∀ k : Nat, k < s.length → rd s k = rd s' k) : s = s' := by
  apply List.ext_getElem hl
  intro i h1 h2
  have := h i h1
  unfold rd at this
  simp only [Int.natCast_nonneg, if_true, Int.toNat_natCast, List.getD_eq_getElem?_getD] at this
  rw [List.getElem?_eq_getElem h1, List.getElem?_eq_getElem h2] at this
  simpa using this

/-- a fold of stores of one value -/
theorem length_foldl_wr (cells : List Int) (v : Int) (s : List Int) :
    (cells.foldl (fun s c => wr s c v) s).length = s.length := by
  induction cells generalizing s with
  | nil => rfl
  | cons a l ih => rw [List.foldl_cons, ih, length_wr]

theorem rd_foldl_wr (cells : List Int) (v : Int) (s : List Int) (u : Int)
    (hin : ∀ c ∈ cells, 0 ≤ c ∧ c < s.length) :
    rd (cells.foldl (fun s c => wr s c v) s) u = if u ∈ cells then v else rd s u := by
  induction cells generalizing s with
  | nil => simp
  | cons a l ih =>
    rw [List.foldl_cons, ih]
    · rw [rd_wr]
      have ha := hin a (by simp)
      by_cases hul : u ∈ l
      · simp [hul]
      · by_cases hua : u = a
        · subst hua; simp [ha.1, ha.2]
        · simp [hul, hua]
    · intro c hc
      rw [length_wr]
      exact hin c (List.mem_cons_of_mem _ hc)

/-! ### own-write lookups -/

@[simp] theorem lookupI_nil (arr : String) (idx : List Int) (d : Int) :
    Write.lookupI ([] : List (Write K)) arr idx d = d := rfl

theorem lookupI_append (l1 l2 : List (Write K)) (arr : String) (idx : List Int) (d : Int) :
    Write.lookupI (l1 ++ l2) arr idx d = Write.lookupI l2 arr idx (Write.lookupI l1 arr idx d) := by
  unfold Write.lookupI; rw [List.foldl_append]

/-- no write of `l` addresses cell `arr[idx]` -/
def NoHit (l : List (Write K)) (arr : String) (idx : List Int) : Prop := ∀ x ∈ l, ¬ (x.arr = arr ∧ x.idx = idx)

theorem lookupI_noHit (l : List (Write K)) (arr : String) (idx : List Int) (d : Int) (h : NoHit l arr idx) :
    Write.lookupI l arr idx d = d := by
  induction l generalizing d with
  | nil => rfl
  | cons a l ih =>
    have ha := h a (by simp)
    have hl : NoHit l arr idx := fun x hx => h x (List.mem_cons_of_mem _ hx)
    have e : Write.lookupI (a :: l) arr idx d = Write.lookupI l arr idx d := by
      show List.foldl _ _ _ = List.foldl _ _ _
      rw [List.foldl_cons]
      have : (a.arr == arr && a.idx == idx) = false := by
        by_cases h1 : a.arr = arr
        · have h2 : ¬ a.idx = idx := fun e => ha ⟨h1, e⟩
          simp [h2]
        · simp [h1]
      rw [this]; rfl
    rw [e, ih d hl]

theorem noHit_append (l1 l2 : List (Write K)) (arr : String) (idx : List Int) :
    NoHit (l1 ++ l2) arr idx ↔ NoHit l1 arr idx ∧ NoHit l2 arr idx := by
  unfold NoHit
  constructor
  · intro h; exact ⟨fun x hx => h x (List.mem_append_left _ hx), fun x hx => h x (List.mem_append_right _ hx)⟩
  · rintro ⟨h1, h2⟩ x hx
    rcases List.mem_append.mp hx with h | h
    · exact h1 x h
    · exact h2 x h

theorem lookupI_map_setAsleep (w : Int) (vis : List Int) (v c d : Int) :
    Write.lookupI (vis.map (fun c => (setAsleep w c v : Write K))) "tree_asleep_out" [w, c] d
      = if c ∈ vis then v else d := by
  induction vis generalizing d with
  | nil => rfl
  | cons a l ih =>
    have e : Write.lookupI ((a :: l).map (fun c => (setAsleep w c v : Write K))) "tree_asleep_out" [w, c] d
        = Write.lookupI (l.map (fun c => (setAsleep w c v : Write K))) "tree_asleep_out" [w, c] (if a = c then v else d) := by
      show List.foldl _ _ _ = List.foldl _ _ _
      rw [List.map_cons, List.foldl_cons]
      by_cases hac : a = c
      · subst hac; simp [setAsleep]
      · simp [setAsleep, hac]
    rw [e, ih]
    by_cases hcl : c ∈ l
    · simp [hcl]
    · by_cases hac : a = c
      · subst hac; simp
      · have : ¬ c = a := fun e => hac e.symm
        simp [hcl, hac, this]

/-! ### loops whose body ignores the index -/

/-- `k`-fold application -/
def iterN {σ : Type} (g : σ → σ) : Nat → σ → σ
  | 0, s => s
  | k + 1, s => iterN g k (g s)

theorem foldl_const {σ α : Type} (g : σ → σ) (l : List α) (s : σ) :
    l.foldl (fun s _ => g s) s = iterN g l.length s := by
  induction l generalizing s with
  | nil => rfl
  | cons a l ih => rw [List.foldl_cons, ih]; rfl

theorem forRange_const {σ : Type} (g : σ → σ) (n : Int) (s : σ) :
    forRange 0 n s (fun _ st => g st) = iterN g n.toNat s := by
  unfold forRange
  rw [foldl_const]; simp

theorem iterN_fix {σ : Type} (g : σ → σ) (s : σ) (h : g s = s) (k : Nat) : iterN g k s = s := by
  induction k with
  | zero => rfl
  | succ k ih => show iterN g k (g s) = s; rw [h, ih]

/-! ### `_wake_tree` -/

/-- the body of the walk loop of `_wake_tree` (as generated) -/
def wakeBody (n w t v : Int) (arr : Int → Int → Int) (st : List (Write K) × Int × Int × Bool) :
    List (Write K) × Int × Int × Bool :=
  let (ws, nwoke, current, brk_1) := st
  if brk_1 then st else
  let next_tree : Int := (Write.lookupI ws "tree_asleep_out" [w, current] (arr w current))
  if ((decide (next_tree < (0 : Int))) || (decide (next_tree ≥ n))) then
    (ws, nwoke, current, true)
  else
    let ws : List (Write K) := ws ++ [(Write.mk "tree_asleep_out" [w, current] (WVal.i v) WKind.set : Write K)]
    let nwoke : Int := (nwoke + (1 : Int))
    let current : Int := next_tree
    if (decide (current = t)) then
      (ws, nwoke, current, true)
    else
      (ws, nwoke, current, brk_1)

theorem wake_tree_unfold [Scalar K] (n w t v : Int) (arr : Int → Int → Int) :
    Gen.Sleep._wake_tree (K := K) n w t v arr
      = if t < 0 ∨ t ≥ n then ((0 : Int), [])
        else if arr w t < 0 then ((0 : Int), if v < arr w t then [setAsleep w t v] else [])
        else
          let R := forRange 0 (n + 1) (([] : List (Write K)), (0 : Int), t, false) (fun _ st => wakeBody n w t v arr st)
          (R.2.1, R.1) := by
  unfold Gen.Sleep._wake_tree
  by_cases h1 : t < 0 ∨ t ≥ n
  · have : (decide (t < 0) || decide (t ≥ n)) = true := by simpa using h1
    simp only [this, if_true, h1]
  · have : (decide (t < 0) || decide (t ≥ n)) = false := by simpa using h1
    simp only [this, if_neg h1, Bool.false_eq_true, if_false]
    have hl : Write.lookupI ([] : List (Write K)) "tree_asleep_out" [w, t] (arr w t) = arr w t := rfl
    rw [hl]
    by_cases h2 : arr w t < 0
    · simp only [h2, decide_true, if_true]
      by_cases h3 : v < arr w t <;> simp [h3, setAsleep]
    · simp only [h2, decide_false, Bool.false_eq_true, if_false]
      rfl

theorem wakeBody_broken (n w t v : Int) (arr : Int → Int → Int) (ws : List (Write K)) (nw cur : Int) :
    wakeBody n w t v arr (ws, nw, cur, true) = (ws, nw, cur, true) := rfl

/-- **loop invariant** of the cycle walk: after any number of iterations the writes are stores of `v` into
    the cells of `wakePathAux`, and `nwoke` is their number -/
theorem wake_loop (n w t v : Int) (arr : Int → Int → Int) (k : Nat) (vis : List Int) (cur : Int) :
    (iterN (wakeBody (K := K) n w t v arr) k (vis.map (fun c => setAsleep w c v), (vis.length : Int), cur, false)).1
        = (wakePathAux n (arr w) t v k vis cur).map (fun c => setAsleep w c v) ∧
    (iterN (wakeBody (K := K) n w t v arr) k (vis.map (fun c => setAsleep w c v), (vis.length : Int), cur, false)).2.1
        = ((wakePathAux n (arr w) t v k vis cur).length : Int) := by
  induction k generalizing vis cur with
  | zero => exact ⟨rfl, rfl⟩
  | succ k ih =>
    show (iterN _ k (wakeBody n w t v arr _)).1 = _ ∧ (iterN _ k (wakeBody n w t v arr _)).2.1 = _
    have hnext : Write.lookupI (vis.map (fun c => (setAsleep w c v : Write K))) "tree_asleep_out" [w, cur] (arr w cur)
        = if cur ∈ vis then v else arr w cur := lookupI_map_setAsleep w vis v cur _
    unfold wakePathAux
    simp only []
    generalize hnx : (if cur ∈ vis then v else arr w cur) = next at hnext
    by_cases h1 : next < 0 ∨ next ≥ n
    · have hb : (decide (next < 0) || decide (next ≥ n)) = true := by simpa using h1
      have hg : wakeBody (K := K) n w t v arr (vis.map (fun c => setAsleep w c v), (vis.length : Int), cur, false)
          = (vis.map (fun c => setAsleep w c v), (vis.length : Int), cur, true) := by
        simp only [wakeBody, Bool.false_eq_true, if_false, hnext, hb, if_true]
      rw [hg, iterN_fix _ _ (wakeBody_broken n w t v arr _ _ _), if_pos h1]
      exact ⟨rfl, rfl⟩
    · have hb : (decide (next < 0) || decide (next ≥ n)) = false := by simpa using h1
      rw [if_neg h1]
      have hmap : vis.map (fun c => (setAsleep w c v : Write K)) ++ [(Write.mk "tree_asleep_out" [w, cur] (WVal.i v) WKind.set : Write K)]
          = (vis ++ [cur]).map (fun c => setAsleep w c v) := by simp [setAsleep]
      have hlen : ((vis.length : Int) + 1) = ((vis ++ [cur]).length : Int) := by simp
      by_cases h2 : next = t
      · have hb' := hb
        rw [h2] at hb'
        have hg : wakeBody (K := K) n w t v arr (vis.map (fun c => setAsleep w c v), (vis.length : Int), cur, false)
            = ((vis ++ [cur]).map (fun c => setAsleep w c v), ((vis ++ [cur]).length : Int), next, true) := by
          simp only [wakeBody, Bool.false_eq_true, if_false, hnext, hb, hb', h2, decide_true, if_true, hmap, hlen]
        rw [hg, iterN_fix _ _ (wakeBody_broken n w t v arr _ _ _), if_pos h2]
        exact ⟨rfl, rfl⟩
      · have hg : wakeBody (K := K) n w t v arr (vis.map (fun c => setAsleep w c v), (vis.length : Int), cur, false)
            = ((vis ++ [cur]).map (fun c => setAsleep w c v), ((vis ++ [cur]).length : Int), next, false) := by
          simp only [wakeBody, Bool.false_eq_true, if_false, hnext, hb, h2, decide_false, hmap, hlen]
        rw [hg, if_neg h2]
        exact ih (vis ++ [cur]) next

/-- **`_wake_tree` = the model** (return value and write list), for ALL inputs -/
theorem wake_tree_eq [Scalar K] (n w t v : Int) (arr : Int → Int → Int) :
    Gen.Sleep._wake_tree (K := K) n w t v arr = (wakeCount n (arr w) t v, wakeTreeWrites w n (arr w) t v) := by
  rw [wake_tree_unfold]
  unfold wakeCount wakeTreeWrites wakeCells
  by_cases h1 : t < 0 ∨ t ≥ n
  · simp [h1]
  · rw [if_neg h1, if_neg h1, if_neg h1]
    by_cases h2 : arr w t < 0
    · rw [if_pos h2, if_pos h2, if_pos h2]
      by_cases h3 : v < arr w t <;> simp [h3]
    · rw [if_neg h2, if_neg h2, if_neg h2]
      simp only []
      rw [forRange_const]
      have := wake_loop (K := K) n w t v arr (n + 1).toNat [] t
      simp only [List.map_nil, List.length_nil, Int.natCast_zero] at this
      rw [Prod.ext_iff]
      exact ⟨this.2, this.1⟩

/-! ### `_wake_tree` on the list state -/

theorem wakePathAux_inrange (n : Int) (a : Int → Int) (t v : Int) (k : Nat) (vis : List Int) (cur : Int)
    (hv : ∀ c ∈ vis, 0 ≤ c ∧ c < n) (hc : 0 ≤ cur ∧ cur < n) :
    ∀ c ∈ wakePathAux n a t v k vis cur, 0 ≤ c ∧ c < n := by
  induction k generalizing vis cur with
  | zero => exact hv
  | succ k ih =>
    unfold wakePathAux
    simp only []
    have hv' : ∀ c ∈ vis ++ [cur], 0 ≤ c ∧ c < n := by
      intro c hc'
      rcases List.mem_append.mp hc' with h | h
      · exact hv c h
      · simp only [List.mem_singleton] at h; subst h; exact hc
    generalize (if cur ∈ vis then v else a cur) = next
    by_cases h1 : next < 0 ∨ next ≥ n
    · rw [if_pos h1]; exact hv
    · rw [if_neg h1]
      by_cases h2 : next = t
      · rw [if_pos h2]; exact hv'
      · rw [if_neg h2]; exact ih _ _ hv' (by omega)

theorem wakeCells_inrange (n : Int) (a : Int → Int) (t v : Int) : ∀ c ∈ wakeCells n a t v, 0 ≤ c ∧ c < n := by
  unfold wakeCells
  split
  · simp
  · rename_i h1
    split
    · split
      · intro c hc; simp only [List.mem_singleton] at hc; subst hc; omega
      · simp
    · exact wakePathAux_inrange n a t v _ [] t (by simp) (by omega)

theorem length_wakeTree (s : List Int) (t v : Int) : (wakeTree s t v).length = s.length := length_foldl_wr _ _ _

/-- `_wake_tree` stores `v` into the cells `wakeCells` and nothing else -/
theorem rd_wakeTree (s : List Int) (t v u : Int) :
    rd (wakeTree s t v) u = if u ∈ wakeCells s.length (rd s) t v then v else rd s u :=
  rd_foldl_wr _ _ _ _ (wakeCells_inrange _ _ _ _)

theorem applyAsleep_map_set (w : Int) (cells : List Int) (v : Int) (s : List Int) :
    applyAsleep w s (cells.map (fun c => (setAsleep w c v : Write K))) = cells.foldl (fun s c => wr s c v) s := by
  induction cells generalizing s with
  | nil => rfl
  | cons a l ih =>
    show applyAsleep w (applyAsleep1 w s (setAsleep w a v)) _ = _
    rw [List.foldl_cons, ← ih]
    simp [applyAsleep1, setAsleep]

/-- applying the write list of `_wake_tree` to the state is the model transition -/
theorem applyAsleep_wakeTreeWrites (w : Int) (s : List Int) (t v : Int) :
    applyAsleep w s (wakeTreeWrites (K := K) w s.length (rd s) t v) = wakeTree s t v :=
  applyAsleep_map_set w _ v s

theorem applyAsleep_append (w : Int) (s : List Int) (l1 l2 : List (Write K)) :
    applyAsleep w s (l1 ++ l2) = applyAsleep w (applyAsleep w s l1) l2 := by
  unfold applyAsleep; rw [List.foldl_append]

theorem applyAsleep_nil (w : Int) (s : List Int) : applyAsleep (K := K) w s [] = s := rfl

/-! ### iterating the "next tree" function -/

theorem iter_succ' (f : Int → Int) (k : Nat) (x : Int) : iter f (k + 1) x = f (iter f k x) := by
  induction k generalizing x with
  | zero => rfl
  | succ k ih => show iter f (k + 1) (f x) = _; rw [ih]; rfl

theorem iter_add (f : Int → Int) (a b : Nat) (x : Int) : iter f (a + b) x = iter f b (iter f a x) := by
  induction a generalizing x with
  | zero => simp [iter]
  | succ a ih =>
    rw [show a + 1 + b = (a + b) + 1 by omega]
    show iter f (a + b) (f x) = iter f b (iter f a (f x))
    exact ih (f x)

theorem iter_mul (f : Int → Int) (p : Nat) (x : Int) (h : iter f p x = x) (m : Nat) : iter f (m * p) x = x := by
  induction m with
  | zero => simp [iter]
  | succ m ih => rw [Nat.succ_mul, iter_add, ih, h]

theorem iter_mod (f : Int → Int) (p : Nat) (x : Int) (h : iter f p x = x) (k : Nat) :
    iter f k x = iter f (k % p) x := by
  conv_lhs => rw [← Nat.div_add_mod k p, Nat.mul_comm, iter_add, iter_mul f p x h]

/-- `u` is reachable from `t` along `f` -/
def Cyc (f : Int → Int) (t u : Int) : Prop := ∃ k : Nat, iter f k t = u

theorem Cyc.refl (f : Int → Int) (t : Int) : Cyc f t t := ⟨0, rfl⟩

theorem Cyc.trans {f : Int → Int} {a b c : Int} (h1 : Cyc f a b) (h2 : Cyc f b c) : Cyc f a c := by
  obtain ⟨i, hi⟩ := h1; obtain ⟨j, hj⟩ := h2
  exact ⟨i + j, by rw [iter_add, hi, hj]⟩

/-- function form of `WF` -/
def WFf (n : Int) (f : Int → Int) : Prop :=
  ∀ x, 0 ≤ x → x < n → f x ≥ 0 → f x < n ∧ f (f x) ≥ 0 ∧ ∃ k : Nat, (k : Int) < n ∧ iter f (k + 1) x = x

theorem WF_iff (s : List Int) : WF s ↔ WFf s.length (rd s) := by
  unfold WF WFf
  constructor
  · intro h x h0 h1 h2
    have hx : ((x.toNat : Nat) : Int) = x := by omega
    have := h x.toNat (List.mem_range.mpr (by omega)) (by rw [hx]; exact h2)
    rw [hx] at this
    obtain ⟨a, b, k, hk, e⟩ := this
    exact ⟨a, b, k, by have := List.mem_range.mp hk; omega, e⟩
  · intro h t ht h2
    have ht' := List.mem_range.mp ht
    obtain ⟨a, b, k, hk, e⟩ := h t (by omega) (by omega) h2
    exact ⟨a, b, k, List.mem_range.mpr (by omega), e⟩

theorem orbit_sleeping {n : Int} {f : Int → Int} (h : WFf n f) (k : Nat) (x : Int) (h0 : 0 ≤ x) (h1 : x < n) (h2 : f x ≥ 0) :
    0 ≤ iter f k x ∧ iter f k x < n ∧ f (iter f k x) ≥ 0 := by
  induction k generalizing x with
  | zero => exact ⟨h0, h1, h2⟩
  | succ k ih =>
    obtain ⟨a, b, -⟩ := h x h0 h1 h2
    exact ih (f x) (by omega) a b

theorem period_exists {n : Int} {f : Int → Int} (h : WFf n f) (x : Int) (h0 : 0 ≤ x) (h1 : x < n) (h2 : f x ≥ 0) :
    ∃ p : Nat, 0 < p ∧ (p : Int) ≤ n ∧ iter f p x = x := by
  obtain ⟨-, -, k, hk, e⟩ := h x h0 h1 h2
  exact ⟨k + 1, by omega, by omega, e⟩

theorem Cyc_symm {n : Int} {f : Int → Int} (h : WFf n f) {t u : Int} (h0 : 0 ≤ t) (h1 : t < n) (h2 : f t ≥ 0)
    (hc : Cyc f t u) : Cyc f u t := by
  obtain ⟨k, hk⟩ := hc
  obtain ⟨p, hp0, -, hp⟩ := period_exists h t h0 h1 h2
  refine ⟨k * p - k, ?_⟩
  have hge : k ≤ k * p := Nat.le_mul_of_pos_right k hp0
  have := iter_add f k (k * p - k) t
  rw [show k + (k * p - k) = k * p by omega, iter_mul f p t hp, hk] at this
  exact this.symm

/-- the first `j` trees of the walk from `t` -/
def orbit (f : Int → Int) (t : Int) (j : Nat) : List Int := (List.range j).map (fun i => iter f i t)

theorem orbit_succ (f : Int → Int) (t : Int) (j : Nat) : orbit f t (j + 1) = orbit f t j ++ [iter f j t] := by
  unfold orbit; rw [List.range_succ, List.map_append]; rfl

theorem mem_orbit (f : Int → Int) (t : Int) (j : Nat) (u : Int) : u ∈ orbit f t j ↔ ∃ i, i < j ∧ iter f i t = u := by
  unfold orbit; simp

theorem orbit_distinct (f : Int → Int) (t : Int) (p : Nat) (hper : iter f p t = t)
    (hmin : ∀ i, 0 < i → i < p → iter f i t ≠ t) (i j : Nat) (hij : i < j) (hj : j < p) : iter f i t ≠ iter f j t := by
  intro e
  have h1 : iter f (i + (p - j)) t = t := by
    rw [iter_add, e, ← iter_add, show j + (p - j) = p by omega, hper]
  exact hmin (i + (p - j)) (by omega) (by omega) h1

/-- the walk of `_wake_tree` from a tree of minimal period `p ≤ fuel` collects exactly the orbit;
    it never re-reads one of its own writes, so the stored value `v` plays no role -/
theorem walk_cycle (n : Int) (f : Int → Int) (t v : Int) (p : Nat) (hper : iter f p t = t)
    (hmin : ∀ i, 0 < i → i < p → iter f i t ≠ t) (hin : ∀ i, 0 ≤ iter f i t ∧ iter f i t < n)
    (k j : Nat) (hj : j < p) (hk : p - j ≤ k) :
    wakePathAux n f t v k (orbit f t j) (iter f j t) = orbit f t p := by
  induction k generalizing j with
  | zero => omega
  | succ k ih =>
    unfold wakePathAux
    simp only []
    have hnot : ¬ iter f j t ∈ orbit f t j := by
      rw [mem_orbit]
      rintro ⟨i, hi, e⟩
      exact orbit_distinct f t p hper hmin i j hi hj e
    rw [if_neg hnot, ← iter_succ' f j t]
    have := hin (j + 1)
    rw [if_neg (by omega)]
    by_cases he : iter f (j + 1) t = t
    · rw [if_pos he]
      have : j + 1 = p := by
        by_contra hne
        exact hmin (j + 1) (by omega) (by omega) he
      rw [← this, orbit_succ]
    · rw [if_neg he, ← orbit_succ]
      have : j + 1 < p := by
        by_contra hne
        have : j + 1 = p := by omega
        rw [this] at he; exact he hper
      exact ih (j + 1) this (by omega)

/-- on a well-formed row, `_wake_tree` on a sleeping tree stores into exactly the tree's cycle -/
theorem wakeCells_eq_orbit {n : Int} {f : Int → Int} (h : WFf n f) (t v : Int) (h0 : 0 ≤ t) (h1 : t < n) (h2 : f t ≥ 0) :
    ∃ p : Nat, 0 < p ∧ (p : Int) ≤ n ∧ iter f p t = t ∧ wakeCells n f t v = orbit f t p := by
  have hex : ∃ p : Nat, 0 < p ∧ iter f p t = t := by
    obtain ⟨p, a, -, c⟩ := period_exists h t h0 h1 h2; exact ⟨p, a, c⟩
  classical
  let p := Nat.find hex
  have hp : 0 < p ∧ iter f p t = t := Nat.find_spec hex
  have hmin : ∀ i, 0 < i → i < p → iter f i t ≠ t := fun i hi hlt e => Nat.find_min hex hlt ⟨hi, e⟩
  have hpn : (p : Int) ≤ n := by
    obtain ⟨q, a, b, c⟩ := period_exists h t h0 h1 h2
    have : p ≤ q := Nat.find_min' hex ⟨a, c⟩
    omega
  refine ⟨p, hp.1, hpn, hp.2, ?_⟩
  unfold wakeCells
  rw [if_neg (by omega), if_neg (by omega)]
  have := walk_cycle n f t v p hp.2 hmin (fun i => by
    have := orbit_sleeping h i t h0 h1 h2; exact ⟨this.1, this.2.1⟩) (n + 1).toNat 0 hp.1 (by omega)
  exact this

theorem mem_orbit_iff_Cyc (f : Int → Int) (t : Int) (p : Nat) (hp0 : 0 < p) (hper : iter f p t = t) (u : Int) :
    u ∈ orbit f t p ↔ Cyc f t u := by
  rw [mem_orbit]
  constructor
  · rintro ⟨i, -, e⟩; exact ⟨i, e⟩
  · rintro ⟨k, e⟩
    exact ⟨k % p, Nat.mod_lt _ hp0, by rw [← iter_mod f p t hper]; exact e⟩

theorem onCycle_iff_Cyc {n : Int} {f : Int → Int} (h : WFf n f) (m : Nat) (hm : (m : Int) = n) (t u : Int)
    (h0 : 0 ≤ t) (h1 : t < n) (h2 : f t ≥ 0) : onCycle m f t u ↔ Cyc f t u := by
  unfold onCycle
  constructor
  · rintro ⟨k, -, e⟩; exact ⟨k, e⟩
  · rintro ⟨k, e⟩
    obtain ⟨p, hp0, hpn, hper⟩ := period_exists h t h0 h1 h2
    refine ⟨k % p, List.mem_range.mpr ?_, by rw [← iter_mod f p t hper]; exact e⟩
    have := Nat.mod_lt k hp0
    omega

/-- **wake_wakes_whole_cycle** (row form): on a well-formed state, `_wake_tree` on a sleeping tree `t` stores the
    wake value into every tree of `t`'s cycle and into no other cell -/
theorem rd_wakeTree_cycle (s : List Int) (hwf : WF s) (t v u : Int) (h0 : 0 ≤ t) (h1 : t < s.length) (h2 : rd s t ≥ 0) :
    (Cyc (rd s) t u → rd (wakeTree s t v) u = v) ∧ (¬ Cyc (rd s) t u → rd (wakeTree s t v) u = rd s u) := by
  have hf := (WF_iff s).mp hwf
  obtain ⟨p, hp0, -, hper, hcells⟩ := wakeCells_eq_orbit hf t v h0 h1 h2
  rw [rd_wakeTree, hcells]
  constructor
  · intro hc; rw [if_pos ((mem_orbit_iff_Cyc _ _ p hp0 hper u).mpr hc)]
  · intro hc; rw [if_neg (fun h => hc ((mem_orbit_iff_Cyc _ _ p hp0 hper u).mp h))]

/-! ### waking whole cycles: the invariant of a wake launch -/

/-- `s` is `s0` with some whole cycles woken (and awake countdowns possibly lowered): a tree still asleep
    in `s` was asleep in `s0` and its whole `s0`-cycle is untouched -/
def Intact (s0 s : List Int) : Prop :=
  s.length = s0.length ∧
  ∀ u : Int, 0 ≤ u → u < s0.length → rd s u ≥ 0 → rd s0 u ≥ 0 ∧ ∀ x, Cyc (rd s0) u x → rd s x = rd s0 x

theorem Intact.refl (s0 : List Int) : Intact s0 s0 := ⟨rfl, fun _ _ _ h => ⟨h, fun _ _ => rfl⟩⟩

theorem Intact.awake_mono {s0 s : List Int} (h : Intact s0 s) (u : Int) (h0 : 0 ≤ u) (h1 : u < s0.length)
    (ha : rd s0 u < 0) : rd s u < 0 := by
  by_contra hn
  have := (h.2 u h0 h1 (by omega)).1
  omega

theorem iter_intact {s0 s : List Int} (h : Intact s0 s) (u : Int) (h0 : 0 ≤ u) (h1 : u < s0.length) (h2 : rd s u ≥ 0)
    (k : Nat) : iter (rd s) k u = iter (rd s0) k u := by
  induction k with
  | zero => rfl
  | succ k ih =>
    rw [iter_succ', iter_succ', ih]
    exact (h.2 u h0 h1 h2).2 _ ⟨k, rfl⟩

theorem Cyc_intact {s0 s : List Int} (h : Intact s0 s) (u x : Int) (h0 : 0 ≤ u) (h1 : u < s0.length) (h2 : rd s u ≥ 0) :
    Cyc (rd s) u x ↔ Cyc (rd s0) u x := by
  unfold Cyc
  constructor
  · rintro ⟨k, e⟩; exact ⟨k, by rw [← iter_intact h u h0 h1 h2]; exact e⟩
  · rintro ⟨k, e⟩; exact ⟨k, by rw [iter_intact h u h0 h1 h2]; exact e⟩

theorem Intact.wf {s0 s : List Int} (hwf : WF s0) (h : Intact s0 s) : WF s := by
  rw [WF_iff] at hwf ⊢
  intro u h0 h1 h2
  rw [h.1] at h1 ⊢
  obtain ⟨hs0, hc⟩ := h.2 u h0 h1 h2
  obtain ⟨a, b, k, hk, e⟩ := hwf u h0 h1 hs0
  have e1 : rd s u = rd s0 u := hc u (Cyc.refl _ _)
  have e2 : rd s (rd s0 u) = rd s0 (rd s0 u) := hc _ ⟨1, rfl⟩
  refine ⟨by rw [e1]; exact a, by rw [e1, e2]; exact b, k, hk, ?_⟩
  rw [iter_intact h u h0 h1 h2]; exact e

/-- two sleeping trees of a well-formed row with a common descendant are on one cycle -/
theorem Cyc_join {n : Int} {f : Int → Int} (h : WFf n f) {t u x : Int} (_ht0 : 0 ≤ t) (_ht1 : t < n) (_ht2 : f t ≥ 0)
    (hu0 : 0 ≤ u) (hu1 : u < n) (hu2 : f u ≥ 0) (h1 : Cyc f t x) (h2 : Cyc f u x) : Cyc f t u :=
  Cyc.trans h1 (Cyc_symm h hu0 hu1 hu2 h2)

/-- **one `_wake_tree` with a negative value**: whole cycles stay whole, and the set of awake trees grows by
    exactly the `s0`-cycle of the addressed tree (nothing if that tree is out of range or was awake in `s0`) -/
theorem wake_step (s0 s : List Int) (hwf : WF s0) (hI : Intact s0 s) (t v : Int) (hv : v < 0) :
    Intact s0 (wakeTree s t v) ∧
    ∀ u : Int, 0 ≤ u → u < s0.length →
      (rd (wakeTree s t v) u < 0 ↔ rd s u < 0 ∨ (0 ≤ t ∧ t < s0.length ∧ rd s0 t ≥ 0 ∧ Cyc (rd s0) t u)) := by
  have hf0 := (WF_iff s0).mp hwf
  by_cases hr : t < 0 ∨ t ≥ s0.length
  · -- out of range: nothing happens
    have hc : wakeCells s.length (rd s) t v = [] := by
      unfold wakeCells; rw [if_pos (by rw [hI.1]; exact hr)]
    have e : wakeTree s t v = s := by unfold wakeTree; rw [hc]; rfl
    rw [e]
    refine ⟨hI, fun u _ _ => ⟨Or.inl, fun h => ?_⟩⟩
    rcases h with h | h
    · exact h
    · omega
  · have ht0 : 0 ≤ t := by omega
    have ht1 : t < s0.length := by omega
    by_cases ha : rd s t < 0
    · -- `t` is awake now: at most its own countdown is lowered
      have hsub : ∀ c ∈ wakeCells s.length (rd s) t v, c = t := by
        unfold wakeCells
        rw [if_neg (by rw [hI.1]; exact hr), if_pos ha]
        split <;> simp
      have hrd : ∀ u, rd (wakeTree s t v) u = if u ∈ wakeCells s.length (rd s) t v then v else rd s u := rd_wakeTree s t v
      -- a tree asleep in s0 with `t` on its cycle is awake in `s`
      have hkey : ∀ u : Int, 0 ≤ u → u < s0.length → rd s u ≥ 0 → ¬ Cyc (rd s0) u t := by
        intro u hu0 hu1 hu2 hc
        have := (hI.2 u hu0 hu1 hu2).2 t hc
        have hs0u := (hI.2 u hu0 hu1 hu2).1
        obtain ⟨k, hk⟩ := hc
        have := (orbit_sleeping hf0 k u hu0 hu1 hs0u).2.2
        rw [hk] at this
        omega
      refine ⟨⟨by rw [length_wakeTree]; exact hI.1, ?_⟩, ?_⟩
      · intro u hu0 hu1 hu2
        rw [hrd] at hu2
        by_cases hm : u ∈ wakeCells s.length (rd s) t v
        · rw [if_pos hm] at hu2; omega
        · rw [if_neg hm] at hu2
          refine ⟨(hI.2 u hu0 hu1 hu2).1, fun x hx => ?_⟩
          rw [hrd]
          by_cases hmx : x ∈ wakeCells s.length (rd s) t v
          · have := hsub x hmx; subst this
            exact absurd hx (hkey u hu0 hu1 hu2)
          · rw [if_neg hmx]; exact (hI.2 u hu0 hu1 hu2).2 x hx
      · intro u hu0 hu1
        rw [hrd]
        constructor
        · intro h
          by_cases hm : u ∈ wakeCells s.length (rd s) t v
          · have := hsub u hm; subst this; exact Or.inl ha
          · rw [if_neg hm] at h; exact Or.inl h
        · intro h
          by_cases hm : u ∈ wakeCells s.length (rd s) t v
          · rw [if_pos hm]; exact hv
          · rw [if_neg hm]
            rcases h with h | ⟨-, -, hs0t, hc⟩
            · exact h
            · by_contra hn
              have hu2 : rd s u ≥ 0 := by omega
              have hs0u := (hI.2 u hu0 hu1 hu2).1
              exact hkey u hu0 hu1 hu2 (Cyc_symm hf0 ht0 ht1 hs0t hc)
    · -- `t` is asleep now: its whole cycle is woken
      have ha' : rd s t ≥ 0 := by omega
      have hwfs : WF s := Intact.wf hwf hI
      have hs0t := (hI.2 t ht0 ht1 ha').1
      have hcyc := fun u => rd_wakeTree_cycle s hwfs t v u ht0 (by rw [hI.1]; exact ht1) ha'
      have hcc : ∀ u, Cyc (rd s) t u ↔ Cyc (rd s0) t u := fun u => Cyc_intact hI t u ht0 ht1 ha'
      refine ⟨⟨by rw [length_wakeTree]; exact hI.1, ?_⟩, ?_⟩
      · intro u hu0 hu1 hu2
        have hnc : ¬ Cyc (rd s) t u := by
          intro hc; rw [(hcyc u).1 hc] at hu2; omega
        rw [(hcyc u).2 hnc] at hu2
        obtain ⟨hs0u, hcu⟩ := hI.2 u hu0 hu1 hu2
        refine ⟨hs0u, fun x hx => ?_⟩
        have hncx : ¬ Cyc (rd s) t x := by
          intro hc
          exact hnc ((hcc u).mpr (Cyc_join hf0 ht0 ht1 hs0t hu0 hu1 hs0u ((hcc x).mp hc) hx))
        rw [(hcyc x).2 hncx]; exact hcu x hx
      · intro u hu0 hu1
        by_cases hc : Cyc (rd s) t u
        · rw [(hcyc u).1 hc]
          exact ⟨fun _ => Or.inr ⟨ht0, ht1, hs0t, (hcc u).mp hc⟩, fun _ => hv⟩
        · rw [(hcyc u).2 hc]
          constructor
          · exact Or.inl
          · rintro (h | ⟨-, -, -, h⟩)
            · exact h
            · exact absurd ((hcc u).mpr h) hc

/-- a launch of `_wake_tree` calls with negative values: the awake trees afterwards -/
theorem wakeLaunch_awake (s0 : List Int) (hwf : WF s0) (tasks : List (Int × Int)) (hv : ∀ tv ∈ tasks, tv.2 < 0)
    (s : List Int) (hI : Intact s0 s) :
    Intact s0 (wakeLaunch tasks s) ∧
    ∀ u : Int, 0 ≤ u → u < s0.length →
      (rd (wakeLaunch tasks s) u < 0 ↔
        rd s u < 0 ∨ ∃ tv ∈ tasks, 0 ≤ tv.1 ∧ tv.1 < s0.length ∧ rd s0 tv.1 ≥ 0 ∧ Cyc (rd s0) tv.1 u) := by
  induction tasks generalizing s with
  | nil => exact ⟨hI, fun u _ _ => by simp [wakeLaunch]⟩
  | cons a l ih =>
    obtain ⟨hI1, hst⟩ := wake_step s0 s hwf hI a.1 a.2 (hv a (by simp))
    obtain ⟨hI2, hrest⟩ := ih (fun tv h => hv tv (List.mem_cons_of_mem _ h)) (wakeTree s a.1 a.2) hI1
    refine ⟨hI2, fun u hu0 hu1 => ?_⟩
    show rd (wakeLaunch l (wakeTree s a.1 a.2)) u < 0 ↔ _
    rw [hrest u hu0 hu1, hst u hu0 hu1]
    constructor
    · rintro ((h | h) | ⟨tv, htv, h⟩)
      · exact Or.inl h
      · exact Or.inr ⟨a, by simp, h⟩
      · exact Or.inr ⟨tv, List.mem_cons_of_mem _ htv, h⟩
    · rintro (h | ⟨tv, htv, h⟩)
      · exact Or.inl (Or.inl h)
      · rcases List.mem_cons.mp htv with e | e
        · subst e; exact Or.inl (Or.inr h)
        · exact Or.inr ⟨tv, e, h⟩

theorem rd_nat (s : List Int) (i : Nat) (h : i < s.length) : rd s (i : Int) = s[i] := by
  unfold rd
  simp [h]

theorem awakeSet_eq_of (s s' : List Int) (hl : s.length = s'.length)
    (h : ∀ u : Int, 0 ≤ u → u < s.length → (rd s u < 0 ↔ rd s' u < 0)) : awakeSet s = awakeSet s' := by
  unfold awakeSet
  apply List.ext_getElem (by simp [hl])
  intro i h1 h2
  simp only [List.length_map] at h1 h2
  simp only [List.getElem_map]
  have := h i (by omega) (by omega)
  rw [rd_nat s i h1, rd_nat s' i h2] at this
  exact decide_eq_decide.mpr this

/-- if a tree of an `s0`-cycle is awake in `s`, the whole cycle is -/
theorem cycle_awake {s0 s : List Int} (hwf : WF s0) (hI : Intact s0 s) (t u : Int) (ht0 : 0 ≤ t) (ht1 : t < s0.length)
    (hs0t : rd s0 t ≥ 0) (ha : rd s t < 0) (hu0 : 0 ≤ u) (hu1 : u < s0.length) (hc : Cyc (rd s0) t u) : rd s u < 0 := by
  have hf0 := (WF_iff s0).mp hwf
  by_contra hn
  have hu2 : rd s u ≥ 0 := by omega
  have := (hI.2 u hu0 hu1 hu2).2 t (Cyc_symm hf0 ht0 ht1 hs0t hc)
  omega

/-- collision launch: the wake value is the CURRENT countdown of a tree that was awake before the launch -/
theorem collisionLaunch_awake (s0 : List Int) (hwf : WF s0) (tasks : List (Option (Int × Int)))
    (hsrc : ∀ t src, some (t, src) ∈ tasks → 0 ≤ src ∧ src < s0.length ∧ rd s0 src < 0)
    (s : List Int) (hI : Intact s0 s) :
    Intact s0 (collisionLaunch tasks s) ∧
    ∀ u : Int, 0 ≤ u → u < s0.length →
      (rd (collisionLaunch tasks s) u < 0 ↔
        rd s u < 0 ∨ ∃ t src, some (t, src) ∈ tasks ∧ 0 ≤ t ∧ t < s0.length ∧ rd s0 t ≥ 0 ∧ Cyc (rd s0) t u) := by
  induction tasks generalizing s with
  | nil => exact ⟨hI, fun u _ _ => by simp [collisionLaunch]⟩
  | cons a l ih =>
    have hsrc' : ∀ t src, some (t, src) ∈ l → 0 ≤ src ∧ src < s0.length ∧ rd s0 src < 0 :=
      fun t src h => hsrc t src (List.mem_cons_of_mem _ h)
    cases a with
    | none =>
      obtain ⟨hI2, hrest⟩ := ih hsrc' s hI
      refine ⟨hI2, fun u hu0 hu1 => ?_⟩
      show rd (collisionLaunch l s) u < 0 ↔ _
      rw [hrest u hu0 hu1]
      constructor
      · rintro (h | ⟨t, src, hm, h⟩)
        · exact Or.inl h
        · exact Or.inr ⟨t, src, List.mem_cons_of_mem _ hm, h⟩
      · rintro (h | ⟨t, src, hm, h⟩)
        · exact Or.inl h
        · rcases List.mem_cons.mp hm with e | e
          · cases e
          · exact Or.inr ⟨t, src, e, h⟩
    | some ts =>
      obtain ⟨t, src⟩ := ts
      obtain ⟨hs0, hs1, hs2⟩ := hsrc t src (by simp)
      have hv : rd s src < 0 := hI.awake_mono src hs0 hs1 hs2
      obtain ⟨hI1, hst⟩ := wake_step s0 s hwf hI t (rd s src) hv
      obtain ⟨hI2, hrest⟩ := ih hsrc' (wakeTree s t (rd s src)) hI1
      refine ⟨hI2, fun u hu0 hu1 => ?_⟩
      show rd (collisionLaunch l (wakeTree s t (rd s src))) u < 0 ↔ _
      rw [hrest u hu0 hu1, hst u hu0 hu1]
      constructor
      · rintro ((h | h) | ⟨t', src', hm, h⟩)
        · exact Or.inl h
        · exact Or.inr ⟨t, src, by simp, h⟩
        · exact Or.inr ⟨t', src', List.mem_cons_of_mem _ hm, h⟩
      · rintro (h | ⟨t', src', hm, h⟩)
        · exact Or.inl (Or.inl h)
        · rcases List.mem_cons.mp hm with e | e
          · cases e; exact Or.inl (Or.inr h)
          · exact Or.inr ⟨t', src', e, h⟩

/-- `_wake_kernel` launch: invariant and final state.  Every waker stores `K_AWAKE_VAL`, so even the VALUES
    are determined: a tree is either untouched or holds −11 (and then it was asleep before). -/
theorem wakeKernelLaunch_spec (s0 : List Int) (hwf : WF s0) (trigger : Int → Bool) (order : List Int)
    (s : List Int) (hI : Intact s0 s)
    (hval : ∀ u : Int, 0 ≤ u → u < s0.length → rd s u = rd s0 u ∨ (rd s u = AWAKE_VAL ∧ rd s0 u ≥ 0)) :
    let s' := wakeKernelLaunch trigger order s
    Intact s0 s' ∧
    (∀ u : Int, 0 ≤ u → u < s0.length → rd s' u = rd s0 u ∨ (rd s' u = AWAKE_VAL ∧ rd s0 u ≥ 0)) ∧
    ∀ u : Int, 0 ≤ u → u < s0.length →
      (rd s' u < 0 ↔
        rd s u < 0 ∨ ∃ t ∈ order, trigger t = true ∧ 0 ≤ t ∧ t < s0.length ∧ rd s0 t ≥ 0 ∧ Cyc (rd s0) t u) := by
  induction order generalizing s with
  | nil => exact ⟨hI, hval, fun u _ _ => by simp [wakeKernelLaunch]⟩
  | cons a l ih =>
    by_cases hfire : rd s a ≥ 0 ∧ trigger a = true
    · have hstep : wakeKernelTask trigger s a = wakeTree s a AWAKE_VAL := by
        unfold wakeKernelTask; rw [if_pos hfire]
      obtain ⟨hI1, hst⟩ := wake_step s0 s hwf hI a AWAKE_VAL (by decide)
      have hval1 : ∀ u : Int, 0 ≤ u → u < s0.length →
          rd (wakeTree s a AWAKE_VAL) u = rd s0 u ∨ (rd (wakeTree s a AWAKE_VAL) u = AWAKE_VAL ∧ rd s0 u ≥ 0) := by
        intro u hu0 hu1
        rw [rd_wakeTree]
        by_cases hm : u ∈ wakeCells s.length (rd s) a AWAKE_VAL
        · rw [if_pos hm]
          -- `a` is asleep in `s`, in range (else no cells)
          have hin : ¬ (a < 0 ∨ a ≥ s.length) := by
            intro h; unfold wakeCells at hm; rw [if_pos h] at hm; simp at hm
          have ha0 : 0 ≤ a := by omega
          have ha1 : a < s0.length := by rw [← hI.1]; omega
          have hwfs : WF s := Intact.wf hwf hI
          have hcy : Cyc (rd s) a u := by
            by_contra hnc
            have h1 := (rd_wakeTree_cycle s hwfs a AWAKE_VAL u ha0 (by omega) hfire.1).2 hnc
            rw [rd_wakeTree, if_pos hm] at h1
            -- then rd s u = −11 < 0, but u is not awake…  use the cells characterisation instead
            obtain ⟨p, hp0, -, hper, hcells⟩ := wakeCells_eq_orbit ((WF_iff s).mp hwfs) a AWAKE_VAL ha0 (by omega) hfire.1
            rw [hcells] at hm
            exact hnc ((mem_orbit_iff_Cyc _ _ p hp0 hper u).mp hm)
          have hcy0 := (Cyc_intact hI a u ha0 ha1 hfire.1).mp hcy
          have hs0a := (hI.2 a ha0 ha1 hfire.1).1
          obtain ⟨k, hk⟩ := hcy0
          have := (orbit_sleeping ((WF_iff s0).mp hwf) k a ha0 ha1 hs0a).2.2
          rw [hk] at this
          exact Or.inr ⟨rfl, this⟩
        · rw [if_neg hm]; exact hval u hu0 hu1
      obtain ⟨hI2, hv2, hrest⟩ := ih (wakeTree s a AWAKE_VAL) hI1 hval1
      have hL : wakeKernelLaunch trigger (a :: l) s = wakeKernelLaunch trigger l (wakeTree s a AWAKE_VAL) := by
        show wakeKernelLaunch trigger l (wakeKernelTask trigger s a) = _; rw [hstep]
      dsimp only
      rw [hL]
      refine ⟨hI2, hv2, fun u hu0 hu1 => ?_⟩
      rw [hrest u hu0 hu1, hst u hu0 hu1]
      constructor
      · rintro ((h | ⟨h0, h1, h2, h3⟩) | ⟨t, hm, h⟩)
        · exact Or.inl h
        · exact Or.inr ⟨a, by simp, hfire.2, h0, h1, h2, h3⟩
        · exact Or.inr ⟨t, List.mem_cons_of_mem _ hm, h⟩
      · rintro (h | ⟨t, hm, htr, h0, h1, h2, h3⟩)
        · exact Or.inl (Or.inl h)
        · rcases List.mem_cons.mp hm with e | e
          · subst e; exact Or.inl (Or.inr ⟨h0, h1, h2, h3⟩)
          · exact Or.inr ⟨t, e, htr, h0, h1, h2, h3⟩
    · have hstep : wakeKernelTask trigger s a = s := by
        unfold wakeKernelTask; rw [if_neg hfire]
      obtain ⟨hI2, hv2, hrest⟩ := ih s hI hval
      have hL : wakeKernelLaunch trigger (a :: l) s = wakeKernelLaunch trigger l s := by
        show wakeKernelLaunch trigger l (wakeKernelTask trigger s a) = _; rw [hstep]
      dsimp only
      rw [hL]
      refine ⟨hI2, hv2, fun u hu0 hu1 => ?_⟩
      rw [hrest u hu0 hu1]
      constructor
      · rintro (h | ⟨t, hm, h⟩)
        · exact Or.inl h
        · exact Or.inr ⟨t, List.mem_cons_of_mem _ hm, h⟩
      · rintro (h | ⟨t, hm, htr, h0, h1, h2, h3⟩)
        · exact Or.inl h
        · rcases List.mem_cons.mp hm with e | e
          · subst e
            -- the task did not fire although triggered: `t` is already awake, hence its whole cycle is
            have hta : rd s t < 0 := by
              by_contra hn; exact hfire ⟨by omega, htr⟩
            exact Or.inl (cycle_awake hwf hI t u h0 h1 h2 hta hu0 hu1 h3)
          · exact Or.inr ⟨t, e, htr, h0, h1, h2, h3⟩

/-! ### `_sweep_awake_trees` -/

theorem length_sweepTask (can : Int → Bool) (s : List Int) (t : Int) : (sweepTask can s t).length = s.length := by
  unfold sweepTask
  simp only []
  split
  · rfl
  · split
    · split
      · exact length_wr _ _ _
      · rfl
    · exact length_wr _ _ _

theorem rd_sweepTask (can : Int → Bool) (s : List Int) (t u : Int) :
    rd (sweepTask can s t) u = if u = t ∧ 0 ≤ t ∧ t < s.length then sweepVal (can t) (rd s t) else rd s u := by
  unfold sweepTask sweepVal
  simp only []
  by_cases h1 : rd s t ≥ 0
  · rw [if_pos h1, if_pos h1]
    by_cases h : u = t ∧ 0 ≤ t ∧ t < s.length
    · rw [if_pos h, h.1]
    · rw [if_neg h]
  · rw [if_neg h1, if_neg h1]
    by_cases h2 : can t = true
    · rw [if_pos h2, if_pos h2]
      by_cases h3 : rd s t < -1
      · rw [if_pos h3, if_pos h3, rd_wr]
      · rw [if_neg h3, if_neg h3]
        by_cases h : u = t ∧ 0 ≤ t ∧ t < s.length
        · rw [if_pos h, h.1]
        · rw [if_neg h]
    · rw [if_neg h2, if_neg h2, rd_wr]

theorem length_sweep (can : Int → Bool) (order : List Int) (s : List Int) : (sweep can order s).length = s.length := by
  induction order generalizing s with
  | nil => rfl
  | cons a l ih => show (sweep can l (sweepTask can s a)).length = _; rw [ih, length_sweepTask]

/-- every task touches only its own cell: the sweep launch in closed form, for ANY duplicate-free order -/
theorem rd_sweep (can : Int → Bool) (order : List Int) (hnd : order.Nodup) (s : List Int) (u : Int) :
    rd (sweep can order s) u
      = if u ∈ order ∧ 0 ≤ u ∧ u < s.length then sweepVal (can u) (rd s u) else rd s u := by
  induction order generalizing s with
  | nil => simp [sweep]
  | cons a l ih =>
    show rd (sweep can l (sweepTask can s a)) u = _
    have hnd' := (List.nodup_cons.mp hnd)
    rw [ih hnd'.2, length_sweepTask, rd_sweepTask]
    by_cases hul : u ∈ l
    · have hua : u ≠ a := fun e => hnd'.1 (e ▸ hul)
      have : ¬ (u = a ∧ 0 ≤ a ∧ a < s.length) := fun h => hua h.1
      rw [if_neg this]
      by_cases hr : 0 ≤ u ∧ u < s.length
      · rw [if_pos ⟨hul, hr⟩, if_pos ⟨List.mem_cons_of_mem _ hul, hr⟩]
      · rw [if_neg (fun h => hr h.2), if_neg (fun h => hr h.2)]
    · rw [if_neg (fun h => hul h.1)]
      by_cases hua : u = a
      · subst hua
        by_cases hr : 0 ≤ u ∧ u < s.length
        · rw [if_pos ⟨rfl, hr⟩, if_pos ⟨by simp, hr⟩]
        · rw [if_neg (fun h => hr h.2), if_neg (fun h => hr h.2)]
      · rw [if_neg (fun h => hua h.1), if_neg]
        rintro ⟨h, -⟩
        rcases List.mem_cons.mp h with e | e
        · exact hua e
        · exact hul e

theorem applyAsleep_sweepWrites (w : Int) (s : List Int) (can : Int → Bool) (t : Int) :
    applyAsleep w s (sweepWrites (K := K) w t (can t) (rd s t)) = sweepTask can s t := by
  unfold sweepWrites sweepTask
  simp only []
  by_cases h1 : rd s t ≥ 0
  · rw [if_pos h1, if_pos h1]; rfl
  · rw [if_neg h1, if_neg h1]
    by_cases h2 : can t = true
    · rw [if_pos h2, if_pos h2]
      by_cases h3 : rd s t < -1
      · rw [if_pos h3, if_pos h3]; simp [applyAsleep, applyAsleep1, setAsleep]
      · rw [if_neg h3, if_neg h3]; rfl
    · rw [if_neg h2, if_neg h2]; simp [applyAsleep, applyAsleep1, setAsleep]

/-- the countdown from −11 in closed form: −11 + (number of consecutive quiet sweeps, capped at 10) -/
theorem countdown_closed (c : Nat → Bool) (k : Nat) :
    countdown c AWAKE_VAL k = AWAKE_VAL + min 10 (trail c k : Int) := by
  induction k with
  | zero => simp [countdown, trail]
  | succ k ih =>
    show sweepVal (c k) (countdown c AWAKE_VAL k) = AWAKE_VAL + min 10 ((trail c (k + 1) : Nat) : Int)
    rw [ih]
    unfold sweepVal AWAKE_VAL MINAWAKE
    by_cases hc : c k = true
    · have : trail c (k + 1) = trail c k + 1 := by simp [trail, hc]
      rw [this]
      simp only [hc, if_true]
      have h0 : (0 : Int) ≤ (trail c k : Int) := Int.natCast_nonneg _
      rcases Nat.lt_or_ge (trail c k) 10 with h | h
      · have e1 : min (10 : Int) (trail c k : Int) = trail c k := by omega
        have e2 : min (10 : Int) ((trail c k + 1 : Nat) : Int) = (trail c k : Int) + 1 := by omega
        rw [e1, e2]
        rw [if_neg (by omega), if_pos (by omega)]
        omega
      · have e1 : min (10 : Int) (trail c k : Int) = 10 := by omega
        have e2 : min (10 : Int) ((trail c k + 1 : Nat) : Int) = 10 := by omega
        rw [e1, e2]
        rw [if_neg (by omega), if_neg (by omega)]
    · have : trail c (k + 1) = 0 := by simp [trail, hc]
      rw [this]
      have h0 : (0 : Int) ≤ (trail c k : Int) := Int.natCast_nonneg _
      simp only [hc, Bool.false_eq_true, if_false]
      rw [if_neg (by omega)]
      simp

/-- monotonicity of one sweep in the incoming countdown (for awake values) -/
theorem sweepVal_mono (can : Bool) (a b : Int) (hab : a ≤ b) (hb : b < 0) : sweepVal can a ≤ sweepVal can b := by
  unfold sweepVal AWAKE_VAL MINAWAKE
  have h1 : ¬ a ≥ 0 := by omega
  have h2 : ¬ b ≥ 0 := by omega
  rw [if_neg h1, if_neg h2]
  cases can
  · simp
  · simp only [if_true]
    by_cases ha : a < -1 <;> by_cases hb' : b < -1 <;> simp only [ha, hb', if_true, if_false] <;> omega

/-! ### `_check_island_can_sleep` -/

theorem length_checkTask (island : Int → Int) (nisland : Int) (s ics : List Int) (t : Int) :
    (checkTask island nisland s ics t).length = ics.length := by
  unfold checkTask; split
  · exact length_wr _ _ _
  · rfl

theorem length_check (island : Int → Int) (nisland : Int) (s : List Int) (order : List Int) (ics : List Int) :
    (check island nisland s order ics).length = ics.length := by
  induction order generalizing ics with
  | nil => rfl
  | cons a l ih => show (check island nisland s l (checkTask island nisland s ics a)).length = _; rw [ih, length_checkTask]

/-- `atomic_min(·, 0)` is idempotent and commutative: the check launch in closed form, for ANY order -/
theorem rd_check (island : Int → Int) (nisland : Int) (s : List Int) (order : List Int) (ics : List Int) (i : Int)
    (hi0 : 0 ≤ i) (hi1 : i < ics.length) :
    rd (check island nisland s order ics) i
      = if ∃ t ∈ order, island t = i ∧ i < nisland ∧ rd s t < -1 then min (rd ics i) 0 else rd ics i := by
  induction order generalizing ics with
  | nil => simp [check]
  | cons a l ih =>
    show rd (check island nisland s l (checkTask island nisland s ics a)) i = _
    rw [ih _ (by rw [length_checkTask]; exact hi1)]
    have hta : rd (checkTask island nisland s ics a) i
        = if island a = i ∧ i < nisland ∧ rd s a < -1 then min (rd ics i) 0 else rd ics i := by
      unfold checkTask
      by_cases h : 0 ≤ island a ∧ island a < nisland ∧ rd s a < -1
      · rw [if_pos h, rd_wr]
        by_cases e : island a = i
        · rw [if_pos ⟨e.symm, by omega, by omega⟩, if_pos ⟨e, by omega, h.2.2⟩, e]
        · rw [if_neg (fun h' => e h'.1.symm), if_neg (fun h' => e h'.1)]
      · rw [if_neg h, if_neg]
        rintro ⟨e, h1, h2⟩
        exact h ⟨by omega, by omega, h2⟩
    rw [hta]
    by_cases hl : ∃ t ∈ l, island t = i ∧ i < nisland ∧ rd s t < -1
    · have : ∃ t ∈ a :: l, island t = i ∧ i < nisland ∧ rd s t < -1 := by
        obtain ⟨t, ht, h⟩ := hl; exact ⟨t, List.mem_cons_of_mem _ ht, h⟩
      rw [if_pos hl, if_pos this]
      split <;> omega
    · rw [if_neg hl]
      by_cases ha : island a = i ∧ i < nisland ∧ rd s a < -1
      · rw [if_pos ha, if_pos ⟨a, by simp, ha⟩]
      · rw [if_neg ha, if_neg]
        rintro ⟨t, ht, h⟩
        rcases List.mem_cons.mp ht with e | e
        · subst e; exact ha h
        · exact hl ⟨t, e, h⟩

theorem rd_replicate (n : Nat) (v : Int) (i : Int) (h0 : 0 ≤ i) (h1 : i < n) : rd (List.replicate n v) i = v := by
  unfold rd
  rw [if_pos h0, List.getD_eq_getElem?_getD, List.getElem?_replicate]
  have : i.toNat < n := by omega
  simp [this]

/-! ### `_build_cycles`: the generated loops -/

section build
variable [Scalar K]

theorem foldl_flat {α : Type} (g : Nat → List α) (k : Nat) (ws : List α) :
    (List.range k).foldl (fun s i => s ++ g i) ws = ws ++ (List.range k).flatMap g := by
  induction k with
  | zero => simp
  | succ k ih => rw [List.range_succ, List.foldl_append, ih, List.flatMap_append]; simp

/-- the dof-zeroing loop (as generated) -/
def zeroLoop (w dofadr dofnum : Int) (ws : List (Write K)) : List (Write K) :=
  Mjw.forRange (0 : Int) dofnum ws (fun (d : Int) (st : List (Write K)) =>
    let ws := st
    let ws : List (Write K) := ws ++ [(Write.mk "qvel_out" [w, (dofadr + d)] (WVal.f (Scalar.lit 0 0 : K)) WKind.set : Write K)]
    let ws : List (Write K) := ws ++ [(Write.mk "qacc_out" [w, (dofadr + d)] (WVal.f (Scalar.lit 0 0 : K)) WKind.set : Write K)]
    ws)

theorem zeroLoop_eq (w dofadr dofnum : Int) (ws : List (Write K)) :
    zeroLoop w dofadr dofnum ws = ws ++ zeroDofs w dofadr dofnum := by
  unfold zeroLoop zeroDofs forRange
  have := foldl_flat (fun (d : Nat) =>
    [(Write.mk "qvel_out" [w, dofadr + (d : Int)] (WVal.f (Scalar.lit 0 0 : K)) WKind.set : Write K),
     (Write.mk "qacc_out" [w, dofadr + (d : Int)] (WVal.f (Scalar.lit 0 0 : K)) WKind.set : Write K)]) (dofnum - 0).toNat ws
  simp only [Int.sub_zero] at this ⊢
  rw [← this]
  congr 1
  funext s i
  simp [List.append_assoc]

/-- the body of the inner loop of phase 1 (as generated) -/
def innerBody (w : Int) (tree_dofadr tree_dofnum : Int → Int) (tree_island_in : Int → Int → Int) (island_id : Int)
    (t : Int) (st : Int × Int × List (Write K)) : Int × Int × List (Write K) :=
  let (prev_tree, first_tree, ws) := st
  let (first_tree, ws, prev_tree, dofadr, dofnum) :=
    if (decide ((tree_island_in w t) = island_id)) then
      let first_tree :=
        if (decide (first_tree = (-1 : Int))) then
          let first_tree : Int := t
          first_tree
        else
          first_tree
      let ws :=
        if (decide (prev_tree ≠ (-1 : Int))) then
          let ws : List (Write K) := ws ++ [(Write.mk "tree_asleep_out" [w, prev_tree] (WVal.i t) WKind.set : Write K)]
          ws
        else
          ws
      let prev_tree : Int := t
      let dofadr : Int := (tree_dofadr t)
      let dofnum : Int := (tree_dofnum t)
      let ws := zeroLoop w dofadr dofnum ws
      (first_tree, ws, prev_tree, dofadr, dofnum)
    else
      (first_tree, ws, prev_tree, (0 : Int), (0 : Int))
  (prev_tree, first_tree, ws)

theorem innerBody_eq (w : Int) (dofadr dofnum : Int → Int) (isl : Int → Int → Int) (i t prev first : Int)
    (ws : List (Write K)) :
    innerBody w dofadr dofnum isl i t (prev, first, ws)
      = if isl w t = i then
          (t, (if first = -1 then t else first),
            ws ++ ((if prev ≠ -1 then [setAsleep w prev t] else []) ++ zeroDofs w (dofadr t) (dofnum t)))
        else (prev, first, ws) := by
  unfold innerBody
  by_cases h : isl w t = i
  · simp only [h, decide_true, if_true, zeroLoop_eq]
    by_cases h1 : first = -1 <;> by_cases h2 : prev = -1 <;> simp [h1, h2, setAsleep]
  · simp [h]

/-- the body of the island loop (as generated) -/
def islandBody (ntree w : Int) (tree_dofadr tree_dofnum : Int → Int) (tree_island_in island_can_sleep_in : Int → Int → Int)
    (island_id : Int) (st : List (Write K)) : List (Write K) :=
  let ws := st
  let (first_tree, prev_tree, ws) :=
    if (decide ((island_can_sleep_in w island_id) = (1 : Int))) then
      let first_tree : Int := (-1 : Int)
      let prev_tree : Int := (-1 : Int)
      let (prev_tree, first_tree, ws) := Mjw.forRange (0 : Int) ntree (prev_tree, first_tree, ws)
        (fun (t : Int) (st : (Int × Int × List (Write K))) => innerBody w tree_dofadr tree_dofnum tree_island_in island_id t st)
      let ws :=
        if (decide (first_tree ≠ (-1 : Int))) then
          let ws : List (Write K) := ws ++ [(Write.mk "tree_asleep_out" [w, prev_tree] (WVal.i first_tree) WKind.set : Write K)]
          ws
        else
          ws
      (first_tree, prev_tree, ws)
    else
      ((0 : Int), (0 : Int), ws)
  ws

/-- the body of phase 2 (as generated) -/
def phase2Body (w num_islands : Int) (tree_dofadr tree_dofnum : Int → Int) (tree_island_in tree_asleep_out : Int → Int → Int)
    (t : Int) (st : List (Write K)) : List (Write K) :=
  let ws := st
  let island_id : Int := (tree_island_in w t)
  let (ws, dofadr, dofnum) :=
    if ((decide (island_id < (0 : Int))) || (decide (island_id ≥ num_islands))) then
      let ws :=
        if (decide ((Write.lookupI ws "tree_asleep_out" [w, t] (tree_asleep_out w t)) = (-1 : Int))) then
          let ws : List (Write K) := ws ++ [(Write.mk "tree_asleep_out" [w, t] (WVal.i t) WKind.set : Write K)]
          ws
        else
          ws
      let (dofadr, dofnum, ws) :=
        if (decide ((Write.lookupI ws "tree_asleep_out" [w, t] (tree_asleep_out w t)) ≥ (0 : Int))) then
          let dofadr : Int := (tree_dofadr t)
          let dofnum : Int := (tree_dofnum t)
          let ws := zeroLoop w dofadr dofnum ws
          (dofadr, dofnum, ws)
        else
          ((0 : Int), (0 : Int), ws)
      (ws, dofadr, dofnum)
    else
      (ws, (0 : Int), (0 : Int))
  ws

theorem build_cycles_unfold (ntree : Int) (tree_dofadr tree_dofnum nisland_in : Int → Int)
    (tree_island_in island_can_sleep_in tree_asleep_out : Int → Int → Int) (qvel_out qacc_out : Int → Int → K) (w : Int) :
    Gen.Sleep._build_cycles (K := K) ntree tree_dofadr tree_dofnum nisland_in tree_island_in island_can_sleep_in
        tree_asleep_out qvel_out qacc_out w
      = Mjw.forRange (0 : Int) ntree
          (Mjw.forRange (0 : Int) (nisland_in w) ([] : List (Write K))
            (fun i st => islandBody ntree w tree_dofadr tree_dofnum tree_island_in island_can_sleep_in i st))
          (fun t st => phase2Body w (nisland_in w) tree_dofadr tree_dofnum tree_island_in tree_asleep_out t st) := rfl

end build

/-! ### `_build_cycles`: closed form of the loops -/

section build2
variable [Scalar K]

theorem members_succ (k : Nat) (island : Int → Int) (i : Int) :
    members (k + 1) island i = members k island i ++ (if island (k : Int) = i then [(k : Int)] else []) := by
  unfold members
  rw [List.range_succ, List.map_append, List.filter_append]
  by_cases h : island (k : Int) = i <;> simp [h]

theorem mem_members (n : Nat) (island : Int → Int) (i t : Int) :
    t ∈ members n island i ↔ 0 ≤ t ∧ t < n ∧ island t = i := by
  unfold members
  simp only [List.mem_filter, List.mem_map, List.mem_range, decide_eq_true_eq]
  constructor
  · rintro ⟨⟨k, hk, e⟩, h⟩; subst e; exact ⟨by omega, by omega, h⟩
  · rintro ⟨h0, h1, h⟩; exact ⟨⟨t.toNat, by omega, by omega⟩, h⟩

theorem members_headD_ne (n : Nat) (island : Int → Int) (i : Int) :
    (members n island i).headD (-1) = -1 ↔ members n island i = [] := by
  constructor
  · intro h
    cases hm : members n island i with
    | nil => rfl
    | cons a l =>
      rw [hm] at h
      have : a ∈ members n island i := by rw [hm]; simp
      have := ((mem_members n island i a).mp this).1
      simp at h; omega
  · intro h; rw [h]; rfl

theorem linkFrom_snoc (w : Int) (dofadr dofnum : Int → Int) (prev : Int) (ms : List Int) (m : Int) :
    linkFrom (K := K) w dofadr dofnum prev (ms ++ [m])
      = linkFrom w dofadr dofnum prev ms
        ++ ((if ms.getLastD prev ≠ -1 then [setAsleep w (ms.getLastD prev) m] else []) ++ zeroDofs w (dofadr m) (dofnum m)) := by
  induction ms generalizing prev with
  | nil => simp [linkFrom]
  | cons a l ih =>
    show linkFrom w dofadr dofnum prev (a :: (l ++ [m])) = _
    rw [linkFrom, linkFrom, ih a, List.getLastD_cons]
    simp [List.append_assoc]

/-- **loop invariant** of the inner loop of phase 1 -/
theorem inner_loop (w : Int) (dofadr dofnum : Int → Int) (isl : Int → Int → Int) (i : Int) (ws : List (Write K)) (k : Nat) :
    (List.range k).foldl (fun s (j : Nat) => innerBody w dofadr dofnum isl i (0 + Int.ofNat j) s) ((-1 : Int), (-1 : Int), ws)
      = ((members k (isl w) i).getLastD (-1), (members k (isl w) i).headD (-1),
          ws ++ linkFrom w dofadr dofnum (-1) (members k (isl w) i)) := by
  induction k with
  | zero => simp [members, linkFrom]
  | succ k ih =>
    rw [List.range_succ, List.foldl_append, ih]
    simp only [List.foldl_cons, List.foldl_nil, Int.zero_add, Int.ofNat_eq_natCast]
    rw [innerBody_eq, members_succ]
    by_cases h : isl w (k : Int) = i
    · rw [if_pos h, if_pos h, linkFrom_snoc]
      have hh : (members k (isl w) i ++ [(k : Int)]).headD (-1)
          = if (members k (isl w) i).headD (-1) = -1 then (k : Int) else (members k (isl w) i).headD (-1) := by
        by_cases he : members k (isl w) i = []
        · rw [he]; simp
        · have : ¬ (members k (isl w) i).headD (-1) = -1 := fun e => he ((members_headD_ne _ _ _).mp e)
          rw [if_neg this]
          cases hm : members k (isl w) i with
          | nil => exact absurd hm he
          | cons a l => simp
      rw [hh]
      simp [List.append_assoc]
    · rw [if_neg h, if_neg h, List.append_nil]

theorem islandBody_eq (ntree w : Int) (dofadr dofnum : Int → Int) (isl ics : Int → Int → Int) (i : Int) (ws : List (Write K)) :
    islandBody ntree w dofadr dofnum isl ics i ws
      = ws ++ islandWrites w ntree.toNat dofadr dofnum (isl w) (ics w) i := by
  unfold islandBody islandWrites
  by_cases h : ics w i = 1
  · simp only [h, decide_true, if_true]
    unfold forRange
    rw [Int.sub_zero, inner_loop]
    simp only []
    by_cases h1 : (members ntree.toNat (isl w) i).headD (-1) = -1
    · simp only [h1, ne_eq, not_true_eq_false, decide_false, Bool.false_eq_true, if_false, List.append_nil]
    · simp only [h1, ne_eq, not_false_eq_true, decide_true, if_true, setAsleep, List.append_assoc]
  · simp [h]

theorem phase1_eq (ntree w nisl : Int) (dofadr dofnum : Int → Int) (isl ics : Int → Int → Int) :
    Mjw.forRange (0 : Int) nisl ([] : List (Write K)) (fun i st => islandBody ntree w dofadr dofnum isl ics i st)
      = (List.range nisl.toNat).flatMap (fun (i : Nat) => islandWrites w ntree.toNat dofadr dofnum (isl w) (ics w) i) := by
  unfold forRange
  simp only [islandBody_eq, Int.sub_zero, Int.zero_add, Int.ofNat_eq_natCast]
  rw [foldl_flat (fun (i : Nat) => islandWrites (K := K) w ntree.toNat dofadr dofnum (isl w) (ics w) i)]
  simp

/-! cells hit by the closed-form lists -/

theorem noHit_zeroDofs (w adr num : Int) (idx : List Int) : NoHit (zeroDofs (K := K) w adr num) "tree_asleep_out" idx := by
  intro x hx
  unfold zeroDofs at hx
  simp only [List.mem_flatMap, List.mem_range, List.mem_cons, List.not_mem_nil, or_false] at hx
  obtain ⟨d, -, h | h⟩ := hx <;> subst h <;> simp

theorem noHit_linkFrom (w : Int) (dofadr dofnum : Int → Int) (prev : Int) (ms : List Int) (t : Int)
    (hp : prev ≠ t) (hms : ∀ m ∈ ms, m ≠ t) : NoHit (linkFrom (K := K) w dofadr dofnum prev ms) "tree_asleep_out" [w, t] := by
  induction ms generalizing prev with
  | nil => intro x hx; simp [linkFrom] at hx
  | cons a l ih =>
    rw [linkFrom, noHit_append, noHit_append]
    refine ⟨⟨?_, noHit_zeroDofs _ _ _ _⟩, ih a (hms a (by simp)) (fun m hm => hms m (List.mem_cons_of_mem _ hm))⟩
    intro x hx
    by_cases h : prev ≠ -1
    · rw [if_pos h] at hx
      simp only [List.mem_singleton] at hx
      subst hx
      simp [setAsleep, hp]
    · rw [if_neg h] at hx; simp at hx

theorem noHit_islandWrites (w : Int) (n : Nat) (dofadr dofnum island ics : Int → Int) (i t : Int) (hti : island t ≠ i) (ht : t ≠ -1) :
    NoHit (islandWrites (K := K) w n dofadr dofnum island ics i) "tree_asleep_out" [w, t] := by
  unfold islandWrites
  by_cases h : ics i = 1
  · rw [if_pos h]
    simp only []
    have hms : ∀ m ∈ members n island i, m ≠ t := by
      intro m hm e; subst e; exact hti ((mem_members n island i m).mp hm).2.2
    rw [noHit_append]
    refine ⟨noHit_linkFrom w dofadr dofnum (-1) _ t (fun e => ht e.symm) hms, ?_⟩
    intro x hx
    by_cases h1 : (members n island i).headD (-1) ≠ -1
    · rw [if_pos h1] at hx
      simp only [List.mem_singleton] at hx
      subst hx
      have hne : members n island i ≠ [] := fun e => h1 ((members_headD_ne n island i).mpr e)
      have : (members n island i).getLastD (-1) ∈ members n island i := by
        simp only [List.getLastD_eq_getLast?, List.getLast?_eq_some_getLast hne, Option.getD_some]
        exact List.getLast_mem hne
      have := hms _ this
      rintro ⟨-, hidx⟩
      simp only [setAsleep, List.cons.injEq, and_true, true_and] at hidx
      exact this hidx
    · rw [if_neg h1] at hx; simp at hx
  · rw [if_neg h]; intro x hx; simp at hx

omit [Scalar K] in
theorem noHit_flatMap {α : Type} (l : List α) (g : α → List (Write K)) (arr : String) (idx : List Int)
    (h : ∀ a ∈ l, NoHit (g a) arr idx) : NoHit (l.flatMap g) arr idx := by
  intro x hx
  obtain ⟨a, ha, hxa⟩ := List.mem_flatMap.mp hx
  exact h a ha x hxa

theorem noHit_phase2Writes (w nisl : Int) (dofadr dofnum island a : Int → Int) (t' t : Int) (h : t' ≠ t) :
    NoHit (phase2Writes (K := K) w nisl dofadr dofnum island a t') "tree_asleep_out" [w, t] := by
  unfold phase2Writes
  split
  · rw [noHit_append]
    constructor
    · intro x hx
      split at hx
      · simp only [List.mem_singleton] at hx; subst hx; simp [setAsleep, h]
      · simp at hx
    · split
      · exact noHit_zeroDofs _ _ _ _
      · intro x hx; simp at hx
  · intro x hx; simp at hx

/-- one iteration of phase 2 on a write list that has not touched the tree's own cell -/
theorem phase2Body_eq (w nisl : Int) (dofadr dofnum : Int → Int) (isl arr : Int → Int → Int) (t : Int) (ht : 0 ≤ t)
    (ws : List (Write K)) (hno : (isl w t < 0 ∨ isl w t ≥ nisl) → NoHit ws "tree_asleep_out" [w, t]) :
    phase2Body w nisl dofadr dofnum isl arr t ws = ws ++ phase2Writes w nisl dofadr dofnum (isl w) (arr w) t := by
  unfold phase2Body phase2Writes
  by_cases h : isl w t < 0 ∨ isl w t ≥ nisl
  · have hb : (decide (isl w t < 0) || decide (isl w t ≥ nisl)) = true := by simpa using h
    have hl := lookupI_noHit ws "tree_asleep_out" [w, t] (arr w t) (hno h)
    simp only [hb, if_true, if_pos h, hl]
    by_cases h1 : arr w t = -1
    · have hl2 : Write.lookupI (ws ++ [(Write.mk "tree_asleep_out" [w, t] (WVal.i t) WKind.set : Write K)])
          "tree_asleep_out" [w, t] (arr w t) = t := by
        rw [lookupI_append, hl]; simp [Write.lookupI]
      simp only [h1, decide_true, if_true, true_or, zeroLoop_eq]
      rw [h1] at hl2
      simp only [hl2, ht, decide_true, if_true, setAsleep, List.append_assoc]
    · simp only [h1, decide_false, Bool.false_eq_true, if_false, false_or, List.nil_append, hl]
      by_cases h2 : arr w t ≥ 0
      · simp only [h2, decide_true, if_true, zeroLoop_eq]
      · simp only [h2, decide_false, Bool.false_eq_true, if_false, List.append_nil]
  · have hb : (decide (isl w t < 0) || decide (isl w t ≥ nisl)) = false := by simpa using h
    simp only [hb, Bool.false_eq_true, if_false, if_neg h, List.append_nil]

/-- **`_build_cycles` = the closed-form write list**, for ALL inputs -/
theorem build_cycles_eq (ntree : Int) (tree_dofadr tree_dofnum nisland_in : Int → Int)
    (tree_island_in island_can_sleep_in tree_asleep_out : Int → Int → Int) (qvel_out qacc_out : Int → Int → K) (w : Int) :
    Gen.Sleep._build_cycles (K := K) ntree tree_dofadr tree_dofnum nisland_in tree_island_in island_can_sleep_in
        tree_asleep_out qvel_out qacc_out w
      = buildCyclesWrites w ntree.toNat (nisland_in w) tree_dofadr tree_dofnum (tree_island_in w) (island_can_sleep_in w)
          (tree_asleep_out w) := by
  rw [build_cycles_unfold, phase1_eq]
  unfold buildCyclesWrites forRange
  rw [Int.sub_zero]
  generalize hws1 : (List.range (nisland_in w).toNat).flatMap (fun (i : Nat) =>
    islandWrites (K := K) w ntree.toNat tree_dofadr tree_dofnum (tree_island_in w) (island_can_sleep_in w) i) = ws1
  have hno1 : ∀ t : Int, t ≠ -1 → (tree_island_in w t < 0 ∨ tree_island_in w t ≥ nisland_in w) →
      NoHit ws1 "tree_asleep_out" [w, t] := by
    intro t ht hinv
    rw [← hws1]
    apply noHit_flatMap
    intro i hi
    have := List.mem_range.mp hi
    exact noHit_islandWrites w _ _ _ _ _ _ t (by omega) ht
  have key : ∀ k : Nat,
      (List.range k).foldl (fun s (j : Nat) => phase2Body w (nisland_in w) tree_dofadr tree_dofnum tree_island_in
          tree_asleep_out (0 + Int.ofNat j) s) ws1
        = ws1 ++ (List.range k).flatMap (fun (t : Nat) => phase2Writes w (nisland_in w) tree_dofadr tree_dofnum
            (tree_island_in w) (tree_asleep_out w) t) := by
    intro k
    induction k with
    | zero => simp
    | succ k ih =>
      rw [List.range_succ, List.foldl_append, ih]
      simp only [List.foldl_cons, List.foldl_nil, Int.zero_add, Int.ofNat_eq_natCast]
      rw [phase2Body_eq _ _ _ _ _ _ _ (by omega)]
      · rw [List.flatMap_append]; simp [List.append_assoc]
      · intro hinv
        rw [noHit_append]
        refine ⟨hno1 _ (by omega) hinv, ?_⟩
        apply noHit_flatMap
        intro t' ht'
        have := List.mem_range.mp ht'
        exact noHit_phase2Writes _ _ _ _ _ _ _ _ (by omega)
  exact key ntree.toNat

end build2

/-! ### `_build_cycles` on the list state -/

section build3
variable [Scalar K]

theorem applyAsleep_zeroDofs (w adr num : Int) (s : List Int) : applyAsleep w s (zeroDofs (K := K) w adr num) = s := by
  unfold zeroDofs applyAsleep
  generalize List.range num.toNat = l
  induction l with
  | nil => rfl
  | cons a l ih =>
    rw [List.flatMap_cons, List.foldl_append]
    simp only [List.foldl_cons, List.foldl_nil]
    exact ih

theorem applyAsleep_flatMap {α : Type} (w : Int) (l : List α) (g : α → List (Write K)) (s : List Int) :
    applyAsleep w s (l.flatMap g) = l.foldl (fun s a => applyAsleep w s (g a)) s := by
  induction l generalizing s with
  | nil => rfl
  | cons a l ih => rw [List.flatMap_cons, applyAsleep_append, ih, List.foldl_cons]

theorem applyAsleep_setAsleep (w : Int) (s : List Int) (c v : Int) :
    applyAsleep w s [(setAsleep w c v : Write K)] = wr s c v := by
  simp [applyAsleep, applyAsleep1, setAsleep]

theorem applyAsleep_linkFrom (w : Int) (dofadr dofnum : Int → Int) (prev : Int) (ms : List Int) (s : List Int)
    (hp : prev ≠ -1) (hms : ∀ m ∈ ms, m ≠ -1) :
    applyAsleep w s (linkFrom (K := K) w dofadr dofnum prev ms) = (linkPairs prev ms).foldl (fun s p => wr s p.1 p.2) s := by
  induction ms generalizing prev s with
  | nil => rfl
  | cons a l ih =>
    rw [linkFrom, if_pos hp, applyAsleep_append, applyAsleep_append, applyAsleep_setAsleep, applyAsleep_zeroDofs,
      ih a _ (hms a (by simp)) (fun m hm => hms m (List.mem_cons_of_mem _ hm))]
    rfl

theorem applyAsleep_islandWrites (w : Int) (n : Nat) (dofadr dofnum island ics : Int → Int) (i : Int) (s : List Int) :
    applyAsleep w s (islandWrites (K := K) w n dofadr dofnum island ics i)
      = if ics i = 1 then linkCycle s (members n island i) else s := by
  unfold islandWrites
  by_cases h : ics i = 1
  · rw [if_pos h, if_pos h]
    simp only []
    have hne : ∀ m ∈ members n island i, m ≠ -1 := by
      intro m hm; have := ((mem_members n island i m).mp hm).1; omega
    cases hm : members n island i with
    | nil => simp [linkFrom, linkCycle, applyAsleep]
    | cons m0 rest =>
      rw [hm] at hne
      have h0 : m0 ≠ -1 := hne m0 (by simp)
      rw [applyAsleep_append, linkFrom, if_neg (by simp), List.nil_append, applyAsleep_append, applyAsleep_zeroDofs,
        applyAsleep_linkFrom w dofadr dofnum m0 rest s h0 (fun m hm' => hne m (List.mem_cons_of_mem _ hm'))]
      simp only [List.headD_cons, h0, ne_eq, not_false_eq_true, if_true]
      rw [applyAsleep_setAsleep]
      rfl
  · rw [if_neg h, if_neg h]; rfl

theorem applyAsleep_phase2Writes (w nisl : Int) (dofadr dofnum island a : Int → Int) (t : Int) (s : List Int) :
    applyAsleep w s (phase2Writes (K := K) w nisl dofadr dofnum island a t)
      = if (island t < 0 ∨ island t ≥ nisl) ∧ a t = -1 then wr s t t else s := by
  unfold phase2Writes
  by_cases h : island t < 0 ∨ island t ≥ nisl
  · rw [if_pos h, applyAsleep_append]
    have hz : ∀ s : List Int, applyAsleep w s (if a t = -1 ∨ a t ≥ 0 then zeroDofs (K := K) w (dofadr t) (dofnum t) else []) = s := by
      intro s; split
      · exact applyAsleep_zeroDofs _ _ _ _
      · rfl
    rw [hz]
    by_cases h1 : a t = -1
    · rw [if_pos h1, if_pos ⟨h, h1⟩, applyAsleep_setAsleep]
    · rw [if_neg h1, if_neg (fun h' => h1 h'.2)]; rfl
  · rw [if_neg h, if_neg (fun h' => h h'.1)]; rfl

/-- **applying the write list of `_build_cycles` to the state is the model transition** -/
theorem applyAsleep_buildCyclesWrites (w nisl : Int) (dofadr dofnum island ics : Int → Int) (s : List Int) :
    applyAsleep w s (buildCyclesWrites (K := K) w s.length nisl dofadr dofnum island ics (rd s))
      = buildCycles island nisl ics s := by
  unfold buildCyclesWrites buildCycles
  rw [applyAsleep_append, applyAsleep_flatMap, applyAsleep_flatMap]
  simp only [applyAsleep_islandWrites, applyAsleep_phase2Writes]

end build3

/-! ### effect of `linkCycle` / `buildCycles` -/

theorem foldl_wr_pairs (pairs : List (Int × Int)) (s : List Int) (hnd : (pairs.map Prod.fst).Nodup)
    (hin : ∀ p ∈ pairs, 0 ≤ p.1 ∧ p.1 < s.length) :
    (pairs.foldl (fun s p => wr s p.1 p.2) s).length = s.length ∧
    (∀ p ∈ pairs, rd (pairs.foldl (fun s p => wr s p.1 p.2) s) p.1 = p.2) ∧
    (∀ u, u ∉ pairs.map Prod.fst → rd (pairs.foldl (fun s p => wr s p.1 p.2) s) u = rd s u) := by
  induction pairs generalizing s with
  | nil => exact ⟨rfl, fun p hp => by simp at hp, fun u _ => rfl⟩
  | cons a l ih =>
    rw [List.map_cons, List.nodup_cons] at hnd
    have ha := hin a (by simp)
    obtain ⟨h1, h2, h3⟩ := ih (wr s a.1 a.2) hnd.2 (fun p hp => by rw [length_wr]; exact hin p (List.mem_cons_of_mem _ hp))
    rw [List.foldl_cons]
    refine ⟨by rw [h1, length_wr], ?_, ?_⟩
    · intro p hp
      rcases List.mem_cons.mp hp with e | e
      · subst e
        rw [h3 _ hnd.1, rd_wr_self _ _ _ ha.1 ha.2]
      · exact h2 p e
    · intro u hu
      rw [List.map_cons, List.mem_cons, not_or] at hu
      rw [h3 u hu.2, rd_wr_ne _ _ _ _ hu.1]

theorem linkPairs_fst (prev : Int) (ms : List Int) : (linkPairs prev ms).map Prod.fst = (prev :: ms).dropLast := by
  induction ms generalizing prev with
  | nil => rfl
  | cons a l ih => rw [linkPairs, List.map_cons, ih a]; rfl

theorem linkPairs_mem (prev : Int) (ms : List Int) (j : Nat) (hj : j < ms.length) :
    ((prev :: ms).getD j (-1), ms.getD j (-1)) ∈ linkPairs prev ms := by
  induction ms generalizing prev j with
  | nil => simp at hj
  | cons a l ih =>
    cases j with
    | zero => simp [linkPairs]
    | succ j =>
      have := ih a j (by simpa using hj)
      rw [linkPairs]
      apply List.mem_cons_of_mem
      simpa using this

theorem getLastD_eq_getD (ms : List Int) (m0 : Int) : (m0 :: ms).getLastD (-1) = (m0 :: ms).getD ms.length (-1) := by
  induction ms generalizing m0 with
  | nil => rfl
  | cons a l ih =>
    have e1 : (m0 :: a :: l).getLastD (-1) = (a :: l).getLastD (-1) := by simp [List.getLastD_cons]
    rw [e1, ih a]; simp

/-- `linkCycle` makes `ms` one cycle (in list order) and touches nothing else -/
theorem linkCycle_spec (s : List Int) (ms : List Int) (hnd : ms.Nodup) (hin : ∀ m ∈ ms, 0 ≤ m ∧ m < s.length) :
    (linkCycle s ms).length = s.length ∧
    (∀ j, j < ms.length → rd (linkCycle s ms) (ms.getD j (-1)) = ms.getD ((j + 1) % ms.length) (-1)) ∧
    (∀ u, u ∉ ms → rd (linkCycle s ms) u = rd s u) := by
  cases ms with
  | nil => exact ⟨rfl, fun j hj => by simp at hj, fun u _ => rfl⟩
  | cons m0 rest =>
    have hfold : linkCycle s (m0 :: rest)
        = (linkPairs m0 rest ++ [((m0 :: rest).getLastD (-1), m0)]).foldl (fun s p => wr s p.1 p.2) s := by
      rw [List.foldl_append]; rfl
    have hne : (m0 :: rest) ≠ [] := by simp
    have hkeys : (linkPairs m0 rest ++ [((m0 :: rest).getLastD (-1), m0)]).map Prod.fst = m0 :: rest := by
      rw [List.map_append, linkPairs_fst]
      simp only [List.map_cons, List.map_nil]
      rw [List.getLastD_eq_getLast?, List.getLast?_eq_some_getLast hne, Option.getD_some]
      exact List.dropLast_append_getLast hne
    obtain ⟨h1, h2, h3⟩ := foldl_wr_pairs (linkPairs m0 rest ++ [((m0 :: rest).getLastD (-1), m0)]) s
      (by rw [hkeys]; exact hnd)
      (by
        intro p hp
        have : p.1 ∈ (linkPairs m0 rest ++ [((m0 :: rest).getLastD (-1), m0)]).map Prod.fst := List.mem_map_of_mem hp
        rw [hkeys] at this
        exact hin _ this)
    rw [hfold]
    refine ⟨h1, ?_, fun u hu => h3 u (by rw [hkeys]; exact hu)⟩
    intro j hj
    simp only [List.length_cons] at hj ⊢
    by_cases hjr : j < rest.length
    · have hm := linkPairs_mem m0 rest j hjr
      have := h2 _ (List.mem_append_left _ hm)
      simp only at this
      rw [this, Nat.mod_eq_of_lt (by omega)]
      simp
    · have hje : j = rest.length := by omega
      subst hje
      have := h2 ((m0 :: rest).getLastD (-1), m0) (List.mem_append_right _ (by simp))
      simp only at this
      rw [← getLastD_eq_getD, this, Nat.mod_self]
      rfl

theorem getD_lt (l : List Int) (j : Nat) (d : Int) (h : j < l.length) : l.getD j d = l[j] := by
  simp [List.getD_eq_getElem?_getD, h]

theorem members_nodup (n : Nat) (island : Int → Int) (i : Int) : (members n island i).Nodup := by
  unfold members
  apply List.Nodup.filter
  apply List.Nodup.map _ List.nodup_range
  intro a b h; exact Int.ofNat.inj h

theorem members_length_le (n : Nat) (island : Int → Int) (i : Int) : (members n island i).length ≤ n := by
  unfold members
  have := List.length_filter_le (fun t => decide (island t = i)) ((List.range n).map (fun (k : Nat) => (k : Int)))
  simpa using this

/-- phase 1 of `buildCycles` over a list of island ids -/
def phase1 (n : Nat) (island ics : Int → Int) (L : List Nat) (s : List Int) : List Int :=
  L.foldl (fun s' (i : Nat) => if ics i = 1 then linkCycle s' (members n island i) else s') s

theorem phase1_spec (island ics : Int → Int) (L : List Nat) (s : List Int) (n : Nat) (hn : n = s.length) :
    (phase1 n island ics L s).length = s.length ∧
    (∀ u : Int, ¬ (∃ i ∈ L, ics (i : Nat) = 1 ∧ island u = (i : Nat) ∧ 0 ≤ u ∧ u < n) → rd (phase1 n island ics L s) u = rd s u) ∧
    (L.Nodup → ∀ i ∈ L, ics (i : Nat) = 1 → ∀ j, j < (members n island (i : Nat)).length →
      rd (phase1 n island ics L s) ((members n island (i : Nat)).getD j (-1))
        = (members n island (i : Nat)).getD ((j + 1) % (members n island (i : Nat)).length) (-1)) := by
  induction L generalizing s with
  | nil => exact ⟨rfl, fun u _ => rfl, fun _ i hi => by simp at hi⟩
  | cons a l ih =>
    have hin : ∀ m ∈ members n island (a : Nat), 0 ≤ m ∧ m < s.length := by
      intro m hm; have := (mem_members n island _ m).mp hm; rw [← hn]; exact ⟨this.1, this.2.1⟩
    obtain ⟨c1, c2, c3⟩ := linkCycle_spec s (members n island (a : Nat)) (members_nodup _ _ _) hin
    -- the state after island `a`
    let sa := if ics (a : Nat) = 1 then linkCycle s (members n island (a : Nat)) else s
    have hsa : sa.length = s.length := by
      show (if ics (a : Nat) = 1 then linkCycle s (members n island (a : Nat)) else s).length = _
      split
      · exact c1
      · rfl
    obtain ⟨h1, h2, h3⟩ := ih sa (by rw [hsa]; exact hn)
    have hstep : phase1 n island ics (a :: l) s = phase1 n island ics l sa := rfl
    rw [hstep]
    refine ⟨by rw [h1, hsa], ?_, ?_⟩
    · intro u hu
      rw [h2 u (fun ⟨i, hi, h⟩ => hu ⟨i, List.mem_cons_of_mem _ hi, h⟩)]
      show rd (if ics (a : Nat) = 1 then linkCycle s (members n island (a : Nat)) else s) u = _
      by_cases hc : ics (a : Nat) = 1
      · rw [if_pos hc]
        apply c3
        intro hm
        have := (mem_members n island _ u).mp hm
        exact hu ⟨a, by simp, hc, this.2.2, this.1, this.2.1⟩
      · rw [if_neg hc]
    · intro hnd i hi hc j hj
      rw [List.nodup_cons] at hnd
      rcases List.mem_cons.mp hi with e | e
      · subst e
        have hmem : (members n island (i : Nat)).getD j (-1) ∈ members n island (i : Nat) := by
          rw [getD_lt _ _ _ hj]; exact List.getElem_mem hj
        have hisl := ((mem_members n island _ _).mp hmem).2.2
        rw [h2 _ (by
          rintro ⟨i', hi', -, hisl', -⟩
          rw [hisl] at hisl'
          have : i = i' := by exact_mod_cast hisl'
          exact hnd.1 (this ▸ hi'))]
        show rd (if ics (i : Nat) = 1 then linkCycle s (members n island (i : Nat)) else s) _ = _
        rw [if_pos hc]
        exact c2 j hj
      · exact h3 hnd.2 i e hc j hj

/-- phase 2 of `buildCycles` over a list of trees -/
def phase2 (island : Int → Int) (nisl : Int) (s0 : List Int) (L : List Nat) (s1 : List Int) : List Int :=
  L.foldl (fun s' (t : Nat) => if (island t < 0 ∨ island t ≥ nisl) ∧ rd s0 t = -1 then wr s' t t else s') s1

theorem phase2_spec (island : Int → Int) (nisl : Int) (s0 : List Int) (L : List Nat) (s1 : List Int)
    (hL : ∀ t ∈ L, t < s1.length) :
    (phase2 island nisl s0 L s1).length = s1.length ∧
    ∀ u : Int, rd (phase2 island nisl s0 L s1) u
      = if (∃ t ∈ L, (t : Int) = u) ∧ (island u < 0 ∨ island u ≥ nisl) ∧ rd s0 u = -1 then u else rd s1 u := by
  induction L generalizing s1 with
  | nil => exact ⟨rfl, fun u => by simp [phase2]⟩
  | cons a l ih =>
    let sa := if (island (a : Nat) < 0 ∨ island (a : Nat) ≥ nisl) ∧ rd s0 (a : Nat) = -1 then wr s1 (a : Nat) (a : Nat) else s1
    have hsa : sa.length = s1.length := by
      show (if _ then wr s1 (a : Nat) (a : Nat) else s1).length = _
      split
      · exact length_wr _ _ _
      · rfl
    have hstep : phase2 island nisl s0 (a :: l) s1 = phase2 island nisl s0 l sa := rfl
    obtain ⟨h1, h2⟩ := ih sa (fun t ht => by rw [hsa]; exact hL t (List.mem_cons_of_mem _ ht))
    rw [hstep]
    refine ⟨by rw [h1, hsa], fun u => ?_⟩
    rw [h2 u]
    have ha := hL a (by simp)
    have hrd : rd sa u = if u = (a : Nat) ∧ (island u < 0 ∨ island u ≥ nisl) ∧ rd s0 u = -1 then u else rd s1 u := by
      show rd (if _ then wr s1 (a : Nat) (a : Nat) else s1) u = _
      by_cases hc : (island (a : Nat) < 0 ∨ island (a : Nat) ≥ nisl) ∧ rd s0 (a : Nat) = -1
      · rw [if_pos hc, rd_wr]
        by_cases e : u = (a : Nat)
        · rw [if_pos ⟨e, by omega, by omega⟩, if_pos ⟨e, by rw [e]; exact hc⟩, e]
        · rw [if_neg (fun h => e h.1), if_neg (fun h => e h.1)]
      · rw [if_neg hc, if_neg]
        rintro ⟨e, h⟩; rw [e] at h; exact hc h
    rw [hrd]
    by_cases hl : (∃ t ∈ l, (t : Int) = u) ∧ (island u < 0 ∨ island u ≥ nisl) ∧ rd s0 u = -1
    · rw [if_pos hl, if_pos]
      obtain ⟨⟨t, ht, e⟩, h⟩ := hl
      exact ⟨⟨t, List.mem_cons_of_mem _ ht, e⟩, h⟩
    · rw [if_neg hl]
      by_cases hua : u = (a : Nat) ∧ (island u < 0 ∨ island u ≥ nisl) ∧ rd s0 u = -1
      · rw [if_pos hua, if_pos ⟨⟨a, by simp, hua.1.symm⟩, hua.2⟩]
      · rw [if_neg hua, if_neg]
        rintro ⟨⟨t, ht, e⟩, h⟩
        rcases List.mem_cons.mp ht with e' | e'
        · subst e'; exact hua ⟨e.symm, h⟩
        · exact hl ⟨⟨t, e', e⟩, h⟩

theorem buildCycles_eq_phases (island : Int → Int) (nisl : Int) (ics : Int → Int) (s : List Int) :
    buildCycles island nisl ics s
      = phase2 island nisl s (List.range s.length) (phase1 s.length island ics (List.range nisl.toNat) s) := rfl

/-- **closed form of `_build_cycles` on `tree_asleep`** -/
theorem buildCycles_spec (island : Int → Int) (nisl : Int) (ics : Int → Int) (s : List Int) :
    (buildCycles island nisl ics s).length = s.length ∧
    ∀ u : Int, 0 ≤ u → u < s.length →
      ((0 ≤ island u ∧ island u < nisl) → ics (island u) = 1 →
        ∃ j, j < (members s.length island (island u)).length ∧ (members s.length island (island u)).getD j (-1) = u ∧
          rd (buildCycles island nisl ics s) u
            = (members s.length island (island u)).getD ((j + 1) % (members s.length island (island u)).length) (-1)) ∧
      ((0 ≤ island u ∧ island u < nisl) → ics (island u) ≠ 1 → rd (buildCycles island nisl ics s) u = rd s u) ∧
      ((island u < 0 ∨ island u ≥ nisl) → rd (buildCycles island nisl ics s) u = if rd s u = -1 then u else rd s u) := by
  rw [buildCycles_eq_phases]
  obtain ⟨p1, p2, p3⟩ := phase1_spec island ics (List.range nisl.toNat) s s.length rfl
  obtain ⟨q1, q2⟩ := phase2_spec island nisl s (List.range s.length) (phase1 s.length island ics (List.range nisl.toNat) s)
    (fun t ht => by rw [p1]; exact List.mem_range.mp ht)
  refine ⟨by rw [q1, p1], fun u hu0 hu1 => ⟨?_, ?_, ?_⟩⟩
  · intro hv hc
    have hmem : u ∈ members s.length island (island u) := (mem_members _ _ _ _).mpr ⟨hu0, hu1, rfl⟩
    obtain ⟨j, hj, e⟩ := List.mem_iff_getElem.mp hmem
    refine ⟨j, hj, by rw [getD_lt _ _ _ hj]; exact e, ?_⟩
    rw [q2 u, if_neg (fun h => by omega)]
    have hi : ((island u).toNat : Int) = island u := by omega
    have := p3 List.nodup_range (island u).toNat (List.mem_range.mpr (by omega)) (by rw [hi]; exact hc) j (by rw [hi]; exact hj)
    rw [hi, getD_lt _ _ _ hj, e] at this
    exact this
  · intro hv hc
    rw [q2 u, if_neg (fun h => by omega)]
    apply p2
    rintro ⟨i, -, hci, hisl, -⟩
    rw [← hisl] at hci; exact hc hci
  · intro hinv
    rw [q2 u]
    have hp : rd (phase1 s.length island ics (List.range nisl.toNat) s) u = rd s u := by
      apply p2
      rintro ⟨i, hi, -, hisl, -⟩
      have := List.mem_range.mp hi
      omega
    rw [hp]
    by_cases h1 : rd s u = -1
    · rw [if_pos h1, if_pos ⟨⟨u.toNat, List.mem_range.mpr (by omega), by omega⟩, hinv, h1⟩]
    · rw [if_neg h1, if_neg (fun h => h1 h.2.2)]

/-- the trees of an island that is put to sleep form one cycle, in increasing order -/
theorem buildCycles_island (island : Int → Int) (nisl : Int) (ics : Int → Int) (s : List Int) (i : Int)
    (hi0 : 0 ≤ i) (hi1 : i < nisl) (hc : ics i = 1) (j : Nat) (hj : j < (members s.length island i).length) :
    rd (buildCycles island nisl ics s) ((members s.length island i).getD j (-1))
      = (members s.length island i).getD ((j + 1) % (members s.length island i).length) (-1) := by
  rw [buildCycles_eq_phases]
  obtain ⟨p1, p2, p3⟩ := phase1_spec island ics (List.range nisl.toNat) s s.length rfl
  obtain ⟨q1, q2⟩ := phase2_spec island nisl s (List.range s.length) (phase1 s.length island ics (List.range nisl.toNat) s)
    (fun t ht => by rw [p1]; exact List.mem_range.mp ht)
  have hmem : (members s.length island i).getD j (-1) ∈ members s.length island i := by
    rw [getD_lt _ _ _ hj]; exact List.getElem_mem hj
  have hisl := ((mem_members _ _ _ _).mp hmem).2.2
  rw [q2, if_neg (fun h => by rw [hisl] at h; omega)]
  have hi : ((i.toNat : Nat) : Int) = i := by omega
  have := p3 List.nodup_range i.toNat (List.mem_range.mpr (by omega)) (by rw [hi]; exact hc) j (by rw [hi]; exact hj)
  rw [hi] at this
  exact this

theorem iter_agree (f g : Int → Int) (P : Int → Prop) (hP : ∀ y, P y → g y = f y ∧ P (f y)) (x : Int) (hx : P x) (k : Nat) :
    iter g k x = iter f k x ∧ P (iter f k x) := by
  induction k with
  | zero => exact ⟨rfl, hx⟩
  | succ k ih =>
    rw [iter_succ', iter_succ', ih.1]
    exact hP _ ih.2

/-- **`_build_cycles` preserves / establishes well-formedness**, provided no tree that is ALREADY asleep
    belongs to an island that is put to sleep -/
theorem buildCycles_wf (island : Int → Int) (nisl : Int) (ics : Int → Int) (s : List Int) (hwf : WF s)
    (H : ∀ u : Int, 0 ≤ u → u < s.length → 0 ≤ island u → island u < nisl → ics (island u) = 1 → rd s u < 0) :
    WF (buildCycles island nisl ics s) := by
  obtain ⟨hlen, hspec⟩ := buildCycles_spec island nisl ics s
  have hf := (WF_iff s).mp hwf
  rw [WF_iff, hlen]
  -- trees asleep before are untouched
  have hold : ∀ y : Int, (0 ≤ y ∧ y < s.length ∧ rd s y ≥ 0) →
      rd (buildCycles island nisl ics s) y = rd s y ∧ (0 ≤ rd s y ∧ rd s y < s.length ∧ rd s (rd s y) ≥ 0) := by
    rintro y ⟨hy0, hy1, hy2⟩
    obtain ⟨a, b, -⟩ := hf y hy0 hy1 hy2
    refine ⟨?_, by omega, a, b⟩
    obtain ⟨-, sB, sC⟩ := hspec y hy0 hy1
    by_cases hv : 0 ≤ island y ∧ island y < nisl
    · by_cases hc : ics (island y) = 1
      · have := H y hy0 hy1 hv.1 hv.2 hc; omega
      · exact sB hv hc
    · rw [sC (by omega), if_neg (by omega)]
  intro x hx0 hx1 hx2
  obtain ⟨sA, sB, sC⟩ := hspec x hx0 hx1
  -- the case "asleep before"
  have oldcase : rd s x ≥ 0 → rd (buildCycles island nisl ics s) x < s.length ∧
      rd (buildCycles island nisl ics s) (rd (buildCycles island nisl ics s) x) ≥ 0 ∧
      ∃ k : Nat, (k : Int) < s.length ∧ iter (rd (buildCycles island nisl ics s)) (k + 1) x = x := by
    intro hs
    obtain ⟨a, b, k, hk, e⟩ := hf x hx0 hx1 hs
    have e1 := (hold x ⟨hx0, hx1, hs⟩).1
    have e2 := (hold (rd s x) ⟨by omega, a, b⟩).1
    refine ⟨by rw [e1]; exact a, by rw [e1, e2]; exact b, k, hk, ?_⟩
    rw [(iter_agree (rd s) (rd (buildCycles island nisl ics s)) (fun y => 0 ≤ y ∧ y < s.length ∧ rd s y ≥ 0) hold x
      ⟨hx0, hx1, hs⟩ (k + 1)).1]
    exact e
  by_cases hv : 0 ≤ island x ∧ island x < nisl
  · by_cases hc : ics (island x) = 1
    · -- a tree of an island that is put to sleep
      obtain ⟨j, hj, hxj, -⟩ := sA hv hc
      generalize hms : members s.length island (island x) = ms at hj hxj
      have hL : 0 < ms.length := by omega
      have hcyc : ∀ j', j' < ms.length → rd (buildCycles island nisl ics s) (ms.getD j' (-1)) = ms.getD ((j' + 1) % ms.length) (-1) := by
        intro j' hj'; rw [← hms] at hj' ⊢
        exact buildCycles_island island nisl ics s (island x) hv.1 hv.2 hc j' hj'
      have hmr : ∀ j', j' < ms.length → 0 ≤ ms.getD j' (-1) ∧ ms.getD j' (-1) < s.length := by
        intro j' hj'
        have : ms.getD j' (-1) ∈ members s.length island (island x) := by
          rw [hms, getD_lt _ _ _ hj']; exact List.getElem_mem hj'
        have := (mem_members _ _ _ _).mp this
        exact ⟨this.1, this.2.1⟩
      have hiter : ∀ k : Nat, iter (rd (buildCycles island nisl ics s)) k (ms.getD j (-1)) = ms.getD ((j + k) % ms.length) (-1) := by
        intro k
        induction k with
        | zero => rw [Nat.add_zero, Nat.mod_eq_of_lt hj]; rfl
        | succ k ih =>
          rw [iter_succ', ih, hcyc _ (Nat.mod_lt _ hL)]
          congr 1
          rw [Nat.add_mod, Nat.mod_mod, ← Nat.add_mod]; rfl
      rw [← hxj]
      have hn1 := Nat.mod_lt (j + 1) hL
      refine ⟨?_, ?_, ms.length - 1, ?_, ?_⟩
      · rw [hcyc j hj]; exact (hmr _ hn1).2
      · rw [hcyc j hj, hcyc _ hn1]; exact (hmr _ (Nat.mod_lt _ hL)).1
      · have := members_length_le s.length island (island x); rw [hms] at this; omega
      · rw [show ms.length - 1 + 1 = ms.length by omega, hiter, Nat.add_mod_right, Nat.mod_eq_of_lt hj]
    · rw [sB hv hc] at hx2
      exact oldcase hx2
  · have hinv : island x < 0 ∨ island x ≥ nisl := by omega
    by_cases h1 : rd s x = -1
    · -- a tree without island, countdown −1: self-cycle
      have e : rd (buildCycles island nisl ics s) x = x := by rw [sC hinv, if_pos h1]
      refine ⟨by rw [e]; exact hx1, by rw [e, e]; exact hx0, 0, by omega, ?_⟩
      show iter (rd (buildCycles island nisl ics s)) 0 (rd (buildCycles island nisl ics s) x) = x
      rw [e]; rfl
    · rw [sC hinv, if_neg h1] at hx2
      exact oldcase hx2

/-! ### more on sweeps -/

theorem sweepVal_neg (can : Bool) (a : Int) (h : a < 0) : sweepVal can a < 0 := by
  unfold sweepVal AWAKE_VAL MINAWAKE
  rw [if_neg (by omega)]
  cases can
  · simp
  · simp only [if_true]; split <;> omega

theorem sweepVal_asleep (can : Bool) (a : Int) (h : a ≥ 0) : sweepVal can a = a := by
  unfold sweepVal; rw [if_pos h]

/-- a sweep task only changes the countdown of an awake tree, to another negative value -/
theorem sweepTask_intact (s0 s : List Int) (hwf : WF s0) (hI : Intact s0 s) (can : Int → Bool) (t : Int) :
    Intact s0 (sweepTask can s t) := by
  have hf0 := (WF_iff s0).mp hwf
  refine ⟨by rw [length_sweepTask]; exact hI.1, fun u hu0 hu1 hu2 => ?_⟩
  have key : ∀ y, (rd (sweepTask can s t) y ≥ 0 ∨ rd s y ≥ 0) → rd (sweepTask can s t) y = rd s y := by
    intro y hy
    rw [rd_sweepTask] at hy ⊢
    by_cases h : y = t ∧ 0 ≤ t ∧ t < s.length
    · rw [if_pos h] at hy ⊢
      rw [h.1] at hy
      by_cases ha : rd s t < 0
      · have := sweepVal_neg (can t) _ ha; omega
      · rw [sweepVal_asleep _ _ (by omega), h.1]
    · rw [if_neg h]
  have e := key u (Or.inl hu2)
  rw [e] at hu2
  obtain ⟨a, b⟩ := hI.2 u hu0 hu1 hu2
  refine ⟨a, fun x hx => ?_⟩
  rw [← b x hx]
  apply key
  right
  rw [b x hx]
  obtain ⟨k, hk⟩ := hx
  have := (orbit_sleeping hf0 k u hu0 hu1 a).2.2
  rw [hk] at this
  exact this

theorem sweep_intact (s0 s : List Int) (hwf : WF s0) (hI : Intact s0 s) (can : Int → Bool) (order : List Int) :
    Intact s0 (sweep can order s) := by
  induction order generalizing s with
  | nil => exact hI
  | cons a l ih => exact ih _ (sweepTask_intact s0 s hwf hI can a)

theorem wakeLaunch_intact_of_step (s0 : List Int) (hwf : WF s0) (s : List Int) (hI : Intact s0 s) (t v : Int) (hv : v < 0) :
    Intact s0 (wakeTree s t v) := (wake_step s0 s hwf hI t v hv).1

/-- `trail c k ≥ m`: the last `m` sweeps before `k` were all quiet -/
theorem trail_ge (c : Nat → Bool) (k m : Nat) (h : m ≤ trail c k) : m ≤ k ∧ ∀ j, k - m ≤ j → j < k → c j = true := by
  induction k generalizing m with
  | zero => simp [trail] at h; subst h; exact ⟨le_refl _, fun j _ hj => by omega⟩
  | succ k ih =>
    by_cases hc : c k = true
    · have e : trail c (k + 1) = trail c k + 1 := by simp [trail, hc]
      rw [e] at h
      cases m with
      | zero => exact ⟨by omega, fun j h1 h2 => by omega⟩
      | succ m =>
        obtain ⟨h1, h2⟩ := ih m (by omega)
        refine ⟨by omega, fun j hj1 hj2 => ?_⟩
        by_cases hjk : j = k
        · subst hjk; exact hc
        · exact h2 j (by omega) (by omega)
    · have e : trail c (k + 1) = 0 := by simp [trail, hc]
      rw [e] at h
      have : m = 0 := by omega
      subst this
      exact ⟨by omega, fun j h1 h2 => by omega⟩

/-- a launch of generated tasks on the list state is the fold of the model task -/
theorem launchK_eq {τ : Type} (w : Int) (task : (Int → Int → Int) → τ → List (Write K)) (model : List Int → τ → List Int)
    (h : ∀ s tid, applyAsleep w s (task (asArr s) tid) = model s tid) (order : List τ) (s : List Int) :
    launchK w task order s = order.foldl model s := by
  unfold launchK
  induction order generalizing s with
  | nil => rfl
  | cons a l ih => rw [List.foldl_cons, List.foldl_cons, h, ih]

theorem rename_self (a : String) (x : Write K) : Write.rename [(a, a)] x = x := by
  unfold Write.rename
  by_cases h : (a == x.arr) = true
  · simp only [List.find?, h]
    have : a = x.arr := by simpa using h
    cases x; simp_all
  · simp only [List.find?, h]

theorem renameAll_self (a : String) (ws : List (Write K)) : Write.renameAll [(a, a)] ws = ws := by
  unfold Write.renameAll
  induction ws with
  | nil => rfl
  | cons x l ih => rw [List.map_cons, rename_self, ih]

/-- `launchK_eq` with an invariant of the state (e.g. its length) -/
theorem launchK_eq_inv {τ : Type} (w : Int) (task : (Int → Int → Int) → τ → List (Write K)) (model : List Int → τ → List Int)
    (Inv : List Int → Prop) (h : ∀ s tid, Inv s → applyAsleep w s (task (asArr s) tid) = model s tid)
    (hpres : ∀ s tid, Inv s → Inv (model s tid)) (order : List τ) (s : List Int) (hs : Inv s) :
    launchK w task order s = order.foldl model s := by
  unfold launchK
  induction order generalizing s with
  | nil => rfl
  | cons a l ih => rw [List.foldl_cons, List.foldl_cons, h s a hs, ih _ (hpres s a hs)]

theorem applyAsleep_wakeKernelWrites (w : Int) (s : List Int) (trigger : Int → Bool) (t : Int) :
    applyAsleep w s (wakeKernelWrites (K := K) w s.length (rd s) (trigger t) t) = wakeKernelTask trigger s t := by
  unfold wakeKernelWrites wakeKernelTask
  by_cases hc : rd s t ≥ 0 ∧ trigger t = true
  · rw [if_pos hc, if_pos hc]; exact applyAsleep_wakeTreeWrites w s t AWAKE_VAL
  · rw [if_neg hc, if_neg hc]; rfl

theorem length_wakeKernelTask (trigger : Int → Bool) (s : List Int) (t : Int) : (wakeKernelTask trigger s t).length = s.length := by
  unfold wakeKernelTask
  split
  · exact length_wakeTree _ _ _
  · rfl

/-! ### `_tree_can_sleep` -/

/-- a `for` loop that returns `false` from the function at the first hit -/
theorem forRange_flag (n : Int) (hit : Int → Bool) (body : Int → Bool × Bool × Bool → Bool × Bool × Bool) (r0 v0 : Bool)
    (hbody : ∀ i st, body i st = if st.1 then st else if hit i then (true, true, false) else st) :
    forRange 0 n (false, r0, v0) body
      = if (List.range n.toNat).any (fun (k : Nat) => hit k) then (true, true, false) else (false, r0, v0) := by
  unfold forRange
  rw [Int.sub_zero]
  generalize n.toNat = m
  induction m with
  | zero => simp
  | succ m ih =>
    rw [List.range_succ, List.foldl_append, ih]
    simp only [List.foldl_cons, List.foldl_nil, List.any_append, List.any_cons, List.any_nil, Bool.or_false, Int.zero_add,
      Int.ofNat_eq_natCast]
    rw [hbody]
    by_cases h : (List.range m).any (fun (k : Nat) => hit k) = true
    · simp [h]
    · have h' : (List.range m).any (fun (k : Nat) => hit k) = false := by simpa using h
      rw [h']
      cases hk : hit (m : Int) <;> simp

section cansleep
variable [Scalar K]

/-- **`_tree_can_sleep` = its closed form**, every scalar type, every input -/
theorem tree_can_sleep_eq (nbody : Int) (body_treeid : Int → Int) (dof_length : Int → K)
    (tree_dofadr tree_dofnum tree_sleep_policy : Int → Int) (qvel_in qfrc_applied_in : Int → Int → K)
    (xfrc_applied_in : Int → Int → V6 K) (w t : Int) (tol : K) :
    Gen.Sleep._tree_can_sleep (K := K) nbody body_treeid dof_length tree_dofadr tree_dofnum tree_sleep_policy qvel_in
        qfrc_applied_in xfrc_applied_in w t tol
      = canSleepSpec nbody body_treeid dof_length (tree_dofadr t) (tree_dofnum t) (tree_sleep_policy t) (qvel_in w)
          (qfrc_applied_in w) (xfrc_applied_in w) t tol := by
  unfold Gen.Sleep._tree_can_sleep canSleepSpec
  by_cases hp : tree_sleep_policy t = 1
  · simp [hp]
  · simp only [hp, decide_false, Bool.false_eq_true, if_false]
    rw [forRange_flag nbody (fun b => decide (body_treeid b = t) && anyNonzero6 (xfrc_applied_in w b)) _ false false
      (by
        intro i st
        obtain ⟨a, b, c⟩ := st
        cases a
        · simp only [Bool.false_eq_true, if_false, anyNonzero6]
          by_cases h : body_treeid i = t
          · simp only [h, decide_true, if_true, Bool.true_and]
            cases Scalar.bne (xfrc_applied_in w i).c0 (Scalar.lit 0 0 : K) <;>
            cases Scalar.bne (xfrc_applied_in w i).c1 (Scalar.lit 0 0 : K) <;>
            cases Scalar.bne (xfrc_applied_in w i).c2 (Scalar.lit 0 0 : K) <;>
            cases Scalar.bne (xfrc_applied_in w i).c3 (Scalar.lit 0 0 : K) <;>
            cases Scalar.bne (xfrc_applied_in w i).c4 (Scalar.lit 0 0 : K) <;>
            cases Scalar.bne (xfrc_applied_in w i).c5 (Scalar.lit 0 0 : K) <;> rfl
          · simp [h]
        · rfl)]
    by_cases h1 : (List.range nbody.toNat).any (fun (b : Nat) => decide (body_treeid b = t) && anyNonzero6 (xfrc_applied_in w b)) = true
    · simp [h1]
    · have h1' : (List.range nbody.toNat).any (fun (b : Nat) => decide (body_treeid b = t) && anyNonzero6 (xfrc_applied_in w b)) = false := by
        simpa using h1
      simp only [h1', Bool.false_eq_true, if_false]
      rw [forRange_flag (tree_dofnum t) (fun d => Scalar.bne (qfrc_applied_in w (tree_dofadr t + d)) (Scalar.lit 0 0 : K)) _ false false
        (by
          intro i st
          obtain ⟨a, b, c⟩ := st
          cases a
          · simp only [Bool.false_eq_true, if_false]
          · rfl)]
      by_cases h2 : (List.range (tree_dofnum t).toNat).any (fun (d : Nat) => Scalar.bne (qfrc_applied_in w (tree_dofadr t + d)) (Scalar.lit 0 0 : K)) = true
      · simp [h2]
      · have h2' : (List.range (tree_dofnum t).toNat).any (fun (d : Nat) => Scalar.bne (qfrc_applied_in w (tree_dofadr t + d)) (Scalar.lit 0 0 : K)) = false := by
          simpa using h2
        simp only [h2', Bool.false_eq_true, if_false]
        rw [forRange_flag (tree_dofnum t) (fun d => if Scalar.gt tol (Scalar.lit 0 0 : K) then
            Scalar.ge (Scalar.abs (dof_length (tree_dofadr t + d) * qvel_in w (tree_dofadr t + d))) tol
            else Scalar.bne (qvel_in w (tree_dofadr t + d)) (Scalar.lit 0 0 : K)) _ false false
          (by
            intro i st
            obtain ⟨a, b, c⟩ := st
            cases a
            · simp only [Bool.false_eq_true, if_false]
              cases Scalar.gt tol (Scalar.lit 0 0 : K)
              · simp only [Bool.false_eq_true, if_false]
              · simp only [if_true]
            · rfl)]
        by_cases h3 : (List.range (tree_dofnum t).toNat).any (fun (d : Nat) => if Scalar.gt tol (Scalar.lit 0 0 : K) then
            Scalar.ge (Scalar.abs (dof_length (tree_dofadr t + d) * qvel_in w (tree_dofadr t + d))) tol
            else Scalar.bne (qvel_in w (tree_dofadr t + d)) (Scalar.lit 0 0 : K)) = true
        · simp [h3]
        · have h3' : (List.range (tree_dofnum t).toNat).any (fun (d : Nat) => if Scalar.gt tol (Scalar.lit 0 0 : K) then
              Scalar.ge (Scalar.abs (dof_length (tree_dofadr t + d) * qvel_in w (tree_dofadr t + d))) tol
              else Scalar.bne (qvel_in w (tree_dofadr t + d)) (Scalar.lit 0 0 : K)) = false := by simpa using h3
          simp [h3']

end cansleep

/-! ### collision launch on the list state -/

theorem applyAsleep_wakeTreeWrites_other (w w' : Int) (hw : w' ≠ w) (s : List Int) (n : Int) (a : Int → Int) (t v : Int) :
    applyAsleep w s (wakeTreeWrites (K := K) w' n a t v) = s := by
  unfold wakeTreeWrites
  generalize wakeCells n a t v = cells
  induction cells with
  | nil => rfl
  | cons c l ih =>
    show applyAsleep w (applyAsleep1 w s (setAsleep w' c v)) _ = s
    have : applyAsleep1 (K := K) w s (setAsleep w' c v) = s := by simp [applyAsleep1, setAsleep, hw]
    rw [this]; exact ih

/-- a sleeping entry pointing outside the array is never woken -/
theorem wakeTree_corrupt (s : List Int) (t v : Int) (h : rd s t ≥ s.length) : wakeTree s t v = s := by
  have hc : wakeCells s.length (rd s) t v = [] := by
    unfold wakeCells
    split
    · rfl
    · rw [if_neg (by omega)]
      have : (s.length + 1 : Int).toNat = s.length + 1 := by omega
      rw [this]
      unfold wakePathAux
      simp only [List.not_mem_nil, if_false]
      rw [if_pos (Or.inr h)]
  unfold wakeTree; rw [hc]; rfl

/-! ### tendon and equality kernels -/

theorem forRange_flatMap {α : Type} (g : Int → List α) (n : Int) (ws : List α) :
    forRange 0 n ws (fun i st => st ++ g i) = ws ++ (List.range n.toNat).flatMap (fun (k : Nat) => g (k : Int)) := by
  unfold forRange
  rw [Int.sub_zero]
  have := foldl_flat (fun (k : Nat) => g (0 + Int.ofNat k)) n.toNat ws
  rw [this]
  simp

theorem ite_ite_append {α : Type} (c1 c2 : Prop) [Decidable c1] [Decidable c2] (st W : List α) :
    (if c1 then (if c2 then st ++ W else st) else st) = st ++ if c1 ∧ c2 then W else [] := by
  by_cases h1 : c1 <;> by_cases h2 : c2 <;> simp [h1, h2]


/-- the "wake every flag-0 tree of the path" loop (as generated, in `_wake_tendon_trees` and in pass 2 of `_wake_tendon_kernel`) -/
theorem tendon_pass2_loop [Scalar K] (ntree : Int) (body_treeid jnt_bodyid geom_bodyid site_bodyid wrap_type wrap_objid : Int → Int)
    (tree_awake_in : Int → Int → Int) (w adr num v : Int) (arr : Int → Int → Int) :
    Mjw.forRange (0 : Int) num ([] : List (Write K)) (fun (i : Int) (st : List (Write K)) =>
        let ws := st
        let idx : Int := (adr + i)
        let t_type : Int := (wrap_type idx)
        let t_objid : Int := (wrap_objid idx)
        let t : Int := (-1 : Int)
        let t :=
          if (decide (t_type = (1 : Int))) then
            let t : Int := (body_treeid (jnt_bodyid t_objid))
            t
          else
            let t :=
              if (decide (t_type = (3 : Int))) then
                let t : Int := (body_treeid (site_bodyid t_objid))
                t
              else
                let t :=
                  if ((decide (t_type = (4 : Int))) || (decide (t_type = (5 : Int)))) then
                    let t : Int := (body_treeid (geom_bodyid t_objid))
                    t
                  else
                    t
                t
            t
        let ws :=
          if (decide (t ≥ (0 : Int))) then
            let ws :=
              if (decide ((tree_awake_in w t) = (0 : Int))) then
                let ws : List (Write K) := ws ++ ((let r := (Mjw.Gen.Sleep._wake_tree (K := K) ntree w t v arr); (r.1, Write.renameAll [("tree_asleep_out", "tree_asleep_out")] r.2))).2
                ws
              else
                ws
            ws
          else
            ws
        ws)
      = tendonWakeWrites w ntree (arr w) (tree_awake_in w)
          (tendonTrees (wrapTree body_treeid jnt_bodyid geom_bodyid site_bodyid wrap_type wrap_objid) adr num) v := by
  have hbody : (fun (i : Int) (st : List (Write K)) =>
        let ws := st
        let idx : Int := (adr + i)
        let t_type : Int := (wrap_type idx)
        let t_objid : Int := (wrap_objid idx)
        let t : Int := (-1 : Int)
        let t :=
          if (decide (t_type = (1 : Int))) then
            let t : Int := (body_treeid (jnt_bodyid t_objid))
            t
          else
            let t :=
              if (decide (t_type = (3 : Int))) then
                let t : Int := (body_treeid (site_bodyid t_objid))
                t
              else
                let t :=
                  if ((decide (t_type = (4 : Int))) || (decide (t_type = (5 : Int)))) then
                    let t : Int := (body_treeid (geom_bodyid t_objid))
                    t
                  else
                    t
                t
            t
        let ws :=
          if (decide (t ≥ (0 : Int))) then
            let ws :=
              if (decide ((tree_awake_in w t) = (0 : Int))) then
                let ws : List (Write K) := ws ++ ((let r := (Mjw.Gen.Sleep._wake_tree (K := K) ntree w t v arr); (r.1, Write.renameAll [("tree_asleep_out", "tree_asleep_out")] r.2))).2
                ws
              else
                ws
            ws
          else
            ws
        ws)
      = (fun i st => st ++ (if wrapTree body_treeid jnt_bodyid geom_bodyid site_bodyid wrap_type wrap_objid (adr + i) ≥ 0
            ∧ tree_awake_in w (wrapTree body_treeid jnt_bodyid geom_bodyid site_bodyid wrap_type wrap_objid (adr + i)) = 0
          then wakeTreeWrites w ntree (arr w) (wrapTree body_treeid jnt_bodyid geom_bodyid site_bodyid wrap_type wrap_objid (adr + i)) v
          else [])) := by
    funext i st
    simp only [wake_tree_eq, renameAll_self, wrapTree, decide_eq_true_eq, Bool.or_eq_true]
    exact ite_ite_append _ _ _ _
  rw [hbody, forRange_flatMap]
  unfold tendonWakeWrites tendonWakeCells tendonTrees wakeTreeWrites
  rw [List.nil_append, List.flatMap_map, List.map_flatMap]
  congr 1
  funext k
  split <;> simp

theorem wake_tendon_trees_eq [Scalar K] (ntree : Int) (body_treeid jnt_bodyid geom_bodyid site_bodyid tendon_adr tendon_num wrap_type wrap_objid : Int → Int)
    (tree_awake_in : Int → Int → Int) (w tenid v : Int) (arr : Int → Int → Int) :
    Gen.Sleep._wake_tendon_trees (K := K) ntree body_treeid jnt_bodyid geom_bodyid site_bodyid tendon_adr tendon_num wrap_type
        wrap_objid tree_awake_in w tenid v arr
      = if tenid < 0 then [] else
          tendonWakeWrites w ntree (arr w) (tree_awake_in w)
            (tendonTrees (wrapTree body_treeid jnt_bodyid geom_bodyid site_bodyid wrap_type wrap_objid) (tendon_adr tenid) (tendon_num tenid)) v := by
  unfold Gen.Sleep._wake_tendon_trees
  by_cases h : tenid < 0
  · simp [h]
  · simp only [h, decide_false, Bool.false_eq_true, if_false]
    exact tendon_pass2_loop ntree body_treeid jnt_bodyid geom_bodyid site_bodyid wrap_type wrap_objid tree_awake_in w _ _ v arr

theorem forRange_foldl_map {σ α : Type} (f : Int → α) (g : α → σ → σ) (n : Int) (init : σ) :
    forRange 0 n init (fun i st => g (f i) st) = ((List.range n.toNat).map (fun (k : Nat) => f (k : Int))).foldl (fun st t => g t st) init := by
  unfold forRange
  rw [Int.sub_zero, List.foldl_map]
  simp

theorem tendonVal_step (c1 c2 : Prop) [Decidable c1] [Decidable c2] (x st : Int) :
    (if c1 then ((if c2 then (x, if st = 0 ∨ x < st then x else st) else (0, st)).1,
        (if c2 then (x, if st = 0 ∨ x < st then x else st) else (0, st)).2) else ((0 : Int), st)).2
      = if c1 ∧ c2 then (if st = 0 ∨ x < st then x else st) else st := by
  by_cases h1 : c1 <;> by_cases h2 : c2 <;> simp [h1, h2]

theorem tendon_wake_val_eq [Scalar K] (body_treeid jnt_bodyid geom_bodyid site_bodyid tendon_adr tendon_num wrap_type wrap_objid : Int → Int)
    (tree_awake_in : Int → Int → Int) (w tenid : Int) (arr : Int → Int → Int) :
    Gen.Sleep._tendon_wake_val (K := K) body_treeid jnt_bodyid geom_bodyid site_bodyid tendon_adr tendon_num wrap_type
        wrap_objid tree_awake_in w tenid arr
      = if tenid < 0 then 0 else
          tendonWakeVal (arr w) (tree_awake_in w)
            (tendonTrees (wrapTree body_treeid jnt_bodyid geom_bodyid site_bodyid wrap_type wrap_objid) (tendon_adr tenid) (tendon_num tenid)) := by
  unfold Gen.Sleep._tendon_wake_val
  by_cases h : tenid < 0
  · simp [h]
  · simp only [h, decide_false, Bool.false_eq_true, if_false]
    unfold tendonWakeVal tendonTrees
    rw [← forRange_foldl_map (fun i => wrapTree body_treeid jnt_bodyid geom_bodyid site_bodyid wrap_type wrap_objid (tendon_adr tenid + i))
      (fun t wv => if t ≥ 0 ∧ tree_awake_in w t = 1 then (if wv = 0 ∨ arr w t < wv then arr w t else wv) else wv)]
    congr 1
    funext i st
    simp only [wrapTree, decide_eq_true_eq, Bool.or_eq_true]
    exact tendonVal_step _ _ _ _

theorem tendonScan_step (c1 c2 : Prop) [Decidable c1] [Decidable c2] (x aa wv : Int) :
    ((if c1 then ((if c2 then ((1 : Int), x, if x < wv then x else wv) else (aa, (0 : Int), wv)).1,
          (if c2 then ((1 : Int), x, if x < wv then x else wv) else (aa, (0 : Int), wv)).2.1,
          (if c2 then ((1 : Int), x, if x < wv then x else wv) else (aa, (0 : Int), wv)).2.2) else (aa, (0 : Int), wv)).1,
     (if c1 then ((if c2 then ((1 : Int), x, if x < wv then x else wv) else (aa, (0 : Int), wv)).1,
          (if c2 then ((1 : Int), x, if x < wv then x else wv) else (aa, (0 : Int), wv)).2.1,
          (if c2 then ((1 : Int), x, if x < wv then x else wv) else (aa, (0 : Int), wv)).2.2) else (aa, (0 : Int), wv)).2.2)
      = if c1 ∧ c2 then ((1 : Int), if x < wv then x else wv) else (aa, wv) := by
  by_cases h1 : c1 <;> by_cases h2 : c2 <;> simp [h1, h2]

theorem wake_tendon_kernel_eq [Scalar K] (ntree ntendon : Int) (body_treeid jnt_bodyid geom_bodyid site_bodyid tendon_adr tendon_num tendon_limited : Int → Int)
    (tendon_range : Int → Int → V2 K) (tendon_margin : Int → Int → K) (wrap_type wrap_objid : Int → Int)
    (ten_length_in : Int → Int → K) (tree_awake_in arr : Int → Int → Int) (sh0 sh1 w tenid : Int) :
    Gen.Sleep._wake_tendon_kernel (K := K) ntree ntendon body_treeid jnt_bodyid geom_bodyid site_bodyid tendon_adr tendon_num
        tendon_limited tendon_range tendon_margin wrap_type wrap_objid ten_length_in tree_awake_in arr sh0 sh1 w tenid
      = if (tendonScan (arr w) (tree_awake_in w) (tendonTrees (wrapTree body_treeid jnt_bodyid geom_bodyid site_bodyid wrap_type wrap_objid)
              (tendon_adr tenid) (tendon_num tenid))).1 = 1
            ∧ Gen.Sleep._tendon_limit_active (K := K) tendon_limited tendon_range tendon_margin ten_length_in w tenid sh0 sh1 = true
        then tendonWakeWrites w ntree (arr w) (tree_awake_in w)
          (tendonTrees (wrapTree body_treeid jnt_bodyid geom_bodyid site_bodyid wrap_type wrap_objid) (tendon_adr tenid) (tendon_num tenid))
          (tendonScan (arr w) (tree_awake_in w) (tendonTrees (wrapTree body_treeid jnt_bodyid geom_bodyid site_bodyid wrap_type wrap_objid)
              (tendon_adr tenid) (tendon_num tenid))).2
        else [] := by
  unfold Gen.Sleep._wake_tendon_kernel
  simp only [tendon_pass2_loop, lookupI_nil]
  unfold tendonScan tendonTrees
  rw [← forRange_foldl_map (fun i => wrapTree body_treeid jnt_bodyid geom_bodyid site_bodyid wrap_type wrap_objid (tendon_adr tenid + i))
      (fun t (st : Int × Int) => if t ≥ 0 ∧ tree_awake_in w t = 1 then ((1 : Int), if arr w t < st.2 then arr w t else st.2) else st)]
  have hbody : (fun (i : Int) (st : (Int × Int)) =>
      let (any_awake, wakeval) := st
      let idx : Int := (tendon_adr tenid + i)
      let t_type : Int := (wrap_type idx)
      let t_objid : Int := (wrap_objid idx)
      let t : Int := (-1 : Int)
      let t :=
        if (decide (t_type = (1 : Int))) then
          let t : Int := (body_treeid (jnt_bodyid t_objid))
          t
        else
          let t :=
            if (decide (t_type = (3 : Int))) then
              let t : Int := (body_treeid (site_bodyid t_objid))
              t
            else
              let t :=
                if ((decide (t_type = (4 : Int))) || (decide (t_type = (5 : Int)))) then
                  let t : Int := (body_treeid (geom_bodyid t_objid))
                  t
                else
                  t
              t
          t
      let (any_awake, val, wakeval) :=
        if (decide (t ≥ (0 : Int))) then
          let (any_awake, val, wakeval) :=
            if (decide ((tree_awake_in w t) = (1 : Int))) then
              let any_awake : Int := (1 : Int)
              let val : Int := (arr w t)
              let wakeval :=
                if (decide (val < wakeval)) then
                  let wakeval : Int := val
                  wakeval
                else
                  wakeval
              (any_awake, val, wakeval)
            else
              (any_awake, (0 : Int), wakeval)
          (any_awake, val, wakeval)
        else
          (any_awake, (0 : Int), wakeval)
      (any_awake, wakeval))
    = (fun i st => (fun t (st : Int × Int) => if t ≥ 0 ∧ tree_awake_in w t = 1 then ((1 : Int), if arr w t < st.2 then arr w t else st.2) else st)
        (wrapTree body_treeid jnt_bodyid geom_bodyid site_bodyid wrap_type wrap_objid (tendon_adr tenid + i)) st) := by
    funext i st
    obtain ⟨aa, wv⟩ := st
    simp only [wrapTree, decide_eq_true_eq, Bool.or_eq_true]
    exact tendonScan_step _ _ _ _ _
  rw [hbody]
  have hA : AWAKE_VAL = -11 := rfl
  rw [hA]
  generalize (forRange 0 (tendon_num tenid) ((0 : Int), (-11 : Int)) fun i st =>
    (fun t (st : Int × Int) => if t ≥ 0 ∧ tree_awake_in w t = 1 then ((1 : Int), if arr w t < st.2 then arr w t else st.2) else st)
      (wrapTree body_treeid jnt_bodyid geom_bodyid site_bodyid wrap_type wrap_objid (tendon_adr tenid + i)) st) = sc
  by_cases h1 : sc.1 = 1 <;>
    by_cases h2 : Gen.Sleep._tendon_limit_active (K := K) tendon_limited tendon_range tendon_margin ten_length_in w tenid sh0 sh1 = true <;>
    simp [h1, h2]

theorem rename_id (m : List (String × String)) (hm : ∀ p ∈ m, p.1 = p.2) (x : Write K) : Write.rename m x = x := by
  unfold Write.rename
  cases hf : m.find? (fun p => p.1 == x.arr) with
  | none => rfl
  | some p =>
    have hp := List.find?_some hf
    have hmem := List.mem_of_find?_eq_some hf
    have e1 : p.1 = x.arr := by simpa using hp
    have e2 := hm p hmem
    cases x
    simp_all

theorem map_rename_id (m : List (String × String)) (ws : List (Write K)) (hm : ∀ p ∈ m, p.1 = p.2) :
    List.map (Write.rename m) ws = ws := by
  induction ws with
  | nil => rfl
  | cons x l ih => rw [List.map_cons, rename_id m hm, ih]

theorem wake_equality_kernel_eq [Scalar K] (ntree neq : Int) (body_treeid jnt_bodyid geom_bodyid site_bodyid eq_type eq_obj1id eq_obj2id
      eq_objtype tendon_adr tendon_num wrap_type wrap_objid : Int → Int) (eq_active_in : Int → Int → Bool)
    (tree_awake_in arr : Int → Int → Int) (w eqid : Int) :
    Gen.Sleep._wake_equality_kernel (K := K) ntree neq body_treeid jnt_bodyid geom_bodyid site_bodyid eq_type eq_obj1id eq_obj2id
        eq_objtype tendon_adr tendon_num wrap_type wrap_objid eq_active_in tree_awake_in arr w eqid
      = if eq_active_in w eqid = false then []
        else if eq_type eqid = 0 ∨ eq_type eqid = 1 ∨ eq_type eqid = 2 then
          let tt := eqTrees body_treeid jnt_bodyid site_bodyid (eq_type eqid) (eq_objtype eqid) (eq_obj1id eqid) (eq_obj2id eqid)
          eqBodyWrites w ntree (arr w) tt.1 tt.2
            (if tt.1 ≥ 0 then tree_awake_in w tt.1 else -1) (if tt.2 ≥ 0 then tree_awake_in w tt.2 else -1)
            (Gen.Sleep._sleep_cycle (K := K) arr ntree w tt.1) (Gen.Sleep._sleep_cycle (K := K) arr ntree w tt.2)
        else if eq_type eqid = 3 then
          let w1 := Gen.Sleep._tendon_wake_val (K := K) body_treeid jnt_bodyid geom_bodyid site_bodyid tendon_adr tendon_num wrap_type
            wrap_objid tree_awake_in w (eq_obj1id eqid) arr
          let w2 := Gen.Sleep._tendon_wake_val (K := K) body_treeid jnt_bodyid geom_bodyid site_bodyid tendon_adr tendon_num wrap_type
            wrap_objid tree_awake_in w (eq_obj2id eqid) arr
          if w1 < 0 ∨ w2 < 0 then
            let v1 : Int := if w1 < 0 ∧ w1 < -11 then w1 else -11
            let v : Int := if w2 < 0 ∧ w2 < v1 then w2 else v1
            Gen.Sleep._wake_tendon_trees (K := K) ntree body_treeid jnt_bodyid geom_bodyid site_bodyid tendon_adr tendon_num wrap_type
                wrap_objid tree_awake_in w (eq_obj1id eqid) v arr
              ++ Gen.Sleep._wake_tendon_trees (K := K) ntree body_treeid jnt_bodyid geom_bodyid site_bodyid tendon_adr tendon_num
                wrap_type wrap_objid tree_awake_in w (eq_obj2id eqid) v arr
          else []
        else [] := by
  unfold Gen.Sleep._wake_equality_kernel
  by_cases hact : eq_active_in w eqid = true
  · simp only [hact, Bool.not_true, Bool.false_eq_true, if_false]
    by_cases hty : eq_type eqid = 0 ∨ eq_type eqid = 1 ∨ eq_type eqid = 2
    · have hb : (decide (eq_type eqid = 0) || decide (eq_type eqid = 1) || decide (eq_type eqid = 2)) = true := by
        simp only [Bool.or_eq_true, decide_eq_true_eq]; tauto
      simp only [hb, if_true, if_pos hty, wake_tree_eq, renameAll_self]
      have hTT : (if (decide (eq_type eqid = 0) || decide (eq_type eqid = 1)) = true then
            ((if decide (eq_objtype eqid = 1) = true then (body_treeid (eq_obj1id eqid), body_treeid (eq_obj2id eqid))
              else (body_treeid (site_bodyid (eq_obj1id eqid)), body_treeid (site_bodyid (eq_obj2id eqid)))).1,
             (if decide (eq_objtype eqid = 1) = true then (body_treeid (eq_obj1id eqid), body_treeid (eq_obj2id eqid))
              else (body_treeid (site_bodyid (eq_obj1id eqid)), body_treeid (site_bodyid (eq_obj2id eqid)))).2)
          else
            ((if decide (eq_type eqid = 2) = true then
                (if decide (eq_obj1id eqid ≥ 0) = true then body_treeid (jnt_bodyid (eq_obj1id eqid)) else -1,
                 if decide (eq_obj2id eqid ≥ 0) = true then body_treeid (jnt_bodyid (eq_obj2id eqid)) else -1)
              else ((-1 : Int), (-1 : Int))).1,
             (if decide (eq_type eqid = 2) = true then
                (if decide (eq_obj1id eqid ≥ 0) = true then body_treeid (jnt_bodyid (eq_obj1id eqid)) else -1,
                 if decide (eq_obj2id eqid ≥ 0) = true then body_treeid (jnt_bodyid (eq_obj2id eqid)) else -1)
              else ((-1 : Int), (-1 : Int))).2))
          = eqTrees body_treeid jnt_bodyid site_bodyid (eq_type eqid) (eq_objtype eqid) (eq_obj1id eqid) (eq_obj2id eqid) := by
        unfold eqTrees
        by_cases h01 : eq_type eqid = 0 ∨ eq_type eqid = 1
        · have : (decide (eq_type eqid = 0) || decide (eq_type eqid = 1)) = true := by simpa using h01
          rw [if_pos this, if_pos h01]
          by_cases ho : eq_objtype eqid = 1 <;> simp [ho]
        · have : (decide (eq_type eqid = 0) || decide (eq_type eqid = 1)) = false := by simpa using h01
          rw [if_neg (by simp [this]), if_neg h01]
          by_cases h2 : eq_type eqid = 2 <;> simp [h2]
      rw [hTT]
      generalize eqTrees body_treeid jnt_bodyid site_bodyid (eq_type eqid) (eq_objtype eqid) (eq_obj1id eqid) (eq_obj2id eqid) = tt
      simp only [decide_eq_true_eq, Bool.and_eq_true, Bool.or_eq_true, List.nil_append, Bool.true_eq_false, if_false]
      generalize (if tt.1 ≥ 0 then tree_awake_in w tt.1 else -1) = s1
      generalize (if tt.2 ≥ 0 then tree_awake_in w tt.2 else -1) = s2
      generalize Gen.Sleep._sleep_cycle (K := K) arr ntree w tt.1 = c1
      generalize Gen.Sleep._sleep_cycle (K := K) arr ntree w tt.2 = c2
      unfold eqBodyWrites
      have hA : AWAKE_VAL = -11 := rfl
      rw [hA]
      by_cases a : s1 = 0 <;> by_cases b : s2 = 0 <;> by_cases c : s1 = -1 <;> by_cases d : s2 = -1 <;>
        by_cases e : tt.1 = tt.2 <;> by_cases f : c1 = c2 <;> simp [a, b, c, d, e, f]
    · have hb : (decide (eq_type eqid = 0) || decide (eq_type eqid = 1) || decide (eq_type eqid = 2)) = false := by
        rw [Bool.eq_false_iff]
        simp only [ne_eq, Bool.or_eq_true, decide_eq_true_eq]; tauto
      simp only [hb, Bool.false_eq_true, if_false, if_neg hty]
      by_cases h3 : eq_type eqid = 3
      · simp only [h3, decide_true, if_true, renameAll_self, List.nil_append, Write.renameAll, decide_eq_true_eq,
          Bool.or_eq_true, Bool.and_eq_true]
        rw [map_rename_id _ _ (by decide), map_rename_id _ _ (by decide)]
        generalize Gen.Sleep._tendon_wake_val (K := K) body_treeid jnt_bodyid geom_bodyid site_bodyid tendon_adr tendon_num wrap_type
          wrap_objid tree_awake_in w (eq_obj1id eqid) arr = w1
        generalize Gen.Sleep._tendon_wake_val (K := K) body_treeid jnt_bodyid geom_bodyid site_bodyid tendon_adr tendon_num wrap_type
          wrap_objid tree_awake_in w (eq_obj2id eqid) arr = w2
        by_cases hw : w1 < 0 ∨ w2 < 0
        · simp [hw]
        · simp [hw]
      · simp [h3]
  · have : eq_active_in w eqid = false := by simpa using hact
    simp [this]


/-! ### wake-only write lists -/

/-- every write stores a negative value into `tree_asleep_out` (any row) -/
def WakeOnly (ws : List (Write K)) : Prop := ∀ x ∈ ws, ∃ w' c v : Int, v < 0 ∧ x = setAsleep w' c v

theorem wakeOnly_nil : WakeOnly ([] : List (Write K)) := fun x hx => by simp at hx

theorem wakeOnly_append {l1 l2 : List (Write K)} (h1 : WakeOnly l1) (h2 : WakeOnly l2) : WakeOnly (l1 ++ l2) := by
  intro x hx
  rcases List.mem_append.mp hx with h | h
  · exact h1 x h
  · exact h2 x h

theorem wakeOnly_map (w : Int) (cells : List Int) (v : Int) (hv : v < 0) :
    WakeOnly (cells.map (fun c => (setAsleep w c v : Write K))) := by
  intro x hx
  obtain ⟨c, -, e⟩ := List.mem_map.mp hx
  exact ⟨w, c, v, hv, e.symm⟩

theorem wakeOnly_wakeTreeWrites (w n : Int) (a : Int → Int) (t v : Int) (hv : v < 0) :
    WakeOnly (wakeTreeWrites (K := K) w n a t v) := wakeOnly_map w _ v hv

/-- a state reachable from `s` by wake-only writes: same length, and what is still asleep is untouched -/
def Reach (s s' : List Int) : Prop := s'.length = s.length ∧ ∀ u, rd s' u ≥ 0 → rd s' u = rd s u

theorem Reach.refl (s : List Int) : Reach s s := ⟨rfl, fun _ _ => rfl⟩

theorem applyAsleep_wakeOnly (w : Int) (s0 s : List Int) (ws : List (Write K)) (h : WakeOnly ws) (hr : Reach s0 s) :
    Reach s0 (applyAsleep w s ws) ∧ ∀ u, rd s u < 0 → rd (applyAsleep w s ws) u < 0 := by
  induction ws generalizing s with
  | nil => exact ⟨hr, fun u h => h⟩
  | cons x l ih =>
    obtain ⟨w', c, v, hv, e⟩ := h x (by simp)
    have hl : WakeOnly l := fun y hy => h y (List.mem_cons_of_mem _ hy)
    have hstep : applyAsleep1 w s x = if w' = w then wr s c v else s := by
      subst e; simp [applyAsleep1, setAsleep]
    have hr1 : Reach s0 (applyAsleep1 w s x) ∧ ∀ u, rd s u < 0 → rd (applyAsleep1 w s x) u < 0 := by
      rw [hstep]
      by_cases hw : w' = w
      · rw [if_pos hw]
        refine ⟨⟨by rw [length_wr]; exact hr.1, fun u hu => ?_⟩, fun u hu => ?_⟩
        · rw [rd_wr] at hu ⊢
          by_cases hc : u = c ∧ 0 ≤ c ∧ c < s.length
          · rw [if_pos hc] at hu; omega
          · rw [if_neg hc] at hu ⊢; exact hr.2 u hu
        · rw [rd_wr]; split
          · exact hv
          · exact hu
      · rw [if_neg hw]; exact ⟨hr, fun u hu => hu⟩
    obtain ⟨a, b⟩ := ih (applyAsleep1 w s x) hl hr1.1
    exact ⟨a, fun u hu => b u (hr1.2 u hu)⟩

/-- **a launch of wake-only tasks**: a tree that some task wakes whenever it finds it asleep is awake at the end,
    whatever the task order -/
theorem wake_only_launch {τ : Type} (w : Int) (task : (Int → Int → Int) → τ → List (Write K))
    (hwo : ∀ s tid, WakeOnly (task (asArr s) tid)) (order : List τ) (s : List Int) (t : Int) (tid0 : τ) (h0 : tid0 ∈ order)
    (hhit : ∀ s', Reach s s' → rd s' t ≥ 0 → rd (applyAsleep w s' (task (asArr s') tid0)) t < 0) :
    rd (launchK w task order s) t < 0 := by
  unfold launchK
  -- generalise: from any reachable state, with tid0 still to come or t already awake
  have key : ∀ (l : List τ) (s' : List Int), Reach s s' → (tid0 ∈ l ∨ rd s' t < 0) →
      rd (l.foldl (fun s tid => applyAsleep w s (task (asArr s) tid)) s') t < 0 := by
    intro l
    induction l with
    | nil => intro s' _ h; rcases h with h | h; · simp at h
             · exact h
    | cons a l ih =>
      intro s' hr h
      rw [List.foldl_cons]
      obtain ⟨hr1, hmono⟩ := applyAsleep_wakeOnly w s s' (task (asArr s') a) (hwo s' a) hr
      apply ih _ hr1
      by_cases ha : rd s' t < 0
      · exact Or.inr (hmono t ha)
      · rcases h with h | h
        · rcases List.mem_cons.mp h with e | e
          · subst e; exact Or.inr (hhit s' hr (by omega))
          · exact Or.inl e
        · exact absurd h ha
  exact key order s (Reach.refl s) (Or.inl h0)

theorem wakePathAux_subset (n : Int) (a : Int → Int) (t v : Int) (k : Nat) (vis : List Int) (cur : Int) :
    ∀ c ∈ vis, c ∈ wakePathAux n a t v k vis cur := by
  induction k generalizing vis cur with
  | zero => intro c hc; exact hc
  | succ k ih =>
    intro c hc
    unfold wakePathAux
    simp only []
    generalize (if cur ∈ vis then v else a cur) = next
    by_cases h1 : next < 0 ∨ next ≥ n
    · rw [if_pos h1]; exact hc
    · rw [if_neg h1]
      by_cases h2 : next = t
      · rw [if_pos h2]; exact List.mem_append_left _ hc
      · rw [if_neg h2]; exact ih _ _ c (List.mem_append_left _ hc)

/-- a sleeping tree whose entry points inside the array is among the cells `_wake_tree` stores into -/
theorem mem_wakeCells_self (n : Int) (a : Int → Int) (t v : Int) (h0 : 0 ≤ t) (h1 : t < n) (h2 : 0 ≤ a t) (h3 : a t < n) :
    t ∈ wakeCells n a t v := by
  unfold wakeCells
  rw [if_neg (by omega), if_neg (by omega)]
  have : (n + 1).toNat = n.toNat + 1 := by omega
  rw [this]
  unfold wakePathAux
  simp only [List.not_mem_nil, if_false, List.nil_append]
  rw [if_neg (by omega)]
  by_cases h : a t = t
  · rw [if_pos h]; simp
  · rw [if_neg h]; exact wakePathAux_subset n a t v _ [t] (a t) t (by simp)

theorem rd_applyAsleep_cells (w : Int) (s : List Int) (cells : List Int) (v : Int) (u : Int)
    (hin : ∀ c ∈ cells, 0 ≤ c ∧ c < s.length) :
    rd (applyAsleep w s (cells.map (fun c => (setAsleep w c v : Write K)))) u = if u ∈ cells then v else rd s u := by
  rw [applyAsleep_map_set, rd_foldl_wr _ _ _ _ hin]

theorem tendonWakeCells_inrange (n : Int) (a awake : Int → Int) (trees : List Int) (v : Int) :
    ∀ c ∈ tendonWakeCells n a awake trees v, 0 ≤ c ∧ c < n := by
  intro c hc
  unfold tendonWakeCells at hc
  obtain ⟨t, -, h⟩ := List.mem_flatMap.mp hc
  split at h
  · exact wakeCells_inrange n a t v c h
  · simp at h

theorem tendonScan_spec (a awake : Int → Int) (trees : List Int) :
    ((tendonScan a awake trees).1 = 1 ↔ ∃ t ∈ trees, t ≥ 0 ∧ awake t = 1) ∧ (tendonScan a awake trees).2 ≤ AWAKE_VAL ∧
    ((∀ t ∈ trees, t ≥ 0 → awake t = 1 → AWAKE_VAL ≤ a t) → (tendonScan a awake trees).2 = AWAKE_VAL) := by
  unfold tendonScan
  have key : ∀ (l : List Int) (st : Int × Int), (st.1 = 0 ∨ st.1 = 1) → st.2 ≤ AWAKE_VAL →
      let r := l.foldl (fun st t => if t ≥ 0 ∧ awake t = 1 then ((1 : Int), if a t < st.2 then a t else st.2) else st) st
      (r.1 = 1 ↔ st.1 = 1 ∨ ∃ t ∈ l, t ≥ 0 ∧ awake t = 1) ∧ r.2 ≤ AWAKE_VAL ∧
      ((∀ t ∈ l, t ≥ 0 → awake t = 1 → AWAKE_VAL ≤ a t) → st.2 = AWAKE_VAL → r.2 = AWAKE_VAL) := by
    intro l
    induction l with
    | nil => intro st _ h2; exact ⟨by simp, h2, fun _ h => h⟩
    | cons x l ih =>
      intro st h1 h2
      rw [List.foldl_cons]
      by_cases hx : x ≥ 0 ∧ awake x = 1
      · rw [if_pos hx]
        have h2' : (if a x < st.2 then a x else st.2) ≤ AWAKE_VAL := by split <;> omega
        obtain ⟨i1, i2, i3⟩ := ih ((1 : Int), if a x < st.2 then a x else st.2) (Or.inr rfl) h2'
        refine ⟨?_, i2, fun hall hst => ?_⟩
        · rw [i1]
          constructor
          · intro _; exact Or.inr ⟨x, by simp, hx⟩
          · intro _; exact Or.inl rfl
        · apply i3 (fun t ht => hall t (List.mem_cons_of_mem _ ht))
          have := hall x (by simp) hx.1 hx.2
          show (if a x < st.2 then a x else st.2) = AWAKE_VAL
          split <;> omega
      · rw [if_neg hx]
        obtain ⟨i1, i2, i3⟩ := ih st h1 h2
        refine ⟨?_, i2, fun hall hst => i3 (fun t ht => hall t (List.mem_cons_of_mem _ ht)) hst⟩
        rw [i1]
        constructor
        · rintro (h | ⟨t, ht, h⟩)
          · exact Or.inl h
          · exact Or.inr ⟨t, List.mem_cons_of_mem _ ht, h⟩
        · rintro (h | ⟨t, ht, h⟩)
          · exact Or.inl h
          · rcases List.mem_cons.mp ht with e | e
            · subst e; exact absurd h hx
            · exact Or.inr ⟨t, e, h⟩
  obtain ⟨k1, k2, k3⟩ := key trees ((0 : Int), AWAKE_VAL) (Or.inl rfl) (le_refl _)
  refine ⟨?_, k2, fun h => k3 h rfl⟩
  rw [k1]
  constructor
  · rintro (h | h)
    · simp at h
    · exact h
  · exact Or.inr

theorem wakeOnly_ite (c : Prop) [Decidable c] {l1 l2 : List (Write K)} (h1 : WakeOnly l1) (h2 : WakeOnly l2) :
    WakeOnly (if c then l1 else l2) := by
  split
  · exact h1
  · exact h2

theorem wakeOnly_tendonWakeWrites (w n : Int) (a awake : Int → Int) (trees : List Int) (v : Int) (hv : v < 0) :
    WakeOnly (tendonWakeWrites (K := K) w n a awake trees v) := wakeOnly_map w _ v hv

theorem wakeOnly_eqBodyWrites (w n : Int) (a : Int → Int) (t1 t2 s1 s2 c1 c2 : Int) :
    WakeOnly (eqBodyWrites (K := K) w n a t1 t2 s1 s2 c1 c2) := by
  have hA : AWAKE_VAL < 0 := by decide
  unfold eqBodyWrites
  exact wakeOnly_ite _ wakeOnly_nil (wakeOnly_ite _ wakeOnly_nil (wakeOnly_ite _ wakeOnly_nil
    (wakeOnly_ite _ (wakeOnly_ite _ (wakeOnly_append (wakeOnly_wakeTreeWrites _ _ _ _ _ hA) (wakeOnly_wakeTreeWrites _ _ _ _ _ hA))
      wakeOnly_nil) (wakeOnly_wakeTreeWrites _ _ _ _ _ hA))))

/-! ### `_build_cycles` zeroes velocities and accelerations -/

section zero
variable [Scalar K]

def qvelZero (w c : Int) : Write K := Write.mk "qvel_out" [w, c] (WVal.f (Scalar.lit 0 0 : K)) WKind.set
def qaccZero (w c : Int) : Write K := Write.mk "qacc_out" [w, c] (WVal.f (Scalar.lit 0 0 : K)) WKind.set

theorem mem_zeroDofs (w adr num : Int) (x : Write K) :
    x ∈ zeroDofs w adr num ↔ ∃ d : Nat, (d : Int) < num ∧ (x = qvelZero w (adr + d) ∨ x = qaccZero w (adr + d)) := by
  unfold zeroDofs qvelZero qaccZero
  simp only [List.mem_flatMap, List.mem_range, List.mem_cons, List.not_mem_nil, or_false]
  constructor
  · rintro ⟨d, hd, h⟩; exact ⟨d, by omega, h⟩
  · rintro ⟨d, hd, h⟩; exact ⟨d, by omega, h⟩

theorem zeroDofs_sub_linkFrom (w : Int) (dofadr dofnum : Int → Int) (prev : Int) (ms : List Int) (m : Int) (hm : m ∈ ms) :
    ∀ x ∈ zeroDofs (K := K) w (dofadr m) (dofnum m), x ∈ linkFrom w dofadr dofnum prev ms := by
  induction ms generalizing prev with
  | nil => simp at hm
  | cons a l ih =>
    intro x hx
    rw [linkFrom]
    rcases List.mem_cons.mp hm with e | e
    · subst e
      exact List.mem_append_left _ (List.mem_append_right _ hx)
    · exact List.mem_append_right _ (ih a e x hx)

/-- shape of the writes of `_build_cycles`: stores into `tree_asleep_out`, and ZERO stores into `qvel_out` / `qacc_out` -/
def BuildShape (w : Int) (x : Write K) : Prop := (∃ c v, x = setAsleep w c v) ∨ (∃ c, x = qvelZero w c ∨ x = qaccZero w c)

theorem shape_zeroDofs (w adr num : Int) : ∀ x ∈ zeroDofs (K := K) w adr num, BuildShape w x := by
  intro x hx
  obtain ⟨d, -, h⟩ := (mem_zeroDofs w adr num x).mp hx
  exact Or.inr ⟨_, h⟩

theorem shape_linkFrom (w : Int) (dofadr dofnum : Int → Int) (prev : Int) (ms : List Int) :
    ∀ x ∈ linkFrom (K := K) w dofadr dofnum prev ms, BuildShape w x := by
  induction ms generalizing prev with
  | nil => intro x hx; simp [linkFrom] at hx
  | cons a l ih =>
    intro x hx
    rw [linkFrom] at hx
    rcases List.mem_append.mp hx with h | h
    · rcases List.mem_append.mp h with h' | h'
      · split at h'
        · simp only [List.mem_singleton] at h'; exact Or.inl ⟨_, _, h'⟩
        · simp at h'
      · exact shape_zeroDofs _ _ _ x h'
    · exact ih a x h

theorem shape_buildCyclesWrites (w : Int) (n : Nat) (nisl : Int) (dofadr dofnum island ics a : Int → Int) :
    ∀ x ∈ buildCyclesWrites (K := K) w n nisl dofadr dofnum island ics a, BuildShape w x := by
  intro x hx
  unfold buildCyclesWrites at hx
  rcases List.mem_append.mp hx with h | h
  · obtain ⟨i, -, hi⟩ := List.mem_flatMap.mp h
    unfold islandWrites at hi
    split at hi
    · rcases List.mem_append.mp hi with h' | h'
      · exact shape_linkFrom _ _ _ _ _ x h'
      · split at h'
        · simp only [List.mem_singleton] at h'; exact Or.inl ⟨_, _, h'⟩
        · simp at h'
    · simp at hi
  · obtain ⟨t, -, ht⟩ := List.mem_flatMap.mp h
    unfold phase2Writes at ht
    split at ht
    · rcases List.mem_append.mp ht with h' | h'
      · split at h'
        · simp only [List.mem_singleton] at h'; exact Or.inl ⟨_, _, h'⟩
        · simp at h'
      · split at h'
        · exact shape_zeroDofs _ _ _ x h'
        · simp at h'
    · simp at ht

/-- every dof of a tree that `_build_cycles` puts (or finds) asleep gets a zero store into `qvel` and `qacc` -/
theorem zero_mem_buildCyclesWrites (w : Int) (n : Nat) (nisl : Int) (dofadr dofnum island ics a : Int → Int) (t : Int)
    (ht0 : 0 ≤ t) (ht1 : t < n)
    (hcase : (0 ≤ island t ∧ island t < nisl ∧ ics (island t) = 1) ∨ ((island t < 0 ∨ island t ≥ nisl) ∧ (a t = -1 ∨ a t ≥ 0)))
    (d : Nat) (hd : (d : Int) < dofnum t) :
    qvelZero w (dofadr t + d) ∈ buildCyclesWrites (K := K) w n nisl dofadr dofnum island ics a ∧
    qaccZero w (dofadr t + d) ∈ buildCyclesWrites (K := K) w n nisl dofadr dofnum island ics a := by
  have hz : qvelZero w (dofadr t + d) ∈ zeroDofs (K := K) w (dofadr t) (dofnum t) ∧
      qaccZero w (dofadr t + d) ∈ zeroDofs (K := K) w (dofadr t) (dofnum t) :=
    ⟨(mem_zeroDofs _ _ _ _).mpr ⟨d, hd, Or.inl rfl⟩, (mem_zeroDofs _ _ _ _).mpr ⟨d, hd, Or.inr rfl⟩⟩
  unfold buildCyclesWrites
  rcases hcase with ⟨h0, h1, hc⟩ | ⟨hinv, hat⟩
  · have hsub : ∀ x ∈ zeroDofs (K := K) w (dofadr t) (dofnum t),
        x ∈ (List.range nisl.toNat).flatMap (fun (i : Nat) => islandWrites (K := K) w n dofadr dofnum island ics i) := by
      intro x hx
      apply List.mem_flatMap.mpr
      refine ⟨(island t).toNat, List.mem_range.mpr (by omega), ?_⟩
      have hi : (((island t).toNat : Nat) : Int) = island t := by omega
      rw [hi]
      unfold islandWrites
      rw [if_pos hc]
      apply List.mem_append_left
      exact zeroDofs_sub_linkFrom w dofadr dofnum (-1) _ t ((mem_members n island _ t).mpr ⟨ht0, ht1, rfl⟩) x hx
    exact ⟨List.mem_append_left _ (hsub _ hz.1), List.mem_append_left _ (hsub _ hz.2)⟩
  · have hsub : ∀ x ∈ zeroDofs (K := K) w (dofadr t) (dofnum t),
        x ∈ (List.range n).flatMap (fun (t : Nat) => phase2Writes (K := K) w nisl dofadr dofnum island a t) := by
      intro x hx
      apply List.mem_flatMap.mpr
      refine ⟨t.toNat, List.mem_range.mpr (by omega), ?_⟩
      have hi : ((t.toNat : Nat) : Int) = t := by omega
      rw [hi]
      unfold phase2Writes
      rw [if_pos hinv]
      apply List.mem_append_right
      rw [if_pos hat]
      exact hx
    exact ⟨List.mem_append_right _ (hsub _ hz.1), List.mem_append_right _ (hsub _ hz.2)⟩

end zero

end Mjw.Lemmas.C29
