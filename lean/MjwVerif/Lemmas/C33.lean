/-
  Helper lemmas for property C33 (set_const): loops of the generated kernels as sums / concatenations,
  literals, list round trips.
-/
import MjwVerif.Lemmas.Real
import MjwVerif.Model.Kernel

set_option linter.unusedVariables false
set_option linter.unusedSimpArgs false

namespace Mjw.Lemmas.C33
open Mjw

/-! ## literals -/

theorem lit0 : (Scalar.lit 0 0 : ℝ) = 0 := by simp only [slit]; norm_num
theorem lit1 : (Scalar.lit 1 0 : ℝ) = 1 := by simp only [slit]; norm_num
theorem lit2 : (Scalar.lit 2 0 : ℝ) = 2 := by simp only [slit]; norm_num
theorem litm1 : (Scalar.lit (-1) 0 : ℝ) = -1 := by simp only [slit]; norm_num
/-- `mujoco.mjMINVAL` / `MJ_MINVAL` -/
noncomputable def minval : ℝ := 1 / 10 ^ 15
theorem litMinval : (Scalar.lit 1 (-15) : ℝ) = minval := by
  simp only [slit, minval]; norm_num
theorem minval_pos : 0 < minval := by unfold minval; positivity
/-- Python's `wp.static(1.0 / 3.0)` is printed by the translator as the 16-digit decimal
    `0.3333333333333333` (over ℝ this is 1/3 − 1/(3·10¹⁶); in binary32 both round to the same float) -/
noncomputable def third : ℝ := 3333333333333333 / 10 ^ 16
theorem litThird : (Scalar.lit 3333333333333333 (-16) : ℝ) = third := by
  simp only [slit, third]; norm_num
theorem third_pos : 0 < third := by unfold third; positivity
theorem third_close : |third - 1 / 3| ≤ 1 / 10 ^ 16 := by
  unfold third
  rw [abs_le]; constructor <;> norm_num

/-! ## `forRange` loops -/

/-- an accumulating loop `s += f i` is `init + Σ` -/
theorem forRange_sum (n : Int) (init : ℝ) (f : Int → ℝ) :
    Mjw.forRange 0 n init (fun i s => s + f i) = init + ∑ k ∈ Finset.range n.toNat, f (k : Int) := by
  unfold Mjw.forRange
  rw [sub_zero]
  generalize n.toNat = m
  induction m with
  | zero => simp
  | succ m ih =>
    rw [List.range_succ, List.foldl_append, ih, Finset.sum_range_succ]
    simp only [List.foldl_cons, List.foldl_nil, Int.ofNat_eq_natCast, zero_add]
    ring

/-- a conditional accumulating loop -/
theorem forRange_sum_if (n : Int) (init : ℝ) (c : Int → Prop) [DecidablePred c] (f : Int → ℝ) :
    Mjw.forRange 0 n init (fun i s => if c i then s + f i else s)
      = init + ∑ k ∈ Finset.range n.toNat, (if c (k : Int) then f (k : Int) else 0) := by
  have : (fun (i : Int) (s : ℝ) => if c i then s + f i else s)
      = (fun (i : Int) (s : ℝ) => s + (if c i then f i else 0)) := by
    funext i s; split_ifs <;> simp
  rw [this, forRange_sum]

/-- a conditional accumulating loop, condition as the generated `Bool` test -/
theorem forRange_sum_ifb (n : Int) (init : ℝ) (c : Int → Bool) (f : Int → ℝ) :
    Mjw.forRange 0 n init (fun i s => if c i = true then s + f i else s)
      = init + ∑ k ∈ Finset.range n.toNat, (if c (k : Int) = true then f (k : Int) else 0) := by
  have : (fun (i : Int) (s : ℝ) => if c i = true then s + f i else s)
      = (fun (i : Int) (s : ℝ) => s + (if c i = true then f i else 0)) := by
    funext i s; split_ifs <;> simp
  rw [this, forRange_sum]

/-- a loop that appends the writes `g i` is the concatenation of the `g i` -/
theorem forRange_append {α : Type} (n : Int) (init : List α) (g : Int → List α) :
    Mjw.forRange 0 n init (fun i st => st ++ g i)
      = init ++ (List.range n.toNat).flatMap (fun (k : Nat) => g (Int.ofNat k)) := by
  unfold Mjw.forRange
  rw [sub_zero]
  generalize n.toNat = m
  induction m with
  | zero => simp
  | succ m ih =>
    rw [List.range_succ, List.foldl_append, ih, List.flatMap_append]
    simp only [List.foldl_cons, List.foldl_nil, Int.ofNat_eq_natCast, zero_add, List.flatMap_cons,
      List.flatMap_nil, List.append_nil, List.append_assoc]

/-- a loop that appends `a i` or `b i` depending on a test -/
theorem forRange_append_ite {α : Type} (n : Int) (init : List α) (c : Int → Bool) (a b : Int → List α) :
    Mjw.forRange 0 n init (fun i st => if c i = true then st ++ a i else st ++ b i)
      = init ++ (List.range n.toNat).flatMap
          (fun (k : Nat) => if c (Int.ofNat k) = true then a (Int.ofNat k) else b (Int.ofNat k)) := by
  have : (fun (i : Int) (st : List α) => if c i = true then st ++ a i else st ++ b i)
      = (fun (i : Int) (st : List α) => st ++ (if c i = true then a i else b i)) := by
    funext i st; split_ifs <;> rfl
  rw [this, forRange_append]

/-! ## list round trips -/

theorem V2_ofList_toList {K : Type} [Scalar K] (v : V2 K) : V2.ofList (V2.toList v) = v := rfl
theorem V3_ofList_toList {K : Type} [Scalar K] (v : V3 K) : V3.ofList (V3.toList v) = v := rfl
theorem V10_ofList_toList {K : Type} [Scalar K] (v : V10 K) : V10.ofList (V10.toList v) = v := rfl
theorem V11_ofList_toList {K : Type} [Scalar K] (v : V11 K) : V11.ofList (V11.toList v) = v := rfl

/-! ## closed forms used in the statements (MuJoCo `set0` formulas, with the translator's `1/3` literal) -/

/-- `dof_invweight0[d]` from the diagonal `A = diag(M⁻¹)` of the joint's dofs: FREE (0): mean of the 3
    translational / 3 rotational entries; BALL (1): mean of the 3; HINGE/SLIDE: the entry itself -/
noncomputable def dofInvweight (jtype dofadr d : Int) (A : Int → ℝ) : ℝ :=
  if jtype = 0 then
    (if d < dofadr + 3 then third * (A dofadr + A (dofadr + 1) + A (dofadr + 2))
     else third * (A (dofadr + 3) + A (dofadr + 4) + A (dofadr + 5)))
  else if jtype = 1 then third * (A dofadr + A (dofadr + 1) + A (dofadr + 2))
  else A d

/-- `body_invweight0[b]` from the diagonal `A` of the 6×6 matrix `J M⁻¹ Jᵀ`, with MuJoCo's fallback when exactly
    one of the two means is below `mjMINVAL` -/
noncomputable def bodyInvweight (A : Int → ℝ) : ℝ × ℝ :=
  if third * (A 0 + A 1 + A 2) < minval ∧ minval < third * (A 3 + A 4 + A 5) then
    (third * (A 3 + A 4 + A 5), third * (A 3 + A 4 + A 5))
  else if third * (A 3 + A 4 + A 5) < minval ∧ minval < third * (A 0 + A 1 + A 2) then
    (third * (A 0 + A 1 + A 2), third * (A 0 + A 1 + A 2))
  else (third * (A 0 + A 1 + A 2), third * (A 3 + A 4 + A 5))

theorem dofInvweight_nonneg (jtype dofadr d : Int) (A : Int → ℝ) (h : ∀ k, 0 ≤ A k) :
    0 ≤ dofInvweight jtype dofadr d A := by
  have h3 : ∀ a b c : Int, 0 ≤ third * (A a + A b + A c) := fun a b c =>
    mul_nonneg third_pos.le (add_nonneg (add_nonneg (h a) (h b)) (h c))
  unfold dofInvweight
  split_ifs
  · exact h3 _ _ _
  · exact h3 _ _ _
  · exact h3 _ _ _
  · exact h d

theorem bodyInvweight_nonneg (A : Int → ℝ) (h : ∀ k, 0 ≤ A k) :
    0 ≤ (bodyInvweight A).1 ∧ 0 ≤ (bodyInvweight A).2 := by
  have ht : 0 ≤ third * (A 0 + A 1 + A 2) :=
    mul_nonneg third_pos.le (add_nonneg (add_nonneg (h 0) (h 1)) (h 2))
  have hr : 0 ≤ third * (A 3 + A 4 + A 5) :=
    mul_nonneg third_pos.le (add_nonneg (add_nonneg (h 3) (h 4)) (h 5))
  unfold bodyInvweight
  split_ifs
  · exact ⟨hr, hr⟩
  · exact ⟨ht, ht⟩
  · exact ⟨ht, hr⟩

/-- MuJoCo's fallback: if exactly one of the two means is degenerate (< mjMINVAL) the other one is used for both -/
theorem bodyInvweight_fallback (A : Int → ℝ)
    (h : third * (A 0 + A 1 + A 2) < minval ∧ minval < third * (A 3 + A 4 + A 5)) :
    bodyInvweight A = (third * (A 3 + A 4 + A 5), third * (A 3 + A 4 + A 5)) := by
  unfold bodyInvweight; rw [if_pos h]

/-- reflected inertia of an actuator:`Σ_k dof_M0[col k] / moment_k²` over the CSR row entries with
    `|moment_k| > mjMINVAL` -/
noncomputable def reflectedMass (rownnz rowadr : Int) (colind : Int → Int) (moment M0 : Int → ℝ) : ℝ :=
  ∑ k ∈ Finset.range rownnz.toNat,
    (if minval < |moment (rowadr + (k : Int))| then
       M0 (colind (rowadr + (k : Int))) / (moment (rowadr + (k : Int)) * moment (rowadr + (k : Int)))
     else 0)

/-- the reflected-mass loop of `_resolve_dampratio`, verbatim and for every scalar type (tied to the generated
    kernel by `rfl` in Props/C33) -/
def dampMassK {K : Type} [Scalar K] (rownnz rowadr : Int) (colind : Int → Int) (moment M0 : Int → K) : K :=
  Mjw.forRange (0 : Int) rownnz (Scalar.lit 0 0 : K) (fun (k : Int) (st : K) =>
    if (Scalar.gt (Scalar.abs (moment (rowadr + k))) (Scalar.lit 1 (-15) : K)) then
      st + (M0 (colind (rowadr + k))) / ((moment (rowadr + k)) * (moment (rowadr + k)))
    else st)

theorem dampMassK_real (rownnz rowadr : Int) (colind : Int → Int) (moment M0 : Int → ℝ) :
    dampMassK rownnz rowadr colind moment M0 = reflectedMass rownnz rowadr colind moment M0 := by
  unfold dampMassK
  rw [lit0]
  refine (forRange_sum_ifb rownnz 0
    (fun k => Scalar.gt (Scalar.abs (moment (rowadr + k))) (Scalar.lit 1 (-15) : ℝ))
    (fun k => M0 (colind (rowadr + k)) / (moment (rowadr + k) * moment (rowadr + k)))).trans ?_
  rw [zero_add]
  unfold reflectedMass
  apply Finset.sum_congr rfl
  intro k _
  by_cases hc : minval < |moment (rowadr + (k : Int))|
  · have hb : Scalar.gt (Scalar.abs (moment (rowadr + (k : Int)))) (Scalar.lit 1 (-15) : ℝ) = true := by
      rw [sgt, litMinval]; exact hc
    rw [if_pos hb, if_pos hc]
  · have hb : ¬ (Scalar.gt (Scalar.abs (moment (rowadr + (k : Int)))) (Scalar.lit 1 (-15) : ℝ) = true) := by
      rw [sgt, litMinval]; exact hc
    rw [if_neg hb, if_neg hc]

theorem reflectedMass_nonneg (rownnz rowadr : Int) (colind : Int → Int) (moment M0 : Int → ℝ)
    (h : ∀ j, 0 ≤ M0 j) : 0 ≤ reflectedMass rownnz rowadr colind moment M0 := by
  unfold reflectedMass
  apply Finset.sum_nonneg
  intro k _
  split_ifs
  · exact div_nonneg (h _) (mul_self_nonneg _)
  · exact le_refl 0

/-- `range * gear`, swapped for non-positive gear -/
noncomputable def lengthRange (gear : ℝ) (rng : V2 ℝ) : V2 ℝ :=
  if 0 < gear then ⟨rng.c0 * gear, rng.c1 * gear⟩ else ⟨rng.c1 * gear, rng.c0 * gear⟩

theorem lengthRange_ordered (gear : ℝ) (rng : V2 ℝ) (h : rng.c0 ≤ rng.c1) :
    (lengthRange gear rng).c0 ≤ (lengthRange gear rng).c1 := by
  unfold lengthRange
  by_cases hg : 0 < gear
  · rw [if_pos hg]; exact mul_le_mul_of_nonneg_right h hg.le
  · rw [if_neg hg]; exact mul_le_mul_of_nonpos_right h (not_lt.mp hg)

/-- effect of one write of an `_accumulate_subtreemass` launch on row `row` of `body_subtreemass` (as a function of
    the body id): an atomic add to cell `[row, k]` adds the value; anything else leaves the row alone -/
noncomputable def applyAccF (row : Int) (c : Nat → ℝ) (x : Write ℝ) : Nat → ℝ :=
  match x.idx, x.val with
  | [r, k], WVal.f v =>
    if r = row ∧ x.kind = WKind.aadd ∧ x.arr = "body_subtreemass_io" then
      fun j => if (j : Int) = k then c j + v else c j
    else c
  | _, _ => c

/-! ## positive semidefinite solve -/

/-- if `r` solves `M r = J` (first `n` coordinates) and `M` is positive semidefinite, then
    `J · r = rᵀ M r ≥ 0`: the diagonal entry `J M⁻¹ Jᵀ` that set_const stores is non-negative. -/
theorem dot_solve_nonneg (n : Nat) (M : Nat → Nat → ℝ) (J r : Nat → ℝ)
    (hsolve : ∀ i, i < n → J i = ∑ j ∈ Finset.range n, M i j * r j)
    (hpsd : ∀ x : Nat → ℝ, 0 ≤ ∑ i ∈ Finset.range n, ∑ j ∈ Finset.range n, x i * M i j * x j) :
    0 ≤ ∑ i ∈ Finset.range n, J i * r i := by
  have h := hpsd r
  have e : ∑ i ∈ Finset.range n, J i * r i
      = ∑ i ∈ Finset.range n, ∑ j ∈ Finset.range n, r i * M i j * r j := by
    apply Finset.sum_congr rfl
    intro i hi
    rw [hsolve i (Finset.mem_range.mp hi), Finset.sum_mul]
    apply Finset.sum_congr rfl
    intro j _
    ring
  rw [e]; exact h

end Mjw.Lemmas.C33
