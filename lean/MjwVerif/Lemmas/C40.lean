/-
  Helper lemmas for property C40 (flex deformables).
-/
import MjwVerif.Lemmas.Real
import MjwVerif.Gen.Collision_flex
import MjwVerif.Gen.Support
import MjwVerif.Gen.Passive

set_option linter.unusedVariables false
set_option linter.unusedSimpArgs false

namespace Mjw.Lemmas.C40
open Mjw

/-! ## literals -/

theorem lit0 : (Scalar.lit 0 0 : ℝ) = 0 := by simp
theorem lit1 : (Scalar.lit 1 0 : ℝ) = 1 := by simp
theorem lit_half : (Scalar.lit 5 (-1) : ℝ) = 1 / 2 := by rw [slit]; norm_num
theorem lit_maxval : (Scalar.lit 1 10 : ℝ) = 10 ^ 10 := by rw [slit]; norm_num
theorem lit_minval : (Scalar.lit 1 (-15) : ℝ) = 1 / 10 ^ 15 := by
  rw [slit]; norm_num
theorem lit_mu : (Scalar.lit 1 (-5) : ℝ) = 1 / 10 ^ 5 := by
  rw [slit]; norm_num
theorem lit_tri : (Scalar.lit 1 (-12) : ℝ) = 1 / 10 ^ 12 := by
  rw [slit]; norm_num

/-! ## `forRange` as a fold over naturals -/

theorem forRange_zero {σ : Type} (lo : Int) (init : σ) (f : Int → σ → σ) : Mjw.forRange lo lo init f = init := by
  simp [Mjw.forRange]

/-- `forRange 0 n` for a natural `n`: one more iteration -/
theorem forRange_succ {σ : Type} (n : Nat) (init : σ) (f : Int → σ → σ) :
    Mjw.forRange 0 ((n : Int) + 1) init f = f n (Mjw.forRange 0 (n : Int) init f) := by
  unfold Mjw.forRange
  have h1 : (((n : Int) + 1 - 0).toNat) = n + 1 := by omega
  have h2 : (((n : Int) - 0).toNat) = n := by omega
  rw [h1, h2, List.range_succ, List.foldl_append]
  simp

theorem forRange_nonpos {σ : Type} (hi : Int) (h : hi ≤ 0) (init : σ) (f : Int → σ → σ) :
    Mjw.forRange 0 hi init f = init := by
  unfold Mjw.forRange
  have : (hi - 0).toNat = 0 := by omega
  rw [this]; rfl

/-- a loop whose state is a "found" flag triple with the generated break protocol:
    once `(true, true, true)` it stays; from `(false, false, false)` iteration `i` sets it iff `p i`. -/
theorem forRange_flag (n : Nat) (f : Int → (Bool × Bool × Bool) → (Bool × Bool × Bool)) (p : Int → Prop)
    [DecidablePred p]
    (habs : ∀ i, f i (true, true, true) = (true, true, true))
    (hstep : ∀ i, f i (false, false, false) = if p i then (true, true, true) else (false, false, false)) :
    Mjw.forRange 0 (n : Int) (false, false, false) f
      = if ∃ k : Nat, k < n ∧ p k then (true, true, true) else (false, false, false) := by
  induction n with
  | zero => simp [Mjw.forRange]
  | succ m ih =>
    have : ((m + 1 : Nat) : Int) = (m : Int) + 1 := by push_cast; ring
    rw [this, forRange_succ, ih]
    by_cases hex : ∃ k : Nat, k < m ∧ p k
    · rw [if_pos hex, habs]
      obtain ⟨k, hk, hp⟩ := hex
      rw [if_pos ⟨k, by omega, hp⟩]
    · rw [if_neg hex, hstep]
      by_cases hp : p m
      · rw [if_pos hp, if_pos ⟨m, by omega, hp⟩]
      · rw [if_neg hp, if_neg]
        rintro ⟨k, hk, hpk⟩
        rcases Nat.lt_succ_iff_lt_or_eq.mp hk with h | h
        · exact hex ⟨k, h, hpk⟩
        · subst h; exact hp hpk

/-! ## componentwise min / max folds -/

theorem vmin_le_left (a b : V3 ℝ) : (V3.vmin a b).c0 ≤ a.c0 ∧ (V3.vmin a b).c1 ≤ a.c1 ∧ (V3.vmin a b).c2 ≤ a.c2 := by
  simp only [V3.vmin, smin]; exact ⟨min_le_left _ _, min_le_left _ _, min_le_left _ _⟩
theorem vmin_le_right (a b : V3 ℝ) : (V3.vmin a b).c0 ≤ b.c0 ∧ (V3.vmin a b).c1 ≤ b.c1 ∧ (V3.vmin a b).c2 ≤ b.c2 := by
  simp only [V3.vmin, smin]; exact ⟨min_le_right _ _, min_le_right _ _, min_le_right _ _⟩
theorem le_vmax_left (a b : V3 ℝ) : a.c0 ≤ (V3.vmax a b).c0 ∧ a.c1 ≤ (V3.vmax a b).c1 ∧ a.c2 ≤ (V3.vmax a b).c2 := by
  simp only [V3.vmax, smax]; exact ⟨le_max_left _ _, le_max_left _ _, le_max_left _ _⟩
theorem le_vmax_right (a b : V3 ℝ) : b.c0 ≤ (V3.vmax a b).c0 ∧ b.c1 ≤ (V3.vmax a b).c1 ∧ b.c2 ≤ (V3.vmax a b).c2 := by
  simp only [V3.vmax, smax]; exact ⟨le_max_right _ _, le_max_right _ _, le_max_right _ _⟩

/-- componentwise `a ≤ b` -/
def V3le (a b : V3 ℝ) : Prop := a.c0 ≤ b.c0 ∧ a.c1 ≤ b.c1 ∧ a.c2 ≤ b.c2

theorem V3le_trans {a b c : V3 ℝ} (h1 : V3le a b) (h2 : V3le b c) : V3le a c :=
  ⟨h1.1.trans h2.1, h1.2.1.trans h2.2.1, h1.2.2.trans h2.2.2⟩

/-- the running (min, max) of the bounds loop of `_flex_broadphase_bounds` encloses every visited position -/
theorem minmax_fold (pos : Int → V3 ℝ) (n : Nat) (m0 M0 : V3 ℝ) :
    let r := Mjw.forRange 0 (n : Int) (m0, M0) (fun (i : Int) (st : V3 ℝ × V3 ℝ) =>
      (V3.vmin st.1 (pos i), V3.vmax st.2 (pos i)))
    V3le r.1 m0 ∧ V3le M0 r.2 ∧ ∀ k : Nat, k < n → V3le r.1 (pos k) ∧ V3le (pos k) r.2 := by
  induction n with
  | zero =>
    simp only [Nat.cast_zero, forRange_zero]
    exact ⟨⟨le_refl _, le_refl _, le_refl _⟩, ⟨le_refl _, le_refl _, le_refl _⟩, fun k hk => absurd hk (Nat.not_lt_zero k)⟩
  | succ m ih =>
    have : ((m + 1 : Nat) : Int) = (m : Int) + 1 := by push_cast; ring
    rw [this, forRange_succ]
    obtain ⟨h1, h2, h3⟩ := ih
    generalize Mjw.forRange 0 (m : Int) (m0, M0) _ = r at h1 h2 h3 ⊢
    refine ⟨V3le_trans (vmin_le_left _ _) h1, V3le_trans h2 (le_vmax_left _ _), ?_⟩
    intro k hk
    rcases Nat.lt_succ_iff_lt_or_eq.mp hk with h | h
    · exact ⟨V3le_trans (vmin_le_left _ _) (h3 k h).1, V3le_trans (h3 k h).2 (le_vmax_left _ _)⟩
    · subst h
      exact ⟨vmin_le_right _ _, le_vmax_right _ _⟩

/-! ## projections onto a direction -/

/-- `|d|·h ≥ d·x` whenever `|x| ≤ h` -/
theorem abs_mul_bound (d x h : ℝ) (hx : |x| ≤ h) : d * x ≤ |d| * h ∧ -(|d| * h) ≤ d * x := by
  have h0 : 0 ≤ |d| := abs_nonneg d
  have h1 : |d * x| ≤ |d| * h := by
    rw [abs_mul]; exact mul_le_mul_of_nonneg_left hx h0
  exact ⟨(le_abs_self _).trans h1, by linarith [neg_abs_le (d * x)]⟩

/-- for a unit vector the 1-norm is at least 1 -/
theorem one_le_abs_sum (a b c : ℝ) (h : a * a + b * b + c * c = 1) : 1 ≤ |a| + |b| + |c| := by
  have ha := abs_nonneg a; have hb := abs_nonneg b; have hc := abs_nonneg c
  have e1 : |a| * |a| = a * a := abs_mul_abs_self a
  have e2 : |b| * |b| = b * b := abs_mul_abs_self b
  have e3 : |c| * |c| = c * c := abs_mul_abs_self c
  nlinarith [mul_nonneg ha hb, mul_nonneg ha hc, mul_nonneg hb hc]

/-! ## net force of a write list (Newton's third law for `_apply_face_forces`) -/

/-- sum of the linear (first three) components of all vector-valued writes -/
def linSum : List (Write ℝ) → V3 ℝ
  | [] => ⟨0, 0, 0⟩
  | w :: ws =>
    let r := linSum ws
    match w.val with
    | WVal.v (x :: y :: z :: _) => ⟨x + r.c0, y + r.c1, z + r.c2⟩
    | _ => r

/-- the plane cull of `_flex_broadphase_plane`: a vertex inside the un-inflated box is at least `b` further from the
    plane than the cull's lower bound -/
theorem plane_cull_bound (lo hi v n g : V3 ℝ) (b : ℝ) (hb : 0 ≤ b)
    (hn : n.c0 * n.c0 + n.c1 * n.c1 + n.c2 * n.c2 = 1) (h1 : V3le lo v) (h2 : V3le v hi) :
    V3.dot (V3.sub (V3.smul (1 / 2) (V3.add (V3.sub lo ⟨b, b, b⟩) (V3.add hi ⟨b, b, b⟩))) g) n
      - (|(V3.smul (1 / 2) (V3.sub (V3.add hi ⟨b, b, b⟩) (V3.sub lo ⟨b, b, b⟩))).c0 * n.c0|
        + |(V3.smul (1 / 2) (V3.sub (V3.add hi ⟨b, b, b⟩) (V3.sub lo ⟨b, b, b⟩))).c1 * n.c1|
        + |(V3.smul (1 / 2) (V3.sub (V3.add hi ⟨b, b, b⟩) (V3.sub lo ⟨b, b, b⟩))).c2 * n.c2|) + b
      ≤ V3.dot (V3.sub v g) n := by
  obtain ⟨l0, l1, l2⟩ := lo; obtain ⟨u0, u1, u2⟩ := hi; obtain ⟨v0, v1, v2⟩ := v
  obtain ⟨n0, n1, n2⟩ := n; obtain ⟨g0, g1, g2⟩ := g
  obtain ⟨a0, a1, a2⟩ := h1; obtain ⟨c0, c1, c2⟩ := h2
  simp only [V3.dot, V3.sub, V3.add, V3.smul, hadd, hsub, hmul] at *
  have hs := one_le_abs_sum n0 n1 n2 hn
  have e0 : |1 / 2 * (u0 + b - (l0 - b)) * n0| = ((u0 - l0) / 2 + b) * |n0| := by
    rw [abs_mul, abs_of_nonneg (by linarith)]; ring
  have e1 : |1 / 2 * (u1 + b - (l1 - b)) * n1| = ((u1 - l1) / 2 + b) * |n1| := by
    rw [abs_mul, abs_of_nonneg (by linarith)]; ring
  have e2 : |1 / 2 * (u2 + b - (l2 - b)) * n2| = ((u2 - l2) / 2 + b) * |n2| := by
    rw [abs_mul, abs_of_nonneg (by linarith)]; ring
  rw [e0, e1, e2]
  have b0 := (abs_mul_bound n0 (v0 - (l0 + u0) / 2) ((u0 - l0) / 2) (by rw [abs_le]; constructor <;> linarith)).2
  have b1 := (abs_mul_bound n1 (v1 - (l1 + u1) / 2) ((u1 - l1) / 2) (by rw [abs_le]; constructor <;> linarith)).2
  have b2 := (abs_mul_bound n2 (v2 - (l2 + u2) / 2) ((u2 - l2) / 2) (by rw [abs_le]; constructor <;> linarith)).2
  have p0 := abs_nonneg n0; have p1 := abs_nonneg n1; have p2 := abs_nonneg n2
  nlinarith [mul_nonneg hb p0, mul_nonneg hb p1, mul_nonneg hb p2, mul_le_mul_of_nonneg_left hs hb]


theorem forRange_three {σ : Type} (init : σ) (f : Int → σ → σ) : Mjw.forRange 0 3 init f = f 2 (f 1 (f 0 init)) := by
  simp [Mjw.forRange, List.range_succ]


/-! ## bit operations on the eight node indices -/

theorem iand_facts : Mjw.iand 0 1 = 0 ∧ Mjw.iand 1 1 = 1 ∧ Mjw.iand 2 1 = 0 ∧ Mjw.iand 3 1 = 1 ∧ Mjw.iand 4 1 = 0 ∧ Mjw.iand 5 1 = 1
   ∧ Mjw.iand 6 1 = 0 ∧ Mjw.iand 7 1 = 1 := by decide
theorem ishr_facts : Mjw.ishr 0 1 = 0 ∧ Mjw.ishr 1 1 = 0 ∧ Mjw.ishr 2 1 = 1 ∧ Mjw.ishr 3 1 = 1 ∧ Mjw.ishr 4 1 = 2 ∧ Mjw.ishr 5 1 = 2
   ∧ Mjw.ishr 6 1 = 3 ∧ Mjw.ishr 7 1 = 3 ∧ Mjw.ishr 0 2 = 0 ∧ Mjw.ishr 1 2 = 0 ∧ Mjw.ishr 2 2 = 0 ∧ Mjw.ishr 3 2 = 0 ∧ Mjw.ishr 4 2 = 1 ∧ Mjw.ishr 5 2 = 1
   ∧ Mjw.ishr 6 2 = 1 ∧ Mjw.ishr 7 2 = 1 := by decide



/-! ## stage 3 of `_flex_broadphase`: geometry, K-generic core of the kernel, soundness -/

open Mjw.Gen.Collision_flex

/-- Cauchy–Schwarz in ℝ³ -/
theorem dot_sq_le (a b : V3 ℝ) : (V3.dot a b) ^ 2 ≤ V3.dot a a * V3.dot b b := by
  obtain ⟨a0, a1, a2⟩ := a; obtain ⟨b0, b1, b2⟩ := b
  simp only [V3.dot, hadd, hmul]
  nlinarith [sq_nonneg (a0 * b1 - a1 * b0), sq_nonneg (a0 * b2 - a2 * b0), sq_nonneg (a1 * b2 - a2 * b1)]

theorem dot_self_nonneg (a : V3 ℝ) : 0 ≤ V3.dot a a := by
  obtain ⟨a0, a1, a2⟩ := a
  simp only [V3.dot, hadd, hmul]
  nlinarith [mul_self_nonneg a0, mul_self_nonneg a1, mul_self_nonneg a2]

/-- `wp.normalize` gives a unit vector or zero -/
theorem normalize_unit_or_zero (c : V3 ℝ) :
    V3.dot (V3.normalize c) (V3.normalize c) = 1 ∨ V3.normalize c = ⟨0, 0, 0⟩ := by
  obtain ⟨c0, c1, c2⟩ := c
  simp only [V3.normalize, V3.length, V3.dot, ssqrt, slt, lit0, hadd, hmul, hdiv]
  have hnn : 0 ≤ c0 * c0 + c1 * c1 + c2 * c2 := by nlinarith [mul_self_nonneg c0, mul_self_nonneg c1, mul_self_nonneg c2]
  have hs : Real.sqrt (c0 * c0 + c1 * c1 + c2 * c2) * Real.sqrt (c0 * c0 + c1 * c1 + c2 * c2) = c0 * c0 + c1 * c1 + c2 * c2 :=
    Real.mul_self_sqrt hnn
  generalize Real.sqrt (c0 * c0 + c1 * c1 + c2 * c2) = s at hs ⊢
  by_cases h : 0 < s
  · left
    simp only [h, if_true]
    have hne : s ≠ 0 := ne_of_gt h
    field_simp
    nlinarith [hs]
  · right
    simp [h, V3.zero, V3.fill]

/-- distance of a point of a ball around `g` from a point of the plane through `t` with (unit or zero) normal `n` -/
theorem plane_ball_separation (q g x t n : V3 ℝ) (rext mr : ℝ) (hr : 0 ≤ rext)
    (hn : V3.dot n n = 1 ∨ n = ⟨0, 0, 0⟩)
    (hq : V3.dot (V3.sub q g) (V3.sub q g) ≤ rext ^ 2)
    (hx : V3.dot (V3.sub x t) n = 0)
    (hc : rext + mr < |V3.dot (V3.sub g t) n|) :
    mr < V3.length (V3.sub q x) := by
  have hlen : 0 ≤ V3.length (V3.sub q x) := by simp only [V3.length, ssqrt]; exact Real.sqrt_nonneg _
  rcases hn with hn | hn
  · -- unit normal
    have e : V3.dot (V3.sub g t) n = V3.dot (V3.sub q x) n - V3.dot (V3.sub q g) n := by
      obtain ⟨q0, q1, q2⟩ := q; obtain ⟨g0, g1, g2⟩ := g; obtain ⟨x0, x1, x2⟩ := x
      obtain ⟨t0, t1, t2⟩ := t; obtain ⟨n0, n1, n2⟩ := n
      simp only [V3.dot, V3.sub, hadd, hsub, hmul] at hx ⊢
      linarith
    have c1 := dot_sq_le (V3.sub q x) n
    have c2 := dot_sq_le (V3.sub q g) n
    rw [hn, mul_one] at c1 c2
    have a1 : |V3.dot (V3.sub q g) n| ≤ rext := by
      exact abs_le.mpr (abs_le_of_sq_le_sq' (le_trans c2 hq) hr)
    have a2 : |V3.dot (V3.sub q x) n| ≤ V3.length (V3.sub q x) := by
      simp only [V3.length, ssqrt]
      exact Real.abs_le_sqrt c1
    rw [e] at hc
    have := abs_sub (V3.dot (V3.sub q x) n) (V3.dot (V3.sub q g) n)
    linarith
  · subst hn
    have : V3.dot (V3.sub g t) (⟨0, 0, 0⟩ : V3 ℝ) = 0 := by simp [V3.dot]
    rw [this, abs_zero] at hc
    linarith

/-- the body of `_flex_broadphase` after its array reads (K-generic copy, tied to the generated kernel by `rfl` in
    `flex_broadphase_eq_core`) -/
def bpCore {K : Type} [Scalar K] (gtype : Int) (geom_margin_val tri_margin tri_radius : K)
    (geom_center_local geom_half_size_local geom_pos : V3 K) (geom_rot : M33 K)
    (t1 t2 t3 flex_aabb_min_val flex_aabb_max_val : V3 K) (naconmax_in alloc0 worldid tri_id geomid : Int) : List (Write K) :=
  let ws : List (Write K) := []
  if ((decide (gtype ≠ (2 : Int))) && (decide (gtype ≠ (3 : Int))) && (decide (gtype ≠ (6 : Int))) && (decide (gtype ≠ (5 : Int))) && (decide (gtype ≠ (7 : Int))) && (decide (gtype ≠ (4 : Int)))) then
    ws
  else
    let margin : K := (geom_margin_val + tri_margin)
    let geom_center_global : V3 K := (V3.add (M33.mulVec geom_rot geom_center_local) geom_pos)
    let geom_half_size_global : V3 K := (⟨((((Scalar.abs geom_rot.m00) * geom_half_size_local.c0) + ((Scalar.abs geom_rot.m01) * geom_half_size_local.c1)) + ((Scalar.abs geom_rot.m02) * geom_half_size_local.c2)), ((((Scalar.abs geom_rot.m10) * geom_half_size_local.c0) + ((Scalar.abs geom_rot.m11) * geom_half_size_local.c1)) + ((Scalar.abs geom_rot.m12) * geom_half_size_local.c2)), ((((Scalar.abs geom_rot.m20) * geom_half_size_local.c0) + ((Scalar.abs geom_rot.m21) * geom_half_size_local.c1)) + ((Scalar.abs geom_rot.m22) * geom_half_size_local.c2))⟩ : V3 K)
    let inflate : V3 K := (⟨margin, margin, margin⟩ : V3 K)
    let geom_box_min : V3 K := (V3.sub (V3.sub geom_center_global geom_half_size_global) inflate)
    let geom_box_max : V3 K := (V3.add (V3.add geom_center_global geom_half_size_global) inflate)
    if (Mjw.Gen.Collision_flex._flex_element_aabb_filter (K := K) geom_box_min geom_box_max flex_aabb_min_val flex_aabb_max_val) then
      ws
    else
      let tri_min : V3 K := (V3.sub (V3.vmin t1 (V3.vmin t2 t3)) (⟨tri_radius, tri_radius, tri_radius⟩ : V3 K))
      let tri_max : V3 K := (V3.add (V3.vmax t1 (V3.vmax t2 t3)) (⟨tri_radius, tri_radius, tri_radius⟩ : V3 K))
      if (Mjw.Gen.Collision_flex._flex_element_aabb_filter (K := K) geom_box_min geom_box_max tri_min tri_max) then
        ws
      else
        let normal : V3 K := (V3.normalize (V3.cross (V3.sub t2 t1) (V3.sub t3 t1)))
        let signed_dist : K := (V3.dot (V3.sub geom_pos t1) normal)
        let r_extent : K := (Scalar.lit 0 0 : K)
        let r_extent :=
          if (decide (gtype = (2 : Int))) then
            let r_extent : K := geom_half_size_local.c0
            r_extent
          else
            let r_extent :=
              if (decide (gtype = (3 : Int))) then
                let r_extent : K := geom_half_size_local.c2
                r_extent
              else
                let r_extent :=
                  if (decide (gtype = (5 : Int))) then
                    let r_extent : K := (Scalar.sqrt ((geom_half_size_local.c0 * geom_half_size_local.c0) + (geom_half_size_local.c2 * geom_half_size_local.c2)))
                    r_extent
                  else
                    let r_extent :=
                      if (decide (gtype = (6 : Int))) then
                        let r_extent : K := (V3.length geom_half_size_local)
                        r_extent
                      else
                        let r_extent :=
                          if (decide (gtype = (7 : Int))) then
                            let r_extent : K := (V3.length geom_half_size_local)
                            r_extent
                          else
                            let r_extent :=
                              if (decide (gtype = (4 : Int))) then
                                let r_extent : K := (V3.length geom_half_size_local)
                                r_extent
                              else
                                r_extent
                            r_extent
                        r_extent
                    r_extent
                r_extent
            r_extent
        if (Scalar.gt (Scalar.abs signed_dist) ((r_extent + margin) + tri_radius)) then
          ws
        else
          let ws : List (Write K) := ws ++ [(Write.mk "ncollision_out" [(0 : Int)] (WVal.i (1 : Int)) WKind.alloc : Write K)]
          let idx : Int := alloc0
          if (decide (idx ≥ naconmax_in)) then
            let ws : List (Write K) := ws ++ [(Write.mk "overflow_out" [worldid] (WVal.i (4 : Int)) WKind.aor : Write K)]
            ws
          else
            let ws : List (Write K) := ws ++ [(Write.mk "collision_pair_out" [idx] (WVal.iv (I2.toList (⟨tri_id, geomid⟩ : I2))) WKind.set : Write K)]
            let ws : List (Write K) := ws ++ [(Write.mk "collision_worldid_out" [idx] (WVal.i worldid) WKind.set : Write K)]
            ws

theorem flex_broadphase_eq_core {K : Type} [Scalar K] (gt : Int → Int) (aabb : Int → Int → Int → V3 K) (gm : Int → Int → K)
    (fm : Int → K) (vadr : Int → Int) (fr : Int → K) (gx : Int → Int → V3 K) (gR : Int → Int → M33 K)
    (vx : Int → Int → V3 K) (nmax : Int) (amin amax : Int → Int → V3 K) (triadr tridata tri : Int → Int)
    (pairs : Int → I2) (tflex : Int → Int) (nc ov : Int → Int) (cp : Int → I2) (cw : Int → Int) (s0 s1 slot : Int)
    (warn : Bool) (w p : Int) :
    _flex_broadphase__kernel gt aabb gm fm vadr fr gx gR vx nmax amin amax triadr tridata tri pairs tflex nc ov cp cw
        s0 s1 slot warn w p
      = bpCore (gt (pairs p).c1) (gm (Int.tmod w s0) (pairs p).c1) (fm (tflex (pairs p).c0)) (fr (tflex (pairs p).c0))
          (aabb (Int.tmod w s1) (pairs p).c1 0) (aabb (Int.tmod w s1) (pairs p).c1 1) (gx w (pairs p).c1) (gR w (pairs p).c1)
          (vx w (vadr (tflex (pairs p).c0) + tri (tridata (tflex (pairs p).c0) + ((pairs p).c0 - triadr (tflex (pairs p).c0)) * 3)))
          (vx w (vadr (tflex (pairs p).c0) + tri (tridata (tflex (pairs p).c0) + ((pairs p).c0 - triadr (tflex (pairs p).c0)) * 3 + 1)))
          (vx w (vadr (tflex (pairs p).c0) + tri (tridata (tflex (pairs p).c0) + ((pairs p).c0 - triadr (tflex (pairs p).c0)) * 3 + 2)))
          (amin w (tflex (pairs p).c0)) (amax w (tflex (pairs p).c0)) nmax slot w (pairs p).c0 (pairs p).c1 := rfl

/-- the bounding radius stage 3 of `_flex_broadphase` uses, from the geom type and the half sizes of the local AABB -/
noncomputable def rExtent (gtype : Int) (h : V3 ℝ) : ℝ :=
  if gtype = 2 then h.c0 else if gtype = 3 then h.c2
  else if gtype = 5 then Real.sqrt (h.c0 * h.c0 + h.c2 * h.c2)
  else if gtype = 6 then V3.length h else if gtype = 7 then V3.length h else if gtype = 4 then V3.length h else 0

/-- world AABB of the geom as stages 1/2 compute it (centre `R c + p`, half sizes `|R| h`, inflated by the margin) -/
noncomputable def geomBox (R : M33 ℝ) (c h p : V3 ℝ) (m : ℝ) : V3 ℝ × V3 ℝ :=
  (V3.sub (V3.sub (V3.add (M33.mulVec R c) p) ⟨|R.m00| * h.c0 + |R.m01| * h.c1 + |R.m02| * h.c2,
      |R.m10| * h.c0 + |R.m11| * h.c1 + |R.m12| * h.c2, |R.m20| * h.c0 + |R.m21| * h.c1 + |R.m22| * h.c2⟩) ⟨m, m, m⟩,
   V3.add (V3.add (V3.add (M33.mulVec R c) p) ⟨|R.m00| * h.c0 + |R.m01| * h.c1 + |R.m02| * h.c2,
      |R.m10| * h.c0 + |R.m11| * h.c1 + |R.m12| * h.c2, |R.m20| * h.c0 + |R.m21| * h.c1 + |R.m22| * h.c2⟩) ⟨m, m, m⟩)

theorem bpCore_sound (gtype : Int) (gmv fmv frv : ℝ) (c h gpos : V3 ℝ) (R : M33 ℝ) (t1 t2 t3 amn amx : V3 ℝ)
    (nmax slot w tid g : Int) (q x : V3 ℝ)
    (hr : 0 ≤ rExtent gtype h)
    (hq : V3.dot (V3.sub q gpos) (V3.sub q gpos) ≤ rExtent gtype h ^ 2)
    (hx : V3.dot (V3.sub x t1) (V3.normalize (V3.cross (V3.sub t2 t1) (V3.sub t3 t1))) = 0)
    (hk : bpCore gtype gmv fmv frv c h gpos R t1 t2 t3 amn amx nmax slot w tid g = []) :
    (gtype ≠ 2 ∧ gtype ≠ 3 ∧ gtype ≠ 6 ∧ gtype ≠ 5 ∧ gtype ≠ 7 ∧ gtype ≠ 4) ∨
    _flex_element_aabb_filter (geomBox R c h gpos (gmv + fmv)).1 (geomBox R c h gpos (gmv + fmv)).2 amn amx = true ∨
    _flex_element_aabb_filter (geomBox R c h gpos (gmv + fmv)).1 (geomBox R c h gpos (gmv + fmv)).2
      (V3.sub (V3.vmin t1 (V3.vmin t2 t3)) ⟨frv, frv, frv⟩) (V3.add (V3.vmax t1 (V3.vmax t2 t3)) ⟨frv, frv, frv⟩) = true ∨
    (gmv + fmv) + frv < V3.length (V3.sub q x) := by
  by_cases hb : (gtype ≠ 2 ∧ gtype ≠ 3 ∧ gtype ≠ 6 ∧ gtype ≠ 5 ∧ gtype ≠ 7 ∧ gtype ≠ 4)
  · left; exact hb
  right
  by_cases h1 : _flex_element_aabb_filter (geomBox R c h gpos (gmv + fmv)).1 (geomBox R c h gpos (gmv + fmv)).2 amn amx = true
  · left; exact h1
  right
  by_cases h2 : _flex_element_aabb_filter (geomBox R c h gpos (gmv + fmv)).1 (geomBox R c h gpos (gmv + fmv)).2
      (V3.sub (V3.vmin t1 (V3.vmin t2 t3)) ⟨frv, frv, frv⟩) (V3.add (V3.vmax t1 (V3.vmax t2 t3)) ⟨frv, frv, frv⟩) = true
  · left; exact h2
  right
  have hcull : rExtent gtype h + ((gmv + fmv) + frv)
      < |V3.dot (V3.sub gpos t1) (V3.normalize (V3.cross (V3.sub t2 t1) (V3.sub t3 t1)))| := by
    by_contra hnc
    have hb' : ((decide (gtype ≠ 2)) && (decide (gtype ≠ 3)) && (decide (gtype ≠ 6)) && (decide (gtype ≠ 5)) && (decide (gtype ≠ 7)) && (decide (gtype ≠ 4))) = false := by
      rw [Bool.eq_false_iff]; intro hh
      simp only [Bool.and_eq_true, decide_eq_true_eq] at hh
      exact hb ⟨hh.1.1.1.1.1, hh.1.1.1.1.2, hh.1.1.1.2, hh.1.1.2, hh.1.2, hh.2⟩
    have hre : (if decide (gtype = 2) = true then h.c0 else if decide (gtype = 3) = true then h.c2
        else if decide (gtype = 5) = true then Scalar.sqrt (h.c0 * h.c0 + h.c2 * h.c2)
        else if decide (gtype = 6) = true then V3.length h else if decide (gtype = 7) = true then V3.length h
        else if decide (gtype = 4) = true then V3.length h else (Scalar.lit 0 0 : ℝ)) = rExtent gtype h := by
      unfold rExtent
      simp only [decide_eq_true_eq, ssqrt, lit0]
    unfold bpCore at hk
    simp only [geomBox] at h1 h2
    simp only [hb', Bool.false_eq_true, if_false, hadd, hmul, sabs, h1, h2, hre, sgt] at hk
    rw [if_neg (by linarith)] at hk
    split_ifs at hk <;> exact absurd hk (by simp)
  exact plane_ball_separation q gpos x t1 _ _ _ hr (normalize_unit_or_zero _) hq hx hcull

/-! ### the bounding radius dominates the distance of every geom point from the geom centre -/

theorem rExtent_nonneg (gtype : Int) (h : V3 ℝ) (h0 : 0 ≤ h.c0) (h2 : 0 ≤ h.c2) : 0 ≤ rExtent gtype h := by
  unfold rExtent
  simp only [V3.length, ssqrt]
  split_ifs <;> first | assumption | exact Real.sqrt_nonneg _ | exact le_refl _

/-- sphere of radius `r` (local AABB half sizes (r, r, r)) -/
theorem rExtent_sphere (h p : V3 ℝ) (hp : V3.dot p p ≤ h.c0 ^ 2) : V3.dot p p ≤ rExtent 2 h ^ 2 := by
  simpa [rExtent] using hp

/-- capsule of radius `r`, half length `l` along local z (local AABB half sizes (r, r, r + l)): a point `a·e_z + s` with
    `|a| ≤ l`, `|s| ≤ r` -/
theorem rExtent_capsule (r l a : ℝ) (s : V3 ℝ) (hr : 0 ≤ r) (hl : 0 ≤ l) (ha : |a| ≤ l) (hs : V3.dot s s ≤ r ^ 2) :
    V3.dot (⟨s.c0, s.c1, a + s.c2⟩ : V3 ℝ) ⟨s.c0, s.c1, a + s.c2⟩ ≤ rExtent 3 ⟨r, r, r + l⟩ ^ 2 := by
  obtain ⟨s0, s1, s2⟩ := s
  simp only [V3.dot, hadd, hmul] at hs ⊢
  have e : rExtent 3 ⟨r, r, r + l⟩ = r + l := by simp [rExtent]
  rw [e]
  obtain ⟨a1, a2⟩ := abs_le.mp ha
  have hs2 : |s2| ≤ r := by
    apply abs_le_of_sq_le_sq' _ hr |> fun h => abs_le.mpr h
    nlinarith [mul_self_nonneg s0, mul_self_nonneg s1]
  obtain ⟨b1, b2⟩ := abs_le.mp hs2
  nlinarith [mul_nonneg hr hl, mul_self_nonneg s0, mul_self_nonneg s1]

/-- cylinder of radius `r`, half length `l` (local AABB half sizes (r, r, l)) -/
theorem rExtent_cylinder (r l : ℝ) (p : V3 ℝ) (hl : 0 ≤ l) (hp : p.c0 * p.c0 + p.c1 * p.c1 ≤ r ^ 2) (hz : |p.c2| ≤ l) :
    V3.dot p p ≤ rExtent 5 ⟨r, r, l⟩ ^ 2 := by
  obtain ⟨p0, p1, p2⟩ := p
  simp only [V3.dot, hadd, hmul] at hp hz ⊢
  have e : rExtent 5 ⟨r, r, l⟩ ^ 2 = r * r + l * l := by
    simp only [rExtent]
    norm_num
    exact Real.sq_sqrt (by nlinarith [mul_self_nonneg r, mul_self_nonneg l])
  rw [e]
  obtain ⟨a1, a2⟩ := abs_le.mp hz
  nlinarith

/-- box / ellipsoid / mesh inside the local AABB with half sizes `h` centred at the geom frame -/
theorem rExtent_box (gtype : Int) (hg : gtype = 6 ∨ gtype = 7 ∨ gtype = 4) (h p : V3 ℝ)
    (h0 : |p.c0| ≤ h.c0) (h1 : |p.c1| ≤ h.c1) (h2 : |p.c2| ≤ h.c2) : V3.dot p p ≤ rExtent gtype h ^ 2 := by
  obtain ⟨p0, p1, p2⟩ := p; obtain ⟨x0, x1, x2⟩ := h
  have e : rExtent gtype ⟨x0, x1, x2⟩ ^ 2 = x0 * x0 + x1 * x1 + x2 * x2 := by
    have : rExtent gtype ⟨x0, x1, x2⟩ = Real.sqrt (x0 * x0 + x1 * x1 + x2 * x2) := by
      rcases hg with h | h | h <;> subst h <;> simp [rExtent, V3.length, V3.dot]
    rw [this]
    exact Real.sq_sqrt (by nlinarith [mul_self_nonneg x0, mul_self_nonneg x1, mul_self_nonneg x2])
  rw [e]
  simp only [V3.dot, hadd, hmul] at h0 h1 h2 ⊢
  obtain ⟨a1, a2⟩ := abs_le.mp h0; obtain ⟨b1, b2⟩ := abs_le.mp h1; obtain ⟨c1, c2⟩ := abs_le.mp h2
  nlinarith

/-- a rotation (orthonormal columns) preserves the distance from the geom centre: `|R p + c − c| = |p|` -/
theorem rot_preserves (R : M33 ℝ) (p c : V3 ℝ)
    (h00 : R.m00 * R.m00 + R.m10 * R.m10 + R.m20 * R.m20 = 1) (h11 : R.m01 * R.m01 + R.m11 * R.m11 + R.m21 * R.m21 = 1)
    (h22 : R.m02 * R.m02 + R.m12 * R.m12 + R.m22 * R.m22 = 1) (h01 : R.m00 * R.m01 + R.m10 * R.m11 + R.m20 * R.m21 = 0)
    (h02 : R.m00 * R.m02 + R.m10 * R.m12 + R.m20 * R.m22 = 0) (h12 : R.m01 * R.m02 + R.m11 * R.m12 + R.m21 * R.m22 = 0) :
    V3.dot (V3.sub (V3.add (M33.mulVec R p) c) c) (V3.sub (V3.add (M33.mulVec R p) c) c) = V3.dot p p := by
  obtain ⟨p0, p1, p2⟩ := p; obtain ⟨c0, c1, c2⟩ := c
  simp only [V3.dot, V3.sub, V3.add, M33.mulVec, hadd, hsub, hmul]
  linear_combination (p0 * p0) * h00 + (p1 * p1) * h11 + (p2 * p2) * h22 + (2 * p0 * p1) * h01 + (2 * p0 * p2) * h02
    + (2 * p1 * p2) * h12

end Mjw.Lemmas.C40
