/-
  SAP lemmas for Props/C18: everything here is about the hand-written model `MjwVerif/Model/Sap.lean`
  (transcription of `sap_binary_search`, `sap_range`, the inclusive scan and the work-index decoding / stride
  loop of `_sap_broadphase`).  Generic in the key type `α` and the comparison `gt` (the code's `>`).

  * `ishr_one`            : `(lower + upper) >> 1` on int32 is `/ 2` below 2³¹
  * `bs_loop`             : loop invariant / result of `sap_binary_search`
  * `range_spec`          : `sap_range`: 0 ≤ range, i + range ≤ n − 1, and which `j` are inside the range
  * `decodeFlat_spec/_of` : decoding a flat work index through the cumulative sums, and its inverse
  * `threadWork_spec`, `allWork_perm` : the stride loop partitions `[0, W)` over the `nsweep` threads
  * `decode_*`, `enumeratedWork_*`   : the same with the `// ngeom`, `% ngeom` world split; exactly-once
-/
import MjwVerif.Model.Sap
import Mathlib.Tactic.Linarith
import Mathlib.Tactic.Ring
import Mathlib.Data.List.Nodup
import Mathlib.Data.List.Perm.Basic

set_option linter.unusedVariables false

namespace Mjw.C18L
open Mjw Mjw.Sap

theorem ishr_one (x : Int) (h0 : 0 ≤ x) (h1 : x < 2^31) : Mjw.ishr x 1 = x / 2 := by
  unfold Mjw.ishr
  rw [BitVec.toInt_sshiftRight, BitVec.toInt_ofInt]
  have : x.bmod (2^32) = x := by
    apply Int.bmod_eq_of_le <;> omega
  rw [this, Int.shiftRight_eq_div_pow]
  rfl

theorem binarySearch_of_ge {α : Type} (gt : α → α → Bool) (values : Int → α) (value : α) (lo hi : Int)
    (h : hi ≤ lo) (fuel : Nat) : binarySearch gt values value lo hi fuel = hi := by
  have hn : ¬ lo < hi := by omega
  cases fuel <;> simp [binarySearch, Mjw.whileFuel, hn]

/-- loop invariant of `sap_binary_search` -/
theorem bs_loop {α : Type} (gt : α → α → Bool) (values : Int → α) (value : α) :
    ∀ (fuel : Nat) (lo hi : Int), 0 ≤ lo → lo ≤ hi → hi ≤ 2^30 → (hi - lo).toNat ≤ fuel →
      (∀ a b, lo ≤ a → a ≤ b → b < hi → gt (values a) value = true → gt (values b) value = true) →
      lo ≤ binarySearch gt values value lo hi fuel ∧ binarySearch gt values value lo hi fuel ≤ hi ∧
      (∀ k, lo ≤ k → k < binarySearch gt values value lo hi fuel → gt (values k) value = false) ∧
      (∀ k, binarySearch gt values value lo hi fuel ≤ k → k < hi → gt (values k) value = true) := by
  intro fuel
  induction fuel with
  | zero =>
    intro lo hi h0 hle hhi hf hmono
    have : lo = hi := by omega
    subst this
    rw [binarySearch_of_ge gt values value lo lo (le_refl _)]
    refine ⟨le_refl _, le_refl _, ?_, ?_⟩ <;> intro k h1 h2 <;> omega
  | succ f ih =>
    intro lo hi h0 hle hhi hf hmono
    by_cases hlt : lo < hi
    · have hmid : Mjw.ishr (lo + hi) 1 = (lo + hi) / 2 := ishr_one _ (by omega) (by omega)
      have hm1 : lo ≤ (lo + hi) / 2 := by omega
      have hm2 : (lo + hi) / 2 < hi := by omega
      by_cases hP : gt (values ((lo + hi) / 2)) value = true
      · have e : binarySearch gt values value lo hi (f + 1) = binarySearch gt values value lo ((lo + hi) / 2) f := by
          simp only [binarySearch, Mjw.whileFuel, hlt, decide_true, if_true, bsStep, hmid, hP]
        rw [e]
        obtain ⟨r1, r2, r3, r4⟩ := ih lo ((lo + hi) / 2) h0 hm1 (by omega) (by omega)
          (fun a b ha hab hb => hmono a b ha hab (by omega))
        refine ⟨r1, by omega, r3, ?_⟩
        intro k hk1 hk2
        by_cases hk : k < (lo + hi) / 2
        · exact r4 k hk1 hk
        · exact hmono ((lo + hi) / 2) k hm1 (by omega) hk2 hP
      · have hP' : gt (values ((lo + hi) / 2)) value = false := by simpa using hP
        have e : binarySearch gt values value lo hi (f + 1) = binarySearch gt values value ((lo + hi) / 2 + 1) hi f := by
          simp only [binarySearch, Mjw.whileFuel, hlt, decide_true, if_true, bsStep, hmid, hP']
          simp
        rw [e]
        obtain ⟨r1, r2, r3, r4⟩ := ih ((lo + hi) / 2 + 1) hi (by omega) (by omega) hhi (by omega)
          (fun a b ha hab hb => hmono a b (by omega) hab hb)
        refine ⟨by omega, r2, ?_, r4⟩
        intro k hk1 hk2
        by_cases hk : (lo + hi) / 2 + 1 ≤ k
        · exact r3 k hk hk2
        · by_contra hc
          have hc' : gt (values k) value = true := by simpa using hc
          exact hP (hmono k ((lo + hi) / 2) hk1 (by omega) hm2 hc')
    · have : lo = hi := by omega
      subst this
      rw [binarySearch_of_ge gt values value lo lo (le_refl _)]
      refine ⟨le_refl _, le_refl _, ?_, ?_⟩ <;> intro k h1 h2 <;> omega

/-! ### range -/

section range
variable {α : Type} (gt : α → α → Bool) (n : Int) (lower upper : Int → α) (sortIndex : Int → Int)

/-- `gt (lower ·) v` is upward closed on `[0, n)`: what sortedness of `lower` gives -/
def UpClosed : Prop :=
  ∀ (v : α) (a b : Int), 0 ≤ a → a ≤ b → b < n → gt (lower a) v = true → gt (lower b) v = true

theorem range_spec (hmono : UpClosed gt n lower) (hn : n ≤ 2^30) (i : Int) (hi0 : 0 ≤ i) (hin : i < n)
    (fuel : Nat) (hf : n.toNat ≤ fuel) :
    0 ≤ range gt n lower upper sortIndex i fuel ∧ i + range gt n lower upper sortIndex i fuel ≤ n - 1 ∧
    ∀ j, i < j → (j ≤ i + range gt n lower upper sortIndex i fuel ↔
        (j ≤ n - 1 ∧ ∀ k, i < k → k < j → gt (lower k) (upper (sortIndex i)) = false)) := by
  obtain ⟨r1, r2, r3, r4⟩ := bs_loop gt lower (upper (sortIndex i)) fuel (i + 1) n (by omega) (by omega) hn
    (by omega) (fun a b ha hab hb => hmono _ a b (by omega) hab hb)
  have e : range gt n lower upper sortIndex i fuel =
      min (n - 1) (binarySearch gt lower (upper (sortIndex i)) (i + 1) n fuel) - i := rfl
  set r := binarySearch gt lower (upper (sortIndex i)) (i + 1) n fuel with hr
  rw [e]
  refine ⟨by omega, by omega, ?_⟩
  intro j hij
  constructor
  · intro hj
    refine ⟨by omega, fun k hk1 hk2 => r3 k (by omega) (by omega)⟩
  · rintro ⟨hj1, hj2⟩
    by_contra hc
    have hrj : r < j := by omega
    have h1 := r4 r (le_refl _) (by omega)
    have h2 := hj2 r (by omega) hrj
    rw [h1] at h2
    exact Bool.noConfusion h2

end range

/-! ### cumulative sums -/

theorem cumsum_zero (r : Int → Int) : cumsum r 0 = r 0 := rfl

theorem cumsum_succ (r : Int → Int) (t : Int) (h : 0 ≤ t) : cumsum r (t + 1) = cumsum r t + r (t + 1) := by
  obtain ⟨m, rfl⟩ := Int.eq_ofNat_of_zero_le h
  have : ((m : Int) + 1).toNat = m + 1 := by omega
  simp only [cumsum, this, Int.toNat_natCast, cumsumNat]
  rfl

/-- `cumulative_sum_in[i - 1]` guarded by `i > 0` -/
def cumPrev (r : Int → Int) (i : Int) : Int := if i > 0 then cumsum r (i - 1) else 0

theorem cumsum_eq_prev (r : Int → Int) (i : Int) (h : 0 ≤ i) : cumsum r i = cumPrev r i + r i := by
  unfold cumPrev
  by_cases h0 : i > 0
  · rw [if_pos h0]
    have := cumsum_succ r (i - 1) (by omega)
    rw [show i - 1 + 1 = i by omega] at this
    exact this
  · have : i = 0 := by omega
    subst this; simp [cumsum_zero]

theorem cumsum_mono (r : Int → Int) (N : Int) (hr : ∀ t, 0 ≤ t → t < N → 0 ≤ r t) :
    ∀ a b, 0 ≤ a → a ≤ b → b < N → cumsum r a ≤ cumsum r b := by
  intro a b ha hab hb
  obtain ⟨d, rfl⟩ : ∃ d : Nat, b = a + d := ⟨(b - a).toNat, by omega⟩
  clear hab
  induction d with
  | zero => simp
  | succ d ih =>
    have h1 := ih (by omega)
    have h2 := cumsum_succ r (a + d) (by omega)
    have h3 := hr (a + d + 1) (by omega) (by omega)
    rw [show a + ((d + 1 : Nat) : Int) = a + d + 1 by omega]
    omega

theorem cumPrev_le (r : Int → Int) (N : Int) (hr : ∀ t, 0 ≤ t → t < N → 0 ≤ r t) (i : Int) (hi0 : 0 ≤ i)
    (hiN : i < N) : 0 ≤ cumPrev r i ∧ cumPrev r i ≤ cumsum r i := by
  have h1 := cumsum_eq_prev r i hi0
  have h2 := hr i hi0 hiN
  refine ⟨?_, by omega⟩
  unfold cumPrev
  split_ifs with h
  · have := cumsum_mono r N hr 0 (i - 1) (le_refl _) (by omega) (by omega)
    rw [cumsum_zero] at this
    have := hr 0 (le_refl _) (by omega)
    omega
  · exact le_refl _

/-- the slot `[cumPrev i, cumsum i)` containing `k` is unique -/
theorem slot_unique (r : Int → Int) (N : Int) (hr : ∀ t, 0 ≤ t → t < N → 0 ≤ r t) (k i i' : Int)
    (hi0 : 0 ≤ i) (hiN : i < N) (hi0' : 0 ≤ i') (hiN' : i' < N)
    (h1 : cumPrev r i ≤ k) (h2 : k < cumsum r i) (h1' : cumPrev r i' ≤ k) (h2' : k < cumsum r i') : i = i' := by
  by_contra hne
  rcases lt_or_gt_of_ne hne with h | h
  · have := cumsum_mono r N hr i (i' - 1) hi0 (by omega) (by omega)
    unfold cumPrev at h1'
    rw [if_pos (by omega)] at h1'
    omega
  · have := cumsum_mono r N hr i' (i - 1) hi0' (by omega) (by omega)
    unfold cumPrev at h1
    rw [if_pos (by omega)] at h1
    omega

theorem igt_iff (a b : Int) : igt a b = true ↔ b < a := by simp [igt]

/-- what the work-index decoding computes -/
theorem decodeFlat_spec (r : Int → Int) (N : Int) (hNpos : 0 < N) (hN : N ≤ 2^30) (hr : ∀ t, 0 ≤ t → t < N → 0 ≤ r t)
    (fuel : Nat) (hf : N.toNat ≤ fuel) (k : Int) (hk0 : 0 ≤ k) (hkW : k < cumsum r (N - 1)) :
    0 ≤ (decodeFlat (cumsum r) N k fuel).1 ∧ (decodeFlat (cumsum r) N k fuel).1 < N ∧
    cumPrev r (decodeFlat (cumsum r) N k fuel).1 ≤ k ∧ k < cumsum r (decodeFlat (cumsum r) N k fuel).1 ∧
    (decodeFlat (cumsum r) N k fuel).2 =
      (decodeFlat (cumsum r) N k fuel).1 + 1 + (k - cumPrev r (decodeFlat (cumsum r) N k fuel).1) := by
  obtain ⟨r1, r2, r3, r4⟩ := bs_loop igt (cumsum r) k fuel 0 N (le_refl _) (by omega) hN (by omega)
    (fun a b ha hab hb h => by
      rw [igt_iff] at h ⊢
      have := cumsum_mono r N hr a b ha hab hb
      omega)
  set i := binarySearch igt (cumsum r) k 0 N fuel with hi
  have hiN : i < N := by
    by_contra hc
    have := r3 (N - 1) (by omega) (by omega)
    have h' : ¬ (igt (cumsum r (N - 1)) k = true) := by rw [this]; exact Bool.noConfusion
    rw [igt_iff] at h'
    omega
  have hki : k < cumsum r i := by
    have := r4 i (le_refl _) hiN
    rwa [igt_iff] at this
  have hprev : cumPrev r i ≤ k := by
    unfold cumPrev
    split_ifs with h
    · have := r3 (i - 1) (by omega) (by omega)
      have h' : ¬ (igt (cumsum r (i - 1)) k = true) := by rw [this]; exact Bool.noConfusion
      rw [igt_iff] at h'
      omega
    · exact hk0
  have e1 : (decodeFlat (cumsum r) N k fuel).1 = i := rfl
  have e2 : (decodeFlat (cumsum r) N k fuel).2 = i + 1 + (k - cumPrev r i) := by
    simp only [decodeFlat, cumPrev, ← hi]
    by_cases h : i > 0
    · simp only [h, decide_true, if_true]; omega
    · simp only [h, decide_false, if_false]; simp; omega
  rw [e1, e2]
  exact ⟨r1, hiN, hprev, hki, rfl⟩

/-- every slot `(i, d)`, `1 ≤ d ≤ r i`, is hit by the work index `cumPrev i + d − 1` -/
theorem decodeFlat_of (r : Int → Int) (N : Int) (hNpos : 0 < N) (hN : N ≤ 2^30)
    (hr : ∀ t, 0 ≤ t → t < N → 0 ≤ r t) (fuel : Nat) (hf : N.toNat ≤ fuel)
    (i d : Int) (hi0 : 0 ≤ i) (hiN : i < N) (hd1 : 1 ≤ d) (hd2 : d ≤ r i) :
    0 ≤ cumPrev r i + d - 1 ∧ cumPrev r i + d - 1 < cumsum r (N - 1) ∧
    decodeFlat (cumsum r) N (cumPrev r i + d - 1) fuel = (i, i + d) := by
  have hp := cumPrev_le r N hr i hi0 hiN
  have hc := cumsum_eq_prev r i hi0
  have hm := cumsum_mono r N hr i (N - 1) hi0 (by omega) (by omega)
  have hk0 : 0 ≤ cumPrev r i + d - 1 := by omega
  have hkW : cumPrev r i + d - 1 < cumsum r (N - 1) := by omega
  refine ⟨hk0, hkW, ?_⟩
  obtain ⟨s1, s2, s3, s4, s5⟩ := decodeFlat_spec r N hNpos hN hr fuel hf _ hk0 hkW
  have hi' := slot_unique r N hr (cumPrev r i + d - 1) _ i s1 s2 hi0 hiN s3 s4 (by omega) (by omega)
  refine Prod.ext hi' ?_
  rw [s5, hi']
  show i + 1 + (cumPrev r i + d - 1 - cumPrev r i) = i + d
  omega

/-! ### the stride loop -/

theorem threadWork_loop (W s : Int) (hs : 0 < s) :
    ∀ (fuel : Nat) (cur : Int) (acc : List Int), (W - cur).toNat ≤ fuel →
      ∃ L : List Int,
        (Mjw.whileFuel fuel (fun (st : Int × List Int) => decide (st.1 < W))
          (fun st => (st.1 + s, st.2 ++ [st.1])) (cur, acc)).2 = acc ++ L ∧
        L.Pairwise (· < ·) ∧ ∀ k, k ∈ L ↔ (k < W ∧ ∃ m : Nat, k = cur + m * s) := by
  intro fuel
  induction fuel with
  | zero =>
    intro cur acc hf
    refine ⟨[], by simp [Mjw.whileFuel], List.Pairwise.nil, ?_⟩
    intro k
    simp only [List.not_mem_nil, false_iff, not_and, not_exists]
    intro hk m hm
    have : 0 ≤ (m : Int) * s := mul_nonneg (by omega) hs.le
    omega
  | succ f ih =>
    intro cur acc hf
    by_cases hlt : cur < W
    · obtain ⟨L, h1, h2, h3⟩ := ih (cur + s) (acc ++ [cur]) (by omega)
      refine ⟨cur :: L, ?_, ?_, ?_⟩
      · simp only [Mjw.whileFuel, hlt, decide_true, if_true]
        rw [h1]; simp
      · refine List.Pairwise.cons ?_ h2
        intro k hk
        obtain ⟨_, m, hm⟩ := (h3 k).mp hk
        have : 0 ≤ (m : Int) * s := mul_nonneg (by omega) hs.le
        omega
      · intro k
        rw [List.mem_cons, h3 k]
        constructor
        · rintro (rfl | ⟨hk, m, hm⟩)
          · exact ⟨hlt, 0, by simp⟩
          · exact ⟨hk, m + 1, by rw [hm]; push_cast; ring⟩
        · rintro ⟨hk, m, hm⟩
          cases m with
          | zero => left; simpa using hm
          | succ m => right; exact ⟨hk, m, by rw [hm]; push_cast; ring⟩
    · refine ⟨[], by simp [Mjw.whileFuel, hlt], List.Pairwise.nil, ?_⟩
      intro k
      simp only [List.not_mem_nil, false_iff, not_and, not_exists]
      intro hk m hm
      have : 0 ≤ (m : Int) * s := mul_nonneg (by omega) hs.le
      omega

theorem threadWork_spec (W s tid : Int) (hs : 0 < s) (fuel : Nat) (hf : (W - tid).toNat ≤ fuel) :
    (threadWork W s tid fuel).Pairwise (· < ·) ∧
    ∀ k, k ∈ threadWork W s tid fuel ↔ (k < W ∧ ∃ m : Nat, k = tid + m * s) := by
  obtain ⟨L, h1, h2, h3⟩ := threadWork_loop W s hs fuel tid [] hf
  have : threadWork W s tid fuel = L := by
    unfold threadWork; rw [h1]; simp
  rw [this]; exact ⟨h2, h3⟩

theorem mem_allWork (W s : Int) (hs : 0 < s) (fuel : Nat) (hf : W.toNat ≤ fuel) (k : Int) :
    k ∈ allWork W s fuel ↔ (0 ≤ k ∧ k < W) := by
  unfold allWork
  rw [List.mem_flatMap]
  constructor
  · rintro ⟨tid, htid, hk⟩
    obtain ⟨hk1, m, hm⟩ := ((threadWork_spec W s (Int.ofNat tid) hs fuel (by
      have : (0:Int) ≤ Int.ofNat tid := Int.natCast_nonneg tid
      omega)).2 k).mp hk
    have h1 : (0:Int) ≤ Int.ofNat tid := Int.natCast_nonneg tid
    have h2 : 0 ≤ (m : Int) * s := mul_nonneg (by omega) hs.le
    exact ⟨by omega, hk1⟩
  · rintro ⟨hk0, hkW⟩
    have hmod0 : 0 ≤ k % s := Int.emod_nonneg k (by omega)
    have hmodlt : k % s < s := Int.emod_lt_of_pos k hs
    have hdiv0 : 0 ≤ k / s := Int.ediv_nonneg hk0 hs.le
    refine ⟨(k % s).toNat, ?_, ?_⟩
    · rw [List.mem_range]; omega
    · have e : Int.ofNat (k % s).toNat = k % s := Int.toNat_of_nonneg hmod0
      rw [e]
      refine ((threadWork_spec W s (k % s) hs fuel (by omega)).2 k).mpr ⟨hkW, (k / s).toNat, ?_⟩
      have e2 : ((k / s).toNat : Int) = k / s := Int.toNat_of_nonneg hdiv0
      rw [e2]
      have := Int.emod_add_mul_ediv k s
      rw [mul_comm] at this
      omega

theorem allWork_nodup (W s : Int) (hs : 0 < s) (fuel : Nat) (hf : W.toNat ≤ fuel) :
    (allWork W s fuel).Nodup := by
  unfold allWork
  rw [List.nodup_flatMap]
  have hfu : ∀ tid : Nat, (W - Int.ofNat tid).toNat ≤ fuel := by
    intro tid
    have : (0:Int) ≤ Int.ofNat tid := Int.natCast_nonneg tid
    omega
  constructor
  · intro tid _
    have := (threadWork_spec W s (Int.ofNat tid) hs fuel (hfu tid)).1
    exact this.imp (fun h => ne_of_lt h)
  · apply List.nodup_range.pairwise_of_forall_ne
    intro a ha b hb hab
    rw [List.mem_range] at ha hb
    show List.Disjoint _ _
    intro k hka hkb
    obtain ⟨_, m, hm⟩ := ((threadWork_spec W s (Int.ofNat a) hs fuel (hfu a)).2 k).mp hka
    obtain ⟨_, m', hm'⟩ := ((threadWork_spec W s (Int.ofNat b) hs fuel (hfu b)).2 k).mp hkb
    have ea : k % s = Int.ofNat a := by
      rw [hm, Int.add_mul_emod_self_right]
      exact Int.emod_eq_of_lt (Int.natCast_nonneg a) (by simp only [Int.ofNat_eq_natCast]; omega)
    have eb : k % s = Int.ofNat b := by
      rw [hm', Int.add_mul_emod_self_right]
      exact Int.emod_eq_of_lt (Int.natCast_nonneg b) (by simp only [Int.ofNat_eq_natCast]; omega)
    apply hab
    have : Int.ofNat a = Int.ofNat b := ea.symm.trans eb
    exact Int.ofNat.inj this

/-- **stride partition**: over all `nsweep` threads, every work index `0 ≤ k < W` is processed exactly once -/
theorem allWork_perm (W s : Int) (hs : 0 < s) (fuel : Nat) (hf : W.toNat ≤ fuel) :
    (allWork W s fuel).Perm ((List.range W.toNat).map Int.ofNat) := by
  rw [List.perm_ext_iff_of_nodup (allWork_nodup W s hs fuel hf)
    (List.nodup_range.map (fun a b h => Int.ofNat.inj h))]
  intro k
  rw [mem_allWork W s hs fuel hf, List.mem_map]
  constructor
  · rintro ⟨h0, h1⟩
    exact ⟨k.toNat, by rw [List.mem_range]; omega, Int.toNat_of_nonneg h0⟩
  · rintro ⟨a, ha, rfl⟩
    rw [List.mem_range] at ha
    have : (0:Int) ≤ Int.ofNat a := Int.natCast_nonneg a
    simp only [Int.ofNat_eq_natCast] at *
    omega

/-! ### worlds -/

theorem split_flat (n w i : Int) (hn : 0 < n) (hi0 : 0 ≤ i) (hin : i < n) :
    (w * n + i) / n = w ∧ (w * n + i) % n = i := by
  constructor
  · rw [add_comm, Int.add_mul_ediv_right _ _ (by omega), Int.ediv_eq_zero_of_lt hi0 hin]; omega
  · rw [add_comm, Int.add_mul_emod_self_right, Int.emod_eq_of_lt hi0 hin]

theorem flat_bounds (n nw t : Int) (hn : 0 < n) (ht0 : 0 ≤ t) (htN : t < nw * n) :
    0 ≤ t / n ∧ t / n < nw ∧ 0 ≤ t % n ∧ t % n < n ∧ t = (t / n) * n + t % n := by
  refine ⟨Int.ediv_nonneg ht0 hn.le, Int.ediv_lt_of_lt_mul hn htN, Int.emod_nonneg t (by omega),
    Int.emod_lt_of_pos t hn, ?_⟩
  have := Int.emod_add_mul_ediv t n
  rw [mul_comm] at this
  omega

section worlds
variable {α : Type} (gt : α → α → Bool) (s : Sorted α)

/-- the contract under which the SAP model is analysed -/
structure Valid : Prop where
  ngeom_pos : 0 < s.ngeom
  nworld_pos : 0 < s.nworld
  size_le : s.nworld * s.ngeom ≤ 2^30
  upClosed : ∀ w, 0 ≤ w → w < s.nworld → UpClosed gt s.ngeom (s.lower w)

/-- `range_[w, i]` -/
def rangeAt (fuel : Nat) (w i : Int) : Int :=
  range gt s.ngeom (s.lower w) (s.upper w) (s.sortIndex w) i fuel

/-- the set of work items SAP is meant to enumerate: `(w, i, j)` with `i < j ≤ i + range_[w, i]` -/
def Emitted (fuel : Nat) (a : Work) : Prop :=
  0 ≤ a.worldid ∧ a.worldid < s.nworld ∧ 0 ≤ a.i ∧ a.i < a.j ∧ a.j ≤ a.i + rangeAt gt s fuel a.worldid a.i

theorem ngeom_le_size (hv : Valid gt s) : s.ngeom ≤ s.nworld * s.ngeom := by
  have h1 := hv.ngeom_pos
  have h2 := hv.nworld_pos
  nlinarith

theorem flatRange_eq (hv : Valid gt s) (fuel : Nat) (t : Int) (ht0 : 0 ≤ t) :
    flatRange gt s fuel t = rangeAt gt s fuel (t / s.ngeom) (t % s.ngeom) := by
  unfold flatRange rangeAt
  simp only [Int.tdiv_eq_ediv_of_nonneg ht0, Int.tmod_eq_emod_of_nonneg ht0]

theorem rangeAt_bounds (hv : Valid gt s) (fuel : Nat) (hf : (s.nworld * s.ngeom).toNat ≤ fuel)
    (w i : Int) (hw0 : 0 ≤ w) (hw : w < s.nworld) (hi0 : 0 ≤ i) (hin : i < s.ngeom) :
    0 ≤ rangeAt gt s fuel w i ∧ i + rangeAt gt s fuel w i ≤ s.ngeom - 1 := by
  have hle := ngeom_le_size gt s hv
  have := range_spec gt s.ngeom (s.lower w) (s.upper w) (s.sortIndex w) (hv.upClosed w hw0 hw)
    (le_trans hle hv.size_le) i hi0 hin fuel (by omega)
  exact ⟨this.1, this.2.1⟩

theorem flatRange_nonneg (hv : Valid gt s) (fuel : Nat) (hf : (s.nworld * s.ngeom).toNat ≤ fuel) :
    ∀ t, 0 ≤ t → t < s.nworld * s.ngeom → 0 ≤ flatRange gt s fuel t := by
  intro t ht0 htN
  obtain ⟨b1, b2, b3, b4, _⟩ := flat_bounds s.ngeom s.nworld t hv.ngeom_pos ht0 htN
  rw [flatRange_eq gt s hv fuel t ht0]
  exact (rangeAt_bounds gt s hv fuel hf _ _ b1 b2 b3 b4).1

/-- decoding of a work index, with the `// ngeom`, `% ngeom` steps -/
theorem decode_spec (hv : Valid gt s) (fuel : Nat) (hf : (s.nworld * s.ngeom).toNat ≤ fuel)
    (k : Int) (hk0 : 0 ≤ k) (hkW : k < nwork gt s fuel) :
    ∃ t d : Int, 0 ≤ t ∧ t < s.nworld * s.ngeom ∧ 1 ≤ d ∧ d ≤ flatRange gt s fuel t ∧
      k = cumPrev (flatRange gt s fuel) t + d - 1 ∧
      decode (cumOf gt s fuel) s.ngeom (s.nworld * s.ngeom) k fuel =
        ⟨t / s.ngeom, t % s.ngeom, t % s.ngeom + d⟩ := by
  have hNpos : 0 < s.nworld * s.ngeom := mul_pos hv.nworld_pos hv.ngeom_pos
  obtain ⟨s1, s2, s3, s4, s5⟩ := decodeFlat_spec (flatRange gt s fuel) (s.nworld * s.ngeom) hNpos hv.size_le
    (flatRange_nonneg gt s hv fuel hf) fuel hf k hk0 hkW
  set t := (decodeFlat (cumsum (flatRange gt s fuel)) (s.nworld * s.ngeom) k fuel).1 with ht
  set jf := (decodeFlat (cumsum (flatRange gt s fuel)) (s.nworld * s.ngeom) k fuel).2 with hjf
  have hc := cumsum_eq_prev (flatRange gt s fuel) t s1
  obtain ⟨b1, b2, b3, b4, b5⟩ := flat_bounds s.ngeom s.nworld t hv.ngeom_pos s1 s2
  have hR := flatRange_eq gt s hv fuel t s1
  have hb := rangeAt_bounds gt s hv fuel hf _ _ b1 b2 b3 b4
  refine ⟨t, k - cumPrev (flatRange gt s fuel) t + 1, s1, s2, by omega, by omega, by omega, ?_⟩
  have hjf0 : 0 ≤ jf := by omega
  have e : decode (cumOf gt s fuel) s.ngeom (s.nworld * s.ngeom) k fuel =
      ⟨Int.tdiv t s.ngeom, Int.tmod t s.ngeom, Int.tmod jf s.ngeom⟩ := rfl
  rw [e, Int.tdiv_eq_ediv_of_nonneg s1, Int.tmod_eq_emod_of_nonneg s1, Int.tmod_eq_emod_of_nonneg hjf0]
  congr 1
  have hj : jf = (t / s.ngeom) * s.ngeom + (t % s.ngeom + (k - cumPrev (flatRange gt s fuel) t + 1)) := by
    omega
  rw [hj]
  exact (split_flat s.ngeom (t / s.ngeom) _ hv.ngeom_pos (by omega) (by omega)).2

theorem decode_emitted (hv : Valid gt s) (fuel : Nat) (hf : (s.nworld * s.ngeom).toNat ≤ fuel)
    (k : Int) (hk0 : 0 ≤ k) (hkW : k < nwork gt s fuel) :
    Emitted gt s fuel (decode (cumOf gt s fuel) s.ngeom (s.nworld * s.ngeom) k fuel) := by
  obtain ⟨t, d, h1, h2, h3, h4, h5, h6⟩ := decode_spec gt s hv fuel hf k hk0 hkW
  obtain ⟨b1, b2, b3, b4, b5⟩ := flat_bounds s.ngeom s.nworld t hv.ngeom_pos h1 h2
  rw [h6]
  rw [flatRange_eq gt s hv fuel t h1] at h4
  exact ⟨b1, b2, b3, by show t % s.ngeom < t % s.ngeom + d; omega,
    by show t % s.ngeom + d ≤ t % s.ngeom + rangeAt gt s fuel (t / s.ngeom) (t % s.ngeom); omega⟩

theorem decode_inj (hv : Valid gt s) (fuel : Nat) (hf : (s.nworld * s.ngeom).toNat ≤ fuel)
    (k k' : Int) (hk0 : 0 ≤ k) (hkW : k < nwork gt s fuel) (hk0' : 0 ≤ k') (hkW' : k' < nwork gt s fuel)
    (h : decode (cumOf gt s fuel) s.ngeom (s.nworld * s.ngeom) k fuel =
         decode (cumOf gt s fuel) s.ngeom (s.nworld * s.ngeom) k' fuel) : k = k' := by
  obtain ⟨t, d, h1, h2, h3, h4, h5, h6⟩ := decode_spec gt s hv fuel hf k hk0 hkW
  obtain ⟨t', d', h1', h2', h3', h4', h5', h6'⟩ := decode_spec gt s hv fuel hf k' hk0' hkW'
  rw [h6, h6'] at h
  injection h with e1 e2 e3
  obtain ⟨_, _, _, _, b5⟩ := flat_bounds s.ngeom s.nworld t hv.ngeom_pos h1 h2
  obtain ⟨_, _, _, _, b5'⟩ := flat_bounds s.ngeom s.nworld t' hv.ngeom_pos h1' h2'
  have ht : t = t' := by rw [b5, b5', e1, e2]
  subst ht
  have hd : d = d' := by omega
  subst hd
  omega

theorem decode_surj (hv : Valid gt s) (fuel : Nat) (hf : (s.nworld * s.ngeom).toNat ≤ fuel)
    (a : Work) (ha : Emitted gt s fuel a) :
    ∃ k, 0 ≤ k ∧ k < nwork gt s fuel ∧
      decode (cumOf gt s fuel) s.ngeom (s.nworld * s.ngeom) k fuel = a := by
  obtain ⟨w0, w1, i0, ij, jr⟩ := ha
  have hNpos : 0 < s.nworld * s.ngeom := mul_pos hv.nworld_pos hv.ngeom_pos
  -- position i is a valid index, otherwise the range bound gives a contradiction only for valid i
  by_cases hin : a.i < s.ngeom
  · have hb := rangeAt_bounds gt s hv fuel hf a.worldid a.i w0 w1 i0 hin
    obtain ⟨q1, q2⟩ := split_flat s.ngeom a.worldid a.i hv.ngeom_pos i0 hin
    set t := a.worldid * s.ngeom + a.i with ht
    have ht0 : 0 ≤ t := by
      have := mul_nonneg w0 hv.ngeom_pos.le
      omega
    have htN : t < s.nworld * s.ngeom := by
      have : (a.worldid + 1) * s.ngeom ≤ s.nworld * s.ngeom :=
        mul_le_mul_of_nonneg_right (by omega) hv.ngeom_pos.le
      have e : (a.worldid + 1) * s.ngeom = a.worldid * s.ngeom + s.ngeom := by ring
      omega
    have hR : flatRange gt s fuel t = rangeAt gt s fuel a.worldid a.i := by
      rw [flatRange_eq gt s hv fuel t ht0, q1, q2]
    obtain ⟨p1, p2, p3⟩ := decodeFlat_of (flatRange gt s fuel) (s.nworld * s.ngeom) hNpos hv.size_le
      (flatRange_nonneg gt s hv fuel hf) fuel hf t (a.j - a.i) ht0 htN (by omega) (by omega)
    refine ⟨_, p1, p2, ?_⟩
    have e : decode (cumOf gt s fuel) s.ngeom (s.nworld * s.ngeom)
        (cumPrev (flatRange gt s fuel) t + (a.j - a.i) - 1) fuel =
        ⟨Int.tdiv t s.ngeom, Int.tmod t s.ngeom, Int.tmod (t + (a.j - a.i)) s.ngeom⟩ := by
      unfold decode cumOf
      rw [p3]
    rw [e, Int.tdiv_eq_ediv_of_nonneg ht0, Int.tmod_eq_emod_of_nonneg ht0,
      Int.tmod_eq_emod_of_nonneg (by omega), q1, q2]
    have hj : t + (a.j - a.i) = a.worldid * s.ngeom + a.j := by omega
    rw [hj, (split_flat s.ngeom a.worldid a.j hv.ngeom_pos (by omega) (by omega)).2]
  · -- i ≥ ngeom: the binary search starts beyond the array and range = min(n-1, n) - i < 0: nothing emitted
    exfalso
    have : rangeAt gt s fuel a.worldid a.i = min (s.ngeom - 1)
        (binarySearch gt (s.lower a.worldid) (s.upper a.worldid (s.sortIndex a.worldid a.i)) (a.i + 1) s.ngeom fuel)
        - a.i := rfl
    rw [binarySearch_of_ge _ _ _ _ _ (by omega)] at this
    omega

end worlds

section enumerate
variable {α : Type} (gt : α → α → Bool) (s : Sorted α)

theorem mem_enumeratedWork (hv : Valid gt s) (nsweep : Int) (hs : 0 < nsweep) (fuel : Nat)
    (hf : (s.nworld * s.ngeom).toNat ≤ fuel) (hfW : (nwork gt s fuel).toNat ≤ fuel) (a : Work) :
    a ∈ enumeratedWork gt s nsweep fuel ↔ Emitted gt s fuel a := by
  unfold enumeratedWork
  rw [List.mem_map]
  constructor
  · rintro ⟨k, hk, rfl⟩
    rw [mem_allWork _ _ hs fuel hfW] at hk
    exact decode_emitted gt s hv fuel hf k hk.1 hk.2
  · intro ha
    obtain ⟨k, h0, h1, h2⟩ := decode_surj gt s hv fuel hf a ha
    exact ⟨k, (mem_allWork _ _ hs fuel hfW k).mpr ⟨h0, h1⟩, h2⟩

theorem enumeratedWork_nodup (hv : Valid gt s) (nsweep : Int) (hs : 0 < nsweep) (fuel : Nat)
    (hf : (s.nworld * s.ngeom).toNat ≤ fuel) (hfW : (nwork gt s fuel).toNat ≤ fuel) :
    (enumeratedWork gt s nsweep fuel).Nodup := by
  unfold enumeratedWork
  refine List.Nodup.map_on ?_ (allWork_nodup _ _ hs fuel hfW)
  intro k hk k' hk' h
  rw [mem_allWork _ _ hs fuel hfW] at hk hk'
  exact decode_inj gt s hv fuel hf k k' hk.1 hk.2 hk'.1 hk'.2 h

/-- every `(w, i, j)` with `i < j ≤ i + range_[w,i]` is enumerated exactly once, nothing else is -/
theorem enumeratedWork_count (hv : Valid gt s) (nsweep : Int) (hs : 0 < nsweep) (fuel : Nat)
    (hf : (s.nworld * s.ngeom).toNat ≤ fuel) (hfW : (nwork gt s fuel).toNat ≤ fuel) (a : Work) :
    (Emitted gt s fuel a → (enumeratedWork gt s nsweep fuel).count a = 1) ∧
    (¬ Emitted gt s fuel a → (enumeratedWork gt s nsweep fuel).count a = 0) := by
  have hn := enumeratedWork_nodup gt s hv nsweep hs fuel hf hfW
  have hm := mem_enumeratedWork gt s hv nsweep hs fuel hf hfW a
  constructor
  · intro h; exact List.count_eq_one_of_mem hn (hm.mpr h)
  · intro h; exact List.count_eq_zero_of_not_mem (fun hc => h (hm.mp hc))

end enumerate

/-! ### how much fuel is enough -/

theorem cumsum_le (r : Int → Int) (N B : Int) (hB : 0 ≤ B) (hr : ∀ t, 0 ≤ t → t < N → r t ≤ B) :
    ∀ k : Nat, (k : Int) < N → cumsum r k ≤ ((k : Int) + 1) * B := by
  intro k
  induction k with
  | zero =>
    intro h
    have := hr 0 (le_refl _) h
    simp only [Nat.cast_zero, cumsum_zero]; omega
  | succ k ih =>
    intro h
    have h1 := ih (by omega)
    have h2 := cumsum_succ r k (by omega)
    have h3 := hr ((k : Int) + 1) (by omega) (by push_cast at h; omega)
    push_cast
    rw [h2]
    nlinarith

section fuel
variable {α : Type} (gt : α → α → Bool) (s : Sorted α)

/-- number of work packages ≤ nworld · ngeom² -/
theorem nwork_le (hv : Valid gt s) (fuel : Nat) (hf : (s.nworld * s.ngeom).toNat ≤ fuel) :
    nwork gt s fuel ≤ s.nworld * s.ngeom * s.ngeom := by
  have hNpos : 0 < s.nworld * s.ngeom := mul_pos hv.nworld_pos hv.ngeom_pos
  have hb : ∀ t, 0 ≤ t → t < s.nworld * s.ngeom → flatRange gt s fuel t ≤ s.ngeom := by
    intro t ht0 htN
    obtain ⟨b1, b2, b3, b4, _⟩ := flat_bounds s.ngeom s.nworld t hv.ngeom_pos ht0 htN
    rw [flatRange_eq gt s hv fuel t ht0]
    have := rangeAt_bounds gt s hv fuel hf _ _ b1 b2 b3 b4
    omega
  have := cumsum_le (flatRange gt s fuel) (s.nworld * s.ngeom) s.ngeom hv.ngeom_pos.le hb
    (s.nworld * s.ngeom - 1).toNat (by omega)
  rw [Int.toNat_of_nonneg (by omega)] at this
  unfold nwork cumOf
  calc cumsum (flatRange gt s fuel) (s.nworld * s.ngeom - 1)
      ≤ (s.nworld * s.ngeom - 1 + 1) * s.ngeom := this
    _ = s.nworld * s.ngeom * s.ngeom := by ring

/-- `fuel ≥ nworld · ngeom²` meets both fuel hypotheses of the enumeration theorems -/
theorem fuel_enough (hv : Valid gt s) (fuel : Nat) (h : (s.nworld * s.ngeom * s.ngeom).toNat ≤ fuel) :
    (s.nworld * s.ngeom).toNat ≤ fuel ∧ (nwork gt s fuel).toNat ≤ fuel := by
  have h1 := hv.ngeom_pos
  have h2 := hv.nworld_pos
  have hN : 0 < s.nworld * s.ngeom := mul_pos h2 h1
  have hle : s.nworld * s.ngeom ≤ s.nworld * s.ngeom * s.ngeom := by nlinarith
  have hf : (s.nworld * s.ngeom).toNat ≤ fuel := by omega
  have := nwork_le gt s hv fuel hf
  exact ⟨hf, by omega⟩

end fuel

section geoms
variable {α : Type} (gt : α → α → Bool) (s : Sorted α)

/-- distinct work items are distinct unordered geom pairs when `sort_index` is injective per world -/
theorem geomPair_inj (hv : Valid gt s) (fuel : Nat) (hf : (s.nworld * s.ngeom).toNat ≤ fuel)
    (hinj : ∀ w i j, 0 ≤ i → i < s.ngeom → 0 ≤ j → j < s.ngeom → s.sortIndex w i = s.sortIndex w j → i = j)
    (a b : Work) (ha : Emitted gt s fuel a) (hb : Emitted gt s fuel b) (hw : a.worldid = b.worldid)
    (h : (s.sortIndex a.worldid a.i = s.sortIndex b.worldid b.i ∧ s.sortIndex a.worldid a.j = s.sortIndex b.worldid b.j) ∨
         (s.sortIndex a.worldid a.i = s.sortIndex b.worldid b.j ∧ s.sortIndex a.worldid a.j = s.sortIndex b.worldid b.i)) :
    a = b := by
  obtain ⟨a1, a2, a3, a4, a5⟩ := ha
  obtain ⟨b1, b2, b3, b4, b5⟩ := hb
  have hai : a.i < s.ngeom := by
    by_contra hc
    have : rangeAt gt s fuel a.worldid a.i = min (s.ngeom - 1)
        (binarySearch gt (s.lower a.worldid) (s.upper a.worldid (s.sortIndex a.worldid a.i)) (a.i + 1) s.ngeom fuel)
        - a.i := rfl
    rw [binarySearch_of_ge _ _ _ _ _ (by omega)] at this
    omega
  have hbi : b.i < s.ngeom := by
    by_contra hc
    have : rangeAt gt s fuel b.worldid b.i = min (s.ngeom - 1)
        (binarySearch gt (s.lower b.worldid) (s.upper b.worldid (s.sortIndex b.worldid b.i)) (b.i + 1) s.ngeom fuel)
        - b.i := rfl
    rw [binarySearch_of_ge _ _ _ _ _ (by omega)] at this
    omega
  have ra := rangeAt_bounds gt s hv fuel hf a.worldid a.i a1 a2 a3 hai
  have rb := rangeAt_bounds gt s hv fuel hf b.worldid b.i b1 b2 b3 hbi
  rw [← hw] at h
  rcases h with ⟨h1, h2⟩ | ⟨h1, h2⟩
  · have e1 := hinj a.worldid a.i b.i a3 hai b3 hbi h1
    have e2 := hinj a.worldid a.j b.j (by omega) (by omega) (by omega) (by omega) h2
    cases a; cases b; simp_all
  · have e1 := hinj a.worldid a.i b.j a3 hai (by omega) (by omega) h1
    have e2 := hinj a.worldid a.j b.i (by omega) (by omega) b3 hbi h2
    omega

end geoms

end Mjw.C18L
