/-
  ℝ-level helper lemmas for property C01: MuJoCo's quaternion utilities (Spec/Kinematics.lean) agree with
  mujoco_warp's `math.*` on unit / regular inputs, hence `kinBodyW` (the kernel's normal form) = `Spec.kinBody`.
-/
import MjwVerif.Lemmas.C01
import MjwVerif.Lemmas.Real
import MjwVerif.Props.C23
import MjwVerif.Lemmas.C01Tree

set_option linter.unusedVariables false
set_option linter.unusedSimpArgs false
namespace Mjw.Lemmas.C01R
open Mjw Mjw.Gen.Math Mjw.Spec.Kinematics Mjw.Lemmas.C01 Mjw.Props.C23 Mjw.Lemmas.C13

/-- mjMINVAL as a real -/
noncomputable def minval : ℝ := 1e-15
theorem minval_pos : 0 < minval := by norm_num [minval]
theorem mjMINVAL_eq : (mjMINVAL : ℝ) = minval := by
  simp only [mjMINVAL, slit]; norm_num [minval]

theorem length_eq (q : Q ℝ) : Q.length q = Real.sqrt (nrm2 q) := by
  simp only [Q.length, Q.dot, nrm2, hadd, hmul, ssqrt]

theorem length_of_unit {q : Q ℝ} (h : nrm2 q = 1) : Q.length q = 1 := by
  rw [length_eq, h, Real.sqrt_one]

/-! ### the mju_ functions vs math.* -/

/-- `mju_mulQuat` and `math.mul_quat` are the same expression (any scalar type) -/
theorem mulQuat_eq {K : Type} [Scalar K] (a b : Q K) : mulQuat a b = mul_quat a b := rfl

/-- a quaternion is "regular" for `mju_normalize4` if it is not (near) zero and not within 1e-15 of unit norm
    without being exactly unit; on regular input `mju_normalize4` and `wp.normalize` are both `q / |q|` -/
def Regular (q : Q ℝ) : Prop := minval ≤ Q.length q ∧ (Q.length q = 1 ∨ minval < |Q.length q - 1|)

theorem regular_of_unit {q : Q ℝ} (h : nrm2 q = 1) : Regular q := by
  have := length_of_unit h
  exact ⟨by rw [this]; norm_num [minval], Or.inl this⟩

theorem wp_normalize_unit {q : Q ℝ} (h : nrm2 q = 1) : Q.normalize q = q := by
  have hl := length_of_unit h
  unfold Q.normalize
  simp only [hl, slt, slit, hmul, hdiv]
  norm_num

theorem normalize4_norm (q : Q ℝ) :
    Scalar.sqrt (q.c0 * q.c0 + q.c1 * q.c1 + q.c2 * q.c2 + q.c3 * q.c3) = Q.length q := rfl

theorem normalize4_unit {q : Q ℝ} (h : nrm2 q = 1) : normalize4 q = q := by
  have hl := length_of_unit h
  unfold normalize4
  simp only [normalize4_norm, hl, mjMINVAL_eq, slt, sgt, sabs, hsub, slit]
  norm_num [minval]

theorem normalize4_regular {q : Q ℝ} (h : Regular q) : normalize4 q = Q.normalize q := by
  obtain ⟨h1, h2⟩ := h
  have hpos : 0 < Q.length q := lt_of_lt_of_le minval_pos h1
  unfold normalize4
  simp only [normalize4_norm, mjMINVAL_eq, slt, sgt, sabs, hsub, slit, hdiv, hmul]
  rw [if_neg (not_lt.mpr h1)]
  by_cases h3 : minval < |Q.length q - 1|
  · have h3' : minval < |Q.length q - (1:ℤ) * (10:ℝ) ^ (0:ℤ)| := by simpa using h3
    rw [if_pos h3']
    unfold Q.normalize
    have : (0:ℤ) * (10:ℝ) ^ (0:ℤ) < Q.length q := by simpa using hpos
    simp only [slt, slit, this, if_true, hmul, hdiv]
  · have h3' : ¬ minval < |Q.length q - (1:ℤ) * (10:ℝ) ^ (0:ℤ)| := by simpa using h3
    rw [if_neg h3']
    have hl : Q.length q = 1 := by
      rcases h2 with h2 | h2
      · exact h2
      · exact absurd h2 h3
    have hn : nrm2 q = 1 := by
      rw [length_eq] at hl
      have := Real.sqrt_eq_one.mp hl
      exact this
    exact (wp_normalize_unit hn).symm

/-- MuJoCo's `v + 2 u × (s v + u × v)` equals mujoco_warp's `2(u·v)u + (s² − u·u)v + 2s u×v` for UNIT quaternions -/
theorem rotVecQuat_eq (v : V3 ℝ) (q : Q ℝ) (h : nrm2 q = 1) : rotVecQuat v q = rot_vec_quat v q := by
  simp only [nrm2] at h
  unfold rotVecQuat
  split
  · rename_i hv
    simp only [Bool.and_eq_true, sbeq, slit] at hv
    obtain ⟨⟨h0, h1⟩, h2⟩ := hv
    norm_num at h0 h1 h2
    apply V3.ext' <;>
      simp only [rot_vec_quat, V3.add, V3.smul, V3.dot, V3.cross, hadd, hsub, hmul, slit, h0, h1, h2] <;> norm_num
  · split
    · rename_i hq
      simp only [isNullQuat, Bool.and_eq_true, sbeq, slit] at hq
      obtain ⟨⟨⟨h0, h1⟩, h2⟩, h3⟩ := hq
      norm_num at h0 h1 h2 h3
      apply V3.ext' <;>
        simp only [rot_vec_quat, V3.add, V3.smul, V3.dot, V3.cross, hadd, hsub, hmul, slit, h0, h1, h2, h3] <;>
        norm_num
    · apply V3.ext' <;>
        simp only [rot_vec_quat, V3.add, V3.smul, V3.dot, V3.cross, hadd, hsub, hmul, slit] <;> norm_num
      · linear_combination (-v.c0) * h
      · linear_combination (-v.c1) * h
      · linear_combination (-v.c2) * h

theorem axisAngle2Quat_eq (ax : V3 ℝ) (θ : ℝ) : axisAngle2Quat ax θ = axis_angle_to_quat ax θ := by
  unfold axisAngle2Quat
  split
  · rename_i h0
    simp only [sbeq, slit] at h0
    norm_num at h0
    subst h0
    apply Q.ext' <;> simp [axis_angle_to_quat, V3.muls]
  · apply Q.ext' <;> simp only [axis_angle_to_quat, V3.muls, hmul, ssin, scos, slit]

theorem quat2Mat_eq (q : Q ℝ) : quat2Mat q = quat_to_mat q := by
  unfold quat2Mat
  split
  · rename_i hq
    simp only [isNullQuat, Bool.and_eq_true, sbeq, slit] at hq
    obtain ⟨⟨⟨h0, h1⟩, h2⟩, h3⟩ := hq
    norm_num at h0 h1 h2 h3
    apply M33.ext' <;> simp only [quat_to_mat, M33.identity, hadd, hsub, hmul, slit, h0, h1, h2, h3] <;> norm_num
  · apply M33.ext' <;> simp only [quat_to_mat, hadd, hsub, hmul, slit]

/-- `xmat[pid] * v` (MuJoCo) = `rot_vec_quat(v, xquat[pid])` (mujoco_warp), for every quaternion -/
theorem mat_mulVec_eq (v : V3 ℝ) (q : Q ℝ) : M33.mulVec (quat2Mat q) v = rot_vec_quat v q := by
  rw [quat2Mat_eq, rot_vec_quat_eq_mat]


/-! ### joints -/

/-- squared length of a vector, written out -/
def vnrm2 (a : V3 ℝ) : ℝ := a.c0 * a.c0 + a.c1 * a.c1 + a.c2 * a.c2

/-- the hypotheses under which one joint is treated identically: a HINGE axis is a unit vector (the MuJoCo
    compiler normalises `jnt_axis`), a BALL joint's quaternion in qpos is regular -/
def JointOK (qpos : Int → ℝ) (j : Joint ℝ) : Prop :=
  (j.type = 3 → vnrm2 j.axis = 1) ∧ (j.type = 1 → Regular (qposQuat qpos j.qadr))

theorem jointApply_eq (qpos qpos0 : Int → ℝ) (j : Joint ℝ) (s : Pose ℝ) (hs : nrm2 s.quat = 1)
    (hj : JointOK qpos j) :
    jointApplyW qpos qpos0 j s = jointApply qpos qpos0 j s ∧ nrm2 (jointApplyW qpos qpos0 j s).1.quat = 1 := by
  obtain ⟨hh, hb⟩ := hj
  unfold jointApplyW jointApply
  simp only [jBALL, jSLIDE, jHINGE, rotVecQuat_eq _ _ hs, mulQuat_eq, axisAngle2Quat_eq, hsub]
  by_cases h1 : j.type = 1
  · have hr := hb h1
    have hu : nrm2 (mul_quat s.quat (Q.normalize (qposQuat qpos j.qadr))) = 1 := by
      rw [nrm2_mul_quat, hs, normalize_unit]; ring
    simp only [h1, if_true, normalize4_regular hr, rotVecQuat_eq _ _ hu, hu]
    norm_num
  · by_cases h2 : j.type = 2
    · simp only [h2, if_true]
      exact ⟨by norm_num, hs⟩
    · by_cases h3 : j.type = 3
      · have hax : nrm2 (axis_angle_to_quat j.axis (qpos j.qadr - qpos0 j.qadr)) = 1 :=
          axis_angle_unit _ _ (hh h3)
        have hu : nrm2 (mul_quat s.quat (axis_angle_to_quat j.axis (qpos j.qadr - qpos0 j.qadr))) = 1 := by
          rw [nrm2_mul_quat, hs, hax]; ring
        simp only [h3, if_true, if_false, Int.reduceEq, or_true]
        simp only [rotVecQuat_eq _ _ hu, hu]
        norm_num
      · simp only [h1, h2, h3, if_false, or_self, hs]
        norm_num

theorem jointsFold_eq (qpos qpos0 : Int → ℝ) (js : List (Joint ℝ)) (s : Pose ℝ) (hs : nrm2 s.quat = 1)
    (hj : ∀ j ∈ js, JointOK qpos j) :
    jointsFoldW qpos qpos0 js s = jointsFold qpos qpos0 js s ∧ nrm2 (jointsFoldW qpos qpos0 js s).1.quat = 1 := by
  induction js generalizing s with
  | nil => exact ⟨rfl, hs⟩
  | cons j js ih =>
    obtain ⟨h1, h2⟩ := jointApply_eq qpos qpos0 j s hs (hj j List.mem_cons_self)
    obtain ⟨h3, h4⟩ := ih (jointApplyW qpos qpos0 j s).1 h2 (fun j' hj' => hj j' (List.mem_cons_of_mem _ hj'))
    simp only [jointsFoldW, jointsFold]
    refine ⟨?_, h4⟩
    rw [h3, h1]

/-! ### one body -/

/-- the quaternion of the body frame the kernel starts from (mocap quaternion if mocap, else body_quat) -/
def selQuat (bp : BodyParams ℝ) : Q ℝ :=
  match bp.mocap with
  | some (_, mq) => mq
  | none => bp.quat

/-- hypotheses on one body: the selected quaternion is unit (compiler-normalised `body_quat`; a unit `mocap_quat`),
    its joints are OK, and a FREE body's quaternion in qpos is regular -/
structure BodyOK (bp : BodyParams ℝ) (joints : List (Joint ℝ)) (qpos : Int → ℝ) : Prop where
  quat : nrm2 (selQuat bp) = 1
  jnt : ∀ j ∈ joints, JointOK qpos j
  free : ∀ j, joints = [j] → j.type = 0 → Regular (qposQuat qpos (j.qadr + 3))

/-- the world pose that `make_data` stores in `xpos[:,0]`, `xquat[:,0]` and MuJoCo re-sets in every call -/
def worldPose : Pose ℝ := ⟨⟨0, 0, 0⟩, ⟨1, 0, 0, 0⟩⟩

theorem bodyFrame_eq_some (P : Pose ℝ) (bp : BodyParams ℝ) (hq : nrm2 (selQuat bp) = 1) :
    bodyFrameW (some P) bp = bodyFrame (some P) bp := by
  unfold bodyFrameW bodyFrame
  rcases hm : bp.mocap with _ | ⟨mp, mq⟩
  · simp only [mat_mulVec_eq, mulQuat_eq]
  · have : nrm2 mq = 1 := by simpa [selQuat, hm] using hq
    simp only [mat_mulVec_eq, mulQuat_eq, normalize4_unit this]

/-- composing with the stored world pose (0, identity) is MuJoCo's `pid == 0` copy -/
theorem bodyFrame_eq_world (bp : BodyParams ℝ) (hq : nrm2 (selQuat bp) = 1) :
    bodyFrameW (some worldPose) bp = bodyFrame none bp := by
  unfold bodyFrameW bodyFrame worldPose
  rcases hm : bp.mocap with _ | ⟨mp, mq⟩
  · simp only
    congr 1
    · apply V3.ext' <;>
        simp only [rot_vec_quat, V3.add, V3.smul, V3.dot, V3.cross, hadd, hsub, hmul, slit] <;> norm_num
    · apply Q.ext' <;> simp only [mul_quat, hadd, hsub, hmul] <;> ring
  · have : nrm2 mq = 1 := by simpa [selQuat, hm] using hq
    simp only [normalize4_unit this]
    congr 1
    · apply V3.ext' <;>
        simp only [rot_vec_quat, V3.add, V3.smul, V3.dot, V3.cross, hadd, hsub, hmul, slit] <;> norm_num
    · apply Q.ext' <;> simp only [mul_quat, hadd, hsub, hmul] <;> ring

theorem bodyFrameW_unit_some (P : Pose ℝ) (bp : BodyParams ℝ) (hP : nrm2 P.quat = 1) (hq : nrm2 (selQuat bp) = 1) :
    nrm2 (bodyFrameW (some P) bp).quat = 1 := by
  unfold bodyFrameW
  rcases hm : bp.mocap with _ | ⟨mp, mq⟩
  · have : nrm2 bp.quat = 1 := by simpa [selQuat, hm] using hq
    simp only [nrm2_mul_quat, hP, this]; ring
  · have : nrm2 mq = 1 := by simpa [selQuat, hm] using hq
    simp only [nrm2_mul_quat, hP, this]; ring

/-- `parent' = some P` (a body whose parent is not the world) or `parent' = none` (parent is the world, whose
    stored pose must be (0, identity)) -/
def parentW : Option (Pose ℝ) → Option (Pose ℝ)
  | some P => some P
  | none => some worldPose

theorem regularBody_eq (parent : Option (Pose ℝ)) (bp : BodyParams ℝ) (joints : List (Joint ℝ)) (qpos qpos0 : Int → ℝ)
    (hP : ∀ P, parent = some P → nrm2 P.quat = 1) (hq : nrm2 (selQuat bp) = 1) (hj : ∀ j ∈ joints, JointOK qpos j) :
    regularBodyW (parentW parent) bp joints qpos qpos0 = regularBody parent bp joints qpos qpos0 := by
  have hframe : bodyFrameW (parentW parent) bp = bodyFrame parent bp ∧ nrm2 (bodyFrameW (parentW parent) bp).quat = 1 := by
    cases parent with
    | some P => exact ⟨bodyFrame_eq_some P bp hq, bodyFrameW_unit_some P bp (hP P rfl) hq⟩
    | none =>
      refine ⟨bodyFrame_eq_world bp hq, bodyFrameW_unit_some worldPose bp ?_ hq⟩
      norm_num [worldPose, nrm2]
  obtain ⟨hf, hu⟩ := hframe
  obtain ⟨h1, h2⟩ := jointsFold_eq qpos qpos0 joints _ hu hj
  unfold regularBodyW regularBody
  rw [← hf, ← h1]
  simp only [wp_normalize_unit h2, normalize4_unit h2]

theorem freeBody_eq (j : Joint ℝ) (qpos : Int → ℝ) (hr : Regular (qposQuat qpos (j.qadr + 3))) :
    freeBodyW j qpos = freeBody j qpos := by
  unfold freeBodyW freeBody
  simp only [normalize4_regular hr, normalize4_unit (normalize_unit _)]

/-- **the kernel's normal form of one body iteration equals MuJoCo's** -/
theorem kinBodyW_eq_spec (parent : Option (Pose ℝ)) (bp : BodyParams ℝ) (joints : List (Joint ℝ)) (qpos qpos0 : Int → ℝ)
    (hP : ∀ P, parent = some P → nrm2 P.quat = 1) (hb : BodyOK bp joints qpos) :
    kinBodyW (parentW parent) bp joints qpos qpos0 = kinBody parent bp joints qpos qpos0 := by
  have hreg := regularBody_eq parent bp joints qpos qpos0 hP hb.quat hb.jnt
  match joints, hb, hreg with
  | [], _, hreg => exact hreg
  | [j], hb, hreg =>
    simp only [kinBodyW, kinBody, jFREE]
    by_cases h0 : j.type = 0
    · simp only [h0, if_true]
      exact freeBody_eq j qpos (hb.free j rfl h0)
    · simp only [h0, if_false]
      exact hreg
  | _ :: _ :: _, _, hreg => exact hreg

/-- every pose the kernel writes carries a unit quaternion — no hypothesis at all -/
theorem kinBodyW_unit (parent : Option (Pose ℝ)) (bp : BodyParams ℝ) (joints : List (Joint ℝ)) (qpos qpos0 : Int → ℝ) :
    nrm2 (kinBodyW parent bp joints qpos qpos0).pose.quat = 1 := by
  have hreg : nrm2 (regularBodyW parent bp joints qpos qpos0).pose.quat = 1 := normalize_unit _
  match joints, hreg with
  | [], hreg => exact hreg
  | [j], hreg =>
    simp only [kinBodyW]
    by_cases h0 : j.type = 0
    · simp only [h0, if_true]; exact normalize_unit _
    · simp only [h0, if_false]; exact hreg
  | _ :: _ :: _, hreg => exact hreg

/-- a mocap body (child of the world, no joints) with a NON-unit but regular `mocap_quat`: mujoco_warp composes the
    raw quaternion with the world pose and normalises at the end, MuJoCo normalises first (and again at the end) —
    same result -/
theorem mocap_body_eq_spec (bp : BodyParams ℝ) (mp : V3 ℝ) (mq : Q ℝ) (hm : bp.mocap = some (mp, mq)) (hr : Regular mq)
    (qpos qpos0 : Int → ℝ) :
    kinBodyW (some worldPose) bp [] qpos qpos0 = kinBody none bp [] qpos qpos0 := by
  have hf : bodyFrameW (some worldPose) bp = ⟨mp, mq⟩ := by
    unfold bodyFrameW worldPose
    rw [hm]
    simp only
    congr 1
    · apply V3.ext' <;>
        simp only [rot_vec_quat, V3.add, V3.smul, V3.dot, V3.cross, hadd, hsub, hmul, slit] <;> norm_num
    · apply Q.ext' <;> simp only [mul_quat, hadd, hsub, hmul] <;> ring
  have hs : bodyFrame none bp = ⟨mp, normalize4 mq⟩ := by
    unfold bodyFrame; rw [hm]
  show regularBodyW (some worldPose) bp [] qpos qpos0 = regularBody none bp [] qpos qpos0
  unfold regularBodyW regularBody
  simp only [jointsFoldW, jointsFold, hf, hs, normalize4_regular hr, normalize4_unit (normalize_unit _)]

/-! ### the chain -/

/-- **the kernel's chain recursion equals MuJoCo's sequential recursion**, when the stored world pose is
    (0, identity) and every body of the chain prefix satisfies `BodyOK` -/
theorem kinChainW_eq_spec (bp : Nat → BodyParams ℝ) (jn : Nat → List (Joint ℝ)) (qpos qpos0 : Int → ℝ) (i : Nat)
    (hb : ∀ k, k ≤ i → BodyOK (bp k) (jn k) qpos) :
    kinChainW (some worldPose) bp jn qpos qpos0 i = kinChain bp jn qpos qpos0 i := by
  induction i with
  | zero =>
    exact kinBodyW_eq_spec none (bp 0) (jn 0) qpos qpos0 (fun P h => by cases h) (hb 0 (Nat.le_refl _))
  | succ i ih =>
    have ih' := ih (fun k hk => hb k (by omega))
    simp only [kinChainW, kinChain]
    rw [← ih']
    exact kinBodyW_eq_spec (some (kinChainW (some worldPose) bp jn qpos qpos0 i).pose) (bp (i + 1)) (jn (i + 1)) qpos qpos0
      (fun P h => by
        have : P = (kinChainW (some worldPose) bp jn qpos qpos0 i).pose := by injection h with h; exact h.symm
        subst this
        cases i <;> exact kinBodyW_unit _ _ _ _ _)
      (hb (i + 1) (Nat.le_refl _))

/-! ### what `Spec.kinBody` is, per joint type (single-joint bodies; closed forms, any scalar type) -/

section closed_forms
variable {K : Type} [Scalar K]

/-- FREE: position and (twice normalised) quaternion straight from qpos; anchor = position, axis = jnt_axis -/
theorem kinBody_free (parent : Option (Pose K)) (bp : BodyParams K) (j : Joint K) (qpos qpos0 : Int → K)
    (h : j.type = 0) :
    kinBody parent bp [j] qpos qpos0
      = ⟨⟨⟨qpos j.qadr, qpos (j.qadr + 1), qpos (j.qadr + 2)⟩, normalize4 (normalize4 (qposQuat qpos (j.qadr + 3)))⟩,
         [(⟨qpos j.qadr, qpos (j.qadr + 1), qpos (j.qadr + 2)⟩, j.axis)]⟩ := by
  simp [kinBody, freeBody, jFREE, h]

/-- SLIDE: translate along the rotated axis by `qpos − qpos0`; orientation = normalised frame orientation -/
theorem kinBody_slide (parent : Option (Pose K)) (bp : BodyParams K) (j : Joint K) (qpos qpos0 : Int → K)
    (h : j.type = 2) :
    kinBody parent bp [j] qpos qpos0
      = (let F := bodyFrame parent bp
         let xaxis := rotVecQuat j.axis F.quat
         ⟨⟨V3.add F.pos (V3.muls xaxis (qpos j.qadr - qpos0 j.qadr)), normalize4 F.quat⟩,
          [(V3.add (rotVecQuat j.pos F.quat) F.pos, xaxis)]⟩) := by
  simp [kinBody, regularBody, jointsFold, jointApply, jFREE, jSLIDE, h]

/-- HINGE: rotate by `qpos − qpos0` about the axis through the anchor -/
theorem kinBody_hinge (parent : Option (Pose K)) (bp : BodyParams K) (j : Joint K) (qpos qpos0 : Int → K)
    (h : j.type = 3) :
    kinBody parent bp [j] qpos qpos0
      = (let F := bodyFrame parent bp
         let xanchor := V3.add (rotVecQuat j.pos F.quat) F.pos
         let q := mulQuat F.quat (axisAngle2Quat j.axis (qpos j.qadr - qpos0 j.qadr))
         ⟨⟨V3.sub xanchor (rotVecQuat j.pos q), normalize4 q⟩, [(xanchor, rotVecQuat j.axis F.quat)]⟩) := by
  simp [kinBody, regularBody, jointsFold, jointApply, jFREE, jSLIDE, jBALL, jHINGE, h]

/-- BALL: rotate by the normalised quaternion in qpos about the anchor -/
theorem kinBody_ball (parent : Option (Pose K)) (bp : BodyParams K) (j : Joint K) (qpos qpos0 : Int → K)
    (h : j.type = 1) :
    kinBody parent bp [j] qpos qpos0
      = (let F := bodyFrame parent bp
         let xanchor := V3.add (rotVecQuat j.pos F.quat) F.pos
         let q := mulQuat F.quat (normalize4 (qposQuat qpos j.qadr))
         ⟨⟨V3.sub xanchor (rotVecQuat j.pos q), normalize4 q⟩, [(xanchor, rotVecQuat j.axis F.quat)]⟩) := by
  simp [kinBody, regularBody, jointsFold, jointApply, jFREE, jSLIDE, jBALL, jHINGE, h]

/-- several joints per body = fold of `jointApply` over the body's joints, in order -/
theorem kinBody_joints (parent : Option (Pose K)) (bp : BodyParams K) (j1 j2 : Joint K) (js : List (Joint K))
    (qpos qpos0 : Int → K) :
    kinBody parent bp (j1 :: j2 :: js) qpos qpos0
      = (let r := jointsFold qpos qpos0 (j1 :: j2 :: js) (bodyFrame parent bp)
         ⟨⟨r.1.pos, normalize4 r.1.quat⟩, r.2⟩) := rfl

end closed_forms


/-- the thread reads the stored world pose (0, identity) for the parent of the chain root -/
theorem parentOf_root (a : KinArgs ℝ) (w br : Int) (h : WF a br) (hlen : 0 < chainLen a br)
    (hwp : a.xpos_out w 0 = ⟨0, 0, 0⟩) (hwq : a.xquat_out w 0 = ⟨1, 0, 0, 0⟩) :
    parentOf a w [] (chainBody a br 0) = some worldPose := by
  unfold parentOf
  rw [h.root hlen, if_pos (le_refl _)]
  simp only [Write.lookupV, List.foldl_nil, hwp, hwq, V3_ofList_toList, Q_ofList_toList, worldPose]


open Mjw.Lemmas.C01Tree in
/-- `Spec.comBackward` (`for i = n-1 … 1: com[parent i] += com[i]`) is the abstract `seqAcc` at `V3.add` -/
theorem comBackward_eq_seqAcc {K : Type} [Scalar K] (p : Nat → Nat) : ∀ (n : Nat) (c : Nat → V3 K),
    comBackward p n c = seqAcc V3.add p n c
  | 0, _ => rfl
  | 1, _ => rfl
  | n + 2, c => by rw [comBackward, seqAcc]; exact comBackward_eq_seqAcc p (n + 1) _

theorem v3_add_comm (a b : V3 ℝ) : V3.add a b = V3.add b a := by
  apply V3.ext' <;> simp only [V3.add, hadd] <;> ring
theorem v3_add_assoc (a b c : V3 ℝ) : V3.add (V3.add a b) c = V3.add a (V3.add b c) := by
  apply V3.ext' <;> simp only [V3.add, hadd] <;> ring


/-! ### a concrete two-body chain meeting every hypothesis (used by the `example`s of Props/C01) -/

/-- world 0 + body 1 (FREE joint 0, qpos 0..6) + body 2 = child of 1 (HINGE joint 1 about z, qpos 7);
    one branch `[1, 2]`; qpos = (0,0,0, 1,0,0,0, 0) -/
noncomputable def exArgs : KinArgs ℝ where
  qpos0 := fun _ _ => 0
  body_parentid := fun b => b - 1
  body_mocapid := fun _ => -1
  body_jntnum := fun _ => 1
  body_jntadr := fun b => b - 1
  body_pos := fun _ _ => ⟨1, 0, 0⟩
  body_quat := fun _ _ => ⟨1, 0, 0, 0⟩
  jnt_type := fun j => if j = 0 then 0 else 3
  jnt_qposadr := fun j => if j = 0 then 0 else 7
  jnt_pos := fun _ _ => ⟨0, 0, 0⟩
  jnt_axis := fun _ _ => ⟨0, 0, 1⟩
  body_branches := fun i => i + 1
  body_branch_start := fun b => if b = 0 then 0 else 2
  qpos_in := fun _ i => if i = 3 then 1 else 0
  mocap_pos_in := fun _ _ => ⟨0, 0, 0⟩
  mocap_quat_in := fun _ _ => ⟨1, 0, 0, 0⟩
  xpos_out := fun _ _ => ⟨0, 0, 0⟩
  xquat_out := fun _ _ => ⟨1, 0, 0, 0⟩
  xanchor_out := fun _ _ => ⟨0, 0, 0⟩
  xaxis_out := fun _ _ => ⟨0, 0, 0⟩
  jnt_axis_shape0 := 1
  jnt_pos_shape0 := 1
  body_pos_shape0 := 1
  body_quat_shape0 := 1
  qpos0_shape0 := 1

theorem exArgs_chainLen : chainLen exArgs 0 = 2 := by simp [chainLen, exArgs]
theorem exArgs_chainBody (k : Nat) : chainBody exArgs 0 k = (k : Int) + 1 := by simp [chainBody, exArgs]

/-- the example chain is well formed (`WF`, hence `Linked`) -/
theorem exArgs_wf : WF exArgs 0 where
  linked := by
    intro k hk
    rw [exArgs_chainLen] at hk
    have : k = 0 := by omega
    subst this
    simp only [exArgs_chainBody]
    simp [exArgs]
  root := by intro _; simp only [exArgs_chainBody]; simp [exArgs]
  pos := by intro k _; rw [exArgs_chainBody]; omega

/-- every body of the example chain satisfies `BodyOK` -/
theorem exArgs_bodyOK (k : Nat) (hk : k < chainLen exArgs 0) :
    BodyOK (bpAt exArgs 0 (chainBody exArgs 0 k)) (jointsOf exArgs 0 (chainBody exArgs 0 k)) (exArgs.qpos_in 0) := by
  rw [exArgs_chainLen] at hk
  have hunit : nrm2 (⟨1, 0, 0, 0⟩ : Q ℝ) = 1 := by norm_num [nrm2]
  rcases (by omega : k = 0 ∨ k = 1) with rfl | rfl
  · have hj : jointsOf exArgs 0 (chainBody exArgs 0 0) = [⟨0, 0, ⟨0, 0, 0⟩, ⟨0, 0, 1⟩⟩] := by
      simp only [exArgs_chainBody]
      simp [jointsOf, jointList, jointAt, exArgs]
    rw [hj]
    refine ⟨?_, ?_, ?_⟩
    · simpa [selQuat, bpAt, exArgs] using hunit
    · intro j hj'
      simp only [List.mem_singleton] at hj'
      subst hj'
      exact ⟨fun h => by simp at h, fun h => by simp at h⟩
    · intro j hj' _
      have : j = ⟨0, 0, ⟨0, 0, 0⟩, ⟨0, 0, 1⟩⟩ := by simpa using hj'.symm
      subst this
      apply regular_of_unit
      simp [qposQuat, exArgs, nrm2]
  · have hj : jointsOf exArgs 0 (chainBody exArgs 0 1) = [⟨3, 7, ⟨0, 0, 0⟩, ⟨0, 0, 1⟩⟩] := by
      simp only [exArgs_chainBody]
      simp [jointsOf, jointList, jointAt, exArgs]
    rw [hj]
    refine ⟨?_, ?_, ?_⟩
    · simpa [selQuat, bpAt, exArgs] using hunit
    · intro j hj'
      simp only [List.mem_singleton] at hj'
      subst hj'
      exact ⟨fun _ => by norm_num [vnrm2], fun h => by simp at h⟩
    · intro j hj' h0
      have : j = ⟨3, 7, ⟨0, 0, 0⟩, ⟨0, 0, 1⟩⟩ := by simpa using hj'.symm
      subst this
      simp at h0


end Mjw.Lemmas.C01R
