/-
  Helper lemmas for Props/C39 (contact_force).
-/
import MjwVerif.Lemmas.Real
import MjwVerif.Gen.Support
import MjwVerif.Spec.ContactForce

set_option linter.unusedVariables false
set_option linter.unusedSimpArgs false

namespace Mjw.Lemmas.C39
open Mjw Mjw.Gen.Support Mjw.Spec.ContactForce

/-- the edge-force array seen through the `adr < njmax_in` guard of `_decode_pyramid`:
    rows at or beyond `njmax_in` read as 0 -/
def masked {K : Type} [Scalar K] (njmax : Int) (p : Int → K) (adr : Int) : Int → K :=
  fun k => if adr + k < njmax then p (adr + k) else Scalar.lit 0 0

/-- the edge-force array relative to the contact's first row: `efc_force + efc_address` -/
def shifted {K : Type} (p : Int → K) (adr : Int) : Int → K := fun k => p (adr + k)

theorem masked_eq_shifted {K : Type} [Scalar K] (njmax : Int) (p : Int → K) (adr k : Int)
    (h : adr + k < njmax) : masked njmax p adr k = shifted p adr k := by
  simp [masked, shifted, h]

/-! ### `_decode_pyramid` against the spec, rows ≥ njmax read as 0 -/

theorem decode1 (njmax : Int) (p : Int → ℝ) (adr : Int) (mu : V5 ℝ) :
    _decode_pyramid njmax p adr mu 1 = decodePyramid (shifted p adr) mu 1 := by
  simp [_decode_pyramid, decodePyramid, shifted, V6.zero, V6.fill]

theorem decode3_masked (njmax : Int) (p : Int → ℝ) (adr : Int) (mu : V5 ℝ) :
    _decode_pyramid njmax p adr mu 3 = decodePyramid (masked njmax p adr) mu 3 := by
  simp [_decode_pyramid, decodePyramid, forRange, List.range_succ, V6.set, V5.get, V6.zero, V6.fill,
    tangent, sumTo, masked]
  ring_nf
  simp

theorem decode4_masked (njmax : Int) (p : Int → ℝ) (adr : Int) (mu : V5 ℝ) :
    _decode_pyramid njmax p adr mu 4 = decodePyramid (masked njmax p adr) mu 4 := by
  simp [_decode_pyramid, decodePyramid, forRange, List.range_succ, V6.set, V5.get, V6.zero, V6.fill,
    tangent, sumTo, masked]
  ring_nf
  simp

theorem decode6_masked (njmax : Int) (p : Int → ℝ) (adr : Int) (mu : V5 ℝ) :
    _decode_pyramid njmax p adr mu 6 = decodePyramid (masked njmax p adr) mu 6 := by
  simp [_decode_pyramid, decodePyramid, forRange, List.range_succ, V6.set, V5.get, V6.zero, V6.fill,
    tangent, sumTo, masked]
  ring_nf
  simp

/-- the spec only looks at edge forces `0 ≤ k < max 1 (2(dim-1))` -/
theorem decodePyramid_congr (p q : Int → ℝ) (mu : V5 ℝ) (dim : Int)
    (hd : dim = 1 ∨ dim = 3 ∨ dim = 4 ∨ dim = 6)
    (h : ∀ k, 0 ≤ k → (k < 1 ∨ k < 2 * (dim - 1)) → p k = q k) :
    decodePyramid p mu dim = decodePyramid q mu dim := by
  rcases hd with rfl | rfl | rfl | rfl
  · simp [decodePyramid, h 0]
  · simp [decodePyramid, tangent, sumTo, h 0, h 1, h 2, h 3]
  · simp [decodePyramid, tangent, sumTo, h 0, h 1, h 2, h 3, h 4, h 5]
  · simp [decodePyramid, tangent, sumTo, h 0, h 1, h 2, h 3, h 4, h 5, h 6, h 7, h 8, h 9]

/-! ### spec round trip `decode ∘ encode = id` -/

theorem decode_encode1 (f : V6 ℝ) (mu : V5 ℝ)
    (hz : f.c1 = 0 ∧ f.c2 = 0 ∧ f.c3 = 0 ∧ f.c4 = 0 ∧ f.c5 = 0) :
    decodePyramid (encodePyramid f mu 1) mu 1 = f := by
  obtain ⟨h1, h2, h3, h4, h5⟩ := hz
  apply V6.ext' <;> simp [decodePyramid, encodePyramid, *]

theorem decode_encode3 (f : V6 ℝ) (mu : V5 ℝ) (hz : f.c3 = 0 ∧ f.c4 = 0 ∧ f.c5 = 0)
    (hm : mu.c0 ≠ 0 ∧ mu.c1 ≠ 0) :
    decodePyramid (encodePyramid f mu 3) mu 3 = f := by
  obtain ⟨h3, h4, h5⟩ := hz
  obtain ⟨m0, m1⟩ := hm
  apply V6.ext' <;> simp [decodePyramid, encodePyramid, tangent, sumTo, V6.get, V5.get, *] <;>
    norm_num <;> field_simp <;> ring

theorem decode_encode4 (f : V6 ℝ) (mu : V5 ℝ) (hz : f.c4 = 0 ∧ f.c5 = 0)
    (hm : mu.c0 ≠ 0 ∧ mu.c1 ≠ 0 ∧ mu.c2 ≠ 0) :
    decodePyramid (encodePyramid f mu 4) mu 4 = f := by
  obtain ⟨h4, h5⟩ := hz
  obtain ⟨m0, m1, m2⟩ := hm
  apply V6.ext' <;> simp [decodePyramid, encodePyramid, tangent, sumTo, V6.get, V5.get, *] <;>
    norm_num <;> field_simp <;> ring

theorem decode_encode6 (f : V6 ℝ) (mu : V5 ℝ)
    (hm : mu.c0 ≠ 0 ∧ mu.c1 ≠ 0 ∧ mu.c2 ≠ 0 ∧ mu.c3 ≠ 0 ∧ mu.c4 ≠ 0) :
    decodePyramid (encodePyramid f mu 6) mu 6 = f := by
  obtain ⟨m0, m1, m2, m3, m4⟩ := hm
  apply V6.ext' <;> simp [decodePyramid, encodePyramid, tangent, sumTo, V6.get, V5.get, *] <;>
    norm_num <;> field_simp <;> ring

/-! ### friction-pyramid inequalities -/

theorem abs_diff_mul_le (a b s m : ℝ) (ha : 0 ≤ a) (hb : 0 ≤ b) (hm : 0 ≤ m) (hs : a + b ≤ s) :
    |(a - b) * m| ≤ m * s := by
  rw [abs_mul, abs_of_nonneg hm]
  have : |a - b| ≤ a + b := abs_le.mpr ⟨by linarith, by linarith⟩
  nlinarith

theorem abs_diff_mul_div (a b m : ℝ) (hm : 0 < m) : |(a - b) * m| / m = |a - b| := by
  rw [abs_mul, abs_of_pos hm]; field_simp

theorem abs_sub_le_add (a b : ℝ) (ha : 0 ≤ a) (hb : 0 ≤ b) : |a - b| ≤ a + b :=
  abs_le.mpr ⟨by linarith, by linarith⟩

/-! ### structure of `contact_force_fn` -/

theorem vecMul_eq (v : V3 ℝ) (F : M33 ℝ) : M33.vecMul v F = M33.mulVec (M33.transpose F) v := by
  apply V3.ext' <;> simp [M33.vecMul, M33.mulVec, M33.transpose] <;> ring

/-- the elliptic copy loop of `contact_force_fn` -/
def ellLoop {K : Type} [Scalar K] (adr : Int → Int) (efc : Int → K) (njmax dim : Int) : V6 K :=
  forRange 0 dim (⟨Scalar.lit 0 0, Scalar.lit 0 0, Scalar.lit 0 0, Scalar.lit 0 0, Scalar.lit 0 0,
      Scalar.lit 0 0⟩ : V6 K)
    (fun i st => if adr i < njmax then V6.set st i (efc (adr i)) else st)

/-- row `i` of an elliptic contact seen through the `address < njmax_in` guard (skipped rows stay 0) -/
def ellMasked {K : Type} [Scalar K] (njmax : Int) (adr : Int → Int) (efc : Int → K) : Int → K :=
  fun i => if adr i < njmax then efc (adr i) else Scalar.lit 0 0

theorem ite_set {c : Prop} [Decidable c] (st : V6 ℝ) (i : Int) (x : ℝ) :
    (if c then V6.set st i x else st) = V6.set st i (if c then x else V6.get st i) := by
  split_ifs
  · rfl
  · simp only [V6.set, V6.get]; split_ifs <;> rfl

theorem ellLoop_eq (adr : Int → Int) (efc : Int → ℝ) (njmax dim : Int)
    (hd : dim = 1 ∨ dim = 3 ∨ dim = 4 ∨ dim = 6) :
    ellLoop adr efc njmax dim = copyRows (ellMasked njmax adr efc) dim := by
  rcases hd with rfl | rfl | rfl | rfl <;>
    simp only [ellLoop, copyRows, ellMasked, forRange, ite_set] <;>
    simp [List.range_succ, V6.set, V6.get]

section fn
variable (cone : Int) (frame : Int → M33 ℝ) (fric : Int → V5 ℝ) (dim : Int → Int) (adr : Int → Int → Int)
  (adh : Int → ℝ) (efc : Int → Int → ℝ) (njmax : Int) (nacon : Int → Int) (w id : Int)

theorem fn_world :
    contact_force_fn cone frame fric dim adr adh efc njmax nacon w id true
      = toWorld (frame id) (contact_force_fn cone frame fric dim adr adh efc njmax nacon w id false) := by
  simp only [toWorld, ← vecMul_eq]
  rfl

theorem fn_local_active (h0 : 0 ≤ id) (h1 : id ≤ nacon 0) (h2 : 0 ≤ adr id 0) :
    contact_force_fn cone frame fric dim adr adh efc njmax nacon w id false
      = (let f := if cone = 0 then _decode_pyramid njmax (efc w) (adr id 0) (fric id) (dim id)
                  else ellLoop (adr id) (efc w) njmax (dim id)
         { f with c0 := f.c0 - adh id }) := by
  simp [contact_force_fn, ellLoop, h0, h1, h2]

theorem fn_local_inactive (h : ¬ (0 ≤ id ∧ id ≤ nacon 0 ∧ 0 ≤ adr id 0)) :
    contact_force_fn cone frame fric dim adr adh efc njmax nacon w id false = V6.zero := by
  have h' : ¬ ((0 ≤ id ∧ id ≤ nacon 0) ∧ 0 ≤ adr id 0) := by tauto
  simp [contact_force_fn, h', V6.zero, V6.fill]

end fn

theorem toWorld_zero (F : M33 ℝ) : toWorld F (V6.zero : V6 ℝ) = V6.zero := by
  simp [toWorld, V6.zero, V6.fill, V6.ofV3, V6.top, V6.bottom, M33.mulVec]

/-- `‖Fᵀ v‖² = ‖v‖²` when the rows of `F` are orthonormal (`F·Fᵀ = I`) -/
theorem orth_norm (F : M33 ℝ) (v : V3 ℝ) (h : M33.mul F (M33.transpose F) = M33.identity) :
    V3.dot (M33.mulVec (M33.transpose F) v) (M33.mulVec (M33.transpose F) v) = V3.dot v v := by
  have e := h
  simp only [M33.mul, M33.transpose, M33.identity, M33.mk.injEq, hadd, hmul, slit] at e
  norm_num at e
  obtain ⟨h00, h01, h02, h10, h11, h12, h20, h21, h22⟩ := e
  simp only [V3.dot, M33.mulVec, M33.transpose, hadd, hmul]
  linear_combination v.c0 * v.c0 * h00 + v.c0 * v.c1 * h01 + v.c0 * v.c2 * h02 + v.c1 * v.c0 * h10
    + v.c1 * v.c1 * h11 + v.c1 * v.c2 * h12 + v.c2 * v.c0 * h20 + v.c2 * v.c1 * h21 + v.c2 * v.c2 * h22

end Mjw.Lemmas.C39
