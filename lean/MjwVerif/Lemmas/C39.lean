/-
  Helper lemmas for Props/C39 (contact_force).
-/
import MjwVerif.Lemmas.Real
import MjwVerif.Gen.Support
import MjwVerif.Spec.ContactForce

set_option linter.unusedVariables false
set_option linter.unusedSimpArgs false

namespace Mjw.Lemmas.C39
open Mjw Mjw.Gen.Support Mjw.Spec.ContactForce

/-- the edge-force array seen through the `adr < njmax_in` guard of `_decode_pyramid`:
    rows at or beyond `njmax_in` read as 0 -/
def masked {K : Type} [Scalar K] (njmax : Int) (p : Int → K) (adr : Int) : Int → K :=
  fun k => if adr + k < njmax then p (adr + k) else Scalar.lit 0 0

/-- the edge-force array relative to the contact's first row -/
def shifted {K : Type} (p : Int → K) (adr : Int) : Int → K := fun k => p (adr + k)

theorem forRange_unfold {σ : Type} (n : Nat) (init : σ) (f : Int → σ → σ) :
    forRange 0 (Int.ofNat n) init f = (List.range n).foldl (fun s k => f (Int.ofNat k) s) init := by
  simp [forRange]

theorem decode3_masked (njmax : Int) (p : Int → ℝ) (adr : Int) (mu : V5 ℝ) :
    _decode_pyramid njmax p adr mu 3 = decodePyramid (masked njmax p adr) mu 3 := by
  simp [_decode_pyramid, decodePyramid, forRange, List.range_succ, V6.set, V5.get, V6.zero, V6.fill,
    tangent, sumTo, masked]
  ring_nf
  trace_state
  sorry

end Mjw.Lemmas.C39
