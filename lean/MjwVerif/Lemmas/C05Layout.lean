/-
  C05 helper lemmas, launch level:
  * the arena model threaded through a sequence of launches (`Spec/MakeConstraint.lean`);
  * a counter that only receives atomic adds ends at `initial + Σ contrib`, whatever the interleaving.
-/
import MjwVerif.Lemmas.C05
import MjwVerif.Spec.MakeConstraint

namespace Mjw.Lemmas.C05
open Mjw Mjw.Alloc Mjw.Lemmas.C16 Mjw.Spec.MakeConstraint

/-! ### arena, launch by launch -/

theorem final_nonneg (l : List Req) : 0 ≤ final l := finalFrom_ge l 0

theorem finalFrom_eq_final (l : List Req) (c : Int) : finalFrom l c = c + final l := finalFrom_eq l c

theorem runFrom_append (guard : Guard) (C : Int) (a b : List Req) (c : Int) :
    runFrom guard C (a ++ b) c = runFrom guard C a c ++ runFrom guard C b (finalFrom a c) := by
  induction a generalizing c with
  | nil => rfl
  | cons q qs ih => simp only [List.cons_append, runFrom, finalFrom, ih]

theorem finalFrom_append (a b : List Req) (c : Int) : finalFrom (a ++ b) c = finalFrom b (finalFrom a c) := by
  induction a generalizing c with
  | nil => rfl
  | cons q qs ih => simp only [List.cons_append, finalFrom, ih]

theorem final_append (a b : List Req) : final (a ++ b) = final a + final b := by
  unfold final
  rw [finalFrom_append, finalFrom_eq_final]
  rfl

theorem final_nil : final [] = 0 := rfl

/-- the launches run back to back on the same counter: concatenating the per-launch grant lists gives the run of
    the concatenated order -/
theorem runLaunches_flatten (guard : Guard) (C : Int) (os : List (List Req)) (c : Int) :
    (runLaunches guard C os c).flatten = runFrom guard C os.flatten c := by
  induction os generalizing c with
  | nil => rfl
  | cons o os ih => simp only [runLaunches, List.flatten_cons, runFrom_append, ih]

/-- every block of a run lies in `[c, c + Σk)` -/
theorem mem_runFrom_range (guard : Guard) (C : Int) (l : List Req) (c : Int) (g : Grant)
    (hg : g ∈ runFrom guard C l c) : c ≤ g.off ∧ g.off + g.k ≤ c + final l := by
  have := mem_runFrom_bounds guard C l c g hg
  rw [finalFrom_eq_final] at this
  exact this

/-- the blocks of a run tile `[c, c + Σk)`: every index of the range lies in some block -/
theorem runFrom_covers (guard : Guard) (C : Int) (l : List Req) (c : Int) (r : Int)
    (h1 : c ≤ r) (h2 : r < finalFrom l c) : ∃ g ∈ runFrom guard C l c, g.off ≤ r ∧ r < g.off + g.k := by
  induction l generalizing c with
  | nil => simp only [finalFrom] at h2; omega
  | cons q qs ih =>
    simp only [finalFrom] at h2
    by_cases hr : r < c + q.k
    · exact ⟨_, by simp only [runFrom]; exact List.mem_cons_self, h1, hr⟩
    · obtain ⟨g, hg, hb⟩ := ih (c + q.k) (by omega) h2
      exact ⟨g, by simp only [runFrom]; exact List.mem_cons_of_mem _ hg, hb⟩

theorem isSchedule_cons_iff (l : Launch) (ls : List Launch) (os : List (List Req)) :
    IsSchedule (l :: ls) os ↔ ∃ o os', os = o :: os' ∧ o.Perm l.reqs ∧ IsSchedule ls os' := by
  cases os with
  | nil => simp [IsSchedule]
  | cons o os' => simp [IsSchedule]

theorem isSchedule_nil_iff (os : List (List Req)) : IsSchedule [] os ↔ os = [] := by
  cases os <;> simp [IsSchedule]

/-- a schedule of `make_constraint` is twelve orders, one per launch -/
theorem isSchedule_launches (R : Requests) (os : List (List Req)) (h : IsSchedule (launches R) os) :
    ∃ o1 o2 o3 o4 o5 o6 o7 o8 o9 o10 o11 o12, os = [o1, o2, o3, o4, o5, o6, o7, o8, o9, o10, o11, o12]
      ∧ o1.Perm R.connect ∧ o2.Perm R.weld ∧ o3.Perm R.joint ∧ o4.Perm R.tendon ∧ o5.Perm R.flex ∧ o6.Perm R.flexstrain
      ∧ o7.Perm R.frictionDof ∧ o8.Perm R.frictionTendon
      ∧ o9.Perm R.limitBall ∧ o10.Perm R.limitSlideHinge ∧ o11.Perm R.limitTendon ∧ o12.Perm R.contact := by
  simp only [launches, isSchedule_cons_iff, isSchedule_nil_iff] at h
  obtain ⟨o1, _, rfl, p1, o2, _, rfl, p2, o3, _, rfl, p3, o4, _, rfl, p4, o5, _, rfl, p5, o6, _, rfl, p6,
    o7, _, rfl, p7, o8, _, rfl, p8, o9, _, rfl, p9, o10, _, rfl, p10, o11, _, rfl, p11, o12, _, rfl, p12, rfl⟩ := h
  exact ⟨o1, o2, o3, o4, o5, o6, o7, o8, o9, o10, o11, o12, rfl, p1, p2, p3, p4, p5, p6, p7, p8, p9, p10, p11, p12⟩

/-- the blocks handed out in a launch lie in the index range of the launch's class -/
theorem launch_blocks_in_class_range (R : Requests) (os : List (List Req)) (h : IsSchedule (launches R) os)
    (guard : Guard) (C : Int) :
    ∀ p ∈ (launches R).zip (runLaunches guard C os 0), ∀ g ∈ p.2,
      lo R p.1.cls ≤ g.off ∧ g.off + g.k ≤ hi R p.1.cls := by
  obtain ⟨o1, o2, o3, o4, o5, o6, o7, o8, o9, o10, o11, o12, rfl, p1, p2, p3, p4, p5, p6, p7, p8, p9, p10, p11, p12⟩ :=
    isSchedule_launches R os h
  have e1 := final_perm p1; have e2 := final_perm p2; have e3 := final_perm p3; have e4 := final_perm p4
  have e5 := final_perm p5; have e6 := final_perm p6; have e7 := final_perm p7; have e8 := final_perm p8
  have e9 := final_perm p9; have e10 := final_perm p10; have e11 := final_perm p11; have e12 := final_perm p12
  have n1 := final_nonneg o1; have n2 := final_nonneg o2; have n3 := final_nonneg o3; have n4 := final_nonneg o4
  have n5 := final_nonneg o5; have n6 := final_nonneg o6; have n7 := final_nonneg o7; have n8 := final_nonneg o8
  have n9 := final_nonneg o9; have n10 := final_nonneg o10; have n11 := final_nonneg o11; have n12 := final_nonneg o12
  intro p hp g hg
  simp only [launches, runLaunches, List.zip_cons_cons, List.zip_nil_right, List.mem_cons, List.not_mem_nil,
    or_false, finalFrom_eq_final] at hp
  rcases hp with rfl | rfl | rfl | rfl | rfl | rfl | rfl | rfl | rfl | rfl | rfl | rfl <;>
  · have hb := mem_runFrom_range guard C _ _ g hg
    simp only [lo, hi, ne, nf, nl, nc]
    omega

/-! ### counters under atomic adds -/
section counters
variable {K : Type}

theorem lookupI_append (a b : List (Write K)) (arr : String) (idx : List Int) (v : Int) :
    Write.lookupI (a ++ b) arr idx v = Write.lookupI b arr idx (Write.lookupI a arr idx v) := by
  unfold Write.lookupI
  rw [List.foldl_append]

/-- a cell that receives only atomic adds (`aadd`/`alloc`) ends at `initial + contrib` -/
theorem lookupI_adds (tr : List (Write K)) (arr : String) (idx : List Int) (v : Int)
    (h : AllW (fun w => w.arr = arr → (w.kind = WKind.aadd ∨ w.kind = WKind.alloc)) tr) :
    Write.lookupI tr arr idx v = v + contrib arr idx tr := by
  induction tr generalizing v with
  | nil => simp [Write.lookupI, contrib]
  | cons w ws ih =>
    have hw := h w List.mem_cons_self
    have hws : AllW (fun w => w.arr = arr → (w.kind = WKind.aadd ∨ w.kind = WKind.alloc)) ws :=
      fun x hx => h x (List.mem_cons_of_mem _ hx)
    have e : Write.lookupI (w :: ws) arr idx v
        = Write.lookupI ws arr idx (Write.lookupI [w] arr idx v) := lookupI_append [w] ws arr idx v
    rw [e, ih _ hws, contrib_cons]
    have : Write.lookupI [w] arr idx v = v + addVal arr idx w := by
      obtain ⟨a, i, val, kind⟩ := w
      simp only [Write.lookupI, List.foldl_cons, List.foldl_nil, addVal, Bool.and_eq_true, beq_iff_eq]
      by_cases ha : a = arr
      · rcases hw ha with hk | hk
        · simp only at hk; subst hk
          by_cases hi : i = idx <;> cases val <;> simp [ha, hi]
        · simp only at hk; subst hk
          by_cases hi : i = idx <;> cases val <;> simp [ha, hi]
      · simp [ha]
    rw [this]; omega

theorem contrib_perm {a b : List (Write K)} (p : a.Perm b) (arr : String) (idx : List Int) :
    contrib arr idx a = contrib arr idx b := by
  unfold contrib
  exact (p.map _).sum_eq

theorem contrib_flatten (ths : List (List (Write K))) (arr : String) (idx : List Int) :
    contrib arr idx ths.flatten = (ths.map (contrib arr idx)).sum := by
  induction ths with
  | nil => rfl
  | cons t ts ih => simp only [List.flatten_cons, contrib_append, List.map_cons, List.sum_cons, ih]

theorem allW_perm {P : Write K → Prop} {a b : List (Write K)} (p : a.Perm b) (h : AllW P b) : AllW P a :=
  fun w hw => h w (p.subset hw)

theorem allW_flatten {P : Write K → Prop} (ths : List (List (Write K))) (h : ∀ t ∈ ths, AllW P t) :
    AllW P ths.flatten := by
  intro w hw
  obtain ⟨t, ht, hwt⟩ := List.mem_flatten.mp hw
  exact h t ht w hwt


open Classical in
/-- rows requested by a thread: `k` if it performs the allocating atomic on `nefc_out[wid]`, else none -/
noncomputable def requested (ws : List (Write K)) (wid k : Int) : Int :=
  if reached ws "nefc_out" [wid] then k else 0

theorem CountsAs.contrib_nefc {ws : List (Write K)} {ctr : String} {wid k : Int} (h : CountsAs ws ctr wid k) (w : Int) :
    contrib "nefc_out" [w] ws = if wid = w then requested ws wid k else 0 := by
  obtain ⟨_, h2, h3, h4, _, _⟩ := h
  unfold requested
  by_cases hw : wid = w
  · subst hw
    rw [if_pos rfl]
    by_cases hr : reached ws "nefc_out" [wid]
    · rw [if_pos hr]; exact h2 hr
    · rw [if_neg hr]; exact h3 hr
  · rw [if_neg hw]
    exact h4 [w] (by simpa using Ne.symm hw)

theorem CountsAs.contrib_class {ws : List (Write K)} {ctr : String} {wid k : Int} (h : CountsAs ws ctr wid k)
    (c : String) (hc : c ∈ ["ne_out", "nf_out", "nl_out"]) (w : Int) :
    contrib c [w] ws = if wid = w ∧ ctr = c then requested ws wid k else 0 := by
  by_cases hcc : ctr = c
  · subst hcc
    rw [h.1 [w], h.contrib_nefc w]
    by_cases hw : wid = w <;> simp [hw]
  · rw [if_neg (fun hh => hcc hh.2)]
    exact h.2.2.2.2.1 c hc (Ne.symm hcc) [w]

theorem sum_map_congr {α : Type} (l : List α) (f g : α → Int) (h : ∀ a ∈ l, f a = g a) :
    (l.map f).sum = (l.map g).sum := by
  rw [List.map_congr_left h]

end counters
end Mjw.Lemmas.C05
