/-
  Helper lemmas for property C03: the write list of the generated `_transmission` kernel (smooth.py) in the
  SITE branch with a reference site, over ℝ, on the smallest topology in which the two attachment points move
  differently: sites `0` and `1`, site `s` attached to body `s`; body `0` is the world (no dofs), body `1` has
  exactly one dof (dof `0`, without parent dof).  All real-valued inputs (site frames, `cdof`, `subtree_com`, gear),
  the world id, the actuator id, the batch sizes, the allocated row address and the fuel (≥ 2) are arbitrary.

  `simp` with the integer data as literals prunes the other five transmission branches and runs the three
  `whileFuel` loops (common-ancestor search, dof count, dof traversal); ~50 s per lemma.
-/
import MjwVerif.Lemmas.Real
import MjwVerif.Gen.Support
import MjwVerif.Gen.Smooth
open Mjw Mjw.Gen.Support Mjw.Gen.Smooth

namespace Mjw.Lemmas.C03Trn

theorem sbeq_false (a b : ℝ) : (Scalar.beq a b = false) ↔ a ≠ b := by simp [Scalar.beq]

/-- `body_dofnum` / `body_dofadr` of the two-body topology (MuJoCo: the world has `dofadr = -1`) -/
def dofnum (b : Int) : Int := if b = 1 then 1 else 0
def dofadr (b : Int) : Int := if b = 1 then 0 else -1

/-- actuated site in the world, REFERENCE site on the moving body; translational gear -/
theorem transmission_ref_moves
    (nv : Int) (bp br dofbody : Int → Int) (anc : Int → Int → Int) (jt jq jd : Int → Int)
    (squat : Int → Int → Q ℝ) (tn ta tc : Int → Int) (crank : Int → Int → ℝ) (gear : Int → Int → V6 ℝ)
    (qpos : Int → Int → ℝ) (xquat : Int → Int → Q ℝ) (sxpos : Int → Int → V3 ℝ) (sxmat : Int → Int → M33 ℝ)
    (com : Int → Int → V3 ℝ) (cdof : Int → Int → V6 ℝ) (tJ tL : Int → Int → ℝ) (mnnz : Int → Int)
    (lo : Int → Int → ℝ) (rn ra rc : Int → Int → Int) (mo : Int → Int → ℝ)
    (gs a0 a1 a2 cs a3 a4 a5 qs a6 a7 : Int) (fuel : Nat) (w a : Int)
    (hg0 : (gear (Int.tmod w gs) a).c0 ≠ 0)
    (hg3 : (gear (Int.tmod w gs) a).c3 = 0) (hg4 : (gear (Int.tmod w gs) a).c4 = 0) (hg5 : (gear (Int.tmod w gs) a).c5 = 0) :
    _transmission (K := ℝ) nv bp br (fun b => b) dofnum dofadr jt jq jd dofbody (fun _ => -1) (fun s => s) squat tn ta tc
        (fun _ => 4) (fun _ => ⟨0, 1⟩) crank gear anc qpos xquat sxpos sxmat com cdof tJ tL mnnz lo rn ra rc mo
        gs a0 a1 a2 cs a3 a4 a5 qs a6 a7 (fuel + 2) w a
      = [Write.mk "actuator_length_out" [w, a]
           (WVal.f (((sxmat w 1).transpose.mulVec ((sxpos w 0).sub (sxpos w 1))).dot (gear (w.tmod gs) a).top)) WKind.set,
         Write.mk "moment_rownnz_out" [w, a] (WVal.i 1) WKind.set,
         Write.mk "moment_nnz" [w] (WVal.i 1) WKind.alloc,
         Write.mk "moment_rowadr_out" [w, a] (WVal.i a7) WKind.set,
         Write.mk "moment_colind_out" [w, a7] (WVal.i 0) WKind.set,
         Write.mk "actuator_moment_out" [w, a7]
           (WVal.f (((jac_dof bp br dofbody anc com cdof (sxpos w 0) 0 0 w).1.sub
                      (jac_dof bp br dofbody anc com cdof (sxpos w 1) 1 0 w).1).dot
                    ((sxmat w 1).mulVec (gear (w.tmod gs) a).top))) WKind.set] := by
  simp [_transmission, whileFuel, dofnum, dofadr, sbeq_false, hg0, hg3, hg4, hg5]

/-- ACTUATED site on the moving body, reference site in the world; translational gear -/
theorem transmission_site_moves
    (nv : Int) (bp br dofbody : Int → Int) (anc : Int → Int → Int) (jt jq jd : Int → Int)
    (squat : Int → Int → Q ℝ) (tn ta tc : Int → Int) (crank : Int → Int → ℝ) (gear : Int → Int → V6 ℝ)
    (qpos : Int → Int → ℝ) (xquat : Int → Int → Q ℝ) (sxpos : Int → Int → V3 ℝ) (sxmat : Int → Int → M33 ℝ)
    (com : Int → Int → V3 ℝ) (cdof : Int → Int → V6 ℝ) (tJ tL : Int → Int → ℝ) (mnnz : Int → Int)
    (lo : Int → Int → ℝ) (rn ra rc : Int → Int → Int) (mo : Int → Int → ℝ)
    (gs a0 a1 a2 cs a3 a4 a5 qs a6 a7 : Int) (fuel : Nat) (w a : Int)
    (hg0 : (gear (Int.tmod w gs) a).c0 ≠ 0)
    (hg3 : (gear (Int.tmod w gs) a).c3 = 0) (hg4 : (gear (Int.tmod w gs) a).c4 = 0) (hg5 : (gear (Int.tmod w gs) a).c5 = 0) :
    _transmission (K := ℝ) nv bp br (fun b => b) dofnum dofadr jt jq jd dofbody (fun _ => -1) (fun s => s) squat tn ta tc
        (fun _ => 4) (fun _ => ⟨1, 0⟩) crank gear anc qpos xquat sxpos sxmat com cdof tJ tL mnnz lo rn ra rc mo
        gs a0 a1 a2 cs a3 a4 a5 qs a6 a7 (fuel + 2) w a
      = [Write.mk "actuator_length_out" [w, a]
           (WVal.f (((sxmat w 0).transpose.mulVec ((sxpos w 1).sub (sxpos w 0))).dot (gear (w.tmod gs) a).top)) WKind.set,
         Write.mk "moment_rownnz_out" [w, a] (WVal.i 1) WKind.set,
         Write.mk "moment_nnz" [w] (WVal.i 1) WKind.alloc,
         Write.mk "moment_rowadr_out" [w, a] (WVal.i a7) WKind.set,
         Write.mk "moment_colind_out" [w, a7] (WVal.i 0) WKind.set,
         Write.mk "actuator_moment_out" [w, a7]
           (WVal.f (((jac_dof bp br dofbody anc com cdof (sxpos w 1) 1 0 w).1.sub
                      (jac_dof bp br dofbody anc com cdof (sxpos w 0) 0 0 w).1).dot
                    ((sxmat w 0).mulVec (gear (w.tmod gs) a).top))) WKind.set] := by
  simp [_transmission, whileFuel, dofnum, dofadr, sbeq_false, hg0, hg3, hg4, hg5]

end Mjw.Lemmas.C03Trn
