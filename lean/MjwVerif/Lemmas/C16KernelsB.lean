/-
  C16 helper lemmas, kernel part B: for each generated row-builder kernel, the two computed facts
  * `<k>_safe`: every write to a per-row constraint array goes to a row `alloc0 ≤ r < alloc0 + k`, `r < njmax_in`;
  * `<k>_rows`: the thread sets `efc_type_out[worldid, r]` ⇔ it reached the allocating atomic, passed its capacity
    guard (stated literally), in sparse mode its nnz request fits, and `alloc0 ≤ r < alloc0 + k`.
  Both are obtained by `ksimp` (see `Lemmas/C16.lean`) from the generated definition, for all inputs.
  (Statements generated from the `def` lines of `Gen/Constraint.lean`; proofs are uniform.)
-/
import MjwVerif.Lemmas.C16
set_option linter.unusedSimpArgs false
set_option linter.unusedVariables false
set_option linter.unusedTactic false
set_option linter.unreachableTactic false
namespace Mjw.Lemmas.C16
open Mjw


/-! ### `_friction_dof__kernel`  (k = 1, guard `efcid >= njmax_in`) -/
section friction_dof
variable {K : Type} [Scalar K] (nv : Int) (opt_timestep : (Int → K)) (opt_disableflags : Int) (dof_solref : (Int → Int → V2 K)) (dof_solimp : (Int → Int → V5 K)) (dof_frictionloss : (Int → Int → K)) (dof_invweight0 : (Int → Int → K)) (qvel_in : (Int → Int → K)) (njmax_in : Int) (njmax_nnz_in : Int) (nf_out : (Int → Int)) (nefc_out : (Int → Int)) (efc_type_out : (Int → Int → Int)) (efc_id_out : (Int → Int → Int)) (efc_jtdaj_adr_out : (Int → Int → Int)) (efc_jtdaj_nrow_out : (Int → Int → Int)) (efc_jtdaj_nblock_out : (Int → Int)) (efc_J_rownnz_out : (Int → Int → Int)) (efc_J_rowadr_out : (Int → Int → Int)) (efc_J_colind_out : (Int → Int → Int → Int)) (efc_J_out : (Int → Int → Int → K)) (efc_pos_out : (Int → Int → K)) (efc_margin_out : (Int → Int → K)) (efc_D_out : (Int → Int → K)) (efc_vel_out : (Int → Int → K)) (efc_aref_out : (Int → Int → K)) (efc_frictionloss_out : (Int → Int → K)) (efc_nnz_out : (Int → Int)) (dof_frictionloss_shape0 : Int) (alloc0 : Int) (st_is_sparse_and_newton : Bool) (alloc1 : Int) (st_is_sparse : Bool) (alloc2 : Int) (dof_invweight0_shape0 : Int) (dof_solref_shape0 : Int) (dof_solimp_shape0 : Int) (opt_timestep_shape0 : Int) (tid0 : Int) (tid1 : Int)
local notation "KW" => Gen.Constraint._friction_dof__kernel nv opt_timestep opt_disableflags dof_solref dof_solimp dof_frictionloss dof_invweight0 qvel_in njmax_in njmax_nnz_in nf_out nefc_out efc_type_out efc_id_out efc_jtdaj_adr_out efc_jtdaj_nrow_out efc_jtdaj_nblock_out efc_J_rownnz_out efc_J_rowadr_out efc_J_colind_out efc_J_out efc_pos_out efc_margin_out efc_D_out efc_vel_out efc_aref_out efc_frictionloss_out efc_nnz_out dof_frictionloss_shape0 alloc0 st_is_sparse_and_newton alloc1 st_is_sparse alloc2 dof_invweight0_shape0 dof_solref_shape0 dof_solimp_shape0 opt_timestep_shape0 tid0 tid1

set_option maxHeartbeats 1600000 in
theorem friction_dof_safe : AllW (RowSafe tid0 alloc0 (alloc0 + 1) njmax_in st_is_sparse) KW := by
  unfold Gen.Constraint._friction_dof__kernel
  by_cases hg : alloc0 < njmax_in
  · cases st_is_sparse <;> ksimp [hg]
    all_goals (intros; omega)
  · ksimp [hg]
    all_goals (intros; omega)

set_option maxHeartbeats 1600000 in
theorem friction_dof_rows (r : Int) : writesRow KW "efc_type_out" tid0 r ↔
    (reached KW "nefc_out" [tid0] ∧ alloc0 < njmax_in
      ∧ (st_is_sparse = true → allocFits KW "efc_nnz_out" [tid0] alloc2 njmax_nnz_in)
      ∧ alloc0 ≤ r ∧ r < alloc0 + 1) := by
  have hr : (alloc0 ≤ r ∧ r < alloc0 + 1) ↔ (alloc0 = r) := by omega
  rw [hr]
  unfold Gen.Constraint._friction_dof__kernel
  by_cases hg : alloc0 < njmax_in
  · cases st_is_sparse <;> ksimp [hg]
    all_goals (intros; try simp_all [Int.add_assoc])
    all_goals (first | omega | tauto)
  · ksimp [hg]
    all_goals (intros; omega)
end friction_dof


/-! ### `_friction_tendon__kernel`  (k = 1, guard `efcid >= njmax_in`) -/
section friction_tendon
variable {K : Type} [Scalar K] (nv : Int) (opt_timestep : (Int → K)) (opt_disableflags : Int) (ten_J_rownnz : (Int → Int)) (ten_J_rowadr : (Int → Int)) (ten_J_colind : (Int → Int)) (tendon_solref_fri : (Int → Int → V2 K)) (tendon_solimp_fri : (Int → Int → V5 K)) (tendon_frictionloss : (Int → Int → K)) (tendon_invweight0 : (Int → Int → K)) (qvel_in : (Int → Int → K)) (ten_J_in : (Int → Int → K)) (njmax_in : Int) (njmax_nnz_in : Int) (nf_out : (Int → Int)) (nefc_out : (Int → Int)) (efc_type_out : (Int → Int → Int)) (efc_id_out : (Int → Int → Int)) (efc_jtdaj_adr_out : (Int → Int → Int)) (efc_jtdaj_nrow_out : (Int → Int → Int)) (efc_jtdaj_nblock_out : (Int → Int)) (efc_J_rownnz_out : (Int → Int → Int)) (efc_J_rowadr_out : (Int → Int → Int)) (efc_J_colind_out : (Int → Int → Int → Int)) (efc_J_out : (Int → Int → Int → K)) (efc_pos_out : (Int → Int → K)) (efc_margin_out : (Int → Int → K)) (efc_D_out : (Int → Int → K)) (efc_vel_out : (Int → Int → K)) (efc_aref_out : (Int → Int → K)) (efc_frictionloss_out : (Int → Int → K)) (efc_nnz_out : (Int → Int)) (tendon_frictionloss_shape0 : Int) (alloc0 : Int) (st_is_sparse_and_newton : Bool) (alloc1 : Int) (st_is_sparse : Bool) (alloc2 : Int) (tendon_invweight0_shape0 : Int) (tendon_solref_fri_shape0 : Int) (tendon_solimp_fri_shape0 : Int) (opt_timestep_shape0 : Int) (tid0 : Int) (tid1 : Int)
local notation "KW" => Gen.Constraint._friction_tendon__kernel nv opt_timestep opt_disableflags ten_J_rownnz ten_J_rowadr ten_J_colind tendon_solref_fri tendon_solimp_fri tendon_frictionloss tendon_invweight0 qvel_in ten_J_in njmax_in njmax_nnz_in nf_out nefc_out efc_type_out efc_id_out efc_jtdaj_adr_out efc_jtdaj_nrow_out efc_jtdaj_nblock_out efc_J_rownnz_out efc_J_rowadr_out efc_J_colind_out efc_J_out efc_pos_out efc_margin_out efc_D_out efc_vel_out efc_aref_out efc_frictionloss_out efc_nnz_out tendon_frictionloss_shape0 alloc0 st_is_sparse_and_newton alloc1 st_is_sparse alloc2 tendon_invweight0_shape0 tendon_solref_fri_shape0 tendon_solimp_fri_shape0 opt_timestep_shape0 tid0 tid1

set_option maxHeartbeats 1600000 in
theorem friction_tendon_safe : AllW (RowSafe tid0 alloc0 (alloc0 + 1) njmax_in st_is_sparse) KW := by
  unfold Gen.Constraint._friction_tendon__kernel
  by_cases hg : alloc0 < njmax_in
  · cases st_is_sparse <;> ksimp [hg]
    all_goals (intros; omega)
  · ksimp [hg]
    all_goals (intros; omega)

set_option maxHeartbeats 1600000 in
theorem friction_tendon_rows (r : Int) : writesRow KW "efc_type_out" tid0 r ↔
    (reached KW "nefc_out" [tid0] ∧ alloc0 < njmax_in
      ∧ (st_is_sparse = true → allocFits KW "efc_nnz_out" [tid0] alloc2 njmax_nnz_in)
      ∧ alloc0 ≤ r ∧ r < alloc0 + 1) := by
  have hr : (alloc0 ≤ r ∧ r < alloc0 + 1) ↔ (alloc0 = r) := by omega
  rw [hr]
  unfold Gen.Constraint._friction_tendon__kernel
  by_cases hg : alloc0 < njmax_in
  · cases st_is_sparse <;> ksimp [hg]
    all_goals (intros; try simp_all [Int.add_assoc])
    all_goals (first | omega | tauto)
  · ksimp [hg]
    all_goals (intros; omega)
end friction_tendon


/-! ### `_limit_slide_hinge__kernel`  (k = 1, guard `efcid >= njmax_in`) -/
section limit_slide_hinge
variable {K : Type} [Scalar K] (nv : Int) (opt_timestep : (Int → K)) (opt_disableflags : Int) (jnt_qposadr : (Int → Int)) (jnt_dofadr : (Int → Int)) (jnt_solref : (Int → Int → V2 K)) (jnt_solimp : (Int → Int → V5 K)) (jnt_range : (Int → Int → V2 K)) (jnt_margin : (Int → Int → K)) (dof_invweight0 : (Int → Int → K)) (jnt_limited_slide_hinge_adr : (Int → Int)) (qpos_in : (Int → Int → K)) (qvel_in : (Int → Int → K)) (njmax_in : Int) (njmax_nnz_in : Int) (nl_out : (Int → Int)) (nefc_out : (Int → Int)) (efc_type_out : (Int → Int → Int)) (efc_id_out : (Int → Int → Int)) (efc_jtdaj_adr_out : (Int → Int → Int)) (efc_jtdaj_nrow_out : (Int → Int → Int)) (efc_jtdaj_nblock_out : (Int → Int)) (efc_J_rownnz_out : (Int → Int → Int)) (efc_J_rowadr_out : (Int → Int → Int)) (efc_J_colind_out : (Int → Int → Int → Int)) (efc_J_out : (Int → Int → Int → K)) (efc_pos_out : (Int → Int → K)) (efc_margin_out : (Int → Int → K)) (efc_D_out : (Int → Int → K)) (efc_vel_out : (Int → Int → K)) (efc_aref_out : (Int → Int → K)) (efc_frictionloss_out : (Int → Int → K)) (efc_nnz_out : (Int → Int)) (jnt_range_shape0 : Int) (jnt_margin_shape0 : Int) (alloc0 : Int) (st_is_sparse_and_newton : Bool) (alloc1 : Int) (st_is_sparse : Bool) (alloc2 : Int) (dof_invweight0_shape0 : Int) (jnt_solref_shape0 : Int) (jnt_solimp_shape0 : Int) (opt_timestep_shape0 : Int) (tid0 : Int) (tid1 : Int)
local notation "KW" => Gen.Constraint._limit_slide_hinge__kernel nv opt_timestep opt_disableflags jnt_qposadr jnt_dofadr jnt_solref jnt_solimp jnt_range jnt_margin dof_invweight0 jnt_limited_slide_hinge_adr qpos_in qvel_in njmax_in njmax_nnz_in nl_out nefc_out efc_type_out efc_id_out efc_jtdaj_adr_out efc_jtdaj_nrow_out efc_jtdaj_nblock_out efc_J_rownnz_out efc_J_rowadr_out efc_J_colind_out efc_J_out efc_pos_out efc_margin_out efc_D_out efc_vel_out efc_aref_out efc_frictionloss_out efc_nnz_out jnt_range_shape0 jnt_margin_shape0 alloc0 st_is_sparse_and_newton alloc1 st_is_sparse alloc2 dof_invweight0_shape0 jnt_solref_shape0 jnt_solimp_shape0 opt_timestep_shape0 tid0 tid1

set_option maxHeartbeats 1600000 in
theorem limit_slide_hinge_safe : AllW (RowSafe tid0 alloc0 (alloc0 + 1) njmax_in st_is_sparse) KW := by
  unfold Gen.Constraint._limit_slide_hinge__kernel
  by_cases hg : alloc0 < njmax_in
  · cases st_is_sparse <;> ksimp [hg]
    all_goals (intros; omega)
  · ksimp [hg]
    all_goals (intros; omega)

set_option maxHeartbeats 1600000 in
theorem limit_slide_hinge_rows (r : Int) : writesRow KW "efc_type_out" tid0 r ↔
    (reached KW "nefc_out" [tid0] ∧ alloc0 < njmax_in
      ∧ (st_is_sparse = true → allocFits KW "efc_nnz_out" [tid0] alloc2 njmax_nnz_in)
      ∧ alloc0 ≤ r ∧ r < alloc0 + 1) := by
  have hr : (alloc0 ≤ r ∧ r < alloc0 + 1) ↔ (alloc0 = r) := by omega
  rw [hr]
  unfold Gen.Constraint._limit_slide_hinge__kernel
  by_cases hg : alloc0 < njmax_in
  · cases st_is_sparse <;> ksimp [hg]
    all_goals (intros; try simp_all [Int.add_assoc])
    all_goals (first | omega | tauto)
  · ksimp [hg]
    all_goals (intros; omega)
end limit_slide_hinge


/-! ### `_limit_ball__kernel`  (k = 1, guard `efcid >= njmax_in`) -/
section limit_ball
variable {K : Type} [Scalar K] (nv : Int) (opt_timestep : (Int → K)) (opt_disableflags : Int) (jnt_qposadr : (Int → Int)) (jnt_dofadr : (Int → Int)) (jnt_solref : (Int → Int → V2 K)) (jnt_solimp : (Int → Int → V5 K)) (jnt_range : (Int → Int → V2 K)) (jnt_margin : (Int → Int → K)) (dof_invweight0 : (Int → Int → K)) (jnt_limited_ball_adr : (Int → Int)) (qpos_in : (Int → Int → K)) (qvel_in : (Int → Int → K)) (njmax_in : Int) (njmax_nnz_in : Int) (nl_out : (Int → Int)) (nefc_out : (Int → Int)) (efc_type_out : (Int → Int → Int)) (efc_id_out : (Int → Int → Int)) (efc_jtdaj_adr_out : (Int → Int → Int)) (efc_jtdaj_nrow_out : (Int → Int → Int)) (efc_jtdaj_nblock_out : (Int → Int)) (efc_J_rownnz_out : (Int → Int → Int)) (efc_J_rowadr_out : (Int → Int → Int)) (efc_J_colind_out : (Int → Int → Int → Int)) (efc_J_out : (Int → Int → Int → K)) (efc_pos_out : (Int → Int → K)) (efc_margin_out : (Int → Int → K)) (efc_D_out : (Int → Int → K)) (efc_vel_out : (Int → Int → K)) (efc_aref_out : (Int → Int → K)) (efc_frictionloss_out : (Int → Int → K)) (efc_nnz_out : (Int → Int)) (jnt_range_shape0 : Int) (jnt_margin_shape0 : Int) (alloc0 : Int) (st_is_sparse_and_newton : Bool) (alloc1 : Int) (st_is_sparse : Bool) (alloc2 : Int) (dof_invweight0_shape0 : Int) (jnt_solref_shape0 : Int) (jnt_solimp_shape0 : Int) (opt_timestep_shape0 : Int) (tid0 : Int) (tid1 : Int)
local notation "KW" => Gen.Constraint._limit_ball__kernel nv opt_timestep opt_disableflags jnt_qposadr jnt_dofadr jnt_solref jnt_solimp jnt_range jnt_margin dof_invweight0 jnt_limited_ball_adr qpos_in qvel_in njmax_in njmax_nnz_in nl_out nefc_out efc_type_out efc_id_out efc_jtdaj_adr_out efc_jtdaj_nrow_out efc_jtdaj_nblock_out efc_J_rownnz_out efc_J_rowadr_out efc_J_colind_out efc_J_out efc_pos_out efc_margin_out efc_D_out efc_vel_out efc_aref_out efc_frictionloss_out efc_nnz_out jnt_range_shape0 jnt_margin_shape0 alloc0 st_is_sparse_and_newton alloc1 st_is_sparse alloc2 dof_invweight0_shape0 jnt_solref_shape0 jnt_solimp_shape0 opt_timestep_shape0 tid0 tid1

set_option maxHeartbeats 1600000 in
theorem limit_ball_safe : AllW (RowSafe tid0 alloc0 (alloc0 + 1) njmax_in st_is_sparse) KW := by
  unfold Gen.Constraint._limit_ball__kernel
  by_cases hg : alloc0 < njmax_in
  · cases st_is_sparse <;> ksimp [hg]
    all_goals (intros; omega)
  · ksimp [hg]
    all_goals (intros; omega)

set_option maxHeartbeats 1600000 in
theorem limit_ball_rows (r : Int) : writesRow KW "efc_type_out" tid0 r ↔
    (reached KW "nefc_out" [tid0] ∧ alloc0 < njmax_in
      ∧ (st_is_sparse = true → allocFits KW "efc_nnz_out" [tid0] alloc2 njmax_nnz_in)
      ∧ alloc0 ≤ r ∧ r < alloc0 + 1) := by
  have hr : (alloc0 ≤ r ∧ r < alloc0 + 1) ↔ (alloc0 = r) := by omega
  rw [hr]
  unfold Gen.Constraint._limit_ball__kernel
  by_cases hg : alloc0 < njmax_in
  · cases st_is_sparse <;> ksimp [hg]
    all_goals (intros; try simp_all [Int.add_assoc])
    all_goals (first | omega | tauto)
  · ksimp [hg]
    all_goals (intros; omega)
end limit_ball


/-! ### `_limit_tendon__kernel`  (k = 1, guard `efcid >= njmax_in`) -/
section limit_tendon
variable {K : Type} [Scalar K] (nv : Int) (opt_timestep : (Int → K)) (opt_disableflags : Int) (ten_J_rownnz : (Int → Int)) (ten_J_rowadr : (Int → Int)) (ten_J_colind : (Int → Int)) (tendon_solref_lim : (Int → Int → V2 K)) (tendon_solimp_lim : (Int → Int → V5 K)) (tendon_range : (Int → Int → V2 K)) (tendon_margin : (Int → Int → K)) (tendon_invweight0 : (Int → Int → K)) (tendon_limited_adr : (Int → Int)) (qvel_in : (Int → Int → K)) (ten_J_in : (Int → Int → K)) (ten_length_in : (Int → Int → K)) (njmax_in : Int) (njmax_nnz_in : Int) (nl_out : (Int → Int)) (nefc_out : (Int → Int)) (efc_type_out : (Int → Int → Int)) (efc_id_out : (Int → Int → Int)) (efc_jtdaj_adr_out : (Int → Int → Int)) (efc_jtdaj_nrow_out : (Int → Int → Int)) (efc_jtdaj_nblock_out : (Int → Int)) (efc_J_rownnz_out : (Int → Int → Int)) (efc_J_rowadr_out : (Int → Int → Int)) (efc_J_colind_out : (Int → Int → Int → Int)) (efc_J_out : (Int → Int → Int → K)) (efc_pos_out : (Int → Int → K)) (efc_margin_out : (Int → Int → K)) (efc_D_out : (Int → Int → K)) (efc_vel_out : (Int → Int → K)) (efc_aref_out : (Int → Int → K)) (efc_frictionloss_out : (Int → Int → K)) (efc_nnz_out : (Int → Int)) (tendon_range_shape0 : Int) (tendon_margin_shape0 : Int) (alloc0 : Int) (st_is_sparse_and_newton : Bool) (alloc1 : Int) (st_is_sparse : Bool) (alloc2 : Int) (tendon_invweight0_shape0 : Int) (tendon_solref_lim_shape0 : Int) (tendon_solimp_lim_shape0 : Int) (opt_timestep_shape0 : Int) (tid0 : Int) (tid1 : Int)
local notation "KW" => Gen.Constraint._limit_tendon__kernel nv opt_timestep opt_disableflags ten_J_rownnz ten_J_rowadr ten_J_colind tendon_solref_lim tendon_solimp_lim tendon_range tendon_margin tendon_invweight0 tendon_limited_adr qvel_in ten_J_in ten_length_in njmax_in njmax_nnz_in nl_out nefc_out efc_type_out efc_id_out efc_jtdaj_adr_out efc_jtdaj_nrow_out efc_jtdaj_nblock_out efc_J_rownnz_out efc_J_rowadr_out efc_J_colind_out efc_J_out efc_pos_out efc_margin_out efc_D_out efc_vel_out efc_aref_out efc_frictionloss_out efc_nnz_out tendon_range_shape0 tendon_margin_shape0 alloc0 st_is_sparse_and_newton alloc1 st_is_sparse alloc2 tendon_invweight0_shape0 tendon_solref_lim_shape0 tendon_solimp_lim_shape0 opt_timestep_shape0 tid0 tid1

set_option maxHeartbeats 1600000 in
theorem limit_tendon_safe : AllW (RowSafe tid0 alloc0 (alloc0 + 1) njmax_in st_is_sparse) KW := by
  unfold Gen.Constraint._limit_tendon__kernel
  by_cases hg : alloc0 < njmax_in
  · cases st_is_sparse <;> ksimp [hg]
    all_goals (intros; omega)
  · ksimp [hg]
    all_goals (intros; omega)

set_option maxHeartbeats 1600000 in
theorem limit_tendon_rows (r : Int) : writesRow KW "efc_type_out" tid0 r ↔
    (reached KW "nefc_out" [tid0] ∧ alloc0 < njmax_in
      ∧ (st_is_sparse = true → allocFits KW "efc_nnz_out" [tid0] alloc2 njmax_nnz_in)
      ∧ alloc0 ≤ r ∧ r < alloc0 + 1) := by
  have hr : (alloc0 ≤ r ∧ r < alloc0 + 1) ↔ (alloc0 = r) := by omega
  rw [hr]
  unfold Gen.Constraint._limit_tendon__kernel
  by_cases hg : alloc0 < njmax_in
  · cases st_is_sparse <;> ksimp [hg]
    all_goals (intros; try simp_all [Int.add_assoc])
    all_goals (first | omega | tauto)
  · ksimp [hg]
    all_goals (intros; omega)
end limit_tendon


/-! ### `_efc_contact_init__kernel`  (block of `ndim` rows, granted ROW BY ROW: `efcid >= njmax_in` per row) -/
section contact_init
variable {K : Type} [Scalar K] (body_weldid : (Int → Int)) (body_dofnum : (Int → Int)) (body_dofadr : (Int → Int)) (dof_parentid : (Int → Int)) (geom_bodyid : (Int → Int)) (njmax_in : Int) (njmax_nnz_in : Int) (nacon_in : (Int → Int)) (dist_in : (Int → K)) (condim_in : (Int → Int)) (includemargin_in : (Int → K)) (adhesion_in : (Int → K)) (worldid_in : (Int → Int)) (geom_in : (Int → I2)) (type_in : (Int → Int)) (nefc_out : (Int → Int)) (contact_efc_address_out : (Int → Int → Int)) (efc_id_out : (Int → Int → Int)) (efc_jtdaj_adr_out : (Int → Int → Int)) (efc_jtdaj_nrow_out : (Int → Int → Int)) (efc_jtdaj_nblock_out : (Int → Int)) (efc_J_rownnz_out : (Int → Int → Int)) (efc_J_rowadr_out : (Int → Int → Int)) (efc_nnz_out : (Int → Int)) (st_flg_adhesion : Bool) (st_IS_ELLIPTIC : Bool) (alloc0 : Int) (st_is_sparse_and_newton : Bool) (alloc1 : Int) (st_IS_SPARSE : Bool) (alloc2 : Int) (fuel : Nat) (tid0 : Int)
local notation "KW" => Gen.Constraint._efc_contact_init__kernel body_weldid body_dofnum body_dofadr dof_parentid geom_bodyid njmax_in njmax_nnz_in nacon_in dist_in condim_in includemargin_in adhesion_in worldid_in geom_in type_in nefc_out contact_efc_address_out efc_id_out efc_jtdaj_adr_out efc_jtdaj_nrow_out efc_jtdaj_nblock_out efc_J_rownnz_out efc_J_rowadr_out efc_nnz_out st_flg_adhesion st_IS_ELLIPTIC alloc0 st_is_sparse_and_newton alloc1 st_IS_SPARSE alloc2 fuel tid0

set_option maxHeartbeats 1600000 in
theorem contact_init_rows (r : Int) : writesRow KW "efc_id_out" (worldid_in tid0) r ↔
    ∃ n, allocReq KW "nefc_out" [worldid_in tid0] n ∧ alloc0 ≤ r ∧ r < alloc0 + n ∧ r < njmax_in := by
  unfold Gen.Constraint._efc_contact_init__kernel
  have key : ∀ N : Int, (∃ i, 0 ≤ i ∧ i < N ∧ alloc0 + i < njmax_in ∧ alloc0 + i = r)
      ↔ (alloc0 ≤ r ∧ r < alloc0 + N ∧ r < njmax_in) := by
    intro N
    constructor
    · rintro ⟨i, h1, h2, h3, h4⟩; omega
    · rintro ⟨h1, h2, h3⟩; exact ⟨r - alloc0, by omega, by omega, by omega, by omega⟩
  ksimp []
  simp only [key]
  tauto

set_option maxHeartbeats 1600000 in
theorem contact_init_safe (n : Int) (hn : allocReq KW "nefc_out" [worldid_in tid0] n) :
    AllW (RowSafe (worldid_in tid0) alloc0 (alloc0 + n) njmax_in st_IS_SPARSE) KW := by
  revert hn
  unfold Gen.Constraint._efc_contact_init__kernel
  ksimp [ite_append_nil]
  intros
  subst_vars
  first | omega | simp_all
end contact_init
end Mjw.Lemmas.C16
