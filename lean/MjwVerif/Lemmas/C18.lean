/-
  Helper lemmas for Props/C18 (broadphase choice does not change contacts).

  * V3 facts over ℝ: telescoping differences, 1-Lipschitz projection, |coordinate| ≤ length;
  * the normal form of the generated `_aabb_filter` (eight unrolled corners = nested max / min) and the
    fact that a linear form on a box is bounded by its corner values;
  * the abstract notion "conservative filter" and a hand model of `_broadphase_filter`'s dispatch on the mask
    (that function is a closure over `wp.static` constants and is not translated yet).
  SAP lemmas (binary search, ranges, cumulative sums, stride loop) are in Lemmas/C18Sap.lean.
-/
import MjwVerif.Lemmas.C20
import MjwVerif.Gen.Collision_driver

set_option linter.unusedVariables false
set_option linter.unusedSimpArgs false

namespace Mjw.C18L
open Mjw Mjw.C20L Mjw.Gen.Collision_driver

/-! ### V3 facts -/

theorem sub_telescope (a b c : V3 ℝ) : V3.sub a c = V3.add (V3.sub a b) (V3.sub b c) := by
  apply V3.ext' <;> simp only [V3.sub, V3.add, hsub, hadd] <;> ring

theorem length_sub_le (a b c : V3 ℝ) :
    V3.length (V3.sub a c) ≤ V3.length (V3.sub a b) + V3.length (V3.sub b c) := by
  rw [sub_telescope a b c]; exact length_add_le _ _

/-- |x₂ − x₁| ≤ |x₂ − p₂| + |p₂ − p₁| + |p₁ − x₁| -/
theorem length_sub_le4 (x1 x2 p1 p2 : V3 ℝ) :
    V3.length (V3.sub x2 x1) ≤
      V3.length (V3.sub p2 x2) + V3.length (V3.sub p1 p2) + V3.length (V3.sub p1 x1) := by
  have h1 := length_sub_le x2 p2 x1
  have h2 := length_sub_le p2 p1 x1
  rw [length_neg_sub x2 p2] at h1
  rw [length_neg_sub p2 p1] at h2
  linarith

theorem dot_sub_left (a b d : V3 ℝ) : V3.dot (V3.sub a b) d = V3.dot a d - V3.dot b d := by
  simp only [dot_def, V3.sub, hsub]; ring

theorem length_le_one_of_dot {d : V3 ℝ} (h : V3.dot d d ≤ 1) : V3.length d ≤ 1 := by
  rw [length_def]
  calc Real.sqrt (V3.dot d d) ≤ Real.sqrt 1 := Real.sqrt_le_sqrt h
    _ = 1 := Real.sqrt_one

/-- the projection onto a direction of length ≤ 1 is 1-Lipschitz -/
theorem abs_dot_sub_le (p q d : V3 ℝ) (hd : V3.dot d d ≤ 1) :
    |V3.dot p d - V3.dot q d| ≤ V3.length (V3.sub p q) := by
  rw [← dot_sub_left]
  have h := abs_dot_le (V3.sub p q) d
  have h1 := length_le_one_of_dot hd
  have h0 := length_nonneg (V3.sub p q)
  nlinarith

theorem abs_c0_le_length (v : V3 ℝ) : |v.c0| ≤ V3.length v := by
  have h := abs_dot_sub_le v ⟨0, 0, 0⟩ ⟨1, 0, 0⟩ (by simp only [dot_def]; norm_num)
  have e : V3.sub v ⟨0, 0, 0⟩ = v := by apply V3.ext' <;> simp [V3.sub]
  rw [e] at h
  simpa [dot_def] using h

theorem abs_c1_le_length (v : V3 ℝ) : |v.c1| ≤ V3.length v := by
  have h := abs_dot_sub_le v ⟨0, 0, 0⟩ ⟨0, 1, 0⟩ (by simp only [dot_def]; norm_num)
  have e : V3.sub v ⟨0, 0, 0⟩ = v := by apply V3.ext' <;> simp [V3.sub]
  rw [e] at h
  simpa [dot_def] using h

theorem abs_c2_le_length (v : V3 ℝ) : |v.c2| ≤ V3.length v := by
  have h := abs_dot_sub_le v ⟨0, 0, 0⟩ ⟨0, 0, 1⟩ (by simp only [dot_def]; norm_num)
  have e : V3.sub v ⟨0, 0, 0⟩ = v := by apply V3.ext' <;> simp [V3.sub]
  rw [e] at h
  simpa [dot_def] using h

/-- `a·a ≤ b·b` with `0 ≤ b` iff `√(a·a) ≤ b` -/
theorem length_le_iff_dot_le (v : V3 ℝ) {b : ℝ} (hb : 0 ≤ b) : V3.dot v v ≤ b * b ↔ V3.length v ≤ b := by
  rw [length_def]
  constructor
  · intro h
    calc Real.sqrt (V3.dot v v) ≤ Real.sqrt (b * b) := Real.sqrt_le_sqrt h
      _ = b := Real.sqrt_mul_self hb
  · intro h
    have h0 := Real.sqrt_nonneg (V3.dot v v)
    have := Real.mul_self_sqrt (dot_self_nonneg v)
    nlinarith

theorem slt_false_iff (a b : ℝ) : Scalar.lt a b = false ↔ b ≤ a := by
  rw [← not_lt, ← slt, Bool.not_eq_true]

theorem lit0 : (Scalar.lit 0 0 : ℝ) = 0 := by simp only [slit]; norm_num
theorem maxval_lit : (Scalar.lit 1 10 : ℝ) = 10 ^ 10 := by simp only [slit]; norm_num

/-! ### `_aabb_filter`: the eight unrolled corners -/

theorem ite_gt (a b : ℝ) : (if Scalar.gt a b = true then a else b) = max b a := by
  simp only [sgt]; rcases lt_or_ge b a with h | h
  · rw [if_pos h, max_eq_right h.le]
  · rw [if_neg (not_lt.mpr h), max_eq_left h]

theorem ite_lt (a b : ℝ) : (if Scalar.lt a b = true then a else b) = min b a := by
  simp only [slt]; rcases lt_or_ge a b with h | h
  · rw [if_pos h, min_eq_right h.le]
  · rw [if_neg (not_lt.mpr h), min_eq_left h]

/-- running maximum the code keeps for one world axis: starts at `-MJ_MAXVAL = -1e10`, then the eight values
    `a · (±z₀, ±z₁, ±z₂)` in the order the unrolled loops visit the corners (i, j, k with k fastest);
    `a` = the row of `xmat` for that axis, `z` = the local half sizes. -/
noncomputable def hiRow (a z : V3 ℝ) : ℝ :=
  max (max (max (max (max (max (max (max (-(1 * 10 ^ (10:ℤ)))
    (a.c0 * (-1 * z.c0) + a.c1 * (-1 * z.c1) + a.c2 * (-1 * z.c2)))
    (a.c0 * (-1 * z.c0) + a.c1 * (-1 * z.c1) + a.c2 * (1 * z.c2)))
    (a.c0 * (-1 * z.c0) + a.c1 * (1 * z.c1) + a.c2 * (-1 * z.c2)))
    (a.c0 * (-1 * z.c0) + a.c1 * (1 * z.c1) + a.c2 * (1 * z.c2)))
    (a.c0 * (1 * z.c0) + a.c1 * (-1 * z.c1) + a.c2 * (-1 * z.c2)))
    (a.c0 * (1 * z.c0) + a.c1 * (-1 * z.c1) + a.c2 * (1 * z.c2)))
    (a.c0 * (1 * z.c0) + a.c1 * (1 * z.c1) + a.c2 * (-1 * z.c2)))
    (a.c0 * (1 * z.c0) + a.c1 * (1 * z.c1) + a.c2 * (1 * z.c2))

/-- running minimum, starts at `MJ_MAXVAL = 1e10` -/
noncomputable def loRow (a z : V3 ℝ) : ℝ :=
  min (min (min (min (min (min (min (min (1 * 10 ^ (10:ℤ))
    (a.c0 * (-1 * z.c0) + a.c1 * (-1 * z.c1) + a.c2 * (-1 * z.c2)))
    (a.c0 * (-1 * z.c0) + a.c1 * (-1 * z.c1) + a.c2 * (1 * z.c2)))
    (a.c0 * (-1 * z.c0) + a.c1 * (1 * z.c1) + a.c2 * (-1 * z.c2)))
    (a.c0 * (-1 * z.c0) + a.c1 * (1 * z.c1) + a.c2 * (1 * z.c2)))
    (a.c0 * (1 * z.c0) + a.c1 * (-1 * z.c1) + a.c2 * (-1 * z.c2)))
    (a.c0 * (1 * z.c0) + a.c1 * (-1 * z.c1) + a.c2 * (1 * z.c2)))
    (a.c0 * (1 * z.c0) + a.c1 * (1 * z.c1) + a.c2 * (-1 * z.c2)))
    (a.c0 * (1 * z.c0) + a.c1 * (1 * z.c1) + a.c2 * (1 * z.c2))

def row0 (R : M33 ℝ) : V3 ℝ := ⟨R.m00, R.m01, R.m02⟩
def row1 (R : M33 ℝ) : V3 ℝ := ⟨R.m10, R.m11, R.m12⟩
def row2 (R : M33 ℝ) : V3 ℝ := ⟨R.m20, R.m21, R.m22⟩

theorem mulVec_c0 (R : M33 ℝ) (v : V3 ℝ) : (M33.mulVec R v).c0 = V3.dot (row0 R) v := by
  simp only [M33.mulVec, row0, V3.dot]
theorem mulVec_c1 (R : M33 ℝ) (v : V3 ℝ) : (M33.mulVec R v).c1 = V3.dot (row1 R) v := by
  simp only [M33.mulVec, row1, V3.dot]
theorem mulVec_c2 (R : M33 ℝ) (v : V3 ℝ) : (M33.mulVec R v).c2 = V3.dot (row2 R) v := by
  simp only [M33.mulVec, row2, V3.dot]

theorem ifchain (b1 b2 b3 b4 b5 b6 : Bool) :
    ((if b1 = true then false else if b2 = true then false else if b3 = true then false else
      if b4 = true then false else if b5 = true then false else if b6 = true then false else true) = true)
    ↔ (b1 = false ∧ b2 = false ∧ b3 = false ∧ b4 = false ∧ b5 = false ∧ b6 = false) := by
  cases b1 <;> cases b2 <;> cases b3 <;> cases b4 <;> cases b5 <;> cases b6 <;> simp

/-- pick the matching leaf of a left-nested `max` -/
syntax "pick_max" : tactic
macro_rules
  | `(tactic| pick_max) =>
    `(tactic| first
      | (apply le_max_of_le_right; linarith)
      | (apply le_max_of_le_left; pick_max))

syntax "pick_min" : tactic
macro_rules
  | `(tactic| pick_min) =>
    `(tactic| first
      | (apply min_le_of_right_le; linarith)
      | (apply min_le_of_left_le; pick_min))

theorem mul_le_corner (a s z : ℝ) (h : |s| ≤ z) :
    (0 ≤ a → a * s ≤ a * (1 * z)) ∧ (a ≤ 0 → a * s ≤ a * (-1 * z)) := by
  obtain ⟨hl, hu⟩ := abs_le.mp h
  constructor
  · intro ha; nlinarith
  · intro ha; nlinarith

theorem corner_le_mul (a s z : ℝ) (h : |s| ≤ z) :
    (0 ≤ a → a * (-1 * z) ≤ a * s) ∧ (a ≤ 0 → a * (1 * z) ≤ a * s) := by
  obtain ⟨hl, hu⟩ := abs_le.mp h
  constructor
  · intro ha; nlinarith
  · intro ha; nlinarith

/-- a linear form on the box `|s_k| ≤ z_k` is at most the code's running maximum over the corners -/
theorem dot_le_hiRow (a z s : V3 ℝ) (h0 : |s.c0| ≤ z.c0) (h1 : |s.c1| ≤ z.c1) (h2 : |s.c2| ≤ z.c2) :
    V3.dot a s ≤ hiRow a z := by
  rw [dot_def]; unfold hiRow
  obtain ⟨p0, n0⟩ := mul_le_corner a.c0 s.c0 z.c0 h0
  obtain ⟨p1, n1⟩ := mul_le_corner a.c1 s.c1 z.c1 h1
  obtain ⟨p2, n2⟩ := mul_le_corner a.c2 s.c2 z.c2 h2
  rcases le_total 0 a.c0 with e0 | e0 <;> rcases le_total 0 a.c1 with e1 | e1 <;>
    rcases le_total 0 a.c2 with e2 | e2
  · have := p0 e0; have := p1 e1; have := p2 e2; pick_max
  · have := p0 e0; have := p1 e1; have := n2 e2; pick_max
  · have := p0 e0; have := n1 e1; have := p2 e2; pick_max
  · have := p0 e0; have := n1 e1; have := n2 e2; pick_max
  · have := n0 e0; have := p1 e1; have := p2 e2; pick_max
  · have := n0 e0; have := p1 e1; have := n2 e2; pick_max
  · have := n0 e0; have := n1 e1; have := p2 e2; pick_max
  · have := n0 e0; have := n1 e1; have := n2 e2; pick_max

theorem loRow_le_dot (a z s : V3 ℝ) (h0 : |s.c0| ≤ z.c0) (h1 : |s.c1| ≤ z.c1) (h2 : |s.c2| ≤ z.c2) :
    loRow a z ≤ V3.dot a s := by
  rw [dot_def]; unfold loRow
  obtain ⟨p0, n0⟩ := corner_le_mul a.c0 s.c0 z.c0 h0
  obtain ⟨p1, n1⟩ := corner_le_mul a.c1 s.c1 z.c1 h1
  obtain ⟨p2, n2⟩ := corner_le_mul a.c2 s.c2 z.c2 h2
  rcases le_total 0 a.c0 with e0 | e0 <;> rcases le_total 0 a.c1 with e1 | e1 <;>
    rcases le_total 0 a.c2 with e2 | e2
  · have := p0 e0; have := p1 e1; have := p2 e2; pick_min
  · have := p0 e0; have := p1 e1; have := n2 e2; pick_min
  · have := p0 e0; have := n1 e1; have := p2 e2; pick_min
  · have := p0 e0; have := n1 e1; have := n2 e2; pick_min
  · have := n0 e0; have := p1 e1; have := p2 e2; pick_min
  · have := n0 e0; have := p1 e1; have := n2 e2; pick_min
  · have := n0 e0; have := n1 e1; have := p2 e2; pick_min
  · have := n0 e0; have := n1 e1; have := n2 e2; pick_min

/-- exact value of the running maximum when the box is non-degenerate and not astronomically large:
    `|a₀| z₀ + |a₁| z₁ + |a₂| z₂` (the half extent of the rotated box along the axis) -/
theorem hiRow_eq (a z : V3 ℝ) (h0 : 0 ≤ z.c0) (h1 : 0 ≤ z.c1) (h2 : 0 ≤ z.c2) :
    hiRow a z = |a.c0| * z.c0 + |a.c1| * z.c1 + |a.c2| * z.c2 := by
  apply le_antisymm
  · have b0 : a.c0 * z.c0 ≤ |a.c0| * z.c0 := mul_le_mul_of_nonneg_right (le_abs_self _) h0
    have b0' : -(a.c0 * z.c0) ≤ |a.c0| * z.c0 := by
      have := mul_le_mul_of_nonneg_right (neg_abs_le a.c0) h0; linarith
    have b1 : a.c1 * z.c1 ≤ |a.c1| * z.c1 := mul_le_mul_of_nonneg_right (le_abs_self _) h1
    have b1' : -(a.c1 * z.c1) ≤ |a.c1| * z.c1 := by
      have := mul_le_mul_of_nonneg_right (neg_abs_le a.c1) h1; linarith
    have b2 : a.c2 * z.c2 ≤ |a.c2| * z.c2 := mul_le_mul_of_nonneg_right (le_abs_self _) h2
    have b2' : -(a.c2 * z.c2) ≤ |a.c2| * z.c2 := by
      have := mul_le_mul_of_nonneg_right (neg_abs_le a.c2) h2; linarith
    have e0 : 0 ≤ |a.c0| * z.c0 := mul_nonneg (abs_nonneg _) h0
    have e1 : 0 ≤ |a.c1| * z.c1 := mul_nonneg (abs_nonneg _) h1
    have e2 : 0 ≤ |a.c2| * z.c2 := mul_nonneg (abs_nonneg _) h2
    unfold hiRow
    refine max_le (max_le (max_le (max_le (max_le (max_le (max_le (max_le ?_ ?_) ?_) ?_) ?_) ?_) ?_) ?_) ?_ <;>
      linarith
  · -- the corner with signs sgn a_k attains it
    have key := dot_le_hiRow a z
      ⟨(if 0 ≤ a.c0 then z.c0 else -z.c0), (if 0 ≤ a.c1 then z.c1 else -z.c1), (if 0 ≤ a.c2 then z.c2 else -z.c2)⟩
      (by dsimp only; split_ifs <;> simp [abs_of_nonneg h0])
      (by dsimp only; split_ifs <;> simp [abs_of_nonneg h1])
      (by dsimp only; split_ifs <;> simp [abs_of_nonneg h2])
    rw [dot_def] at key
    refine le_trans (le_of_eq ?_) key
    dsimp only
    have f : ∀ x y : ℝ, |x| * y = x * (if 0 ≤ x then y else -y) := by
      intro x y
      split_ifs with hx
      · rw [abs_of_nonneg hx]
      · rw [abs_of_neg (not_le.mp hx)]; ring
    rw [f a.c0, f a.c1, f a.c2]

theorem loRow_eq (a z : V3 ℝ) (h0 : 0 ≤ z.c0) (h1 : 0 ≤ z.c1) (h2 : 0 ≤ z.c2) :
    loRow a z = -(|a.c0| * z.c0 + |a.c1| * z.c1 + |a.c2| * z.c2) := by
  have hneg : loRow a z = -hiRow (V3.neg a) z := by
    unfold loRow hiRow
    simp only [V3.neg, hneg, ← min_neg_neg, neg_neg, neg_add, neg_mul, mul_neg]
  rw [hneg, hiRow_eq (V3.neg a) z h0 h1 h2]
  simp only [V3.neg, Mjw.hneg, abs_neg]

/-! ### conservative filters and the dispatch of `_broadphase_filter` -/

/-- `f` is conservative w.r.t. `near`: it never rejects a `near` input -/
def Conservative {α : Type} (near : α → Prop) (f : α → Bool) : Prop := ∀ x, near x → f x = true

/-- Hand model of the body of `_broadphase_filter(opt_broadphase_filter, …).func` after its loads:
    ```
    if rbound1 == 0.0 or rbound2 == 0.0:
      if static(mask & PLANE):  return _plane_filter(...)
    else:
      if static(mask & SPHERE): if not _sphere_filter(...): return False
      if static(mask & AABB):   if not _aabb_filter(...):   return False
      if static(mask & OBB):    if not _obb_filter(...):    return False
    return True
    ```
    `BroadphaseFilter`: PLANE = 1, SPHERE = 2, AABB = 4, OBB = 8 (types.py).
    `planePair` = `rbound1 == 0 or rbound2 == 0`; `plane sphere aabb obb` = results of the four filters. -/
def dispatch (mask : Nat) (planePair : Bool) (plane sphere aabb obb : Bool) : Bool :=
  if planePair then
    (if mask &&& 1 ≠ 0 then plane else true)
  else
    if (mask &&& 2 ≠ 0) && !sphere then false
    else if (mask &&& 4 ≠ 0) && !aabb then false
    else if (mask &&& 8 ≠ 0) && !obb then false
    else true

theorem dispatch_true_of_all (mask : Nat) (planePair plane sphere aabb obb : Bool)
    (hp : planePair = true → plane = true)
    (hs : planePair = false → sphere = true ∧ aabb = true ∧ obb = true) :
    dispatch mask planePair plane sphere aabb obb = true := by
  unfold dispatch
  cases planePair
  · obtain ⟨h1, h2, h3⟩ := hs rfl
    subst h1 h2 h3
    simp
  · rw [hp rfl]; simp

end Mjw.C18L
