/-
  Helper lemmas for property C15 (state get/set).  Core Lean only.
-/
import MjwVerif.Spec.State
import MjwVerif.Gen.Support
open Mjw Mjw.Spec.State

namespace Mjw.Lemmas.C15
variable {K : Type}

/-! ### control-flow normalisation -/

theorem ite_pair {α β : Type} (c : Bool) (a a' : α) (b b' : β) :
    (if c then (a, b) else (a', b')) = (if c then a else a', if c then b else b') := by
  cases c <;> rfl

theorem ite_append_self {α : Type} (c : Bool) (ws X : List α) :
    (if c then ws ++ X else ws) = ws ++ (if c then X else []) := by
  cases c <;> simp

theorem ite_add_self (c : Bool) (a n : Int) :
    (if c then a + n else a) = a + (if c then n else 0) := by
  cases c <;> simp

/-! ### loops -/

theorem forRange_zero {σ : Type} (n : Int) (init : σ) (f : Int → σ → σ) :
    forRange 0 n init f = (List.range n.toNat).foldl (fun s k => f (Int.ofNat k) s) init := by
  simp [forRange]

theorem foldl_snoc {α β : Type} (g : β → α) (l : List β) (ws : List α) :
    l.foldl (fun s k => s ++ [g k]) ws = ws ++ l.map g := by
  induction l generalizing ws with
  | nil => simp
  | cons x xs ih => simp [ih]

/-- one block `for j in range(n): ws.append(w j)` -/
theorem forRange_snoc {α : Type} (n : Int) (ws : List α) (w : Int → α) :
    forRange 0 n ws (fun j st => st ++ [w j]) = ws ++ tab n w := by
  rw [forRange_zero, foldl_snoc]; rfl

theorem foldl_pair {α : Type} (g : Nat → Int → List α) (c : Int) (m : Nat) (ws : List α) (adr : Int) :
    (List.range m).foldl (fun (st : List α × Int) k => (st.1 ++ g k st.2, st.2 + c)) (ws, adr)
      = (ws ++ (List.range m).flatMap (fun k => g k (adr + c * k)), adr + c * m) := by
  induction m with
  | zero => simp
  | succ m ih =>
    rw [List.range_succ, List.foldl_append, ih]
    simp [Int.mul_add, Int.add_assoc]

/-- one block `for j in range(n): ws.extend(g j adr); adr += c` -/
theorem forRange_pair {α : Type} (n : Int) (ws : List α) (adr c : Int) (g : Int → Int → List α) :
    forRange 0 n (ws, adr) (fun j st => (st.1 ++ g j st.2, st.2 + c))
      = (ws ++ (tab n (fun j => g j (adr + c * j))).flatten, adr + c * n.toNat) := by
  rw [forRange_zero]
  have := foldl_pair (fun k a => g (Int.ofNat k) a) c n.toNat ws adr
  simp only [tab, List.flatMap] at this ⊢
  exact this

theorem flatten_tab_singleton {α : Type} (n : Int) (f : Int → α) :
    (tab n (fun j => [f j])).flatten = tab n f := by
  unfold tab
  induction n.toNat with
  | zero => simp
  | succ m ih =>
    rw [List.range_succ, List.map_append, List.map_append, List.flatten_append]
    simp only [] at ih
    rw [ih]; simp

/-! ### `writesAt` -/

theorem writesAt_append (w adr : Int) (xs ys : List K) :
    writesAt w adr (xs ++ ys) = writesAt w adr xs ++ writesAt w (adr + xs.length) ys := by
  induction xs generalizing adr with
  | nil => simp [writesAt]
  | cons x xs ih =>
    simp only [List.cons_append, writesAt, ih, List.length_cons]
    congr 3; omega

theorem writesAt_tab (w adr n : Int) (f : Int → K) :
    writesAt w adr (tab n f)
      = tab n (fun j => (Write.mk "state_out" [w, adr + j] (WVal.f (f j)) WKind.set : Write K)) := by
  unfold tab
  induction n.toNat with
  | zero => simp [writesAt]
  | succ m ih =>
    rw [List.range_succ, List.map_append, List.map_append, writesAt_append, ih]
    simp [writesAt]

theorem length_flatten_const {α : Type} (c : Nat) (l : List (List α)) (h : ∀ x ∈ l, x.length = c) :
    l.flatten.length = c * l.length := by
  induction l with
  | nil => simp
  | cons x xs ih =>
    simp only [List.flatten_cons, List.length_append, List.length_cons]
    rw [ih (fun y hy => h y (List.mem_cons_of_mem _ hy)), h x (List.mem_cons_self ..)]
    rw [Nat.mul_add]; omega

theorem writesAt_flatten_tab (w adr n : Int) (c : Nat) (vs : Int → List K) (hc : ∀ j, (vs j).length = c) :
    writesAt w adr (tab n vs).flatten = (tab n (fun j => writesAt w (adr + c * j) (vs j))).flatten := by
  unfold tab
  induction n.toNat with
  | zero => simp [writesAt]
  | succ m ih =>
    rw [List.range_succ, List.map_append, List.map_append, List.flatten_append, List.flatten_append,
      writesAt_append, ih, length_flatten_const c _ (by simp [hc])]
    simp

/-- get-side scalar block -/
theorem forRange_get1 (n : Int) (ws : List (Write K)) (adr w : Int) (f : Int → K) :
    forRange 0 n ws (fun j st =>
      st ++ [(Write.mk "state_out" [w, adr + j] (WVal.f (f j)) WKind.set : Write K)])
    = ws ++ writesAt w adr (tab n f) := by
  rw [forRange_snoc, writesAt_tab]

/-- get-side spatial-vector block -/
theorem forRange_get6 (n : Int) (ws : List (Write K)) (adr w : Int) (v : Int → V6 K) :
    forRange 0 n (ws, adr) (fun j st =>
      (st.fst ++ [(Write.mk "state_out" [w, st.snd + 0] (WVal.f (v j).c0) WKind.set : Write K)]
        ++ [(Write.mk "state_out" [w, st.snd + 1] (WVal.f (v j).c1) WKind.set : Write K)]
        ++ [(Write.mk "state_out" [w, st.snd + 2] (WVal.f (v j).c2) WKind.set : Write K)]
        ++ [(Write.mk "state_out" [w, st.snd + 3] (WVal.f (v j).c3) WKind.set : Write K)]
        ++ [(Write.mk "state_out" [w, st.snd + 4] (WVal.f (v j).c4) WKind.set : Write K)]
        ++ [(Write.mk "state_out" [w, st.snd + 5] (WVal.f (v j).c5) WKind.set : Write K)], st.snd + 6))
    = (ws ++ writesAt w adr (tab n (fun j => V6.toList (v j))).flatten, adr + 6 * n.toNat) := by
  rw [writesAt_flatten_tab w adr n 6 _ (fun j => rfl)]
  have := forRange_pair n ws adr 6 (fun j a => writesAt w a (V6.toList (v j)))
  simp only [writesAt, V6.toList, List.append_assoc, List.cons_append, List.nil_append, Int.add_assoc,
    Int.reduceAdd, Int.add_zero, Int.cast_ofNat_Int] at this ⊢
  exact this

/-- get-side vec3 block -/
theorem forRange_get3 (n : Int) (ws : List (Write K)) (adr w : Int) (v : Int → V3 K) :
    forRange 0 n (ws, adr) (fun j st =>
      (st.fst ++ [(Write.mk "state_out" [w, st.snd + 0] (WVal.f (v j).c0) WKind.set : Write K)]
        ++ [(Write.mk "state_out" [w, st.snd + 1] (WVal.f (v j).c1) WKind.set : Write K)]
        ++ [(Write.mk "state_out" [w, st.snd + 2] (WVal.f (v j).c2) WKind.set : Write K)], st.snd + 3))
    = (ws ++ writesAt w adr (tab n (fun j => V3.toList (v j))).flatten, adr + 3 * n.toNat) := by
  rw [writesAt_flatten_tab w adr n 3 _ (fun j => rfl)]
  have := forRange_pair n ws adr 3 (fun j a => writesAt w a (V3.toList (v j)))
  simp only [writesAt, V3.toList, List.append_assoc, List.cons_append, List.nil_append, Int.add_assoc,
    Int.reduceAdd, Int.add_zero, Int.cast_ofNat_Int] at this ⊢
  exact this

/-- get-side quaternion block -/
theorem forRange_get4 (n : Int) (ws : List (Write K)) (adr w : Int) (v : Int → Q K) :
    forRange 0 n (ws, adr) (fun j st =>
      (st.fst ++ [(Write.mk "state_out" [w, st.snd + 0] (WVal.f (v j).c0) WKind.set : Write K)]
        ++ [(Write.mk "state_out" [w, st.snd + 1] (WVal.f (v j).c1) WKind.set : Write K)]
        ++ [(Write.mk "state_out" [w, st.snd + 2] (WVal.f (v j).c2) WKind.set : Write K)]
        ++ [(Write.mk "state_out" [w, st.snd + 3] (WVal.f (v j).c3) WKind.set : Write K)], st.snd + 4))
    = (ws ++ writesAt w adr (tab n (fun j => Q.toList (v j))).flatten, adr + 4 * n.toNat) := by
  rw [writesAt_flatten_tab w adr n 4 _ (fun j => rfl)]
  have := forRange_pair n ws adr 4 (fun j a => writesAt w a (Q.toList (v j)))
  simp only [writesAt, Q.toList, List.append_assoc, List.cons_append, List.nil_append, Int.add_assoc,
    Int.reduceAdd, Int.add_zero, Int.cast_ofNat_Int] at this ⊢
  exact this

/-! ### the block chain: left-nested form of the specification lists -/

/-- blocks 0..k-1, each guarded by its signature bit and started at its offset -/
def chain {α : Type} (sig : Int) (sz : List Int) (B : Nat → Int → List α) : Nat → List α
  | 0 => []
  | k + 1 => chain sig sz B k ++ (if bit sig k then B k (offset sig sz k) else [])

theorem flatMap_range_chain {α : Type} (sig : Int) (sz : List Int) (B : Nat → Int → List α) (n : Nat) :
    (List.range n).flatMap (fun k => if bit sig k then B k (offset sig sz k) else []) = chain sig sz B n := by
  induction n with
  | zero => rfl
  | succ n ih => rw [List.range_succ, List.flatMap_append, ih]; simp [chain]

theorem getWrites_eq_chain [Scalar K] (sig : Int) (dm : Dims) (d : Data K) (w : Int) :
    getWrites sig dm d w = chain sig (sizes dm) (fun k a => writesAt w a (comp dm d w k)) 13 :=
  flatMap_range_chain sig (sizes dm) (fun k a => writesAt w a (comp dm d w k)) 13

/-! ### set-side vector blocks -/

theorem range3 : List.range 3 = [0, 1, 2] := by decide
theorem range4 : List.range 4 = [0, 1, 2, 3] := by decide
theorem range6 : List.range 6 = [0, 1, 2, 3, 4, 5] := by decide

theorem forRange_set6 (n : Int) (ws : List (Write K)) (adr w : Int) (arr : String) (s : Int → K) :
    forRange 0 n (ws, adr) (fun j st =>
      (st.fst ++ [(Write.mk arr [w, j] (WVal.v (V6.toList (⟨s (st.snd + 0), s (st.snd + 1), s (st.snd + 2),
          s (st.snd + 3), s (st.snd + 4), s (st.snd + 5)⟩ : V6 K))) WKind.set : Write K)], st.snd + 6))
    = (ws ++ setVectors arr w n 6 s adr, adr + 6 * n.toNat) := by
  have := forRange_pair n ws adr 6 (fun j a => [(Write.mk arr [w, j] (WVal.v (V6.toList (⟨s (a + 0), s (a + 1),
      s (a + 2), s (a + 3), s (a + 4), s (a + 5)⟩ : V6 K))) WKind.set : Write K)])
  rw [this, flatten_tab_singleton]
  simp only [setVectors, range6, V6.toList, List.map_cons, List.map_nil, Int.cast_ofNat_Int]
  rfl

theorem forRange_set3 (n : Int) (ws : List (Write K)) (adr w : Int) (arr : String) (s : Int → K) :
    forRange 0 n (ws, adr) (fun j st =>
      (st.fst ++ [(Write.mk arr [w, j] (WVal.v (V3.toList (⟨s (st.snd + 0), s (st.snd + 1), s (st.snd + 2)⟩ : V3 K)))
          WKind.set : Write K)], st.snd + 3))
    = (ws ++ setVectors arr w n 3 s adr, adr + 3 * n.toNat) := by
  have := forRange_pair n ws adr 3 (fun j a => [(Write.mk arr [w, j] (WVal.v (V3.toList (⟨s (a + 0), s (a + 1),
      s (a + 2)⟩ : V3 K))) WKind.set : Write K)])
  rw [this, flatten_tab_singleton]
  simp only [setVectors, range3, V3.toList, List.map_cons, List.map_nil, Int.cast_ofNat_Int]
  rfl

theorem forRange_set4 (n : Int) (ws : List (Write K)) (adr w : Int) (arr : String) (s : Int → K) :
    forRange 0 n (ws, adr) (fun j st =>
      (st.fst ++ [(Write.mk arr [w, j] (WVal.v (Q.toList (⟨s (st.snd + 0), s (st.snd + 1), s (st.snd + 2),
          s (st.snd + 3)⟩ : Q K))) WKind.set : Write K)], st.snd + 4))
    = (ws ++ setVectors arr w n 4 s adr, adr + 4 * n.toNat) := by
  have := forRange_pair n ws adr 4 (fun j a => [(Write.mk arr [w, j] (WVal.v (Q.toList (⟨s (a + 0), s (a + 1),
      s (a + 2), s (a + 3)⟩ : Q K))) WKind.set : Write K)])
  rw [this, flatten_tab_singleton]
  simp only [setVectors, range4, Q.toList, List.map_cons, List.map_nil, Int.cast_ofNat_Int]
  rfl

theorem setWrites_eq_chain [Scalar K] (sig : Int) (dm : Dims) (s : Int → K) (w : Int) :
    setWrites sig dm s w = chain sig (sizes dm) (fun k a => setComp dm s w a k) 13 :=
  flatMap_range_chain sig (sizes dm) (fun k a => setComp dm s w a k) 13

/-! ### `tab`, `offset`, sizes -/

theorem tab_length {α : Type} (n : Int) (f : Int → α) : (tab n f).length = n.toNat := by
  simp [tab]

theorem mem_tab {α : Type} {n : Int} {f : Int → α} {x : α} (h : x ∈ tab n f) :
    ∃ j : Int, 0 ≤ j ∧ j < n ∧ x = f j := by
  simp only [tab, List.mem_map, List.mem_range] at h
  obtain ⟨i, hi, rfl⟩ := h
  exact ⟨Int.ofNat i, Int.natCast_nonneg i, by simp only [Int.ofNat_eq_natCast]; omega, rfl⟩

theorem tab_congr {α : Type} {n : Int} {f g : Int → α} (h : ∀ j : Int, 0 ≤ j → j < n → f j = g j) :
    tab n f = tab n g := by
  simp only [tab]
  apply List.map_congr_left
  intro i hi
  rw [List.mem_range] at hi
  exact h _ (Int.natCast_nonneg i) (by simp only [Int.ofNat_eq_natCast]; omega)

theorem tab_add {α : Type} (a b : Int) (ha : 0 ≤ a) (hb : 0 ≤ b) (g : Int → α) :
    tab (a + b) g = tab a g ++ tab b (fun j => g (a + j)) := by
  simp only [tab]
  rw [Int.toNat_add ha hb, List.range_add, List.map_append, List.map_map]
  congr 1
  apply List.map_congr_left
  intro i _
  simp only [Function.comp, Int.ofNat_eq_natCast, Int.natCast_add, Int.toNat_of_nonneg ha]

theorem getD_nonneg (l : List Int) (h : ∀ x ∈ l, 0 ≤ x) (k : Nat) : 0 ≤ l.getD k 0 := by
  induction l generalizing k with
  | nil => simp
  | cons x xs ih =>
    cases k with
    | zero => simpa using h x (List.mem_cons_self ..)
    | succ k => simpa using ih (fun y hy => h y (List.mem_cons_of_mem _ hy)) k

theorem sizes_nonneg {dm : Dims} (h : dm.Nonneg) (k : Nat) : 0 ≤ (sizes dm).getD k 0 := by
  apply getD_nonneg
  intro x hx
  have := h.nq; have := h.nv; have := h.nu; have := h.na; have := h.nbody; have := h.neq
  have := h.nmocap; have := h.nuserdata; have := h.nhistory
  simp only [sizes, List.mem_cons, List.not_mem_nil, or_false] at hx
  omega

theorem offset_le_succ (sig : Int) {sz : List Int} (hnn : ∀ k, 0 ≤ sz.getD k 0) (k : Nat) :
    offset sig sz k ≤ offset sig sz (k + 1) := by
  have := hnn k
  simp only [offset]; split <;> omega

theorem offset_mono (sig : Int) {sz : List Int} (hnn : ∀ k, 0 ≤ sz.getD k 0) {k l : Nat} (h : k ≤ l) :
    offset sig sz k ≤ offset sig sz l := by
  induction l with
  | zero => have : k = 0 := by omega
            subst this; exact Int.le_refl _
  | succ l ih =>
    rcases Nat.lt_or_ge k (l + 1) with h1 | h1
    · exact Int.le_trans (ih (by omega)) (offset_le_succ sig hnn l)
    · have : k = l + 1 := by omega
      subst this; exact Int.le_refl _

theorem offset_nonneg (sig : Int) {sz : List Int} (hnn : ∀ k, 0 ≤ sz.getD k 0) (k : Nat) :
    0 ≤ offset sig sz k := offset_mono sig hnn (Nat.zero_le k)

theorem offset_succ_of_bit {sig : Int} {sz : List Int} {k : Nat} (h : bit sig k = true) :
    offset sig sz (k + 1) = offset sig sz k + sz.getD k 0 := by
  simp [offset, h]

/-! ### `writesAt`: membership, addresses; chain → state vector -/

theorem mem_writesAt {w adr : Int} {xs : List K} {x : Write K} (h : x ∈ writesAt w adr xs) :
    x.arr = "state_out" ∧ x.kind = WKind.set ∧ ∃ a, x.idx = [w, a] ∧ adr ≤ a ∧ a < adr + xs.length := by
  induction xs generalizing adr with
  | nil => simp [writesAt] at h
  | cons y ys ih =>
    simp only [writesAt, List.mem_cons] at h
    rcases h with rfl | h
    · exact ⟨rfl, rfl, adr, rfl, Int.le_refl _, by simp only [List.length_cons]; omega⟩
    · obtain ⟨h1, h2, a, h3, h4, h5⟩ := ih h
      exact ⟨h1, h2, a, h3, by omega, by simp only [List.length_cons]; omega⟩

theorem writesAt_idx (w adr : Int) (xs : List K) :
    (writesAt w adr xs).map (·.idx) = (List.range xs.length).map (fun (i : Nat) => [w, adr + (i : Int)]) := by
  induction xs generalizing adr with
  | nil => simp [writesAt]
  | cons y ys ih =>
    simp only [writesAt, List.map_cons, ih, List.length_cons, List.range_succ_eq_map, List.map_map]
    simp only [Int.natCast_zero, Int.add_zero, List.cons.injEq, true_and]
    apply List.map_congr_left
    intro i _
    simp only [Function.comp, Int.natCast_succ]
    congr 2; omega

theorem writesAt_val (w adr : Int) (xs : List K) :
    (writesAt w adr xs).map (·.val) = xs.map WVal.f := by
  induction xs generalizing adr with
  | nil => simp [writesAt]
  | cons y ys ih => simp [writesAt, ih]

/-- the block chain of per-component stores is one run of consecutive stores of the concatenation -/
theorem chain_writesAt (w : Int) (sig : Int) (sz : List Int) (C : Nat → List K) (n : Nat)
    (hlen : ∀ k, k < n → bit sig k = true → ((C k).length : Int) = sz.getD k 0) :
    chain sig sz (fun k a => writesAt w a (C k)) n
        = writesAt w 0 ((List.range n).flatMap (fun k => if bit sig k then C k else []))
      ∧ ((((List.range n).flatMap (fun k => if bit sig k then C k else [])).length : Nat) : Int)
        = offset sig sz n := by
  induction n with
  | zero => simp [chain, writesAt, offset]
  | succ n ih =>
    obtain ⟨ih1, ih2⟩ := ih (fun k hk => hlen k (by omega))
    rw [List.range_succ, List.flatMap_append]
    simp only [chain, ih1, writesAt_append, ih2, List.flatMap_cons, List.flatMap_nil, List.append_nil,
      Int.zero_add, List.length_append, Int.natCast_add, offset]
    refine ⟨?_, ?_⟩
    · cases hb : bit sig n <;> simp [writesAt]
    · cases hb : bit sig n
      · simp
      · simp [hlen n (Nat.lt_succ_self n) hb]

theorem comp_length [Scalar K] {dm : Dims} (h : dm.Nonneg) (d : Data K) (w : Int) (k : Nat) (hk : k < 13) :
    (((comp dm d w k).length : Nat) : Int) = (sizes dm).getD k 0 := by
  have := h.nq; have := h.nv; have := h.nu; have := h.na; have := h.nbody; have := h.neq
  have := h.nmocap; have := h.nuserdata; have := h.nhistory
  have hk' : k = 0 ∨ k = 1 ∨ k = 2 ∨ k = 3 ∨ k = 4 ∨ k = 5 ∨ k = 6 ∨ k = 7 ∨ k = 8 ∨ k = 9 ∨ k = 10
      ∨ k = 11 ∨ k = 12 := by omega
  rcases hk' with rfl | rfl | rfl | rfl | rfl | rfl | rfl | rfl | rfl | rfl | rfl | rfl | rfl <;>
    simp only [comp, sizes, tab_length, List.length_cons, List.length_nil, List.getD_cons_zero,
      List.getD_cons_succ] <;>
    first
      | omega
      | (rw [length_flatten_const 6 _ (by intro x hx; obtain ⟨j, _, _, rfl⟩ := mem_tab hx; rfl), tab_length]; omega)
      | (rw [length_flatten_const 3 _ (by intro x hx; obtain ⟨j, _, _, rfl⟩ := mem_tab hx; rfl), tab_length]; omega)
      | (rw [length_flatten_const 4 _ (by intro x hx; obtain ⟨j, _, _, rfl⟩ := mem_tab hx; rfl), tab_length]; omega)

theorem getWrites_eq_stateVec [Scalar K] {dm : Dims} (h : dm.Nonneg) (sig : Int) (d : Data K) (w : Int) :
    getWrites sig dm d w = writesAt w 0 (stateVec sig dm d w)
      ∧ (((stateVec sig dm d w).length : Nat) : Int) = stateSize sig (sizes dm) := by
  rw [getWrites_eq_chain]
  exact chain_writesAt w sig (sizes dm) (comp dm d w) 13 (fun k hk _ => comp_length h d w k hk)

/-! ### set side: membership -/

theorem setComp_ge [Scalar K] (dm : Dims) (s : Int → K) (w a : Int) (k : Nat) (hk : 13 ≤ k) :
    setComp dm s w a k = [] := by
  obtain ⟨m, rfl⟩ : ∃ m, k = m + 13 := ⟨k - 13, by omega⟩
  rfl

theorem mem_setComp [Scalar K] {dm : Dims} {s : Int → K} {w a : Int} {k : Nat} {x : Write K}
    (h : x ∈ setComp dm s w a k) :
    k < 13 ∧ x.arr = arrName k ∧ x.kind = WKind.set ∧ x.idx.head? = some w := by
  rcases Nat.lt_or_ge k 13 with hk | hk
  · refine ⟨hk, ?_⟩
    have hk' : k = 0 ∨ k = 1 ∨ k = 2 ∨ k = 3 ∨ k = 4 ∨ k = 5 ∨ k = 6 ∨ k = 7 ∨ k = 8 ∨ k = 9 ∨ k = 10
        ∨ k = 11 ∨ k = 12 := by omega
    rcases hk' with rfl | rfl | rfl | rfl | rfl | rfl | rfl | rfl | rfl | rfl | rfl | rfl | rfl <;>
      simp only [setComp, setScalars, setVectors, List.mem_singleton] at h <;>
      first
        | (subst h; exact ⟨rfl, rfl, rfl⟩)
        | (obtain ⟨j, _, _, rfl⟩ := mem_tab h; exact ⟨rfl, rfl, rfl⟩)
  · rw [setComp_ge dm s w a k hk] at h; simp at h



theorem mem_chain {α : Type} {sig : Int} {sz : List Int} {B : Nat → Int → List α} {n : Nat} {x : α}
    (h : x ∈ chain sig sz B n) : ∃ k, k < n ∧ bit sig k = true ∧ x ∈ B k (offset sig sz k) := by
  induction n with
  | zero => simp [chain] at h
  | succ n ih =>
    simp only [chain, List.mem_append] at h
    rcases h with h | h
    · obtain ⟨k, hk, hb, hx⟩ := ih h
      exact ⟨k, by omega, hb, hx⟩
    · cases hb : bit sig n
      · simp [hb] at h
      · simp only [hb, if_true] at h
        exact ⟨n, Nat.lt_succ_self n, hb, h⟩

/-! ### memory lookups through write lists -/

theorem lookupG_append {α : Type} (U : α → Write K → α) (a b : List (Write K)) (arr : String) (idx : List Int)
    (d : α) : lookupG U (a ++ b) arr idx d = lookupG U b arr idx (lookupG U a arr idx d) := by
  simp [lookupG, List.foldl_append]

theorem lookupG_skip {α : Type} (U : α → Write K → α) (ws : List (Write K)) (arr : String) (idx : List Int)
    (d : α) (h : ∀ x ∈ ws, x.arr ≠ arr ∨ x.idx ≠ idx) : lookupG U ws arr idx d = d := by
  induction ws generalizing d with
  | nil => rfl
  | cons y ys ih =>
    have hy := h y (List.mem_cons_self ..)
    have : (y.arr == arr && y.idx == idx) = false := by
      rcases hy with hy | hy <;> simp [hy]
    simp only [lookupG, List.foldl_cons, this] at ih ⊢
    exact ih d (fun x hx => h x (List.mem_cons_of_mem _ hx))

/-- a run of plain stores to distinct cells `arr[w, 0..n-1]`: cell `i` ends up with what store `i` put -/
theorem lookupG_tab_hit {α : Type} (U : α → Write K → α) (arr : String) (w n : Int) (W : Int → Write K)
    (hW : ∀ j, (W j).arr = arr ∧ (W j).idx = [w, j]) (i : Int) (h0 : 0 ≤ i) (hi : i < n) (r : α)
    (hU : ∀ acc, U acc (W i) = r) (d : α) :
    lookupG U (tab n W) arr [w, i] d = r := by
  have key : ∀ m : Nat, (i.toNat < m) →
      lookupG U ((List.range m).map (fun j => W (Int.ofNat j))) arr [w, i] d = r := by
    intro m
    induction m with
    | zero => intro h; omega
    | succ m ih =>
      intro hm
      rw [List.range_succ, List.map_append, lookupG_append]
      rcases Nat.lt_or_ge i.toNat m with h1 | h1
      · rw [ih h1]
        apply lookupG_skip
        intro x hx
        simp only [List.map_cons, List.map_nil, List.mem_singleton] at hx
        subst hx
        right
        rw [(hW _).2]
        simp only [Int.ofNat_eq_natCast, ne_eq, List.cons.injEq, and_true, true_and]
        omega
      · have him : (Int.ofNat m) = i := by simp only [Int.ofNat_eq_natCast]; omega
        simp only [List.map_cons, List.map_nil, lookupG, List.foldl_cons, List.foldl_nil, him, (hW i).1,
          (hW i).2, beq_self_eq_true, Bool.and_self, if_true, hU]
  exact key n.toNat (by omega)

/-- lookup of array `name k` through the block chain only sees block k -/
theorem lookupG_chain {α : Type} (U : α → Write K → α) (sig : Int) (sz : List Int)
    (B : Nat → Int → List (Write K)) (name : Nat → String)
    (hB : ∀ i a x, x ∈ B i a → x.arr = name i) (n k : Nat)
    (hinj : ∀ i, i < n → i ≠ k → name i ≠ name k) (hk : k < n) (idx : List Int) (d : α) :
    lookupG U (chain sig sz B n) (name k) idx d
      = if bit sig k then lookupG U (B k (offset sig sz k)) (name k) idx d else d := by
  have skip : ∀ m, m ≤ k → lookupG U (chain sig sz B m) (name k) idx d = d := by
    intro m hm
    apply lookupG_skip
    intro x hx
    obtain ⟨i, hi, _, hx⟩ := mem_chain hx
    left
    rw [hB i _ x hx]
    exact hinj i (by omega) (by omega)
  induction n with
  | zero => omega
  | succ n ih =>
    simp only [chain, lookupG_append]
    rcases Nat.lt_or_ge k n with h1 | h1
    · rw [ih (fun i hi => hinj i (by omega)) h1]
      apply lookupG_skip
      intro x hx
      left
      cases hb : bit sig n
      · simp [hb] at hx
      · simp only [hb, if_true] at hx
        rw [hB n _ x hx]
        exact hinj n (by omega) (by omega)
    · have : k = n := by omega
      subst this
      rw [skip k (Nat.le_refl k)]
      cases hb : bit sig k
      · simp [lookupG]
      · simp

theorem arrName_inj {i k : Nat} (hi : i < 13) (hk : k < 13) (h : i ≠ k) : arrName i ≠ arrName k := by
  have hi' : i = 0 ∨ i = 1 ∨ i = 2 ∨ i = 3 ∨ i = 4 ∨ i = 5 ∨ i = 6 ∨ i = 7 ∨ i = 8 ∨ i = 9 ∨ i = 10
      ∨ i = 11 ∨ i = 12 := by omega
  have hk' : k = 0 ∨ k = 1 ∨ k = 2 ∨ k = 3 ∨ k = 4 ∨ k = 5 ∨ k = 6 ∨ k = 7 ∨ k = 8 ∨ k = 9 ∨ k = 10
      ∨ k = 11 ∨ k = 12 := by omega
  rcases hi' with rfl | rfl | rfl | rfl | rfl | rfl | rfl | rfl | rfl | rfl | rfl | rfl | rfl <;>
  rcases hk' with rfl | rfl | rfl | rfl | rfl | rfl | rfl | rfl | rfl | rfl | rfl | rfl | rfl <;>
  first | (exact absurd rfl h) | (simp only [arrName]; decide)



/-! ### set → get round trip, per component -/

theorem lookup_setWrites [Scalar K] {α : Type} (U : α → Write K → α) (sig : Int) (dm : Dims) (s : Int → K)
    (w : Int) (k : Nat) (hk : k < 13) (idx : List Int) (d : α) :
    lookupG U (setWrites sig dm s w) (arrName k) idx d
      = if bit sig k then lookupG U (setComp dm s w (offset sig (sizes dm) k) k) (arrName k) idx d else d := by
  rw [setWrites_eq_chain]
  exact lookupG_chain U sig (sizes dm) (fun k a => setComp dm s w a k) arrName
    (fun i a x hx => (mem_setComp hx).2.1) 13 k (fun i hi hik => arrName_inj hi hk hik) hk idx d

/-- `Write.lookupF` is a `lookupG` whose update returns the stored float on a plain float store -/
theorem lookupF_spec [Scalar K] : ∃ U : K → Write K → K,
    (∀ ws arr idx d, Write.lookupF ws arr idx d = lookupG U ws arr idx d) ∧
    (∀ acc arr idx x, U acc ⟨arr, idx, WVal.f x, WKind.set⟩ = x) :=
  ⟨_, fun _ _ _ _ => rfl, fun _ _ _ _ => rfl⟩

theorem lookupB_spec : ∃ U : Bool → Write K → Bool,
    (∀ ws arr idx d, Write.lookupB ws arr idx d = lookupG U ws arr idx d) ∧
    (∀ acc arr idx x, U acc ⟨arr, idx, WVal.b x, WKind.set⟩ = x) :=
  ⟨_, fun _ _ _ _ => rfl, fun _ _ _ _ => rfl⟩

theorem flatten_range_block {α : Type} (c m : Nat) (h : Nat → α) :
    ((List.range m).map (fun j => (List.range c).map (fun i => h (c * j + i)))).flatten
      = (List.range (c * m)).map h := by
  induction m with
  | zero => simp
  | succ m ih =>
    rw [List.range_succ, List.map_append, List.flatten_append, ih, Nat.mul_succ, List.range_add,
      List.map_append, List.map_map]
    simp [Function.comp_def]

theorem flatten_tab_block {α : Type} (c : Nat) (n : Int) (hn : 0 ≤ n) (g : Int → α) :
    (tab n (fun j => (List.range c).map (fun i => g ((c : Int) * j + Int.ofNat i)))).flatten
      = tab ((c : Int) * n) g := by
  obtain ⟨m, rfl⟩ := Int.eq_ofNat_of_zero_le hn
  have := flatten_range_block c m (fun t => g (Int.ofNat t))
  simp only [tab, Int.toNat_natCast, ← Int.natCast_mul] at this ⊢
  rw [← this]
  simp only [Int.ofNat_eq_natCast, Int.natCast_add, Int.natCast_mul]

/-- the value read back for one float of component k -/
def rtv [Scalar K] (k : Nat) (x : K) : K := if k = 9 then b2f (f2b x) else x

theorem lookup_setScalars {α : Type} (U : α → Write K → α) (vf : K → α)
    (hU : ∀ acc arr idx x, U acc ⟨arr, idx, WVal.f x, WKind.set⟩ = vf x)
    (arr : String) (w n : Int) (s : Int → K) (adr i : Int) (h0 : 0 ≤ i) (hi : i < n) (d : α) :
    lookupG U (setScalars arr w n s adr) arr [w, i] d = vf (s (adr + i)) :=
  lookupG_tab_hit U arr w n _ (fun _ => ⟨rfl, rfl⟩) i h0 hi _ (fun acc => hU acc _ _ _) d

theorem lookup_setVectors {α : Type} (U : α → Write K → α) (arr : String) (w n : Int) (c : Nat) (s : Int → K)
    (adr i : Int) (h0 : 0 ≤ i) (hi : i < n) (d : α) (r : α)
    (hU : ∀ acc, U acc ⟨arr, [w, i], WVal.v ((List.range c).map (fun t => s (adr + (c : Int) * i + Int.ofNat t))),
      WKind.set⟩ = r) :
    lookupG U (setVectors arr w n c s adr) arr [w, i] d = r :=
  lookupG_tab_hit U arr w n _ (fun _ => ⟨rfl, rfl⟩) i h0 hi r hU d

section
variable [Scalar K] (sig : Int) (dm : Dims) (s : Int → K) (w : Int) (d0 : Data K)

/-- scalar float components read back exactly what `set_state` stored -/
theorem post_scalar (k : Nat) (hk : k < 13) (hb : bit sig k = true) (n : Int) (i : Int) (h0 : 0 ≤ i) (hi : i < n)
    (hc : setComp dm s w (offset sig (sizes dm) k) k = setScalars (arrName k) w n s (offset sig (sizes dm) k))
    (d : K) :
    Write.lookupF (setWrites sig dm s w) (arrName k) [w, i] d = s (offset sig (sizes dm) k + i) := by
  obtain ⟨U, h1, h2⟩ := lookupF_spec (K := K)
  rw [h1, lookup_setWrites U sig dm s w k hk, hb, if_pos rfl, hc]
  exact lookup_setScalars U id h2 _ w n s _ i h0 hi d

theorem post_time (hb : bit sig 0 = true) (d : K) :
    Write.lookupF (setWrites sig dm s w) "time_out" [w] d = s 0 := by
  obtain ⟨U, h1, h2⟩ := lookupF_spec (K := K)
  rw [h1]
  have := lookup_setWrites U sig dm s w 0 (by omega) [w] d
  rw [hb, if_pos rfl] at this
  rw [show "time_out" = arrName 0 from rfl, this]
  simp only [setComp, lookupG, List.foldl_cons, List.foldl_nil, offset, arrName, beq_self_eq_true, Bool.and_self,
    if_true, h2]

theorem post_eq_active (hb : bit sig 9 = true) (i : Int) (h0 : 0 ≤ i) (hi : i < dm.neq) (d : Bool) :
    Write.lookupB (setWrites sig dm s w) "eq_active_out" [w, i] d = f2b (s (offset sig (sizes dm) 9 + i)) := by
  obtain ⟨U, h1, h2⟩ := lookupB_spec (K := K)
  rw [h1]
  have := lookup_setWrites U sig dm s w 9 (by omega) [w, i] d
  rw [hb, if_pos rfl] at this
  rw [show "eq_active_out" = arrName 9 from rfl, this]
  exact lookupG_tab_hit U (arrName 9) w dm.neq
    (fun j => ⟨"eq_active_out", [w, j], WVal.b (f2b (s (offset sig (sizes dm) 9 + j))), WKind.set⟩)
    (fun _ => ⟨rfl, rfl⟩) i h0 hi _ (fun acc => h2 acc _ _ _) d

theorem post_xfrc (hb : bit sig 8 = true) (i : Int) (h0 : 0 ≤ i) (hi : i < dm.nbody) (d : V6 K) :
    V6.toList (lookupG updV6 (setWrites sig dm s w) "xfrc_applied_out" [w, i] d)
      = (List.range 6).map (fun t => s (offset sig (sizes dm) 8 + ((6 : Nat) : Int) * i + Int.ofNat t)) := by
  have := lookup_setWrites updV6 sig dm s w 8 (by omega) [w, i] d
  rw [hb, if_pos rfl] at this
  rw [show "xfrc_applied_out" = arrName 8 from rfl, this]
  rw [show setComp dm s w (offset sig (sizes dm) 8) 8 = setVectors (arrName 8) w dm.nbody 6 s _ from rfl]
  rw [lookup_setVectors updV6 _ w dm.nbody 6 s _ i h0 hi d _ (fun acc => rfl)]
  simp only [range6, List.map_cons, List.map_nil, V6.toList]

theorem post_mocap_pos (hb : bit sig 10 = true) (i : Int) (h0 : 0 ≤ i) (hi : i < dm.nmocap) (d : V3 K) :
    V3.toList (lookupG updV3 (setWrites sig dm s w) "mocap_pos_out" [w, i] d)
      = (List.range 3).map (fun t => s (offset sig (sizes dm) 10 + ((3 : Nat) : Int) * i + Int.ofNat t)) := by
  have := lookup_setWrites updV3 sig dm s w 10 (by omega) [w, i] d
  rw [hb, if_pos rfl] at this
  rw [show "mocap_pos_out" = arrName 10 from rfl, this]
  rw [show setComp dm s w (offset sig (sizes dm) 10) 10 = setVectors (arrName 10) w dm.nmocap 3 s _ from rfl]
  rw [lookup_setVectors updV3 _ w dm.nmocap 3 s _ i h0 hi d _ (fun acc => rfl)]
  simp only [range3, List.map_cons, List.map_nil, V3.toList]

theorem post_mocap_quat (hb : bit sig 11 = true) (i : Int) (h0 : 0 ≤ i) (hi : i < dm.nmocap) (d : Q K) :
    Q.toList (lookupG updQ (setWrites sig dm s w) "mocap_quat_out" [w, i] d)
      = (List.range 4).map (fun t => s (offset sig (sizes dm) 11 + ((4 : Nat) : Int) * i + Int.ofNat t)) := by
  have := lookup_setWrites updQ sig dm s w 11 (by omega) [w, i] d
  rw [hb, if_pos rfl] at this
  rw [show "mocap_quat_out" = arrName 11 from rfl, this]
  rw [show setComp dm s w (offset sig (sizes dm) 11) 11 = setVectors (arrName 11) w dm.nmocap 4 s _ from rfl]
  rw [lookup_setVectors updQ _ w dm.nmocap 4 s _ i h0 hi d _ (fun acc => rfl)]
  simp only [range4, List.map_cons, List.map_nil, Q.toList]

/-- after `set_state`'s writes, every selected component of world w reads back the corresponding
    segment of the state row (EQ_ACTIVE through float → Bool → float) -/
theorem comp_post (h : dm.Nonneg) (k : Nat) (hk : k < 13) (hb : bit sig k = true) :
    comp dm (applyWrites (setWrites sig dm s w) d0) w k
      = tab ((sizes dm).getD k 0) (fun j => rtv k (s (offset sig (sizes dm) k + j))) := by
  have hk' : k = 0 ∨ k = 1 ∨ k = 2 ∨ k = 3 ∨ k = 4 ∨ k = 5 ∨ k = 6 ∨ k = 7 ∨ k = 8 ∨ k = 9 ∨ k = 10
      ∨ k = 11 ∨ k = 12 := by omega
  rcases hk' with rfl | rfl | rfl | rfl | rfl | rfl | rfl | rfl | rfl | rfl | rfl | rfl | rfl
  · simp only [comp, applyWrites, post_time sig dm s w hb, sizes, List.getD_cons_zero, offset]
    simp [tab, rtv]
  · exact tab_congr (fun j h0 hj => post_scalar sig dm s w 1 hk hb dm.nq j h0 hj rfl _)
  · exact tab_congr (fun j h0 hj => post_scalar sig dm s w 2 hk hb dm.nv j h0 hj rfl _)
  · exact tab_congr (fun j h0 hj => post_scalar sig dm s w 3 hk hb dm.na j h0 hj rfl _)
  · exact tab_congr (fun j h0 hj => post_scalar sig dm s w 4 hk hb dm.nhistory j h0 hj rfl _)
  · exact tab_congr (fun j h0 hj => post_scalar sig dm s w 5 hk hb dm.nv j h0 hj rfl _)
  · exact tab_congr (fun j h0 hj => post_scalar sig dm s w 6 hk hb dm.nu j h0 hj rfl _)
  · exact tab_congr (fun j h0 hj => post_scalar sig dm s w 7 hk hb dm.nv j h0 hj rfl _)
  · have e : (sizes dm).getD 8 0 = ((6 : Nat) : Int) * dm.nbody := rfl
    rw [e, ← flatten_tab_block 6 dm.nbody h.nbody]
    simp only [comp]
    congr 1
    refine tab_congr (fun j h0 hj => ?_)
    simp only [applyWrites, post_xfrc sig dm s w hb j h0 hj, rtv, Int.add_assoc]
    rfl
  · simp only [comp, sizes, List.getD_cons_succ, List.getD_cons_zero]
    refine tab_congr (fun j h0 hj => ?_)
    simp only [applyWrites, post_eq_active sig dm s w hb j h0 hj, rtv, if_true]
    rfl
  · have e : (sizes dm).getD 10 0 = ((3 : Nat) : Int) * dm.nmocap := rfl
    rw [e, ← flatten_tab_block 3 dm.nmocap h.nmocap]
    simp only [comp]
    congr 1
    refine tab_congr (fun j h0 hj => ?_)
    simp only [applyWrites, post_mocap_pos sig dm s w hb j h0 hj, rtv, Int.add_assoc]
    rfl
  · have e : (sizes dm).getD 11 0 = ((4 : Nat) : Int) * dm.nmocap := rfl
    rw [e, ← flatten_tab_block 4 dm.nmocap h.nmocap]
    simp only [comp]
    congr 1
    refine tab_congr (fun j h0 hj => ?_)
    simp only [applyWrites, post_mocap_quat sig dm s w hb j h0 hj, rtv, Int.add_assoc]
    rfl
  · exact tab_congr (fun j h0 hj => post_scalar sig dm s w 12 hk hb dm.nuserdata j h0 hj rfl _)

theorem rtv_eq_roundtripVal (h : dm.Nonneg) (k : Nat) (hb : bit sig k = true) (j : Int) (h0 : 0 ≤ j)
    (hj : j < (sizes dm).getD k 0) :
    rtv k (s (offset sig (sizes dm) k + j)) = roundtripVal sig dm s (offset sig (sizes dm) k + j) := by
  have hnn := sizes_nonneg h
  have hsucc := offset_succ_of_bit (sz := sizes dm) hb
  unfold rtv roundtripVal
  rcases Nat.lt_trichotomy k 9 with h1 | h1 | h1
  · have := offset_mono sig hnn (show k + 1 ≤ 9 by omega)
    rw [if_neg (by omega), if_neg (by omega)]
  · subst h1
    have hs : offset sig (sizes dm) 10 = offset sig (sizes dm) 9 + (sizes dm).getD 9 0 := hsucc
    rw [if_pos rfl, if_pos ⟨hb, by omega, by omega⟩]
  · have := offset_mono sig hnn (show 10 ≤ k by omega)
    rw [if_neg (by omega), if_neg (by omega)]

end

theorem flatMap_vals {α : Type} (sig : Int) (sz : List Int) (g : Int → α) (C : Nat → List α) (n : Nat)
    (hnn : ∀ k, 0 ≤ sz.getD k 0)
    (h : ∀ k, k < n → bit sig k = true → C k = tab (sz.getD k 0) (fun j => g (offset sig sz k + j))) :
    (List.range n).flatMap (fun k => if bit sig k then C k else []) = tab (offset sig sz n) g := by
  induction n with
  | zero => simp [offset, tab]
  | succ n ih =>
    rw [List.range_succ, List.flatMap_append, ih (fun k hk => h k (by omega))]
    simp only [List.flatMap_cons, List.flatMap_nil, List.append_nil, offset]
    cases hb : bit sig n
    · simp
    · simp only [if_true]
      rw [tab_add _ _ (offset_nonneg sig hnn n) (hnn n), h n (Nat.lt_succ_self n) hb]

theorem stateVec_post [Scalar K] (sig : Int) (dm : Dims) (s : Int → K) (w : Int) (d0 : Data K) (h : dm.Nonneg) :
    stateVec sig dm (applyWrites (setWrites sig dm s w) d0) w
      = tab (stateSize sig (sizes dm)) (roundtripVal sig dm s) := by
  apply flatMap_vals sig (sizes dm) _ _ 13 (sizes_nonneg h)
  intro k hk hb
  rw [comp_post sig dm s w d0 h k hk hb]
  exact tab_congr (fun j h0 hj => rtv_eq_roundtripVal sig dm s h k hb j h0 hj)

/-! ### meaning of the signature test -/

theorem ofInt_two_pow (k : Nat) : BitVec.ofInt 32 ((2 : Int) ^ k) = BitVec.twoPow 32 k := by
  have : ((2 : Int) ^ k) = ((2 ^ k : Nat) : Int) := by simp
  rw [this, BitVec.ofInt_natCast]
  apply BitVec.eq_of_toNat_eq
  simp [BitVec.toNat_twoPow]

theorem twoPow_ne_zero (k : Nat) (hk : k < 32) : BitVec.twoPow 32 k ≠ 0#32 := by
  intro h
  have := congrArg BitVec.toNat h
  rw [BitVec.toNat_twoPow] at this
  have h2 : 2 ^ k < 2 ^ 32 := Nat.pow_lt_pow_right (by omega) hk
  rw [Nat.mod_eq_of_lt h2] at this
  have : 0 < 2 ^ k := Nat.two_pow_pos k
  simp at *

/-- the kernels' test `(1 << k) & sig != 0` is "bit k of sig is set" (two's complement, k < 32) -/
theorem bit_eq_testBit (sig : Int) (hs : 0 ≤ sig) (k : Nat) (hk : k < 32) : bit sig k = sig.toNat.testBit k := by
  obtain ⟨n, rfl⟩ := Int.eq_ofNat_of_zero_le hs
  unfold bit iand
  rw [ofInt_two_pow, BitVec.twoPow_and, BitVec.ofInt_natCast, Int.toNat_natCast]
  have hz : ((0#32).toInt) = 0 := BitVec.toInt_zero
  by_cases hb : (BitVec.ofNat 32 n).getLsbD k = true
  · have hb' := hb
    rw [BitVec.getLsbD_ofNat] at hb'
    simp only [hb, if_true]
    have : (BitVec.twoPow 32 k).toInt ≠ 0 := by
      rw [← hz]; intro h; exact twoPow_ne_zero k hk (BitVec.toInt_inj.mp h)
    simp_all
  · have hb' := hb
    rw [BitVec.getLsbD_ofNat] at hb'
    simp_all

/-- membership in the `set_state` specification list, unfolded -/
theorem mem_setWrites [Scalar K] {sig : Int} {dm : Dims} {s : Int → K} {w : Int} {x : Write K}
    (hx : x ∈ setWrites sig dm s w) :
    ∃ k, k < 13 ∧ bit sig k = true ∧ x.arr = arrName k ∧ x.kind = WKind.set ∧ x.idx.head? = some w := by
  rw [setWrites_eq_chain] at hx
  obtain ⟨k, _, hb, hk⟩ := mem_chain hx
  obtain ⟨h1, h2, h3, h4⟩ := mem_setComp hk
  exact ⟨k, h1, hb, h2, h3, h4⟩

/-! ### memory-level frames -/

theorem lookupF_skip [Scalar K] (ws : List (Write K)) (arr : String) (idx : List Int) (d : K)
    (h : ∀ x ∈ ws, x.arr ≠ arr ∨ x.idx ≠ idx) : Write.lookupF ws arr idx d = d := by
  obtain ⟨U, h1, _⟩ := lookupF_spec (K := K)
  rw [h1]; exact lookupG_skip U ws arr idx d h

theorem lookupB_skip (ws : List (Write K)) (arr : String) (idx : List Int) (d : Bool)
    (h : ∀ x ∈ ws, x.arr ≠ arr ∨ x.idx ≠ idx) : Write.lookupB ws arr idx d = d := by
  obtain ⟨U, h1, _⟩ := lookupB_spec (K := K)
  rw [h1]; exact lookupG_skip U ws arr idx d h

/-- a component of a world that no write addresses is unchanged by `applyWrites` -/
theorem comp_unchanged [Scalar K] (dm : Dims) (ws : List (Write K)) (d0 : Data K) (w' : Int) (k : Nat)
    (H : ∀ x ∈ ws, x.arr ≠ arrName k ∨ x.idx.head? ≠ some w') :
    comp dm (applyWrites ws d0) w' k = comp dm d0 w' k := by
  have hs : ∀ idx : List Int, idx.head? = some w' → ∀ x ∈ ws, x.arr ≠ arrName k ∨ x.idx ≠ idx := by
    intro idx hidx x hx
    rcases H x hx with h | h
    · exact Or.inl h
    · right; intro e; rw [e] at h; exact h hidx
  rcases Nat.lt_or_ge k 13 with hk | hk
  · have hk' : k = 0 ∨ k = 1 ∨ k = 2 ∨ k = 3 ∨ k = 4 ∨ k = 5 ∨ k = 6 ∨ k = 7 ∨ k = 8 ∨ k = 9 ∨ k = 10
        ∨ k = 11 ∨ k = 12 := by omega
    rcases hk' with rfl | rfl | rfl | rfl | rfl | rfl | rfl | rfl | rfl | rfl | rfl | rfl | rfl
    · exact congrArg (fun x => [x]) (lookupF_skip _ _ _ _ (hs [w'] rfl))
    · exact tab_congr (fun j _ _ => lookupF_skip _ _ _ _ (hs [w', j] rfl))
    · exact tab_congr (fun j _ _ => lookupF_skip _ _ _ _ (hs [w', j] rfl))
    · exact tab_congr (fun j _ _ => lookupF_skip _ _ _ _ (hs [w', j] rfl))
    · exact tab_congr (fun j _ _ => lookupF_skip _ _ _ _ (hs [w', j] rfl))
    · exact tab_congr (fun j _ _ => lookupF_skip _ _ _ _ (hs [w', j] rfl))
    · exact tab_congr (fun j _ _ => lookupF_skip _ _ _ _ (hs [w', j] rfl))
    · exact tab_congr (fun j _ _ => lookupF_skip _ _ _ _ (hs [w', j] rfl))
    · simp only [comp]
      congr 1
      exact tab_congr (fun j _ _ => congrArg V6.toList (lookupG_skip updV6 _ _ _ _ (hs [w', j] rfl)))
    · simp only [comp]
      exact tab_congr (fun j _ _ => congrArg b2f (lookupB_skip _ _ _ _ (hs [w', j] rfl)))
    · simp only [comp]
      congr 1
      exact tab_congr (fun j _ _ => congrArg V3.toList (lookupG_skip updV3 _ _ _ _ (hs [w', j] rfl)))
    · simp only [comp]
      congr 1
      exact tab_congr (fun j _ _ => congrArg Q.toList (lookupG_skip updQ _ _ _ _ (hs [w', j] rfl)))
    · exact tab_congr (fun j _ _ => lookupF_skip _ _ _ _ (hs [w', j] rfl))
  · obtain ⟨m, rfl⟩ : ∃ m, k = m + 13 := ⟨k - 13, by omega⟩
    rfl

end Mjw.Lemmas.C15
