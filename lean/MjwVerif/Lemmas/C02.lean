/-
  Helper definitions and lemmas for property C02 (smooth dynamics): K-generic copies of loop bodies of the generated
  kernels (tied to `Mjw.Gen.*` by `rfl`), closed forms of loops, write-list look-ups.
-/
import MjwVerif.Lemmas.Real
import MjwVerif.Gen.Passive
import MjwVerif.Gen.Smooth
import MjwVerif.Gen.Forward
import MjwVerif.Spec.Passive

set_option linter.unusedVariables false
set_option linter.unusedSimpArgs false
set_option linter.unusedSectionVars false

namespace Mjw.Lemmas.C02
open Mjw Mjw.Gen.Passive Mjw.Gen.Smooth Mjw.Gen.Util_misc Mjw.Gen.Math Mjw.Spec.Passive

variable {K : Type} [Scalar K]

/-! ## polynomial coefficient -/
theorem poly_force_even (lin : K) (p : V2 K) (x : K) : _poly_force lin p x 0 = coef lin p x := by
  simp [_poly_force, coef]
theorem poly_force_odd (lin : K) (p : V2 K) (x : K) : _poly_force lin p x 1 = coef lin p (Scalar.abs x) := by
  simp [_poly_force, coef]

/-! ## write-list builders -/
def W (arr : String) (w d : Int) (x : K) : Write K := Write.mk arr [w, d] (WVal.f x) WKind.set
def W3 (arr : String) (w d : Int) (v : V3 K) : List (Write K) := [W arr w (d + 0) v.c0, W arr w (d + 1) v.c1, W arr w (d + 2) v.c2]
def Z3 (arr : String) (w d : Int) : List (Write K) := W3 arr w d (⟨Scalar.lit 0 0, Scalar.lit 0 0, Scalar.lit 0 0⟩ : V3 K)
def D3 (b : K) (p : V2 K) (qvel : Int → Int → K) (w d : Int) : List (Write K) :=
  W3 "qfrc_damper_out" w d ⟨damper1 b p (qvel w (d + 0)), damper1 b p (qvel w (d + 1)), damper1 b p (qvel w (d + 2))⟩
def q4 (a : Int → K) (i : Int) : Q K := ⟨a (i + 0), a (i + 1), a (i + 2), a (i + 3)⟩

theorem forRange_inv {σ : Type} (I : σ → Prop) (lo hi : Int) (init : σ) (f : Int → σ → σ)
    (h0 : I init) (hs : ∀ i s, I s → I (f i s)) : I (Mjw.forRange lo hi init f) := by
  unfold Mjw.forRange
  generalize (List.range (hi - lo).toNat) = l
  induction l generalizing init with
  | nil => exact h0
  | cons a l ih => simp only [List.foldl_cons]; exact ih _ (hs _ _ h0)

/-! ## `_M` -/
theorem lookupF_snoc_set (ws : List (Write K)) (arr : String) (idx idx' : List Int) (x d : K) :
    Write.lookupF (ws ++ [Write.mk arr idx' (WVal.f x) WKind.set]) arr idx d
      = if idx' = idx then x else Write.lookupF ws arr idx d := by
  simp only [Write.lookupF, List.foldl_append, List.foldl_cons, List.foldl_nil, beq_self_eq_true, Bool.true_and]
  by_cases h : idx' = idx <;> simp [h]

/-- one iteration of `_M`'s ancestor loop -/
def mStep (w : Int) (dof_parentid : Int → Int) (cdof : Int → Int → V6 K) (M_out : Int → Int → K) (buf : V6 K) :
    (List (Write K) × Int × Int) → (List (Write K) × Int × Int) := fun st =>
  (st.1 ++ [(Write.mk "M_out" [w, st.2.1] (WVal.f ((Write.lookupF st.1 "M_out" [w, st.2.1] (M_out w st.2.1)) + (V6.dot (cdof w st.2.2) buf))) WKind.set : Write K)],
   st.2.1 - 1, dof_parentid st.2.2)

theorem M_unfold (dof_bodyid dof_parentid : Int → Int) (arm : Int → Int → K) (rownnz rowadr : Int → Int) (cdof : Int → Int → V6 K)
    (crb : Int → Int → V10 K) (M_out : Int → Int → K) (s : Int) (fuel : Nat) (w i : Int) :
    _M dof_bodyid dof_parentid arm rownnz rowadr cdof crb M_out s fuel w i
      = (Mjw.whileFuel fuel (fun st => (decide (st.2.2 ≥ (0 : Int))) && (decide (st.2.1 ≥ rowadr i)))
          (mStep w dof_parentid cdof M_out (inert_vec (crb w (dof_bodyid i)) (cdof w i)))
          ([(Write.mk "M_out" [w, rowadr i + rownnz i - 1] (WVal.f (arm (Int.tmod w s) i)) WKind.set : Write K)], rowadr i + rownnz i - 1, i)).1 := by
  rfl

/-- the k-th write of the loop: entry (i, anc_k i) of row i -/
def mEntry (w : Int) (dof_parentid : Int → Int) (cdof : Int → Int → V6 K) (M_out : Int → Int → K) (buf : V6 K) (a : K) (madr i : Int) (k : Nat) : Write K :=
  Write.mk "M_out" [w, madr - (k : Int)]
    (WVal.f ((if k = 0 then a else M_out w (madr - (k : Int))) + V6.dot (cdof w (ancDof dof_parentid i k)) buf)) WKind.set

/-- the ancestor loop of `_M` (after commit 8d35602 it also stops when the address leaves the row, `madr < row`) -/
theorem mLoop (w : Int) (dof_parentid : Int → Int) (cdof : Int → Int → V6 K) (M_out : Int → Int → K) (buf : V6 K) (a : K) (madr i row : Int) :
    ∀ (n : Nat) (fuel : Nat) (k : Nat) (ws : List (Write K)), n ≤ fuel →
      (∀ t < n, 0 ≤ ancDof dof_parentid i (k + t) ∧ row ≤ madr - ((k + t : Nat) : Int)) →
      (ancDof dof_parentid i (k + n) < 0 ∨ madr - ((k + n : Nat) : Int) < row) →
      (∀ k' ≥ k, Write.lookupF ws "M_out" [w, madr - (k' : Int)] (M_out w (madr - (k' : Int))) = (if k' = 0 then a else M_out w (madr - (k' : Int)))) →
      (Mjw.whileFuel fuel (fun st => (decide (st.2.2 ≥ (0 : Int))) && (decide (st.2.1 ≥ row))) (mStep w dof_parentid cdof M_out buf)
          (ws, madr - (k : Int), ancDof dof_parentid i k)).1
        = ws ++ (List.range n).map (fun t => mEntry w dof_parentid cdof M_out buf a madr i (k + t)) := by
  intro n
  induction n with
  | zero =>
    intro fuel k ws _ _ hend _
    cases fuel with
    | zero => simp [Mjw.whileFuel]
    | succ f =>
      have : ((decide (ancDof dof_parentid i k ≥ 0)) && (decide (madr - (k : Int) ≥ row))) = false := by
        rcases hend with h | h
        · have : ¬ (ancDof dof_parentid i k ≥ 0) := by simpa using h
          simp [this]
        · have : ¬ (madr - (k : Int) ≥ row) := by simpa using h
          simp [this]
      simp [Mjw.whileFuel, this]
  | succ n ih =>
    intro fuel k ws hf hanc hend hinv
    cases fuel with
    | zero => omega
    | succ f =>
      have h0 : ancDof dof_parentid i k ≥ 0 := by simpa using (hanc 0 (by omega)).1
      have h0' : madr - (k : Int) ≥ row := by simpa using (hanc 0 (by omega)).2
      have hstep : mStep w dof_parentid cdof M_out buf (ws, madr - (k : Int), ancDof dof_parentid i k)
          = (ws ++ [mEntry w dof_parentid cdof M_out buf a madr i k], madr - ((k + 1 : Nat) : Int), ancDof dof_parentid i (k + 1)) := by
        simp only [mStep, mEntry, hinv k (le_refl k), ancDof]
        congr 2
        push_cast; ring
      simp only [Mjw.whileFuel, h0, h0', decide_true, Bool.and_self, if_true, hstep]
      rw [ih f (k + 1) _ (by omega) (fun t ht => by have := hanc (t + 1) (by omega); rwa [show k + 1 + t = k + (t + 1) by omega])
        (by rwa [show k + 1 + n = k + (n + 1) by omega])]
      · rw [List.range_succ_eq_map, List.map_cons, List.map_map, List.append_assoc]
        simp only [List.singleton_append, Nat.add_zero]
        congr 2
        apply List.map_congr_left
        intro t _
        simp only [Function.comp, Nat.succ_eq_add_one]
        rw [show k + 1 + t = k + (t + 1) by omega]
      · intro k' hk'
        rw [mEntry, lookupF_snoc_set]
        have : ¬ ([w, madr - (k : Int)] = [w, madr - (k' : Int)]) := by
          intro h; simp only [List.cons.injEq, and_true, true_and] at h; omega
        rw [if_neg this]
        exact hinv k' (by omega)

/-! ## forRange -/
theorem forRange_succ {σ : Type} (lo : Int) (n : Nat) (init : σ) (f : Int → σ → σ) :
    Mjw.forRange lo (lo + ((n + 1 : Nat) : Int)) init f = f (lo + (n : Int)) (Mjw.forRange lo (lo + (n : Int)) init f) := by
  unfold Mjw.forRange
  have h1 : (lo + ((n + 1 : Nat) : Int) - lo).toNat = n + 1 := by omega
  have h2 : (lo + (n : Int) - lo).toNat = n := by omega
  rw [h1, h2, List.range_succ, List.foldl_append]
  rfl

theorem forRange_zero {σ : Type} (lo : Int) (init : σ) (f : Int → σ → σ) : Mjw.forRange lo (lo + ((0 : Nat) : Int)) init f = init := by
  simp [Mjw.forRange]

theorem forRange_toNat {σ : Type} (lo hi : Int) (init : σ) (f : Int → σ → σ) :
    Mjw.forRange lo hi init f = Mjw.forRange lo (lo + (((hi - lo).toNat : Nat) : Int)) init f := by
  unfold Mjw.forRange
  congr 2
  omega

theorem V6_ofList_toList (v : V6 K) : V6.ofList (V6.toList v) = v := rfl

theorem lookupV_snoc_set_same (ws : List (Write K)) (arr : String) (idx : List Int) (x d : List K) :
    Write.lookupV (ws ++ [Write.mk arr idx (WVal.v x) WKind.set]) arr idx d = x := by
  simp [Write.lookupV, List.foldl_append]

/-! ## com_vel -/
/-- K-generic copy of the per-joint loop body of `_comvel_branch` (tied to the generated kernel by `rfl` in `comvel_unfold`) -/
def jointStepG (worldid : Int) (jnt_type : Int → Int) (qvel : Int → K) (cdof : Int → V6 K) :
    Int → (V6 K × List (Write K) × Int) → (V6 K × List (Write K) × Int) :=
  fun (j : Int) (st : (V6 K × List (Write K) × Int)) =>
  let (cvel, ws, dofid) := st
  let jnttype : Int := (jnt_type j)
  let (cvel, ws, dofid) :=
    if (decide (jnttype = (0 : Int))) then
      let cvel : V6 K := (V6.add cvel (V6.muls (cdof (dofid + (0 : Int))) (qvel (dofid + (0 : Int)))))
      let cvel : V6 K := (V6.add cvel (V6.muls (cdof (dofid + (1 : Int))) (qvel (dofid + (1 : Int)))))
      let cvel : V6 K := (V6.add cvel (V6.muls (cdof (dofid + (2 : Int))) (qvel (dofid + (2 : Int)))))
      let ws : List (Write K) := ws ++ [(Write.mk "cdof_dot_out" [worldid, (dofid + (0 : Int))] (WVal.v (V6.toList (⟨(Scalar.lit 0 0 : K), (Scalar.lit 0 0 : K), (Scalar.lit 0 0 : K), (Scalar.lit 0 0 : K), (Scalar.lit 0 0 : K), (Scalar.lit 0 0 : K)⟩ : V6 K))) WKind.set : Write K)]
      let ws : List (Write K) := ws ++ [(Write.mk "cdof_dot_out" [worldid, (dofid + (1 : Int))] (WVal.v (V6.toList (⟨(Scalar.lit 0 0 : K), (Scalar.lit 0 0 : K), (Scalar.lit 0 0 : K), (Scalar.lit 0 0 : K), (Scalar.lit 0 0 : K), (Scalar.lit 0 0 : K)⟩ : V6 K))) WKind.set : Write K)]
      let ws : List (Write K) := ws ++ [(Write.mk "cdof_dot_out" [worldid, (dofid + (2 : Int))] (WVal.v (V6.toList (⟨(Scalar.lit 0 0 : K), (Scalar.lit 0 0 : K), (Scalar.lit 0 0 : K), (Scalar.lit 0 0 : K), (Scalar.lit 0 0 : K), (Scalar.lit 0 0 : K)⟩ : V6 K))) WKind.set : Write K)]
      let ws : List (Write K) := ws ++ [(Write.mk "cdof_dot_out" [worldid, (dofid + (3 : Int))] (WVal.v (V6.toList (Mjw.Gen.Math.motion_cross (K := K) cvel (cdof (dofid + (3 : Int)))))) WKind.set : Write K)]
      let ws : List (Write K) := ws ++ [(Write.mk "cdof_dot_out" [worldid, (dofid + (4 : Int))] (WVal.v (V6.toList (Mjw.Gen.Math.motion_cross (K := K) cvel (cdof (dofid + (4 : Int)))))) WKind.set : Write K)]
      let ws : List (Write K) := ws ++ [(Write.mk "cdof_dot_out" [worldid, (dofid + (5 : Int))] (WVal.v (V6.toList (Mjw.Gen.Math.motion_cross (K := K) cvel (cdof (dofid + (5 : Int)))))) WKind.set : Write K)]
      let cvel : V6 K := (V6.add cvel (V6.muls (cdof (dofid + (3 : Int))) (qvel (dofid + (3 : Int)))))
      let cvel : V6 K := (V6.add cvel (V6.muls (cdof (dofid + (4 : Int))) (qvel (dofid + (4 : Int)))))
      let cvel : V6 K := (V6.add cvel (V6.muls (cdof (dofid + (5 : Int))) (qvel (dofid + (5 : Int)))))
      let dofid : Int := (dofid + (6 : Int))
      (cvel, ws, dofid)
    else
      let (ws, cvel, dofid) :=
        if (decide (jnttype = (1 : Int))) then
          let ws : List (Write K) := ws ++ [(Write.mk "cdof_dot_out" [worldid, (dofid + (0 : Int))] (WVal.v (V6.toList (Mjw.Gen.Math.motion_cross (K := K) cvel (cdof (dofid + (0 : Int)))))) WKind.set : Write K)]
          let ws : List (Write K) := ws ++ [(Write.mk "cdof_dot_out" [worldid, (dofid + (1 : Int))] (WVal.v (V6.toList (Mjw.Gen.Math.motion_cross (K := K) cvel (cdof (dofid + (1 : Int)))))) WKind.set : Write K)]
          let ws : List (Write K) := ws ++ [(Write.mk "cdof_dot_out" [worldid, (dofid + (2 : Int))] (WVal.v (V6.toList (Mjw.Gen.Math.motion_cross (K := K) cvel (cdof (dofid + (2 : Int)))))) WKind.set : Write K)]
          let cvel : V6 K := (V6.add cvel (V6.muls (cdof (dofid + (0 : Int))) (qvel (dofid + (0 : Int)))))
          let cvel : V6 K := (V6.add cvel (V6.muls (cdof (dofid + (1 : Int))) (qvel (dofid + (1 : Int)))))
          let cvel : V6 K := (V6.add cvel (V6.muls (cdof (dofid + (2 : Int))) (qvel (dofid + (2 : Int)))))
          let dofid : Int := (dofid + (3 : Int))
          (ws, cvel, dofid)
        else
          let ws : List (Write K) := ws ++ [(Write.mk "cdof_dot_out" [worldid, dofid] (WVal.v (V6.toList (Mjw.Gen.Math.motion_cross (K := K) cvel (cdof dofid)))) WKind.set : Write K)]
          let cvel : V6 K := (V6.add cvel (V6.muls (cdof dofid) (qvel dofid)))
          let dofid : Int := (dofid + (1 : Int))
          (ws, cvel, dofid)
      (cvel, ws, dofid)
  (cvel, ws, dofid)

def cvelW (w b : Int) (c : V6 K) : Write K := Write.mk "cvel_out" [w, b] (WVal.v (V6.toList c)) WKind.set
def dotW (w d : Int) (c : V6 K) : Write K := Write.mk "cdof_dot_out" [w, d] (WVal.v (V6.toList c)) WKind.set

/-- K-generic copy of the per-body loop body of `_comvel_branch` -/
def bodyStepG (body_parentid body_jntnum body_jntadr body_dofadr jnt_type body_branches : Int → Int) (qvel_in : Int → Int → K)
    (cdof_in cvel_out : Int → Int → V6 K) (worldid : Int) : Int → List (Write K) → List (Write K) :=
  fun (i : Int) (st : List (Write K)) =>
      let ws := st
      let bodyid : Int := (body_branches i)
      let pid : Int := (body_parentid bodyid)
      let cvel : V6 K := (V6.ofList (Write.lookupV ws "cvel_out" [worldid, pid] (V6.toList (cvel_out worldid pid))))
      let dofid : Int := (body_dofadr bodyid)
      let jntid : Int := (body_jntadr bodyid)
      let jntnum : Int := (body_jntnum bodyid)
      if (decide (jntnum = (0 : Int))) then
        let ws : List (Write K) := ws ++ [(Write.mk "cvel_out" [worldid, bodyid] (WVal.v (V6.toList cvel)) WKind.set : Write K)]
        ws
      else
        let (cvel, ws, dofid) := Mjw.forRange jntid (jntid + jntnum) (cvel, ws, dofid) (jointStepG worldid jnt_type (qvel_in worldid) (cdof_in worldid))
        let ws : List (Write K) := ws ++ [(Write.mk "cvel_out" [worldid, bodyid] (WVal.v (V6.toList cvel)) WKind.set : Write K)]
        ws

theorem comvel_unfold (body_parentid body_jntnum body_jntadr body_dofadr jnt_type body_branches body_branch_start : Int → Int)
    (qvel_in : Int → Int → K) (cdof_in cvel_out cdof_dot_out : Int → Int → V6 K) (w br : Int) :
    _comvel_branch body_parentid body_jntnum body_jntadr body_dofadr jnt_type body_branches body_branch_start qvel_in cdof_in cvel_out cdof_dot_out w br
      = Mjw.forRange (body_branch_start br) (body_branch_start (br + 1)) []
          (bodyStepG body_parentid body_jntnum body_jntadr body_dofadr jnt_type body_branches qvel_in cdof_in cvel_out w) := rfl

/-- mj_comVel's `cdof_dot` of one joint of type `t` whose first dof is `d`, given the body velocity `c` accumulated before the joint -/
def dotWrites (w : Int) (cdof : Int → V6 K) (qvel : Int → K) (t : Int) (c : V6 K) (d : Int) : List (Write K) :=
  if t = 0 then
    [dotW w (d + 0) (⟨Scalar.lit 0 0, Scalar.lit 0 0, Scalar.lit 0 0, Scalar.lit 0 0, Scalar.lit 0 0, Scalar.lit 0 0⟩ : V6 K),
     dotW w (d + 1) (⟨Scalar.lit 0 0, Scalar.lit 0 0, Scalar.lit 0 0, Scalar.lit 0 0, Scalar.lit 0 0, Scalar.lit 0 0⟩ : V6 K),
     dotW w (d + 2) (⟨Scalar.lit 0 0, Scalar.lit 0 0, Scalar.lit 0 0, Scalar.lit 0 0, Scalar.lit 0 0, Scalar.lit 0 0⟩ : V6 K),
     dotW w (d + 3) (motion_cross (addDofs cdof qvel c d 3) (cdof (d + 3))),
     dotW w (d + 4) (motion_cross (addDofs cdof qvel c d 3) (cdof (d + 4))),
     dotW w (d + 5) (motion_cross (addDofs cdof qvel c d 3) (cdof (d + 5)))]
  else if t = 1 then
    [dotW w (d + 0) (motion_cross c (cdof (d + 0))), dotW w (d + 1) (motion_cross c (cdof (d + 1))), dotW w (d + 2) (motion_cross c (cdof (d + 2)))]
  else [dotW w d (motion_cross c (cdof d))]

theorem jointStep_eq (w : Int) (jt : Int → Int) (qvel : Int → K) (cdof : Int → V6 K) (j : Int) (c : V6 K) (ws : List (Write K)) (d : Int) :
    jointStepG w jt qvel cdof j (c, ws, d)
      = (addDofs cdof qvel c d (ndof (jt j)), ws ++ dotWrites w cdof qvel (jt j) c d, d + (ndof (jt j) : Int)) := by
  unfold jointStepG dotWrites ndof
  by_cases h0 : jt j = 0
  · simp [h0, addDofs, dotW, add_assoc]
  · by_cases h1 : jt j = 1
    · simp [h1, addDofs, dotW, add_assoc]
    · simp [h0, h1, addDofs, dotW]

theorem addDofs_add (cdof : Int → V6 K) (qvel : Int → K) (c : V6 K) (d : Int) (n m : Nat) :
    addDofs cdof qvel (addDofs cdof qvel c d n) (d + (n : Int)) m = addDofs cdof qvel c d (n + m) := by
  induction m with
  | zero => rfl
  | succ m ih =>
    rw [show n + (m + 1) = (n + m) + 1 by omega]
    simp only [addDofs, ih]
    rw [show d + (n : Int) + (m : Int) = d + ((n + m : Nat) : Int) by push_cast; ring]

/-- all `cdof_dot` writes of a body: joints `j, …, j+n-1`, first dof `d`, velocity `c` before the first joint -/
def dotsAll (w : Int) (cdof : Int → V6 K) (qvel : Int → K) (jt : Int → Int) (c : V6 K) (j d : Int) : Nat → List (Write K)
  | 0 => []
  | n + 1 => dotsAll w cdof qvel jt c j d n ++
      dotWrites w cdof qvel (jt (j + (n : Int))) (addDofs cdof qvel c d (dofsOf jt j n)) (d + (dofsOf jt j n : Int))

theorem jointsFold (w : Int) (jt : Int → Int) (qvel : Int → K) (cdof : Int → V6 K) (j : Int) (c : V6 K) (ws : List (Write K)) (d : Int) (n : Nat) :
    Mjw.forRange j (j + (n : Int)) (c, ws, d) (jointStepG w jt qvel cdof)
      = (addDofs cdof qvel c d (dofsOf jt j n), ws ++ dotsAll w cdof qvel jt c j d n, d + (dofsOf jt j n : Int)) := by
  induction n with
  | zero => simp [Mjw.forRange, dofsOf, dotsAll, addDofs]
  | succ n ih =>
    rw [forRange_succ, ih, jointStep_eq]
    simp only [dofsOf, dotsAll, addDofs_add, List.append_assoc]
    congr 2
    push_cast; ring

theorem bodyStep_eq (pid jntnum jntadr dofadr jt branches : Int → Int) (qvel : Int → Int → K) (cdof cvel_out : Int → Int → V6 K) (w i : Int)
    (ws : List (Write K)) (hn : 0 ≤ jntnum (branches i)) :
    bodyStepG pid jntnum jntadr dofadr jt branches qvel cdof cvel_out w i ws
      = let b := branches i
        let c0 : V6 K := V6.ofList (Write.lookupV ws "cvel_out" [w, pid b] (V6.toList (cvel_out w (pid b))))
        ws ++ dotsAll w (cdof w) (qvel w) jt c0 (jntadr b) (dofadr b) (jntnum b).toNat
           ++ [cvelW w b (addDofs (cdof w) (qvel w) c0 (dofadr b) (dofsOf jt (jntadr b) (jntnum b).toNat))] := by
  unfold bodyStepG
  obtain ⟨m, hm⟩ := Int.eq_ofNat_of_zero_le hn
  by_cases h : jntnum (branches i) = 0
  · have hm0 : m = 0 := by omega
    simp [h, dotsAll, dofsOf, addDofs, cvelW]
  · simp only [h, decide_false, Bool.false_eq_true, if_false]
    simp only [hm, Int.toNat_natCast, jointsFold]
    simp [cvelW]

section chain
variable (pid jntnum jntadr dofadr jt branches : Int → Int) (qvel : Int → Int → K) (cdof cvel_out : Int → Int → V6 K) (w start : Int)

/-- velocity of the k-th body of a chain (`k = 0`: pre-launch velocity of the parent of the chain's first body) -/
def chainVel : Nat → V6 K
  | 0 => cvel_out w (pid (branches start))
  | k + 1 => addDofs (cdof w) (qvel w) (chainVel k) (dofadr (branches (start + (k : Int))))
      (dofsOf jt (jntadr (branches (start + (k : Int)))) (jntnum (branches (start + (k : Int)))).toNat)

/-- the write list of a thread after `k` bodies -/
def chainWs : Nat → List (Write K)
  | 0 => []
  | k + 1 => chainWs k
      ++ dotsAll w (cdof w) (qvel w) jt (chainVel pid jntnum jntadr dofadr jt branches qvel cdof cvel_out w start k)
           (jntadr (branches (start + (k : Int)))) (dofadr (branches (start + (k : Int)))) (jntnum (branches (start + (k : Int)))).toNat
      ++ [cvelW w (branches (start + (k : Int))) (chainVel pid jntnum jntadr dofadr jt branches qvel cdof cvel_out w start (k + 1))]

theorem comvel_chain (m : Nat) (hn : ∀ k < m, 0 ≤ jntnum (branches (start + (k : Int))))
    (hl : ∀ k, k + 1 < m → pid (branches (start + ((k + 1 : Nat) : Int))) = branches (start + (k : Int))) :
    Mjw.forRange start (start + (m : Int)) [] (bodyStepG pid jntnum jntadr dofadr jt branches qvel cdof cvel_out w)
      = chainWs pid jntnum jntadr dofadr jt branches qvel cdof cvel_out w start m := by
  induction m with
  | zero => simp [Mjw.forRange, chainWs]
  | succ m ih =>
    rw [forRange_succ, ih (fun k hk => hn k (by omega)) (fun k hk => hl k (by omega)), bodyStep_eq _ _ _ _ _ _ _ _ _ _ _ _ (hn m (by omega))]
    simp only [chainWs]
    have hc : (V6.ofList (Write.lookupV (chainWs pid jntnum jntadr dofadr jt branches qvel cdof cvel_out w start m) "cvel_out"
        [w, pid (branches (start + (m : Int)))] (V6.toList (cvel_out w (pid (branches (start + (m : Int))))))) : V6 K)
        = chainVel pid jntnum jntadr dofadr jt branches qvel cdof cvel_out w start m := by
      cases m with
      | zero => simp [chainWs, chainVel, Write.lookupV, V6_ofList_toList]
      | succ m' =>
        rw [hl m' (by omega)]
        simp only [chainWs, cvelW]
        rw [lookupV_snoc_set_same, V6_ofList_toList]
    simp only [hc, chainVel]
end chain

/-! ## ellipsoid fluid model -/
/-- K-generic copy of the per-geom part of the ellipsoid branch of `_fluid_force` (tied to the generated kernel by `rfl`-style
    unfolding in `Props.C02.fluid_ellipsoid_wrench_at_geom`): world-frame (force, torque about the GEOM CENTRE) of geom `geomid` -/
def geomWrenchG (geom_type : Int → Int) (geom_size : Int → Int → V3 K) (geom_fluid : Int → Int → K)
    (geom_xpos_in : Int → Int → V3 K) (geom_xmat_in : Int → Int → M33 K) (geom_size_shape0 worldid : Int)
    (wind : V3 K) (density viscosity : K) (xipos lin_com ang_global : V3 K) (geomid : Int) : V3 K × V3 K :=
  let coef : K := (geom_fluid geomid (0 : Int))
  let size : V3 K := (geom_size (Int.tmod worldid geom_size_shape0) geomid)
  let semiaxes : V3 K := (Mjw.Gen.Passive.geom_semiaxes (K := K) size (geom_type geomid))
  let geom_rot : M33 K := (geom_xmat_in worldid geomid)
  let geom_rotT : M33 K := (M33.transpose geom_rot)
  let geom_pos : V3 K := (geom_xpos_in worldid geomid)
  let lin_point : V3 K := (V3.add lin_com (V3.cross ang_global (V3.sub geom_pos xipos)))
  let l_ang : V3 K := (M33.mulVec geom_rotT ang_global)
  let l_lin : V3 K := (M33.mulVec geom_rotT lin_point)
  let l_lin :=
    if ((Scalar.bne wind.c0 (Scalar.lit 0 0)) || (Scalar.bne wind.c1 (Scalar.lit 0 0)) || (Scalar.bne wind.c2 (Scalar.lit 0 0))) then
      let l_lin : V3 K := (V3.sub l_lin (M33.mulVec geom_rotT wind))
      l_lin
    else
      l_lin
  let lfrc_torque : V3 K := (V3.fill (Scalar.lit 0 0 : K))
  let lfrc_force : V3 K := (V3.fill (Scalar.lit 0 0 : K))
  let (virtual_mass, virtual_inertia, virtual_lin_mom, virtual_ang_mom, added_mass_force, added_mass_torque, lfrc_force, lfrc_torque) :=
    if (Scalar.gt density (Scalar.lit 0 0 : K)) then
      let virtual_mass : V3 K := (⟨(geom_fluid geomid (6 : Int)), (geom_fluid geomid (7 : Int)), (geom_fluid geomid (8 : Int))⟩ : V3 K)
      let virtual_inertia : V3 K := (⟨(geom_fluid geomid (9 : Int)), (geom_fluid geomid (10 : Int)), (geom_fluid geomid (11 : Int))⟩ : V3 K)
      let virtual_lin_mom : V3 K := (⟨((density * virtual_mass.c0) * l_lin.c0), ((density * virtual_mass.c1) * l_lin.c1), ((density * virtual_mass.c2) * l_lin.c2)⟩ : V3 K)
      let virtual_ang_mom : V3 K := (⟨((density * virtual_inertia.c0) * l_ang.c0), ((density * virtual_inertia.c1) * l_ang.c1), ((density * virtual_inertia.c2) * l_ang.c2)⟩ : V3 K)
      let added_mass_force : V3 K := (V3.cross virtual_lin_mom l_ang)
      let added_mass_torque : V3 K := (V3.add (V3.cross virtual_lin_mom l_lin) (V3.cross virtual_ang_mom l_ang))
      let lfrc_force : V3 K := (V3.add lfrc_force added_mass_force)
      let lfrc_torque : V3 K := (V3.add lfrc_torque added_mass_torque)
      (virtual_mass, virtual_inertia, virtual_lin_mom, virtual_ang_mom, added_mass_force, added_mass_torque, lfrc_force, lfrc_torque)
    else
      ((V3.zero : V3 K), (V3.zero : V3 K), (V3.zero : V3 K), (V3.zero : V3 K), (V3.zero : V3 K), (V3.zero : V3 K), lfrc_force, lfrc_torque)
  let magnus_coef : K := (geom_fluid geomid (5 : Int))
  let kutta_coef : K := (geom_fluid geomid (4 : Int))
  let blunt_drag_coef : K := (geom_fluid geomid (1 : Int))
  let slender_drag_coef : K := (geom_fluid geomid (2 : Int))
  let ang_drag_coef : K := (geom_fluid geomid (3 : Int))
  let volume : K := ((((Scalar.lit 41887902047863905 (-16) : K) * semiaxes.c0) * semiaxes.c1) * semiaxes.c2)
  let d_max : K := (Scalar.max (Scalar.max semiaxes.c0 semiaxes.c1) semiaxes.c2)
  let d_min : K := (Scalar.min (Scalar.min semiaxes.c0 semiaxes.c1) semiaxes.c2)
  let d_mid : K := ((((semiaxes.c0 + semiaxes.c1) + semiaxes.c2) - d_max) - d_min)
  let A_max : K := (((Scalar.pi : K) * d_max) * d_mid)
  let lin_speed : K := (V3.length l_lin)
  let magnus_force : V3 K := (V3.muls (V3.cross l_ang l_lin) ((magnus_coef * density) * volume))
  let s12 : K := (semiaxes.c1 * semiaxes.c2)
  let s20 : K := (semiaxes.c2 * semiaxes.c0)
  let s01 : K := (semiaxes.c0 * semiaxes.c1)
  let proj_denom : K := ((((Mjw.Gen.Passive._pow4 (K := K) s12) * (Mjw.Gen.Passive._pow2 (K := K) l_lin.c0)) + ((Mjw.Gen.Passive._pow4 (K := K) s20) * (Mjw.Gen.Passive._pow2 (K := K) l_lin.c1))) + ((Mjw.Gen.Passive._pow4 (K := K) s01) * (Mjw.Gen.Passive._pow2 (K := K) l_lin.c2)))
  let proj_num : K := (((Mjw.Gen.Passive._pow2 (K := K) (s12 * l_lin.c0)) + (Mjw.Gen.Passive._pow2 (K := K) (s20 * l_lin.c1))) + (Mjw.Gen.Passive._pow2 (K := K) (s01 * l_lin.c2)))
  let A_proj : K := ((Scalar.pi : K) * (Scalar.sqrt (proj_denom / (Scalar.max (Scalar.lit 1 (-15) : K) proj_num))))
  let cos_alpha : K := (proj_num / (Scalar.max (Scalar.lit 1 (-15) : K) (lin_speed * proj_denom)))
  let norm : V3 K := (⟨((Mjw.Gen.Passive._pow2 (K := K) s12) * l_lin.c0), ((Mjw.Gen.Passive._pow2 (K := K) s20) * l_lin.c1), ((Mjw.Gen.Passive._pow2 (K := K) s01) * l_lin.c2)⟩ : V3 K)
  let kutta_force : V3 K := (V3.fill (Scalar.lit 0 0 : K))
  let (kutta_circ, kutta_force) :=
    if ((Scalar.gt density (Scalar.lit 0 0 : K)) && (Scalar.bne kutta_coef (Scalar.lit 0 0 : K)) && (Scalar.gt lin_speed (Scalar.lit 1 (-15) : K))) then
      let kutta_circ : V3 K := (V3.muls (V3.cross norm l_lin) (((kutta_coef * density) * cos_alpha) * A_proj))
      let kutta_force : V3 K := (V3.cross kutta_circ l_lin)
      (kutta_circ, kutta_force)
    else
      ((V3.zero : V3 K), kutta_force)
  let eq_sphere_D : K := ((Scalar.lit 6666666666666666 (-16) : K) * ((semiaxes.c0 + semiaxes.c1) + semiaxes.c2))
  let lin_visc_force_coef : K := ((Scalar.lit 942477796076938 (-14) : K) * eq_sphere_D)
  let lin_visc_torq_coef : K := ((((Scalar.pi : K) * eq_sphere_D) * eq_sphere_D) * eq_sphere_D)
  let I_max : K := (((Scalar.lit 16755160819145563 (-16) : K) * d_mid) * (Mjw.Gen.Passive._pow4 (K := K) d_max))
  let II0 : K := (Mjw.Gen.Passive.ellipsoid_max_moment (K := K) semiaxes (0 : Int))
  let II1 : K := (Mjw.Gen.Passive.ellipsoid_max_moment (K := K) semiaxes (1 : Int))
  let II2 : K := (Mjw.Gen.Passive.ellipsoid_max_moment (K := K) semiaxes (2 : Int))
  let mom_visc : V3 K := (⟨(l_ang.c0 * ((ang_drag_coef * II0) + (slender_drag_coef * (I_max - II0)))), (l_ang.c1 * ((ang_drag_coef * II1) + (slender_drag_coef * (I_max - II1)))), (l_ang.c2 * ((ang_drag_coef * II2) + (slender_drag_coef * (I_max - II2))))⟩ : V3 K)
  let drag_lin_coef : K := ((viscosity * lin_visc_force_coef) + ((density * lin_speed) * ((A_proj * blunt_drag_coef) + (slender_drag_coef * (A_max - A_proj)))))
  let drag_ang_coef : K := ((viscosity * lin_visc_torq_coef) + (density * (V3.length mom_visc)))
  let lfrc_torque : V3 K := (V3.sub lfrc_torque (V3.smul drag_ang_coef l_ang))
  let lfrc_force : V3 K := (V3.add lfrc_force (V3.sub (V3.add magnus_force kutta_force) (V3.smul drag_lin_coef l_lin)))
  let lfrc_torque : V3 K := (V3.muls lfrc_torque coef)
  let lfrc_force : V3 K := (V3.muls lfrc_force coef)
  (M33.mulVec geom_rot lfrc_force, M33.mulVec geom_rot lfrc_torque)

/-! ## moved from Props (facts about the helper definitions) -/
theorem present_disabled (lin : K) (p : V2 K) : present lin p true = false := by simp [present]

/-- the recursion `chainWs` writes: cvel[body k] = cvel[previous body of the chain] + Σ_{dofs d of body k, in order} cdof[d]·qvel[d]
    (k = 0: previous = pre-launch cvel of the parent of the chain's first body, i.e. the world's 0 after `_comvel_root`) -/
theorem chainVel_succ (pid jntnum jntadr dofadr jt branches : Int → Int) (qvel : Int → Int → K) (cdof cvel_out : Int → Int → V6 K) (w s : Int) (k : Nat) :
    chainVel pid jntnum jntadr dofadr jt branches qvel cdof cvel_out w s (k + 1)
      = addDofs (cdof w) (qvel w) (chainVel pid jntnum jntadr dofadr jt branches qvel cdof cvel_out w s k) (dofadr (branches (s + (k : Int))))
          (dofsOf jt (jntadr (branches (s + (k : Int)))) (jntnum (branches (s + (k : Int)))).toNat)
    ∧ chainVel pid jntnum jntadr dofadr jt branches qvel cdof cvel_out w s 0 = cvel_out w (pid (branches s)) := ⟨rfl, rfl⟩


/-- the k = 0 entry is the diagonal: armature + cdof_i·(crb_{body i}·cdof_i): the armature enters exactly once -/
theorem M_diag (w : Int) (dof_parentid : Int → Int) (cdof : Int → Int → V6 K) (M_out : Int → Int → K) (buf : V6 K) (a : K) (madr i : Int) :
    mEntry w dof_parentid cdof M_out buf a madr i 0 = Write.mk "M_out" [w, madr] (WVal.f (a + V6.dot (cdof w i) buf)) WKind.set := by
  simp [mEntry, ancDof]

/-- off-diagonal entries (k > 0) carry no armature -/
theorem M_offdiag (w : Int) (dof_parentid : Int → Int) (cdof : Int → Int → V6 K) (M_out : Int → Int → K) (buf : V6 K) (a : K) (madr i : Int) (k : Nat) (hk : 0 < k) :
    mEntry w dof_parentid cdof M_out buf a madr i k
      = Write.mk "M_out" [w, madr - (k : Int)] (WVal.f (M_out w (madr - (k : Int)) + V6.dot (cdof w (ancDof dof_parentid i k)) buf)) WKind.set := by
  have : k ≠ 0 := by omega
  simp [mEntry, this]


/-! ## ℝ facts -/
/-- a unit quaternion is a fixed point of `Q.normalize` -/
theorem normalize_unit (q : Q ℝ) (h : Q.dot q q = 1) : Q.normalize q = q := by
  simp only [Q.normalize, Q.length, h, ssqrt, Real.sqrt_one, slit, hdiv, hmul]
  cases q
  simp

/-- full gravity compensation (gravcomp = 1) is exactly minus the weight -/
theorem gravcomp_one (g : V3 ℝ) (m : ℝ) : gravcompForce g m 1 = ⟨-(m * g.c0), -(m * g.c1), -(m * g.c2)⟩ := by
  simp [gravcompForce, V3.muls, V3.neg]; refine ⟨?_, ?_, ?_⟩ <;> ring



theorem cross_zero_left (x : V3 ℝ) : V3.cross (⟨0, 0, 0⟩ : V3 ℝ) x = ⟨0, 0, 0⟩ := by simp [V3.cross]
theorem V6_add_muls_zero (c x : V6 ℝ) : V6.add c (V6.muls x 0) = c := by
  cases c; simp [V6.add, V6.muls]

end Mjw.Lemmas.C02
