/-
  Helper lemmas for Props/C28.lean, part 1: the kernel control flow `Island.kernelOpen` with aliased
  reads (a read of `labels_in`/`stack_in` sees the thread's own writes to `tree_island_out`/`stack_out`)
  performs exactly the writes of the model `Island.floodFillWrites`.
-/
import MjwVerif.Lemmas.C28

namespace Mjw.Lemmas.C28
open Mjw Mjw.Island

/-! ## lookups in a model trace -/

/-- value of `arr[worldid, idx…]` after the writes `tr` (last matching write wins), `d` = content before -/
def lookT (tr : List MW) (arr : String) (idx : List Int) (d : Int) : Int :=
  tr.foldl (fun acc e => if e.arr = arr ∧ e.idx = idx then e.val else acc) d

theorem lookupI_map {K : Type} (w : Int) (tr : List MW) (arr : String) (idx : List Int) (d : Int) :
    Write.lookupI (tr.map (MW.toWrite (K := K) w)) arr (w :: idx) d = lookT tr arr idx d := by
  induction tr generalizing d with
  | nil => rfl
  | cons e tr ih =>
    have hstep : Write.lookupI ((e :: tr).map (MW.toWrite (K := K) w)) arr (w :: idx) d
        = Write.lookupI (tr.map (MW.toWrite (K := K) w)) arr (w :: idx)
            (if e.arr = arr ∧ e.idx = idx then e.val else d) := by
      simp only [Write.lookupI, List.map_cons, List.foldl_cons, MW.toWrite]
      congr 1
      by_cases h1 : e.arr = arr <;> by_cases h2 : e.idx = idx <;> simp [h1, h2]
    rw [hstep, ih]
    rfl

theorem lookT_append (a b : List MW) (arr : String) (idx : List Int) (d : Int) :
    lookT (a ++ b) arr idx d = lookT b arr idx (lookT a arr idx d) := by
  unfold lookT; rw [List.foldl_append]

theorem lookT_cons (e : MW) (b : List MW) (arr : String) (idx : List Int) (d : Int) :
    lookT (e :: b) arr idx d = lookT b arr idx (if e.arr = arr ∧ e.idx = idx then e.val else d) := rfl

theorem lookT_nil (arr : String) (idx : List Int) (d : Int) : lookT [] arr idx d = d := rfl

theorem lookT_of_not_mem (b : List MW) (arr : String) (idx : List Int) (d : Int)
    (h : ∀ e ∈ b, ¬ (e.arr = arr ∧ e.idx = idx)) : lookT b arr idx d = d := by
  induction b generalizing d with
  | nil => rfl
  | cons e b ih =>
    rw [lookT_cons, if_neg (h e (by simp))]
    exact ih d (fun e' he' => h e' (by simp [he']))

theorem pushEvents_append (p : Nat) (l1 l2 : List Nat) :
    pushEvents p (l1 ++ l2) = pushEvents p l1 ++ pushEvents (p + l1.length) l2 := by
  induction l1 generalizing p with
  | nil => simp [pushEvents]
  | cons x xs ih =>
    simp only [List.cons_append, pushEvents, List.length_cons, ih]
    congr 2
    rw [show p + 1 + xs.length = p + (xs.length + 1) by omega]

theorem lookT_pushEvents_other (p0 : Nat) (l : List Nat) (arr : String) (idx : List Int) (d : Int)
    (h : arr ≠ "stack_out") : lookT (pushEvents p0 l) arr idx d = d := by
  apply lookT_of_not_mem
  intro e he h2
  exact h ((h2.1).symm.trans (pushEvents_mem he).1)

theorem lookT_pushEvents_out (p0 : Nat) (l : List Nat) (p : Nat) (d : Int)
    (h : p < p0 ∨ p0 + l.length ≤ p) : lookT (pushEvents p0 l) "stack_out" [(p : Int)] d = d := by
  apply lookT_of_not_mem
  intro e he h2
  obtain ⟨-, q, hq, h3, h4⟩ := pushEvents_mem he
  have : [(q : Int)] = [(p : Int)] := hq.symm.trans h2.2
  have : (q : Int) = (p : Int) := by simpa using this
  omega

theorem lookT_pushEvents_in (p0 : Nat) (l : List Nat) (q : Nat) (d : Int) (x : Nat)
    (hx : l[q]? = some x) : lookT (pushEvents p0 l) "stack_out" [((p0 + q : Nat) : Int)] d = (x : Int) := by
  induction l generalizing p0 q d with
  | nil => simp at hx
  | cons y ys ih =>
    rw [pushEvents, lookT_cons]
    cases q with
    | zero =>
      have : y = x := by simpa using hx
      subst this
      simp only [Nat.add_zero, and_self, if_true]
      exact lookT_pushEvents_out (p0 + 1) ys p0 _ (Or.inl (by omega))
    | succ q =>
      have hne : ¬ (("stack_out" : String) = "stack_out" ∧ [(p0 : Int)] = [((p0 + (q + 1) : Nat) : Int)]) := by
        intro h
        have : (p0 : Int) = ((p0 + (q + 1) : Nat) : Int) := by simpa using h.2
        omega
      rw [if_neg hne]
      have := ih (p0 + 1) q d (by simpa using hx)
      rw [show p0 + 1 + q = p0 + (q + 1) by omega] at this
      exact this

/-! ## `forRange` over a natural bound -/

theorem forRange_nat {σ : Type} (n : Nat) (init : σ) (f : Int → σ → σ) :
    Mjw.forRange 0 (n : Int) init f = (List.range n).foldl (fun s (k : Nat) => f (k : Int) s) init := by
  simp [Mjw.forRange]

/-! ## the three loops of the kernel against the model -/

section loops
variable {K : Type} (w : Int) (tt : Int → Int → Int → Int) (n : Nat) (pre spre : Int → Int)

/-- the label array as the thread sees it after the writes `tr` -/
def LabOK (pre : Int → Int) (tr : List MW) (labels : Nat → Int) : Prop :=
  ∀ v : Nat, lookT tr "tree_island_out" [(v : Int)] (pre (v : Int)) = labels v

/-- the live part of the stack array as the thread sees it after the writes `tr` -/
def StkOK (spre : Int → Int) (tr : List MW) (stack : List Nat) : Prop :=
  ∀ (p x : Nat), stack.reverse[p]? = some x → lookT tr "stack_out" [(p : Int)] (spre (p : Int)) = (x : Int)

theorem rdAlias_map (out : String) (tr : List MW) (v : Int) (pre : Int → Int) :
    rdAlias (K := K) out w pre (tr.map (MW.toWrite w)) v = lookT tr out [v] (pre v) := by
  unfold rdAlias; exact lookupI_map w tr out [v] (pre v)

theorem koHasEdge_eq (i : Nat) :
    koHasEdge (n : Int) tt w (i : Int)
      = (if touchedB n (adjOf w tt) i then (1 : Int) else 0, touchedB n (adjOf w tt) i) := by
  unfold koHasEdge touchedB
  rw [forRange_nat]
  generalize n = m
  induction m with
  | zero => simp
  | succ m ih =>
    rw [List.range_succ, List.foldl_append, ih, List.any_append]
    by_cases h1 : (List.range m).any (fun j => adjOf w tt i j != 0) = true
    · simp [h1]
    · have h1' : (List.range m).any (fun j => adjOf w tt i j != 0) = false := by simpa using h1
      rw [h1']
      by_cases h2 : tt w (i : Int) (m : Int) = 0
      · simp [adjOf, h2]
      · simp [adjOf, h2]

theorem LabOK_pushEvents {tr : List MW} {labels : Nat → Int} (h : LabOK pre tr labels) (p : Nat) (l : List Nat) :
    LabOK pre (tr ++ pushEvents p l) labels := by
  intro v
  rw [lookT_append, lookT_pushEvents_other _ _ _ _ _ (by decide)]
  exact h v

theorem koPush_eq (v : Nat) (tr : List MW) (labels : Nat → Int) (p : Nat) (h : LabOK pre tr labels) :
    koPush (K := K) (rdAlias "tree_island_out" w pre) (n : Int) tt w (v : Int)
        (tr.map (MW.toWrite w), (p : Int))
      = ((tr ++ pushEvents p (pushList n (adjOf w tt) labels v)).map (MW.toWrite w),
          ((p + (pushList n (adjOf w tt) labels v).length : Nat) : Int)) := by
  unfold koPush pushList
  rw [forRange_nat]
  generalize n = m
  induction m with
  | zero => simp [pushEvents]
  | succ m ih =>
    rw [List.range_succ, List.foldl_append, ih, List.filter_append]
    simp only [List.foldl_cons, List.foldl_nil]
    have hlab : rdAlias (K := K) "tree_island_out" w pre
        ((tr ++ pushEvents p (List.filter (fun j => adjOf w tt v j != 0 && labels j == -1) (List.range m))).map
          (MW.toWrite w)) (m : Int) = labels m := by
      rw [rdAlias_map]; exact LabOK_pushEvents pre h p _ m
    rw [hlab]
    by_cases h1 : tt w (v : Int) (m : Int) = 0
    · simp [adjOf, h1]
    · by_cases h2 : labels m = -1
      · simp only [adjOf, h1, h2, ne_eq, not_false_eq_true, decide_true, if_true, bne_iff_ne,
          List.filter_cons, List.filter_nil, beq_self_eq_true, Bool.and_true]
        simp only [pushEvents_append, pushEvents, List.length_append,
          List.length_singleton, List.map_append, List.map_cons, List.map_nil, List.append_assoc]
        refine Prod.ext ?_ ?_
        · simp only [MW.toWrite]
        · simp only; push_cast; ring
      · simp [adjOf, h1, h2]

/-- the kernel's `(nstack, ws)` against the model's DFS state -/
def RelD (w : Int) (pre spre : Int → Int) (st : Int × List (Write K)) (s : DState) : Prop :=
  st.1 = (s.stack.length : Int) ∧ st.2 = s.trace.map (MW.toWrite w) ∧ LabOK pre s.trace s.labels
    ∧ StkOK spre s.trace s.stack

theorem koWhileBody_rel (c : Nat) {st : Int × List (Write K)} {s : DState} (h : RelD w pre spre st s)
    (hne : s.stack ≠ []) :
    RelD w pre spre
      (koWhileBody (rdAlias "tree_island_out" w pre) (rdAlias "stack_out" w spre) (n : Int) tt w (c : Int) st)
      (dfsStep n (adjOf w tt) c s) := by
  obtain ⟨nstack, ws⟩ := st
  obtain ⟨labels, stack, trace⟩ := s
  obtain ⟨h1, h2, h3, h4⟩ := h
  simp only at h1 h2 h3 h4
  cases stack with
  | nil => exact absurd rfl hne
  | cons v rest =>
    subst h2
    have hn : nstack - 1 = (rest.length : Int) := by rw [h1]; simp
    have hv : rdAlias (K := K) "stack_out" w spre (trace.map (MW.toWrite w)) (rest.length : Int) = (v : Int) := by
      rw [rdAlias_map]
      exact h4 rest.length v (by simp)
    have hl : rdAlias (K := K) "tree_island_out" w pre (trace.map (MW.toWrite w)) (v : Int) = labels v := by
      rw [rdAlias_map]; exact h3 v
    unfold koWhileBody
    simp only [hn, hv, hl]
    by_cases hlab : labels v = -1
    · -- expand
      simp only [hlab, ne_eq, not_true_eq_false, decide_false, Bool.false_eq_true, if_false, dfsStep,
        bne_self_eq_false]
      have hL1 : LabOK pre (trace ++ [⟨"tree_island_out", [(v : Int)], (c : Int)⟩]) (upd labels v (c : Int)) := by
        intro u
        rw [lookT_append, lookT_cons, lookT_nil]
        by_cases huv : u = v
        · subst huv; simp [upd]
        · have : ¬ ([(v : Int)] = [(u : Int)]) := by
            intro h; apply huv; have : (v : Int) = (u : Int) := by simpa using h
            omega
          simp only [this, and_false, if_false, upd, huv]
          exact h3 u
      have hws : trace.map (MW.toWrite (K := K) w)
            ++ [(Write.mk "tree_island_out" [w, (v : Int)] (WVal.i (c : Int)) WKind.set : Write K)]
          = (trace ++ [(⟨"tree_island_out", [(v : Int)], (c : Int)⟩ : MW)]).map (MW.toWrite w) := by
        simp [MW.toWrite]
      rw [hws, koPush_eq w tt n pre v _ _ rest.length hL1]
      refine ⟨?_, ?_, ?_, ?_⟩
      · simp only [List.length_append, List.length_reverse]; push_cast; ring
      · simp only [List.append_assoc, List.singleton_append]
      · have := LabOK_pushEvents pre hL1 rest.length (pushList n (adjOf w tt) (upd labels v (c : Int)) v)
        simpa only [List.append_assoc, List.singleton_append] using this
      · intro p x hpx
        simp only [List.reverse_append, List.reverse_reverse] at hpx
        rw [lookT_append, lookT_cons]
        simp only [String.reduceEq, false_and, if_false]
        by_cases hp : p < rest.length
        · rw [List.getElem?_append_left (by simpa using hp)] at hpx
          rw [lookT_pushEvents_out _ _ _ _ (Or.inl hp)]
          apply h4 p x
          rw [List.reverse_cons, List.getElem?_append_left (by simpa using hp)]
          exact hpx
        · rw [List.getElem?_append_right (by simpa using hp)] at hpx
          simp only [List.length_reverse] at hpx
          have := lookT_pushEvents_in rest.length _ (p - rest.length)
            (lookT trace "stack_out" [(p : Int)] (spre (p : Int))) x hpx
          rw [show rest.length + (p - rest.length) = p by omega] at this
          exact this
    · -- skip
      have hb : (labels v != -1) = true := by simpa using hlab
      simp only [hlab, ne_eq, not_false_eq_true, decide_true, if_true, dfsStep, hb]
      refine ⟨rfl, rfl, h3, ?_⟩
      intro p x hpx
      apply h4 p x
      have hp : p < rest.length := by
        have := (List.getElem?_eq_some_iff.mp hpx).1
        simpa using this
      rw [List.reverse_cons, List.getElem?_append_left (by simpa using hp)]
      exact hpx

theorem koWhile_rel (c : Nat) (fuel : Nat) {st : Int × List (Write K)} {s : DState}
    (h : RelD w pre spre st s) :
    RelD w pre spre
      (Mjw.whileFuel fuel (fun (st : Int × List (Write K)) => let (nstack, _) := st; decide (nstack > (0 : Int)))
        (koWhileBody (rdAlias "tree_island_out" w pre) (rdAlias "stack_out" w spre) (n : Int) tt w (c : Int)) st)
      (dfs fuel n (adjOf w tt) c s) := by
  induction fuel generalizing st s with
  | zero => exact h
  | succ fuel ih =>
    rw [dfs_succ]
    by_cases hs : s.stack = []
    · rw [if_pos hs]
      have : st.1 = 0 := by rw [h.1, hs]; rfl
      obtain ⟨nstack, ws⟩ := st
      simp only at this
      subst this
      simpa [Mjw.whileFuel] using h
    · rw [if_neg hs]
      have hpos : st.1 > 0 := by
        rw [h.1]
        cases hh : s.stack with
        | nil => exact absurd hh hs
        | cons a b => simp
      obtain ⟨nstack, ws⟩ := st
      simp only at hpos
      have := ih (koWhileBody_rel w tt n pre spre c h hs)
      simpa [Mjw.whileFuel, hpos] using this

/-- the kernel's `(ws, nisland)` against the model's outer state -/
def RelO (w : Int) (pre : Int → Int) (st : List (Write K) × Int) (s : FState) : Prop :=
  st.1 = s.trace.map (MW.toWrite w) ∧ st.2 = (s.nisland : Int) ∧ LabOK pre s.trace s.labels

theorem koOuterBody_rel (fuel : Nat) (i : Nat) {st : List (Write K) × Int} {s : FState}
    (h : RelO w pre st s) :
    RelO w pre
      (koOuterBody (rdAlias "tree_island_out" w pre) (rdAlias "stack_out" w spre) (n : Int) tt fuel w (i : Int) st)
      (outerStep fuel n (adjOf w tt) i s) := by
  obtain ⟨ws, nisland⟩ := st
  obtain ⟨labels, m, trace⟩ := s
  obtain ⟨h1, h2, h3⟩ := h
  simp only at h1 h2 h3
  subst h1 h2
  have hl : rdAlias (K := K) "tree_island_out" w pre (trace.map (MW.toWrite w)) (i : Int) = labels i := by
    rw [rdAlias_map]; exact h3 i
  unfold koOuterBody outerStep
  simp only [hl, koHasEdge_eq]
  by_cases hlab : labels i = -1
  · simp only [hlab, ne_eq, not_true_eq_false, decide_false, Bool.false_eq_true, if_false, bne_self_eq_false]
    by_cases ht : touchedB n (adjOf w tt) i = true
    · simp only [ht, if_true, Bool.not_true, Bool.false_eq_true, if_false]
      have h10 : ¬ ((1 : Int) = 0) := by omega
      simp only [h10, decide_false, Bool.false_eq_true, if_false]
      have hws : trace.map (MW.toWrite (K := K) w)
            ++ [(Write.mk "stack_out" [w, (0 : Int)] (WVal.i (i : Int)) WKind.set : Write K)]
          = (trace ++ [(⟨"stack_out", [0], (i : Int)⟩ : MW)]).map (MW.toWrite w) := by
        simp [MW.toWrite]
      have hR : RelD (K := K) w pre spre ((0 : Int) + 1, (trace ++ [(⟨"stack_out", [0], (i : Int)⟩ : MW)]).map (MW.toWrite w))
          ⟨labels, [i], trace ++ [⟨"stack_out", [0], (i : Int)⟩]⟩ := by
        refine ⟨by simp, rfl, ?_, ?_⟩
        · intro v
          rw [lookT_append, lookT_cons, lookT_nil]
          simp only [String.reduceEq, false_and, if_false]
          exact h3 v
        · intro p x hpx
          have : p = 0 ∧ i = x := by
            cases p with
            | zero => simpa using hpx
            | succ p => simp at hpx
          obtain ⟨rfl, rfl⟩ := this
          rw [lookT_append, lookT_cons, lookT_nil]
          simp
      rw [hws]
      have := koWhile_rel w tt n pre spre m fuel hR
      obtain ⟨-, g2, g3, -⟩ := this
      exact ⟨g2, by simp, g3⟩
    · have ht' : touchedB n (adjOf w tt) i = false := by simpa using ht
      simp only [ht', Bool.false_eq_true, if_false, decide_true, if_true, Bool.not_false]
      exact ⟨rfl, rfl, h3⟩
  · have hb : (labels i != -1) = true := by simpa using hlab
    simp only [hlab, ne_eq, not_false_eq_true, decide_true, if_true, hb]
    exact ⟨rfl, rfl, h3⟩

/-- the outer loop, `k` iterations -/
theorem koOuter_fold_rel (fuel : Nat) (k : Nat) : RelO (K := K) w pre
      ((List.range k).foldl (fun s (j : Nat) =>
        koOuterBody (rdAlias "tree_island_out" w pre) (rdAlias "stack_out" w spre) (n : Int) tt fuel w (j : Int) s)
        (([] : List (Write K)), (0 : Int)))
      ((List.range k).foldl (fun s i => outerStep fuel n (adjOf w tt) i s) ⟨fun v => pre (v : Int), 0, []⟩) := by
  induction k with
  | zero => exact ⟨rfl, rfl, fun v => rfl⟩
  | succ k ih =>
    rw [List.range_succ, List.foldl_append, List.foldl_append]
    exact koOuterBody_rel w tt n pre spre fuel k ih

/-- the whole thread -/
theorem kernelOpen_alias_eq (fuel : Nat) :
    kernelOpen (K := K) (rdAlias "tree_island_out" w pre) (rdAlias "stack_out" w spre) (n : Int) tt fuel w
      = (floodFillWrites (fun v => pre (v : Int)) fuel n (adjOf w tt)).map (MW.toWrite w) := by
  unfold kernelOpen floodFillWrites floodFillFrom
  simp only
  rw [forRange_nat]
  obtain ⟨h1, h2, -⟩ := koOuter_fold_rel (K := K) w tt n pre spre fuel n
  generalize (List.range n).foldl (fun s (j : Nat) =>
        koOuterBody (rdAlias "tree_island_out" w pre) (rdAlias "stack_out" w spre) (n : Int) tt fuel w (j : Int) s)
        (([] : List (Write K)), (0 : Int)) = st at h1 h2
  obtain ⟨ws, ni⟩ := st
  simp only at h1 h2
  subst h1 h2
  simp [MW.toWrite]

/-- the labels the model ends with are the final contents of `tree_island[w, ·]` seen through the writes -/
theorem floodFillFrom_labels_lookup (fuel : Nat) (v : Nat) :
    Write.lookupI ((floodFillWrites (fun v => pre (v : Int)) fuel n (adjOf w tt)).map (MW.toWrite (K := K) w))
        "tree_island_out" [w, (v : Int)] (pre (v : Int))
      = (floodFillFrom (fun v => pre (v : Int)) fuel n (adjOf w tt)).labels v := by
  obtain ⟨-, -, h3⟩ := koOuter_fold_rel (K := K) w tt n pre (fun _ => 0) fuel n
  rw [lookupI_map]
  unfold floodFillWrites
  simp only
  rw [lookT_append, lookT_cons, lookT_nil]
  simp only [String.reduceEq, false_and, if_false]
  exact h3 v

theorem floodFillFrom_nisland_lookup (L0 : Nat → Int) (adj : Adj) (fuel : Nat) (d : Int) :
    Write.lookupI ((floodFillWrites L0 fuel n adj).map (MW.toWrite (K := K) w)) "nisland_out" [w] d
      = ((floodFillFrom L0 fuel n adj).nisland : Int) := by
  rw [lookupI_map]
  unfold floodFillWrites
  simp only
  rw [lookT_append, lookT_cons, lookT_nil]
  simp

end loops

end Mjw.Lemmas.C28
