/-
  Helper lemmas for property C31 (host/device conversion): list facts about the hand-written model
  `MjwVerif/Model/IoOrder.lean` of the index computations of `io.py:put_data` / `get_data_into`.  Core only.
-/
import MjwVerif.Model.IoOrder
namespace Mjw.IoOrder

theorem length_flatMap_range {γ δ} (l : List γ) (f : Nat → γ → δ) (n : Nat) :
    ((List.range n).flatMap (fun j => l.map (f j))).length = n * l.length := by
  induction n with
  | zero => simp
  | succ n ih => rw [List.range_succ, List.flatMap_append, List.length_append, ih]; simp [Nat.succ_mul]

theorem filter_flatMap_range {γ δ} (l : List γ) (f : Nat → γ → δ) (key : δ → Nat) (hf : ∀ j c, key (f j c) = j) (n w : Nat) :
    ((List.range n).flatMap (fun j => l.map (f j))).filter (fun c => key c == w) = if w < n then l.map (f w) else [] := by
  induction n with
  | zero => simp
  | succ n ih =>
    rw [List.range_succ, List.flatMap_append, List.filter_append, ih]
    by_cases h1 : w < n
    · have : (List.flatMap (fun j => l.map (f j)) [n]).filter (fun c => key c == w) = [] := by
        simp [List.filter_eq_nil_iff, hf]; omega
      rw [this]; simp [h1, Nat.lt_succ_of_lt h1]
    · by_cases h2 : w = n
      · subst h2
        have : (List.flatMap (fun j => l.map (f j)) [w]).filter (fun c => key c == w) = l.map (f w) := by
          simp [List.filter_eq_self, hf]
        rw [this]; simp
      · have : (List.flatMap (fun j => l.map (f j)) [n]).filter (fun c => key c == w) = [] := by
          simp [List.filter_eq_nil_iff, hf]; omega
        have h3 : ¬ w < n + 1 := by omega
        rw [this]; simp [h1, h3]

theorem sel_put {α β} (pyr : Bool) (nmaxpyr nworld naconmax njmax : Nat) (zp : α) (zr : β) (h : Host α β) (w : Nat) (hw : w < nworld) :
    sel (put pyr nmaxpyr nworld naconmax njmax zp zr h) w = h.cons.map (putSlot pyr nmaxpyr w) := by
  unfold sel put
  simp only
  have hl := length_flatMap_range h.cons (putSlot pyr nmaxpyr) nworld
  rw [List.take_append_of_le_length (by rw [hl, Nat.mul_comm]; exact Nat.min_le_left _ _)]
  rw [List.take_of_length_le (by rw [hl, List.length_append, hl, Nat.mul_comm]; omega)]
  rw [filter_flatMap_range h.cons (putSlot pyr nmaxpyr) (fun c => c.worldid) (fun _ _ => rfl)]
  simp [hw]
/-- MuJoCo's layout invariant: an excluded contact has address -1 and no rows; the included contacts' blocks are
    consecutive, in contact order, starting at `a`, each with at least one row -/
def contiguous {α} (pyr : Bool) : Nat → List (HCon α) → Prop
  | _, [] => True
  | a, c :: cs => (c.adr = -1 ∧ contiguous pyr a cs) ∨
                  (c.adr = Int.ofNat a ∧ 0 < ndim pyr c.dim ∧ contiguous pyr (a + ndim pyr c.dim) cs)

def totalRows {α} (pyr : Bool) : List (HCon α) → Nat
  | [] => 0
  | c :: cs => (if c.adr = -1 then 0 else ndim pyr c.dim) + totalRows pyr cs

theorem arange_succ (n : Nat) : arange (n + 1) = arange n ++ [Int.ofNat n] := by
  simp [arange, List.range_succ]

theorem arange_add (a b : Nat) : arange (a + b) = arange a ++ (arange b).map (fun k => Int.ofNat a + k) := by
  induction b with
  | zero => simp [arange]
  | succ b ih =>
    rw [← Nat.add_assoc, arange_succ, ih, arange_succ, List.map_append, List.append_assoc]
    simp

theorem length_arange (n : Nat) : (arange n).length = n := by simp [arange]

theorem inactive_putSlot_excl {α} (pyr : Bool) (nmaxpyr j : Nat) (c : HCon α) (hp : 0 < nmaxpyr) (h1 : c.adr = -1) :
    inactive (putSlot pyr nmaxpyr j c) = true := by
  obtain ⟨n, rfl⟩ : ∃ n, nmaxpyr = n + 1 := ⟨nmaxpyr - 1, by omega⟩
  simp [inactive, putSlot, putAdr, h1, List.replicate_succ]

theorem inactive_putSlot_incl {α} (pyr : Bool) (nmaxpyr j a : Nat) (c : HCon α) (h1 : c.adr = Int.ofNat a) (hnd : 0 < ndim pyr c.dim) :
    inactive (putSlot pyr nmaxpyr j c) = false := by
  obtain ⟨n, hn⟩ : ∃ n, ndim pyr c.dim = n + 1 := ⟨ndim pyr c.dim - 1, by omega⟩
  have hne : c.adr ≠ -1 := by rw [h1]; simp
  simp only [inactive, putSlot, putAdr, hne, if_false, hn, arange, List.range_succ_eq_map, List.map_cons, List.cons_append]
  rw [h1]; simp

theorem blk_putSlot_excl {α} (pyr : Bool) (nmaxpyr j : Nat) (c : HCon α) (hp : 0 < nmaxpyr) (h1 : c.adr = -1) :
    blk pyr (putSlot pyr nmaxpyr j c) = [] := by
  simp [blk, inactive_putSlot_excl pyr nmaxpyr j c hp h1]

theorem blk_putSlot {α} (pyr : Bool) (nmaxpyr j a : Nat) (c : HCon α) (h1 : c.adr = Int.ofNat a) (hnd : 0 < ndim pyr c.dim) :
    blk pyr (putSlot pyr nmaxpyr j c) = (arange (ndim pyr c.dim)).map (fun k => c.adr + k) := by
  have hne : c.adr ≠ -1 := by rw [h1]; simp
  simp only [blk, inactive_putSlot_incl pyr nmaxpyr j a c h1 hnd, Bool.false_eq_true, if_false]
  simp only [putSlot, putAdr, hne, if_false]
  rw [List.take_append_of_le_length (by simp [length_arange])]
  rw [List.take_of_length_le (by simp [length_arange])]

theorem flatMap_blk_put {α} (pyr : Bool) (nmaxpyr j : Nat) (hp : 0 < nmaxpyr) (cs : List (HCon α)) (a : Nat) (hc : contiguous pyr a cs) :
    arange a ++ (cs.map (putSlot pyr nmaxpyr j)).flatMap (blk pyr) = arange (a + totalRows pyr cs) := by
  induction cs generalizing a with
  | nil => simp [totalRows]
  | cons c cs ih =>
    rcases hc with ⟨h1, h2⟩ | ⟨h1, hnd, h2⟩
    · rw [List.map_cons, List.flatMap_cons, blk_putSlot_excl pyr nmaxpyr j c hp h1, List.nil_append, ih _ h2]
      simp [totalRows, h1]
    · have hne : c.adr ≠ -1 := by rw [h1]; simp
      rw [List.map_cons, List.flatMap_cons, blk_putSlot pyr nmaxpyr j a c h1 hnd, ← List.append_assoc, h1, ← arange_add, ih _ h2]
      simp [totalRows, hne, Nat.add_assoc]

theorem getCons_put {α} (pyr : Bool) (nmaxpyr j : Nat) (hp : 0 < nmaxpyr) (cs : List (HCon α)) (a : Nat) (hc : contiguous pyr a cs) :
    List.zipWith (fun (c : DCon α) (a : Int) => (⟨c.dim, a, c.pay⟩ : HCon α)) (cs.map (putSlot pyr nmaxpyr j))
      (adrOrdered pyr a (cs.map (putSlot pyr nmaxpyr j))) = cs := by
  induction cs generalizing a with
  | nil => simp [adrOrdered]
  | cons c cs ih =>
    rcases hc with ⟨h1, h2⟩ | ⟨h1, hnd, h2⟩
    · simp only [List.map_cons, adrOrdered, inactive_putSlot_excl pyr nmaxpyr j c hp h1, if_true, List.zipWith_cons_cons]
      have := ih _ h2
      simp only [putSlot] at this ⊢
      rw [this, ← h1]
    · simp only [List.map_cons, adrOrdered, inactive_putSlot_incl pyr nmaxpyr j a c h1 hnd, Bool.false_eq_true, if_false, List.zipWith_cons_cons]
      have := ih _ h2
      simp only [putSlot] at this ⊢
      rw [this, ← h1]

theorem pyGetAll_append {β} (l : List β) (a b : List Int) :
    pyGetAll l (a ++ b) = match pyGetAll l a, pyGetAll l b with
      | some x, some y => some (x ++ y)
      | _, _ => none := by
  induction a with
  | nil => simp [pyGetAll]; cases pyGetAll l b <;> rfl
  | cons i is ih =>
    simp only [List.cons_append, pyGetAll, ih]
    cases pyGet l i <;> cases pyGetAll l is <;> cases pyGetAll l b <;> simp

theorem pyGet_ofNat {β} (l : List β) (n : Nat) : pyGet l (Int.ofNat n) = l[n]? := by
  simp [pyGet]

theorem pyGetAll_arange {β} (l : List β) (n : Nat) (hn : n ≤ l.length) : pyGetAll l (arange n) = some (l.take n) := by
  induction n with
  | zero => simp [arange, pyGetAll]
  | succ n ih =>
    rw [arange_succ, pyGetAll_append, ih (by omega)]
    have : l[n]? = some l[n] := List.getElem?_eq_getElem (by omega)
    rw [List.take_add_one, this]
    simp only [pyGetAll, pyGet_ofNat, this, Option.toList_some]

/-- what MuJoCo guarantees about an MjData (excluded contacts allowed) -/
structure Host.WF {α β} (pyr : Bool) (njmax : Nat) (h : Host α β) : Prop where
  contig : contiguous pyr (h.ne + h.nf + h.nl) h.cons
  nrows : h.rows.length = h.ne + h.nf + h.nl + totalRows pyr h.cons
  fits : h.rows.length ≤ njmax

theorem efcIdx_put {α β} (pyr : Bool) (nmaxpyr nworld naconmax njmax : Nat) (zp : α) (zr : β) (h : Host α β) (w : Nat)
    (hw : w < nworld) (hp : 0 < nmaxpyr) (wf : h.WF pyr njmax) :
    efcIdx pyr njmax (put pyr nmaxpyr nworld naconmax njmax zp zr h) w = arange h.rows.length := by
  have hsel := sel_put pyr nmaxpyr nworld naconmax njmax zp zr h w hw
  have hn : nefcOf (put pyr nmaxpyr nworld naconmax njmax zp zr h) njmax w = h.rows.length := by
    simp only [nefcOf, put]; exact Nat.min_eq_left wf.fits
  have hl : neflOf (put pyr nmaxpyr nworld naconmax njmax zp zr h) w = h.ne + h.nf + h.nl := rfl
  unfold efcIdx efcIdxFull
  rw [hsel, hn, hl]
  split
  · rw [flatMap_blk_put pyr nmaxpyr w hp h.cons _ wf.contig, ← wf.nrows]
    exact List.take_of_length_le (by simp [length_arange])
  · exact List.take_of_length_le (by simp [length_arange])

theorem get_put {α β} (pyr : Bool) (nmaxpyr nworld naconmax njmax : Nat) (zp : α) (zr : β) (h : Host α β) (w : Nat)
    (hw : w < nworld) (hp : 0 < nmaxpyr) (wf : h.WF pyr njmax) :
    get pyr njmax (put pyr nmaxpyr nworld naconmax njmax zp zr h) w = some h.got := by
  have hidx := efcIdx_put pyr nmaxpyr nworld naconmax njmax zp zr h w hw hp wf
  have hsel := sel_put pyr nmaxpyr nworld naconmax njmax zp zr h w hw
  have hn : nefcOf (put pyr nmaxpyr nworld naconmax njmax zp zr h) njmax w = h.rows.length := by
    simp only [nefcOf, put]; exact Nat.min_eq_left wf.fits
  have hrows : (put pyr nmaxpyr nworld naconmax njmax zp zr h).rows w = h.rows ++ List.replicate (njmax - h.rows.length) zr := rfl
  have hJ : getJRows pyr njmax (put pyr nmaxpyr nworld naconmax njmax zp zr h) w = some h.rows := by
    unfold getJRows
    rw [hidx, hn, hrows, if_pos (length_arange _), List.take_left', pyGetAll_arange _ _ (Nat.le_refl _), List.take_length]
    rfl
  have hR : getRows pyr njmax (put pyr nmaxpyr nworld naconmax njmax zp zr h) w = some h.rows := by
    unfold getRows getRowsOf
    rw [hidx, hn, hrows, pyGetAll_arange _ _ (by simp), List.take_left' rfl]
    simp [assignAll]
  have hC : getCons pyr (put pyr nmaxpyr nworld naconmax njmax zp zr h) w = h.cons := by
    unfold getCons
    rw [hsel]
    exact getCons_put pyr nmaxpyr w hp h.cons _ wf.contig
  unfold get
  rw [hJ, hR, hC]
  rfl

/-- round trip of a column stored with ANY padding (efc.D, efc.state: njmax_pad entries) -/
theorem getRowsOf_put {α β γ} (pyr : Bool) (nmaxpyr nworld naconmax njmax : Nat) (zp : α) (zr : β) (h : Host α β) (w : Nat)
    (hw : w < nworld) (hp : 0 < nmaxpyr) (wf : h.WF pyr njmax) (col pad : List γ) (hcol : col.length = h.rows.length) :
    getRowsOf pyr njmax (put pyr nmaxpyr nworld naconmax njmax zp zr h) w (col ++ pad) = some col := by
  have hidx := efcIdx_put pyr nmaxpyr nworld naconmax njmax zp zr h w hw hp wf
  have hn : nefcOf (put pyr nmaxpyr nworld naconmax njmax zp zr h) njmax w = h.rows.length := by
    simp only [nefcOf, put]; exact Nat.min_eq_left wf.fits
  unfold getRowsOf
  rw [hidx, hn, ← hcol, pyGetAll_arange _ _ (by simp), List.take_left' rfl]
  simp [assignAll]

theorem sel_sublist {α β} (d : Dev α β) (w : Nat) : (sel d w).Sublist d.cons :=
  (List.filter_sublist).trans (List.take_sublist _ _)

theorem mem_sel {α β} (d : Dev α β) (w : Nat) (c : DCon α) :
    c ∈ sel d w ↔ c ∈ d.cons.take (min d.nacon d.cons.length) ∧ c.worldid = w := by
  simp [sel, List.mem_filter]

/-- the `i`-th selected contact, if active, has its `k`-th row index at position `adrOrdered[i] + k` of the untruncated list -/
theorem idx_at_ordered_aux {α} (pyr : Bool) (s : List (DCon α)) (P : List Int) (i k : Nat) (c : DCon α) (a : Nat)
    (hfull : ∀ c ∈ s, inactive c = false → ndim pyr c.dim ≤ c.adr.length)
    (hi : s[i]? = some c) (ha : (adrOrdered pyr P.length s)[i]? = some (Int.ofNat a)) (hk : k < ndim pyr c.dim) :
    (P ++ s.flatMap (blk pyr))[a + k]? = c.adr[k]? := by
  induction s generalizing P i with
  | nil => simp at hi
  | cons c0 cs ih =>
    by_cases h0 : inactive c0 = true
    · have hb : blk pyr c0 = [] := by simp [blk, h0]
      cases i with
      | zero =>
        simp only [adrOrdered, h0, if_true, List.getElem?_cons_zero, Option.some.injEq] at ha
        exact absurd ha (by simp)
      | succ i =>
        simp only [List.getElem?_cons_succ] at hi
        simp only [adrOrdered, h0, if_true, List.getElem?_cons_succ] at ha
        rw [List.flatMap_cons, hb, List.nil_append]
        exact ih P i (fun c hc => hfull c (List.mem_cons_of_mem _ hc)) hi ha
    · have h0' : inactive c0 = false := by simpa using h0
      have hlen : (blk pyr c0).length = ndim pyr c0.dim := by
        simp only [blk, h0', Bool.false_eq_true, if_false, List.length_take]
        exact Nat.min_eq_left (hfull c0 (List.mem_cons_self) h0')
      cases i with
      | zero =>
        simp only [List.getElem?_cons_zero, Option.some.injEq] at hi
        simp only [adrOrdered, h0', Bool.false_eq_true, if_false, List.getElem?_cons_zero, Option.some.injEq] at ha
        subst hi
        have ha' : P.length = a := Int.ofNat.inj ha
        subst ha'
        have hk' : k < (blk pyr c0).length := by rw [hlen]; exact hk
        rw [List.flatMap_cons, List.getElem?_append_right (by omega), Nat.add_sub_cancel_left, List.getElem?_append_left hk']
        simp only [blk, h0', Bool.false_eq_true, if_false, List.getElem?_take_of_lt hk]
      | succ i =>
        simp only [List.getElem?_cons_succ] at hi
        simp only [adrOrdered, h0', Bool.false_eq_true, if_false, List.getElem?_cons_succ] at ha
        rw [List.flatMap_cons, ← List.append_assoc]
        exact ih (P ++ blk pyr c0) i (fun c hc => hfull c (List.mem_cons_of_mem _ hc)) hi (by rw [List.length_append, hlen]; exact ha)

/-- an inactive selected contact is exported with address -1 -/
theorem adrOrdered_inactive {α} (pyr : Bool) (s : List (DCon α)) (a i : Nat) (c : DCon α)
    (hi : s[i]? = some c) (hc : inactive c = true) : (adrOrdered pyr a s)[i]? = some (-1) := by
  induction s generalizing a i with
  | nil => simp at hi
  | cons c0 cs ih =>
    cases i with
    | zero =>
      simp only [List.getElem?_cons_zero, Option.some.injEq] at hi
      subst hi
      simp [adrOrdered, hc]
    | succ i =>
      simp only [List.getElem?_cons_succ] at hi
      by_cases h0 : inactive c0 = true
      · simp only [adrOrdered, h0, if_true, List.getElem?_cons_succ]; exact ih _ i hi
      · have h0' : inactive c0 = false := by simpa using h0
        simp only [adrOrdered, h0', Bool.false_eq_true, if_false, List.getElem?_cons_succ]; exact ih _ i hi

theorem pyGetAll_perm {β} (l : List β) {i1 i2 : List Int} (hp : i1.Perm i2) {r1 : List β} (h1 : pyGetAll l i1 = some r1) :
    ∃ r2, pyGetAll l i2 = some r2 ∧ r1.Perm r2 := by
  induction hp generalizing r1 with
  | nil => exact ⟨r1, h1, List.Perm.refl _⟩
  | cons x _ ih =>
    simp only [pyGetAll] at h1 ⊢
    cases hx : pyGet l x with
    | none => simp [hx] at h1
    | some vx =>
      rename_i l1 l2 _
      cases ht : pyGetAll l l1 with
      | none => simp [hx, ht] at h1
      | some t =>
        simp only [hx, ht, Option.some.injEq] at h1
        obtain ⟨t2, e2, p2⟩ := ih ht
        subst h1
        exact ⟨vx :: t2, by simp [e2], List.Perm.cons _ p2⟩
  | swap x y t =>
    simp only [pyGetAll] at h1 ⊢
    cases hx : pyGet l x <;> cases hy : pyGet l y <;> cases ht : pyGetAll l t <;> simp [hx, hy, ht] at h1
    subst h1
    exact ⟨_, rfl, List.Perm.swap _ _ _⟩
  | trans _ _ ih1 ih2 =>
    obtain ⟨r2, e2, p2⟩ := ih1 h1
    obtain ⟨r3, e3, p3⟩ := ih2 e2
    exact ⟨r3, e3, p2.trans p3⟩

theorem length_adrOrdered {α} (pyr : Bool) (a : Nat) (s : List (DCon α)) : (adrOrdered pyr a s).length = s.length := by
  induction s generalizing a with
  | nil => rfl
  | cons c cs ih => by_cases h : inactive c = true <;> simp [adrOrdered, h, ih]

theorem getCons_adr {α β} (pyr : Bool) (d : Dev α β) (w : Nat) :
    (getCons pyr d w).map (·.adr) = adrOrdered pyr (neflOf d w) (sel d w) := by
  unfold getCons
  generalize neflOf d w = a
  induction (sel d w) generalizing a with
  | nil => simp [adrOrdered]
  | cons c cs ih =>
    by_cases h : inactive c = true
    · simp only [adrOrdered, h, if_true, List.zipWith_cons_cons, List.map_cons, ih]
    · have h' : inactive c = false := by simpa using h
      simp only [adrOrdered, h', Bool.false_eq_true, if_false, List.zipWith_cons_cons, List.map_cons, ih]

theorem getCons_pay {α β} (pyr : Bool) (d : Dev α β) (w : Nat) :
    (getCons pyr d w).map (fun c => (c.dim, c.pay)) = (sel d w).map (fun c => (c.dim, c.pay)) := by
  unfold getCons
  generalize neflOf d w = a
  induction (sel d w) generalizing a with
  | nil => simp [adrOrdered]
  | cons c cs ih =>
    by_cases h : inactive c = true
    · simp only [adrOrdered, h, if_true, List.zipWith_cons_cons, List.map_cons, ih]
    · have h' : inactive c = false := by simpa using h
      simp only [adrOrdered, h', Bool.false_eq_true, if_false, List.zipWith_cons_cons, List.map_cons, ih]

theorem efcIdxFull_nonempty {α β} (pyr : Bool) (njmax : Nat) (d : Dev α β) (w : Nat) (hne : 0 < (sel d w).length) :
    efcIdxFull pyr njmax d w = arange (neflOf d w) ++ (sel d w).flatMap (blk pyr) := by
  simp [efcIdxFull, hne]

theorem efcIdx_perm_aux {α β} (pyr : Bool) (njmax : Nat) (d : Dev α β) (w : Nat) (hne : 0 < (sel d w).length)
    (hle : neflOf d w ≤ nefcOf d njmax w)
    (hpart : ((sel d w).flatMap (blk pyr)).Perm
      ((arange (nefcOf d njmax w - neflOf d w)).map (fun k => Int.ofNat (neflOf d w) + k))) :
    (efcIdx pyr njmax d w).Perm (arange (nefcOf d njmax w)) := by
  have e : arange (nefcOf d njmax w) = arange (neflOf d w) ++ (arange (nefcOf d njmax w - neflOf d w)).map (fun k => Int.ofNat (neflOf d w) + k) := by
    rw [← arange_add]; congr 1; omega
  have hp : (efcIdxFull pyr njmax d w).Perm (arange (nefcOf d njmax w)) := by
    rw [efcIdxFull_nonempty pyr njmax d w hne, e]
    exact List.Perm.append_left _ hpart
  unfold efcIdx
  rw [List.take_of_length_le (by rw [hp.length_eq, length_arange]; exact Nat.le_refl _)]
  exact hp

theorem getRows_perm_aux {α β} (pyr : Bool) (njmax : Nat) (d : Dev α β) (w : Nat)
    (hfit : nefcOf d njmax w ≤ (d.rows w).length)
    (hp : (efcIdx pyr njmax d w).Perm (arange (nefcOf d njmax w))) :
    ∃ r, getRows pyr njmax d w = some r ∧ r.Perm ((d.rows w).take (nefcOf d njmax w)) := by
  obtain ⟨r, e, p⟩ := pyGetAll_perm (d.rows w) hp.symm (pyGetAll_arange (d.rows w) _ hfit)
  refine ⟨r, ?_, p.symm⟩
  unfold getRows getRowsOf
  rw [e]
  have : r.length = nefcOf d njmax w := by rw [← p.length_eq, List.length_take]; omega
  simp [assignAll, this]

theorem efl_prefix_aux {α β} (pyr : Bool) (njmax : Nat) (d : Dev α β) (w : Nat) (hne : 0 < (sel d w).length)
    (hle : neflOf d w ≤ nefcOf d njmax w) :
    (efcIdx pyr njmax d w).take (neflOf d w) = arange (neflOf d w) := by
  unfold efcIdx
  rw [efcIdxFull_nonempty pyr njmax d w hne, List.take_take, Nat.min_eq_left hle, List.take_left' (length_arange _)]

theorem adr_remap_aux {α β} (pyr : Bool) (njmax : Nat) (d : Dev α β) (w i k a : Nat) (c : DCon α)
    (hne : 0 < (sel d w).length)
    (hfull : ∀ c ∈ sel d w, inactive c = false → ndim pyr c.dim ≤ c.adr.length)
    (hi : (sel d w)[i]? = some c) (ha : (adrOrdered pyr (neflOf d w) (sel d w))[i]? = some (Int.ofNat a))
    (hk : k < ndim pyr c.dim) (hlt : a + k < nefcOf d njmax w) :
    (efcIdx pyr njmax d w)[a + k]? = c.adr[k]? := by
  unfold efcIdx
  rw [List.getElem?_take_of_lt hlt, efcIdxFull_nonempty pyr njmax d w hne]
  exact idx_at_ordered_aux pyr (sel d w) (arange (neflOf d w)) i k c a hfull hi (by rw [length_arange]; exact ha) hk

end Mjw.IoOrder
