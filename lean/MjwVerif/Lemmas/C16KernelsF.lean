/-
  C16 helper lemmas, kernel part F (NJMAX_NNZ): dropped threads of the three limit builders.
-/
import MjwVerif.Lemmas.C16
import MjwVerif.Lemmas.C16KernelsD
set_option linter.unusedSimpArgs false
set_option linter.unusedVariables false
set_option linter.unusedTactic false
set_option linter.unreachableTactic false
set_option linter.unusedSectionVars false
namespace Mjw.Lemmas.C16
open Mjw


section limit_slide_hinge
variable {K : Type} [Scalar K] (nv : Int) (opt_timestep : (Int → K)) (opt_disableflags : Int) (jnt_qposadr : (Int → Int)) (jnt_dofadr : (Int → Int)) (jnt_solref : (Int → Int → V2 K)) (jnt_solimp : (Int → Int → V5 K)) (jnt_range : (Int → Int → V2 K)) (jnt_margin : (Int → Int → K)) (dof_invweight0 : (Int → Int → K)) (jnt_limited_slide_hinge_adr : (Int → Int)) (qpos_in : (Int → Int → K)) (qvel_in : (Int → Int → K)) (njmax_in : Int) (njmax_nnz_in : Int) (nl_out : (Int → Int)) (nefc_out : (Int → Int)) (efc_type_out : (Int → Int → Int)) (efc_id_out : (Int → Int → Int)) (efc_jtdaj_adr_out : (Int → Int → Int)) (efc_jtdaj_nrow_out : (Int → Int → Int)) (efc_jtdaj_nblock_out : (Int → Int)) (efc_J_rownnz_out : (Int → Int → Int)) (efc_J_rowadr_out : (Int → Int → Int)) (efc_J_colind_out : (Int → Int → Int → Int)) (efc_J_out : (Int → Int → Int → K)) (efc_pos_out : (Int → Int → K)) (efc_margin_out : (Int → Int → K)) (efc_D_out : (Int → Int → K)) (efc_vel_out : (Int → Int → K)) (efc_aref_out : (Int → Int → K)) (efc_frictionloss_out : (Int → Int → K)) (efc_nnz_out : (Int → Int)) (jnt_range_shape0 : Int) (jnt_margin_shape0 : Int) (alloc0 : Int) (st_is_sparse_and_newton : Bool) (alloc1 : Int) (st_is_sparse : Bool) (alloc2 : Int) (dof_invweight0_shape0 : Int) (jnt_solref_shape0 : Int) (jnt_solimp_shape0 : Int) (opt_timestep_shape0 : Int) (tid0 : Int) (tid1 : Int)
local notation "KW" => Gen.Constraint._limit_slide_hinge__kernel nv opt_timestep opt_disableflags jnt_qposadr jnt_dofadr jnt_solref jnt_solimp jnt_range jnt_margin dof_invweight0 jnt_limited_slide_hinge_adr qpos_in qvel_in njmax_in njmax_nnz_in nl_out nefc_out efc_type_out efc_id_out efc_jtdaj_adr_out efc_jtdaj_nrow_out efc_jtdaj_nblock_out efc_J_rownnz_out efc_J_rowadr_out efc_J_colind_out efc_J_out efc_pos_out efc_margin_out efc_D_out efc_vel_out efc_aref_out efc_frictionloss_out efc_nnz_out jnt_range_shape0 jnt_margin_shape0 alloc0 st_is_sparse_and_newton alloc1 st_is_sparse alloc2 dof_invweight0_shape0 jnt_solref_shape0 jnt_solimp_shape0 opt_timestep_shape0 tid0 tid1

set_option maxHeartbeats 1600000 in
/-- dropped thread (row allocated, sparse, nnz request does not fit): the value of `efc_J_rownnz_out[w, alloc0]` after the
    thread's own writes is 0 (the count it stored before the guard is overwritten) -/
theorem limit_slide_hinge_dropped_rownnz_zero (d : Int) (hr : reached KW "nefc_out" [tid0]) (hg : alloc0 < njmax_in)
    (hs : st_is_sparse = true) (hdrop : ¬ allocFits KW "efc_nnz_out" [tid0] alloc2 njmax_nnz_in) :
    Write.lookupI KW "efc_J_rownnz_out" [tid0, alloc0] d = 0 := by
  revert hr hdrop
  subst hs
  unfold Gen.Constraint._limit_slide_hinge__kernel
  ksimp [hg, apply_ite (fun l => Write.lookupI l "efc_J_rownnz_out" [tid0, alloc0] d)]
  intros
  split_ifs <;> simp_all [Write.lookupI]
  all_goals (first | omega | (exfalso; omega))

set_option maxHeartbeats 1600000 in
/-- … and it never writes `efc_J_rowadr_out` -/
theorem limit_slide_hinge_dropped_no_rowadr (hs : st_is_sparse = true)
    (hdrop : ¬ allocFits KW "efc_nnz_out" [tid0] alloc2 njmax_nnz_in) (r v : Int) :
    ¬ cellI KW "efc_J_rowadr_out" tid0 r v := by
  revert hdrop
  subst hs
  unfold Gen.Constraint._limit_slide_hinge__kernel
  by_cases hg : alloc0 < njmax_in
  · ksimp [hg, cellI]
    all_goals (intros; try simp_all)
    all_goals (try omega)
  · ksimp [hg, cellI]
end limit_slide_hinge


section limit_ball
variable {K : Type} [Scalar K] (nv : Int) (opt_timestep : (Int → K)) (opt_disableflags : Int) (jnt_qposadr : (Int → Int)) (jnt_dofadr : (Int → Int)) (jnt_solref : (Int → Int → V2 K)) (jnt_solimp : (Int → Int → V5 K)) (jnt_range : (Int → Int → V2 K)) (jnt_margin : (Int → Int → K)) (dof_invweight0 : (Int → Int → K)) (jnt_limited_ball_adr : (Int → Int)) (qpos_in : (Int → Int → K)) (qvel_in : (Int → Int → K)) (njmax_in : Int) (njmax_nnz_in : Int) (nl_out : (Int → Int)) (nefc_out : (Int → Int)) (efc_type_out : (Int → Int → Int)) (efc_id_out : (Int → Int → Int)) (efc_jtdaj_adr_out : (Int → Int → Int)) (efc_jtdaj_nrow_out : (Int → Int → Int)) (efc_jtdaj_nblock_out : (Int → Int)) (efc_J_rownnz_out : (Int → Int → Int)) (efc_J_rowadr_out : (Int → Int → Int)) (efc_J_colind_out : (Int → Int → Int → Int)) (efc_J_out : (Int → Int → Int → K)) (efc_pos_out : (Int → Int → K)) (efc_margin_out : (Int → Int → K)) (efc_D_out : (Int → Int → K)) (efc_vel_out : (Int → Int → K)) (efc_aref_out : (Int → Int → K)) (efc_frictionloss_out : (Int → Int → K)) (efc_nnz_out : (Int → Int)) (jnt_range_shape0 : Int) (jnt_margin_shape0 : Int) (alloc0 : Int) (st_is_sparse_and_newton : Bool) (alloc1 : Int) (st_is_sparse : Bool) (alloc2 : Int) (dof_invweight0_shape0 : Int) (jnt_solref_shape0 : Int) (jnt_solimp_shape0 : Int) (opt_timestep_shape0 : Int) (tid0 : Int) (tid1 : Int)
local notation "KW" => Gen.Constraint._limit_ball__kernel nv opt_timestep opt_disableflags jnt_qposadr jnt_dofadr jnt_solref jnt_solimp jnt_range jnt_margin dof_invweight0 jnt_limited_ball_adr qpos_in qvel_in njmax_in njmax_nnz_in nl_out nefc_out efc_type_out efc_id_out efc_jtdaj_adr_out efc_jtdaj_nrow_out efc_jtdaj_nblock_out efc_J_rownnz_out efc_J_rowadr_out efc_J_colind_out efc_J_out efc_pos_out efc_margin_out efc_D_out efc_vel_out efc_aref_out efc_frictionloss_out efc_nnz_out jnt_range_shape0 jnt_margin_shape0 alloc0 st_is_sparse_and_newton alloc1 st_is_sparse alloc2 dof_invweight0_shape0 jnt_solref_shape0 jnt_solimp_shape0 opt_timestep_shape0 tid0 tid1

set_option maxHeartbeats 1600000 in
/-- dropped thread (row allocated, sparse, nnz request does not fit): the value of `efc_J_rownnz_out[w, alloc0]` after the
    thread's own writes is 0 (the count it stored before the guard is overwritten) -/
theorem limit_ball_dropped_rownnz_zero (d : Int) (hr : reached KW "nefc_out" [tid0]) (hg : alloc0 < njmax_in)
    (hs : st_is_sparse = true) (hdrop : ¬ allocFits KW "efc_nnz_out" [tid0] alloc2 njmax_nnz_in) :
    Write.lookupI KW "efc_J_rownnz_out" [tid0, alloc0] d = 0 := by
  revert hr hdrop
  subst hs
  unfold Gen.Constraint._limit_ball__kernel
  ksimp [hg, apply_ite (fun l => Write.lookupI l "efc_J_rownnz_out" [tid0, alloc0] d)]
  intros
  split_ifs <;> simp_all [Write.lookupI]
  all_goals (first | omega | (exfalso; omega))

set_option maxHeartbeats 1600000 in
/-- … and it never writes `efc_J_rowadr_out` -/
theorem limit_ball_dropped_no_rowadr (hs : st_is_sparse = true)
    (hdrop : ¬ allocFits KW "efc_nnz_out" [tid0] alloc2 njmax_nnz_in) (r v : Int) :
    ¬ cellI KW "efc_J_rowadr_out" tid0 r v := by
  revert hdrop
  subst hs
  unfold Gen.Constraint._limit_ball__kernel
  by_cases hg : alloc0 < njmax_in
  · ksimp [hg, cellI]
    all_goals (intros; try simp_all)
    all_goals (try omega)
  · ksimp [hg, cellI]
end limit_ball


section limit_tendon
variable {K : Type} [Scalar K] (nv : Int) (opt_timestep : (Int → K)) (opt_disableflags : Int) (ten_J_rownnz : (Int → Int)) (ten_J_rowadr : (Int → Int)) (ten_J_colind : (Int → Int)) (tendon_solref_lim : (Int → Int → V2 K)) (tendon_solimp_lim : (Int → Int → V5 K)) (tendon_range : (Int → Int → V2 K)) (tendon_margin : (Int → Int → K)) (tendon_invweight0 : (Int → Int → K)) (tendon_limited_adr : (Int → Int)) (qvel_in : (Int → Int → K)) (ten_J_in : (Int → Int → K)) (ten_length_in : (Int → Int → K)) (njmax_in : Int) (njmax_nnz_in : Int) (nl_out : (Int → Int)) (nefc_out : (Int → Int)) (efc_type_out : (Int → Int → Int)) (efc_id_out : (Int → Int → Int)) (efc_jtdaj_adr_out : (Int → Int → Int)) (efc_jtdaj_nrow_out : (Int → Int → Int)) (efc_jtdaj_nblock_out : (Int → Int)) (efc_J_rownnz_out : (Int → Int → Int)) (efc_J_rowadr_out : (Int → Int → Int)) (efc_J_colind_out : (Int → Int → Int → Int)) (efc_J_out : (Int → Int → Int → K)) (efc_pos_out : (Int → Int → K)) (efc_margin_out : (Int → Int → K)) (efc_D_out : (Int → Int → K)) (efc_vel_out : (Int → Int → K)) (efc_aref_out : (Int → Int → K)) (efc_frictionloss_out : (Int → Int → K)) (efc_nnz_out : (Int → Int)) (tendon_range_shape0 : Int) (tendon_margin_shape0 : Int) (alloc0 : Int) (st_is_sparse_and_newton : Bool) (alloc1 : Int) (st_is_sparse : Bool) (alloc2 : Int) (tendon_invweight0_shape0 : Int) (tendon_solref_lim_shape0 : Int) (tendon_solimp_lim_shape0 : Int) (opt_timestep_shape0 : Int) (tid0 : Int) (tid1 : Int)
local notation "KW" => Gen.Constraint._limit_tendon__kernel nv opt_timestep opt_disableflags ten_J_rownnz ten_J_rowadr ten_J_colind tendon_solref_lim tendon_solimp_lim tendon_range tendon_margin tendon_invweight0 tendon_limited_adr qvel_in ten_J_in ten_length_in njmax_in njmax_nnz_in nl_out nefc_out efc_type_out efc_id_out efc_jtdaj_adr_out efc_jtdaj_nrow_out efc_jtdaj_nblock_out efc_J_rownnz_out efc_J_rowadr_out efc_J_colind_out efc_J_out efc_pos_out efc_margin_out efc_D_out efc_vel_out efc_aref_out efc_frictionloss_out efc_nnz_out tendon_range_shape0 tendon_margin_shape0 alloc0 st_is_sparse_and_newton alloc1 st_is_sparse alloc2 tendon_invweight0_shape0 tendon_solref_lim_shape0 tendon_solimp_lim_shape0 opt_timestep_shape0 tid0 tid1

set_option maxHeartbeats 1600000 in
/-- dropped thread (row allocated, sparse, nnz request does not fit): the value of `efc_J_rownnz_out[w, alloc0]` after the
    thread's own writes is 0 (the count it stored before the guard is overwritten) -/
theorem limit_tendon_dropped_rownnz_zero (d : Int) (hr : reached KW "nefc_out" [tid0]) (hg : alloc0 < njmax_in)
    (hs : st_is_sparse = true) (hdrop : ¬ allocFits KW "efc_nnz_out" [tid0] alloc2 njmax_nnz_in) :
    Write.lookupI KW "efc_J_rownnz_out" [tid0, alloc0] d = 0 := by
  revert hr hdrop
  subst hs
  unfold Gen.Constraint._limit_tendon__kernel
  ksimp [hg, apply_ite (fun l => Write.lookupI l "efc_J_rownnz_out" [tid0, alloc0] d)]
  intros
  split_ifs <;> simp_all [Write.lookupI]
  all_goals (first | omega | (exfalso; omega))

set_option maxHeartbeats 1600000 in
/-- … and it never writes `efc_J_rowadr_out` -/
theorem limit_tendon_dropped_no_rowadr (hs : st_is_sparse = true)
    (hdrop : ¬ allocFits KW "efc_nnz_out" [tid0] alloc2 njmax_nnz_in) (r v : Int) :
    ¬ cellI KW "efc_J_rowadr_out" tid0 r v := by
  revert hdrop
  subst hs
  unfold Gen.Constraint._limit_tendon__kernel
  by_cases hg : alloc0 < njmax_in
  · ksimp [hg, cellI]
    all_goals (intros; try simp_all)
    all_goals (try omega)
  · ksimp [hg, cellI]
end limit_tendon

end Mjw.Lemmas.C16
