/-
  Helper lemmas for C05 (constraint assembly agrees with MuJoCo C).

  Part A (K = ℝ): `_efc_row` in closed form (`efc_row_code`: `tcCode`, `kCode`, `bCode`, `impCode`, `sigCode`), the
          real-power facts behind the two-branch sigmoid, and the comparison with `Spec/Impedance.lean`
          (`impCode_eq_spec`, `kCode_eq_spec`, `bCode_eq_spec`, `pyramid_D_arith`).
  Part B (any K): `contrib arr idx ws` = what a thread's write list atomically adds to an integer cell; simp lemmas
          pushing it through `++`, `if`, the loop shapes of the generated kernels (same scheme as `AllW`/`AnyW` of
          `Lemmas/C16.lean`, which is reused); `CountsAs` = "this thread counts as a request of k rows of class ctr";
          tactic `csimp`.
  Kernel-specific lemmas: `Lemmas/C05Kernels.lean` (generated statements), `C05Contact.lean`, `C05Update.lean`;
  launch level: `C05Layout.lean`.
-/
import MjwVerif.Lemmas.Real
import MjwVerif.Lemmas.C16
import MjwVerif.Spec.Impedance
import MjwVerif.Gen.Constraint
set_option linter.unusedSimpArgs false
set_option linter.unusedVariables false

namespace Mjw.Lemmas.C05
open Mjw

theorem iand0 : Mjw.iand 0 4096 = 0 := by decide

@[simp] theorem spow (a b : ℝ) : Scalar.pow a b = a ^ b := rfl

theorem lit_0_0 : (Scalar.lit 0 0 : ℝ) = 0 := by norm_num [slit]
theorem lit_1_0 : (Scalar.lit 1 0 : ℝ) = 1 := by norm_num [slit]
theorem lit_2_0 : (Scalar.lit 2 0 : ℝ) = 2 := by norm_num [slit]
theorem lit_5_m1 : (Scalar.lit 5 (-1) : ℝ) = 0.5 := by norm_num [slit]
theorem lit_2_m2 : (Scalar.lit 2 (-2) : ℝ) = 0.02 := by norm_num [slit]
theorem lit_1_m15 : (Scalar.lit 1 (-15) : ℝ) = 1e-15 := by norm_num [slit]
theorem lit_1_m4 : (Scalar.lit 1 (-4) : ℝ) = 1e-4 := by norm_num [slit]
theorem lit_9999_m4 : (Scalar.lit 9999 (-4) : ℝ) = 0.9999 := by norm_num [slit]

noncomputable def sigCode (x mid p : ℝ) : ℝ :=
  if x < mid then (1 / mid ^ (p - 1)) * x ^ p else 1 - (1 / (1 - mid) ^ (p - 1)) * (1 - x) ^ p

noncomputable def impCode (dmin dmax mid p x : ℝ) : ℝ :=
  if 1 < x then dmax else min (max dmin (dmin + sigCode x mid p * (dmax - dmin))) dmax

noncomputable def clampImp (v : ℝ) : ℝ := min (max (1e-4) v) 0.9999

noncomputable def tcCode (dis : Int) (dt tc : ℝ) : ℝ := if Mjw.iand dis 4096 = 0 then max tc (2 * dt) else tc

noncomputable def kCode (sr : V2 ℝ) (dmax tc : ℝ) : ℝ :=
  if sr.c0 ≤ 0 then (-sr.c0) / (dmax * dmax) else 1 / ((((dmax * dmax) * tc) * tc) * sr.c1 * sr.c1)
noncomputable def bCode (sr : V2 ℝ) (dmax tc : ℝ) : ℝ :=
  if sr.c1 ≤ 0 then (-sr.c1) / dmax else 2 / (dmax * tc)

theorem efc_row_code (dis wid : Int) (dt : ℝ) (efcid : Int) (pa pim iw : ℝ) (sr : V2 ℝ) (si : V5 ℝ) (mg vel fl : ℝ)
    (ty id' : Int) (tyo ido : Int → Int → Int) (po mo Do vo ao fo : Int → Int → ℝ) :
    Gen.Constraint._efc_row dis wid dt efcid pa pim iw sr si mg vel fl ty id' tyo ido po mo Do vo ao fo =
      let imp := impCode (clampImp si.c0) (clampImp si.c1) (clampImp si.c3) (max 1 si.c4) (|pim| / max 1e-15 si.c2)
      let tc := tcCode dis dt sr.c0
      [⟨"D_out", [wid, efcid], WVal.f (1 / max (iw * (1 - imp) / imp) 1e-15), WKind.set⟩,
       ⟨"vel_out", [wid, efcid], WVal.f vel, WKind.set⟩,
       ⟨"aref_out", [wid, efcid], WVal.f (-(kCode sr (clampImp si.c1) tc) * imp * pa - bCode sr (clampImp si.c1) tc * vel), WKind.set⟩,
       ⟨"pos_out", [wid, efcid], WVal.f (pa + mg), WKind.set⟩,
       ⟨"margin_out", [wid, efcid], WVal.f mg, WKind.set⟩,
       ⟨"frictionloss_out", [wid, efcid], WVal.f fl, WKind.set⟩,
       ⟨"type_out", [wid, efcid], WVal.i ty, WKind.set⟩,
       ⟨"id_out", [wid, efcid], WVal.i id', WKind.set⟩] := by
  unfold Gen.Constraint._efc_row
  simp only [Scalar.clamp, hadd, hsub, hmul, hdiv, hneg, slit, slt, sle, sgt, smin, smax, sabs, spow,
    impCode, sigCode, clampImp, tcCode, kCode, bCode]
  norm_num

/-! ### real-power facts for the sigmoid -/

theorem ratio_bounds (u m p : ℝ) (hu0 : 0 ≤ u) (hum : u ≤ m) (hm : 0 < m) (hp : 1 ≤ p) :
    0 ≤ (1 / m ^ (p - 1)) * u ^ p ∧ (1 / m ^ (p - 1)) * u ^ p ≤ u := by
  have hmp : 0 < m ^ (p - 1) := Real.rpow_pos_of_pos hm _
  rcases eq_or_lt_of_le hu0 with h | h
  · subst h
    rw [Real.zero_rpow (by linarith)]; simp
  · have h1 : u ^ p = u ^ (p - 1) * u := by
      rw [Real.rpow_sub_one (ne_of_gt h)]; field_simp
    have h2 : u ^ (p - 1) ≤ m ^ (p - 1) := Real.rpow_le_rpow hu0 hum (by linarith)
    have h3 : 0 ≤ u ^ (p - 1) := Real.rpow_nonneg hu0 _
    constructor
    · positivity
    · rw [h1, one_div, ← mul_assoc]
      have : (m ^ (p - 1))⁻¹ * u ^ (p - 1) ≤ 1 := by
        rw [inv_mul_le_iff₀ hmp]; simpa using h2
      nlinarith

theorem ratio_at (m p : ℝ) (hm : 0 < m) : (1 / m ^ (p - 1)) * m ^ p = m := by
  rw [Real.rpow_sub_one (ne_of_gt hm)]; field_simp

theorem sigCode_mem (x mid p : ℝ) (hx0 : 0 ≤ x) (hx1 : x ≤ 1) (hm0 : 0 < mid) (hm1 : mid < 1) (hp : 1 ≤ p) :
    0 ≤ sigCode x mid p ∧ sigCode x mid p ≤ 1 := by
  unfold sigCode
  split_ifs with h
  · have := ratio_bounds x mid p hx0 (le_of_lt h) hm0 hp
    exact ⟨this.1, by linarith [this.2]⟩
  · have := ratio_bounds (1 - x) (1 - mid) p (by linarith) (by linarith) (by linarith) hp
    exact ⟨by linarith [this.2], by linarith [this.1]⟩

theorem sigCode_zero (mid p : ℝ) (hm0 : 0 < mid) (hp : 1 ≤ p) : sigCode 0 mid p = 0 := by
  unfold sigCode
  rw [if_pos hm0, Real.zero_rpow (by linarith)]; simp

theorem sigCode_one (mid p : ℝ) (hm1 : mid < 1) (hp : 1 ≤ p) : sigCode 1 mid p = 1 := by
  unfold sigCode
  rw [if_neg (by linarith)]
  simp only [sub_self]
  rw [Real.zero_rpow (by linarith)]; simp

/-- the code's two-branch sigmoid (`x < mid`) is MuJoCo's (`power == 1` linear, `x ≤ mid`) on `0 < x < 1` -/
theorem sigCode_eq_spec (x mid p : ℝ) (hm0 : 0 < mid) (hm1 : mid < 1) :
    sigCode x mid p = Spec.Impedance.sigmoid x mid p := by
  unfold sigCode Spec.Impedance.sigmoid
  simp only [hsub, hmul, hdiv, slit, sbeq, sle, spow]
  norm_num
  by_cases hp : p = 1
  · subst hp
    simp
  · rw [if_neg hp]
    rcases lt_trichotomy x mid with h | h | h
    · rw [if_pos h, if_pos (le_of_lt h)]
    · subst h
      rw [if_neg (lt_irrefl _), if_pos (le_refl _)]
      have e1 := ratio_at x p hm0
      have e2 := ratio_at (1 - x) p (by linarith)
      simp only [one_div] at e1 e2
      rw [e1, e2]; ring
    · rw [if_neg (by linarith), if_neg (by linarith)]

theorem clampImp_mem (v : ℝ) : 1e-4 ≤ clampImp v ∧ clampImp v ≤ 0.9999 := by
  unfold clampImp
  refine ⟨le_min (le_max_left _ _) (by norm_num), min_le_right _ _⟩

/-- the impedance the code computes always lies in `[mjMINIMP, mjMAXIMP]` … -/
theorem impCode_mem (dmin dmax mid p x : ℝ) (h0 : 1e-4 ≤ dmin) (h1 : dmin ≤ 0.9999) (h2 : 1e-4 ≤ dmax) (h3 : dmax ≤ 0.9999) :
    1e-4 ≤ impCode dmin dmax mid p x ∧ impCode dmin dmax mid p x ≤ 0.9999 := by
  unfold impCode
  split_ifs
  · exact ⟨h2, h3⟩
  · exact ⟨le_min (le_trans h0 (le_max_left _ _)) h2, le_trans (min_le_right _ _) h3⟩

/-- … and in `[dmin, dmax]` when `dmin ≤ dmax` -/
theorem impCode_range (dmin dmax mid p x : ℝ) (h : dmin ≤ dmax) :
    dmin ≤ impCode dmin dmax mid p x ∧ impCode dmin dmax mid p x ≤ dmax := by
  unfold impCode
  split_ifs
  · exact ⟨h, le_refl _⟩
  · exact ⟨le_min (le_max_left _ _) h, min_le_right _ _⟩

/-- when `dmin > dmax` the code's clamp returns `dmax` whatever the position (MuJoCo interpolates instead) -/
theorem impCode_inverted (dmin dmax mid p x : ℝ) (h : dmax < dmin) : impCode dmin dmax mid p x = dmax := by
  unfold impCode
  split_ifs
  · rfl
  · exact min_eq_right (le_trans (le_of_lt h) (le_max_left _ _))

theorem solimpFix_eq (si : V5 ℝ) :
    Spec.Impedance.solimpFix si = ⟨clampImp si.c0, clampImp si.c1, max 0 si.c2, clampImp si.c3, max 1 si.c4⟩ := by
  simp only [Spec.Impedance.solimpFix, Spec.Impedance.mjMAXIMP, Spec.Impedance.mjMINIMP, clampImp, smin, smax, slit]
  norm_num [min_comm]

/-- the code's impedance is `getimpedance` of MuJoCo when `width > mjMINVAL` and (clamped) `dmin ≤ dmax` -/
theorem impCode_eq_spec (si : V5 ℝ) (pos margin : ℝ) (hw : 1e-15 < si.c2) (hd : clampImp si.c0 ≤ clampImp si.c1) :
    impCode (clampImp si.c0) (clampImp si.c1) (clampImp si.c3) (max 1 si.c4) (|pos - margin| / max 1e-15 si.c2)
      = Spec.Impedance.getImpedance (Spec.Impedance.solimpFix si) pos margin := by
  rw [solimpFix_eq]
  have hw0 : 0 < si.c2 := lt_trans (by norm_num) hw
  have e1 : max 1e-15 si.c2 = si.c2 := max_eq_right (le_of_lt hw)
  have e2 : max 0 si.c2 = si.c2 := max_eq_right (le_of_lt hw0)
  obtain ⟨m0, m1⟩ := clampImp_mem si.c3
  have hm0 : 0 < clampImp si.c3 := lt_of_lt_of_le (by norm_num) m0
  have hm1 : clampImp si.c3 < 1 := lt_of_le_of_lt m1 (by norm_num)
  have hp : 1 ≤ max 1 si.c4 := le_max_left _ _
  simp only [Spec.Impedance.getImpedance, Spec.Impedance.mjMINVAL, e1, e2, hadd, hsub, hmul, hdiv, sbeq, sle, sge,
    sabs, Bool.or_eq_true, lit_0_0, lit_1_0, lit_5_m1, lit_1_m15, decide_eq_true_eq]
  rw [abs_div, abs_of_pos hw0]
  set x := |pos - margin| / si.c2 with hx
  have hx0 : 0 ≤ x := div_nonneg (abs_nonneg _) (le_of_lt hw0)
  rcases eq_or_lt_of_le hd with heq | hlt
  · rw [if_pos (Or.inl heq)]
    unfold impCode
    rw [← heq]
    split_ifs
    · ring
    · simp; ring
  · have hnf : ¬ (clampImp si.c0 = clampImp si.c1 ∨ si.c2 ≤ 1e-15) := by
      rintro (h | h)
      · exact absurd h (ne_of_lt hlt)
      · linarith
    rw [if_neg hnf]
    unfold impCode
    by_cases h1 : 1 < x
    · rw [if_pos h1, if_pos (le_of_lt h1)]
    · rw [if_neg h1]
      by_cases h1' : 1 ≤ x
      · have : x = 1 := le_antisymm (not_lt.mp h1) h1'
        rw [if_pos h1', this, sigCode_one _ _ hm1 hp]
        rw [max_eq_right (by linarith), min_eq_left (by linarith)]; ring
      · rw [if_neg h1']
        by_cases h0 : x ≤ 0
        · have : x = 0 := le_antisymm h0 hx0
          rw [if_pos h0, this, sigCode_zero _ _ hm0 hp]
          simp [le_of_lt hlt]
        · rw [if_neg h0]
          obtain ⟨y0, y1⟩ := sigCode_mem x _ _ hx0 (le_of_lt (not_le.mp h1')) hm0 hm1 hp
          rw [← sigCode_eq_spec x _ _ hm0 hm1]
          have hpos : 0 ≤ clampImp si.c1 - clampImp si.c0 := by linarith
          rw [max_eq_right (by nlinarith), min_eq_left (by nlinarith)]


/-! ### stiffness / damping -/

theorem mixed_false_iff (sr : V2 ℝ) : Spec.Impedance.mixedSolref sr = false ↔ ((0 < sr.c0) ↔ (0 < sr.c1)) := by
  unfold Spec.Impedance.mixedSolref
  simp only [Scalar.gt, Scalar.lt, lit_0_0]
  by_cases h0 : (0:ℝ) < sr.c0 <;> by_cases h1 : (0:ℝ) < sr.c1 <;> simp [h0, h1]

/-- `getsolparam` on a non-mixed solref: only the REFSAFE clamp of a positive time constant -/
theorem solrefFix_eq (dis : Int) (dt : ℝ) (sr : V2 ℝ) (hmix : Spec.Impedance.mixedSolref sr = false) :
    Spec.Impedance.solrefFix (!(decide (Mjw.iand dis 4096 ≠ 0))) dt sr
      = ⟨if 0 < sr.c0 then tcCode dis dt sr.c0 else sr.c0, sr.c1⟩ := by
  unfold Spec.Impedance.solrefFix tcCode
  simp only [hmix, Bool.false_eq_true, if_false, Bool.and_eq_true, sgt, lit_0_0, lit_2_0, smax, hmul,
    Bool.not_eq_true', decide_eq_false_iff_not, ne_eq, not_not]
  by_cases hf : Mjw.iand dis 4096 = 0 <;> by_cases h0 : (0:ℝ) < sr.c0 <;> simp [hf, h0]

theorem kCode_eq_spec (dis : Int) (dt : ℝ) (sr : V2 ℝ) (dmax : ℝ)
    (hmix : Spec.Impedance.mixedSolref sr = false) (hd : 1e-4 ≤ dmax)
    (hk : 0 < sr.c0 → (1e-15 : ℝ) ≤ dmax * dmax * tcCode dis dt sr.c0 * tcCode dis dt sr.c0 * sr.c1 * sr.c1) :
    kCode sr dmax (tcCode dis dt sr.c0)
      = Spec.Impedance.stiffness (Spec.Impedance.solrefFix (!(decide (Mjw.iand dis 4096 ≠ 0))) dt sr) dmax := by
  rw [solrefFix_eq dis dt sr hmix]
  unfold kCode Spec.Impedance.stiffness
  simp only [sgt, lit_0_0, lit_1_0, Spec.Impedance.mjMINVAL, lit_1_m15, smax, hmul, hdiv, hneg]
  by_cases h0 : (0:ℝ) < sr.c0
  · have htc : 0 < tcCode dis dt sr.c0 := by
      unfold tcCode; split_ifs
      · exact lt_of_lt_of_le h0 (le_max_left _ _)
      · exact h0
    rw [if_neg (not_le.mpr h0), if_pos h0, if_pos htc, max_eq_right (hk h0)]
  · rw [if_pos (not_lt.mp h0), if_neg h0, if_neg h0]
    have : (1e-15 : ℝ) ≤ dmax * dmax := by nlinarith
    rw [max_eq_right this]

theorem bCode_eq_spec (dis : Int) (dt : ℝ) (sr : V2 ℝ) (dmax : ℝ)
    (hmix : Spec.Impedance.mixedSolref sr = false) (hd : 1e-4 ≤ dmax)
    (hb : 0 < sr.c1 → (1e-15 : ℝ) ≤ dmax * tcCode dis dt sr.c0) :
    bCode sr dmax (tcCode dis dt sr.c0)
      = Spec.Impedance.damping (Spec.Impedance.solrefFix (!(decide (Mjw.iand dis 4096 ≠ 0))) dt sr) dmax := by
  rw [solrefFix_eq dis dt sr hmix]
  unfold bCode Spec.Impedance.damping
  simp only [sgt, lit_0_0, lit_2_0, Spec.Impedance.mjMINVAL, lit_1_m15, smax, hmul, hdiv, hneg]
  by_cases h1 : (0:ℝ) < sr.c1
  · have h0 : 0 < sr.c0 := ((mixed_false_iff sr).mp hmix).mpr h1
    rw [if_neg (not_le.mpr h1), if_pos h1, if_pos h0, max_eq_right (hb h1)]
  · rw [if_pos (not_lt.mp h1), if_neg h1]
    have : (1e-15 : ℝ) ≤ dmax := by linarith
    rw [max_eq_right this]


/-- pyramidal contacts: folding `2 μ² / impratio` into the inverse weight BEFORE the `mjMINVAL` clamp (the code) gives
    MuJoCo's `1 / Rpy` when neither clamp is active -/
theorem pyramid_D_arith (tran mu s impratio imp : ℝ) (hs : s * s = 1 / impratio)
    (hir : (1e-15 : ℝ) ≤ impratio)
    (hR0 : (1e-15 : ℝ) ≤ (1 - imp) * (tran + mu * mu * tran) / imp)
    (hRpy : (1e-15 : ℝ) ≤ (1 - imp) * (((((tran + mu * mu * tran) * 2) * mu) * mu * s) * s) / imp) :
    1 / max (1e-15 : ℝ) ((1 - imp) * (((((tran + mu * mu * tran) * 2) * mu) * mu * s) * s) / imp)
      = 1 / Spec.Impedance.pyramidR (Spec.Impedance.regR imp (Spec.Impedance.diagApproxPyramid tran mu)) mu impratio := by
  unfold Spec.Impedance.pyramidR Spec.Impedance.regR Spec.Impedance.diagApproxPyramid
  simp only [Spec.Impedance.mjMINVAL, lit_1_m15, lit_1_0, lit_2_0, smax, hadd, hsub, hmul, hdiv, ssqrt]
  rw [max_eq_right hR0, max_eq_right hir, max_eq_right hRpy]
  have hR0pos : 0 < (1 - imp) * (tran + mu * mu * tran) / imp := lt_of_lt_of_le (by norm_num) hR0
  have hipos : 0 < impratio := lt_of_lt_of_le (by norm_num) hir
  set R0 := (1 - imp) * (tran + mu * mu * tran) / imp with hR0def
  have e1 : R0 / impratio / R0 = 1 / impratio := by field_simp
  rw [e1]
  have hsq : Real.sqrt (1 / impratio) * Real.sqrt (1 / impratio) = 1 / impratio :=
    Real.mul_self_sqrt (by positivity)
  have e2 : 2 * (mu * Real.sqrt (1 / impratio)) * (mu * Real.sqrt (1 / impratio)) * R0
      = 2 * mu * mu * (Real.sqrt (1 / impratio) * Real.sqrt (1 / impratio)) * R0 := by ring
  rw [e2, hsq, ← hs]
  congr 1
  rw [hR0def]; ring

/-! ## Counter contributions of a thread

`contrib arr idx ws` = what the write list `ws` atomically ADDS to the integer cell `arr[idx]`
(`aadd` and `alloc` writes; `alloc` = an atomic add whose old value is used).  Additive over `++`,
so the value of a counter that only receives atomic adds is `initial + Σ_threads contrib`, whatever the
interleaving (`lookupI_perm_adds`). -/
section contrib
open Mjw.Lemmas.C16
variable {K : Type}

def addVal (arr : String) (idx : List Int) (w : Write K) : Int :=
  if w.arr = arr ∧ w.idx = idx ∧ (w.kind = WKind.aadd ∨ w.kind = WKind.alloc) then
    (match w.val with | WVal.i n => n | _ => 0) else 0

def contrib (arr : String) (idx : List Int) (ws : List (Write K)) : Int := (ws.map (addVal arr idx)).sum

variable (arr : String) (idx : List Int)

theorem contrib_nil : contrib arr idx ([] : List (Write K)) = 0 := rfl
theorem contrib_append (a b : List (Write K)) : contrib arr idx (a ++ b) = contrib arr idx a + contrib arr idx b := by
  simp [contrib]
theorem contrib_cons (x : Write K) (b : List (Write K)) : contrib arr idx (x :: b) = addVal arr idx x + contrib arr idx b := by
  simp [contrib]
theorem contrib_ite (c : Prop) [Decidable c] (a b : List (Write K)) :
    contrib arr idx (if c then a else b) = if c then contrib arr idx a else contrib arr idx b := by
  split <;> rfl

theorem contrib_forRange_id (lo hi : Int) (init : List (Write K)) (f : Int → List (Write K) → List (Write K))
    (h : ∀ i s, lo ≤ i → i < hi → contrib arr idx (f i s) = contrib arr idx s) :
    contrib arr idx (forRange lo hi init f) = contrib arr idx init :=
  forRange_inv (fun s => contrib arr idx s = contrib arr idx init) lo hi init f rfl
    (fun i s h1 h2 hI => (h i s h1 h2).trans hI)
theorem contrib_forRange_1 {β : Type} (lo hi : Int) (init : List (Write K) × β) (f : Int → List (Write K) × β → List (Write K) × β)
    (h : ∀ i s, lo ≤ i → i < hi → contrib arr idx (f i s).1 = contrib arr idx s.1) :
    contrib arr idx (forRange lo hi init f).1 = contrib arr idx init.1 :=
  forRange_inv (fun s => contrib arr idx s.1 = contrib arr idx init.1) lo hi init f rfl
    (fun i s h1 h2 hI => (h i s h1 h2).trans hI)
theorem contrib_forRange_221 {α β γ : Type} (lo hi : Int) (init : α × β × List (Write K) × γ)
    (f : Int → α × β × List (Write K) × γ → α × β × List (Write K) × γ)
    (h : ∀ i s, lo ≤ i → i < hi → contrib arr idx (f i s).2.2.1 = contrib arr idx s.2.2.1) :
    contrib arr idx (forRange lo hi init f).2.2.1 = contrib arr idx init.2.2.1 :=
  forRange_inv (fun s => contrib arr idx s.2.2.1 = contrib arr idx init.2.2.1) lo hi init f rfl
    (fun i s h1 h2 hI => (h i s h1 h2).trans hI)
theorem contrib_whileFuel_221 {α β γ : Type} (fuel : Nat) (c : α × β × List (Write K) × γ → Bool)
    (init : α × β × List (Write K) × γ) (b : α × β × List (Write K) × γ → α × β × List (Write K) × γ)
    (h : ∀ s, contrib arr idx (b s).2.2.1 = contrib arr idx s.2.2.1) :
    contrib arr idx (whileFuel fuel c b init).2.2.1 = contrib arr idx init.2.2.1 :=
  whileFuel_inv (fun s => contrib arr idx s.2.2.1 = contrib arr idx init.2.2.1) fuel c b init rfl
    (fun s hI => (h s).trans hI)

end contrib

/-- the thread sets the Int cell `arr[idx] := v` -/
def setsI {K : Type} (ws : List (Write K)) (arr : String) (idx : List Int) (v : Int) : Prop :=
  Mjw.Lemmas.C16.AnyW (fun w => w.arr = arr ∧ w.kind = WKind.set ∧ w.idx = idx ∧ w.val = WVal.i v) ws

/-- the integer counters of `make_constraint` -/
def counters : List String := ["ne_out", "nf_out", "nl_out", "nefc_out"]

/-- a row-builder thread of world `wid` (write list `ws`) COUNTS AS a request of `k` rows of class `ctr`
    (`ctr` ∈ `ne_out`/`nf_out`/`nl_out`):
    * what it adds to `ctr[·]` is what it adds to `nefc_out[·]` — the class counter moves with the row counter;
    * it adds `k` to `nefc_out[wid]` if it performs the allocating atomic (`reached`), else nothing;
    * it adds nothing to any other world's counters, nor to the other two class counters;
    * it touches the four counters by atomic adds only. -/
def CountsAs {K : Type} (ws : List (Write K)) (ctr : String) (wid k : Int) : Prop :=
  (∀ idx, contrib ctr idx ws = contrib "nefc_out" idx ws)
  ∧ (Mjw.Lemmas.C16.reached ws "nefc_out" [wid] → contrib "nefc_out" [wid] ws = k)
  ∧ (¬ Mjw.Lemmas.C16.reached ws "nefc_out" [wid] → contrib "nefc_out" [wid] ws = 0)
  ∧ (∀ idx, idx ≠ [wid] → contrib "nefc_out" idx ws = 0)
  ∧ (∀ c, c ∈ ["ne_out", "nf_out", "nl_out"] → c ≠ ctr → ∀ idx, contrib c idx ws = 0)
  ∧ Mjw.Lemmas.C16.AllW (fun w => w.arr ∈ counters → (w.kind = WKind.aadd ∨ w.kind = WKind.alloc)) ws

/-- the simp set that computes `contrib` (and answers `AllW`/`AnyW` questions) on a generated kernel body -/
syntax "csimp" "[" Lean.Parser.Tactic.simpLemma,* "]" : tactic
macro_rules
  | `(tactic| csimp []) =>
    `(tactic| simp [Mjw.Lemmas.C16.fst_ite, Mjw.Lemmas.C16.snd_ite, contrib_nil, contrib_append, contrib_cons, contrib_ite,
       contrib_forRange_id, contrib_forRange_1, contrib_forRange_221, contrib_whileFuel_221, addVal,
       Mjw.Lemmas.C16.allW_ite, Mjw.Lemmas.C16.allW_append, Mjw.Lemmas.C16.allW_cons, Mjw.Lemmas.C16.allW_nil_iff,
       Mjw.Lemmas.C16.allW_forRange_id, Mjw.Lemmas.C16.allW_forRange_1, Mjw.Lemmas.C16.allW_forRange_221,
       Mjw.Lemmas.C16.allW_whileFuel_221, Mjw.Lemmas.C16.allW_forRange_append,
       Mjw.Lemmas.C16.anyW_ite, Mjw.Lemmas.C16.anyW_append, Mjw.Lemmas.C16.anyW_cons, Mjw.Lemmas.C16.anyW_nil_iff,
       Mjw.Lemmas.C16.anyW_forRange_id, Mjw.Lemmas.C16.anyW_forRange_1, Mjw.Lemmas.C16.anyW_forRange_221,
       Mjw.Lemmas.C16.anyW_whileFuel_221, Mjw.Lemmas.C16.anyW_forRange_append, Mjw.Lemmas.C16.ite_append_same,
       Mjw.Lemmas.C16.efc_row_eq, Mjw.Lemmas.C16.reached, Mjw.Lemmas.C16.allocReq, setsI])
  | `(tactic| csimp [$ts,*]) =>
    `(tactic| simp [$ts,*, Mjw.Lemmas.C16.fst_ite, Mjw.Lemmas.C16.snd_ite, contrib_nil, contrib_append, contrib_cons, contrib_ite,
       contrib_forRange_id, contrib_forRange_1, contrib_forRange_221, contrib_whileFuel_221, addVal,
       Mjw.Lemmas.C16.allW_ite, Mjw.Lemmas.C16.allW_append, Mjw.Lemmas.C16.allW_cons, Mjw.Lemmas.C16.allW_nil_iff,
       Mjw.Lemmas.C16.allW_forRange_id, Mjw.Lemmas.C16.allW_forRange_1, Mjw.Lemmas.C16.allW_forRange_221,
       Mjw.Lemmas.C16.allW_whileFuel_221, Mjw.Lemmas.C16.allW_forRange_append,
       Mjw.Lemmas.C16.anyW_ite, Mjw.Lemmas.C16.anyW_append, Mjw.Lemmas.C16.anyW_cons, Mjw.Lemmas.C16.anyW_nil_iff,
       Mjw.Lemmas.C16.anyW_forRange_id, Mjw.Lemmas.C16.anyW_forRange_1, Mjw.Lemmas.C16.anyW_forRange_221,
       Mjw.Lemmas.C16.anyW_whileFuel_221, Mjw.Lemmas.C16.anyW_forRange_append, Mjw.Lemmas.C16.ite_append_same,
       Mjw.Lemmas.C16.efc_row_eq, Mjw.Lemmas.C16.reached, Mjw.Lemmas.C16.allocReq, setsI])

end Mjw.Lemmas.C05
