/-
  Helper lemmas for Props/C24 (constraint force law, `Mjw.Gen.Solver._eval_constraint`).

  * literal evaluation, `safe_div` with non-zero / zero divisor;
  * closed forms of `_eval_constraint` at K = ℝ per row kind (pure unfolding of the generated code:
    every lemma here mentions the `Mjw.Gen.*` definition, so regeneration re-checks it);
  * two small calculus lemmas (local congruence, gluing of one-sided derivatives).
-/
import MjwVerif.Lemmas.Real
import MjwVerif.Gen.Solver
import Mathlib.Analysis.Calculus.Deriv.Basic
import Mathlib.Analysis.Calculus.Deriv.Add
import Mathlib.Analysis.Calculus.Deriv.Mul

set_option linter.unusedSimpArgs false
set_option linter.unusedVariables false

namespace Mjw.Lemmas.C24
open Mjw Mjw.Gen.Solver Mjw.Gen.Math

/-! ### literals and safe_div -/

theorem half_lit : (Scalar.lit 5 (-1) : ℝ) = 1 / 2 := by simp only [slit]; norm_num
theorem neghalf_lit : (Scalar.lit (-5) (-1) : ℝ) = -(1 / 2) := by simp only [slit]; norm_num
theorem lit0 : (Scalar.lit 0 0 : ℝ) = 0 := by simp only [slit]; norm_num
theorem lit1 : (Scalar.lit 1 0 : ℝ) = 1 := by simp only [slit]; norm_num
theorem lit2 : (Scalar.lit 2 0 : ℝ) = 2 := by simp only [slit]; norm_num
theorem lit3 : (Scalar.lit 3 0 : ℝ) = 3 := by simp only [slit]; norm_num
theorem lit4 : (Scalar.lit 4 0 : ℝ) = 4 := by simp only [slit]; norm_num
theorem minval_lit : (Scalar.lit 1 (-15) : ℝ) = 1 / 10 ^ 15 := by simp only [slit]; norm_num

/-- `safe_div x y = x / y` for a non-zero divisor. -/
theorem safe_div_ne (x y : ℝ) (h : y ≠ 0) : safe_div_F_F x y = x / y := by
  simp only [safe_div_F_F, sbne, lit0, hdiv, if_pos h]

/-- `safe_div x 0 = x / MJ_MINVAL = x · 10¹⁵` (NOT x / 0). -/
theorem safe_div_zero (x : ℝ) : safe_div_F_F x 0 = x * 10 ^ 15 := by
  simp only [safe_div_F_F, sbne, lit0, hdiv, ne_eq, not_true_eq_false, if_false, minval_lit]
  field_simp

/-! ### closed forms of `_eval_constraint` -/

theorem eval_equality (bf be : Bool) (jaref D f : ℝ) (e e0 : Int) (j0 D0 mu u TT : ℝ) :
    _eval_constraint true bf be jaref D f e e0 j0 D0 mu u TT
      = ⟨-(D * jaref), 1, 1 / 2 * D * jaref * jaref⟩ := by
  simp only [_eval_constraint, hmul, hneg, half_lit, lit1, if_true]
  congr 1; ring

theorem eval_friction (be : Bool) (jaref D f : ℝ) (e e0 : Int) (j0 D0 mu u TT : ℝ) :
    _eval_constraint false true be jaref D f e e0 j0 D0 mu u TT
      = if jaref ≤ -(safe_div_F_F f D) then
          ⟨f, 2, -(f * (1 / 2 * safe_div_F_F f D + jaref))⟩
        else if safe_div_F_F f D ≤ jaref then
          ⟨-f, 3, -(f * (1 / 2 * safe_div_F_F f D - jaref))⟩
        else ⟨-(D * jaref), 1, 1 / 2 * D * jaref * jaref⟩ := by
  simp only [_eval_constraint, hadd, hsub, hmul, hneg, sle, sge, half_lit, lit1, lit2, lit3,
    Bool.false_eq_true, if_false, if_true]
  split_ifs <;> (congr 1; all_goals ring)

theorem eval_limit (jaref D f : ℝ) (e e0 : Int) (j0 D0 mu u TT : ℝ) :
    _eval_constraint false false false jaref D f e e0 j0 D0 mu u TT
      = if 0 ≤ jaref then ⟨0, 0, 0⟩ else ⟨-(D * jaref), 1, 1 / 2 * D * jaref * jaref⟩ := by
  simp only [_eval_constraint, hmul, hneg, sge, half_lit, lit0, lit1,
    Bool.false_eq_true, if_false, if_true]
  split_ifs <;> (congr 1; all_goals ring)

/-- closed form of the line-search friction-loss cost -/
theorem eval_frictionloss_cost (x f rf d : ℝ) :
    _eval_frictionloss_cost x f rf d
      = if -rf < x ∧ x < rf then 1 / 2 * d * x * x
        else if x ≤ -rf then f * (-(1 / 2) * rf - x) else f * (-(1 / 2) * rf + x) := by
  simp only [_eval_frictionloss_cost, hadd, hsub, hmul, hneg, slt, sle, half_lit, neghalf_lit,
    Bool.and_eq_true]

/-- closed form of the line-search friction-loss point (cost, gradient, hessian) -/
theorem eval_frictionloss_pt (x f rf jv d : ℝ) :
    _eval_frictionloss_pt x f rf jv d
      = if -rf < x ∧ x < rf then ⟨1 / 2 * d * x * x, jv * d * x, jv * (jv * d)⟩
        else if x ≤ -rf then ⟨f * (-(1 / 2) * rf - x), -f * jv, 0⟩
        else ⟨f * (-(1 / 2) * rf + x), f * jv, 0⟩ := by
  simp only [_eval_frictionloss_pt, hadd, hsub, hmul, hneg, slt, sle, half_lit, neghalf_lit, lit0,
    Bool.and_eq_true]

/-- the generated `T` (0 when `TT ≤ 0`, else `√TT`) is `√TT` for `TT ≥ 0`; only `√0 = 0` is used. -/
theorem genT_eq (TT : ℝ) (h : 0 ≤ TT) : (if TT ≤ 0 then (0:ℝ) else Real.sqrt TT) = Real.sqrt TT := by
  split_ifs with h'
  · have : TT = 0 := le_antisymm h' h
    rw [this, Real.sqrt_zero]
  · rfl

/-- elliptic rows, no hypothesis: `T` is kept exactly as the generated code computes it. -/
theorem eval_elliptic_gen (jaref D f : ℝ) (e e0 : Int) (j0 D0 mu u TT : ℝ) :
    _eval_constraint false false true jaref D f e e0 j0 D0 mu u TT
      = if (mu * (if TT ≤ 0 then (0:ℝ) else Real.sqrt TT) ≤ j0 * mu
            ∨ ((if TT ≤ 0 then (0:ℝ) else Real.sqrt TT) ≤ 0 ∧ 0 ≤ j0 * mu)) then ⟨0, 0, 0⟩
        else if (mu * (j0 * mu) + (if TT ≤ 0 then (0:ℝ) else Real.sqrt TT) ≤ 0
            ∨ ((if TT ≤ 0 then (0:ℝ) else Real.sqrt TT) ≤ 0 ∧ j0 * mu < 0)) then
          ⟨-(D * jaref), 1, 1 / 2 * D * jaref * jaref⟩
        else
          ⟨(_eval_elliptic_middle (j0 * mu) (if TT ≤ 0 then (0:ℝ) else Real.sqrt TT) D0 mu u
              (decide (e = e0))).c0, 4,
           (_eval_elliptic_middle (j0 * mu) (if TT ≤ 0 then (0:ℝ) else Real.sqrt TT) D0 mu u
              (decide (e = e0))).c1⟩ := by
  simp only [_eval_constraint, hadd, hmul, hneg, sle, sge, slt, ssqrt, half_lit, lit0, lit1, lit4,
    Bool.false_eq_true, if_false, if_true, Bool.or_eq_true, Bool.and_eq_true]
  split_ifs <;> first | rfl | (congr 1; all_goals ring)

theorem eval_elliptic (jaref D f : ℝ) (e e0 : Int) (j0 D0 mu u TT : ℝ) (hTT : 0 ≤ TT) :
    _eval_constraint false false true jaref D f e e0 j0 D0 mu u TT
      = if (mu * Real.sqrt TT ≤ j0 * mu ∨ (Real.sqrt TT ≤ 0 ∧ 0 ≤ j0 * mu)) then ⟨0, 0, 0⟩
        else if (mu * (j0 * mu) + Real.sqrt TT ≤ 0 ∨ (Real.sqrt TT ≤ 0 ∧ j0 * mu < 0)) then
          ⟨-(D * jaref), 1, 1 / 2 * D * jaref * jaref⟩
        else
          ⟨(_eval_elliptic_middle (j0 * mu) (Real.sqrt TT) D0 mu u (decide (e = e0))).c0, 4,
           (_eval_elliptic_middle (j0 * mu) (Real.sqrt TT) D0 mu u (decide (e = e0))).c1⟩ := by
  rw [eval_elliptic_gen]
  simp only [genT_eq TT hTT]

/-- with `mu > 0` the generated zone tests reduce to MuJoCo's textbook ones. -/
theorem eval_elliptic_pos (jaref D f : ℝ) (e e0 : Int) (j0 D0 mu u TT : ℝ) (hTT : 0 ≤ TT)
    (hmu : 0 < mu) :
    _eval_constraint false false true jaref D f e e0 j0 D0 mu u TT
      = if mu * Real.sqrt TT ≤ j0 * mu then ⟨0, 0, 0⟩
        else if mu * (j0 * mu) + Real.sqrt TT ≤ 0 then
          ⟨-(D * jaref), 1, 1 / 2 * D * jaref * jaref⟩
        else
          ⟨(_eval_elliptic_middle (j0 * mu) (Real.sqrt TT) D0 mu u (decide (e = e0))).c0, 4,
           (_eval_elliptic_middle (j0 * mu) (Real.sqrt TT) D0 mu u (decide (e = e0))).c1⟩ := by
  rw [eval_elliptic _ _ _ _ _ _ _ _ _ _ hTT]
  have hT := Real.sqrt_nonneg TT
  have c1 : (mu * Real.sqrt TT ≤ j0 * mu ∨ (Real.sqrt TT ≤ 0 ∧ 0 ≤ j0 * mu))
      ↔ mu * Real.sqrt TT ≤ j0 * mu := by
    constructor
    · rintro (h | ⟨h1, h2⟩)
      · exact h
      · have : Real.sqrt TT = 0 := le_antisymm h1 hT
        rw [this]; linarith
    · exact Or.inl
  have c2 : (mu * (j0 * mu) + Real.sqrt TT ≤ 0 ∨ (Real.sqrt TT ≤ 0 ∧ j0 * mu < 0))
      ↔ mu * (j0 * mu) + Real.sqrt TT ≤ 0 := by
    constructor
    · rintro (h | ⟨h1, h2⟩)
      · exact h
      · have : Real.sqrt TT = 0 := le_antisymm h1 hT
        rw [this]; nlinarith
    · exact Or.inl
  simp only [c1, c2]

/-- `safe_div` of non-negative numbers is non-negative (also for the substituted divisor). -/
theorem safe_div_nonneg (x y : ℝ) (hx : 0 ≤ x) (hy : 0 ≤ y) : 0 ≤ safe_div_F_F x y := by
  rcases eq_or_lt_of_le hy with h | h
  · rw [← h, safe_div_zero]; positivity
  · rw [safe_div_ne _ _ (ne_of_gt h)]; positivity

/-- middle zone, normal row -/
theorem middle_normal (N T D0 mu u : ℝ) (hmu : mu ≠ 0) :
    _eval_elliptic_middle N T D0 mu u true
      = ⟨-(D0 / (mu * mu * (1 + mu * mu)) * (N - mu * T) * mu),
         1 / 2 * (D0 / (mu * mu * (1 + mu * mu))) * (N - mu * T) * (N - mu * T)⟩ := by
  have hden : mu * mu * (1 + mu * mu) ≠ 0 := by
    have : 0 < mu * mu := mul_self_pos.mpr hmu
    positivity
  simp only [_eval_elliptic_middle, hadd, hsub, hmul, hneg, half_lit, lit1, if_true,
    safe_div_ne _ _ hden]
  congr 1; ring

/-- middle zone, tangent row: `-(f_n / T) * ufrictionj` where `f_n` is the normal row's force -/
theorem middle_tangent (N T D0 mu u : ℝ) (hT : T ≠ 0) :
    _eval_elliptic_middle N T D0 mu u false
      = ⟨-((_eval_elliptic_middle N T D0 mu u true).c0 / T) * u, 0⟩ := by
  simp only [_eval_elliptic_middle, hadd, hsub, hmul, hneg, half_lit, lit0, lit1, if_true,
    Bool.false_eq_true, if_false, safe_div_ne _ _ hT]

/-- the cost returned by `_eval_elliptic_middle` is non-negative for D0 ≥ 0 (any mu, also mu = 0 where
    `safe_div` substitutes MJ_MINVAL). -/
theorem middle_cost_nonneg (N T D0 mu u : ℝ) (b : Bool) (hD0 : 0 ≤ D0) :
    0 ≤ (_eval_elliptic_middle N T D0 mu u b).c1 := by
  have hd : 0 ≤ safe_div_F_F D0 (mu * mu * (1 + mu * mu)) :=
    safe_div_nonneg _ _ hD0
      (mul_nonneg (mul_self_nonneg mu) (by nlinarith [mul_self_nonneg mu]))
  cases b
  · simp only [_eval_elliptic_middle, lit0, Bool.false_eq_true, if_false, le_refl]
  · simp only [_eval_elliptic_middle, hadd, hsub, hmul, half_lit, lit1, if_true]
    have := mul_nonneg hd (mul_self_nonneg (N - mu * T))
    nlinarith

/-- √4 = 2 (for the concrete examples) -/
theorem sqrt4 : Real.sqrt 4 = 2 := by
  rw [show (4:ℝ) = 2 ^ 2 by norm_num]; exact Real.sqrt_sq (by norm_num)

/-! ### calculus -/

/-- a function that agrees with `g` on a neighbourhood of `x` has `g`'s derivative at `x` -/
theorem hasDerivAt_of_eqOn_nhds {f g : ℝ → ℝ} {x f' : ℝ} {s : Set ℝ} (hs : s ∈ nhds x)
    (h : ∀ y ∈ s, f y = g y) (hg : HasDerivAt g f' x) : HasDerivAt f f' x :=
  hg.congr_of_eventuallyEq (Filter.eventually_of_mem hs h)

/-- gluing: `f = g` on `(-∞, x]`, `f = h` on `[x, ∞)`, and `g`, `h` have the same derivative at `x`. -/
theorem hasDerivAt_glue {f g h : ℝ → ℝ} {x f' : ℝ} (hl : ∀ y, y ≤ x → f y = g y)
    (hr : ∀ y, x ≤ y → f y = h y) (hg : HasDerivAt g f' x) (hh : HasDerivAt h f' x) :
    HasDerivAt f f' x := by
  have h1 : HasDerivWithinAt f f' (Set.Iic x) x :=
    hg.hasDerivWithinAt.congr (fun y hy => hl y hy) (hl x le_rfl)
  have h2 : HasDerivWithinAt f f' (Set.Ici x) x :=
    hh.hasDerivWithinAt.congr (fun y hy => hr y hy) (hr x le_rfl)
  have h3 := h1.union h2
  rw [Set.Iic_union_Ici] at h3
  exact hasDerivWithinAt_univ.mp h3

/-- local gluing: as `hasDerivAt_glue`, but agreement is only required on a neighbourhood `s` of `x`. -/
theorem hasDerivAt_glue_nhds {f g h : ℝ → ℝ} {x f' : ℝ} {s : Set ℝ} (hs : s ∈ nhds x)
    (hl : ∀ y ∈ s, y ≤ x → f y = g y) (hr : ∀ y ∈ s, x ≤ y → f y = h y)
    (hg : HasDerivAt g f' x) (hh : HasDerivAt h f' x) : HasDerivAt f f' x := by
  have hx : x ∈ s := mem_of_mem_nhds hs
  have hgh : g x = h x := by rw [← hl x hx le_rfl, ← hr x hx le_rfl]
  have hF : HasDerivAt (fun y => if y ≤ x then g y else h y) f' x := by
    refine hasDerivAt_glue (g := g) (h := h) (fun y hy => if_pos hy) (fun y hy => ?_) hg hh
    by_cases hyx : y ≤ x
    · have : y = x := le_antisymm hyx hy
      rw [if_pos hyx, this, hgh]
    · rw [if_neg hyx]
  refine hasDerivAt_of_eqOn_nhds hs (fun y hy => ?_) hF
  by_cases hyx : y ≤ x
  · rw [if_pos hyx]; exact hl y hy hyx
  · rw [if_neg hyx]; exact hr y hy (le_of_lt (not_le.mp hyx))

/-- transport a derivative along pointwise equality of functions and equality of derivative values -/
theorem hasDerivAt_congr {f g : ℝ → ℝ} {f' g' x : ℝ} (h : HasDerivAt g g' x)
    (hf : ∀ y, f y = g y) (hd : f' = g') : HasDerivAt f f' x := by
  have : f = g := funext hf
  rw [this, hd]; exact h

/-- derivative of `j ↦ c * j * j` -/
theorem hasDerivAt_quad (c x : ℝ) : HasDerivAt (fun j : ℝ => c * j * j) (2 * c * x) x := by
  have h : HasDerivAt (fun j : ℝ => c * j * j) (c * 1 * x + c * x * 1) x :=
    ((hasDerivAt_id' x).const_mul c).mul (hasDerivAt_id' x)
  convert h using 1
  ring

/-- derivative of `j ↦ a * (b + s * j)` -/
theorem hasDerivAt_lin (a b s x : ℝ) : HasDerivAt (fun j : ℝ => a * (b + s * j)) (a * s) x := by
  have h : HasDerivAt (fun j : ℝ => a * (b + s * j)) (a * (s * 1)) x :=
    (((hasDerivAt_id' x).const_mul s).const_add b).const_mul a
  convert h using 1
  ring

end Mjw.Lemmas.C24
