/-
  C05 helper lemmas: `_efc_contact_update__kernel` (the per-row scalars of contact rows).
-/
import MjwVerif.Lemmas.C05
set_option linter.unusedSimpArgs false
set_option linter.unusedVariables false
set_option linter.unusedSectionVars false
namespace Mjw.Lemmas.C05
open Mjw Mjw.Lemmas.C16

/-- the renaming under which every builder calls `_efc_row` -/
def efcRowRenaming : List (String × String) :=
  [("type_out", "efc_type_out"), ("id_out", "efc_id_out"), ("pos_out", "efc_pos_out"),
   ("margin_out", "efc_margin_out"), ("D_out", "efc_D_out"), ("vel_out", "efc_vel_out"),
   ("aref_out", "efc_aref_out"), ("frictionloss_out", "efc_frictionloss_out")]

section update
variable {K : Type} [Scalar K] (opt_timestep : (Int → K)) (opt_disableflags : Int) (opt_impratio_invsqrt : (Int → K)) (body_invweight0 : (Int → Int → V2 K)) (geom_bodyid : (Int → Int)) (contact_efc_address_in : (Int → Int → Int)) (efc_Jqvel_in : (Int → Int → K)) (nacon_in : (Int → Int)) (dist_in : (Int → K)) (condim_in : (Int → Int)) (includemargin_in : (Int → K)) (worldid_in : (Int → Int)) (geom_in : (Int → I2)) (friction_in : (Int → V5 K)) (solref_in : (Int → V2 K)) (solreffriction_in : (Int → V2 K)) (solimp_in : (Int → V5 K)) (adhesion_in : (Int → K)) (type_in : (Int → Int)) (efc_type_out : (Int → Int → Int)) (efc_id_out : (Int → Int → Int)) (efc_pos_out : (Int → Int → K)) (efc_margin_out : (Int → Int → K)) (efc_D_out : (Int → Int → K)) (efc_vel_out : (Int → Int → K)) (efc_aref_out : (Int → Int → K)) (efc_frictionloss_out : (Int → Int → K)) (st_IS_ELLIPTIC : Bool) (opt_timestep_shape0 : Int) (opt_impratio_invsqrt_shape0 : Int) (body_invweight0_shape0 : Int) (st_flg_adhesion : Bool) (tid0 : Int) (tid1 : Int)
local notation "KW" => Gen.Constraint._efc_contact_update__kernel opt_timestep opt_disableflags opt_impratio_invsqrt body_invweight0 geom_bodyid contact_efc_address_in efc_Jqvel_in nacon_in dist_in condim_in includemargin_in worldid_in geom_in friction_in solref_in solreffriction_in solimp_in adhesion_in type_in efc_type_out efc_id_out efc_pos_out efc_margin_out efc_D_out efc_vel_out efc_aref_out efc_frictionloss_out

/-- translational inverse weight of the two bodies of contact `conid` (`tran` of `mj_diagApprox`) -/
def tranWeight (conid : Int) : K :=
  (body_invweight0 (Int.tmod (worldid_in conid) body_invweight0_shape0) (geom_bodyid (geom_in conid).c0)).c0
    + (body_invweight0 (Int.tmod (worldid_in conid) body_invweight0_shape0) (geom_bodyid (geom_in conid).c1)).c0

/-- the `invweight` the kernel passes to `_efc_row` for a pyramidal contact (same for ALL its rows) -/
def pyramidInvweight (conid : Int) : K :=
  let iw : K := tranWeight body_invweight0 geom_bodyid worldid_in geom_in body_invweight0_shape0 conid
  let s : K := opt_impratio_invsqrt (Int.tmod (worldid_in conid) opt_impratio_invsqrt_shape0)
  if condim_in conid > 1 then
    ((((iw + (((friction_in conid).c0 * (friction_in conid).c0) * iw)) * (Scalar.lit 2 0 : K)) * (friction_in conid).c0) * (friction_in conid).c0 * s) * s
  else iw

theorem update_pyramidal (hflg : st_flg_adhesion = false)
    (hc : tid0 < nacon_in 0) (hty : Mjw.iand (type_in tid0) 1 ≠ 0)
    (hd1 : ¬ (condim_in tid0 = 1 ∧ tid1 > 0)) (hd2 : ¬ (condim_in tid0 > 1 ∧ tid1 ≥ 2 * (condim_in tid0 - 1)))
    (hadr : 0 ≤ contact_efc_address_in tid0 tid1) :
    KW false opt_timestep_shape0 opt_impratio_invsqrt_shape0 body_invweight0_shape0 st_flg_adhesion tid0 tid1
      = Write.renameAll efcRowRenaming
          (Gen.Constraint._efc_row opt_disableflags (worldid_in tid0)
            (opt_timestep (Int.tmod (worldid_in tid0) opt_timestep_shape0)) (contact_efc_address_in tid0 tid1)
            (dist_in tid0 - includemargin_in tid0) (dist_in tid0 - includemargin_in tid0)
            (pyramidInvweight opt_impratio_invsqrt body_invweight0 geom_bodyid condim_in worldid_in geom_in friction_in
              opt_impratio_invsqrt_shape0 body_invweight0_shape0 tid0)
            (solref_in tid0) (solimp_in tid0) (includemargin_in tid0)
            (efc_Jqvel_in (worldid_in tid0) (contact_efc_address_in tid0 tid1)) (Scalar.lit 0 0)
            (if condim_in tid0 = 1 then 5 else 6) tid0
            efc_type_out efc_id_out efc_pos_out efc_margin_out efc_D_out efc_vel_out efc_aref_out efc_frictionloss_out) := by
  subst hflg
  unfold Gen.Constraint._efc_contact_update__kernel pyramidInvweight tranWeight efcRowRenaming
  have e1 : decide (tid0 ≥ nacon_in 0) = false := by simp; omega
  have e2 : (!(decide (Mjw.iand (type_in tid0) 1 ≠ 0))) = false := by simp [hty]
  have e3 : (decide (condim_in tid0 = 1) && decide (tid1 > 0)) = false := by
    simp only [Bool.and_eq_false_iff, decide_eq_false_iff_not]
    by_cases a : condim_in tid0 = 1
    · exact Or.inr (fun b => hd1 ⟨a, b⟩)
    · exact Or.inl a
  have e4 : (decide (condim_in tid0 > 1) && decide (tid1 ≥ 2 * (condim_in tid0 - 1))) = false := by
    simp only [Bool.and_eq_false_iff, decide_eq_false_iff_not]
    by_cases a : condim_in tid0 > 1
    · exact Or.inr (fun b => hd2 ⟨a, b⟩)
    · exact Or.inl a
  have e5 : decide (contact_efc_address_in tid0 tid1 < 0) = false := by simp; omega
  simp only [e1, e2, e3, e4, e5, Bool.false_eq_true, if_false, List.nil_append]
  by_cases h1 : condim_in tid0 = 1
  · have : ¬ condim_in tid0 > 1 := by omega
    simp [h1]
  · by_cases h2 : condim_in tid0 > 1 <;> simp [h1, h2]

/-- the `invweight` the kernel passes to `_efc_row` for row `dimid` of an elliptic contact -/
def ellipticInvweight (conid dimid : Int) : K :=
  let iw : K := tranWeight body_invweight0 geom_bodyid worldid_in geom_in body_invweight0_shape0 conid
  let s : K := opt_impratio_invsqrt (Int.tmod (worldid_in conid) opt_impratio_invsqrt_shape0)
  if dimid > 0 then
    if dimid > 1 then
      ((iw * s) * s) * (((friction_in conid).c0 * (friction_in conid).c0)
        / (V5.get (friction_in conid) (dimid - 1) * V5.get (friction_in conid) (dimid - 1)))
    else (iw * s) * s
  else iw

/-- the solref used for row `dimid` of an elliptic contact: `solreffriction` (if non-zero) in the friction dimensions -/
def ellipticRef (conid dimid : Int) : V2 K :=
  if dimid > 0 then
    if (Scalar.bne (solreffriction_in conid).c0 (Scalar.lit 0 0) || Scalar.bne (solreffriction_in conid).c1 (Scalar.lit 0 0))
    then solreffriction_in conid else solref_in conid
  else solref_in conid

theorem update_elliptic (hflg : st_flg_adhesion = false)
    (hc : tid0 < nacon_in 0) (hty : Mjw.iand (type_in tid0) 1 ≠ 0)
    (hd : tid1 ≤ condim_in tid0 - 1) (hadr : 0 ≤ contact_efc_address_in tid0 tid1) :
    KW true opt_timestep_shape0 opt_impratio_invsqrt_shape0 body_invweight0_shape0 st_flg_adhesion tid0 tid1
      = Write.renameAll efcRowRenaming
          (Gen.Constraint._efc_row opt_disableflags (worldid_in tid0)
            (opt_timestep (Int.tmod (worldid_in tid0) opt_timestep_shape0)) (contact_efc_address_in tid0 tid1)
            (if tid1 > 0 then Scalar.lit 0 0 else dist_in tid0 - includemargin_in tid0)
            (dist_in tid0 - includemargin_in tid0)
            (ellipticInvweight opt_impratio_invsqrt body_invweight0 geom_bodyid worldid_in geom_in friction_in
              opt_impratio_invsqrt_shape0 body_invweight0_shape0 tid0 tid1)
            (ellipticRef solref_in solreffriction_in tid0 tid1) (solimp_in tid0) (includemargin_in tid0)
            (efc_Jqvel_in (worldid_in tid0) (contact_efc_address_in tid0 tid1)) (Scalar.lit 0 0)
            (if condim_in tid0 = 1 then 5 else 7) tid0
            efc_type_out efc_id_out efc_pos_out efc_margin_out efc_D_out efc_vel_out efc_aref_out efc_frictionloss_out) := by
  subst hflg
  unfold Gen.Constraint._efc_contact_update__kernel ellipticInvweight ellipticRef tranWeight efcRowRenaming
  have e1 : decide (tid0 ≥ nacon_in 0) = false := by simp; omega
  have e2 : (!(decide (Mjw.iand (type_in tid0) 1 ≠ 0))) = false := by simp [hty]
  have e3 : decide (tid1 > condim_in tid0 - 1) = false := by simp; omega
  have e5 : decide (contact_efc_address_in tid0 tid1 < 0) = false := by simp; omega
  simp only [e1, e2, e3, e5, Bool.false_eq_true, if_false, if_true, List.nil_append]
  by_cases h0 : tid1 > 0
  · by_cases h1 : tid1 > 1 <;> by_cases hc1 : condim_in tid0 = 1 <;> simp [h0, h1, hc1]
  · have h1 : ¬ tid1 > 1 := by omega
    by_cases hc1 : condim_in tid0 = 1 <;> simp [h0, h1, hc1]

/-- a thread outside the contact list, of a non-constraint contact, of a dimension the contact does not have, or
    whose row did not fit (`efc_address < 0`) writes nothing -/
theorem update_skips
    (h : tid0 ≥ nacon_in 0 ∨ Mjw.iand (type_in tid0) 1 = 0
      ∨ (st_IS_ELLIPTIC = true ∧ tid1 > condim_in tid0 - 1)
      ∨ (st_IS_ELLIPTIC = false ∧ ((condim_in tid0 = 1 ∧ tid1 > 0) ∨ (condim_in tid0 > 1 ∧ tid1 ≥ 2 * (condim_in tid0 - 1))))
      ∨ contact_efc_address_in tid0 tid1 < 0) :
    KW st_IS_ELLIPTIC opt_timestep_shape0 opt_impratio_invsqrt_shape0 body_invweight0_shape0 st_flg_adhesion tid0 tid1 = [] := by
  unfold Gen.Constraint._efc_contact_update__kernel
  by_cases c1 : tid0 ≥ nacon_in 0
  · simp [c1]
  by_cases c2 : Mjw.iand (type_in tid0) 1 = 0
  · simp [c1, c2]
  by_cases c5 : contact_efc_address_in tid0 tid1 < 0
  · cases st_IS_ELLIPTIC <;> simp [c1, c2, c5]
  rcases h with h | h | ⟨he, h⟩ | ⟨he, h⟩ | h
  · exact absurd h c1
  · exact absurd h c2
  · subst he; simp [c1, c2, h]
  · subst he
    rcases h with ⟨a, b⟩ | ⟨a, b⟩
    · simp [c1, c2, a, b]
    · have : ¬ condim_in tid0 = 1 := by omega
      simp [c1, c2, a, b, this]
  · exact absurd h c5
end update
end Mjw.Lemmas.C05
