/-
  Named quantities used in the statements of Props/C20 (contact geometry) and auxiliary lemmas about
  them.  The definitions below are plain ℝ-valued abbreviations (segment parameter, cylinder-frame
  coordinates, box-frame centre, nearest-face scan …) so that the property theorems stay readable; every
  property theorem in Props/C20 is stated about the `Mjw.Gen.*` functions themselves.
-/
import MjwVerif.Lemmas.C20
import MjwVerif.Gen.Math
import MjwVerif.Gen.Collision_primitive_core

namespace Mjw.Props.C20
open Mjw Mjw.Gen.Math Mjw.Gen.Collision_primitive_core Mjw.C20L

/-- core fact: a unit `u` and a vector `w ⟂ u`, `w ≠ 0`: `normalize w` and `u × normalize w` complete
    `u` to a right-handed orthonormal triple. -/
theorem triple_of_perp {u w : V3 ℝ} (hu : V3.dot u u = 1) (hw : 0 < V3.length w) (huw : V3.dot u w = 0) :
    let b := V3.normalize w
    let c := V3.cross u b
    V3.dot b b = 1 ∧ V3.dot c c = 1 ∧ V3.dot u b = 0 ∧ V3.dot u c = 0 ∧ V3.dot b c = 0 := by
  intro b c
  have hb : V3.dot b b = 1 := normalize_unit hw
  have hub : V3.dot u b = 0 := by
    show V3.dot u (V3.normalize w) = 0
    rw [normalize_of_pos hw, dot_divs_right, huw, zero_div]
  refine ⟨hb, ?_, hub, cross_dot_left u b, cross_dot_right u b⟩
  show V3.dot (V3.cross u b) (V3.cross u b) = 1
  rw [cross_dot_self, hu, hb, hub]; ring

/-- the Gram–Schmidt seed chosen by `orthogonals`' `wp.where` -/
noncomputable def seed (u : V3 ℝ) : V3 ℝ :=
  if -(1/2) < u.c1 ∧ u.c1 < 1/2 then ⟨0, 1, 0⟩ else ⟨0, 0, 1⟩

/-- what `orthogonals` computes for a unit vector (both branches of the `wp.where`) -/
theorem orthogonals_eq (u : V3 ℝ) (hu : V3.dot u u = 1) :
    orthogonals u =
      (V3.normalize (V3.sub (seed u) (V3.muls u (V3.dot u (seed u)))),
       V3.cross u (V3.normalize (V3.sub (seed u) (V3.muls u (V3.dot u (seed u)))))) := by
  have hl : V3.length u = 1 := length_of_dot_one hu
  unfold orthogonals seed
  simp only [hl, Bool.and_eq_true, slt, sbeq, slit]
  norm_num

theorem seed_residual (u : V3 ℝ) (hu : V3.dot u u = 1) :
    0 < V3.length (V3.sub (seed u) (V3.muls u (V3.dot u (seed u)))) ∧
    V3.dot u (V3.sub (seed u) (V3.muls u (V3.dot u (seed u)))) = 0 := by
  rw [length_pos_iff]
  rw [dot_def] at hu
  unfold seed
  split_ifs with h
  · simp only [dot_def, V3.sub, V3.muls, hsub, hmul]
    constructor
    · nlinarith [h.1, h.2, mul_self_nonneg u.c0, mul_self_nonneg u.c2]
    · linear_combination (-u.c1) * hu
  · simp only [dot_def, V3.sub, V3.muls, hsub, hmul]
    have h1 : 1/4 ≤ u.c1 * u.c1 := by
      by_cases h' : -(1/2) < u.c1
      · have : 1/2 ≤ u.c1 := not_lt.mp (fun h2 => h ⟨h', h2⟩)
        nlinarith
      · have : u.c1 ≤ -(1/2) := not_lt.mp h'
        nlinarith
    constructor
    · nlinarith [mul_self_nonneg u.c0, mul_self_nonneg u.c2]
    · linear_combination (-u.c2) * hu

theorem orthogonals_unit (u : V3 ℝ) (hu : V3.dot u u = 1) :
    let b := (orthogonals u).1
    let c := (orthogonals u).2
    V3.dot b b = 1 ∧ V3.dot c c = 1 ∧ V3.dot u b = 0 ∧ V3.dot u c = 0 ∧ V3.dot b c = 0 ∧ c = V3.cross u b := by
  rw [orthogonals_eq u hu]
  obtain ⟨h1, h2⟩ := seed_residual u hu
  obtain ⟨a1, a2, a3, a4, a5⟩ := triple_of_perp hu h1 h2
  exact ⟨a1, a2, a3, a4, a5, rfl⟩

theorem make_frame_eq (a : V3 ℝ) :
    make_frame a = M33.fromRows (V3.normalize a) (orthogonals (V3.normalize a)).1 (orthogonals (V3.normalize a)).2 := by
  rfl

/-- the regulariser in `closest_segment_point`'s denominator -/
noncomputable def segEps : ℝ := 1 / 1000000

/-- the segment parameter the code actually uses: clamp( (pt-a)·(b-a) / (|b-a|² + 1e-6), 0, 1 ) -/
noncomputable def segParam (a b pt : V3 ℝ) : ℝ :=
  min (max 0 (V3.dot (V3.sub pt a) (V3.sub b a) / (V3.dot (V3.sub b a) (V3.sub b a) + segEps))) 1

/-- the exact closest-point parameter: clamp( (pt-a)·(b-a) / |b-a|², 0, 1 ) -/
noncomputable def segParamIdeal (a b pt : V3 ℝ) : ℝ :=
  min (max 0 (V3.dot (V3.sub pt a) (V3.sub b a) / V3.dot (V3.sub b a) (V3.sub b a))) 1

/-- S·Rᵀ·n : the plane normal pulled back to the ellipsoid's unit-sphere coordinates -/
noncomputable def ellW (n : V3 ℝ) (R : M33 ℝ) (sz : V3 ℝ) : V3 ℝ :=
  V3.cwmul (M33.mulVec (M33.transpose R) n) sz

/-- the ellipsoid's surface/interior points: e + R (S z), |z| ≤ 1 -/
noncomputable def ellPoint (e : V3 ℝ) (R : M33 ℝ) (sz z : V3 ℝ) : V3 ℝ :=
  V3.add e (M33.mulVec R (V3.cwmul z sz))

theorem ellPoint_height (n p e : V3 ℝ) (R : M33 ℝ) (sz z : V3 ℝ) :
    V3.dot n (V3.sub (ellPoint e R sz z) p) = V3.dot n (V3.sub e p) + V3.dot (ellW n R sz) z := by
  have h1 : V3.dot n (V3.sub (ellPoint e R sz z) p)
      = V3.dot n (V3.sub e p) + V3.dot n (M33.mulVec R (V3.cwmul z sz)) := by
    unfold ellPoint
    simp only [dot_def, V3.sub, V3.add, hadd, hsub]; ring
  rw [h1, dot_mulVec]
  unfold ellW
  simp only [dot_def, V3.cwmul, hmul]; ring

/-- axial coordinate of the sphere centre in the cylinder frame -/
noncomputable def cylX (s c ax : V3 ℝ) : ℝ := V3.dot (V3.sub s c) ax
/-- radial offset of the sphere centre from the cylinder axis -/
noncomputable def cylP (s c ax : V3 ℝ) : V3 ℝ := V3.sub (V3.sub s c) (V3.muls ax (cylX s c ax))

/-- the flat-cap result: plane–sphere against the cap plane, normal flipped to point sphere → cylinder -/
noncomputable def capResult (s : V3 ℝ) (r : ℝ) (c ax : V3 ℝ) (h : ℝ) : ℝ × V3 ℝ × V3 ℝ :=
  if 0 < cylX s c ax then
    ((plane_sphere ax (V3.add c (V3.muls ax h)) s r).1, (plane_sphere ax (V3.add c (V3.muls ax h)) s r).2, V3.neg ax)
  else
    ((plane_sphere (V3.neg ax) (V3.sub c (V3.muls ax h)) s r).1,
     (plane_sphere (V3.neg ax) (V3.sub c (V3.muls ax h)) s r).2, V3.neg (V3.neg ax))

/-- the rim point used in the corner regime -/
noncomputable def rimPoint (s c ax : V3 ℝ) (R h : ℝ) : V3 ℝ :=
  V3.add (V3.add c (V3.muls ax (Scalar.sign (cylX s c ax) * h)))
    (V3.muls (cylP s c ax) (R * safe_div_F_F 1 (Real.sqrt (V3.dot (cylP s c ax) (cylP s c ax)))))

theorem cylP_perp (s c ax : V3 ℝ) (hax : V3.dot ax ax = 1) : V3.dot (cylP s c ax) ax = 0 := by
  unfold cylP cylX
  rw [dot_def] at hax
  simp only [dot_def, V3.sub, V3.muls, hsub, hmul]
  linear_combination (-((s.c0 - c.c0) * ax.c0 + (s.c1 - c.c1) * ax.c1 + (s.c2 - c.c2) * ax.c2)) * hax

theorem cyl_axis_point_sub (s c ax : V3 ℝ) :
    V3.sub (V3.add c (V3.muls ax (cylX s c ax))) s = V3.neg (cylP s c ax) := by
  unfold cylP
  apply V3.ext' <;> simp only [V3.sub, V3.add, V3.neg, V3.muls, hadd, hsub, hmul, hneg] <;> ring

theorem safe_div_one_of_ne {y : ℝ} (hy : y ≠ 0) : safe_div_F_F (1:ℝ) y = 1 / y := by
  unfold safe_div_F_F
  have e : Scalar.bne y (Scalar.lit 0 0) = true := (sbne _ _).mpr (by simpa using hy)
  simp only [e, if_true, hdiv]

/-- sphere centre in the box frame -/
noncomputable def boxCenter (s bp : V3 ℝ) (R : M33 ℝ) : V3 ℝ := M33.mulVec (M33.transpose R) (V3.sub s bp)
/-- closest point of the (solid) box to the sphere centre, box frame -/
noncomputable def boxClamped (s bp : V3 ℝ) (R : M33 ℝ) (sz : V3 ℝ) : V3 ℝ :=
  V3.vmax (V3.neg sz) (V3.vmin sz (boxCenter s bp R))

/-- `MJ_MINVAL` -/
noncomputable def minval : ℝ := 1 / 1000000000000000

/-- the axis vector written by `nearest[k // 2] = where(k % 2, -1, 1)` -/
noncomputable def faceAxis (k : Int) : V3 ℝ :=
  V3.set (V3.fill 0) (Int.tdiv k 2) (if Int.tmod k 2 ≠ 0 then -1 else 1)

/-- one step of the nearest-face scan: `if closest > face_dist: closest, k = face_dist, i` -/
noncomputable def boxStep (p : ℝ × Int) (fd : ℝ) (i : Int) : ℝ × Int :=
  if fd < p.1 then (fd, i) else (p.1, p.2)

/-- the six face distances |±size_j − center_j| in the order the code visits them -/
noncomputable def faceDist (sz c : V3 ℝ) (i : Int) : ℝ :=
  if i = 0 then |-sz.c0 - c.c0| else if i = 1 then |sz.c0 - c.c0|
  else if i = 2 then |-sz.c1 - c.c1| else if i = 3 then |sz.c1 - c.c1|
  else if i = 4 then |-sz.c2 - c.c2| else |sz.c2 - c.c2|

/-- the scan over the six faces, starting from (2(s0+s1+s2), 0) -/
noncomputable def boxScan (sz c : V3 ℝ) : ℝ × Int :=
  boxStep (boxStep (boxStep (boxStep (boxStep (boxStep (2 * (sz.c0 + sz.c1 + sz.c2), 0)
    (faceDist sz c 0) 0) (faceDist sz c 1) 1) (faceDist sz c 2) 2) (faceDist sz c 3) 3)
    (faceDist sz c 4) 4) (faceDist sz c 5) 5

theorem faceAxis_unit (k : Int) : V3.dot (faceAxis k) (faceAxis k) = 1 := by
  unfold faceAxis V3.set V3.fill
  split_ifs <;> simp [dot_def]

theorem boxStep_fst (p : ℝ × Int) (fd : ℝ) (i : Int) : (boxStep p fd i).1 = min p.1 fd := by
  unfold boxStep
  split_ifs with h
  · exact (min_eq_right h.le).symm
  · exact (min_eq_left (not_lt.mp h)).symm

/-- the scan returns the minimum of the start value 2(s0+s1+s2) and the six face distances -/
theorem boxScan_fst (sz c : V3 ℝ) :
    (boxScan sz c).1 =
      min (min (min (min (min (min (2 * (sz.c0 + sz.c1 + sz.c2)) (faceDist sz c 0)) (faceDist sz c 1))
        (faceDist sz c 2)) (faceDist sz c 3)) (faceDist sz c 4)) (faceDist sz c 5) := by
  unfold boxScan
  simp only [boxStep_fst]

theorem boxStep_inv (sz c : V3 ℝ) (p : ℝ × Int) (i : Int) (hi : 0 ≤ i ∧ i ≤ 5)
    (hp : (0 ≤ p.2 ∧ p.2 ≤ 5) ∧ p.1 = faceDist sz c p.2) :
    (0 ≤ (boxStep p (faceDist sz c i) i).2 ∧ (boxStep p (faceDist sz c i) i).2 ≤ 5) ∧
      (boxStep p (faceDist sz c i) i).1 = faceDist sz c (boxStep p (faceDist sz c i) i).2 := by
  unfold boxStep
  split_ifs
  · exact ⟨hi, rfl⟩
  · exact hp

/-- if the first face already beats the start value (always the case for a centre inside a box with
    positive sizes), the scan returns a genuine face: closest = faceDist k, 0 ≤ k ≤ 5. -/
theorem boxScan_face (sz c : V3 ℝ) (h0 : faceDist sz c 0 < 2 * (sz.c0 + sz.c1 + sz.c2)) :
    (0 ≤ (boxScan sz c).2 ∧ (boxScan sz c).2 ≤ 5) ∧ (boxScan sz c).1 = faceDist sz c (boxScan sz c).2 := by
  unfold boxScan
  have s0 : (0 ≤ (boxStep (2 * (sz.c0 + sz.c1 + sz.c2), 0) (faceDist sz c 0) 0).2 ∧
      (boxStep (2 * (sz.c0 + sz.c1 + sz.c2), 0) (faceDist sz c 0) 0).2 ≤ 5) ∧
      (boxStep (2 * (sz.c0 + sz.c1 + sz.c2), 0) (faceDist sz c 0) 0).1 =
        faceDist sz c (boxStep (2 * (sz.c0 + sz.c1 + sz.c2), 0) (faceDist sz c 0) 0).2 := by
    unfold boxStep
    rw [if_pos h0]
    exact ⟨⟨le_refl _, by norm_num⟩, rfl⟩
  exact boxStep_inv sz c _ 5 (by norm_num) (boxStep_inv sz c _ 4 (by norm_num) (boxStep_inv sz c _ 3 (by norm_num)
    (boxStep_inv sz c _ 2 (by norm_num) (boxStep_inv sz c _ 1 (by norm_num) s0))))

end Mjw.Props.C20
