/-
  Helper lemmas for C30 (history / delay buffers, `Gen/History.lean` vs `Model/History.lean`), at `K = ℝ`.
   A index arithmetic (`phys`, `ishr_one`)            B write lists on one array (`applyWrites_snoc`)
   C `Inv`, bisection loop, `find_index_spec`          D `_history_insert_scalar`: write list by cases
     (`insert_scalar_cases`), shift loop (`shift_inv`), post-states `post_exact/oldest/advance/middle`
   E lists (`tab`, `spec_insert_tab`)                  F `insert_post`, `insert_inv`, `insert_refines_list`
   G `_history_read_scalar` (`readF`, `read_refines_list`)     H sequences (`insert_seq`)
   I end to end (`runCtrl`, `run_inv`, `run_read`)     J meaning of the read (`read_zoh`, `read_linear`)
   K concrete buffers for the witness                  L kernels, renaming      M vector variants, `dim = 1`
   N `init_ctrl_history(times=None)`                   O kernel-level run
  `shiftBody` is the only transcription of generated code; `insert_scalar_cases` proves it equal to the
  generated term by `rfl`, so a regenerated `Gen/History.lean` re-checks it.
-/
import MjwVerif.Lemmas.Real
import MjwVerif.Model.History
import MjwVerif.Gen.History

set_option linter.unusedSimpArgs false
set_option linter.unusedVariables false
set_option linter.unnecessarySeqFocus false

namespace Mjw.Lemmas.C30
open Mjw Mjw.Hist

/-! ### A. index arithmetic -/

/-- `>> 1` on int32 is halving for `0 ≤ x < 2^31` -/
theorem ishr_one (x : Int) (h0 : 0 ≤ x) (h1 : x < 2 ^ 31) : Mjw.ishr x 1 = x / 2 := by
  unfold Mjw.ishr
  rw [BitVec.toInt_sshiftRight, BitVec.toInt_ofInt, Int.bmod_eq_of_le (by omega) (by omega)]
  simp [Int.shiftRight_eq_div_pow]

theorem phys_eq_ite (c n l : Int) (hc0 : 0 ≤ c) (hc : c < n) (hl0 : 0 ≤ l) (hl : l < n) :
    phys c n l = if c + 1 + l < n then c + 1 + l else c + 1 + l - n := by
  unfold phys
  split_ifs with h
  · exact Int.emod_eq_of_lt (by omega) h
  · rw [Int.emod_eq_sub_self_emod]; exact Int.emod_eq_of_lt (by omega) (by omega)

/-- the generated `_history_physical_index` (C `%`) is `phys` (mathematical mod) on non-negative operands -/
theorem gphys_eq {K : Type} [Scalar K] (c n l : Int) (hc0 : 0 ≤ c) (hl0 : 0 ≤ l) :
    Gen.History._history_physical_index (K := K) c n l = phys c n l := by
  unfold Gen.History._history_physical_index phys
  exact Int.tmod_eq_emod_of_nonneg (by omega)

theorem phys_range (c n l : Int) (hc0 : 0 ≤ c) (hc : c < n) (hl0 : 0 ≤ l) (hl : l < n) :
    0 ≤ phys c n l ∧ phys c n l < n := by
  rw [phys_eq_ite c n l hc0 hc hl0 hl]; split_ifs <;> omega

theorem phys_inj (c n l l' : Int) (hc0 : 0 ≤ c) (hc : c < n) (hl0 : 0 ≤ l) (hl : l < n)
    (hl0' : 0 ≤ l') (hl' : l' < n) (h : phys c n l = phys c n l') : l = l' := by
  rw [phys_eq_ite c n l hc0 hc hl0 hl, phys_eq_ite c n l' hc0 hc hl0' hl'] at h
  split_ifs at h <;> omega

/-- every physical slot is the image of exactly one logical index -/
theorem phys_surj (c n p : Int) (hc0 : 0 ≤ c) (hc : c < n) (hp0 : 0 ≤ p) (hp : p < n) :
    ∃ l, 0 ≤ l ∧ l < n ∧ phys c n l = p := by
  by_cases h : c + 1 ≤ p
  · refine ⟨p - c - 1, by omega, by omega, ?_⟩
    rw [phys_eq_ite c n _ hc0 hc (by omega) (by omega)]; split_ifs <;> omega
  · refine ⟨p + n - c - 1, by omega, by omega, ?_⟩
    rw [phys_eq_ite c n _ hc0 hc (by omega) (by omega)]; split_ifs <;> omega

/-- newest sample sits at the cursor -/
theorem phys_newest (c n : Int) (hc0 : 0 ≤ c) (hc : c < n) : phys c n (n - 1) = c := by
  rw [phys_eq_ite c n _ hc0 hc (by omega) (by omega)]; split_ifs <;> omega

/-- advancing the cursor rotates the logical view by one -/
theorem phys_advance (c n l : Int) (hc0 : 0 ≤ c) (hc : c < n) (hl0 : 0 ≤ l) (hl : l < n) :
    phys ((c + 1) % n) n l = if l < n - 1 then phys c n (l + 1) else phys c n 0 := by
  have hc' : (c + 1) % n = if c + 1 < n then c + 1 else 0 := by
    split_ifs with h
    · exact Int.emod_eq_of_lt (by omega) h
    · have : c + 1 = n := by omega
      rw [this]; exact Int.emod_self
  have h0 : 0 ≤ (c + 1) % n := by rw [hc']; split_ifs <;> omega
  have h1 : (c + 1) % n < n := by rw [hc']; split_ifs <;> omega
  rw [phys_eq_ite _ n l h0 h1 hl0 hl]
  split_ifs with h2 h3 h3
  · rw [phys_eq_ite c n _ hc0 hc (by omega) (by omega), hc']; split_ifs <;> omega
  · rw [phys_eq_ite c n _ hc0 hc (by omega) (by omega), hc']; split_ifs <;> omega
  · rw [phys_eq_ite c n _ hc0 hc (by omega) (by omega), hc']; split_ifs <;> omega
  · rw [phys_eq_ite c n _ hc0 hc (by omega) (by omega), hc']; split_ifs <;> omega

theorem advance_cursor (c n : Int) (hc0 : 0 ≤ c) (hc : c < n) :
    (c + 1) % n = phys c n 0 ∧ 0 ≤ (c + 1) % n ∧ (c + 1) % n < n := by
  have : phys c n 0 = (c + 1) % n := by unfold phys; simp
  rw [← this]
  exact ⟨rfl, phys_range c n 0 hc0 hc (by omega) (by omega)⟩

theorem toInt_ofInt (c : Int) : Scalar.toInt (Scalar.ofInt c : ℝ) = c := by
  show (if (0 : ℝ) ≤ (c : ℝ) then ⌊(c : ℝ)⌋ else ⌈(c : ℝ)⌉) = c
  split_ifs <;> simp

theorem eps_real : (eps : ℝ) = 1 / 1000000 := by
  unfold eps; rw [slit]; norm_num

/-! ### B. write lists on one array -/

section writes
variable {K : Type} [Scalar K]

theorem lookupF_snoc_set (ws : List (Write K)) (arr : String) (idx idx' : List Int) (x d : K) :
    Write.lookupF (ws ++ [Write.mk arr idx' (WVal.f x) WKind.set]) arr idx d
      = if idx' = idx then x else Write.lookupF ws arr idx d := by
  unfold Write.lookupF
  rw [List.foldl_append]
  simp

theorem applyWrites_nil (arr : String) (a : Int → Int → K) : applyWrites arr [] a = a := rfl

theorem applyWrites_snoc (arr : String) (ws : List (Write K)) (a : Int → Int → K) (w' k' : Int) (x : K)
    (w k : Int) :
    applyWrites arr (ws ++ [Write.mk arr [w', k'] (WVal.f x) WKind.set]) a w k
      = if w' = w ∧ k' = k then x else applyWrites arr ws a w k := by
  unfold applyWrites
  rw [lookupF_snoc_set]
  simp

theorem applyWrites_one (arr : String) (a : Int → Int → K) (w' k' : Int) (x : K) (w k : Int) :
    applyWrites arr [Write.mk arr [w', k'] (WVal.f x) WKind.set] a w k
      = if w' = w ∧ k' = k then x else a w k := by
  have := applyWrites_snoc arr [] a w' k' x w k
  rw [applyWrites_nil] at this
  simpa using this

end writes

/-! ### C. the invariant and the binary search -/

/-- the buffer invariant: `n ≥ 1`, cursor in range, logical times strictly increasing -/
structure Inv (buf : Int → Int → ℝ) (w off n : Int) : Prop where
  npos : 1 ≤ n
  cur0 : 0 ≤ cursorOf buf w off
  curn : cursorOf buf w off < n
  mono : ∀ i j, 0 ≤ i → i < j → j < n → ltime buf w off n i < ltime buf w off n j

theorem Inv.le {buf : Int → Int → ℝ} {w off n : Int} (h : Inv buf w off n) (i j : Int) (hi : 0 ≤ i)
    (hij : i ≤ j) (hj : j < n) : ltime buf w off n i ≤ ltime buf w off n j := by
  rcases Int.lt_or_eq_of_le hij with h' | h'
  · exact le_of_lt (h.mono i j hi h' hj)
  · subst h'; exact le_refl _

/-- generic bisection loop: with `P m` = "time m < t", `P lo`, `¬ P hi`, the loop ends (within
    `fuel` iterations if `hi - lo ≤ 2^fuel`) with `hi = lo + 1`, `P lo`, `¬ P hi` -/
theorem bisect_loop (P : Int → Prop) (c : Int × Int → Bool) (b : Int × Int → Int × Int) (N : Int)
    (hc : ∀ lo hi, c (lo, hi) = decide (hi - lo > 1))
    (hb : ∀ lo hi, 0 ≤ lo → lo < hi → hi ≤ N → hi - lo > 1 →
      (P ((lo + hi) / 2) → b (lo, hi) = ((lo + hi) / 2, hi)) ∧
      (¬ P ((lo + hi) / 2) → b (lo, hi) = (lo, (lo + hi) / 2))) :
    ∀ (f : Nat) (lo hi : Int), 0 ≤ lo → lo < hi → hi ≤ N → hi - lo ≤ 2 ^ f → P lo → ¬ P hi →
      let r := Mjw.whileFuel f c b (lo, hi)
      0 ≤ r.1 ∧ r.2 = r.1 + 1 ∧ r.2 ≤ N ∧ P r.1 ∧ ¬ P r.2 ∧ c r = false := by
  intro f
  induction f with
  | zero =>
    intro lo hi h0 hlt hN hd hPlo hPhi
    have : hi = lo + 1 := by
      have : (2 : Int) ^ 0 = 1 := by norm_num
      omega
    simp only [Mjw.whileFuel]
    refine ⟨h0, this, hN, hPlo, hPhi, ?_⟩
    rw [hc]; simp; omega
  | succ f ih =>
    intro lo hi h0 hlt hN hd hPlo hPhi
    simp only [Mjw.whileFuel]
    by_cases hgt : hi - lo > 1
    · have hcT : c (lo, hi) = true := by rw [hc]; simpa using hgt
      rw [if_pos hcT]
      have hpow : (2 : Int) ^ (f + 1) = 2 * 2 ^ f := by rw [pow_succ]; ring
      rw [hpow] at hd
      obtain ⟨hb1, hb2⟩ := hb lo hi h0 hlt hN hgt
      by_cases hm : P ((lo + hi) / 2)
      · rw [hb1 hm]
        exact ih _ _ (by omega) (by omega) hN (by omega) hm hPhi
      · rw [hb2 hm]
        exact ih _ _ h0 (by omega) (by omega) (by omega) hPlo hm
    · have hcF : c (lo, hi) = false := by rw [hc]; simpa using hgt
      rw [hcF]
      simp only [Bool.false_eq_true, if_false]
      exact ⟨h0, by omega, hN, hPlo, hPhi, hcF⟩

theorem bisect_find (T : Int → ℝ) (t : ℝ) (n : Int) (c : Int × Int → Bool) (b : Int × Int → Int × Int)
    (hc : ∀ lo hi, c (lo, hi) = decide (hi - lo > 1))
    (hb : ∀ lo hi, 0 ≤ lo → lo < hi → hi ≤ n - 1 → hi - lo > 1 →
      (T ((lo + hi) / 2) < t → b (lo, hi) = ((lo + hi) / 2, hi)) ∧
      (¬ T ((lo + hi) / 2) < t → b (lo, hi) = (lo, (lo + hi) / 2)))
    (hmono : ∀ i j, 0 ≤ i → i ≤ j → j < n → T i ≤ T j)
    (f : Nat) (hf : n - 1 ≤ 2 ^ f) (hn2 : 2 ≤ n) (h1 : T 0 < t) (h2 : t ≤ T (n - 1)) :
    0 ≤ (Mjw.whileFuel f c b (0, n - 1)).2 ∧ (Mjw.whileFuel f c b (0, n - 1)).2 ≤ n
    ∧ (∀ j, 0 ≤ j → j < (Mjw.whileFuel f c b (0, n - 1)).2 → T j < t)
    ∧ (∀ j, (Mjw.whileFuel f c b (0, n - 1)).2 ≤ j → j < n → t ≤ T j) := by
  obtain ⟨r1, r2, r3, r4, r5, -⟩ := bisect_loop (fun m => T m < t) c b (n - 1) hc hb f 0 (n - 1)
    (le_refl _) (by omega) (le_refl _) (by simpa using hf) h1 (not_lt.mpr h2)
  refine ⟨by omega, by omega, fun j a b => ?_, fun j a b => ?_⟩
  · exact lt_of_le_of_lt (hmono j _ a (by omega) (by omega)) r4
  · exact le_trans (not_lt.mp r5) (hmono _ j (by omega) a b)

theorem find_index_spec (buf : Int → Int → ℝ) (w off n : Int) (t : ℝ) (fuel : Nat)
    (hI : Inv buf w off n) (hn32 : n ≤ 2 ^ 30) (hfuel : n - 1 ≤ 2 ^ fuel) :
    0 ≤ Gen.History._history_find_index buf w off n (cursorOf buf w off) t fuel
    ∧ Gen.History._history_find_index buf w off n (cursorOf buf w off) t fuel ≤ n
    ∧ (∀ j, 0 ≤ j → j < Gen.History._history_find_index buf w off n (cursorOf buf w off) t fuel →
        ltime buf w off n j < t)
    ∧ (∀ j, Gen.History._history_find_index buf w off n (cursorOf buf w off) t fuel ≤ j → j < n →
        t ≤ ltime buf w off n j) := by
  have hn := hI.npos
  have hT : ∀ l, 0 ≤ l → l < n →
      buf w (off + 2 + Gen.History._history_physical_index (K := ℝ) (cursorOf buf w off) n l)
        = ltime buf w off n l := by
    intro l h0 _; rw [gphys_eq _ _ _ hI.cur0 h0]; rfl
  unfold Gen.History._history_find_index
  simp only [hT 0 (le_refl _) (by omega), hT (n - 1) (by omega) (by omega), sle, sgt]
  split_ifs with h1 h2
  · refine ⟨le_refl _, by omega, fun j a b => by omega, fun j a b => le_trans h1 (hI.le 0 j (le_refl _) a b)⟩
  · refine ⟨by omega, le_refl _, fun j a b => lt_of_le_of_lt (hI.le j (n-1) a (by omega) (by omega)) h2, fun j a b => by omega⟩
  · rw [not_le] at h1
    rw [not_lt] at h2
    have hn2 : 2 ≤ n := by
      by_contra hc
      have : n = 1 := by omega
      subst this
      simp at h1 h2
      linarith
    refine bisect_find (ltime buf w off n) t n _ _ ?_ ?_ (fun i j a b c => hI.le i j a b c) fuel hfuel hn2 h1 h2
    · intro lo hi; rfl
    · intro lo hi h0 hlt hhi hgt
      have hs : Mjw.ishr (lo + hi) 1 = (lo + hi) / 2 := ishr_one _ (by omega) (by omega)
      simp only [hs, hT ((lo + hi) / 2) (by omega) (by omega), slt]
      constructor
      · intro h; simp [h]
      · intro h; simp [h]

/-! ### D. `_history_insert_scalar` -/


theorem lookupF_nil {K : Type} [Scalar K] (arr : String) (idx : List Int) (d : K) :
    Write.lookupF ([] : List (Write K)) arr idx d = d := rfl

theorem lookupF_eq_apply {K : Type} [Scalar K] (ws : List (Write K)) (arr : String) (a : Int → Int → K) (w k : Int) :
    Write.lookupF ws arr [w, k] (a w k) = applyWrites arr ws a w k := rfl

/-- body of the shift loop of the out-of-order case, as generated -/
noncomputable def shiftBody (buf : Int → Int → ℝ) (w off n c : Int) (j : Int) (st : List (Write ℝ)) :
    List (Write ℝ) :=
  let ws := st
  let src_phys : Int := (Mjw.Gen.History._history_physical_index (K := ℝ) c n (j + (1 : Int)))
  let dst_phys : Int := (Mjw.Gen.History._history_physical_index (K := ℝ) c n j)
  let ws : List (Write ℝ) := ws ++ [(Write.mk "buf_out" [w, ((off + 2) + dst_phys)] (WVal.f (Write.lookupF ws "buf_out" [w, ((off + 2) + src_phys)] (buf w ((off + 2) + src_phys)))) WKind.set : Write ℝ)]
  let ws : List (Write ℝ) := ws ++ [(Write.mk "buf_out" [w, (((off + 2) + n) + dst_phys)] (WVal.f (Write.lookupF ws "buf_out" [w, (((off + 2) + n) + src_phys)] (buf w (((off + 2) + n) + src_phys)))) WKind.set : Write ℝ)]
  ws

noncomputable def shiftWs (buf : Int → Int → ℝ) (w off n c : Int) (k : Nat) : List (Write ℝ) :=
  (List.range k).foldl (fun s (j : Nat) => shiftBody buf w off n c (0 + Int.ofNat j) s) []

theorem shiftWs_succ (buf : Int → Int → ℝ) (w off n c : Int) (k : Nat) :
    shiftWs buf w off n c (k + 1) = shiftBody buf w off n c (k : Int) (shiftWs buf w off n c k) := by
  unfold shiftWs
  rw [List.range_succ, List.foldl_append]
  simp

theorem shift_inv (buf : Int → Int → ℝ) (w off n c : Int) (hc0 : 0 ≤ c) (hc : c < n) :
    ∀ k : Nat, (k : Int) ≤ n - 1 →
      (∀ l, 0 ≤ l → l < n → applyWrites "buf_out" (shiftWs buf w off n c k) buf w (off + 2 + phys c n l)
          = if l < k then buf w (off + 2 + phys c n (l + 1)) else buf w (off + 2 + phys c n l))
      ∧ (∀ l, 0 ≤ l → l < n → applyWrites "buf_out" (shiftWs buf w off n c k) buf w (off + 2 + n + phys c n l)
          = if l < k then buf w (off + 2 + n + phys c n (l + 1)) else buf w (off + 2 + n + phys c n l))
      ∧ (∀ w' x, (w' ≠ w ∨ x < off + 2 ∨ off + 2 + 2 * n ≤ x) →
          applyWrites "buf_out" (shiftWs buf w off n c k) buf w' x = buf w' x) := by
  intro k
  induction k with
  | zero =>
    intro _
    refine ⟨fun l h0 h1 => ?_, fun l h0 h1 => ?_, fun w' x _ => rfl⟩
    · rw [if_neg (by omega)]; rfl
    · rw [if_neg (by omega)]; rfl
  | succ k ih =>
    intro hk
    push_cast at hk
    obtain ⟨iha, ihb, ihc⟩ := ih (by omega)
    have hk0 : (0 : Int) ≤ k := Int.natCast_nonneg k
    have rk := phys_range c n k hc0 hc hk0 (by omega)
    have rk1 := phys_range c n (k + 1) hc0 hc (by omega) (by omega)
    have key : ∀ w' x, applyWrites "buf_out" (shiftWs buf w off n c (k + 1)) buf w' x
        = if w = w' ∧ off + 2 + n + phys c n k = x then buf w (off + 2 + n + phys c n (k + 1))
          else if w = w' ∧ off + 2 + phys c n k = x then buf w (off + 2 + phys c n (k + 1))
          else applyWrites "buf_out" (shiftWs buf w off n c k) buf w' x := by
      intro w' x
      rw [shiftWs_succ]
      unfold shiftBody
      simp only [gphys_eq c n _ hc0 hk0, gphys_eq c n (k + 1) hc0 (by omega), lookupF_eq_apply]
      rw [applyWrites_snoc, applyWrites_snoc, applyWrites_snoc]
      have e1 := iha (k + 1) (by omega) (by omega)
      have e2 := ihb (k + 1) (by omega) (by omega)
      rw [if_neg (by omega)] at e1 e2
      rw [e1]
      rw [if_neg (by omega : ¬ (w = w ∧ off + 2 + phys c n k = off + 2 + n + phys c n (k + 1)))]
      rw [e2]
    refine ⟨fun l h0 h1 => ?_, fun l h0 h1 => ?_, fun w' x hx => ?_⟩
    · have rl := phys_range c n l hc0 hc h0 h1
      rw [key, if_neg (by omega)]
      by_cases hlk : l = k
      · subst hlk; rw [if_pos ⟨rfl, rfl⟩, if_pos (by push_cast; omega)]
      · have : phys c n k ≠ phys c n l := fun h => hlk (phys_inj c n k l hc0 hc hk0 (by omega) h0 h1 h).symm
        rw [if_neg (by omega), iha l h0 h1]
        by_cases h : l < k
        · rw [if_pos h, if_pos (by push_cast; omega)]
        · rw [if_neg h, if_neg (by push_cast; omega)]
    · have rl := phys_range c n l hc0 hc h0 h1
      rw [key]
      by_cases hlk : l = k
      · subst hlk; rw [if_pos ⟨rfl, rfl⟩, if_pos (by push_cast; omega)]
      · have : phys c n k ≠ phys c n l := fun h => hlk (phys_inj c n k l hc0 hc hk0 (by omega) h0 h1 h).symm
        rw [if_neg (by omega), if_neg (by omega), ihb l h0 h1]
        by_cases h : l < k
        · rw [if_pos h, if_pos (by push_cast; omega)]
        · rw [if_neg h, if_neg (by push_cast; omega)]
    · rw [key, if_neg (by omega), if_neg (by omega), ihc w' x hx]


/-- `set` write of a float to `buf_out[w, k]` -/
def W (w k : Int) (x : ℝ) : Write ℝ := Write.mk "buf_out" [w, k] (WVal.f x) WKind.set

/-- the write list of `_history_insert_scalar`, case by case (no hypothesis) -/
theorem insert_scalar_cases (buf : Int → Int → ℝ) (w off n : Int) (t v : ℝ) (fuel : Nat) (c i : Int)
    (hcur : cursorOf buf w off = c)
    (hi : Gen.History._history_find_index buf w off n c t fuel = i) :
    Gen.History._history_insert_scalar w off n t v buf fuel =
      (if i < n ∧ |t - buf w (off + 2 + Gen.History._history_physical_index (K := ℝ) c n i)| < (eps : ℝ) then
         [W w (off + 2 + n + Gen.History._history_physical_index (K := ℝ) c n i) v]
       else if i = 0 then
         [W w (off + 2 + Gen.History._history_physical_index (K := ℝ) c n 0) t,
          W w (off + 2 + n + Gen.History._history_physical_index (K := ℝ) c n 0) v]
       else if i = n then
         [W w (off + 1) ((Int.tmod (c + 1) n : Int) : ℝ), W w (off + 2 + Int.tmod (c + 1) n) t,
          W w (off + 2 + n + Int.tmod (c + 1) n) v]
       else Mjw.forRange 0 (i - 1) [] (shiftBody buf w off n c)
          ++ [W w (off + 2 + Gen.History._history_physical_index (K := ℝ) c n (i - 1)) t]
          ++ [W w (off + 2 + n + Gen.History._history_physical_index (K := ℝ) c n (i - 1)) v]) := by
  unfold Gen.History._history_insert_scalar
  dsimp only
  unfold cursorOf at hcur
  simp only [lookupF_nil, hcur, hi, decide_eq_true_eq, slt, sabs, hsub, eps, List.nil_append, sofInt]
  by_cases h1 : i < n
  · by_cases h2 : |t - buf w (off + 2 + Gen.History._history_physical_index (K := ℝ) c n i)| < Scalar.lit 1 (-6)
    · simp only [eq_true h1, eq_true h2, and_self, if_true]; rfl
    · by_cases h3 : i = 0
      · simp only [eq_true h1, eq_false h2, eq_true h3, and_false, if_false, if_true]; rfl
      · by_cases h4 : i = n
        · simp only [eq_true h1, eq_false h2, eq_false h3, eq_true h4, and_false, if_false, if_true]; rfl
        · simp only [eq_true h1, eq_false h2, eq_false h3, eq_false h4, and_false, if_false, if_true]; rfl
  · by_cases h3 : i = 0
    · simp only [eq_false h1, eq_true h3, false_and, if_false, if_true]; rfl
    · by_cases h4 : i = n
      · simp only [eq_false h1, eq_false h3, eq_true h4, false_and, if_false, if_true]; rfl
      · simp only [eq_false h1, eq_false h3, eq_false h4, false_and, if_false, if_true]; rfl



theorem toInt_cast (c : Int) : Scalar.toInt ((c : Int) : ℝ) = c := toInt_ofInt c

theorem applyW_snoc (ws : List (Write ℝ)) (a : Int → Int → ℝ) (w' k' : Int) (x : ℝ) (w k : Int) :
    applyWrites "buf_out" (ws ++ [W w' k' x]) a w k
      = if w' = w ∧ k' = k then x else applyWrites "buf_out" ws a w k := applyWrites_snoc _ _ _ _ _ _ _ _

theorem applyW_1 (a : Int → Int → ℝ) (w1 k1 : Int) (x1 : ℝ) (w k : Int) :
    applyWrites "buf_out" [W w1 k1 x1] a w k = if w1 = w ∧ k1 = k then x1 else a w k :=
  applyWrites_one _ _ _ _ _ _ _

theorem applyW_2 (a : Int → Int → ℝ) (w1 k1 : Int) (x1 : ℝ) (w2 k2 : Int) (x2 : ℝ) (w k : Int) :
    applyWrites "buf_out" [W w1 k1 x1, W w2 k2 x2] a w k
      = if w2 = w ∧ k2 = k then x2 else if w1 = w ∧ k1 = k then x1 else a w k := by
  change applyWrites "buf_out" ([W w1 k1 x1] ++ [W w2 k2 x2]) a w k = _
  rw [applyW_snoc, applyW_1]

theorem applyW_3 (a : Int → Int → ℝ) (w1 k1 : Int) (x1 : ℝ) (w2 k2 : Int) (x2 : ℝ) (w3 k3 : Int) (x3 : ℝ)
    (w k : Int) :
    applyWrites "buf_out" [W w1 k1 x1, W w2 k2 x2, W w3 k3 x3] a w k
      = if w3 = w ∧ k3 = k then x3 else if w2 = w ∧ k2 = k then x2 else if w1 = w ∧ k1 = k then x1 else a w k := by
  change applyWrites "buf_out" ([W w1 k1 x1, W w2 k2 x2] ++ [W w3 k3 x3]) a w k = _
  rw [applyW_snoc, applyW_2]

/-- pointwise form of `Spec.insert` on the logical time function; `i` = result of the search,
    `ex` = "exact match" -/
noncomputable def insT (i : Int) (ex : Prop) [Decidable ex] (T : Int → ℝ) (t : ℝ) (l : Int) : ℝ :=
  if ex then T l
  else if i = 0 then (if l = 0 then t else T l)
  else if l < i - 1 then T (l + 1) else if l = i - 1 then t else T l

/-- pointwise form of `Spec.insert` on the logical value function -/
noncomputable def insV (i : Int) (ex : Prop) [Decidable ex] (V : Int → ℝ) (v : ℝ) (l : Int) : ℝ :=
  if ex then (if l = i then v else V l)
  else if i = 0 then (if l = 0 then v else V l)
  else if l < i - 1 then V (l + 1) else if l = i - 1 then v else V l

section post
variable (buf : Int → Int → ℝ) (w off n : Int) (t v : ℝ) (fuel : Nat)

/-- buffer after one `_history_insert_scalar` -/
noncomputable def ins : Int → Int → ℝ :=
  step (fun b => Gen.History._history_insert_scalar w off n t v b fuel) buf

theorem ins_def : ins buf w off n t v fuel
    = applyWrites "buf_out" (Gen.History._history_insert_scalar w off n t v buf fuel) buf := rfl

variable {buf w off n t v fuel}

theorem ltime_of_cursor {b' : Int → Int → ℝ} {c : Int} (h : cursorOf b' w off = c) (l : Int) :
    ltime b' w off n l = b' w (off + 2 + phys c n l) := by unfold ltime; rw [h]
theorem lval_of_cursor {b' : Int → Int → ℝ} {c : Int} (h : cursorOf b' w off = c) (l : Int) :
    lval b' w off n l = b' w (off + 2 + n + phys c n l) := by unfold lval; rw [h]

/-- case 1: exact match -/
theorem post_exact (hI : Inv buf w off n) (i : Int)
    (hi : Gen.History._history_find_index buf w off n (cursorOf buf w off) t fuel = i)
    (hi0 : 0 ≤ i) (hin : i < n) (hex : |t - ltime buf w off n i| < (eps : ℝ)) :
    cursorOf (ins buf w off n t v fuel) w off = cursorOf buf w off
    ∧ (∀ l, 0 ≤ l → l < n → ltime (ins buf w off n t v fuel) w off n l = ltime buf w off n l
        ∧ lval (ins buf w off n t v fuel) w off n l = if l = i then v else lval buf w off n l)
    ∧ (∀ w' x, (w' ≠ w ∨ x < off + 2 ∨ off + 2 + 2 * n ≤ x) → ins buf w off n t v fuel w' x = buf w' x) := by
  have hn := hI.npos
  have hc0 := hI.cur0
  have hc := hI.curn
  have ri := phys_range _ n i hc0 hc hi0 hin
  have hb : ∀ w' x, ins buf w off n t v fuel w' x
      = if w = w' ∧ off + 2 + n + phys (cursorOf buf w off) n i = x then v else buf w' x := by
    intro w' x
    rw [ins_def, insert_scalar_cases buf w off n t v fuel _ i rfl hi]
    simp only [gphys_eq _ n i hc0 hi0]
    rw [if_pos ⟨hin, hex⟩, applyW_1]
  have hcur : cursorOf (ins buf w off n t v fuel) w off = cursorOf buf w off := by
    unfold cursorOf; rw [hb, if_neg (by omega)]
  refine ⟨hcur, fun l h0 h1 => ?_, fun w' x hx => ?_⟩
  · have rl := phys_range _ n l hc0 hc h0 h1
    rw [ltime_of_cursor hcur, lval_of_cursor hcur, hb, hb, if_neg (by omega)]
    refine ⟨rfl, ?_⟩
    by_cases hli : l = i
    · subst hli; rw [if_pos ⟨rfl, rfl⟩, if_pos rfl]
    · have : phys (cursorOf buf w off) n i ≠ phys (cursorOf buf w off) n l :=
        fun h => hli (phys_inj _ n i l hc0 hc hi0 hin h0 h1 h).symm
      rw [if_neg (by omega), if_neg hli]; rfl
  · rw [hb, if_neg (by omega)]

/-- case 2: older than the oldest, no exact match: the oldest sample is replaced -/
theorem post_oldest (hI : Inv buf w off n)
    (hi : Gen.History._history_find_index buf w off n (cursorOf buf w off) t fuel = 0)
    (hex : ¬ |t - ltime buf w off n 0| < (eps : ℝ)) :
    cursorOf (ins buf w off n t v fuel) w off = cursorOf buf w off
    ∧ (∀ l, 0 ≤ l → l < n →
        ltime (ins buf w off n t v fuel) w off n l = (if l = 0 then t else ltime buf w off n l)
        ∧ lval (ins buf w off n t v fuel) w off n l = if l = 0 then v else lval buf w off n l)
    ∧ (∀ w' x, (w' ≠ w ∨ x < off + 2 ∨ off + 2 + 2 * n ≤ x) → ins buf w off n t v fuel w' x = buf w' x) := by
  have hn := hI.npos
  have hc0 := hI.cur0
  have hc := hI.curn
  have ri := phys_range _ n 0 hc0 hc (le_refl _) (by omega)
  have hb : ∀ w' x, ins buf w off n t v fuel w' x
      = if w = w' ∧ off + 2 + n + phys (cursorOf buf w off) n 0 = x then v
        else if w = w' ∧ off + 2 + phys (cursorOf buf w off) n 0 = x then t else buf w' x := by
    intro w' x
    rw [ins_def, insert_scalar_cases buf w off n t v fuel _ 0 rfl hi]
    simp only [gphys_eq _ n 0 hc0 (le_refl _)]
    rw [if_neg (fun h => hex h.2)]
    simp only [if_true, applyW_2]
  have hcur : cursorOf (ins buf w off n t v fuel) w off = cursorOf buf w off := by
    unfold cursorOf; rw [hb, if_neg (by omega), if_neg (by omega)]
  refine ⟨hcur, fun l h0 h1 => ?_, fun w' x hx => ?_⟩
  · have rl := phys_range _ n l hc0 hc h0 h1
    rw [ltime_of_cursor hcur, lval_of_cursor hcur, hb, hb]
    have hinj : phys (cursorOf buf w off) n 0 = phys (cursorOf buf w off) n l → l = 0 :=
      fun h => (phys_inj _ n 0 l hc0 hc (le_refl _) (by omega) h0 h1 h).symm
    by_cases hl0 : l = 0
    · subst hl0; simp; intro h; exfalso; omega
    · refine ⟨?_, ?_⟩ <;> (split_ifs <;> first | rfl | (exfalso; omega))
  · rw [hb, if_neg (by omega), if_neg (by omega)]

/-- case 3: newer than the newest: the cursor advances, the oldest sample is evicted -/
theorem post_advance (hI : Inv buf w off n)
    (hi : Gen.History._history_find_index buf w off n (cursorOf buf w off) t fuel = n) :
    cursorOf (ins buf w off n t v fuel) w off = (cursorOf buf w off + 1) % n
    ∧ (∀ l, 0 ≤ l → l < n →
        ltime (ins buf w off n t v fuel) w off n l = (if l < n - 1 then ltime buf w off n (l + 1) else t)
        ∧ lval (ins buf w off n t v fuel) w off n l = if l < n - 1 then lval buf w off n (l + 1) else v)
    ∧ (∀ w' x, (w' ≠ w ∨ x < off + 1 ∨ off + 2 + 2 * n ≤ x) → ins buf w off n t v fuel w' x = buf w' x) := by
  have hn := hI.npos
  have hc0 := hI.cur0
  have hc := hI.curn
  obtain ⟨a1, a2, a3⟩ := advance_cursor _ n hc0 hc
  have r0 := phys_range _ n 0 hc0 hc (le_refl _) (by omega)
  have htm : Int.tmod (cursorOf buf w off + 1) n = (cursorOf buf w off + 1) % n :=
    Int.tmod_eq_emod_of_nonneg (by omega)
  have hb : ∀ w' x, ins buf w off n t v fuel w' x
      = if w = w' ∧ off + 2 + n + phys (cursorOf buf w off) n 0 = x then v
        else if w = w' ∧ off + 2 + phys (cursorOf buf w off) n 0 = x then t
        else if w = w' ∧ off + 1 = x then (((cursorOf buf w off + 1) % n : Int) : ℝ) else buf w' x := by
    intro w' x
    rw [ins_def, insert_scalar_cases buf w off n t v fuel _ n rfl hi]
    rw [if_neg (fun h => lt_irrefl _ h.1), if_neg (by omega)]
    simp only [if_true, applyW_3, htm]
    rw [← a1]
  have hcur : cursorOf (ins buf w off n t v fuel) w off = (cursorOf buf w off + 1) % n := by
    unfold cursorOf; rw [hb, if_neg (by omega), if_neg (by omega), if_pos ⟨rfl, rfl⟩]
    exact toInt_cast _
  refine ⟨hcur, fun l h0 h1 => ?_, fun w' x hx => ?_⟩
  · rw [ltime_of_cursor hcur, lval_of_cursor hcur, phys_advance _ n l hc0 hc h0 h1, hb, hb]
    have rl := phys_range _ n (l + 1) hc0 hc (by omega)
    have hinj : l < n - 1 → phys (cursorOf buf w off) n 0 ≠ phys (cursorOf buf w off) n (l + 1) :=
      fun hl h => by have := phys_inj _ n 0 (l + 1) hc0 hc (le_refl _) (by omega) (by omega) (by omega) h; omega
    by_cases hl : l < n - 1
    · have rl' := rl (by omega)
      have hinj' := hinj hl
      simp only [if_pos hl]
      refine ⟨?_, ?_⟩ <;> (split_ifs <;> first | rfl | (exfalso; omega))
    · simp only [if_neg hl]
      refine ⟨?_, ?_⟩ <;> (split_ifs <;> first | rfl | (exfalso; omega) | (exfalso; tauto))
  · rw [hb, if_neg (by omega), if_neg (by omega), if_neg (by omega)]

theorem forRange_shift (i : Int) :
    Mjw.forRange 0 (i - 1) [] (shiftBody buf w off n (cursorOf buf w off))
      = shiftWs buf w off n (cursorOf buf w off) (i - 1).toNat := by
  unfold Mjw.forRange shiftWs
  simp

/-- case 4: out of order (strictly between two samples, no exact match): the oldest sample is evicted,
    samples `1..i-1` move down by one, the new sample becomes logical `i-1` -/
theorem post_middle (hI : Inv buf w off n) (i : Int)
    (hi : Gen.History._history_find_index buf w off n (cursorOf buf w off) t fuel = i)
    (hi1 : 1 ≤ i) (hin : i < n) (hex : ¬ |t - ltime buf w off n i| < (eps : ℝ)) :
    cursorOf (ins buf w off n t v fuel) w off = cursorOf buf w off
    ∧ (∀ l, 0 ≤ l → l < n →
        ltime (ins buf w off n t v fuel) w off n l
          = (if l < i - 1 then ltime buf w off n (l + 1) else if l = i - 1 then t else ltime buf w off n l)
        ∧ lval (ins buf w off n t v fuel) w off n l
          = if l < i - 1 then lval buf w off n (l + 1) else if l = i - 1 then v else lval buf w off n l)
    ∧ (∀ w' x, (w' ≠ w ∨ x < off + 2 ∨ off + 2 + 2 * n ≤ x) → ins buf w off n t v fuel w' x = buf w' x) := by
  have hn := hI.npos
  have hc0 := hI.cur0
  have hc := hI.curn
  have ri := phys_range _ n (i - 1) hc0 hc (by omega) (by omega)
  obtain ⟨sa, sb, sc⟩ := shift_inv buf w off n _ hc0 hc (i - 1).toNat (by omega)
  have hk : (((i - 1).toNat : Nat) : Int) = i - 1 := Int.toNat_of_nonneg (by omega)
  rw [hk] at sa sb
  have hb : ∀ w' x, ins buf w off n t v fuel w' x
      = if w = w' ∧ off + 2 + n + phys (cursorOf buf w off) n (i - 1) = x then v
        else if w = w' ∧ off + 2 + phys (cursorOf buf w off) n (i - 1) = x then t
        else applyWrites "buf_out" (shiftWs buf w off n (cursorOf buf w off) (i - 1).toNat) buf w' x := by
    intro w' x
    rw [ins_def, insert_scalar_cases buf w off n t v fuel _ i rfl hi]
    simp only [gphys_eq _ n i hc0 (by omega), gphys_eq _ n (i - 1) hc0 (by omega)]
    rw [if_neg (fun h => hex h.2), if_neg (by omega), if_neg (by omega), forRange_shift, applyW_snoc,
      applyW_snoc]
  have hcur : cursorOf (ins buf w off n t v fuel) w off = cursorOf buf w off := by
    unfold cursorOf; rw [hb, if_neg (by omega), if_neg (by omega), sc w (off + 1) (by omega)]
  refine ⟨hcur, fun l h0 h1 => ?_, fun w' x hx => ?_⟩
  · have rl := phys_range _ n l hc0 hc h0 h1
    rw [ltime_of_cursor hcur, lval_of_cursor hcur, hb, hb, sa l h0 h1, sb l h0 h1]
    by_cases hli : l = i - 1
    · subst hli; simp; intro h; exfalso; omega
    · have hinj : phys (cursorOf buf w off) n (i - 1) ≠ phys (cursorOf buf w off) n l :=
        fun h => hli (phys_inj _ n (i - 1) l hc0 hc (by omega) (by omega) h0 h1 h).symm
      refine ⟨?_, ?_⟩ <;> (split_ifs <;> first | rfl | (exfalso; omega))
  · rw [hb, if_neg (by omega), if_neg (by omega), sc w' x hx]

end post


/-! ### E. lists -/

/-- list of `(T j, V j)`, `j = 0..N-1` -/
def tab (N : Nat) (T V : Int → ℝ) : List (ℝ × ℝ) := (List.range N).map (fun (j : Nat) => (T j, V j))

theorem tab_length (N : Nat) (T V : Int → ℝ) : (tab N T V).length = N := by simp [tab]

theorem tab_getElem (N : Nat) (T V : Int → ℝ) (j : Nat) (h : j < (tab N T V).length) :
    (tab N T V)[j] = (T j, V j) := by simp [tab]

theorem nth_tab (N : Nat) (T V : Int → ℝ) (j : Nat) (h : j < N) : nth (tab N T V) j = (T j, V j) := by
  unfold nth
  rw [List.getD_eq_getElem?_getD, List.getElem?_eq_getElem (by rw [tab_length]; exact h)]
  simp [tab]

theorem tab_congr (N : Nat) (T V T' V' : Int → ℝ)
    (h : ∀ l : Int, 0 ≤ l → l < N → T l = T' l ∧ V l = V' l) : tab N T V = tab N T' V' := by
  unfold tab
  apply List.map_congr_left
  intro j hj
  have := h j (by omega) (by simpa using hj)
  rw [this.1, this.2]

theorem logical_eq_tab (buf : Int → Int → ℝ) (w off n : Int) :
    logical buf w off n = tab n.toNat (ltime buf w off n) (lval buf w off n) := rfl

theorem sle_false (a b : ℝ) : Scalar.le a b = false ↔ b < a := by
  rw [← not_le, ← sle a b]
  cases Scalar.le a b <;> simp

theorem findIdx_tab (N : Nat) (T V : Int → ℝ) (t : ℝ) (I : Nat) (hI : I ≤ N)
    (hlt : ∀ j : Nat, j < I → T j < t) (hge : I < N → t ≤ T I) :
    Spec.findIdx (tab N T V) t = I := by
  unfold Spec.findIdx
  rcases Nat.lt_or_ge I N with h | h
  · rw [List.findIdx_eq (by rw [tab_length]; exact h)]
    refine ⟨?_, fun j hj => ?_⟩
    · rw [tab_getElem]; simpa using hge h
    · rw [tab_getElem]; exact (sle_false _ _).mpr (hlt j hj)
  · have : I = N := by omega
    subst this
    have := List.findIdx_eq_length_of_false (p := fun p : ℝ × ℝ => Scalar.le t p.1) (xs := tab I T V) ?_
    · rw [this, tab_length]
    · intro x hx
      obtain ⟨j, hj, rfl⟩ := List.getElem_of_mem hx
      rw [tab_getElem]
      rw [tab_length] at hj
      exact (sle_false _ _).mpr (hlt j hj)


theorem shape_getElem? {α : Type} (L : List α) (I : Nat) (x : α) (hI : 1 ≤ I) (hIN : I ≤ L.length) (j : Nat) :
    ((L.drop 1).take (I - 1) ++ x :: L.drop I)[j]?
      = if j + 1 < I then L[j + 1]? else if j + 1 = I then some x else L[j]? := by
  have hlen : ((L.drop 1).take (I - 1)).length = I - 1 := by
    rw [List.length_take, List.length_drop]; omega
  rw [List.getElem?_append, hlen]
  by_cases h1 : j + 1 < I
  · rw [if_pos (by omega), if_pos h1, List.getElem?_take, if_pos (by omega), List.getElem?_drop, Nat.add_comm]
  · rw [if_neg (by omega), if_neg h1]
    by_cases h2 : j + 1 = I
    · rw [if_pos h2]
      have : j - (I - 1) = 0 := by omega
      rw [this]; rfl
    · rw [if_neg h2]
      have : j - (I - 1) = (j - I) + 1 := by omega
      rw [this, List.getElem?_cons_succ, List.getElem?_drop]
      congr 1; omega

theorem tab_getElem? (N : Nat) (T V : Int → ℝ) (j : Nat) :
    (tab N T V)[j]? = if j < N then some (T j, V j) else none := by
  split_ifs with h
  · rw [List.getElem?_eq_getElem (by rw [tab_length]; exact h), tab_getElem]
  · rw [List.getElem?_eq_none (by rw [tab_length]; omega)]

/-- `Spec.insert` on a tabulated list, pointwise (`insT`/`insV`) -/
theorem spec_insert_tab (N : Nat) (T V : Int → ℝ) (t v : ℝ) (I : Nat) (hN : 1 ≤ N) (hI : I ≤ N)
    (hfi : Spec.findIdx (tab N T V) t = I) :
    Spec.insert (tab N T V) t v
      = tab N (insT I ((I : Int) < N ∧ |t - T I| < (eps : ℝ)) T t)
              (insV I ((I : Int) < N ∧ |t - T I| < (eps : ℝ)) V v) := by
  unfold Spec.insert
  simp only [hfi, tab_length]
  apply List.ext_getElem?
  intro j
  rw [tab_getElem?]
  by_cases hex : (I : Int) < N ∧ |t - T I| < (eps : ℝ)
  · have hIN : I < N := by omega
    have hc : I < N ∧ Scalar.lt (Scalar.abs (t - (nth (tab N T V) I).1)) (eps : ℝ) = true := by
      refine ⟨hIN, ?_⟩
      rw [nth_tab N T V I hIN]; simpa using hex.2
    rw [if_pos hc, nth_tab N T V I hIN, List.getElem?_set, tab_length, tab_getElem?]
    unfold insT insV
    rw [if_pos hex, if_pos hex]
    by_cases hj : I = j
    · subst hj; simp [hIN]
    · have : ¬ ((j : Int) = I) := by omega
      rw [if_neg hj, if_neg this]
  · have hc : ¬ (I < N ∧ Scalar.lt (Scalar.abs (t - (nth (tab N T V) I).1)) (eps : ℝ) = true) := by
      rintro ⟨h1, h2⟩
      rw [nth_tab N T V I h1] at h2
      exact hex ⟨by omega, by simpa using h2⟩
    rw [if_neg hc]
    unfold insT insV
    rw [if_neg hex, if_neg hex]
    by_cases h0 : I = 0
    · rw [if_pos h0, List.getElem?_set, tab_length, tab_getElem?]
      have : ((I : Int) = 0) := by omega
      rw [if_pos this, if_pos this]
      by_cases hj : 0 = j
      · subst hj; simp
      · have : ¬ ((j : Int) = 0) := by omega
        rw [if_neg hj, if_neg this, if_neg this]
    · have hI0 : ¬ ((I : Int) = 0) := by omega
      rw [if_neg h0, if_neg hI0, if_neg hI0]
      have e : (if I = N then List.drop 1 (tab N T V) ++ [(t, v)]
            else (List.drop 1 (tab N T V)).take (I - 1) ++ (t, v) :: (tab N T V).drop I)
          = (List.drop 1 (tab N T V)).take (I - 1) ++ (t, v) :: (tab N T V).drop I := by
        split_ifs with hn
        · have e1 : (List.drop 1 (tab N T V)).take (N - 1) = List.drop 1 (tab N T V) :=
            List.take_of_length_le (by rw [List.length_drop, tab_length])
          have e2 : (tab N T V).drop N = [] := List.drop_of_length_le (by rw [tab_length])
          rw [hn, e1, e2]
        · rfl
      rw [e, shape_getElem? _ I _ (by omega) (by rw [tab_length]; exact hI), tab_getElem?, tab_getElem?]
      by_cases h1 : j + 1 < I
      · have : (j : Int) < I - 1 := by omega
        rw [if_pos h1, if_pos (by omega), if_pos (by omega), if_pos this, if_pos this]
        push_cast; rfl
      · have n1 : ¬ (j : Int) < I - 1 := by omega
        rw [if_neg h1, if_neg n1, if_neg n1]
        by_cases h2 : j + 1 = I
        · have : (j : Int) = I - 1 := by omega
          rw [if_pos h2, if_pos this, if_pos this, if_pos (by omega)]
        · have : ¬ (j : Int) = I - 1 := by omega
          rw [if_neg h2, if_neg this, if_neg this]



/-! ### F. all cases together -/
section combined
variable {buf : Int → Int → ℝ} {w off n : Int} {t v : ℝ} {fuel : Nat}

/-- the state after `_history_insert_scalar`, all four cases, on the logical functions -/
theorem insert_post (hI : Inv buf w off n) (hn32 : n ≤ 2 ^ 30) (hfuel : n - 1 ≤ 2 ^ fuel) (i : Int)
    (hi : Gen.History._history_find_index buf w off n (cursorOf buf w off) t fuel = i) :
    (0 ≤ cursorOf (ins buf w off n t v fuel) w off ∧ cursorOf (ins buf w off n t v fuel) w off < n)
    ∧ (∀ l, 0 ≤ l → l < n →
        ltime (ins buf w off n t v fuel) w off n l
          = insT i (i < n ∧ |t - ltime buf w off n i| < (eps : ℝ)) (ltime buf w off n) t l
        ∧ lval (ins buf w off n t v fuel) w off n l
          = insV i (i < n ∧ |t - ltime buf w off n i| < (eps : ℝ)) (lval buf w off n) v l)
    ∧ (∀ w' x, (w' ≠ w ∨ x < off + 1 ∨ off + 2 + 2 * n ≤ x) → ins buf w off n t v fuel w' x = buf w' x) := by
  have hn := hI.npos
  obtain ⟨f0, fn, -, -⟩ := find_index_spec buf w off n t fuel hI hn32 hfuel
  rw [hi] at f0 fn
  by_cases hex : i < n ∧ |t - ltime buf w off n i| < (eps : ℝ)
  · obtain ⟨p1, p2, p3⟩ := post_exact (v := v) hI i hi f0 hex.1 hex.2
    refine ⟨by rw [p1]; exact ⟨hI.cur0, hI.curn⟩, fun l h0 h1 => ?_, fun w' x hx => p3 w' x (by omega)⟩
    obtain ⟨q1, q2⟩ := p2 l h0 h1
    unfold insT insV
    rw [if_pos hex, if_pos hex]
    exact ⟨q1, q2⟩
  · by_cases hi0 : i = 0
    · subst hi0
      obtain ⟨p1, p2, p3⟩ := post_oldest (v := v) hI hi (fun h => hex ⟨by omega, h⟩)
      refine ⟨by rw [p1]; exact ⟨hI.cur0, hI.curn⟩, fun l h0 h1 => ?_, fun w' x hx => p3 w' x (by omega)⟩
      obtain ⟨q1, q2⟩ := p2 l h0 h1
      unfold insT insV
      rw [if_neg hex, if_neg hex, if_pos rfl, if_pos rfl]
      exact ⟨q1, q2⟩
    · by_cases hin : i = n
      · subst hin
        obtain ⟨p1, p2, p3⟩ := post_advance (v := v) hI hi
        obtain ⟨-, a2, a3⟩ := advance_cursor _ i hI.cur0 hI.curn
        refine ⟨by rw [p1]; exact ⟨a2, a3⟩, fun l h0 h1 => ?_, fun w' x hx => p3 w' x hx⟩
        obtain ⟨q1, q2⟩ := p2 l h0 h1
        unfold insT insV
        rw [if_neg hex, if_neg hex, if_neg hi0, if_neg hi0, q1, q2]
        refine ⟨?_, ?_⟩ <;> (split_ifs <;> first | rfl | (exfalso; omega))
      · obtain ⟨p1, p2, p3⟩ := post_middle (v := v) hI i hi (by omega) (by omega) (fun h => hex ⟨by omega, h⟩)
        refine ⟨by rw [p1]; exact ⟨hI.cur0, hI.curn⟩, fun l h0 h1 => ?_, fun w' x hx => p3 w' x (by omega)⟩
        obtain ⟨q1, q2⟩ := p2 l h0 h1
        unfold insT insV
        rw [if_neg hex, if_neg hex, if_neg hi0, if_neg hi0]
        exact ⟨q1, q2⟩

/-- the pointwise insert keeps the times strictly increasing -/
theorem insT_mono (T : Int → ℝ) (n i : Int) (t : ℝ) (hi0 : 0 ≤ i) (hin : i ≤ n)
    (mono : ∀ a b, 0 ≤ a → a < b → b < n → T a < T b)
    (hlt : ∀ j, 0 ≤ j → j < i → T j < t) (hge : ∀ j, i ≤ j → j < n → t ≤ T j) (e : ℝ) (he : 0 < e) :
    ∀ a b, 0 ≤ a → a < b → b < n →
      insT i (i < n ∧ |t - T i| < e) T t a < insT i (i < n ∧ |t - T i| < e) T t b := by
  intro a b ha hab hb
  unfold insT
  by_cases hex : i < n ∧ |t - T i| < e
  · rw [if_pos hex, if_pos hex]; exact mono a b ha hab hb
  · rw [if_neg hex, if_neg hex]
    have hstrict : i < n → t < T i := by
      intro h
      have h1 := hge i (le_refl _) h
      have h2 : ¬ |t - T i| < e := fun h' => hex ⟨h, h'⟩
      rw [abs_lt] at h2
      by_contra hc
      have : t = T i := le_antisymm h1 (not_lt.mp hc)
      apply h2; rw [this]; constructor <;> linarith
    by_cases hi : i = 0
    · rw [if_pos hi, if_pos hi]
      subst hi
      by_cases ha0 : a = 0
      · rw [if_pos ha0, if_neg (by omega)]
        have := hstrict (by omega)
        have h2 : T 0 ≤ T b := le_of_lt (mono 0 b (le_refl _) (by omega) hb)
        linarith
      · rw [if_neg ha0, if_neg (by omega)]; exact mono a b ha hab hb
    · rw [if_neg hi, if_neg hi]
      by_cases hb1 : b < i - 1
      · rw [if_pos hb1, if_pos (by omega)]; exact mono _ _ (by omega) (by omega) (by omega)
      · rw [if_neg hb1]
        by_cases hb2 : b = i - 1
        · rw [if_pos hb2, if_pos (by omega)]; exact hlt _ (by omega) (by omega)
        · rw [if_neg hb2]
          by_cases ha1 : a < i - 1
          · rw [if_pos ha1]; exact mono _ _ (by omega) (by omega) hb
          · rw [if_neg ha1]
            by_cases ha2 : a = i - 1
            · rw [if_pos ha2]
              have h1 := hstrict (by omega)
              rcases Int.lt_or_eq_of_le (show i ≤ b by omega) with h | h
              · have := mono i b hi0 h hb; linarith
              · rw [← h]; exact h1
            · rw [if_neg ha2]; exact mono a b ha hab hb

theorem eps_pos : (0 : ℝ) < (eps : ℝ) := by rw [eps_real]; norm_num

/-- **`Inv` is preserved by every insertion** (any time stamp, any case) -/
theorem insert_inv (hI : Inv buf w off n) (hn32 : n ≤ 2 ^ 30) (hfuel : n - 1 ≤ 2 ^ fuel) :
    Inv (ins buf w off n t v fuel) w off n := by
  obtain ⟨f0, fn, flt, fge⟩ := find_index_spec buf w off n t fuel hI hn32 hfuel
  obtain ⟨⟨c0, cn⟩, p2, -⟩ := insert_post (v := v) hI hn32 hfuel _ rfl
  refine ⟨hI.npos, c0, cn, fun a b ha hab hb => ?_⟩
  rw [(p2 a ha (by omega)).1, (p2 b (by omega) hb).1]
  exact insT_mono _ n _ t f0 fn hI.mono flt fge _ eps_pos a b ha hab hb

/-- the search result, on the logical list -/
theorem findIdx_logical (hI : Inv buf w off n) (hn32 : n ≤ 2 ^ 30) (hfuel : n - 1 ≤ 2 ^ fuel) :
    (Spec.findIdx (logical buf w off n) t : Int)
      = Gen.History._history_find_index buf w off n (cursorOf buf w off) t fuel := by
  obtain ⟨f0, fn, flt, fge⟩ := find_index_spec buf w off n t fuel hI hn32 hfuel
  have hn := hI.npos
  rw [logical_eq_tab, findIdx_tab n.toNat _ _ t
    (Gen.History._history_find_index buf w off n (cursorOf buf w off) t fuel).toNat (by omega)
    (fun j hj => flt j (by omega) (by omega)) (fun h => ?_)]
  · omega
  · rw [Int.toNat_of_nonneg f0]; exact fge _ (le_refl _) (by omega)

/-- **refinement**: the logical view after `_history_insert_scalar` is `Spec.insert` of the logical view -/
theorem insert_refines_list (hI : Inv buf w off n) (hn32 : n ≤ 2 ^ 30) (hfuel : n - 1 ≤ 2 ^ fuel) :
    logical (ins buf w off n t v fuel) w off n = Spec.insert (logical buf w off n) t v := by
  obtain ⟨f0, fn, flt, fge⟩ := find_index_spec buf w off n t fuel hI hn32 hfuel
  have hn := hI.npos
  have hfi := findIdx_logical (t := t) hI hn32 hfuel
  obtain ⟨-, p2, -⟩ := insert_post (v := v) hI hn32 hfuel _ rfl
  have hN : ((n.toNat : Nat) : Int) = n := Int.toNat_of_nonneg (by omega)
  rw [logical_eq_tab, logical_eq_tab] at *
  rw [spec_insert_tab n.toNat _ _ t v _ (by omega) (by omega) rfl, hfi, hN]
  exact tab_congr _ _ _ _ _ (fun l h0 h1 => p2 l h0 (by omega))

end combined

/-! ### G. `_history_read_scalar` -/

/-- `_history_read_scalar` / `Spec.read` on the logical functions, `i` = result of the search -/
noncomputable def readF (n : Int) (T V : Int → ℝ) (i : Int) (t : ℝ) (interp : Int) : ℝ :=
  if t ≤ T 0 + (eps : ℝ) then V 0
  else if T (n - 1) - (eps : ℝ) ≤ t then V (n - 1)
  else if |t - T i| < (eps : ℝ) then V i
  else if interp = 0 then V (i - 1)
  else if interp = 1 then V (i - 1) + (t - T (i - 1)) / (T i - T (i - 1)) * (V i - V (i - 1))
  else
    let dt := T i - T (i - 1)
    let a := (t - T (i - 1)) / dt
    let m_lo := if 1 < i then (V i - V (i - 2)) / (T i - T (i - 2)) else 0
    let m_hi := if i < n - 1 then (V (i + 1) - V (i - 1)) / (T (i + 1) - T (i - 1)) else 0
    (2 * (a * a * a) - 3 * (a * a) + 1) * V (i - 1) + (a * a * a - 2 * (a * a) + a) * dt * m_lo
      + (-2 * (a * a * a) + 3 * (a * a)) * V i + (a * a * a - a * a) * dt * m_hi

section read
variable {buf : Int → Int → ℝ} {w off n : Int} {t : ℝ} {fuel : Nat}

theorem read_eq_readF (hI : Inv buf w off n) (hn32 : n ≤ 2 ^ 30) (hfuel : n - 1 ≤ 2 ^ fuel) (interp : Int) :
    Gen.History._history_read_scalar buf w off n t interp fuel
      = readF n (ltime buf w off n) (lval buf w off n)
          (Gen.History._history_find_index buf w off n (cursorOf buf w off) t fuel) t interp := by
  have hn := hI.npos
  have hc0 := hI.cur0
  obtain ⟨f0, fn, flt, fge⟩ := find_index_spec buf w off n t fuel hI hn32 hfuel
  have hT : ∀ l, 0 ≤ l →
      buf w (off + 2 + Gen.History._history_physical_index (K := ℝ) (cursorOf buf w off) n l)
        = ltime buf w off n l := by
    intro l h0; rw [gphys_eq _ _ _ hc0 h0]; rfl
  have hV : ∀ l, 0 ≤ l →
      buf w (off + 2 + n + Gen.History._history_physical_index (K := ℝ) (cursorOf buf w off) n l)
        = lval buf w off n l := by
    intro l h0; rw [gphys_eq _ _ _ hc0 h0]; rfl
  unfold Gen.History._history_read_scalar readF
  dsimp only
  rw [show Scalar.toInt (buf w (off + 1)) = cursorOf buf w off from rfl]
  generalize Gen.History._history_find_index buf w off n (cursorOf buf w off) t fuel = i at *
  simp only [hT 0 (le_refl _), hV 0 (le_refl _), hT (n - 1) (by omega), hV (n - 1) (by omega), sle, sge, eps]
  by_cases h1 : t ≤ ltime buf w off n 0 + Scalar.lit 1 (-6)
  · simp only [eq_true h1, if_true]
  simp only [eq_false h1, if_false]
  by_cases h2 : ltime buf w off n (n - 1) - Scalar.lit 1 (-6) ≤ t
  · simp only [eq_true h2, if_true]
  simp only [eq_false h2, if_false]
  have e6 : (0 : ℝ) < Scalar.lit 1 (-6) := eps_pos
  have hi1 : 1 ≤ i := by
    by_contra hc
    have : i = 0 := by omega
    subst this
    have := fge 0 (le_refl _) (by omega)
    linarith
  simp only [hT i f0, hV i f0, hT (i - 1) (by omega), hV (i - 1) (by omega), slt, sabs, hsub, decide_eq_true_eq]
  by_cases h3 : |t - ltime buf w off n i| < Scalar.lit 1 (-6)
  · simp only [eq_true h3, if_true]
  simp only [eq_false h3, if_false]
  by_cases h4 : interp = 0
  · simp only [eq_true h4, if_true]
  simp only [eq_false h4, if_false]
  by_cases h5 : interp = 1
  · simp only [eq_true h5, if_true, hadd, hmul, hdiv, hsub]
  simp only [eq_false h5, if_false]
  by_cases g1 : 1 < i <;> by_cases g2 : i < n - 1
  · simp only [hT (i - 2) (by omega), hV (i - 2) (by omega), hT (i + 1) (by omega), hV (i + 1) (by omega),
      g1, g2, gt_iff_lt, decide_true, if_true, hadd, hmul, hdiv, hsub, slit]
    norm_num
  · simp only [hT (i - 2) (by omega), hV (i - 2) (by omega),
      g1, g2, gt_iff_lt, decide_true, decide_false, if_true, if_false, hadd, hmul, hdiv, hsub, slit, Bool.false_eq_true]
    norm_num
  · simp only [hT (i + 1) (by omega), hV (i + 1) (by omega),
      g1, g2, gt_iff_lt, decide_true, decide_false, if_true, if_false, hadd, hmul, hdiv, hsub, slit, Bool.false_eq_true]
    norm_num
  · simp only [g1, g2, gt_iff_lt, decide_true, decide_false, if_true, if_false, hadd, hmul, hdiv, hsub, slit, Bool.false_eq_true]
    norm_num

theorem spec_read_tab (N : Nat) (T V : Int → ℝ) (t : ℝ) (interp : Int) (I : Nat) (hN : 1 ≤ N)
    (hfi : Spec.findIdx (tab N T V) t = I) (hI : ¬ (t ≤ T 0 + (eps : ℝ)) → ¬ (T ((N : Int) - 1) - (eps : ℝ) ≤ t) → 1 ≤ I ∧ I < N) :
    Spec.read (tab N T V) t interp = readF N T V I t interp := by
  unfold Spec.read readF
  simp only [tab_length, hfi]
  have c1 : ((N - 1 : Nat) : Int) = (N : Int) - 1 := by omega
  rw [nth_tab N T V 0 (by omega), nth_tab N T V (N - 1) (by omega), c1]
  simp only [sle, sge, Nat.cast_zero]
  by_cases h1 : t ≤ T 0 + (eps : ℝ)
  · simp only [eq_true h1, if_true]
  simp only [eq_false h1, if_false]
  by_cases h2 : T ((N : Int) - 1) - (eps : ℝ) ≤ t
  · simp only [eq_true h2, if_true]
  simp only [eq_false h2, if_false]
  obtain ⟨i1, i2⟩ := hI h1 h2
  have c2 : ((I - 1 : Nat) : Int) = (I : Int) - 1 := by omega
  rw [nth_tab N T V I i2, nth_tab N T V (I - 1) (by omega), c2]
  simp only [slt, sabs, hsub]
  by_cases h3 : |t - T I| < (eps : ℝ)
  · simp only [eq_true h3, if_true]
  simp only [eq_false h3, if_false]
  by_cases h4 : interp = 0
  · simp only [eq_true h4, if_true]
  simp only [eq_false h4, if_false]
  by_cases h5 : interp = 1
  · simp only [eq_true h5, if_true, hadd, hmul, hdiv, hsub]
  simp only [eq_false h5, if_false]
  have c3 : ((I - 2 : Nat) : Int) = (I : Int) - 2 ∨ I ≤ 1 := by omega
  by_cases g1 : 1 < I <;> by_cases g2 : I + 1 < N
  · have g1' : (1 : Int) < I := by omega
    have g2' : (I : Int) < (N : Int) - 1 := by omega
    have c3 : ((I - 2 : Nat) : Int) = (I : Int) - 2 := by omega
    have c4 : ((I + 1 : Nat) : Int) = (I : Int) + 1 := by omega
    rw [nth_tab N T V (I - 2) (by omega), nth_tab N T V (I + 1) (by omega), c3, c4]
    simp only [g1, g2, g1', g2', gt_iff_lt, if_true, hadd, hmul, hdiv, hsub, slit]
    norm_num
  · have g1' : (1 : Int) < I := by omega
    have g2' : ¬ (I : Int) < (N : Int) - 1 := by omega
    have c3 : ((I - 2 : Nat) : Int) = (I : Int) - 2 := by omega
    rw [nth_tab N T V (I - 2) (by omega), c3]
    simp only [g1, g2, g1', g2', gt_iff_lt, if_true, if_false, hadd, hmul, hdiv, hsub, slit]
    norm_num
  · have g1' : ¬ (1 : Int) < I := by omega
    have g2' : (I : Int) < (N : Int) - 1 := by omega
    have c4 : ((I + 1 : Nat) : Int) = (I : Int) + 1 := by omega
    rw [nth_tab N T V (I + 1) (by omega), c4]
    simp only [g1, g2, g1', g2', gt_iff_lt, if_true, if_false, hadd, hmul, hdiv, hsub, slit]
    norm_num
  · have g1' : ¬ (1 : Int) < I := by omega
    have g2' : ¬ (I : Int) < (N : Int) - 1 := by omega
    simp only [g1, g2, g1', g2', gt_iff_lt, if_true, if_false, hadd, hmul, hdiv, hsub, slit]
    norm_num


/-- **refinement of the read**: `_history_read_scalar` is `Spec.read` of the logical view
    (all interpolation modes, including cubic) -/
theorem read_refines_list (hI : Inv buf w off n) (hn32 : n ≤ 2 ^ 30) (hfuel : n - 1 ≤ 2 ^ fuel) (interp : Int) :
    Gen.History._history_read_scalar buf w off n t interp fuel
      = Spec.read (logical buf w off n) t interp := by
  have hn := hI.npos
  obtain ⟨f0, fn, flt, fge⟩ := find_index_spec buf w off n t fuel hI hn32 hfuel
  have hfi := findIdx_logical (t := t) hI hn32 hfuel
  have hN : ((n.toNat : Nat) : Int) = n := Int.toNat_of_nonneg (by omega)
  rw [read_eq_readF hI hn32 hfuel, logical_eq_tab] at *
  rw [spec_read_tab n.toNat _ _ t interp _ (by omega) rfl, hfi, hN]
  intro h1 h2
  rw [hN] at h2
  have e6 : (0 : ℝ) < (eps : ℝ) := eps_pos
  constructor
  · by_contra hc
    have : Gen.History._history_find_index buf w off n (cursorOf buf w off) t fuel = 0 := by omega
    have := fge 0 (by omega) (by omega)
    apply h1; linarith
  · by_contra hc
    have : Gen.History._history_find_index buf w off n (cursorOf buf w off) t fuel = n := by omega
    have := flt (n - 1) (by omega) (by omega)
    apply h2; linarith

end read

/-! ### H. sequences of insertions -/
section seq
variable {buf : Int → Int → ℝ} {w off n : Int} {t v : ℝ} {fuel : Nat}

/-- the search result is determined by its specification -/
theorem find_index_eq (hI : Inv buf w off n) (hn32 : n ≤ 2 ^ 30) (hfuel : n - 1 ≤ 2 ^ fuel) (m : Int)
    (h0 : 0 ≤ m) (hm : m ≤ n) (hlo : 0 < m → ltime buf w off n (m - 1) < t)
    (hhi : m < n → t ≤ ltime buf w off n m) :
    Gen.History._history_find_index buf w off n (cursorOf buf w off) t fuel = m := by
  obtain ⟨f0, fn, flt, fge⟩ := find_index_spec buf w off n t fuel hI hn32 hfuel
  rcases lt_trichotomy (Gen.History._history_find_index buf w off n (cursorOf buf w off) t fuel) m with h | h | h
  · exfalso
    have a := fge _ (le_refl _) (by omega)
    have b := hI.le _ (m - 1) f0 (by omega) (by omega)
    have c := hlo (by omega)
    linarith
  · exact h
  · exfalso
    have a := flt m h0 h
    have b := hhi (by omega)
    linarith

/-- normal per-step case: a sample newer than the newest one is appended, the oldest is evicted -/
theorem spec_insert_newest (L : List (ℝ × ℝ)) (t v : ℝ) (hL : 1 ≤ L.length) (h : Spec.findIdx L t = L.length) :
    Spec.insert L t v = L.drop 1 ++ [(t, v)] := by
  unfold Spec.insert
  simp only [h]
  rw [if_neg (fun hh => lt_irrefl _ hh.1), if_neg (by omega)]
  simp only [if_true]

/-- times of `ss` strictly increasing and all later than `last` -/
def Ascending : ℝ → List (ℝ × ℝ) → Prop
  | _, [] => True
  | last, s :: r => last < s.1 ∧ Ascending s.1 r

/-- buffer after inserting the samples `ss` one after the other -/
noncomputable def insMany (w off n : Int) (fuel : Nat) (buf : Int → Int → ℝ) (ss : List (ℝ × ℝ)) : Int → Int → ℝ :=
  ss.foldl (fun b s => ins b w off n s.1 s.2 fuel) buf

theorem logical_length (buf : Int → Int → ℝ) (w off n : Int) : (logical buf w off n).length = n.toNat := by
  rw [logical_eq_tab, tab_length]

theorem insert_newest (hI : Inv buf w off n) (hn32 : n ≤ 2 ^ 30) (hfuel : n - 1 ≤ 2 ^ fuel)
    (ht : ltime buf w off n (n - 1) < t) :
    logical (ins buf w off n t v fuel) w off n = (logical buf w off n).drop 1 ++ [(t, v)]
    ∧ ltime (ins buf w off n t v fuel) w off n (n - 1) = t := by
  have hn := hI.npos
  have hfi : Gen.History._history_find_index buf w off n (cursorOf buf w off) t fuel = n :=
    find_index_eq hI hn32 hfuel n (by omega) (le_refl _) (fun _ => ht) (fun h => absurd h (lt_irrefl _))
  constructor
  · rw [insert_refines_list hI hn32 hfuel]
    apply spec_insert_newest
    · rw [logical_length]; omega
    · have := findIdx_logical (t := t) hI hn32 hfuel
      rw [hfi] at this
      rw [logical_length]; omega
  · obtain ⟨-, p2, -⟩ := post_advance (v := v) hI hfi
    rw [(p2 (n - 1) (by omega) (by omega)).1, if_neg (by omega)]

theorem insert_seq (hn32 : n ≤ 2 ^ 30) (hfuel : n - 1 ≤ 2 ^ fuel) (ss : List (ℝ × ℝ)) :
    ∀ buf : Int → Int → ℝ, Inv buf w off n → Ascending (ltime buf w off n (n - 1)) ss →
      Inv (insMany w off n fuel buf ss) w off n
      ∧ logical (insMany w off n fuel buf ss) w off n = (logical buf w off n ++ ss).drop ss.length := by
  induction ss with
  | nil => intro buf hI _; exact ⟨hI, by simp [insMany]⟩
  | cons s r ih =>
    intro buf hI hA
    obtain ⟨h1, h2⟩ := hA
    obtain ⟨e1, e2⟩ := insert_newest (v := s.2) hI hn32 hfuel h1
    have hI' : Inv (ins buf w off n s.1 s.2 fuel) w off n := insert_inv hI hn32 hfuel
    obtain ⟨i1, i2⟩ := ih _ hI' (by rw [e2]; exact h2)
    refine ⟨i1, ?_⟩
    show logical (insMany w off n fuel (ins buf w off n s.1 s.2 fuel) r) w off n = _
    rw [i2, e1]
    have hlen : 1 ≤ (logical buf w off n).length := by rw [logical_length]; have := hI.npos; omega
    cases hL : logical buf w off n with
    | nil => rw [hL] at hlen; simp at hlen
    | cons a L' => simp

end seq

/-! ### I. end to end -/
section e2e
variable {w off n : Int} {fuel : Nat}

/-- buffer after `k` simulation steps: step `j` (time `j·dt`) inserts the control `c j` -/
noncomputable def runCtrl (b0 : Int → Int → ℝ) (w off n : Int) (dt : ℝ) (c : Nat → ℝ) (fuel : Nat) :
    Nat → (Int → Int → ℝ)
  | 0 => b0
  | k + 1 => step (fun b => Gen.History._history_insert_scalar w off n ((k : ℝ) * dt) (c k) b fuel)
      (runCtrl b0 w off n dt c fuel k)

/-- the control recorded at (integer) step `z`: `c z` for `z ≥ 0`, the initial value `0` before -/
noncomputable def ctrlAt (c : Nat → ℝ) (z : Int) : ℝ := if 0 ≤ z then c z.toNat else 0

/-- MuJoCo-initialised buffer: cursor `n-1`, `times[p] = (p-n)·dt`, `values[p] = 0` -/
structure MjInit (b0 : Int → Int → ℝ) (w off n : Int) (dt : ℝ) : Prop where
  cursor : cursorOf b0 w off = n - 1
  times : ∀ p, 0 ≤ p → p < n → b0 w (off + 2 + p) = ((p - n : Int) : ℝ) * dt
  values : ∀ p, 0 ≤ p → p < n → b0 w (off + 2 + n + p) = 0

theorem phys_init (n l : Int) (hn : 1 ≤ n) (h0 : 0 ≤ l) (h1 : l < n) : phys (n - 1) n l = l := by
  rw [phys_eq_ite _ n l (by omega) (by omega) h0 h1]; split_ifs <;> omega

theorem int_mul_lt (a b : Int) (dt : ℝ) (hdt : 0 < dt) (h : a < b) : (a : ℝ) * dt < (b : ℝ) * dt := by
  have : (a : ℝ) < (b : ℝ) := by exact_mod_cast h
  exact mul_lt_mul_of_pos_right this hdt

theorem int_mul_gap (a b : Int) (dt e : ℝ) (hdt : e < dt) (he : 0 < e) (h : a < b) :
    (a : ℝ) * dt + e < (b : ℝ) * dt := by
  have : (a : ℝ) + 1 ≤ (b : ℝ) := by exact_mod_cast h
  nlinarith

theorem run_inv {b0 : Int → Int → ℝ} {dt : ℝ} (c : Nat → ℝ) (hn : 1 ≤ n) (hn32 : n ≤ 2 ^ 30)
    (hfuel : n - 1 ≤ 2 ^ fuel) (hdt : 0 < dt) (h0 : MjInit b0 w off n dt) (k : Nat) :
    Inv (runCtrl b0 w off n dt c fuel k) w off n
    ∧ ∀ l, 0 ≤ l → l < n →
        ltime (runCtrl b0 w off n dt c fuel k) w off n l = (((k : Int) - n + l : Int) : ℝ) * dt
        ∧ lval (runCtrl b0 w off n dt c fuel k) w off n l = ctrlAt c ((k : Int) - n + l) := by
  induction k with
  | zero =>
    have hT : ∀ l, 0 ≤ l → l < n → ltime b0 w off n l = ((l - n : Int) : ℝ) * dt := by
      intro l a b
      rw [ltime_of_cursor h0.cursor, phys_init n l hn a b, h0.times l a b]
    have hc : cursorOf (runCtrl b0 w off n dt c fuel 0) w off = n - 1 := h0.cursor
    refine ⟨⟨hn, by rw [hc]; omega, by rw [hc]; omega, fun i j a b c => ?_⟩, fun l a b => ⟨?_, ?_⟩⟩
    · show ltime b0 w off n i < ltime b0 w off n j
      rw [hT i a (by omega), hT j (by omega) c]
      exact int_mul_lt _ _ dt hdt (by omega)
    · show ltime b0 w off n l = _
      rw [hT l a b]; congr 2; push_cast; ring
    · show lval b0 w off n l = _
      rw [lval_of_cursor h0.cursor, phys_init n l hn a b, h0.values l a b]
      unfold ctrlAt; rw [if_neg (by push_cast; omega)]
  | succ k ih =>
    obtain ⟨hI, hl⟩ := ih
    have hnew : ltime (runCtrl b0 w off n dt c fuel k) w off n (n - 1) < (k : ℝ) * dt := by
      rw [(hl (n - 1) (by omega) (by omega)).1]
      have := int_mul_lt ((k : Int) - n + (n - 1)) (k : Int) dt hdt (by omega)
      simpa using this
    have hfi := find_index_eq (t := (k : ℝ) * dt) hI hn32 hfuel n (by omega) (le_refl _) (fun _ => hnew)
      (fun h => absurd h (lt_irrefl _))
    obtain ⟨-, p2, -⟩ := post_advance (v := c k) hI hfi
    refine ⟨insert_inv hI hn32 hfuel, fun l a b => ?_⟩
    obtain ⟨q1, q2⟩ := p2 l a b
    show ltime (ins _ w off n _ _ fuel) w off n l = _ ∧ lval (ins _ w off n _ _ fuel) w off n l = _
    rw [q1, q2]
    by_cases hl1 : l < n - 1
    · rw [if_pos hl1, if_pos hl1, (hl (l + 1) (by omega) (by omega)).1, (hl (l + 1) (by omega) (by omega)).2]
      constructor
      · congr 2; push_cast; ring
      · congr 1; push_cast; ring
    · rw [if_neg hl1, if_neg hl1]
      have : l = n - 1 := by omega
      subst this
      constructor
      · have : ((k + 1 : Nat) : Int) - n + (n - 1) = (k : Int) := by push_cast; ring
        rw [this]; simp
      · have : ((k + 1 : Nat) : Int) - n + (n - 1) = (k : Int) := by push_cast; ring
        rw [this]; unfold ctrlAt; simp

/-- end-to-end: ZOH read at `k·dt - m·dt` after `k` steps -/
theorem run_read {b0 : Int → Int → ℝ} {dt : ℝ} (c : Nat → ℝ) (hn : 1 ≤ n) (hn32 : n ≤ 2 ^ 30)
    (hfuel : n - 1 ≤ 2 ^ fuel) (hdt : (eps : ℝ) < dt) (h0 : MjInit b0 w off n dt) (k m : Nat)
    (hm1 : 1 ≤ m) (hmn : (m : Int) ≤ n) :
    Gen.History._history_read_scalar (runCtrl b0 w off n dt c fuel k) w off n
        ((((k : Int) - m : Int) : ℝ) * dt) 0 fuel
      = ctrlAt c ((k : Int) - m) := by
  have he := eps_pos
  have hdt0 : 0 < dt := lt_trans he hdt
  obtain ⟨hI, hl⟩ := run_inv (w := w) (off := off) (fuel := fuel) c hn hn32 hfuel hdt0 h0 k
  rw [read_eq_readF hI hn32 hfuel]
  unfold readF
  rw [(hl 0 (le_refl _) (by omega)).1, (hl 0 (le_refl _) (by omega)).2,
    (hl (n - 1) (by omega) (by omega)).1, (hl (n - 1) (by omega) (by omega)).2]
  by_cases hmn' : (m : Int) = n
  · rw [if_pos]
    · congr 1; omega
    · have : (k : Int) - m = (k : Int) - n + 0 := by omega
      rw [this]; linarith
  · rw [if_neg]
    swap
    · have := int_mul_gap ((k : Int) - n + 0) ((k : Int) - m) dt _ hdt he (by omega)
      linarith
    by_cases hm1' : m = 1
    · subst hm1'
      rw [if_pos]
      · congr 1; push_cast; omega
      · have : (k : Int) - n + (n - 1) = (k : Int) - (1 : Nat) := by push_cast; omega
        rw [this]; linarith
    · rw [if_neg]
      swap
      · have := int_mul_gap ((k : Int) - m) ((k : Int) - n + (n - 1)) dt _ hdt he (by omega)
        linarith
      have hT := (hl (n - m) (by omega) (by omega)).1
      have hfi := find_index_eq (t := (((k : Int) - m : Int) : ℝ) * dt) hI hn32 hfuel (n - m) (by omega)
        (by omega)
        (fun _ => by
          rw [(hl (n - m - 1) (by omega) (by omega)).1]
          exact int_mul_lt _ _ dt hdt0 (by omega))
        (fun _ => by
          rw [hT]
          have : (k : Int) - n + (n - m) = (k : Int) - m := by omega
          rw [this])
      rw [hfi, hT, (hl (n - m) (by omega) (by omega)).2]
      have : (k : Int) - n + (n - (m : Int)) = (k : Int) - m := by omega
      rw [this, sub_self, abs_zero, if_pos he]

end e2e

/-! ### J. what the read means -/
section readmeaning
variable {buf : Int → Int → ℝ} {w off n : Int} {t : ℝ} {fuel : Nat}

theorem read_before (hI : Inv buf w off n) (hn32 : n ≤ 2 ^ 30) (hfuel : n - 1 ≤ 2 ^ fuel) (interp : Int)
    (h : t ≤ ltime buf w off n 0 + (eps : ℝ)) :
    Gen.History._history_read_scalar buf w off n t interp fuel = lval buf w off n 0 := by
  rw [read_eq_readF hI hn32 hfuel]; unfold readF; rw [if_pos h]

theorem read_after (hI : Inv buf w off n) (hn32 : n ≤ 2 ^ 30) (hfuel : n - 1 ≤ 2 ^ fuel) (interp : Int)
    (h1 : ltime buf w off n 0 + (eps : ℝ) < t) (h : ltime buf w off n (n - 1) - (eps : ℝ) ≤ t) :
    Gen.History._history_read_scalar buf w off n t interp fuel = lval buf w off n (n - 1) := by
  rw [read_eq_readF hI hn32 hfuel]; unfold readF; rw [if_neg (not_le.mpr h1), if_pos h]

/-- zero-order hold: for `time_j ≤ t ≤ time_{j+1} - eps` (outside the two end windows) the value of
    sample `j` -/
theorem read_zoh (hI : Inv buf w off n) (hn32 : n ≤ 2 ^ 30) (hfuel : n - 1 ≤ 2 ^ fuel)
    (h1 : ltime buf w off n 0 + (eps : ℝ) < t) (h2 : t < ltime buf w off n (n - 1) - (eps : ℝ))
    (j : Int) (hj0 : 0 ≤ j) (hj : j + 1 < n) (ha : ltime buf w off n j ≤ t)
    (hb : t ≤ ltime buf w off n (j + 1) - (eps : ℝ)) :
    Gen.History._history_read_scalar buf w off n t 0 fuel = lval buf w off n j := by
  have he := eps_pos
  rw [read_eq_readF hI hn32 hfuel]; unfold readF
  rw [if_neg (not_le.mpr h1), if_neg (not_le.mpr h2)]
  rcases eq_or_lt_of_le ha with h | h
  · have hfi := find_index_eq (t := t) hI hn32 hfuel j hj0 (by omega)
      (fun h0 => by rw [← h]; exact hI.mono (j - 1) j (by omega) (by omega) (by omega))
      (fun _ => le_of_eq h.symm)
    rw [hfi, ← h, sub_self, abs_zero, if_pos he]
  · have hfi := find_index_eq (t := t) hI hn32 hfuel (j + 1) (by omega) (by omega)
      (fun _ => by rw [add_sub_cancel_right]; exact h)
      (fun _ => by linarith)
    rw [hfi, if_neg, if_pos rfl, add_sub_cancel_right]
    rw [abs_lt]; intro hh; linarith [hh.1]

/-- linear interpolation strictly inside `(time_j, time_{j+1} - eps]` -/
theorem read_linear (hI : Inv buf w off n) (hn32 : n ≤ 2 ^ 30) (hfuel : n - 1 ≤ 2 ^ fuel)
    (h1 : ltime buf w off n 0 + (eps : ℝ) < t) (h2 : t < ltime buf w off n (n - 1) - (eps : ℝ))
    (j : Int) (hj0 : 0 ≤ j) (hj : j + 1 < n) (ha : ltime buf w off n j < t)
    (hb : t ≤ ltime buf w off n (j + 1) - (eps : ℝ)) :
    Gen.History._history_read_scalar buf w off n t 1 fuel
      = lval buf w off n j + (t - ltime buf w off n j) / (ltime buf w off n (j + 1) - ltime buf w off n j)
          * (lval buf w off n (j + 1) - lval buf w off n j) := by
  have he := eps_pos
  rw [read_eq_readF hI hn32 hfuel]; unfold readF
  rw [if_neg (not_le.mpr h1), if_neg (not_le.mpr h2)]
  have hfi := find_index_eq (t := t) hI hn32 hfuel (j + 1) (by omega) (by omega)
    (fun _ => by rw [add_sub_cancel_right]; exact ha)
    (fun _ => by linarith)
  rw [hfi, if_neg, if_neg (by omega), if_pos rfl, add_sub_cancel_right]
  rw [abs_lt]; intro hh; linarith [hh.1]

end readmeaning

/-! ### K. concrete buffers for the witness -/

/-- all-zero history row, as `make_data` / `reset_data` leave it -/
def zeroBuf : Int → Int → ℝ := fun _ _ => 0

/-- MuJoCo-initialised buffer (`n = 2`, `dt = 1/128`, offset 0): `[user 0, cursor 1, times -2/128 -1/128, values 0 0]` -/
noncomputable def mjBuf : Int → Int → ℝ := fun _ k =>
  if k = 1 then 1 else if k = 2 then -(2 / 128) else if k = 3 then -(1 / 128) else 0

theorem toInt_zero : Scalar.toInt (0 : ℝ) = 0 := by
  have := toInt_cast 0; simpa using this
theorem toInt_one : Scalar.toInt (1 : ℝ) = 1 := by
  have := toInt_cast 1; simpa using this

theorem zeroBuf_cursor : cursorOf zeroBuf 0 0 = 0 := toInt_zero

theorem zero_not_inv : ¬ Inv zeroBuf 0 0 2 := by
  intro h
  have := h.mono 0 1 (le_refl _) (by omega) (by omega)
  simp [ltime, zeroBuf] at this

theorem mjBuf_init : MjInit mjBuf 0 0 2 (1 / 128) := by
  refine ⟨?_, ?_, ?_⟩
  · show Scalar.toInt (mjBuf 0 (0 + 1)) = 2 - 1
    simp [mjBuf, toInt_one]
  · intro p h0 h1
    have : p = 0 ∨ p = 1 := by omega
    rcases this with rfl | rfl <;> simp [mjBuf] <;> norm_num
  · intro p h0 h1
    have : p = 0 ∨ p = 1 := by omega
    rcases this with rfl | rfl <;> simp [mjBuf]

theorem zero_find (fuel : Nat) : Gen.History._history_find_index zeroBuf 0 0 2 0 0 fuel = 0 := by
  unfold Gen.History._history_find_index
  simp [zeroBuf]

/-- the all-zero buffer after the first insertion `(t = 0, value = 1)`: exact-match case, the value lands
    in physical slot 1, times and cursor stay 0 -/
theorem zero_after_one (fuel : Nat) (w k : Int) :
    ins zeroBuf 0 0 2 0 1 fuel w k = if w = 0 ∧ k = 5 then 1 else 0 := by
  rw [ins_def, insert_scalar_cases zeroBuf 0 0 2 0 1 fuel 0 0 zeroBuf_cursor (zero_find fuel)]
  have hg : Gen.History._history_physical_index (K := ℝ) 0 2 0 = 1 := by
    unfold Gen.History._history_physical_index; decide
  rw [hg, if_pos]
  · rw [applyW_1]; simp [zeroBuf, eq_comm]
  · refine ⟨by omega, ?_⟩
    simp [zeroBuf, eps_pos]

theorem zero_read_after_one (fuel : Nat) :
    Gen.History._history_read_scalar (ins zeroBuf 0 0 2 0 1 fuel) 0 0 2 (-(1 / 128)) 0 fuel = 1 := by
  unfold Gen.History._history_read_scalar
  simp only [zero_after_one]
  have hg : Gen.History._history_physical_index (K := ℝ) 0 2 0 = 1 := by
    unfold Gen.History._history_physical_index; decide
  norm_num [toInt_zero, hg]



/-! ### L. kernels -/

/-- every write goes to array `buf_out` -/
def AllBuf (ws : List (Write ℝ)) : Prop := ∀ x ∈ ws, x.arr = "buf_out"

theorem allBuf_append {a b : List (Write ℝ)} (ha : AllBuf a) (hb : AllBuf b) : AllBuf (a ++ b) := by
  intro x hx; rcases List.mem_append.mp hx with h | h
  · exact ha x h
  · exact hb x h

theorem allBuf_W (w k : Int) (x : ℝ) : AllBuf [W w k x] := by
  intro y hy; simp at hy; subst hy; rfl

theorem allBuf_shiftWs (buf : Int → Int → ℝ) (w off n c : Int) (k : Nat) : AllBuf (shiftWs buf w off n c k) := by
  induction k with
  | zero => intro x hx; simp [shiftWs] at hx
  | succ k ih =>
    rw [shiftWs_succ]; unfold shiftBody
    exact allBuf_append (allBuf_append ih (allBuf_W _ _ _)) (allBuf_W _ _ _)

theorem allBuf_insert (buf : Int → Int → ℝ) (w off n : Int) (t v : ℝ) (fuel : Nat) :
    AllBuf (Gen.History._history_insert_scalar w off n t v buf fuel) := by
  rw [insert_scalar_cases buf w off n t v fuel _ _ rfl rfl]
  split_ifs
  · exact allBuf_W _ _ _
  · exact allBuf_append (a := [_]) (allBuf_W _ _ _) (allBuf_W _ _ _)
  · exact allBuf_append (a := [_, _]) (allBuf_append (a := [_]) (allBuf_W _ _ _) (allBuf_W _ _ _)) (allBuf_W _ _ _)
  · rw [forRange_shift]
    exact allBuf_append (allBuf_append (allBuf_shiftWs _ _ _ _ _ _) (allBuf_W _ _ _)) (allBuf_W _ _ _)

theorem lookupF_rename (ws : List (Write ℝ)) (h : AllBuf ws) (idx : List Int) (d : ℝ) :
    Write.lookupF (Write.renameAll [("buf_out", "history_out")] ws) "history_out" idx d
      = Write.lookupF ws "buf_out" idx d := by
  unfold Write.lookupF Write.renameAll
  induction ws generalizing d with
  | nil => rfl
  | cons x r ih =>
    have hx : x.arr = "buf_out" := h x (by simp)
    simp only [List.map_cons, List.foldl_cons]
    rw [ih (fun y hy => h y (by simp [hy]))]
    congr 1
    simp [Write.rename, hx]

/-- effect of the kernel's (renamed) write list on `d.history` = effect of the function's write list -/
theorem applyWrites_rename (ws : List (Write ℝ)) (h : AllBuf ws) (a : Int → Int → ℝ) :
    applyWrites "history_out" (Write.renameAll [("buf_out", "history_out")] ws) a = applyWrites "buf_out" ws a := by
  funext w k; exact lookupF_rename ws h _ _


theorem insert_kernel_eq (ah : Int → I2) (aha : Int → Int) (time_in : Int → ℝ) (ctrl_in history_out : Int → Int → ℝ)
    (fuel : Nat) (w uid : Int) (hns : (ah uid).c0 ≠ 0) :
    Gen.History._insert_ctrl_history_kernel ah aha time_in ctrl_in history_out fuel w uid
      = Write.renameAll [("buf_out", "history_out")]
          (Gen.History._history_insert_scalar w (aha uid) (ah uid).c0 (time_in w) (ctrl_in w uid) history_out fuel) := by
  unfold Gen.History._insert_ctrl_history_kernel
  simp [hns]

theorem read_kernel_eq (ah : Int → I2) (aha : Int → Int) (ad time_in : Int → ℝ)
    (history_in ctrl_in ctrl_out : Int → Int → ℝ) (fuel : Nat) (w uid : Int) (hns : (ah uid).c0 ≠ 0)
    (hd : ad uid ≠ 0) :
    Gen.History._read_ctrl_delayed_kernel ah aha ad time_in history_in ctrl_in ctrl_out fuel w uid
      = [Write.mk "ctrl_out" [w, uid] (WVal.f (Gen.History._history_read_scalar history_in w (aha uid) (ah uid).c0
          (time_in w - ad uid) (ah uid).c1 fuel)) WKind.set] := by
  unfold Gen.History._read_ctrl_delayed_kernel
  simp [hns, hd]

theorem read_kernel_nodelay (ah : Int → I2) (aha : Int → Int) (ad time_in : Int → ℝ)
    (history_in ctrl_in ctrl_out : Int → Int → ℝ) (fuel : Nat) (w uid : Int)
    (h : (ah uid).c0 = 0 ∨ ad uid = 0) :
    Gen.History._read_ctrl_delayed_kernel ah aha ad time_in history_in ctrl_in ctrl_out fuel w uid
      = [Write.mk "ctrl_out" [w, uid] (WVal.f (ctrl_in w uid)) WKind.set] := by
  unfold Gen.History._read_ctrl_delayed_kernel
  rcases h with h | h <;> simp [h]


/-! ### M. vector variants at `dim = 1` -/

theorem forRange_one {σ : Type} (init : σ) (f : Int → σ → σ) : Mjw.forRange 0 1 init f = f 0 init := by
  unfold Mjw.forRange; simp [List.range_succ]

theorem read_vector_dim1 (adr : Int) (buf : Int → Int → ℝ) (w off n : Int) (t : ℝ) (interp : Int)
    (out : Int → Int → ℝ) (fuel : Nat) :
    Gen.History._history_read_vector adr buf w off n 1 t interp out fuel
      = (1, [Write.mk "sensordata_out" [w, adr + 0]
          (WVal.f (Gen.History._history_read_scalar buf w off n t interp fuel)) WKind.set]) := by
  unfold Gen.History._history_read_vector Gen.History._history_read_scalar
  simp only [forRange_one, mul_one, add_zero, List.nil_append]
  split_ifs <;> rfl

theorem insert_vector_dim1_aux (w off n : Int) (t : ℝ) (src : Int → Int → ℝ) (adr : Int) (buf : Int → Int → ℝ)
    (fuel : Nat) (c i : Int) (hcur : Scalar.toInt (buf w (off + 1)) = c)
    (hi : Gen.History._history_find_index buf w off n c t fuel = i)
    (hp : 0 ≤ Gen.History._history_physical_index (K := ℝ) c n i) :
    Gen.History._history_insert_vector w off n 1 t src adr buf fuel
      = Gen.History._history_insert_scalar w off n t (src w (adr + 0)) buf fuel := by
  unfold Gen.History._history_insert_vector Gen.History._history_insert_scalar
  simp only [forRange_one, mul_one, add_zero, List.nil_append, lookupF_nil, hcur, hi, decide_eq_true_eq]
  by_cases h1 : i < n
  · by_cases h2 : Scalar.lt (Scalar.abs (t - buf w (off + 2 + Gen.History._history_physical_index (K := ℝ) c n i))) (Scalar.lit 1 (-6)) = true
    · have : ¬ Gen.History._history_physical_index (K := ℝ) c n i < 0 := by omega
      simp only [eq_true h1, eq_true h2, eq_false this, if_true, if_false, List.nil_append]
    · by_cases h3 : i = 0
      · simp only [eq_true h1, eq_false h2, eq_true h3, if_true, if_false, List.nil_append]
        simp
      · by_cases h4 : i = n
        · simp only [eq_true h1, eq_false h2, eq_false h3, eq_true h4, if_true, if_false, List.nil_append]
          simp
        · simp only [eq_true h1, eq_false h2, eq_false h3, eq_false h4, if_true, if_false, List.nil_append]
          simp
  · by_cases h3 : i = 0
    · simp only [eq_false h1, eq_true h3, if_true, if_false, List.nil_append]
      simp
    · by_cases h4 : i = n
      · simp only [eq_false h1, eq_false h3, eq_true h4, if_true, if_false, List.nil_append]
        simp
      · simp only [eq_false h1, eq_false h3, eq_false h4, if_true, if_false, List.nil_append]
        simp

/-- at `dim = 1` the vector insert IS the scalar insert (same write list) -/
theorem insert_vector_dim1 {buf : Int → Int → ℝ} {w off n : Int} {fuel : Nat} (hI : Inv buf w off n)
    (hn32 : n ≤ 2 ^ 30) (hfuel : n - 1 ≤ 2 ^ fuel) (t : ℝ) (src : Int → Int → ℝ) (adr : Int) :
    Gen.History._history_insert_vector w off n 1 t src adr buf fuel
      = Gen.History._history_insert_scalar w off n t (src w (adr + 0)) buf fuel := by
  obtain ⟨f0, -, -, -⟩ := find_index_spec buf w off n t fuel hI hn32 hfuel
  apply insert_vector_dim1_aux w off n t src adr buf fuel (cursorOf buf w off) _ rfl rfl
  rw [gphys_eq _ _ _ hI.cur0 f0]
  unfold phys
  exact Int.emod_nonneg _ (by have := hI.npos; omega)


/-! ### N. `init_ctrl_history(times=None)` -/

/-- `init_ctrl_history(times=None)` on a 2-sample buffer at offset 0, from the all-zero row -/
noncomputable def initNoTimes : Int → Int → ℝ :=
  applyWrites "history_out"
    (Gen.History._init_ctrl_history_kernel (K := ℝ) (fun _ => ⟨2, 0⟩) (fun _ => 0) 0 (fun _ => 0) (fun _ _ => 0) 0
      zeroBuf 0) zeroBuf

theorem initNoTimes_cells :
    initNoTimes 0 1 = 1 ∧ initNoTimes 0 2 = -(10 ^ 10) ∧ initNoTimes 0 3 = -(10 ^ 10) := by
  unfold initNoTimes Gen.History._init_ctrl_history_kernel applyWrites Mjw.forRange
  simp [List.range_succ, Write.lookupF, zeroBuf]
  norm_num


theorem initNoTimes_not_inv : ¬ Inv initNoTimes 0 0 2 := by
  intro h
  obtain ⟨c1, c2, c3⟩ := initNoTimes_cells
  have hc : cursorOf initNoTimes 0 0 = 1 := by
    show Scalar.toInt (initNoTimes 0 (0 + 1)) = 1
    rw [show (0 : Int) + 1 = 1 from rfl, c1]; exact toInt_one
  have := h.mono 0 1 (le_refl _) (by omega) (by omega)
  rw [ltime_of_cursor hc, ltime_of_cursor hc] at this
  have p0 : phys 1 2 0 = 0 := by decide
  have p1 : phys 1 2 1 = 1 := by decide
  rw [p0, p1] at this
  norm_num at this
  rw [c2, c3] at this
  exact lt_irrefl _ this


/-! ### O. kernel-level run -/

/-- history row after `k` launches of `_insert_ctrl_history_kernel` (task `(w, uid)` only; the other tasks
    write other buffers, see `insert_frame`), with `d.time = j·dt` and `d.ctrl[w, uid] = c j` at launch `j` -/
noncomputable def runKernel (ah : Int → I2) (aha : Int → Int) (b0 : Int → Int → ℝ) (w uid : Int) (dt : ℝ)
    (c : Nat → ℝ) (fuel : Nat) : Nat → (Int → Int → ℝ)
  | 0 => b0
  | k + 1 => applyWrites "history_out"
      (Gen.History._insert_ctrl_history_kernel ah aha (fun _ => (k : ℝ) * dt) (fun _ _ => c k)
        (runKernel ah aha b0 w uid dt c fuel k) fuel w uid)
      (runKernel ah aha b0 w uid dt c fuel k)

theorem runKernel_eq (ah : Int → I2) (aha : Int → Int) (b0 : Int → Int → ℝ) (w uid : Int) (dt : ℝ)
    (c : Nat → ℝ) (fuel : Nat) (hns : (ah uid).c0 ≠ 0) (k : Nat) :
    runKernel ah aha b0 w uid dt c fuel k = runCtrl b0 w (aha uid) (ah uid).c0 dt c fuel k := by
  induction k with
  | zero => rfl
  | succ k ih =>
    show applyWrites "history_out" _ _ = step _ _
    rw [insert_kernel_eq ah aha _ _ _ fuel w uid hns, applyWrites_rename _ (allBuf_insert _ _ _ _ _ _ _), ih]
    rfl


end Mjw.Lemmas.C30
