/-
  C05 helper lemmas, kernel part: for each generated row-builder kernel of `constraint.py`
  * `<k>_counts` : `CountsAs KW "<class counter>" tid0 k` — the thread adds `k` to its class counter (`ne`/`nf`/`nl`)
    exactly when (and in the same amount as) it adds `k` to `nefc_out[worldid]` through its allocating atomic,
    BEFORE any capacity guard; nothing else touches the counters;
  * `<k>_type`   : every `efc_type_out` cell the thread writes holds the constraint type of its class.
  Statements generated from the `def` lines of `Gen/Constraint.lean` (/tmp script, same scheme as
  `Lemmas/C16Kernels*.lean`); proofs are uniform (`csimp`, see `Lemmas/C05.lean`), for all inputs, every scalar type.
-/
import MjwVerif.Lemmas.C05
set_option linter.unusedSimpArgs false
set_option linter.unusedVariables false
set_option linter.unusedTactic false
set_option linter.unreachableTactic false
set_option linter.unnecessarySeqFocus false
namespace Mjw.Lemmas.C05
open Mjw Mjw.Lemmas.C16


/-! ### `_equality_connect__kernel`  (class counter `ne_out`, k = 3, type 0) -/
section equality_connect
variable {K : Type} [Scalar K] (nv : Int) (nsite : Int) (opt_timestep : (Int → K)) (opt_disableflags : Int) (body_parentid : (Int → Int)) (body_rootid : (Int → Int)) (body_weldid : (Int → Int)) (body_dofnum : (Int → Int)) (body_dofadr : (Int → Int)) (body_invweight0 : (Int → Int → V2 K)) (jnt_type : (Int → Int)) (jnt_dofadr : (Int → Int)) (dof_bodyid : (Int → Int)) (dof_jntid : (Int → Int)) (dof_parentid : (Int → Int)) (site_bodyid : (Int → Int)) (eq_obj1id : (Int → Int)) (eq_obj2id : (Int → Int)) (eq_objtype : (Int → Int)) (eq_solref : (Int → Int → V2 K)) (eq_solimp : (Int → Int → V5 K)) (eq_data : (Int → Int → V11 K)) (body_isdofancestor : (Int → Int → Int)) (eq_connect_adr : (Int → Int)) (qvel_in : (Int → Int → K)) (eq_active_in : (Int → Int → Bool)) (xpos_in : (Int → Int → V3 K)) (xmat_in : (Int → Int → M33 K)) (site_xpos_in : (Int → Int → V3 K)) (subtree_com_in : (Int → Int → V3 K)) (cdof_in : (Int → Int → V6 K)) (cvel_in : (Int → Int → V6 K)) (cdof_dot_in : (Int → Int → V6 K)) (subtree_linvel_in : (Int → Int → V3 K)) (njmax_in : Int) (njmax_nnz_in : Int) (ne_out : (Int → Int)) (nefc_out : (Int → Int)) (efc_type_out : (Int → Int → Int)) (efc_id_out : (Int → Int → Int)) (efc_jtdaj_adr_out : (Int → Int → Int)) (efc_jtdaj_nrow_out : (Int → Int → Int)) (efc_jtdaj_nblock_out : (Int → Int)) (efc_J_rownnz_out : (Int → Int → Int)) (efc_J_rowadr_out : (Int → Int → Int)) (efc_J_colind_out : (Int → Int → Int → Int)) (efc_J_out : (Int → Int → Int → K)) (efc_pos_out : (Int → Int → K)) (efc_margin_out : (Int → Int → K)) (efc_D_out : (Int → Int → K)) (efc_vel_out : (Int → Int → K)) (efc_aref_out : (Int → Int → K)) (efc_frictionloss_out : (Int → Int → K)) (efc_nnz_out : (Int → Int)) (alloc0 : Int) (st_is_sparse_and_newton : Bool) (alloc1 : Int) (eq_data_shape0 : Int) (body_invweight0_shape0 : Int) (st_is_sparse : Bool) (alloc2 : Int) (eq_solref_shape0 : Int) (eq_solimp_shape0 : Int) (opt_timestep_shape0 : Int) (fuel : Nat) (tid0 : Int) (tid1 : Int)
local notation "KW" => Gen.Constraint._equality_connect__kernel nv nsite opt_timestep opt_disableflags body_parentid body_rootid body_weldid body_dofnum body_dofadr body_invweight0 jnt_type jnt_dofadr dof_bodyid dof_jntid dof_parentid site_bodyid eq_obj1id eq_obj2id eq_objtype eq_solref eq_solimp eq_data body_isdofancestor eq_connect_adr qvel_in eq_active_in xpos_in xmat_in site_xpos_in subtree_com_in cdof_in cvel_in cdof_dot_in subtree_linvel_in njmax_in njmax_nnz_in ne_out nefc_out efc_type_out efc_id_out efc_jtdaj_adr_out efc_jtdaj_nrow_out efc_jtdaj_nblock_out efc_J_rownnz_out efc_J_rowadr_out efc_J_colind_out efc_J_out efc_pos_out efc_margin_out efc_D_out efc_vel_out efc_aref_out efc_frictionloss_out efc_nnz_out alloc0 st_is_sparse_and_newton alloc1 eq_data_shape0 body_invweight0_shape0 st_is_sparse alloc2 eq_solref_shape0 eq_solimp_shape0 opt_timestep_shape0 fuel tid0 tid1

set_option maxHeartbeats 1600000 in
theorem equality_connect_counts : CountsAs KW "ne_out" tid0 3 := by
  unfold CountsAs Gen.Constraint._equality_connect__kernel
  refine ⟨?_, ?_, ?_, ?_, ?_, ?_⟩
  · intro idx; csimp []
  · csimp [] <;> (intros; split_ifs <;> first | rfl | omega | (simp_all; done) | (simp_all; omega))
  · csimp [] <;> (intros; split_ifs <;> first | rfl | omega | (simp_all; done) | (simp_all; omega))
  · intro idx hidx; csimp [Ne.symm hidx]
  · intro c hc hne idx
    simp only [List.mem_cons, List.mem_nil_iff, or_false] at hc
    rcases hc with rfl | rfl | rfl
    all_goals first | exact absurd rfl hne | csimp []
  · csimp [counters]

set_option maxHeartbeats 1600000 in
theorem equality_connect_type : AllW (fun w => w.arr = "efc_type_out" → w.val = WVal.i 0) KW := by
  unfold Gen.Constraint._equality_connect__kernel
  csimp []
end equality_connect

/-! ### `_equality_weld__kernel`  (class counter `ne_out`, k = 6, type 0) -/
section equality_weld
variable {K : Type} [Scalar K] (nv : Int) (nsite : Int) (opt_timestep : (Int → K)) (opt_disableflags : Int) (body_parentid : (Int → Int)) (body_rootid : (Int → Int)) (body_weldid : (Int → Int)) (body_dofnum : (Int → Int)) (body_dofadr : (Int → Int)) (body_invweight0 : (Int → Int → V2 K)) (jnt_type : (Int → Int)) (jnt_dofadr : (Int → Int)) (dof_bodyid : (Int → Int)) (dof_jntid : (Int → Int)) (dof_parentid : (Int → Int)) (site_bodyid : (Int → Int)) (site_quat : (Int → Int → Q K)) (eq_obj1id : (Int → Int)) (eq_obj2id : (Int → Int)) (eq_objtype : (Int → Int)) (eq_solref : (Int → Int → V2 K)) (eq_solimp : (Int → Int → V5 K)) (eq_data : (Int → Int → V11 K)) (body_isdofancestor : (Int → Int → Int)) (eq_wld_adr : (Int → Int)) (qvel_in : (Int → Int → K)) (eq_active_in : (Int → Int → Bool)) (xpos_in : (Int → Int → V3 K)) (xquat_in : (Int → Int → Q K)) (xmat_in : (Int → Int → M33 K)) (site_xpos_in : (Int → Int → V3 K)) (subtree_com_in : (Int → Int → V3 K)) (cdof_in : (Int → Int → V6 K)) (cvel_in : (Int → Int → V6 K)) (cdof_dot_in : (Int → Int → V6 K)) (subtree_linvel_in : (Int → Int → V3 K)) (njmax_in : Int) (njmax_nnz_in : Int) (ne_out : (Int → Int)) (nefc_out : (Int → Int)) (efc_type_out : (Int → Int → Int)) (efc_id_out : (Int → Int → Int)) (efc_jtdaj_adr_out : (Int → Int → Int)) (efc_jtdaj_nrow_out : (Int → Int → Int)) (efc_jtdaj_nblock_out : (Int → Int)) (efc_J_rownnz_out : (Int → Int → Int)) (efc_J_rowadr_out : (Int → Int → Int)) (efc_J_colind_out : (Int → Int → Int → Int)) (efc_J_out : (Int → Int → Int → K)) (efc_pos_out : (Int → Int → K)) (efc_margin_out : (Int → Int → K)) (efc_D_out : (Int → Int → K)) (efc_vel_out : (Int → Int → K)) (efc_aref_out : (Int → Int → K)) (efc_frictionloss_out : (Int → Int → K)) (efc_nnz_out : (Int → Int)) (alloc0 : Int) (st_is_sparse_and_newton : Bool) (alloc1 : Int) (eq_data_shape0 : Int) (site_quat_shape0 : Int) (body_invweight0_shape0 : Int) (st_is_sparse : Bool) (alloc2 : Int) (eq_solref_shape0 : Int) (eq_solimp_shape0 : Int) (opt_timestep_shape0 : Int) (fuel : Nat) (tid0 : Int) (tid1 : Int)
local notation "KW" => Gen.Constraint._equality_weld__kernel nv nsite opt_timestep opt_disableflags body_parentid body_rootid body_weldid body_dofnum body_dofadr body_invweight0 jnt_type jnt_dofadr dof_bodyid dof_jntid dof_parentid site_bodyid site_quat eq_obj1id eq_obj2id eq_objtype eq_solref eq_solimp eq_data body_isdofancestor eq_wld_adr qvel_in eq_active_in xpos_in xquat_in xmat_in site_xpos_in subtree_com_in cdof_in cvel_in cdof_dot_in subtree_linvel_in njmax_in njmax_nnz_in ne_out nefc_out efc_type_out efc_id_out efc_jtdaj_adr_out efc_jtdaj_nrow_out efc_jtdaj_nblock_out efc_J_rownnz_out efc_J_rowadr_out efc_J_colind_out efc_J_out efc_pos_out efc_margin_out efc_D_out efc_vel_out efc_aref_out efc_frictionloss_out efc_nnz_out alloc0 st_is_sparse_and_newton alloc1 eq_data_shape0 site_quat_shape0 body_invweight0_shape0 st_is_sparse alloc2 eq_solref_shape0 eq_solimp_shape0 opt_timestep_shape0 fuel tid0 tid1

set_option maxHeartbeats 1600000 in
theorem equality_weld_counts : CountsAs KW "ne_out" tid0 6 := by
  unfold CountsAs Gen.Constraint._equality_weld__kernel
  refine ⟨?_, ?_, ?_, ?_, ?_, ?_⟩
  · intro idx; csimp []
  · csimp [] <;> (intros; split_ifs <;> first | rfl | omega | (simp_all; done) | (simp_all; omega))
  · csimp [] <;> (intros; split_ifs <;> first | rfl | omega | (simp_all; done) | (simp_all; omega))
  · intro idx hidx; csimp [Ne.symm hidx]
  · intro c hc hne idx
    simp only [List.mem_cons, List.mem_nil_iff, or_false] at hc
    rcases hc with rfl | rfl | rfl
    all_goals first | exact absurd rfl hne | csimp []
  · csimp [counters]

set_option maxHeartbeats 1600000 in
theorem equality_weld_type : AllW (fun w => w.arr = "efc_type_out" → w.val = WVal.i 0) KW := by
  unfold Gen.Constraint._equality_weld__kernel
  csimp []
end equality_weld

/-! ### `_equality_joint__kernel`  (class counter `ne_out`, k = 1, type 0) -/
section equality_joint
variable {K : Type} [Scalar K] (nv : Int) (opt_timestep : (Int → K)) (opt_disableflags : Int) (qpos0 : (Int → Int → K)) (jnt_qposadr : (Int → Int)) (jnt_dofadr : (Int → Int)) (dof_invweight0 : (Int → Int → K)) (eq_obj1id : (Int → Int)) (eq_obj2id : (Int → Int)) (eq_solref : (Int → Int → V2 K)) (eq_solimp : (Int → Int → V5 K)) (eq_data : (Int → Int → V11 K)) (eq_jnt_adr : (Int → Int)) (qpos_in : (Int → Int → K)) (qvel_in : (Int → Int → K)) (eq_active_in : (Int → Int → Bool)) (njmax_in : Int) (njmax_nnz_in : Int) (ne_out : (Int → Int)) (nefc_out : (Int → Int)) (efc_type_out : (Int → Int → Int)) (efc_id_out : (Int → Int → Int)) (efc_jtdaj_adr_out : (Int → Int → Int)) (efc_jtdaj_nrow_out : (Int → Int → Int)) (efc_jtdaj_nblock_out : (Int → Int)) (efc_J_rownnz_out : (Int → Int → Int)) (efc_J_rowadr_out : (Int → Int → Int)) (efc_J_colind_out : (Int → Int → Int → Int)) (efc_J_out : (Int → Int → Int → K)) (efc_pos_out : (Int → Int → K)) (efc_margin_out : (Int → Int → K)) (efc_D_out : (Int → Int → K)) (efc_vel_out : (Int → Int → K)) (efc_aref_out : (Int → Int → K)) (efc_frictionloss_out : (Int → Int → K)) (efc_nnz_out : (Int → Int)) (alloc0 : Int) (st_is_sparse_and_newton : Bool) (alloc1 : Int) (eq_data_shape0 : Int) (qpos0_shape0 : Int) (dof_invweight0_shape0 : Int) (st_is_sparse : Bool) (alloc2 : Int) (opt_timestep_shape0 : Int) (eq_solref_shape0 : Int) (eq_solimp_shape0 : Int) (cl_rowadr : Int) (tid0 : Int) (tid1 : Int)
local notation "KW" => Gen.Constraint._equality_joint__kernel nv opt_timestep opt_disableflags qpos0 jnt_qposadr jnt_dofadr dof_invweight0 eq_obj1id eq_obj2id eq_solref eq_solimp eq_data eq_jnt_adr qpos_in qvel_in eq_active_in njmax_in njmax_nnz_in ne_out nefc_out efc_type_out efc_id_out efc_jtdaj_adr_out efc_jtdaj_nrow_out efc_jtdaj_nblock_out efc_J_rownnz_out efc_J_rowadr_out efc_J_colind_out efc_J_out efc_pos_out efc_margin_out efc_D_out efc_vel_out efc_aref_out efc_frictionloss_out efc_nnz_out alloc0 st_is_sparse_and_newton alloc1 eq_data_shape0 qpos0_shape0 dof_invweight0_shape0 st_is_sparse alloc2 opt_timestep_shape0 eq_solref_shape0 eq_solimp_shape0 cl_rowadr tid0 tid1

set_option maxHeartbeats 1600000 in
theorem equality_joint_counts : CountsAs KW "ne_out" tid0 1 := by
  unfold CountsAs Gen.Constraint._equality_joint__kernel
  refine ⟨?_, ?_, ?_, ?_, ?_, ?_⟩
  · intro idx; csimp []
  · csimp [] <;> (intros; split_ifs <;> first | rfl | omega | (simp_all; done) | (simp_all; omega))
  · csimp [] <;> (intros; split_ifs <;> first | rfl | omega | (simp_all; done) | (simp_all; omega))
  · intro idx hidx; csimp [Ne.symm hidx]
  · intro c hc hne idx
    simp only [List.mem_cons, List.mem_nil_iff, or_false] at hc
    rcases hc with rfl | rfl | rfl
    all_goals first | exact absurd rfl hne | csimp []
  · csimp [counters]

set_option maxHeartbeats 1600000 in
theorem equality_joint_type : AllW (fun w => w.arr = "efc_type_out" → w.val = WVal.i 0) KW := by
  unfold Gen.Constraint._equality_joint__kernel
  csimp []
end equality_joint

/-! ### `_equality_tendon__kernel`  (class counter `ne_out`, k = 1, type 0) -/
section equality_tendon
variable {K : Type} [Scalar K] (nv : Int) (opt_timestep : (Int → K)) (opt_disableflags : Int) (eq_obj1id : (Int → Int)) (eq_obj2id : (Int → Int)) (eq_solref : (Int → Int → V2 K)) (eq_solimp : (Int → Int → V5 K)) (eq_data : (Int → Int → V11 K)) (ten_J_rownnz : (Int → Int)) (ten_J_rowadr : (Int → Int)) (ten_J_colind : (Int → Int)) (tendon_length0 : (Int → Int → K)) (tendon_invweight0 : (Int → Int → K)) (eq_ten_adr : (Int → Int)) (qvel_in : (Int → Int → K)) (eq_active_in : (Int → Int → Bool)) (ten_J_in : (Int → Int → K)) (ten_length_in : (Int → Int → K)) (njmax_in : Int) (njmax_nnz_in : Int) (ne_out : (Int → Int)) (nefc_out : (Int → Int)) (efc_type_out : (Int → Int → Int)) (efc_id_out : (Int → Int → Int)) (efc_jtdaj_adr_out : (Int → Int → Int)) (efc_jtdaj_nrow_out : (Int → Int → Int)) (efc_jtdaj_nblock_out : (Int → Int)) (efc_J_rownnz_out : (Int → Int → Int)) (efc_J_rowadr_out : (Int → Int → Int)) (efc_J_colind_out : (Int → Int → Int → Int)) (efc_J_out : (Int → Int → Int → K)) (efc_pos_out : (Int → Int → K)) (efc_margin_out : (Int → Int → K)) (efc_D_out : (Int → Int → K)) (efc_vel_out : (Int → Int → K)) (efc_aref_out : (Int → Int → K)) (efc_frictionloss_out : (Int → Int → K)) (efc_nnz_out : (Int → Int)) (alloc0 : Int) (st_is_sparse_and_newton : Bool) (alloc1 : Int) (eq_data_shape0 : Int) (eq_solref_shape0 : Int) (eq_solimp_shape0 : Int) (tendon_length0_shape0 : Int) (tendon_invweight0_shape0 : Int) (st_is_sparse : Bool) (alloc2 : Int) (opt_timestep_shape0 : Int) (cl_rowadr : Int) (fuel : Nat) (tid0 : Int) (tid1 : Int)
local notation "KW" => Gen.Constraint._equality_tendon__kernel nv opt_timestep opt_disableflags eq_obj1id eq_obj2id eq_solref eq_solimp eq_data ten_J_rownnz ten_J_rowadr ten_J_colind tendon_length0 tendon_invweight0 eq_ten_adr qvel_in eq_active_in ten_J_in ten_length_in njmax_in njmax_nnz_in ne_out nefc_out efc_type_out efc_id_out efc_jtdaj_adr_out efc_jtdaj_nrow_out efc_jtdaj_nblock_out efc_J_rownnz_out efc_J_rowadr_out efc_J_colind_out efc_J_out efc_pos_out efc_margin_out efc_D_out efc_vel_out efc_aref_out efc_frictionloss_out efc_nnz_out alloc0 st_is_sparse_and_newton alloc1 eq_data_shape0 eq_solref_shape0 eq_solimp_shape0 tendon_length0_shape0 tendon_invweight0_shape0 st_is_sparse alloc2 opt_timestep_shape0 cl_rowadr fuel tid0 tid1

set_option maxHeartbeats 1600000 in
theorem equality_tendon_counts : CountsAs KW "ne_out" tid0 1 := by
  unfold CountsAs Gen.Constraint._equality_tendon__kernel
  refine ⟨?_, ?_, ?_, ?_, ?_, ?_⟩
  · intro idx; csimp []
  · csimp [] <;> (intros; split_ifs <;> first | rfl | omega | (simp_all; done) | (simp_all; omega))
  · csimp [] <;> (intros; split_ifs <;> first | rfl | omega | (simp_all; done) | (simp_all; omega))
  · intro idx hidx; csimp [Ne.symm hidx]
  · intro c hc hne idx
    simp only [List.mem_cons, List.mem_nil_iff, or_false] at hc
    rcases hc with rfl | rfl | rfl
    all_goals first | exact absurd rfl hne | csimp []
  · csimp [counters]

set_option maxHeartbeats 1600000 in
theorem equality_tendon_type : AllW (fun w => w.arr = "efc_type_out" → w.val = WVal.i 0) KW := by
  unfold Gen.Constraint._equality_tendon__kernel
  csimp []
end equality_tendon

/-! ### `_equality_flex__kernel`  (class counter `ne_out`, k = 1, type 0) -/
section equality_flex
variable {K : Type} [Scalar K] (nv : Int) (opt_timestep : (Int → K)) (opt_disableflags : Int) (flex_interp : (Int → Int)) (flex_edgeadr : (Int → Int)) (flex_edgenum : (Int → Int)) (flexedge_length0 : (Int → K)) (flexedge_invweight0 : (Int → K)) (flexedge_J_rownnz : (Int → Int)) (flexedge_J_rowadr : (Int → Int)) (flexedge_J_colind : (Int → Int)) (eq_obj1id : (Int → Int)) (eq_solref : (Int → Int → V2 K)) (eq_solimp : (Int → Int → V5 K)) (eq_flex_adr : (Int → Int)) (qvel_in : (Int → Int → K)) (eq_active_in : (Int → Int → Bool)) (flexedge_J_in : (Int → Int → K)) (flexedge_length_in : (Int → Int → K)) (njmax_in : Int) (njmax_nnz_in : Int) (ne_out : (Int → Int)) (nefc_out : (Int → Int)) (efc_type_out : (Int → Int → Int)) (efc_id_out : (Int → Int → Int)) (efc_jtdaj_adr_out : (Int → Int → Int)) (efc_jtdaj_nrow_out : (Int → Int → Int)) (efc_jtdaj_nblock_out : (Int → Int)) (efc_J_rownnz_out : (Int → Int → Int)) (efc_J_rowadr_out : (Int → Int → Int)) (efc_J_colind_out : (Int → Int → Int → Int)) (efc_J_out : (Int → Int → Int → K)) (efc_pos_out : (Int → Int → K)) (efc_margin_out : (Int → Int → K)) (efc_D_out : (Int → Int → K)) (efc_vel_out : (Int → Int → K)) (efc_aref_out : (Int → Int → K)) (efc_frictionloss_out : (Int → Int → K)) (efc_nnz_out : (Int → Int)) (alloc0 : Int) (st_is_sparse_and_newton : Bool) (alloc1 : Int) (eq_solref_shape0 : Int) (eq_solimp_shape0 : Int) (st_is_sparse : Bool) (alloc2 : Int) (opt_timestep_shape0 : Int) (tid0 : Int) (tid1 : Int) (tid2 : Int)
local notation "KW" => Gen.Constraint._equality_flex__kernel nv opt_timestep opt_disableflags flex_interp flex_edgeadr flex_edgenum flexedge_length0 flexedge_invweight0 flexedge_J_rownnz flexedge_J_rowadr flexedge_J_colind eq_obj1id eq_solref eq_solimp eq_flex_adr qvel_in eq_active_in flexedge_J_in flexedge_length_in njmax_in njmax_nnz_in ne_out nefc_out efc_type_out efc_id_out efc_jtdaj_adr_out efc_jtdaj_nrow_out efc_jtdaj_nblock_out efc_J_rownnz_out efc_J_rowadr_out efc_J_colind_out efc_J_out efc_pos_out efc_margin_out efc_D_out efc_vel_out efc_aref_out efc_frictionloss_out efc_nnz_out alloc0 st_is_sparse_and_newton alloc1 eq_solref_shape0 eq_solimp_shape0 st_is_sparse alloc2 opt_timestep_shape0 tid0 tid1 tid2

set_option maxHeartbeats 1600000 in
theorem equality_flex_counts : CountsAs KW "ne_out" tid0 1 := by
  unfold CountsAs Gen.Constraint._equality_flex__kernel
  refine ⟨?_, ?_, ?_, ?_, ?_, ?_⟩
  · intro idx; csimp []
  · csimp [] <;> (intros; split_ifs <;> first | rfl | omega | (simp_all; done) | (simp_all; omega))
  · csimp [] <;> (intros; split_ifs <;> first | rfl | omega | (simp_all; done) | (simp_all; omega))
  · intro idx hidx; csimp [Ne.symm hidx]
  · intro c hc hne idx
    simp only [List.mem_cons, List.mem_nil_iff, or_false] at hc
    rcases hc with rfl | rfl | rfl
    all_goals first | exact absurd rfl hne | csimp []
  · csimp [counters]

set_option maxHeartbeats 1600000 in
theorem equality_flex_type : AllW (fun w => w.arr = "efc_type_out" → w.val = WVal.i 0) KW := by
  unfold Gen.Constraint._equality_flex__kernel
  csimp []
end equality_flex

/-! ### `_friction_dof__kernel`  (class counter `nf_out`, k = 1, type 1) -/
section friction_dof
variable {K : Type} [Scalar K] (nv : Int) (opt_timestep : (Int → K)) (opt_disableflags : Int) (dof_solref : (Int → Int → V2 K)) (dof_solimp : (Int → Int → V5 K)) (dof_frictionloss : (Int → Int → K)) (dof_invweight0 : (Int → Int → K)) (qvel_in : (Int → Int → K)) (njmax_in : Int) (njmax_nnz_in : Int) (nf_out : (Int → Int)) (nefc_out : (Int → Int)) (efc_type_out : (Int → Int → Int)) (efc_id_out : (Int → Int → Int)) (efc_jtdaj_adr_out : (Int → Int → Int)) (efc_jtdaj_nrow_out : (Int → Int → Int)) (efc_jtdaj_nblock_out : (Int → Int)) (efc_J_rownnz_out : (Int → Int → Int)) (efc_J_rowadr_out : (Int → Int → Int)) (efc_J_colind_out : (Int → Int → Int → Int)) (efc_J_out : (Int → Int → Int → K)) (efc_pos_out : (Int → Int → K)) (efc_margin_out : (Int → Int → K)) (efc_D_out : (Int → Int → K)) (efc_vel_out : (Int → Int → K)) (efc_aref_out : (Int → Int → K)) (efc_frictionloss_out : (Int → Int → K)) (efc_nnz_out : (Int → Int)) (dof_frictionloss_shape0 : Int) (alloc0 : Int) (st_is_sparse_and_newton : Bool) (alloc1 : Int) (st_is_sparse : Bool) (alloc2 : Int) (dof_invweight0_shape0 : Int) (dof_solref_shape0 : Int) (dof_solimp_shape0 : Int) (opt_timestep_shape0 : Int) (tid0 : Int) (tid1 : Int)
local notation "KW" => Gen.Constraint._friction_dof__kernel nv opt_timestep opt_disableflags dof_solref dof_solimp dof_frictionloss dof_invweight0 qvel_in njmax_in njmax_nnz_in nf_out nefc_out efc_type_out efc_id_out efc_jtdaj_adr_out efc_jtdaj_nrow_out efc_jtdaj_nblock_out efc_J_rownnz_out efc_J_rowadr_out efc_J_colind_out efc_J_out efc_pos_out efc_margin_out efc_D_out efc_vel_out efc_aref_out efc_frictionloss_out efc_nnz_out dof_frictionloss_shape0 alloc0 st_is_sparse_and_newton alloc1 st_is_sparse alloc2 dof_invweight0_shape0 dof_solref_shape0 dof_solimp_shape0 opt_timestep_shape0 tid0 tid1

set_option maxHeartbeats 1600000 in
theorem friction_dof_counts : CountsAs KW "nf_out" tid0 1 := by
  unfold CountsAs Gen.Constraint._friction_dof__kernel
  refine ⟨?_, ?_, ?_, ?_, ?_, ?_⟩
  · intro idx; csimp []
  · csimp [] <;> (intros; split_ifs <;> first | rfl | omega | (simp_all; done) | (simp_all; omega))
  · csimp [] <;> (intros; split_ifs <;> first | rfl | omega | (simp_all; done) | (simp_all; omega))
  · intro idx hidx; csimp [Ne.symm hidx]
  · intro c hc hne idx
    simp only [List.mem_cons, List.mem_nil_iff, or_false] at hc
    rcases hc with rfl | rfl | rfl
    all_goals first | exact absurd rfl hne | csimp []
  · csimp [counters]

set_option maxHeartbeats 1600000 in
theorem friction_dof_type : AllW (fun w => w.arr = "efc_type_out" → w.val = WVal.i 1) KW := by
  unfold Gen.Constraint._friction_dof__kernel
  csimp []
end friction_dof

/-! ### `_friction_tendon__kernel`  (class counter `nf_out`, k = 1, type 2) -/
section friction_tendon
variable {K : Type} [Scalar K] (nv : Int) (opt_timestep : (Int → K)) (opt_disableflags : Int) (ten_J_rownnz : (Int → Int)) (ten_J_rowadr : (Int → Int)) (ten_J_colind : (Int → Int)) (tendon_solref_fri : (Int → Int → V2 K)) (tendon_solimp_fri : (Int → Int → V5 K)) (tendon_frictionloss : (Int → Int → K)) (tendon_invweight0 : (Int → Int → K)) (qvel_in : (Int → Int → K)) (ten_J_in : (Int → Int → K)) (njmax_in : Int) (njmax_nnz_in : Int) (nf_out : (Int → Int)) (nefc_out : (Int → Int)) (efc_type_out : (Int → Int → Int)) (efc_id_out : (Int → Int → Int)) (efc_jtdaj_adr_out : (Int → Int → Int)) (efc_jtdaj_nrow_out : (Int → Int → Int)) (efc_jtdaj_nblock_out : (Int → Int)) (efc_J_rownnz_out : (Int → Int → Int)) (efc_J_rowadr_out : (Int → Int → Int)) (efc_J_colind_out : (Int → Int → Int → Int)) (efc_J_out : (Int → Int → Int → K)) (efc_pos_out : (Int → Int → K)) (efc_margin_out : (Int → Int → K)) (efc_D_out : (Int → Int → K)) (efc_vel_out : (Int → Int → K)) (efc_aref_out : (Int → Int → K)) (efc_frictionloss_out : (Int → Int → K)) (efc_nnz_out : (Int → Int)) (tendon_frictionloss_shape0 : Int) (alloc0 : Int) (st_is_sparse_and_newton : Bool) (alloc1 : Int) (st_is_sparse : Bool) (alloc2 : Int) (tendon_invweight0_shape0 : Int) (tendon_solref_fri_shape0 : Int) (tendon_solimp_fri_shape0 : Int) (opt_timestep_shape0 : Int) (tid0 : Int) (tid1 : Int)
local notation "KW" => Gen.Constraint._friction_tendon__kernel nv opt_timestep opt_disableflags ten_J_rownnz ten_J_rowadr ten_J_colind tendon_solref_fri tendon_solimp_fri tendon_frictionloss tendon_invweight0 qvel_in ten_J_in njmax_in njmax_nnz_in nf_out nefc_out efc_type_out efc_id_out efc_jtdaj_adr_out efc_jtdaj_nrow_out efc_jtdaj_nblock_out efc_J_rownnz_out efc_J_rowadr_out efc_J_colind_out efc_J_out efc_pos_out efc_margin_out efc_D_out efc_vel_out efc_aref_out efc_frictionloss_out efc_nnz_out tendon_frictionloss_shape0 alloc0 st_is_sparse_and_newton alloc1 st_is_sparse alloc2 tendon_invweight0_shape0 tendon_solref_fri_shape0 tendon_solimp_fri_shape0 opt_timestep_shape0 tid0 tid1

set_option maxHeartbeats 1600000 in
theorem friction_tendon_counts : CountsAs KW "nf_out" tid0 1 := by
  unfold CountsAs Gen.Constraint._friction_tendon__kernel
  refine ⟨?_, ?_, ?_, ?_, ?_, ?_⟩
  · intro idx; csimp []
  · csimp [] <;> (intros; split_ifs <;> first | rfl | omega | (simp_all; done) | (simp_all; omega))
  · csimp [] <;> (intros; split_ifs <;> first | rfl | omega | (simp_all; done) | (simp_all; omega))
  · intro idx hidx; csimp [Ne.symm hidx]
  · intro c hc hne idx
    simp only [List.mem_cons, List.mem_nil_iff, or_false] at hc
    rcases hc with rfl | rfl | rfl
    all_goals first | exact absurd rfl hne | csimp []
  · csimp [counters]

set_option maxHeartbeats 1600000 in
theorem friction_tendon_type : AllW (fun w => w.arr = "efc_type_out" → w.val = WVal.i 2) KW := by
  unfold Gen.Constraint._friction_tendon__kernel
  csimp []
end friction_tendon

/-! ### `_limit_slide_hinge__kernel`  (class counter `nl_out`, k = 1, type 3) -/
section limit_slide_hinge
variable {K : Type} [Scalar K] (nv : Int) (opt_timestep : (Int → K)) (opt_disableflags : Int) (jnt_qposadr : (Int → Int)) (jnt_dofadr : (Int → Int)) (jnt_solref : (Int → Int → V2 K)) (jnt_solimp : (Int → Int → V5 K)) (jnt_range : (Int → Int → V2 K)) (jnt_margin : (Int → Int → K)) (dof_invweight0 : (Int → Int → K)) (jnt_limited_slide_hinge_adr : (Int → Int)) (qpos_in : (Int → Int → K)) (qvel_in : (Int → Int → K)) (njmax_in : Int) (njmax_nnz_in : Int) (nl_out : (Int → Int)) (nefc_out : (Int → Int)) (efc_type_out : (Int → Int → Int)) (efc_id_out : (Int → Int → Int)) (efc_jtdaj_adr_out : (Int → Int → Int)) (efc_jtdaj_nrow_out : (Int → Int → Int)) (efc_jtdaj_nblock_out : (Int → Int)) (efc_J_rownnz_out : (Int → Int → Int)) (efc_J_rowadr_out : (Int → Int → Int)) (efc_J_colind_out : (Int → Int → Int → Int)) (efc_J_out : (Int → Int → Int → K)) (efc_pos_out : (Int → Int → K)) (efc_margin_out : (Int → Int → K)) (efc_D_out : (Int → Int → K)) (efc_vel_out : (Int → Int → K)) (efc_aref_out : (Int → Int → K)) (efc_frictionloss_out : (Int → Int → K)) (efc_nnz_out : (Int → Int)) (jnt_range_shape0 : Int) (jnt_margin_shape0 : Int) (alloc0 : Int) (st_is_sparse_and_newton : Bool) (alloc1 : Int) (st_is_sparse : Bool) (alloc2 : Int) (dof_invweight0_shape0 : Int) (jnt_solref_shape0 : Int) (jnt_solimp_shape0 : Int) (opt_timestep_shape0 : Int) (tid0 : Int) (tid1 : Int)
local notation "KW" => Gen.Constraint._limit_slide_hinge__kernel nv opt_timestep opt_disableflags jnt_qposadr jnt_dofadr jnt_solref jnt_solimp jnt_range jnt_margin dof_invweight0 jnt_limited_slide_hinge_adr qpos_in qvel_in njmax_in njmax_nnz_in nl_out nefc_out efc_type_out efc_id_out efc_jtdaj_adr_out efc_jtdaj_nrow_out efc_jtdaj_nblock_out efc_J_rownnz_out efc_J_rowadr_out efc_J_colind_out efc_J_out efc_pos_out efc_margin_out efc_D_out efc_vel_out efc_aref_out efc_frictionloss_out efc_nnz_out jnt_range_shape0 jnt_margin_shape0 alloc0 st_is_sparse_and_newton alloc1 st_is_sparse alloc2 dof_invweight0_shape0 jnt_solref_shape0 jnt_solimp_shape0 opt_timestep_shape0 tid0 tid1

set_option maxHeartbeats 1600000 in
theorem limit_slide_hinge_counts : CountsAs KW "nl_out" tid0 1 := by
  unfold CountsAs Gen.Constraint._limit_slide_hinge__kernel
  refine ⟨?_, ?_, ?_, ?_, ?_, ?_⟩
  · intro idx; csimp []
  · csimp [] <;> (intros; split_ifs <;> first | rfl | omega | (simp_all; done) | (simp_all; omega))
  · csimp [] <;> (intros; split_ifs <;> first | rfl | omega | (simp_all; done) | (simp_all; omega))
  · intro idx hidx; csimp [Ne.symm hidx]
  · intro c hc hne idx
    simp only [List.mem_cons, List.mem_nil_iff, or_false] at hc
    rcases hc with rfl | rfl | rfl
    all_goals first | exact absurd rfl hne | csimp []
  · csimp [counters]

set_option maxHeartbeats 1600000 in
theorem limit_slide_hinge_type : AllW (fun w => w.arr = "efc_type_out" → w.val = WVal.i 3) KW := by
  unfold Gen.Constraint._limit_slide_hinge__kernel
  csimp []
end limit_slide_hinge

/-! ### `_limit_ball__kernel`  (class counter `nl_out`, k = 1, type 3) -/
section limit_ball
variable {K : Type} [Scalar K] (nv : Int) (opt_timestep : (Int → K)) (opt_disableflags : Int) (jnt_qposadr : (Int → Int)) (jnt_dofadr : (Int → Int)) (jnt_solref : (Int → Int → V2 K)) (jnt_solimp : (Int → Int → V5 K)) (jnt_range : (Int → Int → V2 K)) (jnt_margin : (Int → Int → K)) (dof_invweight0 : (Int → Int → K)) (jnt_limited_ball_adr : (Int → Int)) (qpos_in : (Int → Int → K)) (qvel_in : (Int → Int → K)) (njmax_in : Int) (njmax_nnz_in : Int) (nl_out : (Int → Int)) (nefc_out : (Int → Int)) (efc_type_out : (Int → Int → Int)) (efc_id_out : (Int → Int → Int)) (efc_jtdaj_adr_out : (Int → Int → Int)) (efc_jtdaj_nrow_out : (Int → Int → Int)) (efc_jtdaj_nblock_out : (Int → Int)) (efc_J_rownnz_out : (Int → Int → Int)) (efc_J_rowadr_out : (Int → Int → Int)) (efc_J_colind_out : (Int → Int → Int → Int)) (efc_J_out : (Int → Int → Int → K)) (efc_pos_out : (Int → Int → K)) (efc_margin_out : (Int → Int → K)) (efc_D_out : (Int → Int → K)) (efc_vel_out : (Int → Int → K)) (efc_aref_out : (Int → Int → K)) (efc_frictionloss_out : (Int → Int → K)) (efc_nnz_out : (Int → Int)) (jnt_range_shape0 : Int) (jnt_margin_shape0 : Int) (alloc0 : Int) (st_is_sparse_and_newton : Bool) (alloc1 : Int) (st_is_sparse : Bool) (alloc2 : Int) (dof_invweight0_shape0 : Int) (jnt_solref_shape0 : Int) (jnt_solimp_shape0 : Int) (opt_timestep_shape0 : Int) (tid0 : Int) (tid1 : Int)
local notation "KW" => Gen.Constraint._limit_ball__kernel nv opt_timestep opt_disableflags jnt_qposadr jnt_dofadr jnt_solref jnt_solimp jnt_range jnt_margin dof_invweight0 jnt_limited_ball_adr qpos_in qvel_in njmax_in njmax_nnz_in nl_out nefc_out efc_type_out efc_id_out efc_jtdaj_adr_out efc_jtdaj_nrow_out efc_jtdaj_nblock_out efc_J_rownnz_out efc_J_rowadr_out efc_J_colind_out efc_J_out efc_pos_out efc_margin_out efc_D_out efc_vel_out efc_aref_out efc_frictionloss_out efc_nnz_out jnt_range_shape0 jnt_margin_shape0 alloc0 st_is_sparse_and_newton alloc1 st_is_sparse alloc2 dof_invweight0_shape0 jnt_solref_shape0 jnt_solimp_shape0 opt_timestep_shape0 tid0 tid1

set_option maxHeartbeats 1600000 in
theorem limit_ball_counts : CountsAs KW "nl_out" tid0 1 := by
  unfold CountsAs Gen.Constraint._limit_ball__kernel
  refine ⟨?_, ?_, ?_, ?_, ?_, ?_⟩
  · intro idx; csimp []
  · csimp [] <;> (intros; split_ifs <;> first | rfl | omega | (simp_all; done) | (simp_all; omega))
  · csimp [] <;> (intros; split_ifs <;> first | rfl | omega | (simp_all; done) | (simp_all; omega))
  · intro idx hidx; csimp [Ne.symm hidx]
  · intro c hc hne idx
    simp only [List.mem_cons, List.mem_nil_iff, or_false] at hc
    rcases hc with rfl | rfl | rfl
    all_goals first | exact absurd rfl hne | csimp []
  · csimp [counters]

set_option maxHeartbeats 1600000 in
theorem limit_ball_type : AllW (fun w => w.arr = "efc_type_out" → w.val = WVal.i 3) KW := by
  unfold Gen.Constraint._limit_ball__kernel
  csimp []
end limit_ball

/-! ### `_limit_tendon__kernel`  (class counter `nl_out`, k = 1, type 4) -/
section limit_tendon
variable {K : Type} [Scalar K] (nv : Int) (opt_timestep : (Int → K)) (opt_disableflags : Int) (ten_J_rownnz : (Int → Int)) (ten_J_rowadr : (Int → Int)) (ten_J_colind : (Int → Int)) (tendon_solref_lim : (Int → Int → V2 K)) (tendon_solimp_lim : (Int → Int → V5 K)) (tendon_range : (Int → Int → V2 K)) (tendon_margin : (Int → Int → K)) (tendon_invweight0 : (Int → Int → K)) (tendon_limited_adr : (Int → Int)) (qvel_in : (Int → Int → K)) (ten_J_in : (Int → Int → K)) (ten_length_in : (Int → Int → K)) (njmax_in : Int) (njmax_nnz_in : Int) (nl_out : (Int → Int)) (nefc_out : (Int → Int)) (efc_type_out : (Int → Int → Int)) (efc_id_out : (Int → Int → Int)) (efc_jtdaj_adr_out : (Int → Int → Int)) (efc_jtdaj_nrow_out : (Int → Int → Int)) (efc_jtdaj_nblock_out : (Int → Int)) (efc_J_rownnz_out : (Int → Int → Int)) (efc_J_rowadr_out : (Int → Int → Int)) (efc_J_colind_out : (Int → Int → Int → Int)) (efc_J_out : (Int → Int → Int → K)) (efc_pos_out : (Int → Int → K)) (efc_margin_out : (Int → Int → K)) (efc_D_out : (Int → Int → K)) (efc_vel_out : (Int → Int → K)) (efc_aref_out : (Int → Int → K)) (efc_frictionloss_out : (Int → Int → K)) (efc_nnz_out : (Int → Int)) (tendon_range_shape0 : Int) (tendon_margin_shape0 : Int) (alloc0 : Int) (st_is_sparse_and_newton : Bool) (alloc1 : Int) (st_is_sparse : Bool) (alloc2 : Int) (tendon_invweight0_shape0 : Int) (tendon_solref_lim_shape0 : Int) (tendon_solimp_lim_shape0 : Int) (opt_timestep_shape0 : Int) (tid0 : Int) (tid1 : Int)
local notation "KW" => Gen.Constraint._limit_tendon__kernel nv opt_timestep opt_disableflags ten_J_rownnz ten_J_rowadr ten_J_colind tendon_solref_lim tendon_solimp_lim tendon_range tendon_margin tendon_invweight0 tendon_limited_adr qvel_in ten_J_in ten_length_in njmax_in njmax_nnz_in nl_out nefc_out efc_type_out efc_id_out efc_jtdaj_adr_out efc_jtdaj_nrow_out efc_jtdaj_nblock_out efc_J_rownnz_out efc_J_rowadr_out efc_J_colind_out efc_J_out efc_pos_out efc_margin_out efc_D_out efc_vel_out efc_aref_out efc_frictionloss_out efc_nnz_out tendon_range_shape0 tendon_margin_shape0 alloc0 st_is_sparse_and_newton alloc1 st_is_sparse alloc2 tendon_invweight0_shape0 tendon_solref_lim_shape0 tendon_solimp_lim_shape0 opt_timestep_shape0 tid0 tid1

set_option maxHeartbeats 1600000 in
theorem limit_tendon_counts : CountsAs KW "nl_out" tid0 1 := by
  unfold CountsAs Gen.Constraint._limit_tendon__kernel
  refine ⟨?_, ?_, ?_, ?_, ?_, ?_⟩
  · intro idx; csimp []
  · csimp [] <;> (intros; split_ifs <;> first | rfl | omega | (simp_all; done) | (simp_all; omega))
  · csimp [] <;> (intros; split_ifs <;> first | rfl | omega | (simp_all; done) | (simp_all; omega))
  · intro idx hidx; csimp [Ne.symm hidx]
  · intro c hc hne idx
    simp only [List.mem_cons, List.mem_nil_iff, or_false] at hc
    rcases hc with rfl | rfl | rfl
    all_goals first | exact absurd rfl hne | csimp []
  · csimp [counters]

set_option maxHeartbeats 1600000 in
theorem limit_tendon_type : AllW (fun w => w.arr = "efc_type_out" → w.val = WVal.i 4) KW := by
  unfold Gen.Constraint._limit_tendon__kernel
  csimp []
end limit_tendon

end Mjw.Lemmas.C05
