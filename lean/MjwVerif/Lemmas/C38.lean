/-
  Helper lemmas for C38 (active-DOF compaction, `Model/Compact.lean`).
-/
import MjwVerif.Lemmas.Real
import MjwVerif.Model.Compact
import MjwVerif.Gen.Island
import MjwVerif.Gen.Solver

namespace Mjw.Lemmas.C38
open Mjw Mjw.Compact

/-! ### bit facts -/

theorem iand_ior_nvmax (x : Int) : Mjw.iand (Mjw.ior x NVMAX) NVMAX = NVMAX := by
  unfold Mjw.iand Mjw.ior
  rw [BitVec.ofInt_toInt]
  have : (BitVec.ofInt 32 x ||| BitVec.ofInt 32 NVMAX) &&& BitVec.ofInt 32 NVMAX
      = BitVec.ofInt 32 NVMAX := by
    ext i hi
    simp only [BitVec.getElem_and, BitVec.getElem_or]
    cases (BitVec.ofInt 32 x)[i] <;> cases (BitVec.ofInt 32 NVMAX)[i] <;> rfl
  rw [this]
  decide

theorem hasNvmaxBit_ior (x : Int) : hasNvmaxBit (Mjw.ior x 128) = true := by
  unfold hasNvmaxBit
  have h := iand_ior_nvmax x
  unfold NVMAX at h ⊢
  rw [h]
  decide

/-! ### `lookupI` / `lookupF` basics -/

section lookup
variable {K : Type}

theorem lookupI_append (a b : List (Write K)) (arr : String) (ix : List Int) (d : Int) :
    Write.lookupI (a ++ b) arr ix d = Write.lookupI b arr ix (Write.lookupI a arr ix d) := by
  unfold Write.lookupI
  rw [List.foldl_append]

theorem lookupI_nil (arr : String) (ix : List Int) (d : Int) :
    Write.lookupI ([] : List (Write K)) arr ix d = d := rfl

theorem lookupI_not_touches (ws : List (Write K)) (arr : String) (ix : List Int) (d : Int)
    (h : touches ws arr ix = false) : Write.lookupI ws arr ix d = d := by
  induction ws generalizing d with
  | nil => rfl
  | cons w ws ih =>
    unfold touches at h
    rw [List.any_cons, Bool.or_eq_false_iff] at h
    have : Write.lookupI (w :: ws) arr ix d = Write.lookupI ws arr ix d := by
      unfold Write.lookupI
      rw [List.foldl_cons]
      simp only [h.1]
      rfl
    rw [this]
    exact ih d h.2

theorem lookupF_not_touches [Scalar K] (ws : List (Write K)) (arr : String) (ix : List Int) (d : K)
    (h : touches ws arr ix = false) : Write.lookupF ws arr ix d = d := by
  induction ws generalizing d with
  | nil => rfl
  | cons w ws ih =>
    unfold touches at h
    rw [List.any_cons, Bool.or_eq_false_iff] at h
    have : Write.lookupF (w :: ws) arr ix d = Write.lookupF ws arr ix d := by
      unfold Write.lookupF
      rw [List.foldl_cons]
      simp only [h.1]
      rfl
    rw [this]
    exact ih d h.2

theorem touches_append (a b : List (Write K)) (arr : String) (ix : List Int) :
    touches (a ++ b) arr ix = (touches a arr ix || touches b arr ix) := by
  unfold touches
  rw [List.any_append]

/-- every write of `ws` has an index that starts with `t` -/
def HeadIs (t : Int) (ws : List (Write K)) : Prop := ∀ wr ∈ ws, wr.idx.head? = some t

theorem touches_of_headIs {t t' : Int} {ws : List (Write K)} (h : HeadIs t ws) (arr : String)
    (rest : List Int) (hne : t ≠ t') : touches ws arr (t' :: rest) = false := by
  unfold touches
  rw [List.any_eq_false]
  intro wr hwr
  have := h wr hwr
  intro hc
  rw [Bool.and_eq_true] at hc
  have hidx : wr.idx = t' :: rest := by simpa using hc.2
  rw [hidx] at this
  simp at this
  exact hne this.symm

/-! ### memory semantics -/

theorem applyWsI_eq (m : IMem) (ws : List (Write K)) (a : String) (ix : List Int) :
    applyWsI m ws a ix = Write.lookupI ws a ix (m a ix) := by
  induction ws generalizing m with
  | nil => rfl
  | cons w ws ih =>
    have h1 : applyWsI m (w :: ws) = applyWsI (applyW1I m w) ws := rfl
    rw [h1, ih]
    unfold Write.lookupI
    rw [List.foldl_cons]
    rfl

theorem applyWsF_eq [Scalar K] (m : FMem K) (ws : List (Write K)) (a : String) (ix : List Int) :
    applyWsF m ws a ix = Write.lookupF ws a ix (m a ix) := by
  induction ws generalizing m with
  | nil => rfl
  | cons w ws ih =>
    have h1 : applyWsF m (w :: ws) = applyWsF (applyW1F m w) ws := rfl
    rw [h1, ih]
    unfold Write.lookupF
    rw [List.foldl_cons]
    rfl

variable {T : Type}

theorem launchI_cons (W : T → List (Write K)) (t : T) (order : List T) (m : IMem) :
    launchI W (t :: order) m = launchI W order (applyWsI m (W t)) := rfl

theorem launchF_cons [Scalar K] (W : T → List (Write K)) (t : T) (order : List T) (m : FMem K) :
    launchF W (t :: order) m = launchF W order (applyWsF m (W t)) := rfl

/-- a cell that no thread of the launch touches keeps its value -/
theorem launchI_untouched (W : T → List (Write K)) (order : List T) (m : IMem) (a : String) (ix : List Int)
    (h : ∀ t ∈ order, touches (W t) a ix = false) : launchI W order m a ix = m a ix := by
  induction order generalizing m with
  | nil => rfl
  | cons t order ih =>
    rw [launchI_cons, ih _ (fun t' ht' => h t' (List.mem_cons_of_mem _ ht')), applyWsI_eq,
      lookupI_not_touches _ _ _ _ (h t List.mem_cons_self)]

theorem launchF_untouched [Scalar K] (W : T → List (Write K)) (order : List T) (m : FMem K) (a : String)
    (ix : List Int) (h : ∀ t ∈ order, touches (W t) a ix = false) : launchF W order m a ix = m a ix := by
  induction order generalizing m with
  | nil => rfl
  | cons t order ih =>
    rw [launchF_cons, ih _ (fun t' ht' => h t' (List.mem_cons_of_mem _ ht')), applyWsF_eq,
      lookupF_not_touches _ _ _ _ (h t List.mem_cons_self)]

/-- **cell ownership**: if among the threads of the launch only `t0` touches cell `a[ix]`, the final value
    of the cell is what `t0`'s write list makes of the pre-launch value — whatever the task order. -/
theorem launchI_cell [DecidableEq T] (W : T → List (Write K)) (order : List T) (hnd : order.Nodup) (m : IMem)
    (a : String) (ix : List Int) (t0 : T) (hown : ∀ t ∈ order, t ≠ t0 → touches (W t) a ix = false) :
    launchI W order m a ix = if t0 ∈ order then Write.lookupI (W t0) a ix (m a ix) else m a ix := by
  induction order generalizing m with
  | nil => rfl
  | cons t order ih =>
    have hnd' := List.nodup_cons.mp hnd
    rw [launchI_cons]
    by_cases ht : t = t0
    · subst ht
      rw [launchI_untouched _ _ _ _ _ (fun t' ht' => hown t' (List.mem_cons_of_mem _ ht')
        (fun h => hnd'.1 (h ▸ ht'))), applyWsI_eq]
      simp
    · rw [ih hnd'.2 _ (fun t' ht' => hown t' (List.mem_cons_of_mem _ ht')), applyWsI_eq,
        lookupI_not_touches _ _ _ _ (hown t List.mem_cons_self ht)]
      have : (t0 ∈ t :: order) ↔ t0 ∈ order := by
        rw [List.mem_cons]; constructor
        · rintro (h | h)
          · exact absurd h.symm ht
          · exact h
        · exact Or.inr
      simp only [this]

theorem launchF_cell [Scalar K] [DecidableEq T] (W : T → List (Write K)) (order : List T) (hnd : order.Nodup)
    (m : FMem K) (a : String) (ix : List Int) (t0 : T)
    (hown : ∀ t ∈ order, t ≠ t0 → touches (W t) a ix = false) :
    launchF W order m a ix = if t0 ∈ order then Write.lookupF (W t0) a ix (m a ix) else m a ix := by
  induction order generalizing m with
  | nil => rfl
  | cons t order ih =>
    have hnd' := List.nodup_cons.mp hnd
    rw [launchF_cons]
    by_cases ht : t = t0
    · subst ht
      rw [launchF_untouched _ _ _ _ _ (fun t' ht' => hown t' (List.mem_cons_of_mem _ ht')
        (fun h => hnd'.1 (h ▸ ht'))), applyWsF_eq]
      simp
    · rw [ih hnd'.2 _ (fun t' ht' => hown t' (List.mem_cons_of_mem _ ht')), applyWsF_eq,
        lookupF_not_touches _ _ _ _ (hown t List.mem_cons_self ht)]
      have : (t0 ∈ t :: order) ↔ t0 ∈ order := by
        rw [List.mem_cons]; constructor
        · rintro (h | h)
          · exact absurd h.symm ht
          · exact h
        · exact Or.inr
      simp only [this]

/-- order independence of a whole launch in which every cell has at most one owner among the threads -/
theorem launchI_order_independent [DecidableEq T] (W : T → List (Write K)) (o₁ o₂ : List T)
    (h₁ : o₁.Nodup) (h₂ : o₂.Nodup) (hmem : ∀ t, t ∈ o₁ ↔ t ∈ o₂) (m : IMem)
    (hown : ∀ a ix, ∃ t0, ∀ t, t ≠ t0 → touches (W t) a ix = false) :
    launchI W o₁ m = launchI W o₂ m := by
  funext a ix
  obtain ⟨t0, ht0⟩ := hown a ix
  rw [launchI_cell W o₁ h₁ m a ix t0 (fun t _ h => ht0 t h),
    launchI_cell W o₂ h₂ m a ix t0 (fun t _ h => ht0 t h)]
  simp only [hmem]

end lookup


/-! ### the two loops of `_compact_dofs` -/

section loops
variable {K : Type}

theorem grantWrites_append (w nvmax c : Int) (l₁ l₂ : List Int) :
    grantWrites (K := K) w nvmax c (l₁ ++ l₂)
      = grantWrites w nvmax c l₁ ++ grantWrites w nvmax (c + (l₁.length : Int)) l₂ := by
  induction l₁ generalizing c with
  | nil => simp [grantWrites]
  | cons d l₁ ih =>
    simp only [List.cons_append, grantWrites, ih, List.append_assoc, List.length_cons]
    congr 3
    push_cast; ring

theorem grantWrites_singleton (w nvmax c d : Int) :
    grantWrites (K := K) w nvmax c [d] = grant w nvmax c d := by
  simp [grantWrites]

theorem dofRange_length (adr num : Int) : (dofRange adr num).length = num.toNat := by
  simp [dofRange]

theorem dofRange_succ (adr : Int) (n : Nat) :
    (List.range (n + 1)).map (fun (j : Nat) => adr + (j : Int))
      = (List.range n).map (fun (j : Nat) => adr + (j : Int)) ++ [adr + (n : Int)] := by
  rw [List.range_succ, List.map_append]; rfl

theorem awakeDofsN_succ (n : Nat) (adr num awake : Int → Int) :
    awakeDofsN (n + 1) adr num awake
      = awakeDofsN n adr num awake ++ (if awake (n : Int) = 1 then dofRange (adr n) (num n) else []) := by
  unfold awakeDofsN
  rw [List.range_succ, List.flatMap_append]
  simp

/-- inner loop `for j in range(num)` of `_compact_dofs`, for any loop body `f` that does what the source does -/
theorem inner_loop (w nvmax adr num : Int) (f : Int → List (Write K) × Int → List (Write K) × Int)
    (hf : ∀ j ws c, f j (ws, c) = (ws ++ grant w nvmax c (adr + j), c + 1)) (ws : List (Write K)) (c : Int) :
    Mjw.forRange 0 num (ws, c) f
      = (ws ++ grantWrites w nvmax c (dofRange adr num), c + ((dofRange adr num).length : Int)) := by
  unfold Mjw.forRange dofRange
  rw [Int.sub_zero]
  generalize num.toNat = n
  induction n with
  | zero => simp [grantWrites]
  | succ n ih =>
    rw [List.range_succ, List.foldl_append, ih, List.map_append, grantWrites_append]
    simp only [List.foldl_cons, List.foldl_nil, hf, Int.zero_add, Int.ofNat_eq_natCast, grantWrites_singleton,
      List.length_map, List.length_range, List.append_assoc, List.length_append, List.length_singleton,
      List.map_cons, List.map_nil]
    congr 1
    push_cast; ring

/-- outer loop `for t in range(ntree)` of `_compact_dofs` -/
theorem outer_loop (w nvmax ntree : Int) (adr num awake : Int → Int)
    (g : Int → Int × List (Write K) → Int × List (Write K))
    (hg : ∀ t c ws, g t (c, ws) =
      if awake t = 1 then
        (c + ((dofRange (adr t) (num t)).length : Int), ws ++ grantWrites w nvmax c (dofRange (adr t) (num t)))
      else (c, ws))
    (c : Int) (ws : List (Write K)) :
    Mjw.forRange 0 ntree (c, ws) g
      = (c + ((awakeDofs ntree adr num awake).length : Int),
         ws ++ grantWrites w nvmax c (awakeDofs ntree adr num awake)) := by
  unfold Mjw.forRange awakeDofs
  rw [Int.sub_zero]
  generalize ntree.toNat = n
  induction n with
  | zero => simp [awakeDofsN, grantWrites]
  | succ n ih =>
    rw [List.range_succ, List.foldl_append, ih, awakeDofsN_succ]
    simp only [List.foldl_cons, List.foldl_nil, hg, Int.zero_add, Int.ofNat_eq_natCast]
    by_cases ha : awake (n : Int) = 1
    · simp only [ha, if_true, grantWrites_append, List.length_append, List.append_assoc]
      congr 1
      push_cast; ring
    · simp [ha]

end loops

theorem touches_grant_other {K : Type} (w nvmax c d : Int) (arr : String) (ix : List Int)
    (h1 : arr ≠ "dof_cdof_out") (h2 : arr ≠ "cdof_dof_out") :
    touches (grant (K := K) w nvmax c d) arr ix = false := by
  unfold grant touches
  split
  · simp [Ne.symm h1, Ne.symm h2]
  · rfl

theorem touches_grantWrites_other {K : Type} (w nvmax c : Int) (ds : List Int) (arr : String) (ix : List Int)
    (h1 : arr ≠ "dof_cdof_out") (h2 : arr ≠ "cdof_dof_out") :
    touches (grantWrites (K := K) w nvmax c ds) arr ix = false := by
  induction ds generalizing c with
  | nil => rfl
  | cons d ds ih =>
    simp only [grantWrites, touches_append, touches_grant_other _ _ _ _ _ _ h1 h2, ih, Bool.or_self]


/-! ### what a thread's `grantWrites` leave in a cell -/

section grants
variable {K : Type}

theorem lookupI_grant_dof (w nvmax c x d dflt : Int) :
    Write.lookupI (grant (K := K) w nvmax c x) "dof_cdof_out" [w, d] dflt
      = if x = d ∧ c < nvmax then c else dflt := by
  unfold grant
  by_cases hc : c < nvmax
  · by_cases hx : x = d
    · simp [Write.lookupI, hc, hx]
    · simp [Write.lookupI, hc, hx]
  · simp [Write.lookupI, hc]

theorem lookupI_grant_cdof (w nvmax c x y dflt : Int) :
    Write.lookupI (grant (K := K) w nvmax c x) "cdof_dof_out" [w, y] dflt
      = if c = y ∧ c < nvmax then x else dflt := by
  unfold grant
  by_cases hc : c < nvmax
  · by_cases hx : c = y
    · subst hx
      simp [Write.lookupI, hc]
    · simp [Write.lookupI, hc, hx]
  · simp [Write.lookupI, hc]

theorem lookupI_grantWrites_dof (w nvmax c : Int) (ds : List Int) (hnd : ds.Nodup) (d dflt : Int) :
    Write.lookupI (grantWrites (K := K) w nvmax c ds) "dof_cdof_out" [w, d] dflt
      = if d ∈ ds ∧ c + (ds.idxOf d : Int) < nvmax then c + (ds.idxOf d : Int) else dflt := by
  induction ds generalizing c dflt with
  | nil => simp [grantWrites, lookupI_nil]
  | cons x ds ih =>
    have hnd' := List.nodup_cons.mp hnd
    simp only [grantWrites, lookupI_append, lookupI_grant_dof, ih _ hnd'.2]
    by_cases hx : x = d
    · subst hx
      simp [hnd'.1]
    · have hx' : ¬ d = x := fun h => hx h.symm
      rw [List.idxOf_cons_ne _ hx]
      simp only [hx, false_and, if_false, List.mem_cons, hx', false_or]
      have : c + 1 + (List.idxOf d ds : Int) = c + ((List.idxOf d ds).succ : Int) := by push_cast; ring
      rw [this]

theorem lookupI_grantWrites_cdof (w nvmax c : Int) (ds : List Int) (y dflt : Int) :
    Write.lookupI (grantWrites (K := K) w nvmax c ds) "cdof_dof_out" [w, y] dflt
      = if c ≤ y ∧ y < c + (ds.length : Int) ∧ y < nvmax then ds.getD (y - c).toNat (-1) else dflt := by
  induction ds generalizing c dflt with
  | nil =>
    have : ¬ (c ≤ y ∧ y < c + ((([] : List Int).length : Nat) : Int) ∧ y < nvmax) := by
      simp; omega
    simp only [grantWrites, lookupI_nil, this, if_false]
  | cons x ds ih =>
    simp only [grantWrites, lookupI_append, lookupI_grant_cdof, ih, List.length_cons]
    by_cases hy : c = y
    · subst hy
      have h1 : ¬ (c + 1 ≤ c ∧ c < c + 1 + (ds.length : Int) ∧ c < nvmax) := by omega
      rw [if_neg h1]
      by_cases hc : c < nvmax
      · have h2 : c ≤ c ∧ c < c + ((ds.length + 1 : Nat) : Int) ∧ c < nvmax := by
          refine ⟨le_refl _, ?_, hc⟩; push_cast; omega
        rw [if_pos h2, if_pos ⟨rfl, hc⟩]; simp
      · have h2 : ¬ (c ≤ c ∧ c < c + ((ds.length + 1 : Nat) : Int) ∧ c < nvmax) := fun h => hc h.2.2
        rw [if_neg h2, if_neg (fun h => hc h.2)]
    · rw [if_neg (fun (h : c = y ∧ c < nvmax) => hy h.1)]
      by_cases hr : c + 1 ≤ y ∧ y < c + 1 + (ds.length : Int) ∧ y < nvmax
      · have h2 : c ≤ y ∧ y < c + ((ds.length + 1 : Nat) : Int) ∧ y < nvmax := by
          refine ⟨by omega, ?_, hr.2.2⟩; push_cast; omega
        rw [if_pos hr, if_pos h2]
        have : (y - c).toNat = (y - (c + 1)).toNat + 1 := by omega
        rw [this, List.getD_cons_succ]
      · have h2 : ¬ (c ≤ y ∧ y < c + ((ds.length + 1 : Nat) : Int) ∧ y < nvmax) := by
          intro h; apply hr; refine ⟨by omega, ?_, h.2.2⟩; have := h.2.1; push_cast at this; omega
        rw [if_neg hr, if_neg h2]

end grants


/-! ### the whole write list of a `_compact_dofs` thread -/

section compactws
variable {K : Type}

theorem headIs_append {t : Int} {a b : List (Write K)} (ha : HeadIs t a) (hb : HeadIs t b) : HeadIs t (a ++ b) := by
  intro wr hwr
  rcases List.mem_append.mp hwr with h | h
  · exact ha wr h
  · exact hb wr h

theorem headIs_grant (w nvmax c d : Int) : HeadIs w (grant (K := K) w nvmax c d) := by
  unfold grant
  split
  · intro wr hwr
    simp only [List.mem_cons, List.mem_nil_iff, or_false] at hwr
    rcases hwr with h | h <;> subst h <;> rfl
  · intro wr hwr; cases hwr

theorem headIs_grantWrites (w nvmax c : Int) (ds : List Int) : HeadIs w (grantWrites (K := K) w nvmax c ds) := by
  induction ds generalizing c with
  | nil => intro wr hwr; cases hwr
  | cons d ds ih => exact headIs_append (headIs_grant _ _ _ _) (ih _)

theorem headIs_tailWrites (w nvmax ov count : Int) : HeadIs w (tailWrites (K := K) w nvmax ov count) := by
  unfold tailWrites
  split
  · intro wr hwr
    simp only [List.mem_cons, List.mem_nil_iff, or_false] at hwr
    rcases hwr with h | h <;> subst h <;> rfl
  · intro wr hwr
    simp only [List.mem_cons, List.mem_nil_iff, or_false] at hwr
    subst hwr; rfl

theorem headIs_compactWrites (w nvmax ov : Int) (ds : List Int) : HeadIs w (compactWrites (K := K) w nvmax ov ds) :=
  headIs_append (headIs_grantWrites _ _ _ _) (headIs_tailWrites _ _ _ _)

theorem touches_tailWrites_other (w nvmax ov count : Int) (arr : String) (ix : List Int)
    (h1 : arr ≠ "overflow_out") (h2 : arr ≠ "ncdof_out") :
    touches (tailWrites (K := K) w nvmax ov count) arr ix = false := by
  unfold tailWrites touches
  split <;> simp [Ne.symm h1, Ne.symm h2]

theorem lookupI_compactWrites_dof (w nvmax ov : Int) (ds : List Int) (hnd : ds.Nodup) (d dflt : Int) :
    Write.lookupI (compactWrites (K := K) w nvmax ov ds) "dof_cdof_out" [w, d] dflt
      = if d ∈ ds ∧ (ds.idxOf d : Int) < nvmax then (ds.idxOf d : Int) else dflt := by
  unfold compactWrites
  rw [lookupI_append, lookupI_not_touches _ _ _ _ (touches_tailWrites_other _ _ _ _ _ _ (by decide) (by decide)),
    lookupI_grantWrites_dof _ _ _ _ hnd]
  simp only [Int.zero_add]

theorem lookupI_compactWrites_cdof (w nvmax ov : Int) (ds : List Int) (y dflt : Int) :
    Write.lookupI (compactWrites (K := K) w nvmax ov ds) "cdof_dof_out" [w, y] dflt
      = if 0 ≤ y ∧ y < (ds.length : Int) ∧ y < nvmax then ds.getD y.toNat (-1) else dflt := by
  unfold compactWrites
  rw [lookupI_append, lookupI_not_touches _ _ _ _ (touches_tailWrites_other _ _ _ _ _ _ (by decide) (by decide)),
    lookupI_grantWrites_cdof]
  simp only [Int.zero_add, Int.sub_zero]

theorem lookupI_compactWrites_ncdof (w nvmax ov : Int) (ds : List Int) (dflt : Int) :
    Write.lookupI (compactWrites (K := K) w nvmax ov ds) "ncdof_out" [w] dflt = min (ds.length : Int) nvmax := by
  unfold compactWrites
  rw [lookupI_append, lookupI_not_touches _ _ _ _ (touches_grantWrites_other _ _ _ _ _ _ (by decide) (by decide))]
  unfold tailWrites
  by_cases h : (ds.length : Int) > nvmax
  · simp [Write.lookupI, h]; omega
  · simp [Write.lookupI, h]; omega

theorem lookupI_compactWrites_overflow (w nvmax ov : Int) (ds : List Int) (dflt : Int) :
    Write.lookupI (compactWrites (K := K) w nvmax ov ds) "overflow_out" [w] dflt
      = if (ds.length : Int) > nvmax then Mjw.ior ov 128 else dflt := by
  unfold compactWrites
  rw [lookupI_append, lookupI_not_touches _ _ _ _ (touches_grantWrites_other _ _ _ _ _ _ (by decide) (by decide))]
  unfold tailWrites
  by_cases h : (ds.length : Int) > nvmax
  · simp [Write.lookupI, h]
  · simp [Write.lookupI, h]

theorem touches_compactWrites_other (w nvmax ov : Int) (ds : List Int) (arr : String) (ix : List Int)
    (h1 : arr ≠ "dof_cdof_out") (h2 : arr ≠ "cdof_dof_out") (h3 : arr ≠ "overflow_out") (h4 : arr ≠ "ncdof_out") :
    touches (compactWrites (K := K) w nvmax ov ds) arr ix = false := by
  unfold compactWrites
  rw [touches_append, touches_grantWrites_other _ _ _ _ _ _ h1 h2, touches_tailWrites_other _ _ _ _ _ _ h3 h4]
  rfl

/-! ### `_reset_compact_maps` -/

theorem reset_refines [Scalar K] (nv nvmax_pad_in : Int) (dof_cdof_out cdof_dof_out : Int → Int → Int)
    (tid0 tid1 : Int) :
    Gen.Island._reset_compact_maps (K := K) nv nvmax_pad_in dof_cdof_out cdof_dof_out tid0 tid1
      = resetWrites nv nvmax_pad_in tid0 tid1 := by
  unfold Gen.Island._reset_compact_maps resetWrites
  by_cases h1 : tid1 < nv <;> by_cases h2 : tid1 < nvmax_pad_in <;> simp [h1, h2]

theorem touches_resetWrites_ne (nv pad w i : Int) (arr : String) (w' i' : Int) (h : (w, i) ≠ (w', i')) :
    touches (resetWrites (K := K) nv pad w i) arr [w', i'] = false := by
  have hne : w = w' → ¬ i = i' := fun h1 h2 => h (by rw [h1, h2])
  unfold resetWrites touches
  by_cases h1 : i < nv <;> by_cases h2 : i < pad <;> simp [h1, h2] <;> (try constructor) <;> intro _ <;> exact hne

theorem touches_resetWrites_other (nv pad w i : Int) (arr : String) (ix : List Int)
    (h1 : arr ≠ "dof_cdof_out") (h2 : arr ≠ "cdof_dof_out") :
    touches (resetWrites (K := K) nv pad w i) arr ix = false := by
  unfold resetWrites touches
  by_cases h1' : i < nv <;> by_cases h2' : i < pad <;> simp [h1', h2', Ne.symm h1, Ne.symm h2]

theorem touches_resetWrites_len (nv pad w i : Int) (arr : String) (ix : List Int) (h : ix.length ≠ 2) :
    touches (resetWrites (K := K) nv pad w i) arr ix = false := by
  unfold resetWrites touches
  have : ∀ a b : Int, ¬ ([a, b] = ix) := by
    intro a b hh; apply h; rw [← hh]; rfl
  by_cases h1' : i < nv <;> by_cases h2' : i < pad <;> simp [h1', h2', this]

theorem lookupI_resetWrites_dof (nv pad w i dflt : Int) :
    Write.lookupI (resetWrites (K := K) nv pad w i) "dof_cdof_out" [w, i] dflt = if i < nv then -1 else dflt := by
  unfold resetWrites
  by_cases h1' : i < nv <;> by_cases h2' : i < pad <;> simp [h1', h2', Write.lookupI]

theorem lookupI_resetWrites_cdof (nv pad w i dflt : Int) :
    Write.lookupI (resetWrites (K := K) nv pad w i) "cdof_dof_out" [w, i] dflt = if i < pad then -1 else dflt := by
  unfold resetWrites
  by_cases h1' : i < nv <;> by_cases h2' : i < pad <;> simp [h1', h2', Write.lookupI]

end compactws

/-! ### the visiting order `awakeDofs` -/

theorem mem_dofRange (adr num d : Int) : d ∈ dofRange adr num ↔ ∃ j : Int, 0 ≤ j ∧ j < num ∧ d = adr + j := by
  unfold dofRange
  rw [List.mem_map]
  constructor
  · rintro ⟨k, hk, rfl⟩
    rw [List.mem_range] at hk
    exact ⟨(k : Int), by omega, by omega, rfl⟩
  · rintro ⟨j, h0, h1, rfl⟩
    exact ⟨j.toNat, List.mem_range.mpr (by omega), by rw [Int.toNat_of_nonneg h0]⟩

theorem getElem?_dofRange (adr num : Int) (j : Nat) (hj : (j : Int) < num) :
    (dofRange adr num)[j]? = some (adr + (j : Int)) := by
  unfold dofRange
  rw [List.getElem?_map, List.getElem?_range (by omega)]
  rfl

theorem mem_awakeDofsN (n : Nat) (adr num awake : Int → Int) (d : Int) :
    d ∈ awakeDofsN n adr num awake ↔
      ∃ t j : Int, 0 ≤ t ∧ t < (n : Int) ∧ awake t = 1 ∧ 0 ≤ j ∧ j < num t ∧ d = adr t + j := by
  unfold awakeDofsN
  rw [List.mem_flatMap]
  constructor
  · rintro ⟨k, hk, hd⟩
    rw [List.mem_range] at hk
    by_cases ha : awake (k : Int) = 1
    · rw [if_pos ha, mem_dofRange] at hd
      obtain ⟨j, h0, h1, rfl⟩ := hd
      exact ⟨(k : Int), j, by omega, by omega, ha, h0, h1, rfl⟩
    · rw [if_neg ha] at hd; cases hd
  · rintro ⟨t, j, ht0, ht1, ha, h0, h1, rfl⟩
    refine ⟨t.toNat, List.mem_range.mpr (by omega), ?_⟩
    rw [Int.toNat_of_nonneg ht0, if_pos ha, mem_dofRange]
    exact ⟨j, h0, h1, rfl⟩

theorem mem_awakeDofs (ntree : Int) (adr num awake : Int → Int) (d : Int) :
    d ∈ awakeDofs ntree adr num awake ↔
      ∃ t j : Int, 0 ≤ t ∧ t < ntree ∧ awake t = 1 ∧ 0 ≤ j ∧ j < num t ∧ d = adr t + j := by
  unfold awakeDofs
  rw [mem_awakeDofsN]
  constructor
  · rintro ⟨t, j, h0, h1, h⟩; exact ⟨t, j, h0, by omega, h⟩
  · rintro ⟨t, j, h0, h1, h⟩; exact ⟨t, j, h0, by omega, h⟩

/-- a relation that holds inside every awake tree (in `j` order) and across awake trees (in `t` order)
    holds pairwise along the visiting order -/
theorem awakeDofs_pairwise (R : Int → Int → Prop) (ntree : Int) (adr num awake : Int → Int)
    (hin : ∀ t j j', 0 ≤ t → t < ntree → awake t = 1 → 0 ≤ j → j < j' → j' < num t →
      R (adr t + j) (adr t + j'))
    (hcross : ∀ t t' j j', 0 ≤ t → t < t' → t' < ntree → awake t = 1 → awake t' = 1 →
      0 ≤ j → j < num t → 0 ≤ j' → j' < num t' → R (adr t + j) (adr t' + j')) :
    (awakeDofs ntree adr num awake).Pairwise R := by
  unfold awakeDofs awakeDofsN
  rw [List.pairwise_flatMap]
  constructor
  · intro k hk
    rw [List.mem_range] at hk
    by_cases ha : awake (k : Int) = 1
    · rw [if_pos ha]
      unfold dofRange
      rw [List.pairwise_map]
      refine List.Pairwise.imp_of_mem ?_ (List.pairwise_lt_range)
      intro a b ha' hb' hab
      rw [List.mem_range] at ha' hb'
      exact hin k a b (by omega) (by omega) ha (by omega) (by omega) (by omega)
    · rw [if_neg ha]; exact List.Pairwise.nil
  · refine List.Pairwise.imp_of_mem ?_ (List.pairwise_lt_range)
    intro a b ha' hb' hab x hx y hy
    rw [List.mem_range] at ha' hb'
    by_cases h1 : awake (a : Int) = 1
    · by_cases h2 : awake (b : Int) = 1
      · rw [if_pos h1, mem_dofRange] at hx
        rw [if_pos h2, mem_dofRange] at hy
        obtain ⟨j, hj0, hj1, rfl⟩ := hx
        obtain ⟨j', hj0', hj1', rfl⟩ := hy
        exact hcross a b j j' (by omega) (by omega) (by omega) h1 h2 hj0 hj1 hj0' hj1'
      · rw [if_neg h2] at hy; cases hy
    · rw [if_neg h1] at hx; cases hx

theorem awakeDofs_length (ntree : Int) (adr num awake : Int → Int) :
    (awakeDofs ntree adr num awake).length = awakeCount ntree num awake := by
  unfold awakeDofs awakeCount
  generalize ntree.toNat = n
  induction n with
  | zero => rfl
  | succ n ih =>
    rw [awakeDofsN_succ, List.length_append, ih, List.range_succ, List.map_append, List.sum_append]
    by_cases ha : awake (n : Int) = 1
    · simp [ha, dofRange_length]
    · simp [ha]

theorem awakeDofsN_add (k m : Nat) (adr num awake : Int → Int) :
    ∃ rest, awakeDofsN (k + m) adr num awake = awakeDofsN k adr num awake ++ rest := by
  induction m with
  | zero => exact ⟨[], by simp⟩
  | succ m ih =>
    obtain ⟨rest, h⟩ := ih
    refine ⟨rest ++ (if awake ((k + m : Nat) : Int) = 1 then dofRange (adr ((k + m : Nat) : Int)) (num ((k + m : Nat) : Int)) else []), ?_⟩
    rw [← Nat.add_assoc, awakeDofsN_succ, h, List.append_assoc]

/-- the visiting order is: (awake dofs of the trees before `t`) ++ (dofs of `t`) ++ (the rest) -/
theorem awakeDofs_split (ntree : Int) (adr num awake : Int → Int) (t : Int) (h0 : 0 ≤ t) (h1 : t < ntree)
    (ha : awake t = 1) :
    ∃ rest, awakeDofs ntree adr num awake
      = awakeDofs t adr num awake ++ dofRange (adr t) (num t) ++ rest := by
  unfold awakeDofs
  obtain ⟨rest, h⟩ := awakeDofsN_add (t.toNat + 1) (ntree.toNat - (t.toNat + 1)) adr num awake
  have : t.toNat + 1 + (ntree.toNat - (t.toNat + 1)) = ntree.toNat := by omega
  rw [this, awakeDofsN_succ, Int.toNat_of_nonneg h0, if_pos ha] at h
  exact ⟨rest, h⟩

/-- the `j`-th dof of awake tree `t` sits at position `offset(t) + j` of the visiting order, where
    `offset(t)` = number of awake dofs in the trees before `t` -/
theorem awakeDofs_getElem?_tree (ntree : Int) (adr num awake : Int → Int) (t : Int) (h0 : 0 ≤ t) (h1 : t < ntree)
    (ha : awake t = 1) (j : Nat) (hj : (j : Int) < num t) :
    (awakeDofs ntree adr num awake)[(awakeDofs t adr num awake).length + j]? = some (adr t + (j : Int)) := by
  obtain ⟨rest, h⟩ := awakeDofs_split ntree adr num awake t h0 h1 ha
  rw [h, List.append_assoc, List.getElem?_append_right (by omega), Nat.add_sub_cancel_left,
    List.getElem?_append_left (by rw [dofRange_length]; omega), getElem?_dofRange _ _ _ hj]

/-! ### positions in a duplicate-free list -/

theorem idxOf_of_getElem? {l : List Int} (hnd : l.Nodup) {k : Nat} {x : Int} (h : l[k]? = some x) :
    x ∈ l ∧ l.idxOf x = k := by
  obtain ⟨hk, hx⟩ := List.getElem?_eq_some_iff.mp h
  subst hx
  exact ⟨List.getElem_mem hk, hnd.idxOf_getElem k hk⟩

theorem getD_idxOf {l : List Int} {x : Int} (h : x ∈ l) (dflt : Int) : l.getD (l.idxOf x) dflt = x := by
  have hlt := List.idxOf_lt_length_iff.mpr h
  rw [List.getD_eq_getElem?_getD, List.getElem?_eq_getElem hlt, List.getElem_idxOf hlt]
  rfl

/-- in a strictly increasing list, positions are ordered like values -/
theorem idxOf_lt_of_sorted {l : List Int} (hs : l.Pairwise (· < ·)) {x y : Int} (hx : x ∈ l) (hy : y ∈ l)
    (hxy : x < y) : l.idxOf x < l.idxOf y := by
  have hxl := List.idxOf_lt_length_iff.mpr hx
  have hyl := List.idxOf_lt_length_iff.mpr hy
  by_contra hnot
  have hle : l.idxOf y ≤ l.idxOf x := Nat.le_of_not_lt hnot
  rcases Nat.lt_or_eq_of_le hle with hlt | heq
  · have := List.pairwise_iff_getElem.mp hs _ _ hyl hxl hlt
    rw [List.getElem_idxOf hyl, List.getElem_idxOf hxl] at this
    omega
  · have h1 := List.getElem_idxOf hxl
    have h2 := List.getElem_idxOf hyl
    simp only [heq] at h2
    omega

theorem nodup_of_sorted {l : List Int} (hs : l.Pairwise (· < ·)) : l.Nodup :=
  hs.imp (fun h => Int.ne_of_lt h)

/-! ### grids -/

theorem mem_grid1 (n t : Int) : t ∈ grid1 n ↔ (0 ≤ t ∧ t < n) := by
  unfold grid1
  rw [List.mem_map]
  constructor
  · rintro ⟨k, hk, rfl⟩
    rw [List.mem_range] at hk
    omega
  · rintro ⟨h0, h1⟩
    exact ⟨t.toNat, List.mem_range.mpr (by omega), Int.toNat_of_nonneg h0⟩

theorem nodup_grid1 (n : Int) : (grid1 n).Nodup := by
  unfold grid1
  exact List.Nodup.map (fun a b h => by simpa using h) List.nodup_range

theorem isGrid1_grid1 (n : Int) : IsGrid1 (grid1 n) n := ⟨nodup_grid1 n, mem_grid1 n⟩

theorem isGrid1_reverse {o : List Int} {n : Int} (h : IsGrid1 o n) : IsGrid1 o.reverse n :=
  ⟨List.nodup_reverse.mpr h.nodup, fun t => by rw [List.mem_reverse]; exact h.mem t⟩

theorem isGrid2_grid2 (n0 n1 : Int) : IsGrid2 (grid2 n0 n1) n0 n1 := by
  constructor
  · unfold grid2
    rw [List.nodup_flatMap]
    constructor
    · intro i _
      exact List.Nodup.map (fun a b h => by simpa using h) (nodup_grid1 n1)
    · refine List.Pairwise.imp_of_mem ?_ (nodup_grid1 n0)
      intro a b _ _ hab
      change List.Disjoint _ _
      intro x hx hy
      rw [List.mem_map] at hx hy
      obtain ⟨_, _, rfl⟩ := hx
      obtain ⟨_, _, h⟩ := hy
      exact hab (by simpa using (congrArg Prod.fst h).symm)
  · intro t
    unfold grid2
    rw [List.mem_flatMap]
    constructor
    · rintro ⟨i, hi, ht⟩
      rw [List.mem_map] at ht
      obtain ⟨j, hj, rfl⟩ := ht
      rw [mem_grid1] at hi hj
      exact ⟨hi.1, hi.2, hj.1, hj.2⟩
    · rintro ⟨h0, h1, h2, h3⟩
      refine ⟨t.1, (mem_grid1 _ _).mpr ⟨h0, h1⟩, ?_⟩
      rw [List.mem_map]
      exact ⟨t.2, (mem_grid1 _ _).mpr ⟨h2, h3⟩, rfl⟩

theorem isGrid2_reverse {o : List (Int × Int)} {n0 n1 : Int} (h : IsGrid2 o n0 n1) : IsGrid2 o.reverse n0 n1 :=
  ⟨List.nodup_reverse.mpr h.nodup, fun t => by rw [List.mem_reverse]; exact h.mem t⟩

/-! ### the two launches of `update_active_dofs`, at the level of the model write lists -/

section launches
variable {K : Type}

theorem reset_launch_dof (nv pad n0 n1 : Int) (o : List (Int × Int)) (h : IsGrid2 o n0 n1) (m : IMem) (w d : Int) :
    launchI (K := K) (fun t => resetWrites nv pad t.1 t.2) o m "dof_cdof_out" [w, d]
      = if (0 ≤ w ∧ w < n0 ∧ 0 ≤ d ∧ d < n1) ∧ d < nv then -1 else m "dof_cdof_out" [w, d] := by
  rw [launchI_cell _ o h.nodup m _ _ (w, d)
    (fun t _ ht => touches_resetWrites_ne nv pad t.1 t.2 _ w d ht)]
  have hm := h.mem (w, d)
  by_cases hg : (0 ≤ w ∧ w < n0 ∧ 0 ≤ d ∧ d < n1)
  · rw [if_pos (hm.mpr hg), lookupI_resetWrites_dof]
    by_cases hd : d < nv <;> simp [hg, hd]
  · rw [if_neg (fun hh => hg (hm.mp hh)), if_neg (fun hh => hg hh.1)]

theorem reset_launch_cdof (nv pad n0 n1 : Int) (o : List (Int × Int)) (h : IsGrid2 o n0 n1) (m : IMem) (w c : Int) :
    launchI (K := K) (fun t => resetWrites nv pad t.1 t.2) o m "cdof_dof_out" [w, c]
      = if (0 ≤ w ∧ w < n0 ∧ 0 ≤ c ∧ c < n1) ∧ c < pad then -1 else m "cdof_dof_out" [w, c] := by
  rw [launchI_cell _ o h.nodup m _ _ (w, c)
    (fun t _ ht => touches_resetWrites_ne nv pad t.1 t.2 _ w c ht)]
  have hm := h.mem (w, c)
  by_cases hg : (0 ≤ w ∧ w < n0 ∧ 0 ≤ c ∧ c < n1)
  · rw [if_pos (hm.mpr hg), lookupI_resetWrites_cdof]
    by_cases hd : c < pad <;> simp [hg, hd]
  · rw [if_neg (fun hh => hg (hm.mp hh)), if_neg (fun hh => hg hh.1)]

theorem reset_launch_other (nv pad : Int) (o : List (Int × Int)) (m : IMem) (a : String) (ix : List Int)
    (h1 : a ≠ "dof_cdof_out") (h2 : a ≠ "cdof_dof_out") :
    launchI (K := K) (fun t => resetWrites nv pad t.1 t.2) o m a ix = m a ix :=
  launchI_untouched _ _ _ _ _ (fun t _ => touches_resetWrites_other nv pad t.1 t.2 a ix h1 h2)

/-- a cell of world `w` after the `_compact_dofs` launch: only thread `w` touches it -/
theorem compact_launch_cell (nvmax : Int) (ov : Int → Int) (ds : Int → List Int) (n : Int) (o : List Int)
    (h : IsGrid1 o n) (m : IMem) (a : String) (w : Int) (rest : List Int) (hw : 0 ≤ w ∧ w < n) :
    launchI (K := K) (fun w => compactWrites w nvmax (ov w) (ds w)) o m a (w :: rest)
      = Write.lookupI (compactWrites (K := K) w nvmax (ov w) (ds w)) a (w :: rest) (m a (w :: rest)) := by
  rw [launchI_cell _ o h.nodup m _ _ w
    (fun t _ ht => touches_of_headIs (headIs_compactWrites t nvmax (ov t) (ds t)) a rest ht),
    if_pos ((h.mem w).mpr hw)]

end launches

/-! ### final memory of `updateModel` -/

section final
variable (K : Type) (nv pad nvmax n : Int) (ds : Int → List Int) (o1 : List (Int × Int)) (o2 : List Int)
  (m0 : IMem) (h1 : IsGrid2 o1 n (max nv pad)) (h2 : IsGrid1 o2 n) (w : Int) (hw : 0 ≤ w ∧ w < n)
include h1 h2 hw

theorem updateModel_dof (hnd : (ds w).Nodup) (d : Int) :
    updateModel K nv pad nvmax ds o1 o2 m0 "dof_cdof_out" [w, d]
      = if d ∈ ds w ∧ ((ds w).idxOf d : Int) < nvmax then ((ds w).idxOf d : Int)
        else if 0 ≤ d ∧ d < nv then -1 else m0 "dof_cdof_out" [w, d] := by
  unfold updateModel
  rw [compact_launch_cell nvmax _ ds n o2 h2 _ _ w [d] hw, lookupI_compactWrites_dof _ _ _ _ hnd,
    reset_launch_dof nv pad n _ o1 h1]
  by_cases hg : d ∈ ds w ∧ ((ds w).idxOf d : Int) < nvmax
  · rw [if_pos hg, if_pos hg]
  · rw [if_neg hg, if_neg hg]
    by_cases hd : 0 ≤ d ∧ d < nv
    · rw [if_pos hd, if_pos ⟨⟨hw.1, hw.2, hd.1, by have := le_max_left nv pad; omega⟩, hd.2⟩]
    · rw [if_neg hd, if_neg (fun hh => hd ⟨hh.1.2.2.1, hh.2⟩)]

theorem updateModel_cdof (c : Int) :
    updateModel K nv pad nvmax ds o1 o2 m0 "cdof_dof_out" [w, c]
      = if 0 ≤ c ∧ c < ((ds w).length : Int) ∧ c < nvmax then (ds w).getD c.toNat (-1)
        else if 0 ≤ c ∧ c < pad then -1 else m0 "cdof_dof_out" [w, c] := by
  unfold updateModel
  rw [compact_launch_cell nvmax _ ds n o2 h2 _ _ w [c] hw, lookupI_compactWrites_cdof,
    reset_launch_cdof nv pad n _ o1 h1]
  by_cases hg : 0 ≤ c ∧ c < ((ds w).length : Int) ∧ c < nvmax
  · rw [if_pos hg, if_pos hg]
  · rw [if_neg hg, if_neg hg]
    by_cases hd : 0 ≤ c ∧ c < pad
    · rw [if_pos hd, if_pos ⟨⟨hw.1, hw.2, hd.1, by have := le_max_right nv pad; omega⟩, hd.2⟩]
    · rw [if_neg hd, if_neg (fun hh => hd ⟨hh.1.2.2.1, hh.2⟩)]

omit h1 in
theorem updateModel_ncdof :
    updateModel K nv pad nvmax ds o1 o2 m0 "ncdof_out" [w] = min ((ds w).length : Int) nvmax := by
  unfold updateModel
  rw [compact_launch_cell nvmax _ ds n o2 h2 _ _ w [] hw, lookupI_compactWrites_ncdof]

omit h1 in
theorem updateModel_overflow :
    updateModel K nv pad nvmax ds o1 o2 m0 "overflow_out" [w]
      = if ((ds w).length : Int) > nvmax then Mjw.ior (m0 "overflow_out" [w]) 128 else m0 "overflow_out" [w] := by
  unfold updateModel
  rw [compact_launch_cell nvmax _ ds n o2 h2 _ _ w [] hw, lookupI_compactWrites_overflow,
    reset_launch_other nv pad o1 m0 _ _ (by decide) (by decide)]

end final

/-- the final memory does not depend on the two task orders -/
theorem updateModel_order_independent (K : Type) (nv pad nvmax n : Int) (ds : Int → List Int)
    (o1 o1' : List (Int × Int)) (o2 o2' : List Int) (m0 : IMem)
    (h1 : IsGrid2 o1 n (max nv pad)) (h1' : IsGrid2 o1' n (max nv pad)) (h2 : IsGrid1 o2 n) (h2' : IsGrid1 o2' n) :
    updateModel K nv pad nvmax ds o1 o2 m0 = updateModel K nv pad nvmax ds o1' o2' m0 := by
  have hreset : launchI (K := K) (fun t => resetWrites nv pad t.1 t.2) o1 m0
      = launchI (K := K) (fun t => resetWrites nv pad t.1 t.2) o1' m0 := by
    apply launchI_order_independent _ _ _ h1.nodup h1'.nodup (fun t => by rw [h1.mem, h1'.mem])
    intro a ix
    by_cases hl : ix.length = 2
    · match ix, hl with
      | [w, i], _ =>
        exact ⟨(w, i), fun t ht => touches_resetWrites_ne nv pad t.1 t.2 a w i ht⟩
    · exact ⟨(0, 0), fun t _ => touches_resetWrites_len nv pad t.1 t.2 a ix hl⟩
  unfold updateModel
  dsimp only
  rw [hreset]
  apply launchI_order_independent _ _ _ h2.nodup h2'.nodup (fun t => by rw [h2.mem, h2'.mem])
  intro a ix
  match ix with
  | [] =>
    refine ⟨0, fun t _ => ?_⟩
    unfold touches
    rw [List.any_eq_false]
    intro wr hwr hc
    have := headIs_compactWrites (K := K) t nvmax _ (ds t) wr hwr
    rw [Bool.and_eq_true] at hc
    have hidx : wr.idx = [] := by simpa using hc.2
    rw [hidx] at this
    cases this
  | w :: rest =>
    exact ⟨w, fun t ht => touches_of_headIs (headIs_compactWrites t nvmax _ (ds t)) a rest ht⟩

/-! ### the closed-form maps -/

theorem dofCdof_of_getElem? {ds : List Int} (hnd : ds.Nodup) (nvmax : Int) {k : Nat} {d : Int}
    (h : ds[k]? = some d) : dofCdof ds nvmax d = if (k : Int) < nvmax then (k : Int) else -1 := by
  obtain ⟨hm, hi⟩ := idxOf_of_getElem? hnd h
  unfold dofCdof
  rw [hi]
  by_cases hk : (k : Int) < nvmax
  · rw [if_pos ⟨hm, hk⟩, if_pos hk]
  · rw [if_neg (fun hh => hk hh.2), if_neg hk]

theorem dofCdof_not_mem {ds : List Int} (nvmax : Int) {d : Int} (h : d ∉ ds) : dofCdof ds nvmax d = -1 := by
  unfold dofCdof
  rw [if_neg (fun hh => h hh.1)]

theorem cdofDof_of_lt {ds : List Int} {nvmax c : Int} (h0 : 0 ≤ c) (h1 : c < (ds.length : Int)) (h2 : c < nvmax) :
    ds[c.toNat]? = some (cdofDof ds nvmax c) := by
  unfold cdofDof
  rw [if_pos ⟨h0, h1, h2⟩, List.getD_eq_getElem?_getD]
  have : c.toNat < ds.length := by omega
  rw [List.getElem?_eq_getElem this]
  rfl

theorem cdofDof_tail {ds : List Int} {nvmax c : Int} (h : ¬ (0 ≤ c ∧ c < (ds.length : Int) ∧ c < nvmax)) :
    cdofDof ds nvmax c = -1 := by
  unfold cdofDof
  rw [if_neg h]

/-! ### tree layout -/

theorem awakeDofs_nodup {ntree : Int} {adr num : Int → Int} (h : TreesDisjoint ntree adr num) (awake : Int → Int) :
    (awakeDofs ntree adr num awake).Nodup := by
  apply awakeDofs_pairwise (· ≠ ·)
  · intro t j j' _ _ _ _ hjj _
    omega
  · intro t t' j j' h0 h1 h2 _ _ hj0 hj1 hj0' hj1'
    rcases h t t' h0 h1 h2 with hh | hh | hh | hh <;> omega

theorem awakeDofs_sorted {ntree : Int} {adr num : Int → Int} (h : TreesSorted ntree adr num) (awake : Int → Int) :
    (awakeDofs ntree adr num awake).Pairwise (· < ·) := by
  apply awakeDofs_pairwise (· < ·)
  · intro t j j' _ _ _ _ hjj _
    omega
  · intro t t' j j' h0 h1 h2 _ _ hj0 hj1 hj0' hj1'
    have := h t t' h0 h1 h2 (by omega) (by omega)
    omega

theorem treesDisjoint_of_sorted {ntree : Int} {adr num : Int → Int} (h : TreesSorted ntree adr num) :
    TreesDisjoint ntree adr num := by
  intro t t' h0 h1 h2
  by_cases ha : num t ≤ 0
  · exact Or.inl ha
  · by_cases hb : num t' ≤ 0
    · exact Or.inr (Or.inl hb)
    · exact Or.inr (Or.inr (Or.inl (h t t' h0 h1 h2 (by omega) (by omega))))

theorem awakeDofs_inRange {ntree : Int} {adr num : Int → Int} {nv : Int} (h : TreesInRange ntree adr num nv)
    (awake : Int → Int) (d : Int) (hd : d ∈ awakeDofs ntree adr num awake) : 0 ≤ d ∧ d < nv := by
  rw [mem_awakeDofs] at hd
  obtain ⟨t, j, h0, h1, _, hj0, hj1, rfl⟩ := hd
  have := h t h0 h1 (by omega)
  omega

/-- offsets grow along awake trees: `offset(t) + num t ≤ offset(t')` for `t < t'`, `t` awake -/
theorem awakeCount_mono (adr : Int → Int) (num awake : Int → Int) (t t' : Int) (h0 : 0 ≤ t) (h1 : t < t')
    (ha : awake t = 1) : awakeCount t num awake + (num t).toNat ≤ awakeCount t' num awake := by
  obtain ⟨rest, h⟩ := awakeDofs_split t' adr num awake t h0 h1 ha
  have := congrArg List.length h
  rw [List.length_append, List.length_append, awakeDofs_length, awakeDofs_length, dofRange_length] at this
  omega

theorem cdofDof_idxOf {ds : List Int} {nvmax d : Int} (hd : d ∈ ds) (h : (ds.idxOf d : Int) < nvmax) :
    cdofDof ds nvmax (ds.idxOf d : Int) = d := by
  have hlt := List.idxOf_lt_length_iff.mpr hd
  unfold cdofDof
  rw [if_pos ⟨by omega, by omega, h⟩, Int.toNat_natCast, getD_idxOf hd]

/-- position of the `j`-th dof of awake tree `t` in the visiting order: `offset(t) + j`, where
    `offset(t) = awakeCount t` = number of awake dofs in the trees before `t` -/
theorem awakeDofs_position {ntree : Int} {adr num : Int → Int} (awake : Int → Int)
    (hnd : (awakeDofs ntree adr num awake).Nodup) (t j : Int) (h0 : 0 ≤ t) (h1 : t < ntree)
    (ha : awake t = 1) (hj0 : 0 ≤ j) (hj1 : j < num t) :
    adr t + j ∈ awakeDofs ntree adr num awake ∧
      ((awakeDofs ntree adr num awake).idxOf (adr t + j) : Int) = (awakeCount t num awake : Int) + j := by
  have h := awakeDofs_getElem?_tree ntree adr num awake t h0 h1 ha j.toNat (by omega)
  rw [Int.toNat_of_nonneg hj0, awakeDofs_length] at h
  obtain ⟨hm, hi⟩ := idxOf_of_getElem? hnd h
  refine ⟨hm, ?_⟩
  rw [hi]; push_cast; omega

theorem idxOf_lt_length_int {ds : List Int} {d : Int} (hd : d ∈ ds) : (ds.idxOf d : Int) < (ds.length : Int) := by
  have := List.idxOf_lt_length_iff.mpr hd
  omega

/-! ### gather / scatter kernels: which thread writes which cell -/

section gs
variable {K : Type} [Scalar K]

/-- every write of `ws` goes to a cell whose index starts with `t.1, t.2` -/
def Prefix2 (t : Int × Int) (ws : List (Write K)) : Prop := ∀ wr ∈ ws, ∃ r, wr.idx = t.1 :: t.2 :: r

omit [Scalar K] in
theorem touches_of_prefix2 {t : Int × Int} {ws : List (Write K)} (h : Prefix2 t ws) (a : String) (w i : Int)
    (rest : List Int) (hne : t ≠ (w, i)) : touches ws a (w :: i :: rest) = false := by
  unfold touches
  rw [List.any_eq_false]
  intro wr hwr hc
  obtain ⟨r, hr⟩ := h wr hwr
  rw [Bool.and_eq_true] at hc
  have hidx : wr.idx = w :: i :: rest := by simpa using hc.2
  rw [hr] at hidx
  simp only [List.cons.injEq] at hidx
  exact hne (Prod.ext hidx.1 hidx.2.1)

/-- a launch over a 2-D grid in which thread `(w, i)` only writes cells `[w, i, …]` -/
theorem launchF_grid2_cell (W : Int × Int → List (Write K)) (o : List (Int × Int)) (n0 n1 : Int)
    (h : IsGrid2 o n0 n1) (hW : ∀ t, Prefix2 t (W t)) (m : FMem K) (a : String) (w i : Int) (rest : List Int) :
    launchF W o m a (w :: i :: rest)
      = if 0 ≤ w ∧ w < n0 ∧ 0 ≤ i ∧ i < n1 then Write.lookupF (W (w, i)) a (w :: i :: rest) (m a (w :: i :: rest))
        else m a (w :: i :: rest) := by
  rw [launchF_cell W o h.nodup m a _ (w, i) (fun t _ ht => touches_of_prefix2 (hW t) a w i rest ht)]
  have hm := h.mem (w, i)
  by_cases hg : 0 ≤ w ∧ w < n0 ∧ 0 ≤ i ∧ i < n1
  · rw [if_pos (hm.mpr hg), if_pos hg]
  · rw [if_neg (fun hh => hg (hm.mp hh)), if_neg hg]

theorem prefix2_gather_dof_vecs (qw qfs qas : Int → Int → K) (cd : Int → Int → Int) (o1 o2 o3 : Int → Int → K)
    (t : Int × Int) : Prefix2 t (Gen.Solver._gather_dof_vecs_compact qw qfs qas cd o1 o2 o3 t.1 t.2) := by
  unfold Gen.Solver._gather_dof_vecs_compact
  intro wr hwr
  dsimp only at hwr
  split at hwr <;>
  · simp only [List.nil_append, List.cons_append, List.mem_cons, List.mem_nil_iff, or_false] at hwr
    rcases hwr with rfl | rfl | rfl <;> exact ⟨[], rfl⟩

theorem prefix2_scatter_dof_vecs (dc : Int → Int → Int) (qc qfc qo qfo : Int → Int → K)
    (t : Int × Int) : Prefix2 t (Gen.Solver._scatter_dof_vecs dc qc qfc qo qfo t.1 t.2) := by
  unfold Gen.Solver._scatter_dof_vecs
  intro wr hwr
  dsimp only at hwr
  split at hwr <;>
  · simp only [List.nil_append, List.cons_append, List.mem_cons, List.mem_nil_iff, or_false] at hwr
    rcases hwr with rfl | rfl <;> exact ⟨[], rfl⟩

theorem prefix2_gather_rhs (cd : Int → Int → Int) (vec : Int → Int → K) (rhs : Int → Int → Int → K)
    (t : Int × Int) : Prefix2 t (Gen.Solver._gather_rhs_compact cd vec rhs t.1 t.2) := by
  unfold Gen.Solver._gather_rhs_compact
  intro wr hwr
  dsimp only at hwr
  split at hwr <;>
  · simp only [List.nil_append, List.mem_cons, List.mem_nil_iff, or_false] at hwr
    subst hwr; exact ⟨[0], rfl⟩

theorem prefix2_scatter_solution (dc : Int → Int → Int) (x : Int → Int → Int → K) (vec : Int → Int → K)
    (t : Int × Int) : Prefix2 t (Gen.Solver._scatter_solution dc x vec t.1 t.2) := by
  unfold Gen.Solver._scatter_solution
  intro wr hwr
  dsimp only at hwr
  split at hwr <;>
  · simp only [List.nil_append, List.mem_cons, List.mem_nil_iff, or_false] at hwr
    subst hwr; exact ⟨[], rfl⟩

theorem prefix2_gather_dof_arrays (qa qas qfs : Int → Int → K) (nidof : Int → Int) (i2d : Int → Int → Int)
    (o1 o2 o3 : Int → Int → K) (t : Int × Int) :
    Prefix2 t (Gen.Island._gather_dof_arrays qa qas qfs nidof i2d o1 o2 o3 t.1 t.2) := by
  unfold Gen.Island._gather_dof_arrays
  intro wr hwr
  dsimp only at hwr
  split at hwr
  · cases hwr
  · simp only [List.nil_append, List.cons_append, List.mem_cons, List.mem_nil_iff, or_false] at hwr
    rcases hwr with rfl | rfl | rfl <;> exact ⟨[], rfl⟩

theorem prefix2_scatter_dof_arrays (qas qfs : Int → Int → K) (di : Int → Int → Int) (ia ifc iMa : Int → Int → K)
    (d2i : Int → Int → Int) (sMa : Bool) (qo qfo mo : Int → Int → K) (t : Int × Int) :
    Prefix2 t (Gen.Island._scatter_dof_arrays qas qfs di ia ifc iMa d2i sMa qo qfo mo t.1 t.2) := by
  unfold Gen.Island._scatter_dof_arrays
  intro wr hwr
  dsimp only at hwr
  cases sMa <;> split at hwr <;>
  · simp only [List.nil_append, List.cons_append, List.mem_cons, List.mem_nil_iff, or_false, if_true,
      Bool.false_eq_true, if_false] at hwr
    rcases hwr with rfl | rfl | rfl <;> exact ⟨[], rfl⟩

end gs

end Mjw.Lemmas.C38
