/-
  Helper lemmas for C25 (solver termination protocol, `Model/Term.lean`).
  Core Lean only (no Mathlib needed).
-/
import MjwVerif.Model.Term

namespace Mjw.Lemmas.C25
open Mjw Mjw.Term

variable {it : Int} {conv : Oracle}

theorem gstate_ext {g h : GState} (h1 : g.ws = h.ws) (h2 : g.nsolving = h.nsolving) : g = h := by
  cases g; cases h; simp_all

/-! ### bit facts -/

theorem iand_ior_iter (x : Int) : Mjw.iand (Mjw.ior x ITERATIONS) ITERATIONS = ITERATIONS := by
  unfold Mjw.iand Mjw.ior
  rw [BitVec.ofInt_toInt]
  have : (BitVec.ofInt 32 x ||| BitVec.ofInt 32 ITERATIONS) &&& BitVec.ofInt 32 ITERATIONS
      = BitVec.ofInt 32 ITERATIONS := by
    ext i hi
    simp only [BitVec.getElem_and, BitVec.getElem_or]
    cases (BitVec.ofInt 32 x)[i] <;> cases (BitVec.ofInt 32 ITERATIONS)[i] <;> rfl
  rw [this]
  decide

theorem hasIterBit_ior (x : Int) : hasIterBit (Mjw.ior x ITERATIONS) = true := by
  unfold hasIterBit
  rw [iand_ior_iter]
  decide

/-! ### single task -/

theorem task_ws_ne {g : GState} {w x : WorldId} (h : x ≠ w) : (task it conv g w).ws x = g.ws x := by
  simp [task, upd, h]

theorem task_ws_self {g : GState} {w : WorldId} : (task it conv g w).ws w = wstep it (conv w) (g.ws w) := by
  simp [task, upd]

theorem task_nsolving {g : GState} {w : WorldId} :
    (task it conv g w).nsolving = g.nsolving + (if wstopped it (conv w) (g.ws w) then -1 else 0) := rfl

theorem wstep_done {c : Int → Bool} {s : WState} (h : s.done = true) : wstep it c s = s := by
  simp [wstep, worldStep, h]

theorem wstopped_done {c : Int → Bool} {s : WState} (h : s.done = true) : wstopped it c s = false := by
  simp [wstopped, worldStep, h]

/-- a task on a done world is the identity on the whole global state -/
theorem task_done {g : GState} {w : WorldId} (h : (g.ws w).done = true) : task it conv g w = g := by
  apply gstate_ext
  · funext x
    by_cases hx : x = w
    · subst hx; rw [task_ws_self, wstep_done h]
    · rw [task_ws_ne hx]
  · rw [task_nsolving, wstopped_done h]; simp

/-- tasks commute: disjoint per-world state, commutative counter -/
theorem task_comm (g : GState) (a b : WorldId) :
    task it conv (task it conv g a) b = task it conv (task it conv g b) a := by
  by_cases hab : a = b
  · subst hab; rfl
  · have hba : b ≠ a := fun h => hab h.symm
    apply gstate_ext
    · funext x
      by_cases hxa : x = a
      · subst hxa
        rw [task_ws_ne hab, task_ws_self, task_ws_self, task_ws_ne hab]
      · by_cases hxb : x = b
        · subst hxb
          rw [task_ws_self, task_ws_ne hba, task_ws_ne hxa, task_ws_self]
        · rw [task_ws_ne hxb, task_ws_ne hxa, task_ws_ne hxa, task_ws_ne hxb]
    · rw [task_nsolving, task_nsolving, task_nsolving, task_nsolving, task_ws_ne hba, task_ws_ne hab]
      omega

/-! ### one launch -/

theorem iterStep_perm {l₁ l₂ : List WorldId} (p : l₁.Perm l₂) (g : GState) :
    iterStep it conv l₁ g = iterStep it conv l₂ g := by
  unfold iterStep
  exact p.foldl_eq' (fun x _ y _ z => task_comm z x y) g

theorem iterStep_ws {l : List WorldId} (hnd : l.Nodup) (g : GState) (w : WorldId) :
    (iterStep it conv l g).ws w = if w ∈ l then wstep it (conv w) (g.ws w) else g.ws w := by
  induction l generalizing g with
  | nil => simp [iterStep]
  | cons a l ih =>
    have hnd' := List.nodup_cons.mp hnd
    have : iterStep it conv (a :: l) g = iterStep it conv l (task it conv g a) := rfl
    rw [this, ih hnd'.2]
    by_cases hwl : w ∈ l
    · have hwa : w ≠ a := fun h => hnd'.1 (h ▸ hwl)
      simp [hwl, task_ws_ne hwa]
    · by_cases hwa : w = a
      · subst hwa; simp [hwl, task_ws_self]
      · simp [hwl, hwa, task_ws_ne hwa]

theorem iterStep_nsolving {l : List WorldId} (hnd : l.Nodup) (g : GState) :
    (iterStep it conv l g).nsolving
      = g.nsolving - (l.countP (fun w => wstopped it (conv w) (g.ws w)) : Nat) := by
  induction l generalizing g with
  | nil => simp [iterStep]
  | cons a l ih =>
    have hnd' := List.nodup_cons.mp hnd
    have : iterStep it conv (a :: l) g = iterStep it conv l (task it conv g a) := rfl
    rw [this, ih hnd'.2, task_nsolving]
    have hc : l.countP (fun w => wstopped it (conv w) ((task it conv g a).ws w))
        = l.countP (fun w => wstopped it (conv w) (g.ws w)) := by
      apply List.countP_congr
      intro w hw
      have hwa : w ≠ a := fun h => hnd'.1 (h ▸ hw)
      rw [task_ws_ne hwa]
    rw [hc, List.countP_cons]
    by_cases hs : wstopped it (conv a) (g.ws a) = true
    · simp [hs]; omega
    · simp [hs]

/-- a launch leaves done worlds alone, whatever the task list (duplicates allowed) -/
theorem iterStep_frozen (l : List WorldId) (g : GState) (w : WorldId) (h : (g.ws w).done = true) :
    (iterStep it conv l g).ws w = g.ws w := by
  induction l generalizing g with
  | nil => rfl
  | cons a l ih =>
    have : iterStep it conv (a :: l) g = iterStep it conv l (task it conv g a) := rfl
    rw [this]
    have hw : (task it conv g a).ws w = g.ws w := by
      by_cases hwa : w = a
      · subst hwa; rw [task_ws_self, wstep_done h]
      · exact task_ws_ne hwa
    rw [ih (task it conv g a) (by rw [hw]; exact h), hw]

/-- if every world in the task list is done, the launch changes nothing at all -/
theorem iterStep_all_done (l : List WorldId) (g : GState) (h : ∀ w ∈ l, (g.ws w).done = true) :
    iterStep it conv l g = g := by
  induction l generalizing g with
  | nil => rfl
  | cons a l ih =>
    have : iterStep it conv (a :: l) g = iterStep it conv l (task it conv g a) := rfl
    rw [this, task_done (h a (by simp))]
    exact ih g (fun w hw => h w (by simp [hw]))

/-! ### launches with a task order that is a permutation of `0..nworld-1` -/

theorem perm_range_nodup {n : Nat} {l : List WorldId} (p : l.Perm (List.range n)) : l.Nodup :=
  p.nodup_iff.mpr List.nodup_range

theorem perm_range_mem {n : Nat} {l : List WorldId} (p : l.Perm (List.range n)) (w : WorldId) :
    w ∈ l ↔ w < n := by
  rw [p.mem_iff, List.mem_range]

theorem launch_ws {n : Nat} {l : List WorldId} (p : l.Perm (List.range n)) (g : GState) (w : WorldId) :
    (iterStep it conv l g).ws w = if w < n then wstep it (conv w) (g.ws w) else g.ws w := by
  rw [iterStep_ws (perm_range_nodup p)]
  simp [perm_range_mem p]

/-- bookkeeping: `countP f = countP f' + countP st` when `f = f' ∨ st` exclusively -/
theorem countP_split {l : List WorldId} {f f' st : WorldId → Bool}
    (h : ∀ w ∈ l, (f w = (f' w || st w)) ∧ (f' w && st w) = false) :
    l.countP f = l.countP f' + l.countP st := by
  induction l with
  | nil => rfl
  | cons a l ih =>
    have ha := h a (by simp)
    have := ih (fun w hw => h w (by simp [hw]))
    simp only [List.countP_cons, this, ha.1]
    cases hf : f' a <;> cases hs : st a <;> simp_all <;> omega

theorem wstep_done_split (c : Int → Bool) (s : WState) :
    ((!s.done) = ((!(wstep it c s).done) || wstopped it c s)) ∧
      ((!(wstep it c s).done) && wstopped it c s) = false := by
  unfold wstep wstopped worldStep
  cases hd : s.done
  · by_cases hc : (c (s.niter + 1) || decide (s.niter + 1 = it)) = true
    · simp [hc]
    · simp [hc]
  · simp [hd]

/-- the counter invariant is preserved by a launch (any `iterations`, any oracle) -/
theorem launch_nsolving_inv {n : Nat} {l : List WorldId} (p : l.Perm (List.range n)) (g : GState)
    (h : g.nsolving = undone n g) :
    (iterStep it conv l g).nsolving = undone n (iterStep it conv l g) := by
  rw [iterStep_nsolving (perm_range_nodup p), p.countP_eq, h]
  have hsplit : undone n g = undone n (iterStep it conv l g)
      + (List.range n).countP (fun w => wstopped it (conv w) (g.ws w)) := by
    unfold undone
    apply countP_split
    intro w hw
    have hwn : w < n := List.mem_range.mp hw
    rw [launch_ws p, if_pos hwn]
    exact wstep_done_split (conv w) (g.ws w)
  omega

theorem undone_zero_iff {n : Nat} {g : GState} : undone n g = 0 ↔ ∀ w, w < n → (g.ws w).done = true := by
  unfold undone
  rw [List.countP_eq_zero]
  constructor
  · intro h w hw; simpa using h w (List.mem_range.mpr hw)
  · intro h w hw; simpa using h w (List.mem_range.mp hw)

theorem undone_eq_n {n : Nat} {g : GState} (h : ∀ w, w < n → (g.ws w).done = false) : undone n g = n := by
  unfold undone
  have : (List.range n).countP (fun w => !(g.ws w).done) = (List.range n).length := by
    rw [List.countP_eq_length]
    intro w hw; simp [h w (List.mem_range.mp hw)]
  rw [this, List.length_range]

/-! ### the per-world invariant -/

/-- invariant of one world after `k` launches, started from `⟨0, false, ov0⟩` with oracle `c` -/
structure WInv (it : Int) (c : Int → Bool) (ov0 : Int) (k : Nat) (s : WState) : Prop where
  nonneg : 0 ≤ s.niter
  le_it : s.niter ≤ it
  le_k : s.niter ≤ k
  running : s.done = false → s.niter = k ∧ (k : Int) < it ∧ s.overflow = ov0 ∧
    ∀ j : Int, 1 ≤ j → j ≤ s.niter → c j = false
  stoppedAt : s.done = true → 1 ≤ s.niter ∧ (c s.niter = true ∨ s.niter = it) ∧
    (∀ j : Int, 1 ≤ j → j < s.niter → c j = false) ∧
    s.overflow = if (c s.niter = false ∧ s.niter = it) then Mjw.ior ov0 ITERATIONS else ov0

theorem winv_init {c : Int → Bool} {ov0 : Int} (hit : 1 ≤ it) : WInv it c ov0 0 ⟨0, false, ov0⟩ := by
  refine ⟨by simp, by simp; omega, by simp, ?_, by simp⟩
  intro _
  refine ⟨by simp, by simp; omega, rfl, ?_⟩
  intro j h1 h2; simp at h2; omega

theorem winv_step {c : Int → Bool} {ov0 : Int} {k : Nat} {s : WState} (h : WInv it c ov0 k s) :
    WInv it c ov0 (k + 1) (wstep it c s) := by
  cases hd : s.done
  · obtain ⟨hk, hlt, hov, hprev⟩ := h.running hd
    have hn := h.nonneg
    unfold wstep worldStep
    simp only [hd, Bool.false_eq_true, if_false]
    by_cases hc : c (s.niter + 1) = true
    · -- converged in this launch
      simp only [hc, Bool.true_or, if_true, Bool.not_true, Bool.false_and, Bool.false_eq_true, if_false]
      refine ⟨by simp; omega, by simp; omega, by simp; omega, by simp, ?_⟩
      intro _
      refine ⟨by simp; omega, Or.inl hc, ?_, ?_⟩
      · intro j h1 h2; exact hprev j h1 (by simp at h2; omega)
      · simp [hc, hov]
    · have hc' : c (s.niter + 1) = false := by simpa using hc
      by_cases hl : s.niter + 1 = it
      · -- iteration limit reached without convergence
        subst hl
        simp only [hc', decide_true, Bool.or_true, if_true, Bool.not_false, Bool.and_true]
        refine ⟨by simp; omega, by simp, by simp; omega, by simp, ?_⟩
        intro _
        refine ⟨by simp; omega, Or.inr rfl, ?_, ?_⟩
        · intro j h1 h2; exact hprev j h1 (by simp at h2; omega)
        · simp [hov, hc']
      · -- keeps running
        simp only [hc', hl, decide_false, Bool.or_false, Bool.false_eq_true, if_false]
        refine ⟨by simp; omega, by simp; omega, by simp; omega, ?_, by simp⟩
        intro _
        refine ⟨by simp; omega, by omega, hov, ?_⟩
        intro j h1 h2
        simp at h2
        by_cases hj : j = s.niter + 1
        · rw [hj]; exact hc'
        · exact hprev j h1 (by omega)
  · rw [wstep_done hd]
    exact ⟨h.nonneg, h.le_it, by have := h.le_k; omega, by simp [hd], h.stoppedAt⟩

/-! ### the global invariant -/

structure Inv (n : Nat) (it : Int) (conv : Oracle) (ov0 : WorldId → Int) (k : Nat) (g : GState) : Prop where
  counter : g.nsolving = undone n g
  world : ∀ w, w < n → WInv it (conv w) (ov0 w) k (g.ws w)
  outside : ∀ w, n ≤ w → g.ws w = ⟨0, false, ov0 w⟩

theorem inv_init {n : Nat} {ov0 : WorldId → Int} (hit : 1 ≤ it) : Inv n it conv ov0 0 (init n ov0) := by
  refine ⟨?_, fun w _ => winv_init hit, fun w _ => rfl⟩
  rw [undone_eq_n (fun w _ => rfl)]; rfl

theorem inv_step {n : Nat} {ov0 : WorldId → Int} {k : Nat} {g : GState} {l : List WorldId}
    (p : l.Perm (List.range n)) (h : Inv n it conv ov0 k g) :
    Inv n it conv ov0 (k + 1) (iterStep it conv l g) := by
  refine ⟨launch_nsolving_inv p g h.counter, ?_, ?_⟩
  · intro w hw
    rw [launch_ws p, if_pos hw]
    exact winv_step (h.world w hw)
  · intro w hw
    rw [launch_ws p, if_neg (Nat.not_lt.mpr hw)]
    exact h.outside w hw

theorem inv_launches {n : Nat} {ov0 : WorldId → Int} {orders : Nat → List WorldId}
    (hit : 1 ≤ it) (hp : ∀ j, (orders j).Perm (List.range n)) (k : Nat) :
    Inv n it conv ov0 k (launches it conv orders k (init n ov0)) := by
  induction k with
  | zero => exact inv_init hit
  | succ k ih => exact inv_step (hp k) ih

/-- all worlds are done once `k ≥ iterations` -/
theorem inv_all_done {n : Nat} {ov0 : WorldId → Int} {k : Nat} {g : GState}
    (h : Inv n it conv ov0 k g) (hk : it ≤ k) : ∀ w, w < n → (g.ws w).done = true := by
  intro w hw
  cases hd : (g.ws w).done
  · have := ((h.world w hw).running hd).2.1; omega
  · rfl

theorem inv_nsolving_zero_iff {n : Nat} {ov0 : WorldId → Int} {k : Nat} {g : GState}
    (h : Inv n it conv ov0 k g) : g.nsolving = 0 ↔ ∀ w, w < n → (g.ws w).done = true := by
  rw [h.counter, ← undone_zero_iff]; omega

/-! ### launches: congruence in the orders, freezing -/

theorem launches_congr {o₁ o₂ : Nat → List WorldId} (hp : ∀ j, (o₁ j).Perm (o₂ j)) (k : Nat) (g : GState) :
    launches it conv o₁ k g = launches it conv o₂ k g := by
  induction k with
  | zero => rfl
  | succ k ih => simp only [launches]; rw [ih, iterStep_perm (hp k)]

theorem launches_frozen (orders : Nat → List WorldId) (k : Nat) (g : GState) (w : WorldId)
    (h : (g.ws w).done = true) : (launches it conv orders k g).ws w = g.ws w := by
  induction k with
  | zero => rfl
  | succ k ih =>
    simp only [launches]
    rw [iterStep_frozen _ _ _ (by rw [ih]; exact h), ih]

/-- once all worlds of every task list are done at launch `j`, later launches are no-ops -/
theorem launches_stable {n : Nat} {orders : Nat → List WorldId} (hp : ∀ j, (orders j).Perm (List.range n))
    (g : GState) (j m : Nat) (h : ∀ w, w < n → ((launches it conv orders j g).ws w).done = true) :
    launches it conv orders (j + m) g = launches it conv orders j g := by
  induction m with
  | zero => rfl
  | succ m ih =>
    have : j + (m + 1) = (j + m) + 1 := by omega
    rw [this]
    simp only [launches]
    rw [ih]
    apply iterStep_all_done
    intro w hw
    exact h w ((perm_range_mem (hp (j + m)) w).mp hw)

/-! ### the while loop -/

/-- general unrolling of the while loop started at launch number `k` -/
theorem whileAux_spec (orders : Nat → List WorldId) (g0 : GState) (fuel k : Nat) :
    ∃ j, k ≤ j ∧ j ≤ k + fuel ∧
      Mjw.whileFuel fuel (fun s : Nat × GState => s.2.nsolving != 0)
        (fun s => (s.1 + 1, iterStep it conv (orders s.1) s.2)) (k, launches it conv orders k g0)
        = (j, launches it conv orders j g0) ∧
      (∀ i, k ≤ i → i < j → (launches it conv orders i g0).nsolving ≠ 0) ∧
      (j < k + fuel → (launches it conv orders j g0).nsolving = 0) := by
  induction fuel generalizing k with
  | zero =>
    exact ⟨k, by omega, by omega, rfl, fun i h1 h2 => by omega, fun h => by omega⟩
  | succ f ih =>
    by_cases hz : (launches it conv orders k g0).nsolving = 0
    · refine ⟨k, by omega, by omega, ?_, fun i h1 h2 => by omega, fun _ => hz⟩
      simp [Mjw.whileFuel, hz]
    · obtain ⟨j, h1, h2, h3, h4, h5⟩ := ih (k + 1)
      refine ⟨j, by omega, by omega, ?_, ?_, fun h => h5 (by omega)⟩
      · simp only [Mjw.whileFuel]
        have : ((launches it conv orders k g0).nsolving != 0) = true := by simpa using hz
        simp only [this, if_true]
        exact h3
      · intro i hi1 hi2
        by_cases hik : i = k
        · subst hik; exact hz
        · exact h4 i (by omega) hi2

theorem runWhile_spec (fuel : Nat) (orders : Nat → List WorldId) (g0 : GState) :
    let j := runWhileCount fuel it conv orders g0
    j ≤ fuel ∧ runWhile fuel it conv orders g0 = launches it conv orders j g0 ∧
      (∀ i, i < j → (launches it conv orders i g0).nsolving ≠ 0) ∧
      (j < fuel → (launches it conv orders j g0).nsolving = 0) := by
  obtain ⟨j, h1, h2, h3, h4, h5⟩ := whileAux_spec (it := it) (conv := conv) orders g0 fuel 0
  have hc : runWhileCount fuel it conv orders g0 = j := by
    unfold runWhileCount runWhileAux
    have : launches it conv orders 0 g0 = g0 := rfl
    rw [this] at h3
    rw [h3]
  have hr : runWhile fuel it conv orders g0 = launches it conv orders j g0 := by
    unfold runWhile runWhileAux
    have : launches it conv orders 0 g0 = g0 := rfl
    rw [this] at h3
    rw [h3]
  simp only [hc]
  exact ⟨by omega, hr, fun i hi => h4 i (by omega) hi, fun h => h5 (by omega)⟩

end Mjw.Lemmas.C25
