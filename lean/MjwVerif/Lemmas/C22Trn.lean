/-
  Helper lemmas for property C22: the write list of the generated `_transmission` kernel (smooth.py) in the
  SLIDER-CRANK branch, over ℝ, on the smallest topology in which the slider AXIS moves: sites `0` (crank) and `1`
  (slider), site `s` attached to body `s`; body `0` is the world (no dofs), body `1` has exactly one dof (dof `0`,
  without parent dof).  All real-valued inputs (site frames, `cdof`, `subtree_com`, gear, crank length), the world id,
  the actuator id, the batch sizes, the allocated row address and the fuel (≥ 2) are arbitrary; the regular branch
  `det > 0` is assumed.

  `simp` with the integer data as literals prunes the other five transmission branches and runs the two `whileFuel`
  loops (dof count, dof traversal).

  Second part: the chain rule for the slider-crank length `L(a, v) = a·v − sqrt((a·v)² + r² − v·v)`.
-/
import MjwVerif.Lemmas.Real
import Mathlib.Analysis.SpecialFunctions.Trigonometric.Deriv
import MjwVerif.Gen.Support
import MjwVerif.Gen.Smooth
open Mjw Mjw.Gen.Support Mjw.Gen.Smooth

namespace Mjw.Lemmas.C22Trn

/-- `body_dofnum` / `body_dofadr` of the two-body topology (MuJoCo: the world has `dofadr = -1`) -/
def dofnum (b : Int) : Int := if b = 1 then 1 else 0
def dofadr (b : Int) : Int := if b = 1 then 0 else -1

/-- slider axis: third column of the slider site's frame -/
def sliderAxis (m : M33 ℝ) : V3 ℝ := ⟨m.m02, m.m12, m.m22⟩

/-- the determinant `(a·v)² + r² − v·v` of the slider-crank -/
noncomputable def scDet (a v : V3 ℝ) (r : ℝ) : ℝ := (V3.dot v a) * (V3.dot v a) + r * r - V3.dot v v

/-- the value the kernel writes for the moment of the single dof: MuJoCo's chain rule
    `dlda · (jacr × axis) + dldv · (jac_crank − jac_slider)` with `dlda = vec (1 − av/√det)`,
    `dldv = axis (1 − av/√det) + vec/√det`, times the gear -/
noncomputable def scMoment (a v : V3 ℝ) (r : ℝ) (jacr dv : V3 ℝ) (gear0 : ℝ) : ℝ :=
  let sdet := Real.sqrt (scDet a v r)
  let scale := 1 - V3.dot v a / sdet
  (V3.dot (V3.muls v scale) (V3.cross jacr a) + V3.dot (V3.add (V3.muls a scale) (V3.divs v sdet)) dv) * gear0

/-- crank site in the world, SLIDER site on the moving body, regular branch -/
theorem transmission_slidercrank_slider_moves
    (nv : Int) (bp br dofbody : Int → Int) (anc : Int → Int → Int) (jt jq jd : Int → Int)
    (squat : Int → Int → Q ℝ) (tn ta tc : Int → Int) (crank : Int → Int → ℝ) (gear : Int → Int → V6 ℝ)
    (qpos : Int → Int → ℝ) (xquat : Int → Int → Q ℝ) (sxpos : Int → Int → V3 ℝ) (sxmat : Int → Int → M33 ℝ)
    (com : Int → Int → V3 ℝ) (cdof : Int → Int → V6 ℝ) (tJ tL : Int → Int → ℝ) (mnnz : Int → Int)
    (lo : Int → Int → ℝ) (rn ra rc : Int → Int → Int) (mo : Int → Int → ℝ)
    (gs a0 a1 a2 cs a3 a4 a5 qs a6 a7 : Int) (fuel : Nat) (w a : Int)
    (hdet : 0 < scDet (sliderAxis (sxmat w 1)) ((sxpos w 0).sub (sxpos w 1)) (crank (Int.tmod w cs) a)) :
    _transmission (K := ℝ) nv bp br (fun b => b) dofnum dofadr jt jq jd dofbody (fun _ => -1) (fun s => s) squat tn ta tc
        (fun _ => 2) (fun _ => ⟨0, 1⟩) crank gear anc qpos xquat sxpos sxmat com cdof tJ tL mnnz lo rn ra rc mo
        gs a0 a1 a2 cs a3 a4 a5 qs a6 a7 (fuel + 2) w a
      = [Write.mk "actuator_length_out" [w, a]
           (WVal.f ((V3.dot ((sxpos w 0).sub (sxpos w 1)) (sliderAxis (sxmat w 1))
              - Real.sqrt (scDet (sliderAxis (sxmat w 1)) ((sxpos w 0).sub (sxpos w 1)) (crank (Int.tmod w cs) a)))
              * (gear (Int.tmod w gs) a).c0)) WKind.set,
         Write.mk "moment_rownnz_out" [w, a] (WVal.i 1) WKind.set,
         Write.mk "moment_nnz" [w] (WVal.i 1) WKind.alloc,
         Write.mk "moment_rowadr_out" [w, a] (WVal.i a3) WKind.set,
         Write.mk "moment_colind_out" [w, a3] (WVal.i 0) WKind.set,
         Write.mk "actuator_moment_out" [w, a3]
           (WVal.f (scMoment (sliderAxis (sxmat w 1)) ((sxpos w 0).sub (sxpos w 1)) (crank (Int.tmod w cs) a)
              (jac_dof bp br dofbody anc com cdof (sxpos w 1) 1 0 w).2
              ((jac_dof bp br dofbody anc com cdof (sxpos w 0) 0 0 w).1.sub
                (jac_dof bp br dofbody anc com cdof (sxpos w 1) 1 0 w).1)
              (gear (Int.tmod w gs) a).c0)) WKind.set] := by
  have hs : Real.sqrt (scDet (sliderAxis (sxmat w 1)) ((sxpos w 0).sub (sxpos w 1)) (crank (Int.tmod w cs) a)) ≠ 0 :=
    (Real.sqrt_pos.mpr hdet).ne'
  have hnle : ¬ scDet (sliderAxis (sxmat w 1)) ((sxpos w 0).sub (sxpos w 1)) (crank (Int.tmod w cs) a) ≤ 0 := not_le.mpr hdet
  simp only [scDet, sliderAxis] at hs hnle
  simp [_transmission, whileFuel, dofnum, dofadr, scMoment, scDet, sliderAxis, Mjw.Gen.Math.safe_div_F_F,
    Mjw.Gen.Math.safe_div_V3_F, hs, hnle]

/-! ## chain rule for the slider-crank length -/

/-- the slider-crank length `a·v − √((a·v)² + r² − v·v)` (regular branch; the kernel multiplies it by the gear) -/
noncomputable def scLength (a v : V3 ℝ) (r : ℝ) : ℝ := V3.dot v a - Real.sqrt (scDet a v r)

/-- **chain rule**: along any differentiable motion `t ↦ (a t, v t)` of the slider axis and of the slider→crank vector
    with velocities `da`, `dv` at `θ`, the derivative of the length is `dlda · da + dldv · dv` with exactly the kernel's
    `dlda = v (1 − av/√det)` and `dldv = a (1 − av/√det) + v/√det` (regular branch `det > 0`) -/
theorem hasDerivAt_scLength (a0 a1 a2 v0 v1 v2 : ℝ → ℝ) (da dv : V3 ℝ) (r θ : ℝ)
    (ha0 : HasDerivAt a0 da.c0 θ) (ha1 : HasDerivAt a1 da.c1 θ) (ha2 : HasDerivAt a2 da.c2 θ)
    (hv0 : HasDerivAt v0 dv.c0 θ) (hv1 : HasDerivAt v1 dv.c1 θ) (hv2 : HasDerivAt v2 dv.c2 θ)
    (hdet : 0 < scDet ⟨a0 θ, a1 θ, a2 θ⟩ ⟨v0 θ, v1 θ, v2 θ⟩ r) :
    HasDerivAt (fun t => scLength ⟨a0 t, a1 t, a2 t⟩ ⟨v0 t, v1 t, v2 t⟩ r)
      (let a : V3 ℝ := ⟨a0 θ, a1 θ, a2 θ⟩
       let v : V3 ℝ := ⟨v0 θ, v1 θ, v2 θ⟩
       let sdet := Real.sqrt (scDet a v r)
       let scale := 1 - V3.dot v a / sdet
       V3.dot (V3.muls v scale) da + V3.dot (V3.add (V3.muls a scale) (V3.divs v sdet)) dv) θ := by
  have hav : HasDerivAt (fun t => v0 t * a0 t + v1 t * a1 t + v2 t * a2 t)
      (dv.c0 * a0 θ + v0 θ * da.c0 + (dv.c1 * a1 θ + v1 θ * da.c1) + (dv.c2 * a2 θ + v2 θ * da.c2)) θ :=
    ((hv0.mul ha0).add (hv1.mul ha1)).add (hv2.mul ha2)
  have hvv : HasDerivAt (fun t => v0 t * v0 t + v1 t * v1 t + v2 t * v2 t)
      (dv.c0 * v0 θ + v0 θ * dv.c0 + (dv.c1 * v1 θ + v1 θ * dv.c1) + (dv.c2 * v2 θ + v2 θ * dv.c2)) θ :=
    ((hv0.mul hv0).add (hv1.mul hv1)).add (hv2.mul hv2)
  have hd : HasDerivAt (fun t => (v0 t * a0 t + v1 t * a1 t + v2 t * a2 t) * (v0 t * a0 t + v1 t * a1 t + v2 t * a2 t)
        + r * r - (v0 t * v0 t + v1 t * v1 t + v2 t * v2 t)) _ θ :=
    ((hav.mul hav).add_const (r * r)).sub hvv
  simp only [scDet, V3.dot, hadd, hmul] at hdet
  have hs : Real.sqrt ((v0 θ * a0 θ + v1 θ * a1 θ + v2 θ * a2 θ) * (v0 θ * a0 θ + v1 θ * a1 θ + v2 θ * a2 θ) + r * r
      - (v0 θ * v0 θ + v1 θ * v1 θ + v2 θ * v2 θ)) ≠ 0 := (Real.sqrt_pos.mpr hdet).ne'
  have hsq := hd.sqrt hdet.ne'
  have h := hav.sub hsq
  simp only [scLength, scDet, V3.dot, V3.muls, V3.add, V3.divs, hadd, hmul, hdiv]
  refine h.congr_deriv ?_
  field_simp
  ring

end Mjw.Lemmas.C22Trn
