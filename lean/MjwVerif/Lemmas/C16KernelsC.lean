/-
  C16 helper lemmas, kernel part C: `forward._next_time` (the overflow report), `collision_core.write_contact`
  and `collision_driver._add_geom_pair` (contact / broadphase-pair slots).
-/
import MjwVerif.Lemmas.C16
import MjwVerif.Gen.Forward
import MjwVerif.Gen.Collision_core
import MjwVerif.Gen.Collision_driver
set_option linter.unusedSimpArgs false
set_option linter.unusedVariables false
set_option linter.unusedTactic false
set_option linter.unreachableTactic false
set_option linter.unusedSectionVars false
namespace Mjw.Lemmas.C16
open Mjw
section next_time
variable {K : Type} [Scalar K] (opt_timestep : (Int → K)) (is_sparse : Bool) (nefc_in : (Int → Int)) (time_in : (Int → K)) (efc_J_rownnz_in : (Int → Int → Int)) (efc_J_rowadr_in : (Int → Int → Int)) (nworld_in : Int) (naconmax_in : Int) (njmax_in : Int) (njmax_nnz_in : Int) (nacon_in : (Int → Int)) (ncollision_in : (Int → Int)) (time_out : (Int → K)) (overflow_out : (Int → Int)) (opt_timestep_shape0 : Int) (st_warn_overflow : Bool) (tid0 : Int)
local notation "KW" => Gen.Forward._next_time_builder___next_time opt_timestep is_sparse nefc_in time_in efc_J_rownnz_in efc_J_rowadr_in nworld_in naconmax_in njmax_in njmax_nnz_in nacon_in ncollision_in time_out overflow_out opt_timestep_shape0 st_warn_overflow tid0

theorem lookupI_nil (arr : String) (idx : List Int) (d : Int) : Write.lookupI ([] : List (Write K)) arr idx d = d := rfl
theorem lookupI_snoc_other (ws : List (Write K)) (w : Write K) (arr : String) (idx : List Int) (d : Int)
    (h : w.arr ≠ arr) : Write.lookupI (ws ++ [w]) arr idx d = Write.lookupI ws arr idx d := by
  unfold Write.lookupI
  rw [List.foldl_append]
  simp [h]
theorem lookupI_snoc_set (ws : List (Write K)) (arr : String) (idx : List Int) (v d : Int) :
    Write.lookupI (ws ++ [⟨arr, idx, WVal.i v, WKind.set⟩]) arr idx d = v := by
  unfold Write.lookupI
  rw [List.foldl_append]
  simp
theorem lookupI_cons_other (ws : List (Write K)) (w : Write K) (arr : String) (idx : List Int) (d : Int)
    (h : w.arr ≠ arr) : Write.lookupI (w :: ws) arr idx d = Write.lookupI ws arr idx d := by
  unfold Write.lookupI
  simp [h]
theorem lookupI_ite (c : Prop) [Decidable c] (a b : List (Write K)) (arr : String) (idx : List Int) (d : Int) :
    Write.lookupI (if c then a else b) arr idx d = if c then Write.lookupI a arr idx d else Write.lookupI b arr idx d := by
  split <;> rfl
theorem hasBit_ite (c : Prop) [Decidable c] (x y b : Int) :
    hasBit (if c then x else y) b ↔ if c then hasBit x b else hasBit y b := by
  split <;> rfl

set_option maxHeartbeats 1000000 in
theorem next_time_overflow (b : Int) :
    hasBit (Write.lookupI KW "overflow_out" [tid0] (overflow_out tid0)) b ↔
      (hasBit (overflow_out tid0) b
        ∨ (nefc_in tid0 > njmax_in ∧ hasBit 1 b)
        ∨ ((¬ nefc_in tid0 > njmax_in ∧ nefc_in tid0 > 0 ∧ is_sparse = true
            ∧ efc_J_rowadr_in tid0 (min (nefc_in tid0) njmax_in - 1) + efc_J_rownnz_in tid0 (min (nefc_in tid0) njmax_in - 1) > njmax_nnz_in) ∧ hasBit 2 b)
        ∨ (ncollision_in 0 > naconmax_in ∧ hasBit 4 b)
        ∨ (nacon_in 0 > naconmax_in ∧ hasBit 8 b)) := by
  unfold Gen.Forward._next_time_builder___next_time
  have hne : ("time_out" : String) ≠ "overflow_out" := by decide
  simp only [fst_ite, snd_ite, lookupI_ite, lookupI_snoc_set, List.nil_append, lookupI_cons_other, lookupI_nil, hne,
    ne_eq, not_false_eq_true, hasBit_ite, hasBit_ior, decide_eq_true_eq, Bool.and_eq_true]
  by_cases h1 : nefc_in tid0 > njmax_in <;> by_cases h4 : ncollision_in 0 > naconmax_in <;>
    by_cases h8 : nacon_in 0 > naconmax_in <;> simp only [h1, h4, h8, if_true, if_false, true_and, false_and, or_false, false_or, not_true_eq_false, not_false_eq_true]
  all_goals (first | tauto | (split_ifs <;> tauto))

theorem next_time_time :
    AnyW (fun w => w.arr = "time_out" ∧ w.idx = [tid0] ∧ w.kind = .set ∧ w.val = WVal.f (time_in tid0 + opt_timestep (Int.tmod tid0 opt_timestep_shape0))) KW := by
  unfold Gen.Forward._next_time_builder___next_time
  ksimp []
end next_time

/-- slot safety of one write: everything except the counter itself is written at first index `slot`,
    and only if `slot < cap` -/
def SlotSafe {K : Type} (ctr : String) (slot cap : Int) (w : Write K) : Prop :=
  w.arr ≠ ctr → (∃ rest, w.idx = slot :: rest) ∧ slot < cap

/-! ### `collision_core.write_contact`  (k = 1, guard `cid < naconmax_in`) -/
section write_contact
variable {K : Type} [Scalar K] (naconmax_in : Int) (id_ : Int) (dist_in : K) (pos_in : V3 K) (frame_in : M33 K) (margin_in : K) (gap_in : K) (condim_in : Int) (friction_in : V5 K) (solref_in : V2 K) (solreffriction_in : V2 K) (solimp_in : V5 K) (adhesion_in : K) (geoms_in : I2) (pairid_in : I2) (worldid_in : Int) (contact_dist_out : (Int → K)) (contact_pos_out : (Int → V3 K)) (contact_frame_out : (Int → M33 K)) (contact_includemargin_out : (Int → K)) (contact_friction_out : (Int → V5 K)) (contact_solref_out : (Int → V2 K)) (contact_solreffriction_out : (Int → V2 K)) (contact_solimp_out : (Int → V5 K)) (contact_dim_out : (Int → Int)) (contact_geom_out : (Int → I2)) (contact_efc_address_out : (Int → Int → Int)) (contact_worldid_out : (Int → Int)) (contact_type_out : (Int → Int)) (contact_geomcollisionid_out : (Int → Int)) (contact_adhesion_out : (Int → K)) (nacon_out : (Int → Int)) (alloc0 : Int) (contact_efc_address_out_shape1 : Int)
local notation "KW" => Prod.snd (Gen.Collision_core.write_contact naconmax_in id_ dist_in pos_in frame_in margin_in gap_in condim_in friction_in solref_in solreffriction_in solimp_in adhesion_in geoms_in pairid_in worldid_in contact_dist_out contact_pos_out contact_frame_out contact_includemargin_out contact_friction_out contact_solref_out contact_solreffriction_out contact_solimp_out contact_dim_out contact_geom_out contact_efc_address_out contact_worldid_out contact_type_out contact_geomcollisionid_out contact_adhesion_out nacon_out alloc0 contact_efc_address_out_shape1)

set_option maxHeartbeats 1000000 in
theorem write_contact_safe : AllW (SlotSafe "nacon_out" alloc0 naconmax_in) KW := by
  unfold Gen.Collision_core.write_contact
  by_cases hg : alloc0 < naconmax_in
  · ksimp [hg, SlotSafe]
  · ksimp [hg, SlotSafe]
    all_goals (intros; omega)

set_option maxHeartbeats 1000000 in
theorem write_contact_slots (s : Int) : writesSlot KW "contact_dist_out" s ↔
    (reached KW "nacon_out" [0] ∧ alloc0 < naconmax_in ∧ s = alloc0) := by
  unfold Gen.Collision_core.write_contact
  by_cases hg : alloc0 < naconmax_in
  · ksimp [hg]
    all_goals (intros; try simp_all)
    all_goals (first | omega | tauto)
  · ksimp [hg]
end write_contact

/-! ### `collision_driver._add_geom_pair`  (k = 1, guard `pairid >= naconmax_in`) -/
section add_geom_pair
variable {K : Type} [Scalar K] (geom_type : (Int → Int)) (nxn_pairid : (Int → I2)) (naconmax_in : Int) (geom1 : Int) (geom2 : Int) (worldid : Int) (nxnid : Int) (ncollision_out : (Int → Int)) (collision_pair_out : (Int → I2)) (collision_pairid_out : (Int → I2)) (collision_worldid_out : (Int → Int)) (alloc0 : Int)
local notation "KW" => Gen.Collision_driver._add_geom_pair (K := K) geom_type nxn_pairid naconmax_in geom1 geom2 worldid nxnid ncollision_out collision_pair_out collision_pairid_out collision_worldid_out alloc0

theorem add_geom_pair_safe : AllW (SlotSafe "ncollision_out" alloc0 naconmax_in) KW := by
  unfold Gen.Collision_driver._add_geom_pair
  by_cases hg : alloc0 < naconmax_in
  · ksimp [hg, SlotSafe]
  · ksimp [hg, SlotSafe]
    all_goals (intros; omega)

theorem add_geom_pair_slots (s : Int) : writesSlot KW "collision_pair_out" s ↔
    (reached KW "ncollision_out" [0] ∧ alloc0 < naconmax_in ∧ s = alloc0) := by
  unfold Gen.Collision_driver._add_geom_pair
  by_cases hg : alloc0 < naconmax_in
  · ksimp [hg]
    all_goals (intros; try simp_all)
    all_goals (first | omega | tauto)
  · ksimp [hg]
end add_geom_pair
end Mjw.Lemmas.C16
