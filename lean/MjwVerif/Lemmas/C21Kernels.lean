/-
  Helper lemmas for property C21: kernel calculus for the generated sparse-LDL / mul_m tasks.
-/
import MjwVerif.Lemmas.Real
import MjwVerif.Gen.Smooth
import MjwVerif.Gen.Support

open Mjw

namespace Mjw.Lemmas.C21

section kcalc
variable {K : Type}

/-- `[f lo, f (lo+1), …, f (hi-1)]` -/
def rangeL {α : Type} (lo hi : Int) (f : Int → α) : List α :=
  (List.range (hi - lo).toNat).map (fun k => f (lo + Int.ofNat k))

theorem mem_rangeL {α : Type} {lo hi : Int} {f : Int → α} {x : α} :
    x ∈ rangeL lo hi f ↔ ∃ j : Int, lo ≤ j ∧ j < hi ∧ x = f j := by
  simp only [rangeL, List.mem_map, List.mem_range]
  constructor
  · rintro ⟨k, hk, rfl⟩
    exact ⟨lo + Int.ofNat k, by simp only [Int.ofNat_eq_natCast]; omega, by simp only [Int.ofNat_eq_natCast]; omega, rfl⟩
  · rintro ⟨j, h0, h1, rfl⟩
    refine ⟨(j - lo).toNat, by omega, ?_⟩
    congr 1
    simp only [Int.ofNat_eq_natCast]; omega

theorem rangeL_length {α : Type} (lo hi : Int) (f : Int → α) : (rangeL lo hi f).length = (hi - lo).toNat := by
  simp [rangeL]

theorem lookupF_of_no_write [Scalar K] (ws : List (Write K)) (arr : String) (idx : List Int) (d : K)
    (h : ∀ x ∈ ws, ¬ (x.arr = arr ∧ x.idx = idx)) : Write.lookupF ws arr idx d = d := by
  unfold Write.lookupF
  induction ws generalizing d with
  | nil => rfl
  | cons x xs ih =>
    have hx : ¬ (x.arr = arr ∧ x.idx = idx) := h x List.mem_cons_self
    have : (x.arr == arr && x.idx == idx) = false := by
      cases h1 : (x.arr == arr && x.idx == idx)
      · rfl
      · exfalso; apply hx; simpa using h1
    simp only [List.foldl_cons, this]
    exact ih d (fun y hy => h y (List.mem_cons_of_mem _ hy))

/-- a loop that in iteration `j` reads cell `arr[w, b + j]` and appends an update of cell `arr[w, a + j]` reads only
    pre-launch contents when the cells read are disjoint from the cells written -/
theorem foldl_rw_disjoint [Scalar K] (arr : String) (kind : WKind) (w a b lo : Int) (pre : Int → K) (g : Int → K → K) (m : Nat)
    (hd : ∀ j j' : Nat, j < m → j' < m → b + (lo + Int.ofNat j) ≠ a + (lo + Int.ofNat j')) :
    (List.range m).foldl (fun (st : List (Write K)) (k : Nat) =>
        st ++ [(Write.mk arr [w, a + (lo + Int.ofNat k)]
          (WVal.f (g (lo + Int.ofNat k) (Write.lookupF st arr [w, b + (lo + Int.ofNat k)] (pre (lo + Int.ofNat k))))) kind : Write K)]) []
      = (List.range m).map (fun k => (Write.mk arr [w, a + (lo + Int.ofNat k)]
          (WVal.f (g (lo + Int.ofNat k) (pre (lo + Int.ofNat k)))) kind : Write K)) := by
  induction m with
  | zero => rfl
  | succ m ih =>
    rw [List.range_succ, List.foldl_append, ih (fun j j' hj hj' => hd j j' (by omega) (by omega)), List.map_append]
    simp only [List.foldl_cons, List.foldl_nil, List.map_cons, List.map_nil]
    rw [lookupF_of_no_write]
    intro x hx hc
    simp only [List.mem_map, List.mem_range] at hx
    obtain ⟨k, hk, rfl⟩ := hx
    have := hc.2
    simp only [List.cons.injEq, and_true, true_and] at this
    exact hd m k (by omega) (by omega) this.symm

theorem forRange_rw_disjoint [Scalar K] (arr : String) (kind : WKind) (w a b lo hi : Int) (pre : Int → K) (g : Int → K → K)
    (hd : ∀ j j' : Int, lo ≤ j → j < hi → lo ≤ j' → j' < hi → b + j ≠ a + j') :
    forRange lo hi ([] : List (Write K)) (fun j st =>
        st ++ [(Write.mk arr [w, a + j] (WVal.f (g j (Write.lookupF st arr [w, b + j] (pre j)))) kind : Write K)])
      = rangeL lo hi (fun j => (Write.mk arr [w, a + j] (WVal.f (g j (pre j))) kind : Write K)) := by
  unfold forRange rangeL
  apply foldl_rw_disjoint
  intro j j' hj hj'
  apply hd <;> simp only [Int.ofNat_eq_natCast] <;> omega

/-- accumulation loop `for k in range(lo, hi): acc += t k` over ℝ -/
theorem foldl_acc_sum (t : Int → ℝ) (lo : Int) (m : Nat) (init : ℝ) :
    (List.range m).foldl (fun (s : ℝ) (k : Nat) => s + t (lo + Int.ofNat k)) init
      = init + ∑ k ∈ Finset.range m, t (lo + (k : Int)) := by
  induction m with
  | zero => simp
  | succ m ih =>
    rw [List.range_succ, List.foldl_append, ih, Finset.sum_range_succ]
    simp only [List.foldl_cons, List.foldl_nil, Int.ofNat_eq_natCast]
    ring

theorem forRange_acc_sum (t : Int → ℝ) (lo hi : Int) :
    forRange lo hi (0 : ℝ) (fun k acc => acc + t k) = ∑ k ∈ Finset.range (hi - lo).toNat, t (lo + (k : Int)) := by
  unfold forRange
  rw [foldl_acc_sum, zero_add]

end kcalc

section unfoldings
open Mjw.Gen.Smooth Mjw.Gen.Support
variable {K : Type} [Scalar K]

/-- `_qLD_acc` with the `let`s read off (definitional) -/
theorem qLD_acc_unfold (M_rownnz M_rowadr : Int → Int) (upd : Int → I3) (L_in L_out : Int → Int → K) (w node : Int) :
    _qLD_acc M_rownnz M_rowadr upd L_in L_out w node
      = forRange 0 (M_rownnz (upd node).c0) ([] : List (Write K)) (fun j st =>
          st ++ [(Write.mk "L_out" [w, M_rowadr (upd node).c0 + j]
            (WVal.f ((fun (_ : Int) (v : K) => v * (L_out w (upd node).c2
                / L_out w (M_rowadr (upd node).c1 + M_rownnz (upd node).c1 - 1))) j
              (Write.lookupF st "L_out" [w, M_rowadr (upd node).c1 + j] (L_in w (M_rowadr (upd node).c1 + j)))))
            WKind.asub : Write K)])
        ++ [(Write.mk "L_out" [w, (upd node).c2]
             (WVal.f (L_out w (upd node).c2 / L_out w (M_rowadr (upd node).c1 + M_rownnz (upd node).c1 - 1))) WKind.set : Write K)] :=
  rfl

end unfoldings

end Mjw.Lemmas.C21
