/-
  Helper definitions and lemmas for C35 (rendered depth / segmentation = nearest ray hit), at K = ℝ.
  * nearest-hit reduction of `RayCast.step / castFrom` (model of render.py `cast_ray`'s loop)
  * soundness of any pruned BVH traversal `RayCast.traverse` under the box-test contract `Sound`
  * geometric sufficient condition for `Sound` (nested boxes that contain the hit points)
-/
import MjwVerif.Lemmas.C34
import MjwVerif.Model.RayCast

namespace Mjw.Lemmas.C35
open Mjw Mjw.RayCast Mjw.Lemmas.C34

theorem lit0 : (Scalar.lit 0 0 : ℝ) = 0 := by norm_num
theorem litm1 : (Scalar.lit (-1) 0 : ℝ) = -1 := by norm_num
theorem stan (a : ℝ) : Scalar.tan a = Real.tan a := rfl

/-! ### 1. the loop body -/

theorem step_eq (b : Best ℝ) (i : Int) (d : ℝ) :
    step b i d = if 0 ≤ d ∧ d < b.dist then ⟨d, i⟩ else b := by
  simp only [step, Bool.and_eq_true, sge, slt, lit0]

theorem cull_eq (c : Bool) (d dt : ℝ) :
    cull c d dt = if c = true ∧ 0 ≤ d ∧ 0 < dt then -1 else d := by
  simp only [cull, Bool.and_eq_true, sge, sgt, lit0, litm1, and_assoc]

theorem castFrom_nil (b : Best ℝ) : castFrom b [] = b := rfl
theorem castFrom_cons (b : Best ℝ) (c : Int × ℝ) (L : List (Int × ℝ)) :
    castFrom b (c :: L) = castFrom (step b c.1 c.2) L := rfl
theorem castFrom_append (b : Best ℝ) (L M : List (Int × ℝ)) :
    castFrom b (L ++ M) = castFrom (castFrom b L) M := by
  simp only [castFrom, List.foldl_append]

/-- `r` is a nearest-hit answer for start state `b` and candidate list `L` (`(id, d)`, `d < 0` = miss):
    its distance is `≤` the start bound and `≤` every valid candidate distance, and it is either the start state
    itself or one of the valid candidates strictly below the start bound.  Depends on `L` only through membership. -/
structure IsNearest (b : Best ℝ) (L : List (Int × ℝ)) (r : Best ℝ) : Prop where
  le_start : r.dist ≤ b.dist
  le_hits : ∀ c ∈ L, 0 ≤ c.2 → r.dist ≤ c.2
  attained : r = b ∨ ∃ c ∈ L, 0 ≤ c.2 ∧ c.2 < b.dist ∧ r = ⟨c.2, c.1⟩

theorem IsNearest.nil (b : Best ℝ) : IsNearest b [] b :=
  ⟨le_refl _, fun _ hc => absurd hc (List.not_mem_nil), Or.inl rfl⟩

theorem IsNearest.step (b : Best ℝ) (i : Int) (d : ℝ) : IsNearest b [(i, d)] (step b i d) := by
  rw [step_eq]
  split_ifs with h
  · refine ⟨h.2.le, ?_, Or.inr ⟨(i, d), List.mem_singleton.mpr rfl, h.1, h.2, rfl⟩⟩
    intro c hc _
    rw [List.mem_singleton.mp hc]
  · refine ⟨le_refl _, ?_, Or.inl rfl⟩
    intro c hc h0
    rw [List.mem_singleton.mp hc] at h0 ⊢
    simp only at h0 ⊢
    by_contra hlt
    exact h ⟨h0, not_le.mp hlt⟩

theorem IsNearest.trans {b r1 r2 : Best ℝ} {L1 L2 : List (Int × ℝ)}
    (h1 : IsNearest b L1 r1) (h2 : IsNearest r1 L2 r2) : IsNearest b (L1 ++ L2) r2 := by
  refine ⟨h2.le_start.trans h1.le_start, ?_, ?_⟩
  · intro c hc h0
    rcases List.mem_append.mp hc with hc | hc
    · exact h2.le_start.trans (h1.le_hits c hc h0)
    · exact h2.le_hits c hc h0
  · rcases h2.attained with e | ⟨c, hc, h0, hlt, e⟩
    · rcases h1.attained with e1 | ⟨c, hc, h0, hlt, e1⟩
      · exact Or.inl (e.trans e1)
      · exact Or.inr ⟨c, List.mem_append.mpr (Or.inl hc), h0, hlt, e.trans e1⟩
    · exact Or.inr ⟨c, List.mem_append.mpr (Or.inr hc), h0, lt_of_lt_of_le hlt h1.le_start, e⟩

theorem IsNearest.congr {b r : Best ℝ} {L M : List (Int × ℝ)} (hLM : ∀ c, c ∈ L ↔ c ∈ M)
    (h : IsNearest b L r) : IsNearest b M r := by
  refine ⟨h.le_start, fun c hc => h.le_hits c ((hLM c).mpr hc), ?_⟩
  rcases h.attained with e | ⟨c, hc, h0, hlt, e⟩
  · exact Or.inl e
  · exact Or.inr ⟨c, (hLM c).mp hc, h0, hlt, e⟩

/-- the brute-force loop computes a nearest-hit answer -/
theorem castFrom_isNearest (L : List (Int × ℝ)) : ∀ b : Best ℝ, IsNearest b L (castFrom b L) := by
  induction L with
  | nil => intro b; exact IsNearest.nil b
  | cons c L ih =>
    intro b
    rw [castFrom_cons]
    have := (IsNearest.step b c.1 c.2).trans (ih (step b c.1 c.2))
    simpa using this

/-- nearest-hit answers have the same distance -/
theorem IsNearest.dist_unique {b r r' : Best ℝ} {L : List (Int × ℝ)}
    (h : IsNearest b L r) (h' : IsNearest b L r') : r.dist = r'.dist := by
  rcases h.attained with e | ⟨c, hc, h0, hlt, e⟩ <;> rcases h'.attained with e' | ⟨c', hc', h0', hlt', e'⟩
  · rw [e, e']
  · have := h.le_hits c' hc' h0'
    rw [e] at this
    linarith
  · have := h'.le_hits c hc h0
    rw [e'] at this
    linarith
  · have h1 := h.le_hits c' hc' h0'
    have h2 := h'.le_hits c hc h0
    rw [e] at h1 ⊢
    rw [e'] at h2 ⊢
    simp only at h1 h2 ⊢
    linarith

/-- no exact ties: two valid candidates with equal distance carry the same id -/
def NoTies (L : List (Int × ℝ)) : Prop :=
  ∀ c ∈ L, ∀ c' ∈ L, 0 ≤ c.2 → c.2 = c'.2 → c.1 = c'.1

/-- without exact ties the nearest-hit answer (distance AND id) is unique -/
theorem IsNearest.unique {b r r' : Best ℝ} {L : List (Int × ℝ)} (hnt : NoTies L)
    (h : IsNearest b L r) (h' : IsNearest b L r') : r = r' := by
  have hd := h.dist_unique h'
  rcases h.attained with e | ⟨c, hc, h0, hlt, e⟩ <;> rcases h'.attained with e' | ⟨c', hc', h0', hlt', e'⟩
  · rw [e, e']
  · rw [e, e'] at hd; simp only at hd; linarith
  · rw [e, e'] at hd; simp only at hd; linarith
  · rw [e, e'] at hd ⊢
    simp only at hd
    have := hnt c hc c' hc' h0 hd
    rw [hd, this]

/-- a miss or a hit at or beyond the bound leaves the state unchanged -/
theorem step_of_not_better (b : Best ℝ) (i : Int) (d : ℝ) (h : d < 0 ∨ b.dist ≤ d) : step b i d = b := by
  rw [step_eq, if_neg]
  rintro ⟨h0, h1⟩
  rcases h with h | h <;> linarith

/-- if no candidate is a valid hit below the bound, the loop returns its start state -/
theorem castFrom_of_no_better (L : List (Int × ℝ)) (b : Best ℝ)
    (h : ∀ c ∈ L, c.2 < 0 ∨ b.dist ≤ c.2) : castFrom b L = b := by
  induction L with
  | nil => rfl
  | cons c L ih =>
    rw [castFrom_cons, step_of_not_better b c.1 c.2 (h c (List.mem_cons_self ..))]
    exact ih (fun c' hc' => h c' (List.mem_cons_of_mem _ hc'))

/-! ### 2. pruned BVH traversal -/

/-- candidate list of a tree: its leaves with the distances the leaf callback computes -/
def cands {B : Type} (hitD : Int → ℝ) (t : BvhTree B) : List (Int × ℝ) := t.leaves.map (fun i => (i, hitD i))

/-- contract of the traversal's box test: a node whose subtree contains a primitive that the ray hits at a valid
    distance below the current bound `tmax` is not pruned. -/
def Sound {B : Type} (visit : B → ℝ → Bool) (hitD : Int → ℝ) : BvhTree B → Prop
  | .leaf b i => ∀ tmax, 0 ≤ hitD i → hitD i < tmax → visit b tmax = true
  | .node b l r =>
      (∀ i ∈ (BvhTree.node b l r).leaves, ∀ tmax, 0 ≤ hitD i → hitD i < tmax → visit b tmax = true) ∧
      Sound visit hitD l ∧ Sound visit hitD r

theorem mem_cands {B : Type} (hitD : Int → ℝ) (t : BvhTree B) (c : Int × ℝ) :
    c ∈ cands hitD t ↔ c.1 ∈ t.leaves ∧ c.2 = hitD c.1 := by
  simp only [cands, List.mem_map]
  constructor
  · rintro ⟨i, hi, rfl⟩; exact ⟨hi, rfl⟩
  · rintro ⟨hi, e⟩; exact ⟨c.1, hi, by rw [← e]⟩

theorem cands_node {B : Type} (hitD : Int → ℝ) (b : B) (l r : BvhTree B) :
    cands hitD (.node b l r) = cands hitD l ++ cands hitD r := by
  simp only [cands, BvhTree.leaves, List.map_append]

/-- a pruned subtree contains no valid hit below the bound -/
theorem pruned_isNearest {B : Type} (hitD : Int → ℝ) (t : BvhTree B) (b : Best ℝ)
    (h : ∀ i ∈ t.leaves, 0 ≤ hitD i → b.dist ≤ hitD i) : IsNearest b (cands hitD t) b := by
  refine ⟨le_refl _, ?_, Or.inl rfl⟩
  intro c hc h0
  obtain ⟨hi, e⟩ := (mem_cands hitD t c).mp hc
  rw [e] at h0 ⊢
  exact h c.1 hi h0

/-- **traversal soundness**: every pruned depth-first traversal whose box test satisfies `Sound` computes a
    nearest-hit answer over ALL leaves of the tree, for every tree shape, child order and start state. -/
theorem traverse_isNearest {B : Type} (visit : B → ℝ → Bool) (order : B → ℝ → Bool) (hitD : Int → ℝ) :
    ∀ (t : BvhTree B) (b : Best ℝ), Sound visit hitD t →
      IsNearest b (cands hitD t) (traverse visit order hitD t b) := by
  intro t
  induction t with
  | leaf bx i =>
    intro b hs
    simp only [RayCast.traverse]
    split_ifs with hv
    · exact IsNearest.step b i (hitD i)
    · refine pruned_isNearest hitD (.leaf bx i) b ?_
      intro j hj h0
      simp only [BvhTree.leaves, List.mem_singleton] at hj
      subst hj
      by_contra hlt
      exact hv (hs b.dist h0 (not_le.mp hlt))
  | node bx l r ihl ihr =>
    intro b hs
    obtain ⟨hb, hl, hr⟩ := hs
    simp only [RayCast.traverse]
    split_ifs with hv ho
    · have h1 := ihr b hr
      have h2 := ihl (traverse visit order hitD r b) hl
      rw [cands_node]
      refine (h1.trans h2).congr ?_
      intro c
      simp only [List.mem_append]
      exact or_comm
    · have h1 := ihl b hl
      have h2 := ihr (traverse visit order hitD l b) hr
      rw [cands_node]
      exact h1.trans h2
    · refine pruned_isNearest hitD (.node bx l r) b ?_
      intro j hj h0
      by_contra hlt
      exact hv (hb j hj b.dist h0 (not_le.mp hlt))

/-! ### 3. geometric sufficient condition for `Sound` -/

/-- point inside the closed axis-aligned box -/
def _root_.Mjw.RayCast.Box.contains (b : Box ℝ) (p : V3 ℝ) : Prop :=
  b.lo.c0 ≤ p.c0 ∧ p.c0 ≤ b.hi.c0 ∧ b.lo.c1 ≤ p.c1 ∧ p.c1 ≤ b.hi.c1 ∧ b.lo.c2 ≤ p.c2 ∧ p.c2 ≤ b.hi.c2

/-- box `a` lies inside box `b` -/
def _root_.Mjw.RayCast.Box.sub (a b : Box ℝ) : Prop :=
  b.lo.c0 ≤ a.lo.c0 ∧ a.hi.c0 ≤ b.hi.c0 ∧ b.lo.c1 ≤ a.lo.c1 ∧ a.hi.c1 ≤ b.hi.c1 ∧ b.lo.c2 ≤ a.lo.c2 ∧ a.hi.c2 ≤ b.hi.c2

theorem _root_.Mjw.RayCast.Box.contains_of_sub {a b : Box ℝ} (h : Box.sub a b) {p : V3 ℝ} (hp : a.contains p) : b.contains p := by
  obtain ⟨h0, h1, h2, h3, h4, h5⟩ := h
  obtain ⟨p0, p1, p2, p3, p4, p5⟩ := hp
  exact ⟨h0.trans p0, p1.trans h1, h2.trans p2, p3.trans h3, h4.trans p4, p5.trans h5⟩

/-- every inner node's box contains the boxes of its two children (what a BVH build / refit guarantees) -/
def Nested : BvhTree (Box ℝ) → Prop
  | .leaf _ _ => True
  | .node b l r => Box.sub l.box b ∧ Box.sub r.box b ∧ Nested l ∧ Nested r

/-- every leaf's box contains the point where the ray hits its primitive (if it does) -/
def LeafOK (pnt vec : V3 ℝ) (hitD : Int → ℝ) : BvhTree (Box ℝ) → Prop
  | .leaf b i => 0 ≤ hitD i → b.contains (rayPt pnt vec (hitD i))
  | .node _ l r => LeafOK pnt vec hitD l ∧ LeafOK pnt vec hitD r

/-- contract of a ray/box test (e.g. the slab test with `t_max` = current best): a box that contains a ray point
    `pnt + t·vec` with `0 ≤ t < tmax` is reported as hit. -/
def VisitOK (pnt vec : V3 ℝ) (visit : Box ℝ → ℝ → Bool) : Prop :=
  ∀ (b : Box ℝ) (tmax t : ℝ), 0 ≤ t → t < tmax → b.contains (rayPt pnt vec t) → visit b tmax = true

theorem root_contains (pnt vec : V3 ℝ) (hitD : Int → ℝ) :
    ∀ t : BvhTree (Box ℝ), Nested t → LeafOK pnt vec hitD t →
      ∀ i ∈ t.leaves, 0 ≤ hitD i → t.box.contains (rayPt pnt vec (hitD i)) := by
  intro t
  induction t with
  | leaf b i =>
    intro _ hl j hj h0
    simp only [BvhTree.leaves, List.mem_singleton] at hj
    subst hj
    exact hl h0
  | node b l r ihl ihr =>
    intro hn hl j hj h0
    obtain ⟨sl, sr, nl, nr⟩ := hn
    obtain ⟨ll, lr⟩ := hl
    simp only [BvhTree.leaves, List.mem_append] at hj
    rcases hj with hj | hj
    · exact Box.contains_of_sub sl (ihl nl ll j hj h0)
    · exact Box.contains_of_sub sr (ihr nr lr j hj h0)

/-- nested boxes + leaf boxes containing the hit points + a correct ray/box test ⇒ the traversal contract -/
theorem sound_of_geometry (pnt vec : V3 ℝ) (visit : Box ℝ → ℝ → Bool) (hitD : Int → ℝ)
    (hv : VisitOK pnt vec visit) :
    ∀ t : BvhTree (Box ℝ), Nested t → LeafOK pnt vec hitD t → Sound visit hitD t := by
  intro t
  induction t with
  | leaf b i =>
    intro _ hl tmax h0 hlt
    exact hv b tmax (hitD i) h0 hlt (hl h0)
  | node b l r ihl ihr =>
    intro hn hl
    refine ⟨?_, ihl hn.2.2.1 hl.1, ihr hn.2.2.2 hl.2⟩
    intro i hi tmax h0 hlt
    exact hv b tmax (hitD i) h0 hlt (root_contains pnt vec hitD (.node b l r) hn hl i hi h0)

/-- the standard slab test `∃ t ∈ [0, tmax), pnt + t·vec ∈ box`, as a Bool by classical choice: satisfies `VisitOK`
    (non-vacuity of the contract). -/
noncomputable def slabVisit (pnt vec : V3 ℝ) (b : Box ℝ) (tmax : ℝ) : Bool :=
  @decide (∃ t : ℝ, 0 ≤ t ∧ t < tmax ∧ b.contains (rayPt pnt vec t)) (Classical.propDecidable _)

theorem slabVisit_ok (pnt vec : V3 ℝ) : VisitOK pnt vec (slabVisit pnt vec) := by
  intro b tmax t h0 hlt hc
  simp only [slabVisit, decide_eq_true_eq]
  exact ⟨t, h0, hlt, hc⟩

end Mjw.Lemmas.C35
