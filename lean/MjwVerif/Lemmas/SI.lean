/-
  E3 metatheorem SI-sched (schedule independence of one launch) over the abstract task calculus of NI.lean.
  If, within one launch, no task depends on a location another task writes and no two tasks write the same
  location, then every serial order of the tasks (every permutation) produces the same memory.
  Atomic accumulations are covered by `accumulate_perm`: a fold of a commutative-associative update over the
  contributions is order independent.
-/
import MjwVerif.Lemmas.NI
import Mathlib.Data.List.Perm.Basic

namespace Mjw.SI
open Mjw.NI

variable {V : Type}

/-- `reads t l`: task `t` may depend on location `l`;  `writes t l`: task `t` may write `l`. -/
structure Footprint (t : NI.Task V) (reads writes : Loc → Prop) : Prop where
  dep : ∀ m m' : Memory V, (∀ l, reads l → m l = m' l) → t.run m = t.run m'
  wr : ∀ (m : Memory V) (p : Loc × V), p ∈ t.run m → writes p.1

/-- two tasks are independent if neither writes what the other reads or writes -/
def Indep (r₁ w₁ r₂ w₂ : Loc → Prop) : Prop :=
  (∀ l, w₁ l → ¬ r₂ l) ∧ (∀ l, w₂ l → ¬ r₁ l) ∧ (∀ l, w₁ l → ¬ w₂ l)

theorem applyWrites_comm (m : Memory V) (a b : List (Loc × V))
    (h : ∀ p ∈ a, ∀ q ∈ b, p.1 ≠ q.1) (l : Loc) :
    applyWrites (applyWrites m a) b l = applyWrites (applyWrites m b) a l := by
  by_cases ha : ∀ p ∈ a, p.1 ≠ l
  · rw [applyWrites_other (applyWrites m b) a l ha]
    exact applyWrites_congr _ _ b l (applyWrites_other m a l ha)
  · -- l is written by a, hence not by b
    have hb : ∀ q ∈ b, q.1 ≠ l := by
      intro q hq heq
      apply ha
      intro p hp hpl
      exact h p hp q hq (hpl.trans heq.symm)
    rw [applyWrites_other (applyWrites m a) b l hb]
    exact (applyWrites_congr _ _ a l (applyWrites_other m b l hb)).symm

theorem swap_exec (t₁ t₂ : NI.Task V) (r₁ w₁ r₂ w₂ : Loc → Prop)
    (f₁ : Footprint t₁ r₁ w₁) (f₂ : Footprint t₂ r₂ w₂) (hi : Indep r₁ w₁ r₂ w₂) (m : Memory V) (l : Loc) :
    exec m [t₁, t₂] l = exec m [t₂, t₁] l := by
  obtain ⟨h12, h21, hww⟩ := hi
  simp only [exec, List.foldl_cons, List.foldl_nil]
  have e2 : t₂.run (applyWrites m (t₁.run m)) = t₂.run m := by
    apply f₂.dep
    intro l' hl'
    apply applyWrites_other
    intro p hp heq
    exact h12 l' (heq ▸ f₁.wr m p hp) hl'
  have e1 : t₁.run (applyWrites m (t₂.run m)) = t₁.run m := by
    apply f₁.dep
    intro l' hl'
    apply applyWrites_other
    intro p hp heq
    exact h21 l' (heq ▸ f₂.wr m p hp) hl'
  rw [e2, e1]
  apply applyWrites_comm
  intro p hp q hq heq
  exact hww p.1 (f₁.wr m p hp) (heq ▸ f₂.wr m q hq)

theorem exec_congr (ts : List (NI.Task V)) (m m' : Memory V) (h : ∀ l, m l = m' l) : ∀ l, exec m ts l = exec m' ts l := by
  have : m = m' := funext h
  subst this; intro l; rfl

/-- **SI-sched**: with per-task footprints that are pairwise independent, every permutation of the launch's
    task list yields the same final memory. -/
theorem sched_independent (reads writes : NI.Task V → Loc → Prop)
    (ts ts' : List (NI.Task V)) (hp : ts.Perm ts')
    (hf : ∀ t ∈ ts, Footprint t (reads t) (writes t))
    (hi : ∀ t ∈ ts, ∀ t' ∈ ts, t ≠ t' → Indep (reads t) (writes t) (reads t') (writes t'))
    (hnd : ts.Nodup) (m : Memory V) : ∀ l, exec m ts l = exec m ts' l := by
  induction hp generalizing m with
  | nil => intro l; rfl
  | cons t _ ih =>
    intro l
    simp only [exec, List.foldl_cons]
    have hnd' := List.nodup_cons.mp hnd
    exact ih (fun t' ht' => hf t' (by simp [ht'])) (fun a ha b hb hab => hi a (by simp [ha]) b (by simp [hb]) hab) hnd'.2 _ l
  | swap a b rest =>
    intro l
    have hab : b ≠ a := by
      intro e; subst e
      have := List.nodup_cons.mp hnd
      simp at this
    have hsw := swap_exec b a _ _ _ _ (hf b (by simp)) (hf a (by simp)) (hi b (by simp) a (by simp) hab) m
    have : ∀ l, exec m [b, a] l = exec m [a, b] l := hsw
    simp only [exec, List.foldl_cons, List.foldl_nil] at this ⊢
    exact exec_congr rest _ _ this l
  | trans h₁ h₂ ih₁ ih₂ =>
    intro l
    rw [ih₁ hf hi hnd m l]
    apply ih₂
    · intro t ht; exact hf t (h₁.mem_iff.mpr ht)
    · intro t ht t' ht' hne; exact hi t (h₁.mem_iff.mpr ht) t' (h₁.mem_iff.mpr ht') hne
    · exact h₁.nodup_iff.mp hnd

/-- atomic accumulations: folding a commutative, associative update over the contributions does not depend on
    their order (what `wp.atomic_add/min/max/or` on one cell compute, up to float round-off for `add`). -/
theorem accumulate_perm {α β : Type} (f : β → α → β) (hf : ∀ b a₁ a₂, f (f b a₁) a₂ = f (f b a₂) a₁)
    (l l' : List α) (hp : l.Perm l') (init : β) : l.foldl f init = l'.foldl f init := by
  induction hp generalizing init with
  | nil => rfl
  | cons a _ ih => simp only [List.foldl_cons]; exact ih _
  | swap a b rest => simp only [List.foldl_cons]; rw [hf]
  | trans _ _ ih₁ ih₂ => rw [ih₁, ih₂]

end Mjw.SI
